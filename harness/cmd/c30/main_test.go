// c30: correspondence and monitor harness for C30 (sleep mode follows its
// state machine for every interleaving).
//
// Implementation under test: a real sleep.Manager (Sleep, Wake, its poll
// timer, Poll, persistState) in a testing/synctest bubble. The harness's
// callbacks block on harness gates, so that each action of a schedule is one
// atomic step (or a fixed short run of steps) of the model:
//
//	sleep / wake   start a goroutine calling Sleep() / Wake() (the lock is free);
//	               it either is refused or blocks inside OnSleep / OnWake holding the lock
//	finish j       let the callback of requester j return (state store, timer, persist, unlock)
//	fire           advance virtual time past the poll interval (the armed timer, if any, fires and
//	               Poll() runs until it blocks inside OnPoll, is skipped, or waits for the lock)
//	enter k        let the k-th poll that passed its first critical section go on into OnPoll (it is held at the
//	               verif scheduling point between Poll's unlock and the callback call)
//	pollend k      let the k-th entered OnPoll callback return (PollDuration 1 ms elapses, Poll re-locks)
//
// After every action: GetState(), the state file, the callback log, the
// results of the requesters and whether the state file was written.
package main

import (
	"encoding/json"
	"fmt"
	"os"
	"path/filepath"
	"runtime"
	"strings"
	"sync"
	"testing"
	"testing/synctest"
	"time"

	"github.com/postalsys/muti-metroo/internal/agent"
	"github.com/postalsys/muti-metroo/internal/config"
	"github.com/postalsys/muti-metroo/internal/logging"
	"github.com/postalsys/muti-metroo/internal/sleep"
	"github.com/postalsys/muti-metroo/verifharness/scx"
	"github.com/postalsys/muti-metroo/verifharness/vh"
)

const interval = time.Hour

type action struct {
	Kind string `json:"kind"` // sleep | wake | finish | finishfail (the OnSleep/OnWake callback returns an error) | fire | enter | pollend | pollfail (OnPoll returns an error) | pollcall | stop-load | stop-start | crash-load | crash-start
	Idx  int    `json:"idx,omitempty"`
}

func (a action) String() string {
	switch a.Kind {
	case "finish", "finishfail", "pollend", "pollfail", "enter":
		return fmt.Sprintf("%s%d", a.Kind, a.Idx)
	}
	return a.Kind
}

type caseSpec struct {
	Actions []action `json:"actions"`
	Why     string   `json:"why,omitempty"`
	// replay of the scenarios that are not action schedules
	Scenario string `json:"scenario,omitempty"`
	DelayMs  int    `json:"delay_ms,omitempty"`
	Wake     *bool  `json:"wake_while_held_before_disconnect,omitempty"`
}

type obs struct {
	State   int   `json:"state"`
	Persist int   `json:"persist"`
	Log     []int `json:"log"`     // 0 OnSleep 1 OnWake 2 OnPoll 3 OnPollEnd
	Results []int `json:"results"` // per requester: 0 running, 1 ok, 2 ErrAlreadySleeping, 3 ErrNotSleeping, 9 other
	Writes  int   `json:"writes"`
	Started int   `json:"started"` // polls that have passed their first critical section
	InCb    int   `json:"-"`
}

type world struct {
	mu         sync.Mutex
	log        []int
	results    []int
	kinds      []string // requester kinds
	inCb       int      // requester currently inside OnSleep/OnWake (-1 none)
	reqGate    chan struct{}
	pollGates  []chan struct{}
	pollOpen   []bool
	pollFail   []bool // the OnPoll callback returns an error when released
	enterGates []chan struct{}
	enterOpen  []bool
	starting   int  // requester being started (its goroutine id for the callback)
	epoch      int  // process lifetime; callbacks of an earlier lifetime do nothing
	reqFail    bool // the callback the requester sits in returns an error when released
}

func readPersist(path string) (int, bool) {
	b, err := os.ReadFile(path)
	if err != nil {
		return 0, false
	}
	var p struct {
		State int `json:"state"`
	}
	if json.Unmarshal(b, &p) != nil {
		return -1, true
	}
	return p.State, true
}

// markFile re-writes the state file with an extra field the manager never
// writes: a later file without the field was written by the manager.
func markFile(path string) {
	b, err := os.ReadFile(path)
	if err != nil {
		return
	}
	var m map[string]json.RawMessage
	if json.Unmarshal(b, &m) != nil {
		return
	}
	m["verif_marker"] = json.RawMessage("1")
	if nb, err := json.Marshal(m); err == nil {
		os.WriteFile(path, nb, 0o600)
	}
}

func hasMarker(path string) (exists, marked bool) {
	b, err := os.ReadFile(path)
	if err != nil {
		return false, false
	}
	var m map[string]json.RawMessage
	if json.Unmarshal(b, &m) != nil {
		return true, false
	}
	_, marked = m["verif_marker"]
	return true, marked
}

// runCase executes the actions (skipping those that are not enabled when
// their turn comes) and reports the executed ones, the observations and the
// actions enabled at the end.
func runCase(t *testing.T, dir string, cs *caseSpec) (out []obs, done []action, enabled []action, panicked string) {
	synctest.Test(t, func(t *testing.T) {
		panicked = vh.Recover(func() {
			w := &world{inCb: -1}
			cfg := config.SleepConfig{Enabled: true, PollInterval: interval, PollIntervalJitter: 0, PollDuration: time.Millisecond, PersistState: true}
			stateFile := filepath.Join(dir, "sleep_state.json")
			os.Remove(stateFile)
			os.Remove(stateFile + ".tmp")
			// one Manager per process lifetime; callbacks of an ended lifetime do nothing
			newManager := func() *sleep.Manager {
				w.mu.Lock()
				ep := w.epoch
				w.mu.Unlock()
				dead := func() bool { return w.epoch != ep }
				block := func(code int) func() error {
					return func() error {
						w.mu.Lock()
						if dead() {
							w.mu.Unlock()
							return nil
						}
						w.log = append(w.log, code)
						w.inCb = w.starting
						g := make(chan struct{})
						w.reqGate = g
						w.mu.Unlock()
						<-g
						w.mu.Lock()
						fail := w.reqFail
						w.reqFail = false
						w.mu.Unlock()
						if fail {
							return errCallback
						}
						return nil
					}
				}
				m := sleep.NewManager(cfg, dir, logging.NewLogger("error", "text"))
				m.SetCallbacks(sleep.Callbacks{
					OnSleep: block(0),
					OnWake:  block(1),
					OnPoll: func() error {
						w.mu.Lock()
						if dead() {
							w.mu.Unlock()
							return nil
						}
						w.log = append(w.log, 2)
						g := make(chan struct{})
						w.pollGates = append(w.pollGates, g)
						w.pollOpen = append(w.pollOpen, true)
						w.pollFail = append(w.pollFail, false)
						k := len(w.pollGates) - 1
						w.mu.Unlock()
						<-g
						w.mu.Lock()
						fail := w.pollFail[k]
						w.mu.Unlock()
						if fail {
							return fmt.Errorf("poll failed (harness)")
						}
						return nil
					},
					OnPollEnd: func() error {
						w.mu.Lock()
						if !dead() {
							w.log = append(w.log, 3)
						}
						w.mu.Unlock()
						return nil
					},
				})
				return m
			}
			mgr := newManager()
			sleep.VerifSetYieldHook(func(point string) {
				if point != "sleep.poll.before-onpoll" {
					return
				}
				w.mu.Lock()
				g := make(chan struct{})
				w.enterGates = append(w.enterGates, g)
				w.enterOpen = append(w.enterOpen, true)
				w.mu.Unlock()
				<-g
			})
			defer sleep.VerifSetYieldHook(nil)
			persist, writes := 0, 0
			observe := func() obs {
				synctest.Wait()
				if exists, marked := hasMarker(stateFile); exists && !marked {
					if st, ok := readPersist(stateFile); ok {
						persist = st
					}
					writes++
					markFile(stateFile)
				}
				w.mu.Lock()
				defer w.mu.Unlock()
				return obs{State: int(mgr.GetState()), Persist: persist, Log: append([]int(nil), w.log...), Results: append([]int(nil), w.results...), Writes: writes, Started: len(w.enterGates), InCb: w.inCb}
			}
			releasePollers := func() {
				w.mu.Lock()
				for k, open := range w.enterOpen {
					if open {
						close(w.enterGates[k])
						w.enterOpen[k] = false
					}
				}
				w.mu.Unlock()
				synctest.Wait()
				w.mu.Lock()
				for k, open := range w.pollOpen {
					if open {
						close(w.pollGates[k])
						w.pollOpen[k] = false
					}
				}
				w.mu.Unlock()
				synctest.Wait()
			}
			isEnabled := func(a action) bool {
				w.mu.Lock()
				defer w.mu.Unlock()
				switch a.Kind {
				case "sleep", "wake", "pollcall", "stop-load", "stop-start", "crash-load", "crash-start":
					return w.inCb == -1
				case "finish", "finishfail":
					return w.inCb == a.Idx && a.Idx >= 0
				case "fire":
					// While a requester sits in its callback the lock is held; a Poll started then
					// would wait on the mutex, which synctest does not treat as durably blocked
					// (deadlock panic). Polls that contend for the lock are exercised by the
					// real-time scenarios below.
					return w.inCb == -1
				case "enter":
					return a.Idx >= 0 && a.Idx < len(w.enterOpen) && w.enterOpen[a.Idx]
				case "pollend", "pollfail":
					return w.inCb == -1 && a.Idx >= 0 && a.Idx < len(w.pollOpen) && w.pollOpen[a.Idx]
				}
				return false
			}
			for _, a := range cs.Actions {
				if !isEnabled(a) {
					continue // not enabled here: skipped, the executed schedule is what is recorded
				}
				done = append(done, a)
				switch a.Kind {
				case "sleep", "wake":
					w.mu.Lock()
					j := len(w.results)
					w.results = append(w.results, 0)
					w.kinds = append(w.kinds, a.Kind)
					w.starting = j
					w.mu.Unlock()
					go func(kind string, m *sleep.Manager) {
						var err error
						if kind == "sleep" {
							err = m.Sleep()
						} else {
							err = m.Wake()
						}
						code := 9
						switch err {
						case nil:
							code = 1
						case sleep.ErrAlreadySleeping:
							code = 2
						case sleep.ErrNotSleeping:
							code = 3
						case errCallback:
							code = 5
						}
						w.mu.Lock()
						w.results[j] = code
						if w.inCb == j {
							w.inCb = -1
						}
						w.mu.Unlock()
					}(a.Kind, mgr)
				case "finish", "finishfail":
					w.mu.Lock()
					g := w.reqGate
					w.reqFail = a.Kind == "finishfail"
					w.mu.Unlock()
					close(g)
				case "fire":
					time.Sleep(interval + time.Millisecond)
				case "pollcall":
					go func(m *sleep.Manager) { m.Poll() }(mgr)
				case "enter":
					w.mu.Lock()
					g := w.enterGates[a.Idx]
					w.enterOpen[a.Idx] = false
					w.mu.Unlock()
					close(g)
				case "pollend", "pollfail":
					w.mu.Lock()
					g := w.pollGates[a.Idx]
					w.pollOpen[a.Idx] = false
					w.pollFail[a.Idx] = a.Kind == "pollfail"
					w.mu.Unlock()
					close(g)
					time.Sleep(2 * time.Millisecond)
				case "stop-load", "stop-start", "crash-load", "crash-start":
					// end of the process: Stop() (which writes the current state), or a crash,
					// imitated by putting the file back as it was before Stop() wrote it
					synctest.Wait()
					var saved []byte
					crash := strings.HasPrefix(a.Kind, "crash")
					if crash {
						saved, _ = os.ReadFile(stateFile)
					}
					mgr.Stop()
					if crash {
						if saved != nil {
							os.WriteFile(stateFile, saved, 0o600)
						} else {
							os.Remove(stateFile)
						}
					}
					w.mu.Lock()
					w.epoch++
					w.mu.Unlock()
					releasePollers()
					// the new process
					mgr = newManager()
					if strings.HasSuffix(a.Kind, "start") {
						mgr.Start()
					} else {
						mgr.LoadState()
					}
				}
				out = append(out, observe())
			}
			// what could come next
			w.mu.Lock()
			nReq, nPoll, nEnter := len(w.results), len(w.pollOpen), len(w.enterOpen)
			w.mu.Unlock()
			cands := []action{{Kind: "sleep"}, {Kind: "wake"}, {Kind: "fire"}, {Kind: "pollcall"}, {Kind: "stop-load"}, {Kind: "stop-start"}, {Kind: "crash-load"}, {Kind: "crash-start"}}
			for j := 0; j < nReq; j++ {
				cands = append(cands, action{Kind: "finish", Idx: j}, action{Kind: "finishfail", Idx: j})
			}
			for k := 0; k < nEnter; k++ {
				cands = append(cands, action{Kind: "enter", Idx: k})
			}
			for k := 0; k < nPoll; k++ {
				cands = append(cands, action{Kind: "pollend", Idx: k}, action{Kind: "pollfail", Idx: k})
			}
			for _, a := range cands {
				if isEnabled(a) {
					enabled = append(enabled, a)
				}
			}
			// wind down: free the lock holder, stop the manager, free the pollers
			w.mu.Lock()
			if w.inCb != -1 {
				close(w.reqGate)
			}
			w.mu.Unlock()
			synctest.Wait()
			mgr.Stop()
			w.mu.Lock()
			w.epoch++
			w.mu.Unlock()
			releasePollers()
			time.Sleep(5 * time.Millisecond)
			synctest.Wait()
		})
	})
	return
}

// agentDoPoll runs the agent-level interleaving of C30 on a real agent: the
// agent's own OnPoll callback (doPoll) has read "not awake" and is held at
// the verif scheduling point before DisconnectAll while a Wake() completes.
// Returns the sleep state and whether the peer manager is paused (the mark
// DisconnectAll leaves) before and after the held goroutine is let go.
type agentObs struct {
	Reached      bool   `json:"reached_scheduling_point"`
	StateAfter   int    `json:"state_after_wake"`
	PausedAtWake bool   `json:"paused_when_wake_completed"`
	PausedEnd    bool   `json:"paused_at_end"`
	WakeErr      string `json:"wake_err,omitempty"`
}

func agentDoPoll(t *testing.T, dir string, wakeDuringWindow bool) (o agentObs, panicked string) {
	synctest.Test(t, func(t *testing.T) {
		panicked = vh.Recover(func() {
			cfg := config.Default()
			cfg.Agent.ID = "a0a0a0a0a0a0a0a0a0a0a0a0a0a00000"
			cfg.Agent.DataDir = dir
			cfg.Agent.LogLevel = "error"
			cfg.UDP.Enabled = false
			cfg.ICMP.Enabled = false
			cfg.SOCKS5.Enabled = false
			cfg.HTTP.Enabled = false
			cfg.Listeners = nil
			cfg.Peers = nil
			cfg.Sleep.Enabled = true
			cfg.Sleep.PersistState = false
			cfg.Sleep.PollInterval = time.Hour
			cfg.Sleep.PollIntervalJitter = 0
			cfg.Sleep.PollDuration = time.Second
			a, err := agent.New(cfg)
			if err != nil {
				panic(err)
			}
			held := make(chan struct{})
			release := make(chan struct{})
			agent.VerifSetYieldHook(func(point string) {
				if point == "agent.dopoll.before-disconnect" {
					close(held)
					<-release
				}
			})
			defer agent.VerifSetYieldHook(nil)
			mgr := a.VerifInitSleepManager(sleep.Callbacks{
				OnSleep: func() error { return nil },
				OnWake:  func() error { return nil },
				OnPoll:  a.VerifDoPoll,
			})
			defer func() {
				mgr.Stop()
				a.Stop()
			}()
			if err := mgr.Sleep(); err != nil {
				panic(err)
			}
			time.Sleep(time.Hour + time.Second) // the poll timer fires, doPoll starts
			time.Sleep(2 * time.Second)         // its poll window (PollDuration) ends, doPoll reads the state
			synctest.Wait()
			select {
			case <-held:
				o.Reached = true
			default:
				close(release)
				return
			}
			if wakeDuringWindow {
				if err := mgr.Wake(); err != nil {
					o.WakeErr = err.Error()
				}
			}
			o.StateAfter = int(mgr.GetState())
			o.PausedAtWake = a.VerifPeersPaused()
			close(release)
			synctest.Wait()
			time.Sleep(10 * time.Millisecond)
			synctest.Wait()
			o.PausedEnd = a.VerifPeersPaused()
		})
	})
	return
}

// agentLocalWake: the agent's own poll cycle (doPoll) is in its poll_duration
// wait when the agent is woken through the local path (what Agent.TriggerWake
// / POST /wake do first: sleepMgr.Wake(), no mesh WAKE frame, so nothing
// cancels the poll context). When the wait ends doPoll must see AWAKE and keep
// the connections. Reports whether doPoll went on to its DisconnectAll.
type localWakeObs struct {
	WakeErr           string `json:"wake_err,omitempty"`
	StateAtEnd        int    `json:"state_at_end"`
	ReachedDisconnect bool   `json:"dopoll_reached_disconnect"`
	PausedEnd         bool   `json:"paused_at_end"`
	WakeAfterMs       int64  `json:"wake_after_ms"`
}

func agentLocalWake(t *testing.T, dir string, wakeAfterMs int64) (o localWakeObs, panicked string) {
	o.WakeAfterMs = wakeAfterMs
	synctest.Test(t, func(t *testing.T) {
		panicked = vh.Recover(func() {
			cfg := config.Default()
			cfg.Agent.ID = "a0a0a0a0a0a0a0a0a0a0a0a0a0a00000"
			cfg.Agent.DataDir = dir
			cfg.Agent.LogLevel = "error"
			cfg.UDP.Enabled, cfg.ICMP.Enabled, cfg.SOCKS5.Enabled, cfg.HTTP.Enabled = false, false, false, false
			cfg.Listeners, cfg.Peers = nil, nil
			cfg.Sleep.Enabled = true
			cfg.Sleep.PersistState = false
			cfg.Sleep.PollInterval = time.Hour
			cfg.Sleep.PollIntervalJitter = 0
			cfg.Sleep.PollDuration = 30 * time.Second
			a, err := agent.New(cfg)
			if err != nil {
				panic(err)
			}
			var mu sync.Mutex
			agent.VerifSetYieldHook(func(point string) {
				if point == "agent.dopoll.before-disconnect" {
					mu.Lock()
					o.ReachedDisconnect = true
					mu.Unlock()
				}
			})
			defer agent.VerifSetYieldHook(nil)
			mgr := a.VerifInitSleepManager(sleep.Callbacks{
				OnSleep: func() error { return nil },
				OnWake:  func() error { return nil },
				OnPoll:  a.VerifDoPoll,
			})
			defer func() {
				mgr.Stop()
				a.Stop()
			}()
			if err := mgr.Sleep(); err != nil {
				panic(err)
			}
			time.Sleep(time.Hour + time.Millisecond) // the poll timer fires, doPoll starts its 30 s window
			synctest.Wait()
			time.Sleep(time.Duration(wakeAfterMs) * time.Millisecond)
			if err := mgr.Wake(); err != nil {
				o.WakeErr = err.Error()
			}
			time.Sleep(40 * time.Second) // the poll window ends
			synctest.Wait()
			o.StateAtEnd = int(mgr.GetState())
			o.PausedEnd = a.VerifPeersPaused()
		})
	})
	return
}

// ---------------------------------------------------------------------------
// Real-time lock-contention scenarios. A goroutine that waits for stateMu is
// not "durably blocked" for synctest, so interleavings in which Poll() or
// Wake() wait for the lock while the other sits in a callback cannot run in a
// bubble. They need no timers (Poll is called directly, as the timer's
// goroutine would), so they run in real time here, event driven, and are
// judged by the property's text only: once a Wake() has returned nil (and no
// Sleep() was asked for afterwards) the agent is AWAKE, the file says AWAKE,
// no poll is scheduled and no poll callback runs any more.

type contObs struct {
	Scenario  string `json:"scenario"`
	DelayMs   int    `json:"delay_ms"`
	WakeErr   string `json:"wake_err"`
	State     int    `json:"state_after"`
	File      int    `json:"file_after"`
	NextPoll  bool   `json:"poll_scheduled_after"`
	Log       []int  `json:"log"`
	LogAtWake int    `json:"log_len_when_wake_returned"`
	TimedOut  string `json:"timed_out,omitempty"`
}

func contention(dir, scenario string, delayMs int) (o contObs) {
	o.Scenario, o.DelayMs = scenario, delayMs
	cfg := config.SleepConfig{Enabled: true, PollInterval: time.Hour, PollIntervalJitter: 0, PollDuration: time.Millisecond, PersistState: true}
	os.Remove(filepath.Join(dir, "sleep_state.json"))
	mgr := sleep.NewManager(cfg, dir, logging.NewLogger("error", "text"))
	var mu sync.Mutex
	var log []int
	add := func(c int) {
		mu.Lock()
		log = append(log, c)
		mu.Unlock()
	}
	wakeEntered, wakeGate := make(chan struct{}, 1), make(chan struct{})
	endEntered, endGate := make(chan struct{}, 1), make(chan struct{})
	blockEnd := scenario == "wake-during-poll-end"
	mgr.SetCallbacks(sleep.Callbacks{
		OnSleep: func() error { add(0); return nil },
		OnWake: func() error {
			add(1)
			wakeEntered <- struct{}{}
			<-wakeGate
			return nil
		},
		OnPoll: func() error { add(2); return nil },
		OnPollEnd: func() error {
			add(3)
			if blockEnd {
				select {
				case endEntered <- struct{}{}:
				default:
				}
				<-endGate
			}
			return nil
		},
	})
	wait := func(ch <-chan struct{}, what string, d time.Duration) bool {
		select {
		case <-ch:
			return true
		case <-time.After(d):
			if o.TimedOut == "" {
				o.TimedOut = what
			}
			return false
		}
	}
	pollDone, wakeDone := make(chan struct{}), make(chan struct{})
	var wakeErr error
	if err := mgr.Sleep(); err != nil {
		o.TimedOut = "sleep: " + err.Error()
		return
	}
	switch scenario {
	case "poll-while-wake-holds-lock":
		go func() { wakeErr = mgr.Wake(); mu.Lock(); o.LogAtWake = len(log); mu.Unlock(); close(wakeDone) }()
		if !wait(wakeEntered, "OnWake entry", 10*time.Second) {
			close(wakeGate)
			return
		}
		go func() { mgr.Poll(); close(pollDone) }() // the timer's goroutine, started just before Wake stopped the timer
		time.Sleep(time.Duration(delayMs) * time.Millisecond)
		for i := 0; i < 200; i++ {
			runtimeGosched()
		}
		close(wakeGate)
		wait(wakeDone, "Wake return", 10*time.Second)
		wait(pollDone, "Poll return", 10*time.Second)
	case "wake-during-poll-end":
		go func() { mgr.Poll(); close(pollDone) }()
		if !wait(endEntered, "OnPollEnd entry", 10*time.Second) {
			close(endGate)
			close(wakeGate)
			return
		}
		go func() { wakeErr = mgr.Wake(); mu.Lock(); o.LogAtWake = len(log); mu.Unlock(); close(wakeDone) }()
		// on the code as it is Wake now waits for the lock that Poll holds across OnPollEnd
		select {
		case <-wakeEntered:
			close(wakeGate)
			wait(wakeDone, "Wake return", 10*time.Second)
			time.Sleep(time.Duration(delayMs) * time.Millisecond)
			close(endGate)
		case <-time.After(time.Duration(5+delayMs) * time.Millisecond):
			close(endGate)
			if wait(wakeEntered, "OnWake entry", 10*time.Second) {
				close(wakeGate)
			} else {
				close(wakeGate)
			}
			wait(wakeDone, "Wake return", 10*time.Second)
		}
		wait(pollDone, "Poll return", 10*time.Second)
	}
	time.Sleep(5 * time.Millisecond)
	if wakeErr != nil {
		o.WakeErr = wakeErr.Error()
	}
	o.State = int(mgr.GetState())
	o.File, _ = readPersist(filepath.Join(dir, "sleep_state.json"))
	o.NextPoll = !mgr.GetStatus().NextPollTime.IsZero()
	mu.Lock()
	o.Log = append([]int(nil), log...)
	mu.Unlock()
	mgr.Stop()
	return
}

func runtimeGosched() { runtime.Gosched() }

var errCallback = fmt.Errorf("callback failed (harness)")

var edgeOK = map[[2]int]bool{{0, 1}: true, {1, 2}: true, {2, 1}: true, {1, 0}: true, {2, 0}: true}

// monitor: the text of C30 on the observations (no model).
func monitor(c *vh.Ctx, cs *caseSpec, out []obs) {
	prev := obs{}
	pollStart := []int{} // action index at which poll k (in start order) passed its first critical section
	entered := []int{}   // start-order index of the e-th poll that entered OnPoll
	wakeDone := []int{}  // action indices at which a Wake() completed successfully
	reqKind := []string{}
	for i, o := range out {
		a := cs.Actions[i]
		if a.Kind == "sleep" || a.Kind == "wake" {
			reqKind = append(reqKind, a.Kind)
		}
		if strings.HasPrefix(a.Kind, "stop-") || strings.HasPrefix(a.Kind, "crash-") {
			// a new process must come up in the state the file held when the old one ended
			want := prev.Persist
			if strings.HasPrefix(a.Kind, "stop-") {
				want = prev.State // Stop() writes the current state
			}
			if o.State != want {
				c.Fail("restart-resumed-wrong-state", fmt.Sprintf("action %d (%s): state before %d, file before %d, new process came up in state %d", i, a, prev.State, prev.Persist, o.State), cs)
			}
			if o.Persist != o.State {
				c.Fail("persisted-state-differs", fmt.Sprintf("action %d (%s): state %d, state file %d", i, a, o.State, o.Persist), cs)
			}
			prev = o
			continue
		}
		// a transition whose callback failed did not happen
		if a.Kind == "finishfail" && (o.State != prev.State || o.Writes != prev.Writes) {
			c.Fail("failed-transition-took-effect", fmt.Sprintf("action %d (%s): the callback returned an error, yet state %d -> %d, state file written: %v", i, a, prev.State, o.State, o.Writes != prev.Writes), cs)
		}
		// edges
		if o.State != prev.State && !edgeOK[[2]int{prev.State, o.State}] {
			c.Fail("undocumented-edge", fmt.Sprintf("action %d (%s): state went %d -> %d", i, a, prev.State, o.State), cs)
		}
		// refusals
		if a.Kind == "sleep" && prev.State != 0 {
			j := len(o.Results) - 1
			if o.Results[j] != 2 || len(o.Log) != len(prev.Log) || o.State != prev.State || o.Writes != prev.Writes {
				c.Fail("sleep-while-asleep-not-refused", fmt.Sprintf("action %d: Sleep() in state %d gave result %d, log %v -> %v", i, prev.State, o.Results[j], prev.Log, o.Log), cs)
			}
		}
		if a.Kind == "wake" && prev.State == 0 {
			j := len(o.Results) - 1
			if o.Results[j] != 3 || len(o.Log) != len(prev.Log) || o.State != prev.State || o.Writes != prev.Writes {
				c.Fail("wake-while-awake-not-refused", fmt.Sprintf("action %d: Wake() in state AWAKE gave result %d, log %v -> %v", i, o.Results[j], prev.Log, o.Log), cs)
			}
		}
		// polls that passed their first critical section during this action
		for k := prev.Started; k < o.Started; k++ {
			pollStart = append(pollStart, i)
		}
		if a.Kind == "enter" {
			entered = append(entered, a.Idx)
		}
		// completed wakes
		for j := range o.Results {
			if j < len(prev.Results) && prev.Results[j] == 0 && o.Results[j] == 1 && reqKind[j] == "wake" {
				wakeDone = append(wakeDone, i)
			}
		}
		// stale poll activity: the poll passed its first critical section before a wake completed
		staleSince := func(k int) bool {
			if k < 0 || k >= len(pollStart) {
				return false
			}
			for _, wd := range wakeDone {
				if wd >= pollStart[k] && wd < i {
					return true
				}
			}
			return false
		}
		if (a.Kind == "pollend" || a.Kind == "pollfail") && a.Idx < len(entered) && staleSince(entered[a.Idx]) &&
			(len(o.Log) != len(prev.Log) || o.State != prev.State || o.Writes != prev.Writes) {
			c.Fail("stale-poll-effect-after-wake", fmt.Sprintf("action %d: poll %d began at action %d, a wake completed since, yet ending it changed state %d -> %d, callbacks %v -> %v, state file written: %v",
				i, entered[a.Idx], pollStart[entered[a.Idx]], prev.State, o.State, prev.Log, o.Log, o.Writes != prev.Writes), cs)
		}
		if a.Kind == "enter" && staleSince(a.Idx) {
			c.Fail("stale-onpoll-entered-after-wake", fmt.Sprintf("action %d: poll %d passed its first critical section at action %d, a wake completed since, and now its OnPoll callback is entered (state %d)",
				i, a.Idx, pollStart[a.Idx], o.State), cs)
		}
		// persisted state matches the state whenever no transition is in progress
		if o.InCb == -1 && o.Persist != o.State {
			if o.State == 2 && o.Persist == 1 {
				c.Fail("polling-edge-not-persisted", fmt.Sprintf("action %d (%s): state POLLING, state file says SLEEPING", i, a), cs)
			} else {
				c.Fail("persisted-state-differs", fmt.Sprintf("action %d (%s): state %d, state file %d", i, a, o.State, o.Persist), cs)
			}
		}
		prev = o
	}
}

func coqAction(a action) string {
	switch a.Kind {
	case "sleep":
		return "ASleep"
	case "wake":
		return "AWake"
	case "finish":
		return fmt.Sprintf("AFinish %d", a.Idx)
	case "finishfail":
		return fmt.Sprintf("AFinishFail %d", a.Idx)
	case "fire":
		return "AFire"
	case "enter":
		return fmt.Sprintf("AEnter %d", a.Idx)
	case "pollcall":
		return "ACallPoll"
	case "stop-load":
		return "ARestart true false"
	case "stop-start":
		return "ARestart true true"
	case "crash-load":
		return "ARestart false false"
	case "crash-start":
		return "ARestart false true"
	default:
		return fmt.Sprintf("APollEnd %d", a.Idx)
	}
}

func coqNs(xs []int) string {
	it := make([]string, len(xs))
	for i, v := range xs {
		it[i] = vh.CoqN(uint64(v))
	}
	return vh.CoqList(it)
}

func TestVerif(t *testing.T) {
	c := vh.Start("C30")
	defer c.Finish()
	c.Res.Rule = "case = schedule of harness actions (sleep, wake, finish j, fire, pollend k) replayed step by step on a real sleep.Manager with blocking callbacks; state, state file, callback log, requester results and file writes after every action are compared with the model; " +
		"non-trivial = the schedule contains a timer firing or two requesters; distinct = distinct schedule"
	base, err := os.MkdirTemp("", "c30-")
	if err != nil {
		t.Fatal(err)
	}
	defer os.RemoveAll(base)

	var coq []string
	seen := map[string]bool{}
	nDir := 0
	do := func(cs *caseSpec) []action {
		nDir++
		dir := filepath.Join(base, fmt.Sprint(nDir%64))
		os.MkdirAll(dir, 0o755)
		out, done, enabled, p := runCase(t, dir, cs)
		if p != "" {
			c.Fail("panic", p, cs)
			return nil
		}
		cs.Actions = done // what was actually executed
		key := ""
		nontriv := 0
		for _, a := range cs.Actions {
			key += a.String() + " "
			c.Count("action:" + a.Kind)
			if a.Kind == "fire" || a.Kind == "sleep" || a.Kind == "wake" || strings.Contains(a.Kind, "-") {
				nontriv++
			}
		}
		if seen[key] {
			return enabled
		}
		seen[key] = true
		c.Case(key, nontriv >= 2, cs)
		c.Count(fmt.Sprintf("length:%02d", len(cs.Actions)))
		monitor(c, cs, out)
		it := make([]string, len(out))
		for i, o := range out {
			it[i] = fmt.Sprintf("(%s, mkmobs %s %s %s %s %s %s)", coqAction(cs.Actions[i]), vh.CoqN(uint64(o.State)), vh.CoqN(uint64(o.Persist)), coqNs(o.Log), coqNs(o.Results), vh.CoqN(uint64(o.Writes)), vh.CoqN(uint64(o.Started)))
		}
		coq = append(coq, vh.CoqList(it))
		return enabled
	}
	parse := func(s string) *caseSpec {
		cs := &caseSpec{}
		for _, w := range strings.Fields(s) {
			a := action{Kind: w}
			for _, pre := range []string{"finishfail", "finish", "pollend", "pollfail", "enter"} {
				if strings.HasPrefix(w, pre) {
					a.Kind = pre
					fmt.Sscan(w[len(pre):], &a.Idx)
				}
			}
			cs.Actions = append(cs.Actions, a)
		}
		return cs
	}

	runContention := func(sc string, d int) {
		nDir++
		dir := filepath.Join(base, fmt.Sprintf("cont%d", nDir))
		os.MkdirAll(dir, 0o755)
		var co contObs
		if p := vh.Recover(func() { co = contention(dir, sc, d) }); p != "" {
			c.Fail("panic", p, map[string]any{"scenario": sc, "delay_ms": d})
			return
		}
		c.Case(fmt.Sprintf("contention/%s/%d", sc, d), true, co)
		c.Count("contention:" + sc)
		coq = append(coq, "[]")
		if co.TimedOut != "" {
			c.Fail("contention-scenario-stuck", fmt.Sprintf("%s: timed out waiting for %s", sc, co.TimedOut), co)
			return
		}
		if co.WakeErr != "" {
			return // the wake was refused; nothing is claimed
		}
		late := false
		for _, e := range co.Log[co.LogAtWake:] {
			if e == 2 || e == 3 {
				late = true
			}
		}
		if co.State != 0 || co.File != 0 || co.NextPoll || late {
			sig := "wake-overtaken-by-concurrent-poll"
			if sc == "wake-during-poll-end" {
				sig = "wake-undone-by-poll-end"
			}
			c.Fail(sig, fmt.Sprintf("%s: Wake() returned nil, afterwards state=%d file=%d poll scheduled=%v callbacks %v (first %d before the wake returned)", sc, co.State, co.File, co.NextPoll, co.Log, co.LogAtWake), co)
		}

	}
	runAgentLocalWake := func(afterMs int64) {
		nDir++
		dir := filepath.Join(base, fmt.Sprintf("agentlw%d", nDir))
		os.MkdirAll(dir, 0o755)
		lo, p := agentLocalWake(t, dir, afterMs)
		rp := map[string]any{"scenario": "agent-local-wake", "delay_ms": afterMs, "observed": lo}
		if p != "" {
			c.Fail("panic", p, rp)
			return
		}
		c.Case(fmt.Sprintf("agent-local-wake/%d", afterMs), true, rp)
		c.Count("agent-local-wake")
		coq = append(coq, "[]")
		if lo.WakeErr == "" && lo.StateAtEnd == 0 && (lo.ReachedDisconnect || lo.PausedEnd) {
			c.Fail("agent-dopoll-disconnects-after-local-wake", fmt.Sprintf("the agent was woken through the local path %d ms into its poll window (state AWAKE); when the window ended doPoll went on to DisconnectAll (reached=%v, reconnection paused=%v)", afterMs, lo.ReachedDisconnect, lo.PausedEnd), rp)
		}
	}
	runAgentDoPoll := func(wake bool) {
		nDir++
		dir := filepath.Join(base, fmt.Sprintf("agent%d", nDir))
		os.MkdirAll(dir, 0o755)
		ao, p := agentDoPoll(t, dir, wake)
		rp := map[string]any{"scenario": "agent-dopoll", "wake_while_held_before_disconnect": wake, "observed": ao}
		if p != "" {
			c.Fail("panic", p, rp)
			return
		}
		c.Case(fmt.Sprintf("agent-dopoll/%v", wake), true, rp)
		c.Count("agent-dopoll")
		coq = append(coq, "[]")
		if !ao.Reached {
			c.Fail("agent-dopoll-scenario-not-reached", "doPoll did not reach the scheduling point before DisconnectAll", rp)
			return
		}
		if wake && ao.StateAfter == 0 && !ao.PausedAtWake && ao.PausedEnd {
			c.Fail("agent-dopoll-disconnects-after-wake", "agent.doPoll read a non-awake state, Wake() completed (state AWAKE), then doPoll called DisconnectAll: peers dropped and reconnection paused while awake", rp)
		}
		if !wake && !ao.PausedEnd {
			c.Fail("agent-dopoll-did-not-disconnect", "poll window ended while still sleeping but the peers were not disconnected", rp)
		}

	}
	if c.Replay != "" {
		var cs caseSpec
		if err := c.ReadReplay(&cs); err != nil {
			t.Fatal(err)
		}
		seen = map[string]bool{}
		switch {
		case cs.Scenario == "agent-local-wake":
			runAgentLocalWake(int64(cs.DelayMs))
		case cs.Scenario == "agent-dopoll":
			runAgentDoPoll(cs.Wake != nil && *cs.Wake)
		case cs.Scenario != "":
			runContention(cs.Scenario, cs.DelayMs)
		default:
			do(&cs)
		}
	} else {
		// fixed witnesses first
		for _, w := range []string{
			// poll in OnPoll; wake; sleep; the old poll resumes
			"sleep finish0 fire enter0 wake finish1 sleep finish2 pollend0",
			// ... while a new poll is running: the old one stores SLEEPING over POLLING and runs OnPollEnd, then the new one ends too
			"sleep finish0 fire enter0 wake finish1 sleep finish2 fire enter1 pollend0 pollend1",
			// wake during a poll, poll ends awake
			"sleep finish0 fire enter0 wake finish1 pollend0",
			// ... and the OnPoll callback fails after the wake has completed
			"sleep finish0 fire enter0 wake finish1 pollfail0",
			"sleep finish0 fire enter0 pollfail0 fire enter1 wake finish1 sleep finish2 pollfail1",
			// the wake completes between Poll's unlock and the OnPoll call
			"sleep finish0 fire wake finish1 enter0 pollend0",
			// plain cycle
			"sleep finish0 fire enter0 pollend0 fire enter1 pollend1 wake finish1",
			// refusals
			"sleep finish0 sleep wake finish2 wake",
			// a failing OnSleep / OnWake: no transition, the file untouched, a retry goes through
			"sleep finishfail0 sleep finish1 wake finishfail2 wake finish3",
			"sleep finish0 fire enter0 wake finishfail1 pollend0 wake finish2 stop-load",
			// histories that span restarts: sleep, process exit, new manager loads SLEEPING, wake before any poll, exit, restart
			"sleep finish0 stop-load wake finish1 stop-load sleep finish2",
			"sleep finish0 crash-start wake finish1 crash-load",
			"sleep finish0 stop-start fire enter0 pollend0 wake finish1 stop-start",
			// restart while polling: crash (file says SLEEPING) and Stop() (file says POLLING)
			"sleep finish0 fire enter0 crash-start fire enter1 pollend1 wake finish1",
			"sleep finish0 fire enter0 stop-start fire wake finish1 crash-start",
			"sleep finish0 fire stop-load sleep wake finish2 stop-load",
			// restart while awake, and a sleep as the first transition after a load
			"stop-start sleep finish0 crash-load wake finish1 stop-load",
			"crash-load sleep finish0 fire enter0 pollend0 stop-load fire wake finish1",
			// wake completes, time passes (no timer must be left), sleep again and poll
			"sleep finish0 wake finish1 fire sleep finish2 fire enter0 pollend0",
		} {
			cs := parse(w)
			cs.Why = "witness"
			do(cs)
		}
		// agent level: doPoll's unlocked "state read, then DisconnectAll" against a completing Wake
		for _, wake := range []bool{true, false} {
			runAgentDoPoll(wake)
		}
		for _, ms := range []int64{0, 1000, 29000} {
			runAgentLocalWake(ms)
		}
		// real-time lock-contention scenarios (monitor only)
		for _, sc := range []string{"poll-while-wake-holds-lock", "wake-during-poll-end"} {
			for _, d := range []int{0, 2, 6} {
				runContention(sc, d)
			}
		}
		// exhaustive enumeration of all schedules up to a length
		depth := c.N(4, 5)
		frontier := [][]action{{}}
		for d := 0; d < depth; d++ {
			var next [][]action
			for _, pre := range frontier {
				var en []action
				if len(pre) == 0 {
					en = []action{{Kind: "sleep"}, {Kind: "wake"}, {Kind: "fire"}}
				} else {
					en = do(&caseSpec{Actions: append([]action(nil), pre...)})
				}
				// the exhaustive part uses two of the four kinds of restart; all four occur in the
				// witnesses and the random schedules
				var keep []action
				for _, a := range en {
					if a.Kind != "stop-start" && a.Kind != "crash-load" && a.Kind != "pollfail" && a.Kind != "finishfail" {
						keep = append(keep, a)
					}
				}
				en = keep
				if len(pre) > 0 && len(pre) == d && d == depth-1 {
					// leaves are run below
				}
				for _, a := range en {
					next = append(next, append(append([]action(nil), pre...), a))
				}
			}
			frontier = next
		}
		for _, s := range frontier {
			do(&caseSpec{Actions: s})
		}
		c.Res.Extra["exhaustive"] = true
		c.Res.Extra["exhaustive_depth"] = depth
		// random longer schedules, extended action by action from what the implementation says is enabled
		n := c.N(150, 2500)
		probeDir := filepath.Join(base, "probe")
		os.MkdirAll(probeDir, 0o755)
		for i := 0; i < n; i++ {
			r := c.Rand.Fork()
			var seq []action
			length := 8 + r.Intn(9)
			en := []action{{Kind: "sleep"}, {Kind: "wake"}, {Kind: "fire"}}
			for len(seq) < length && len(en) > 0 {
				var fin, pe, other, rst []action
				for _, a := range en {
					switch a.Kind {
					case "stop-load", "stop-start", "crash-load", "crash-start":
						rst = append(rst, a)
					case "enter":
						if r.Chance(2, 3) {
							fin = append(fin, a)
						} else {
							other = append(other, a)
						}
					case "finishfail":
						if r.Chance(1, 5) {
							fin = append([]action{a}, fin...)
						}
					case "finish":
						fin = append(fin, a)
					case "pollend", "pollfail":
						pe = append(pe, a)
					default:
						other = append(other, a)
					}
				}
				var pick action
				w := r.Intn(10)
				switch {
				case len(rst) > 0 && r.Chance(1, 7):
					pick = rst[r.Intn(len(rst))]
				case len(fin) > 0 && w < 7:
					pick = fin[0]
				case len(pe) > 0 && w < 3:
					pick = pe[r.Intn(len(pe))]
				case len(other) > 0:
					pick = other[r.Intn(len(other))]
				default:
					pick = en[r.Intn(len(en))]
				}
				seq = append(seq, pick)
				if len(seq) < length {
					_, _, en, _ = runCase(t, probeDir, &caseSpec{Actions: append([]action(nil), seq...)})
				}
			}
			do(&caseSpec{Actions: seq})
		}
	}

	c.WriteCasesV("cases.v", scx.CasesV("From Coq Require Import List NArith.\nFrom MM Require Import Model.SleepSM.\nImport ListNotations.\n", "mcase", "mmismatches_from", coq, 1500))
}
