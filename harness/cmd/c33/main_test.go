// c33: correspondence and monitor harness for C33 (deterministic listening
// windows). Implementation under test: sleep.WindowCalculator
// (internal/sleep/window.go): NextWindow, IsInWindow, GetWindowInfo,
// PreviousWindow, as configured through NewWindowCalculator.
//
// All instants are handled as int64 nanoseconds since the Unix epoch; the
// generators stay inside the range in which time.Duration does not saturate
// (|t - epoch| < 2^62 ns) and in which UnixNano is exact.
package main

import (
	"encoding/binary"
	"fmt"
	"strings"
	"testing"
	"testing/synctest"
	"time"

	"github.com/postalsys/muti-metroo/internal/config"

	"github.com/postalsys/muti-metroo/internal/identity"
	"github.com/postalsys/muti-metroo/internal/sleep"
	"github.com/postalsys/muti-metroo/verifharness/scx"
	"github.com/postalsys/muti-metroo/verifharness/vh"
)

type replay struct {
	Hi     uint64 `json:"id_hi"`
	Lo     uint64 `json:"id_lo"`
	Epoch  int64  `json:"epoch_unix_ns"`
	Cycle  int64  `json:"cycle_ns"`
	Window int64  `json:"window_ns"`
	Tol    int64  `json:"tolerance_ns"`
	T      int64  `json:"instant_unix_ns"`
	Why    string `json:"why,omitempty"`
	// set for the cases that go through the configuration and sleep.NewManager
	Mgr *mgrReplay `json:"manager,omitempty"`
}

// mgrReplay: deterministic windows configured as in the YAML (durations and
// the epoch as an RFC3339 string), asked through a sleep.Manager at a virtual
// instant (the bubble's clock starts at 2000-01-01T00:00:00Z).
type mgrReplay struct {
	PollInterval int64  `json:"poll_interval_ns"`
	WindowLength int64  `json:"window_length_ns"`
	Tolerance    int64  `json:"clock_tolerance_ns"`
	Epoch        string `json:"epoch"`
	AdvanceNs    int64  `json:"advance_ns"`
}

type observed struct {
	Start, End         int64
	InWindow           bool
	SafeStart, SafeEnd int64
	Mid                int64
	Until              int64
	Active             bool
	PStart, PEnd       int64
}

func mkID(hi, lo uint64) identity.AgentID {
	var id identity.AgentID
	binary.BigEndian.PutUint64(id[:8], hi)
	binary.BigEndian.PutUint64(id[8:], lo)
	return id
}

func at(ns int64) time.Time { return time.Unix(0, ns).UTC() }

func floorDiv(a, b int64) int64 {
	q := a / b
	if (a%b != 0) && ((a < 0) != (b < 0)) {
		q--
	}
	return q
}

func mod(a, b int64) int64 { return a - floorDiv(a, b)*b }

func calc(r replay) *sleep.WindowCalculator {
	return sleep.NewWindowCalculator(sleep.WindowConfig{
		CycleLength:    time.Duration(r.Cycle),
		WindowLength:   time.Duration(r.Window),
		ClockTolerance: time.Duration(r.Tol),
		Epoch:          at(r.Epoch),
	})
}

func observe(r replay) observed {
	w := calc(r)
	id := mkID(r.Hi, r.Lo)
	now := at(r.T)
	s, e := w.NextWindow(id, now)
	info := w.GetWindowInfo(id, now)
	ps, pe := w.PreviousWindow(id, now)
	return observed{
		Start: s.UnixNano(), End: e.UnixNano(), InWindow: w.IsInWindow(id, now),
		SafeStart: info.SafeStart.UnixNano(), SafeEnd: info.SafeEnd.UnixNano(), Mid: info.Midpoint.UnixNano(),
		Until: int64(info.TimeUntil), Active: info.CurrentlyActive, PStart: ps.UnixNano(), PEnd: pe.UnixNano(),
	}
}

// effWindow is the window length NewWindowCalculator settles on (read back
// from the implementation, not recomputed).
func effWindow(r replay) int64 { return int64(calc(r).GetConfig().WindowLength) }

// monitor evaluates the text of C33 on the implementation's answers. The
// agent's family of windows is anchored at the implementation's own answer
// for the instant "epoch" (W0) and extended by the property's "exactly once
// per cycle": window k = W0 shifted by k cycles.
func monitor(c *vh.Ctx, r replay, o observed) {
	w := calc(r)
	id := mkID(r.Hi, r.Lo)
	s0t, e0t := w.NextWindow(id, at(r.Epoch))
	s0, e0 := s0t.UnixNano(), e0t.UnixNano()
	win := effWindow(r)
	if !(r.Epoch <= s0 && e0 <= r.Epoch+r.Cycle && e0-s0 == win) {
		c.Fail("window-outside-its-cycle", fmt.Sprintf("window of cycle 0 is [%d,%d], cycle is [%d,%d], length %d", s0, e0, r.Epoch, r.Epoch+r.Cycle, win), r)
		return
	}
	// recurrence: the answer must be W0 shifted by a whole number of cycles
	if mod(o.Start-s0, r.Cycle) != 0 || o.End-o.Start != win {
		c.Fail("not-one-of-the-agents-windows", fmt.Sprintf("NextWindow returned [%d,%d], which is not window 0 [%d,%d] shifted by whole cycles", o.Start, o.End, s0, e0), r)
		return
	}
	// next window = earliest window that has not ended (a window ending
	// exactly now has not ended: the code's own boundary, now.After(end))
	if o.End < r.T {
		c.Fail("next-window-already-ended", fmt.Sprintf("NextWindow(%d) returned a window that ended at %d", r.T, o.End), r)
	} else if o.End-r.Cycle >= r.T {
		sig := "next-window-not-earliest"
		if r.T < r.Epoch {
			sig = "next-window-skipped-before-epoch"
		}
		c.Fail(sig, fmt.Sprintf("NextWindow(%d) returned [%d,%d] although the window one cycle earlier, ending %d, has not ended", r.T, o.Start, o.End, o.End-r.Cycle), r)
	}
	// in-window: exists k with start_k - tol <= t < end_k + tol. The
	// earliest k with t < end_k + tol decides.
	k := floorDiv(r.T-r.Tol-e0, r.Cycle) + 1
	sk, ek := s0+k*r.Cycle, e0+k*r.Cycle
	want := sk-r.Tol <= r.T && r.T < ek+r.Tol
	if want != o.InWindow {
		sig := "in-window-wrong"
		if want && r.T > ek {
			sig = "trailing-tolerance-not-in-window"
		} else if r.T < r.Epoch {
			sig = "in-window-wrong-before-epoch"
		}
		c.Fail(sig, fmt.Sprintf("IsInWindow(%d)=%v but window [%d,%d] with tolerance %d says %v", r.T, o.InWindow, sk, ek, r.Tol, want), r)
	}
}

func coqZ(v int64) string { return vh.CoqZ(v) }

type mgrObs struct {
	NowNs, EpochNs                             int64
	Start, End, SafeStart, SafeEnd, Mid, Until int64
	Active                                     bool
	LocalSame, StatusSame, CalcSame            bool
	CalcStart, CalcEnd                         int64
}

// runManager builds a real sleep.Manager from a SleepConfig (as the agent
// does) inside a bubble, advances the virtual clock and asks the Manager for
// the agent's next window in the three ways it offers.
func runManager(t *testing.T, r replay) (o mgrObs, panicked string) {
	synctest.Test(t, func(t *testing.T) {
		panicked = vh.Recover(func() {
			m := r.Mgr
			cfg := config.SleepConfig{Enabled: true, PollInterval: time.Duration(m.PollInterval), PollDuration: time.Second,
				DeterministicWindows: config.DeterministicWindowConfig{Enabled: true, WindowLength: time.Duration(m.WindowLength),
					ClockTolerance: time.Duration(m.Tolerance), Epoch: m.Epoch}}
			mgr := sleep.NewManager(cfg, t.TempDir(), nil)
			id := mkID(r.Hi, r.Lo)
			mgr.SetLocalID(id)
			time.Sleep(time.Duration(m.AdvanceNs))
			now := time.Now()
			o.NowNs = now.UnixNano()
			// the harness's own reading of the configured epoch: the instant the string denotes
			epoch := time.Unix(0, 0).UTC()
			if m.Epoch != "" {
				if e, err := time.Parse(time.RFC3339, m.Epoch); err == nil {
					epoch = e
				}
			}
			o.EpochNs = epoch.UnixNano()
			info := mgr.GetNextWindowInfo(id)
			if info == nil {
				panic("GetNextWindowInfo returned nil with deterministic windows enabled")
			}
			o.Start, o.End, o.SafeStart, o.SafeEnd = info.Start.UnixNano(), info.End.UnixNano(), info.SafeStart.UnixNano(), info.SafeEnd.UnixNano()
			o.Mid, o.Until, o.Active = info.Midpoint.UnixNano(), int64(info.TimeUntil), info.CurrentlyActive
			same := func(a *sleep.WindowInfo) bool {
				return a != nil && a.Start.Equal(info.Start) && a.End.Equal(info.End) && a.SafeStart.Equal(info.SafeStart) && a.SafeEnd.Equal(info.SafeEnd) &&
					a.Midpoint.Equal(info.Midpoint) && a.TimeUntil == info.TimeUntil && a.CurrentlyActive == info.CurrentlyActive
			}
			o.LocalSame = same(mgr.GetLocalWindowInfo())
			o.StatusSame = same(mgr.GetStatus().NextWindow)
			// the windows of the configured epoch instant, from the calculator itself
			wl, tol := time.Duration(m.WindowLength), time.Duration(m.Tolerance)
			if wl <= 0 {
				wl = sleep.DefaultWindowConfig().WindowLength
			}
			if tol <= 0 {
				tol = sleep.DefaultWindowConfig().ClockTolerance
			}
			calc := sleep.NewWindowCalculator(sleep.WindowConfig{CycleLength: time.Duration(m.PollInterval), WindowLength: wl, ClockTolerance: tol, Epoch: epoch})
			ci := calc.GetWindowInfo(id, now)
			o.CalcStart, o.CalcEnd = ci.Start.UnixNano(), ci.End.UnixNano()
			o.CalcSame = same(&ci)
		})
	})
	return
}

func TestVerif(t *testing.T) {
	c := vh.Start("C33")
	defer c.Finish()
	c.Res.Rule = "case = (identity halves, epoch, cycle, window, tolerance, instant); the real WindowCalculator's NextWindow / IsInWindow / GetWindowInfo / PreviousWindow answers are compared with the model; " +
		"non-trivial = 0 < window < cycle after normalisation; distinct = distinct (config, identity seed, instant)"

	var coq []string
	runCase := func(r replay) {
		var o observed
		if p := vh.Recover(func() { o = observe(r) }); p != "" {
			c.Fail("panic", p, r)
			return
		}
		win := effWindow(r)
		c.Case(fmt.Sprintf("%d/%d/%d/%d/%d/%d", r.Hi^r.Lo, r.Epoch, r.Cycle, r.Window, r.Tol, r.T), win > 0 && win < r.Cycle, r)
		coq = append(coq, fmt.Sprintf("mkcase %s %s %s %s %s %s %s %s %s %s %s %s %s %s %s %s %s",
			vh.CoqN(r.Hi), vh.CoqN(r.Lo), coqZ(r.Epoch), coqZ(r.Cycle), coqZ(r.Window), coqZ(r.Tol), coqZ(r.T),
			coqZ(o.Start), coqZ(o.End), vh.CoqBool(o.InWindow), coqZ(o.SafeStart), coqZ(o.SafeEnd), coqZ(o.Mid), coqZ(o.Until),
			vh.CoqBool(o.Active), coqZ(o.PStart), coqZ(o.PEnd)))
		if win > 0 && win < r.Cycle && r.Tol >= 0 {
			monitor(c, r, o)
		}
		if r.T < r.Epoch {
			c.Count("instant-before-epoch")
		} else {
			c.Count("instant-after-epoch")
		}
		if o.InWindow {
			c.Count("in-window")
		} else {
			c.Count("not-in-window")
		}
		if r.Why != "" {
			c.Count("why:" + r.Why)
		}
	}

	var coqMgr []string
	var mgrTodo []replay
	nCalcCases := 0
	runMgrCase := func(r replay) {
		o, p := runManager(t, r)
		if p != "" {
			c.Fail("panic", p, r)
			return
		}
		m := r.Mgr
		c.Case(fmt.Sprintf("mgr/%d/%s/%d/%d/%d/%d", r.Hi^r.Lo, m.Epoch, m.PollInterval, m.WindowLength, m.Tolerance, m.AdvanceNs), true, r)
		c.Count("manager-case")
		if strings.HasSuffix(m.Epoch, "Z") || m.Epoch == "" || strings.HasSuffix(m.Epoch, "+00:00") {
			c.Count("manager-epoch-utc-or-default")
		} else {
			c.Count("manager-epoch-with-zone-offset")
		}
		coqMgr = append(coqMgr, fmt.Sprintf("mkmgr %s %s %s %s %s %s %s %s %s %s %s %s %s %s",
			vh.CoqN(r.Hi), vh.CoqN(r.Lo), coqZ(o.EpochNs), coqZ(m.PollInterval), coqZ(m.WindowLength), coqZ(m.Tolerance), coqZ(o.NowNs),
			coqZ(o.Start), coqZ(o.End), coqZ(o.SafeStart), coqZ(o.SafeEnd), coqZ(o.Mid), coqZ(o.Until), vh.CoqBool(o.Active)))
		if !o.CalcSame {
			c.Fail("manager-windows-not-on-configured-epoch", fmt.Sprintf("epoch %q (instant %d ns), cycle %d ns: the Manager reports the next window [%d,%d] at %d, the agent's windows for that epoch give [%d,%d]",
				m.Epoch, o.EpochNs, m.PollInterval, o.Start, o.End, o.NowNs, o.CalcStart, o.CalcEnd), r)
		}
		if !o.LocalSame || !o.StatusSame {
			c.Fail("manager-window-views-disagree", fmt.Sprintf("GetNextWindowInfo, GetLocalWindowInfo and GetStatus().NextWindow differ (local same=%v, status same=%v)", o.LocalSame, o.StatusSame), r)
		}
	}

	if c.Replay != "" {
		var r replay
		if err := c.ReadReplay(&r); err != nil {
			panic(err)
		}
		if r.Mgr != nil {
			runMgrCase(r)
		} else {
			runCase(r)
		}
	} else {
		// configuration -> sleep.NewManager -> calculator: epochs written with zone offsets
		epochs := []string{"2024-03-01T05:30:00+05:30", "2023-11-05T01:59:59-08:00", "2031-01-01T00:30:00+01:00", "1999-12-31T22:00:00-03:00",
			"2000-01-01T00:00:00Z", "1987-06-05T04:03:02.123456789+05:45", "", "not-a-date", "2024-03-01T00:00:00+00:00", "2010-10-10T10:10:10-09:30"}
		polls := []int64{7200e9, 420e9, 2700e9, 300e9, 3600e9, 11e9, 86400e9}
		for _, ep := range []string{"2024-03-01T05:30:00+05:30", "2023-11-05T01:59:59-08:00", "2031-01-01T00:30:00+01:00"} {
			for i, poll := range []int64{7200e9, 420e9, 2700e9} {
				mgrTodo = append(mgrTodo, replay{Hi: uint64(i) * 977, Lo: 0x1234567890abcdef, Mgr: &mgrReplay{PollInterval: poll, WindowLength: 30e9, Tolerance: 5e9, Epoch: ep, AdvanceNs: int64(i) * 3601e9}})
			}
		}
		nm := c.N(150, 3000)
		for i := 0; i < nm; i++ {
			rr := c.Rand.Fork()
			poll := polls[rr.Intn(len(polls))]
			m := &mgrReplay{PollInterval: poll, Epoch: epochs[rr.Intn(len(epochs))],
				WindowLength: []int64{0, 30e9, 10e9, poll, 1}[rr.Intn(5)], Tolerance: []int64{0, 2e9, 1}[rr.Intn(3)],
				AdvanceNs: []int64{0, 1, int64(rr.U64() % uint64(poll)), int64(rr.U64() % uint64(40*86400e9)), 25 * 365 * 86400e9}[rr.Intn(5)]}
			mgrTodo = append(mgrTodo, replay{Hi: rr.U64(), Lo: rr.U64(), Mgr: m})
		}
	}
	if c.Replay == "" {
		// fixed witnesses first (regressions of the two repaired defects)
		// 1. one nanosecond before the Unix epoch, identity with offset 0:
		//    the window [-300s,-270s] ... of the cycle containing t.
		runCase(replay{Hi: 0, Lo: 200e9, Epoch: 0, Cycle: 300e9, Window: 30e9, Tol: 5e9, T: -290e9, Why: "witness-before-epoch"})
		runCase(replay{Hi: 0, Lo: 270e9 - 1, Epoch: 1704067200e9, Cycle: 300e9, Window: 30e9, Tol: 5e9, T: 1704067200e9 - 1, Why: "witness-before-epoch"})
		// 2. two seconds after a window's end, tolerance five seconds
		runCase(replay{Hi: 0, Lo: 10e9, Epoch: 0, Cycle: 300e9, Window: 30e9, Tol: 5e9, T: 1700000100e9 + 42e9, Why: "witness-trailing-tolerance"})
		runCase(replay{Hi: 0, Lo: 0, Epoch: 0, Cycle: 300e9, Window: 30e9, Tol: 5e9, T: 32e9, Why: "witness-trailing-tolerance"})

		const lim = int64(1) << 61
		epochs := []int64{0, 1704067200e9, 946684799999999999, 4102444800e9, -2208988800e9, 1, -1}
		nCfg := c.N(45, 600)
		for i := 0; i < nCfg; i++ {
			rr := c.Rand.Fork()
			var cycle int64
			switch rr.Intn(9) {
			case 0:
				cycle = 2
			case 1:
				cycle = 7
			case 2:
				cycle = 1000
			case 3:
				cycle = 1e9
			case 4:
				cycle = 300e9
			case 5:
				cycle = 3600e9
			case 6:
				cycle = 86400e9
			case 7:
				cycle = 6
			default:
				cycle = 1 + int64(rr.U64()%uint64(1e12))
			}
			var window int64
			switch rr.Intn(8) {
			case 0:
				window = 1
			case 1:
				window = cycle - 1
			case 2:
				window = cycle / 2
			case 3:
				window = cycle // normalised to cycle/6
			case 4:
				window = cycle + 5 // normalised
			case 5:
				window = cycle / 10
			default:
				window = 1 + int64(rr.U64()%uint64(cycle))
			}
			if window < 1 {
				window = 1
			}
			effW := window
			if effW >= cycle {
				effW = cycle / 6
			}
			gap := cycle - effW
			var tol int64
			switch rr.Intn(8) {
			case 0:
				tol = 0
			case 1:
				tol = 1
			case 2:
				tol = effW
			case 3:
				tol = gap / 2
			case 4:
				tol = gap/2 + 1
			case 5:
				tol = cycle
			case 6:
				tol = cycle / 60
			default:
				tol = int64(rr.U64() % uint64(cycle+1))
			}
			epoch := epochs[rr.Intn(len(epochs))]
			if rr.Chance(1, 4) {
				epoch = int64(rr.U64()%uint64(8e18)) - 4e18
			}
			// identities: random, seed 0, hi==lo, seed hitting the offset boundaries
			var hi, lo uint64
			switch rr.Intn(7) {
			case 0:
				hi, lo = 0, 0
			case 1:
				hi = rr.U64()
				lo = hi
			case 2:
				hi = rr.U64()
				if gap > 0 {
					lo = hi ^ uint64(gap-1)
				}
			case 3:
				hi = rr.U64()
				if gap > 0 {
					lo = hi ^ uint64(gap)
				}
			case 4:
				hi, lo = ^uint64(0), 0
			default:
				hi, lo = rr.U64(), rr.U64()
			}
			var off int64
			if gap > 0 {
				off = int64((hi ^ lo) % uint64(gap))
			}
			base := replay{Hi: hi, Lo: lo, Epoch: epoch, Cycle: cycle, Window: window, Tol: tol}
			maxK := lim / cycle
			ks := []int64{0, -1, 1, -2, 2, -1000003, 999983, -(maxK - 2), maxK - 2}
			nInst := 22
			for j := 0; j < nInst; j++ {
				k := ks[rr.Intn(len(ks))]
				if k > maxK-2 {
					k = maxK - 2
				}
				if k < -(maxK - 2) {
					k = -(maxK - 2)
				}
				cs := epoch + k*cycle
				var t int64
				why := ""
				switch rr.Intn(9) {
				case 0:
					t, why = cs, "cycle-start"
				case 1:
					t, why = cs+off, "window-start"
				case 2:
					t, why = cs+off+effW, "window-end"
				case 3:
					t, why = cs+off-tol, "safe-start"
				case 4:
					t, why = cs+off+effW+tol, "safe-end"
				case 5:
					t, why = cs+off+effW/2, "inside"
				case 6:
					t, why = cs+off+effW+(tol+1)/2, "trailing-tolerance"
				case 7:
					t, why = cs+off-(tol+1)/2, "leading-tolerance"
				default:
					t, why = cs+int64(rr.U64()%uint64(cycle)), "random"
				}
				t += int64(rr.Pick(-1, 0, 0, 1))
				r := base
				r.T, r.Why = t, why
				runCase(r)
			}
		}
	}

	nCalcCases = c.Res.Evaluations
	for _, r := range mgrTodo {
		runMgrCase(r)
	}
	if c.Replay != "" {
		nCalcCases = 0
	}
	hdr := "From Coq Require Import List NArith ZArith.\nFrom MM Require Import Model.Window.\nImport ListNotations.\n"
	c.WriteCasesV("cases.v", scx.CasesV(hdr, "case", "mismatches_from", coq, 1500))
	c.WriteCasesV("cases_manager.v", scx.CasesVAt(hdr, "mgrcase", "mgr_mismatches_from", coqMgr, 1500, nCalcCases, "G"))
}
