package main

// Live two-agent opens: agent A (ingress) dials agent B (exit) over QUIC on
// loopback; every tunnel kind that needs no privileges is opened through A's
// real initiator code (DialContext by IP route and by domain route,
// DialForward, OpenShellStream, UploadFile, DownloadFile, DownloadFileStream,
// UDP association) and served by B's real responder code. Every key that
// crypto.DeriveSessionKey hands out on either agent is observed through the
// verif-only hook and the keys of the two ends are compared per request id.

import (
	"bytes"
	"context"
	"fmt"
	"io"
	"net"
	"os"
	"path/filepath"
	"sync"
	"time"

	"github.com/postalsys/muti-metroo/internal/agent"
	"github.com/postalsys/muti-metroo/internal/config"
	"github.com/postalsys/muti-metroo/internal/crypto"
	"github.com/postalsys/muti-metroo/internal/health"
	"github.com/postalsys/muti-metroo/internal/protocol"
	"github.com/postalsys/muti-metroo/internal/shell"
	"github.com/postalsys/muti-metroo/internal/transport"
	"github.com/postalsys/muti-metroo/verifharness/vh"
)

type derivedKey struct {
	id   uint64
	init bool
	key  key32
}

type keyLog struct {
	mu  sync.Mutex
	all []derivedKey
}

func (l *keyLog) snapshot() []derivedKey {
	l.mu.Lock()
	defer l.mu.Unlock()
	return append([]derivedKey(nil), l.all...)
}

func freeUDPAddr() (string, error) {
	c, err := net.ListenUDP("udp", &net.UDPAddr{IP: net.IPv4(127, 0, 0, 1)})
	if err != nil {
		return "", err
	}
	defer c.Close()
	return c.LocalAddr().String(), nil
}

func waitFor(d time.Duration, f func() bool) bool {
	deadline := time.Now().Add(d)
	for time.Now().Before(deadline) {
		if f() {
			return true
		}
		time.Sleep(20 * time.Millisecond)
	}
	return f()
}

func runAgents(h *harness, root *vh.Rand, replayOnly bool) {
	c := h.c
	t0 := time.Now()
	base, err := os.MkdirTemp("", "verif-c03-")
	if err != nil {
		c.Note("live agents skipped: %v", err)
		return
	}
	defer os.RemoveAll(base)
	// a mesh that does not come up is an environment problem, not a C03 violation: noted, not failed
	c.Res.Extra["live_agents"] = false
	fail := func(sig, detail string) { c.Note("live agents skipped (%s): %s", sig, detail) }

	// echo servers (TCP and UDP) on loopback
	tl, err := net.Listen("tcp", "127.0.0.1:0")
	if err != nil {
		c.Note("live agents skipped: %v", err)
		return
	}
	defer tl.Close()
	go func() {
		for {
			cn, err := tl.Accept()
			if err != nil {
				return
			}
			go func() { defer cn.Close(); io.Copy(cn, cn) }()
		}
	}()
	ul, err := net.ListenUDP("udp", &net.UDPAddr{IP: net.IPv4(127, 0, 0, 1)})
	if err != nil {
		c.Note("live agents skipped: %v", err)
		return
	}
	defer ul.Close()
	go func() {
		buf := make([]byte, 2048)
		for {
			n, addr, err := ul.ReadFromUDP(buf)
			if err != nil {
				return
			}
			ul.WriteToUDP(buf[:n], addr)
		}
	}()

	addrB, err := freeUDPAddr()
	if err != nil {
		c.Note("live agents skipped: %v", err)
		return
	}
	certPEM, keyPEM, err := transport.GenerateSelfSignedCert("agent-B", 24*time.Hour)
	if err != nil {
		c.Note("live agents skipped: %v", err)
		return
	}
	dirA, dirB, files := filepath.Join(base, "A"), filepath.Join(base, "B"), filepath.Join(base, "files")
	for _, d := range []string{dirA, dirB, files} {
		os.MkdirAll(d, 0o755)
	}
	certFile, keyFile := filepath.Join(dirB, "cert.pem"), filepath.Join(dirB, "key.pem")
	os.WriteFile(certFile, certPEM, 0o600)
	os.WriteFile(keyFile, keyPEM, 0o600)

	cfgB := config.Default()
	cfgB.Agent.DataDir = dirB
	cfgB.Agent.LogLevel = "error"
	cfgB.Listeners = []config.ListenerConfig{{Transport: "quic", Address: addrB, TLS: config.TLSConfig{Cert: certFile, Key: keyFile}}}
	cfgB.Exit.Enabled = true
	cfgB.Exit.Routes = []string{"0.0.0.0/0"}
	dnsAddr, stopDNS, err := startDNS("echo.verif.test")
	if err != nil {
		c.Note("live agents skipped: %v", err)
		return
	}
	defer stopDNS()
	cfgB.Exit.DomainRoutes = []string{"echo.verif.test"}
	cfgB.Exit.DNS.Servers = []string{dnsAddr}
	cfgB.Exit.DNS.Timeout = 5 * time.Second
	cfgB.Shell = config.ShellConfig{Enabled: true, Whitelist: []string{"*"}}
	cfgB.FileTransfer.Enabled = true
	cfgB.FileTransfer.AllowedPaths = []string{"*"}
	cfgB.UDP.Enabled = true
	cfgB.Forward.Endpoints = []config.ForwardEndpoint{{Key: "svc", Target: tl.Addr().String()}}

	cfgA := config.Default()
	cfgA.Agent.DataDir = dirA
	cfgA.Agent.LogLevel = "error"
	cfgA.Peers = []config.PeerConfig{{ID: "auto", Transport: "quic", Address: addrB, TLS: config.TLSConfig{}}}

	log := &keyLog{}
	crypto.VerifSetDerivedHook(func(sk *crypto.SessionKey, id uint64) {
		d := derivedKey{id: id, init: sk.VerifIsInitiator(), key: sk.Key()}
		log.mu.Lock()
		log.all = append(log.all, d)
		log.mu.Unlock()
	})
	defer crypto.VerifSetDerivedHook(nil)

	B, err := agent.New(cfgB)
	if err != nil {
		fail("live-agent-setup", "agent B: "+err.Error())
		return
	}
	A, err := agent.New(cfgA)
	if err != nil {
		fail("live-agent-setup", "agent A: "+err.Error())
		return
	}
	if err := B.Start(); err != nil {
		fail("live-agent-setup", "start B: "+err.Error())
		return
	}
	defer B.Stop()
	if err := A.Start(); err != nil {
		fail("live-agent-setup", "start A: "+err.Error())
		return
	}
	defer A.Stop()
	if !waitFor(60*time.Second, func() bool {
		return A.Stats().PeerCount == 1 && A.Stats().RouteCount > 0 && A.LookupForwardRoute("svc") != nil && len(A.GetDomainRouteDetails()) > 0
	}) {
		st := A.Stats()
		fail("live-agent-setup", fmt.Sprintf("mesh did not converge in 60s: peers=%d routes=%d forward=%v domain=%d", st.PeerCount, st.RouteCount, A.LookupForwardRoute("svc") != nil, len(A.GetDomainRouteDetails())))
		return
	}
	c.Res.Extra["live_agents"] = true
	c.Note("live agents: mesh up after %v", time.Since(t0).Round(time.Millisecond))

	tcpPort := tl.Addr().(*net.TCPAddr).Port
	echo := func(cn net.Conn, tag string) error {
		defer cn.Close()
		cn.SetDeadline(time.Now().Add(20 * time.Second))
		msg := []byte("marker-" + tag)
		if _, err := cn.Write(msg); err != nil {
			return err
		}
		got := make([]byte, len(msg))
		if _, err := io.ReadFull(cn, got); err != nil {
			return err
		}
		if !bytes.Equal(got, msg) {
			return fmt.Errorf("echo mismatch")
		}
		return nil
	}
	srcFile := filepath.Join(files, "src.bin")
	os.WriteFile(srcFile, bytes.Repeat([]byte("verif-c03 "), 500), 0o644)

	type liveOpen struct {
		kind string
		run  func(ctx context.Context) error
	}
	opens := []liveOpen{
		{"tcp-ip-route", func(ctx context.Context) error {
			cn, err := A.DialContext(ctx, "tcp", fmt.Sprintf("127.0.0.1:%d", tcpPort))
			if err != nil {
				return err
			}
			return echo(cn, "tcp")
		}},
		{"tcp-domain-route", func(ctx context.Context) error {
			cn, err := A.DialContext(ctx, "tcp", fmt.Sprintf("echo.verif.test:%d", tcpPort))
			if err != nil {
				return err
			}
			return echo(cn, "domain")
		}},
		{"forward", func(ctx context.Context) error {
			cn, err := A.DialForward(ctx, "svc")
			if err != nil {
				return err
			}
			return echo(cn, "forward")
		}},
		{"shell", func(ctx context.Context) error {
			s, err := A.OpenShellStream(ctx, B.ID(), &shell.ShellMeta{Command: "echo", Args: []string{"marker-shell"}}, false)
			if err != nil {
				return err
			}
			defer s.Close()
			var out bytes.Buffer
			deadline := time.After(20 * time.Second)
			for {
				select {
				case b, ok := <-s.Receive:
					if !ok {
						goto done
					}
					out.Write(b)
				case <-s.Done:
					// drain
					for {
						select {
						case b, ok := <-s.Receive:
							if !ok {
								goto done
							}
							out.Write(b)
						default:
							goto done
						}
					}
				case <-deadline:
					return fmt.Errorf("shell timeout (got %q)", out.String())
				}
			}
		done:
			if !bytes.Contains(out.Bytes(), []byte("marker-shell")) {
				return fmt.Errorf("shell output %q does not contain the marker", out.String())
			}
			return nil
		}},
		{"file-upload", func(ctx context.Context) error {
			dst := filepath.Join(files, "uploaded.bin")
			os.Remove(dst)
			if err := A.UploadFile(ctx, B.ID(), srcFile, dst, health.TransferOptions{}, nil); err != nil {
				return err
			}
			a, _ := os.ReadFile(srcFile)
			b, err := os.ReadFile(dst)
			if err != nil || !bytes.Equal(a, b) {
				return fmt.Errorf("uploaded file differs (%v)", err)
			}
			return nil
		}},
		{"file-download", func(ctx context.Context) error {
			dst := filepath.Join(files, "downloaded.bin")
			os.Remove(dst)
			if err := A.DownloadFile(ctx, B.ID(), srcFile, dst, health.TransferOptions{}, nil); err != nil {
				return err
			}
			a, _ := os.ReadFile(srcFile)
			b, err := os.ReadFile(dst)
			if err != nil || !bytes.Equal(a, b) {
				return fmt.Errorf("downloaded file differs (%v)", err)
			}
			return nil
		}},
		{"file-download-stream", func(ctx context.Context) error {
			r, err := A.DownloadFileStream(ctx, B.ID(), srcFile, health.TransferOptions{})
			if err != nil {
				return err
			}
			defer r.Close()
			got, err := io.ReadAll(r.Reader)
			a, _ := os.ReadFile(srcFile)
			if err != nil || !bytes.Equal(a, got) {
				return fmt.Errorf("streamed file differs (%v, %d bytes)", err, len(got))
			}
			return nil
		}},
		{"udp", func(ctx context.Context) error {
			sid, err := A.CreateUDPAssociation(ctx, &net.UDPAddr{IP: net.IPv4(127, 0, 0, 1), Port: 40000})
			if err != nil {
				return err
			}
			defer A.CloseUDPAssociation(sid)
			ua := ul.LocalAddr().(*net.UDPAddr)
			return A.RelayUDPDatagram(sid, ua, uint16(ua.Port), protocol.AddrTypeIPv4, []byte{127, 0, 0, 1}, []byte("marker-udp"))
		}},
	}

	rounds := c.N(1, 6)
	seenIDs := map[uint64]bool{}
	for round := 0; round < rounds; round++ {
		for _, op := range opens {
			before := len(log.snapshot())
			ctx, cancel := context.WithTimeout(context.Background(), 30*time.Second)
			var runErr error
			if p := vh.Recover(func() { runErr = op.run(ctx) }); p != "" {
				runErr = fmt.Errorf("panic: %s", p)
			}
			cancel()
			// both ends must have derived a key for one new request id
			var fresh []derivedKey
			waitFor(5*time.Second, func() bool {
				fresh = log.snapshot()[before:]
				ni, nr := 0, 0
				for _, d := range fresh {
					if d.init {
						ni++
					} else {
						nr++
					}
				}
				return ni >= 1 && nr >= 1
			})
			rp := replay{Part: "agents", Kind: op.kind}
			if runErr != nil {
				c.Fail("live-open-failed-"+op.kind, fmt.Sprintf("%s through the two-agent mesh failed: %v", op.kind, runErr), rp)
			}
			byID := map[uint64][]derivedKey{}
			for _, d := range fresh {
				byID[d.id] = append(byID[d.id], d)
			}
			ni, nr := 0, 0
			var ik, rk key32
			var id uint64
			for rid, ds := range byID {
				id = rid
				for _, d := range ds {
					if d.init {
						ni++
						ik = d.key
					} else {
						nr++
						rk = d.key
					}
				}
				if seenIDs[rid] {
					c.Fail("live-request-id-reused", fmt.Sprintf("request id %d used by two tunnels", rid), rp)
				}
				seenIDs[rid] = true
			}
			switch {
			case len(byID) != 1 || ni != 1 || nr != 1:
				c.Fail("live-key-derivations-"+op.kind, fmt.Sprintf("%s: expected one initiator and one responder derivation for one request id, saw %d ids, %d initiator, %d responder", op.kind, len(byID), ni, nr), rp)
			case ik != rk:
				c.Fail("key-mismatch-live-"+op.kind, fmt.Sprintf("%s: ingress holds key %x, exit holds %x (request id %d)", op.kind, ik[:8], rk[:8], id), rp)
			}
			for _, d := range fresh {
				if prev, dup := h.seenKeys[d.key]; dup && prev != fmt.Sprintf("live %s id %d", op.kind, d.id) {
					c.Fail("distinct-tunnels-same-key", fmt.Sprintf("live %s shares its session key with %s", op.kind, prev), rp)
				}
				h.seenKeys[d.key] = fmt.Sprintf("live %s id %d", op.kind, d.id)
			}
			rp.ID = fmt.Sprint(id)
			i := c.Case(fmt.Sprintf("live/%s/%d", op.kind, round), true, rp)
			h.lcases = append(h.lcases, fmt.Sprintf("mklcase %d \"%s\" %d \"%s\" \"%s\" %d %d", i, op.kind, id, hx(ik[:]), hx(rk[:]), ni, nr))
			c.Count("live:" + op.kind)
		}
	}
	c.Note("live agents: %d opens in %v", rounds*len(opens), time.Since(t0).Round(time.Millisecond))
}
