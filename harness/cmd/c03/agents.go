package main

import "github.com/postalsys/muti-metroo/verifharness/vh"

// runAgents: live two-agent opens (filled in below).
func runAgents(h *harness, root *vh.Rand, replayOnly bool) {
	h.c.Note("live two-agent opens not built yet")
}
