// c03: correspondence and monitor harness for C03 (tunnel ends derive the
// same key; distinct tunnels get distinct keys; degenerate remote keys are
// refused).
//
// Implementation under test, all real code:
//   - crypto.DeriveSessionKey / crypto.ComputeECDH directly;
//   - every responder entry point that is reachable without privileges:
//     exit.Handler.HandleStreamOpen, forward.Handler.HandleStreamOpen,
//     udp.Handler.HandleUDPOpen, shell.Handler.HandleStreamOpen,
//     agent.deriveResponderSessionKey (file transfer) and
//     icmp.Handler.performKeyExchange (the last two through verif hooks; the
//     sandbox has no ICMP sockets so HandleICMPOpen itself stops earlier);
//   - the ICMP initiator helper agent.deriveICMPSessionKey (hook);
//   - (agents.go) a live two-agent mesh on loopback for the initiator code
//     paths of TCP, forward, shell, file transfer and UDP.
package main

import (
	"bytes"
	"context"
	"crypto/sha256"
	"encoding/binary"
	"encoding/hex"
	"fmt"
	"io"
	"log/slog"
	"net"
	"os"
	"path/filepath"
	"regexp"
	"strings"
	"sync"
	"time"

	"golang.org/x/crypto/curve25519"
	"golang.org/x/crypto/hkdf"

	"github.com/postalsys/muti-metroo/internal/agent"
	"github.com/postalsys/muti-metroo/internal/crypto"
	"github.com/postalsys/muti-metroo/internal/exit"
	"github.com/postalsys/muti-metroo/internal/forward"
	"github.com/postalsys/muti-metroo/internal/icmp"
	"github.com/postalsys/muti-metroo/internal/identity"
	"github.com/postalsys/muti-metroo/internal/protocol"
	"github.com/postalsys/muti-metroo/internal/shell"
	"github.com/postalsys/muti-metroo/internal/udp"
	"github.com/postalsys/muti-metroo/verifharness/vh"
)

type key32 = [32]byte

func hx(b []byte) string { return hex.EncodeToString(b) }

func unhex32(s string) key32 {
	var k key32
	b, _ := hex.DecodeString(s)
	copy(k[:], b)
	return k
}

// raw X25519 as curve25519.ScalarMult computes it (all-zero for low-order points)
func rawX25519(scalar, point key32) key32 {
	var dst key32
	curve25519.ScalarMult(&dst, &scalar, &point) //nolint:staticcheck
	return dst
}

func isZero(k key32) bool { return k == key32{} }

// hkdfInfo is the HKDF context string; read from the repository's source when
// available so that changing it (which keeps the property) is not reported.
var hkdfInfo = "muti-metroo-e2e-v1"

func init() {
	repo := os.Getenv("VERIF_REPO")
	if repo == "" {
		repo = "/repo"
	}
	b, err := os.ReadFile(filepath.Join(repo, "internal", "crypto", "crypto.go"))
	if err != nil {
		return
	}
	if m := regexp.MustCompile(`hkdfInfo\s*=\s*"([^"]*)"`).FindSubmatch(b); m != nil {
		hkdfInfo = string(m[1])
	}
}

func hkdfKey(secret, salt []byte) key32 {
	var k key32
	io.ReadFull(hkdf.New(sha256.New, secret, salt, []byte(hkdfInfo)), k[:])
	return k
}

func saltBE(id uint64, a, b key32) []byte {
	s := make([]byte, 8, 72)
	binary.BigEndian.PutUint64(s, id)
	s = append(s, a[:]...)
	return append(s, b[:]...)
}

// identifySalt finds which salt layout reproduces the observed key under the
// real HKDF; "" if none of the candidates does.
func identifySalt(key key32, secret key32, id uint64, a, b key32) string {
	le := make([]byte, 8)
	binary.LittleEndian.PutUint64(le, id)
	cands := [][]byte{
		saltBE(id, a, b),
		saltBE(id, b, a),
		append(append(append([]byte{}, le...), a[:]...), b[:]...),
		append(append([]byte{}, a[:]...), b[:]...),
		saltBE(0, a, b),
		append(append(append([]byte{}, a[:]...), b[:]...), saltBE(id, a, b)[:8]...),
	}
	for _, s := range cands {
		if hkdfKey(secret[:], s) == key {
			return hx(s)
		}
	}
	return ""
}

// degenerate remote keys: the all-zero key, the canonical and non-canonical
// encodings of the small-order points of Curve25519, with and without bit 255
var degenerateHex = []string{
	"0000000000000000000000000000000000000000000000000000000000000000",
	"0100000000000000000000000000000000000000000000000000000000000000",
	"e0eb7a7c3b41b8ae1656e3faf19fc46ada098deb9c32b1fd866205165f49b800",
	"5f9c95bca3508c24b1d0b1559c83ef5b04445cc4581c8e86d8224eddd09f1157",
	"ecffffffffffffffffffffffffffffffffffffffffffffffffffffffffffff7f",
	"edffffffffffffffffffffffffffffffffffffffffffffffffffffffffffff7f",
	"eeffffffffffffffffffffffffffffffffffffffffffffffffffffffffffff7f",
	"0000000000000000000000000000000000000000000000000000000000000080",
	"0100000000000000000000000000000000000000000000000000000000000080",
	"e0eb7a7c3b41b8ae1656e3faf19fc46ada098deb9c32b1fd866205165f49b880",
	"5f9c95bca3508c24b1d0b1559c83ef5b04445cc4581c8e86d8224eddd09f11d7",
	"ecffffffffffffffffffffffffffffffffffffffffffffffffffffffffffffff",
	"edffffffffffffffffffffffffffffffffffffffffffffffffffffffffffffff",
	"eeffffffffffffffffffffffffffffffffffffffffffffffffffffffffffffff",
}

// other unusual encodings (not low order for an implementation that masks bit 255)
var unusualHex = []string{
	"cdeb7a7c3b41b8ae1656e3faf19fc46ada098deb9c32b1fd866205165f49b880",
	"4c9c95bca3508c24b1d0b1559c83ef5b04445cc4581c8e86d8224eddd09f11d7",
	"d9ffffffffffffffffffffffffffffffffffffffffffffffffffffffffffffff",
	"daffffffffffffffffffffffffffffffffffffffffffffffffffffffffffffff",
	"dbffffffffffffffffffffffffffffffffffffffffffffffffffffffffffffff",
	"0200000000000000000000000000000000000000000000000000000000000000",
	"0900000000000000000000000000000000000000000000000000000000000000",
}

// ---------------------------------------------------------------------------
// fake writers

type ackMsg struct {
	ok      bool
	pub     key32
	errCode uint16
	errMsg  string
}

type streamWriter struct {
	mu   sync.Mutex
	acks map[uint64]chan ackMsg
}

func newStreamWriter() *streamWriter { return &streamWriter{acks: map[uint64]chan ackMsg{}} }
func (w *streamWriter) ch(id uint64) chan ackMsg {
	w.mu.Lock()
	defer w.mu.Unlock()
	c, ok := w.acks[id]
	if !ok {
		c = make(chan ackMsg, 4)
		w.acks[id] = c
	}
	return c
}
func (w *streamWriter) WriteStreamData(identity.AgentID, uint64, []byte, uint8) error { return nil }
func (w *streamWriter) WriteStreamOpenAck(_ identity.AgentID, streamID uint64, _ uint64, _ net.IP, _ uint16, pub [crypto.KeySize]byte) error {
	w.ch(streamID) <- ackMsg{ok: true, pub: pub}
	return nil
}
func (w *streamWriter) WriteStreamOpenErr(_ identity.AgentID, streamID uint64, _ uint64, code uint16, msg string) error {
	w.ch(streamID) <- ackMsg{ok: false, errCode: code, errMsg: msg}
	return nil
}
func (w *streamWriter) WriteStreamClose(identity.AgentID, uint64) error { return nil }

type udpWriter struct {
	mu   sync.Mutex
	acks map[uint64]ackMsg
}

func (w *udpWriter) WriteUDPDatagram(identity.AgentID, uint64, *protocol.UDPDatagram) error { return nil }
func (w *udpWriter) WriteUDPClose(identity.AgentID, uint64, uint8) error                   { return nil }
func (w *udpWriter) WriteUDPOpenAck(_ identity.AgentID, streamID uint64, ack *protocol.UDPOpenAck) error {
	w.mu.Lock()
	defer w.mu.Unlock()
	w.acks[streamID] = ackMsg{ok: true, pub: ack.EphemeralPubKey}
	return nil
}
func (w *udpWriter) WriteUDPOpenErr(_ identity.AgentID, streamID uint64, e *protocol.UDPOpenErr) error {
	w.mu.Lock()
	defer w.mu.Unlock()
	w.acks[streamID] = ackMsg{ok: false, errCode: e.ErrorCode, errMsg: e.Message}
	return nil
}

type icmpWriter struct{}

func (icmpWriter) WriteICMPOpenAck(identity.AgentID, uint64, *protocol.ICMPOpenAck) error { return nil }
func (icmpWriter) WriteICMPOpenErr(identity.AgentID, uint64, *protocol.ICMPOpenErr) error { return nil }
func (icmpWriter) WriteICMPEcho(identity.AgentID, uint64, *protocol.ICMPEcho) error       { return nil }
func (icmpWriter) WriteICMPClose(identity.AgentID, uint64, uint8) error                   { return nil }

type shellWriter struct{}

func (shellWriter) WriteStreamData(identity.AgentID, uint64, []byte, uint8) error { return nil }
func (shellWriter) WriteStreamClose(identity.AgentID, uint64) error               { return nil }

type nopCloser struct{}

func (nopCloser) Close() error { return nil }

// ---------------------------------------------------------------------------
// responder entry points

const (
	outRefused = 0
	outPlain   = 1
	outKeyed   = 2
)

type openResult struct {
	outcome int
	pub     key32
	key     *crypto.SessionKey
	detail  string
}

type responders struct {
	peer     identity.AgentID
	listener net.Listener
	exitH    *exit.Handler
	exitW    *streamWriter
	fwdH     *forward.Handler
	fwdW     *streamWriter
	udpH     *udp.Handler
	udpW     *udpWriter
	icmpH    *icmp.Handler
	shellH   *shell.Handler
	nextSID  uint64
}

func newResponders() (*responders, error) {
	r := &responders{nextSID: 2}
	r.peer, _ = identity.NewAgentID()
	local, _ := identity.NewAgentID()
	l, err := net.Listen("tcp", "127.0.0.1:0")
	if err != nil {
		return nil, err
	}
	r.listener = l
	go func() {
		for {
			c, err := l.Accept()
			if err != nil {
				return
			}
			go func() { io.Copy(io.Discard, c); c.Close() }()
		}
	}()
	logger := slog.New(slog.NewTextHandler(io.Discard, nil))
	ecfg := exit.DefaultHandlerConfig()
	_, lo, _ := net.ParseCIDR("127.0.0.0/8")
	ecfg.AllowedRoutes = []*net.IPNet{lo}
	ecfg.ConnectTimeout = 5 * time.Second
	ecfg.Logger = logger
	r.exitW = newStreamWriter()
	r.exitH = exit.NewHandler(ecfg, local, r.exitW)
	r.exitH.Start()
	fcfg := forward.DefaultHandlerConfig()
	fcfg.Endpoints = []forward.Endpoint{{Key: "svc", Target: l.Addr().String()}}
	fcfg.ConnectTimeout = 5 * time.Second
	fcfg.Logger = logger
	r.fwdW = newStreamWriter()
	r.fwdH = forward.NewHandler(fcfg, local, r.fwdW)
	r.fwdH.Start()
	ucfg := udp.DefaultConfig()
	ucfg.Enabled = true
	ucfg.IdleTimeout = 0
	r.udpW = &udpWriter{acks: map[uint64]ackMsg{}}
	r.udpH = udp.NewHandler(ucfg, r.udpW, logger)
	icfg := icmp.DefaultConfig()
	icfg.IdleTimeout = 0
	r.icmpH = icmp.NewHandler(icfg, icmpWriter{}, logger)
	r.shellH = shell.NewHandler(shell.NewExecutor(shell.Config{Enabled: true, Whitelist: []string{"*"}}), shellWriter{}, logger)
	return r, nil
}

func (r *responders) close() {
	r.exitH.Stop()
	r.fwdH.Stop()
	r.udpH.Close()
	r.icmpH.Close()
	r.shellH.Close()
	r.listener.Close()
}

func (r *responders) sid() uint64 { r.nextSID += 2; return r.nextSID }

func waitAck(ch chan ackMsg) (ackMsg, bool) {
	select {
	case a := <-ch:
		return a, true
	case <-time.After(20 * time.Second):
		return ackMsg{}, false
	}
}

// site = (kind, function of the DeriveSessionKey call site that serves this entry point)
type entry struct {
	kind, fn, role string
	direct         bool // the hook calls the function that contains the site, below a guard in its caller
	open           func(r *responders, id uint64, remote key32) openResult
}

func entries() []entry {
	return []entry{
		{"tcp", "handleStreamOpenAsync", "responder", false, func(r *responders, id uint64, remote key32) openResult {
			sid := r.sid()
			port := uint16(r.listener.Addr().(*net.TCPAddr).Port)
			if err := r.exitH.HandleStreamOpen(context.Background(), sid, id, r.peer, "127.0.0.1", port, remote); err != nil {
				return openResult{outcome: outRefused, detail: err.Error()}
			}
			a, ok := waitAck(r.exitW.ch(sid))
			if !ok {
				return openResult{outcome: -1, detail: "no ack within 20s"}
			}
			if !a.ok {
				return openResult{outcome: outRefused, detail: a.errMsg}
			}
			k := r.exitH.VerifSessionKey(sid)
			if k == nil {
				return openResult{outcome: outPlain, pub: a.pub}
			}
			return openResult{outcome: outKeyed, pub: a.pub, key: k}
		}},
		{"forward", "handleStreamOpenAsync", "responder", false, func(r *responders, id uint64, remote key32) openResult {
			sid := r.sid()
			if err := r.fwdH.HandleStreamOpen(context.Background(), sid, id, r.peer, "svc", remote); err != nil {
				return openResult{outcome: outRefused, detail: err.Error()}
			}
			a, ok := waitAck(r.fwdW.ch(sid))
			if !ok {
				return openResult{outcome: -1, detail: "no ack within 20s"}
			}
			if !a.ok {
				return openResult{outcome: outRefused, detail: a.errMsg}
			}
			k := r.fwdH.VerifSessionKey(sid)
			if k == nil {
				return openResult{outcome: outPlain, pub: a.pub}
			}
			return openResult{outcome: outKeyed, pub: a.pub, key: k}
		}},
		{"udp", "performKeyExchange", "responder", false, func(r *responders, id uint64, remote key32) openResult {
			sid := r.sid()
			open := &protocol.UDPOpen{RequestID: id, AddressType: protocol.AddrTypeIPv4, Address: []byte{0, 0, 0, 0}, Port: 0, TTL: 4}
			err := r.udpH.HandleUDPOpen(context.Background(), r.peer, sid, open, remote)
			r.udpW.mu.Lock()
			a, got := r.udpW.acks[sid]
			r.udpW.mu.Unlock()
			if err != nil || !got || !a.ok {
				return openResult{outcome: outRefused, detail: fmt.Sprintf("err=%v ack=%v", err, a.errMsg)}
			}
			assoc := r.udpH.GetAssociation(sid)
			if assoc == nil {
				return openResult{outcome: outRefused, detail: "no association"}
			}
			k := assoc.GetSessionKey()
			// the association stays open until the handler is closed: closing it zeroes the key
			if k == nil {
				return openResult{outcome: outPlain, pub: a.pub}
			}
			return openResult{outcome: outKeyed, pub: a.pub, key: k}
		}},
		{"icmp", "performKeyExchange", "responder", true, func(r *responders, id uint64, remote key32) openResult {
			sid := r.sid()
			s := icmp.NewSession(sid, id, r.peer, net.IPv4(127, 0, 0, 1))
			open := &protocol.ICMPOpen{RequestID: id}
			pub, err := r.icmpH.VerifPerformKeyExchange(s, open, remote, nopCloser{})
			if err != nil {
				return openResult{outcome: outRefused, detail: err.Error()}
			}
			k := s.GetSessionKey()
			if k == nil {
				return openResult{outcome: outPlain, pub: pub}
			}
			return openResult{outcome: outKeyed, pub: pub, key: k}
		}},
		{"shell", "HandleStreamOpen", "responder", false, func(r *responders, id uint64, remote key32) openResult {
			sid := r.sid()
			code, pub := r.shellH.HandleStreamOpen(r.peer, sid, id, false, remote)
			if code != 0 {
				return openResult{outcome: outRefused, detail: fmt.Sprintf("error code %d", code)}
			}
			k := r.shellH.VerifSessionKey(sid)
			if k == nil {
				return openResult{outcome: outPlain, pub: pub}
			}
			return openResult{outcome: outKeyed, pub: pub, key: k}
		}},
		{"file", "deriveResponderSessionKey", "responder", false, func(r *responders, id uint64, remote key32) openResult {
			k, pub, err := agent.VerifDeriveResponderSessionKey(id, remote)
			if err != nil {
				return openResult{outcome: outRefused, detail: err.Error()}
			}
			if k == nil {
				return openResult{outcome: outPlain, pub: pub}
			}
			return openResult{outcome: outKeyed, pub: pub, key: k}
		}},
	}
}

// ---------------------------------------------------------------------------

type replay struct {
	Part   string `json:"part"` // "derive" | "ecdh" | "open" | "icmp-initiator" | "agents"
	Kind   string `json:"kind,omitempty"`
	Fn     string `json:"fn,omitempty"`
	Role   string `json:"role,omitempty"`
	ID     string `json:"id,omitempty"`
	Remote string `json:"remote,omitempty"`
	Class  string `json:"class,omitempty"` // "good" | "zero" | "low-order"
	PI     string `json:"pi,omitempty"`
	PR     string `json:"pr,omitempty"`
	Secret string `json:"secret,omitempty"`
	Priv   string `json:"priv,omitempty"`
	Note   string `json:"note,omitempty"`
}

type harness struct {
	c                   *vh.Ctx
	dcases, ecases, ocs []string
	lcases              []string
	seenKeys            map[key32]string
}

func (h *harness) idx() int { return h.c.Res.Evaluations }

func coqBool(b bool) string {
	if b {
		return "true"
	}
	return "false"
}

// ---- part 1: DeriveSessionKey --------------------------------------------------
func (h *harness) derive(secret key32, id uint64, pi, pr key32) {
	c := h.c
	rp := replay{Part: "derive", ID: fmt.Sprint(id), PI: hx(pi[:]), PR: hx(pr[:]), Secret: hx(secret[:])}
	var kt, kf *crypto.SessionKey
	if p := vh.Recover(func() {
		kt = crypto.DeriveSessionKey(secret, id, pi, pr, true)
		kf = crypto.DeriveSessionKey(secret, id, pi, pr, false)
	}); p != "" {
		c.Fail("panic", "DeriveSessionKey panicked: "+p, rp)
		return
	}
	// monitor: both roles hold the same key
	if kt.Key() != kf.Key() {
		c.Fail("derive-roles-disagree", "the initiator-side and responder-side keys for identical inputs differ", rp)
	}
	if isZero(kt.Key()) {
		c.Fail("derive-zero-key", "derived key is all zero", rp)
	}
	// monitor: changing the id or either public key changes the key
	mut := func(what string, id2 uint64, pi2, pr2 key32) {
		k2 := crypto.DeriveSessionKey(secret, id2, pi2, pr2, true)
		if k2.Key() == kt.Key() {
			c.Fail("distinct-tunnels-same-key", "tunnels differing in "+what+" derive the same key", rp)
		}
	}
	mut("request id", id+1, pi, pr)
	mut("request id (high bit)", id^(1<<63), pi, pr)
	flip := func(k key32, i int) key32 { k[i] ^= 1; return k }
	mut("initiator key", id, flip(pi, 0), pr)
	mut("initiator key (last byte)", id, flip(pi, 31), pr)
	mut("responder key", id, pi, flip(pr, 0))
	mut("responder key (last byte)", id, pi, flip(pr, 31))
	if pi != pr {
		mut("key order", id, pr, pi)
	}
	for _, fl := range []bool{true, false} {
		k := kt
		if !fl {
			k = kf
		}
		i := c.Case(fmt.Sprintf("derive/%d/%x/%x/%v", id, pi[:4], pr[:4], fl), true, rp)
		h.dcases = append(h.dcases, fmt.Sprintf("mkdcase %d %d \"%s\" \"%s\" %s \"%s\" %s", i, id, hx(pi[:]), hx(pr[:]), coqBool(fl),
			identifySalt(k.Key(), secret, id, pi, pr), coqBool(k.VerifIsInitiator())))
	}
	c.Count("derive")
}

// ---- part 2: ComputeECDH -------------------------------------------------------
func (h *harness) ecdh(priv, remote key32, class string) {
	c := h.c
	rp := replay{Part: "ecdh", Priv: hx(priv[:]), Remote: hx(remote[:]), Class: class}
	var ss key32
	var err error
	if p := vh.Recover(func() { ss, err = crypto.ComputeECDH(priv, remote) }); p != "" {
		c.Fail("panic", "ComputeECDH panicked: "+p, rp)
		return
	}
	raw := rawX25519(priv, remote)
	obs := 0
	if err != nil {
		switch {
		case strings.Contains(err.Error(), "zero key"):
			obs = 1
		case strings.Contains(err.Error(), "low-order"):
			obs = 2
		default:
			obs = 3
		}
	}
	// monitor
	degenerate := isZero(remote) || isZero(raw)
	if degenerate && err == nil {
		c.Fail("ecdh-accepted-degenerate-key", fmt.Sprintf("ComputeECDH returned a secret for the %s remote key %x", class, remote), rp)
	}
	if !degenerate && err != nil {
		c.Fail("ecdh-refused-valid-key", fmt.Sprintf("ComputeECDH refused the valid remote key %x: %v", remote, err), rp)
	}
	if err == nil && isZero(ss) {
		c.Fail("ecdh-zero-secret", "ComputeECDH returned an all-zero secret", rp)
	}
	i := c.Case("ecdh/"+hx(remote[:])+"/"+hx(priv[:4]), true, rp)
	h.ecases = append(h.ecases, fmt.Sprintf("mkecase %d \"%s\" \"%s\" %d \"%s\"", i, hx(remote[:]), hx(raw[:]), obs, hx(ss[:])))
	c.Count("ecdh:" + class)
}

func (h *harness) ecdhPair() {
	c := h.c
	pa, A, _ := crypto.GenerateEphemeralKeypair()
	pb, B, _ := crypto.GenerateEphemeralKeypair()
	s1, e1 := crypto.ComputeECDH(pa, B)
	s2, e2 := crypto.ComputeECDH(pb, A)
	if e1 != nil || e2 != nil || s1 != s2 {
		c.Fail("ecdh-not-commutative", fmt.Sprintf("ECDH(a,B)=%x err=%v, ECDH(b,A)=%x err=%v", s1, e1, s2, e2), replay{Part: "ecdh", Class: "pair"})
	}
	h.ecdh(pa, B, "good")
}

// ---- part 3: responder entry points ------------------------------------------
func (h *harness) checkKeyed(e entry, rp replay, id uint64, privA, pubA key32, res openResult, respIsResponder bool) (keymat string, oflag bool) {
	c := h.c
	name := e.kind + "-" + e.role
	ssRef, err := crypto.ComputeECDH(privA, res.pub)
	if err != nil {
		c.Fail("peer-key-degenerate-"+name, fmt.Sprintf("the %s end answered with a degenerate public key %x", e.role, res.pub), rp)
		return "", false
	}
	var ref *crypto.SessionKey
	if respIsResponder {
		ref = crypto.DeriveSessionKey(ssRef, id, pubA, res.pub, true)
	} else {
		ref = crypto.DeriveSessionKey(ssRef, id, res.pub, pubA, false)
	}
	got := res.key.Key()
	want := ref.Key()
	if got != want {
		c.Fail("key-mismatch-"+name, fmt.Sprintf("%s (%s.%s) holds key %x, the matching peer computes %x (request id %d)", e.role, e.kind, e.fn, got[:8], want[:8], id), rp)
	}
	oflag = res.key.VerifIsInitiator()
	if oflag == ref.VerifIsInitiator() {
		c.Fail("role-flag-"+name, "both ends of the tunnel use the same role flag", rp)
	}
	// a payload crosses in both directions
	msg := []byte("marker-" + name)
	if ct, err := ref.Encrypt(msg); err == nil {
		if pt, err := res.key.Decrypt(ct); err != nil || !bytes.Equal(pt, msg) {
			c.Fail("key-unusable-"+name, fmt.Sprintf("payload sealed by the peer does not open at the %s: %v", e.role, err), rp)
		}
	}
	if ct, err := res.key.Encrypt(msg); err == nil {
		if pt, err := ref.Decrypt(ct); err != nil || !bytes.Equal(pt, msg) {
			c.Fail("key-unusable-"+name, fmt.Sprintf("payload sealed by the %s does not open at the peer: %v", e.role, err), rp)
		}
	}
	if prev, dup := h.seenKeys[got]; dup {
		c.Fail("distinct-tunnels-same-key", fmt.Sprintf("two tunnels (%s and %s) hold the same session key", prev, name), rp)
	}
	h.seenKeys[got] = fmt.Sprintf("%s id %d", name, id)
	raw := rawX25519(privA, res.pub)
	var salt string
	if respIsResponder {
		salt = identifySalt(got, raw, id, pubA, res.pub)
	} else {
		salt = identifySalt(got, raw, id, res.pub, pubA)
	}
	if salt == "" {
		return "", oflag
	}
	return hx(raw[:]) + salt, oflag
}

func (h *harness) open(r *responders, e entry, id uint64, class string, remote key32, privA key32) {
	c := h.c
	rp := replay{Part: "open", Kind: e.kind, Fn: e.fn, Role: e.role, ID: fmt.Sprint(id), Remote: hx(remote[:]), Class: class, Priv: hx(privA[:])}
	var res openResult
	if p := vh.Recover(func() { res = e.open(r, id, remote) }); p != "" {
		c.Fail("panic", fmt.Sprintf("%s.%s panicked: %s", e.kind, e.fn, p), rp)
		return
	}
	if res.outcome < 0 {
		c.Fail("open-no-answer-"+e.kind, res.detail, rp)
		return
	}
	name := e.kind + "-exit"
	keymat, oflag := "", false
	raw := key32{}
	switch class {
	case "good", "good-bit255":
		if res.outcome != outKeyed {
			c.Fail("open-failed-"+name, fmt.Sprintf("valid remote key but outcome %d (%s)", res.outcome, res.detail), rp)
		} else {
			keymat, oflag = h.checkKeyed(e, rp, id, privA, remote, res, true)
			raw = rawX25519(privA, res.pub)
		}
	default: // zero / low-order: must be refused
		if res.outcome == outPlain {
			sig := name + "-degenerate-key-plaintext"
			if isZero(remote) {
				sig = name + "-zero-key-plaintext"
			}
			c.Fail(sig, fmt.Sprintf("%s.%s established the tunnel WITHOUT a key (plaintext) for the %s remote key %x", e.kind, e.fn, class, remote), rp)
		} else if res.outcome == outKeyed {
			c.Fail(name+"-degenerate-key-keyed", fmt.Sprintf("%s.%s installed a session key for the %s remote key %x", e.kind, e.fn, class, remote), rp)
		}
	}
	i := c.Case(fmt.Sprintf("open/%s/%s/%s/%d", e.kind, e.fn, hx(remote[:]), id), true, rp)
	h.ocs = append(h.ocs, fmt.Sprintf("mkocase %d \"%s\" \"%s\" %s %d \"%s\" \"%s\" \"%s\" %d \"%s\" %s", i, e.kind, e.fn, coqBool(e.direct), id, hx(res.pub[:]), hx(remote[:]), hx(raw[:]),
		res.outcome, keymat, coqBool(oflag)))
	c.Count(fmt.Sprintf("open:%s:%s:%s", e.kind, class, []string{"refused", "plaintext", "keyed"}[res.outcome]))
}

// ---- ICMP initiator helper ----------------------------------------------------
func (h *harness) icmpInitiator(id uint64, class string, remote key32, privB key32) {
	c := h.c
	rp := replay{Part: "icmp-initiator", Kind: "icmp", Fn: "deriveICMPSessionKey", Role: "initiator", ID: fmt.Sprint(id), Remote: hx(remote[:]), Class: class, Priv: hx(privB[:])}
	privA, pubA, _ := crypto.GenerateEphemeralKeypair()
	privCopy := privA
	var k *crypto.SessionKey
	var err error
	if p := vh.Recover(func() { k, err = agent.VerifDeriveICMPSessionKey(&privCopy, pubA, remote, id) }); p != "" {
		c.Fail("panic", "deriveICMPSessionKey panicked: "+p, rp)
		return
	}
	e := entry{kind: "icmp", fn: "deriveICMPSessionKey", role: "initiator"}
	outcome := outRefused
	if err == nil && k == nil {
		outcome = outPlain
	} else if err == nil {
		outcome = outKeyed
	}
	keymat, oflag := "", false
	raw := key32{}
	switch class {
	case "good", "good-bit255":
		if outcome != outKeyed {
			c.Fail("open-failed-icmp-ingress", fmt.Sprintf("valid remote key but outcome %d (%v)", outcome, err), rp)
		} else {
			// from the responder's point of view: own = remote (pubB), peer = pubA
			res := openResult{outcome: outKeyed, pub: pubA, key: k}
			keymat, oflag = h.checkKeyed(e, rp, id, privB, remote, res, false)
			raw = rawX25519(privB, pubA)
		}
	default:
		if outcome == outPlain {
			sig := "icmp-ingress-degenerate-key-plaintext"
			if isZero(remote) {
				sig = "icmp-ingress-zero-key-plaintext"
			}
			c.Fail(sig, fmt.Sprintf("agent.deriveICMPSessionKey returns no key and no error for the %s remote key %x: the ICMP session continues in plaintext", class, remote), rp)
		} else if outcome == outKeyed {
			c.Fail("icmp-ingress-degenerate-key-keyed", fmt.Sprintf("a session key was installed for the %s remote key %x", class, remote), rp)
		}
	}
	i := c.Case(fmt.Sprintf("open/icmp/initiator/%s/%d", hx(remote[:]), id), true, rp)
	h.ocs = append(h.ocs, fmt.Sprintf("mkocase %d \"icmp\" \"deriveICMPSessionKey\" false %d \"%s\" \"%s\" \"%s\" %d \"%s\" %s", i, id, hx(pubA[:]), hx(remote[:]), hx(raw[:]),
		outcome, keymat, coqBool(oflag)))
	c.Count(fmt.Sprintf("open:icmp-initiator:%s:%s", class, []string{"refused", "plaintext", "keyed"}[outcome]))
}

func main() {
	c := vh.Start("C03")
	defer c.Finish()
	c.Res.Rule = "case = one DeriveSessionKey call (both roles), one ComputeECDH call, or one tunnel open at a real responder/initiator entry point (exit, forward, UDP, ICMP, shell, file transfer; live two-agent opens) with a valid, zero or low-order remote key; " +
		"salt layout / rejection class / open outcome and key material are compared with the model over the regenerated call-site table; non-trivial = every case; distinct = distinct inputs"
	h := &harness{c: c, seenKeys: map[key32]string{}}
	root := vh.NewRand(int64(uint64(c.Seed)*0xD1342543DE82EF95 + 0x632BE59BD9B4E019))

	var degenerate, unusual []key32
	for _, s := range degenerateHex {
		k := unhex32(s)
		var sc key32
		copy(sc[:], root.Bytes(32))
		sc[0] &= 248
		sc[31] = (sc[31] & 127) | 64
		if !isZero(k) && !isZero(rawX25519(sc, k)) {
			c.Note("listed degenerate key %s is not low order for x/crypto curve25519", s)
			unusual = append(unusual, k)
			continue
		}
		degenerate = append(degenerate, k)
	}
	for _, s := range unusualHex {
		unusual = append(unusual, unhex32(s))
	}

	if c.Replay != "" {
		var rp replay
		if err := c.ReadReplay(&rp); err != nil {
			panic(err)
		}
		var id uint64
		fmt.Sscan(rp.ID, &id)
		switch rp.Part {
		case "derive":
			h.derive(unhex32(rp.Secret), id, unhex32(rp.PI), unhex32(rp.PR))
		case "ecdh":
			h.ecdh(unhex32(rp.Priv), unhex32(rp.Remote), rp.Class)
		case "open":
			r, err := newResponders()
			if err != nil {
				panic(err)
			}
			for _, e := range entries() {
				if e.kind == rp.Kind && e.fn == rp.Fn {
					remote, priv := unhex32(rp.Remote), unhex32(rp.Priv)
					if rp.Class == "good" || rp.Class == "good-bit255" {
						priv, remote, _ = crypto.GenerateEphemeralKeypair()
						if rp.Class == "good-bit255" {
							remote[31] |= 0x80
						}
					}
					h.open(r, e, id, rp.Class, remote, priv)
				}
			}
			r.close()
		case "icmp-initiator":
			remote, priv := unhex32(rp.Remote), unhex32(rp.Priv)
			if rp.Class == "good" || rp.Class == "good-bit255" {
				priv, remote, _ = crypto.GenerateEphemeralKeypair()
				if rp.Class == "good-bit255" {
					remote[31] |= 0x80
				}
			}
			h.icmpInitiator(id, rp.Class, remote, priv)
		case "agents":
			runAgents(h, root, true)
		case "ack-replay", "ack-writers":
			ackReplayKeys(h)
		case "request-ids":
			requestIDStorm(h)
		}
	} else {
		ids := []uint64{0, 1, 255, 256, 1<<32 - 1, 1 << 32, 1<<63 - 1, 1 << 63, ^uint64(0) - 1, ^uint64(0)}
		// ---- part 3 first: fixed witnesses (zero key at every entry point) ----
		r, err := newResponders()
		if err != nil {
			panic(err)
		}
		for _, e := range entries() {
			h.open(r, e, 7, "zero", key32{}, key32{})
		}
		h.icmpInitiator(7, "zero", key32{}, key32{})
		// HandleICMPOpen itself (needs an ICMP socket; the sandbox normally has none)
		{
			open := &protocol.ICMPOpen{RequestID: 7, DestIP: net.IPv4(127, 0, 0, 1).To4()}
			err := r.icmpH.HandleICMPOpen(context.Background(), r.peer, 9001, open, key32{})
			if err == nil {
				if s := r.icmpH.GetSession(9001); s != nil && s.GetSessionKey() == nil {
					c.Fail("icmp-exit-zero-key-plaintext", "icmp.Handler.HandleICMPOpen established the session WITHOUT a key (plaintext) for the all-zero remote key", replay{Part: "open", Kind: "icmp", Fn: "HandleICMPOpen", Class: "zero"})
				}
				r.icmpH.HandleICMPClose(r.peer, 9001)
			} else {
				c.Note("icmp.Handler.HandleICMPOpen not reachable in this sandbox (%v); its zero-key branch is covered by the regenerated call-site table only", err)
			}
		}
		for _, e := range entries() {
			for _, k := range degenerate[1:] {
				h.open(r, e, root.PickU64(ids...), "low-order", k, key32{})
			}
		}
		for _, k := range degenerate[1:] {
			h.icmpInitiator(root.PickU64(ids...), "low-order", k, key32{})
		}
		nOpen := c.N(6, 120)
		for i := 0; i < nOpen; i++ {
			for _, e := range entries() {
				priv, pub, _ := crypto.GenerateEphemeralKeypair()
				id := root.U64()
				if root.Chance(1, 2) {
					id = root.PickU64(ids...)
				}
				h.open(r, e, id, "good", pub, priv)
				// the same point with bit 255 of the encoding set (valid per RFC 7748:
				// X25519 ignores the bit): both ends must salt with the bytes AS SENT
				priv2, pub2, _ := crypto.GenerateEphemeralKeypair()
				pub2[31] |= 0x80
				h.open(r, e, root.PickU64(ids...), "good-bit255", pub2, priv2)
			}
			priv, pub, _ := crypto.GenerateEphemeralKeypair()
			h.icmpInitiator(root.PickU64(ids...), "good", pub, priv)
			priv2, pub2, _ := crypto.GenerateEphemeralKeypair()
			pub2[31] |= 0x80
			h.icmpInitiator(root.PickU64(ids...), "good-bit255", pub2, priv2)
		}
		r.close()

		// ---- part 1 ----
		nDerive := c.N(60, 3000)
		for i := 0; i < nDerive; i++ {
			var secret, pi, pr key32
			copy(secret[:], root.Bytes(32))
			copy(pi[:], root.Bytes(32))
			copy(pr[:], root.Bytes(32))
			switch root.Intn(6) {
			case 0:
				pr = pi
			case 1:
				pi = key32{}
			case 2:
				pr[31], pi[31] = 0xff, 0xff
			}
			id := root.U64()
			if root.Chance(2, 3) {
				id = root.PickU64(ids...)
			}
			h.derive(secret, id, pi, pr)
		}
		// ---- part 2 ----
		for rep := 0; rep < c.N(2, 40); rep++ {
			for _, k := range degenerate {
				priv, _, _ := crypto.GenerateEphemeralKeypair()
				cl := "low-order"
				if isZero(k) {
					cl = "zero"
				}
				h.ecdh(priv, k, cl)
			}
			for _, k := range unusual {
				priv, _, _ := crypto.GenerateEphemeralKeypair()
				h.ecdh(priv, k, "unusual-encoding")
			}
		}
		for i := 0; i < c.N(30, 2000); i++ {
			h.ecdhPair()
		}
		// ---- live agents ----
		runAgents(h, root, false)
		ackReplayKeys(h)
		requestIDStorm(h)
	}

	var sb strings.Builder
	sb.WriteString("From Coq Require Import List NArith String.\nFrom MM Require Import Lib.Bytes Model.KeyDerive Generated.C03.\nImport ListNotations.\nLocal Open Scope N_scope.\nLocal Open Scope string_scope.\n")
	sb.WriteString("Definition dcases : list dcase := \n" + vh.CoqList(h.dcases) + ".\n")
	sb.WriteString("Definition ecases : list ecase := \n" + vh.CoqList(h.ecases) + ".\n")
	sb.WriteString("Definition ocases : list ocase := \n" + vh.CoqList(h.ocs) + ".\n")
	sb.WriteString("Definition lcases : list lcase := \n" + vh.CoqList(h.lcases) + ".\n")
	sb.WriteString("Definition M_derive := Eval vm_compute in derive_mismatches dcases.\nPrint M_derive.\n")
	sb.WriteString("Definition M_ecdh := Eval vm_compute in ecdh_mismatches ecases.\nPrint M_ecdh.\n")
	sb.WriteString("Definition M_open := Eval vm_compute in open_mismatches gen_c03_sites ocases.\nPrint M_open.\n")
	sb.WriteString("Definition M_live := Eval vm_compute in live_mismatches lcases.\nPrint M_live.\n")
	c.WriteCasesV("cases.v", sb.String())
}
