package main

// Duplicate *_OPEN_ACK at the ingress (see cryptomesh.ReplayObs): after the
// replay the ingress must still hold the session key it shares with the exit
// and traffic must still cross.

import (
	"fmt"
	"sort"

	"github.com/postalsys/muti-metroo/verifharness/cryptomesh"
	"github.com/postalsys/muti-metroo/verifharness/vh"
)

func sortedKeys(ks [][32]byte) []string {
	out := make([]string, len(ks))
	for i, k := range ks {
		out[i] = hx(k[:])
	}
	sort.Strings(out)
	return out
}

func ackReplayKeys(h *harness) {
	c := h.c
	m, err := cryptomesh.Start()
	if err != nil {
		c.Note("ack-replay scenario skipped (environment): %v", err)
		return
	}
	defer m.Close()
	var obs []cryptomesh.ReplayObs
	if p := vh.Recover(func() {
		obs = append(obs, m.ReplayUDP())
		kinds := []string{"tcp", "domain", "forward"}
		if m.TCPEcho6 != nil {
			kinds = append(kinds, "forward6") // exit-side socket bound to ::1: the ACK carries a 16-byte bound address
		} else {
			c.Note("no IPv6 loopback: the forward tunnel with an IPv6-bound exit socket is covered by the ACK writer round trip only")
		}
		for _, k := range kinds {
			obs = append(obs, m.ReplayStream(k))
		}
	}); p != "" {
		c.Fail("panic", "ack-replay scenario panicked: "+p, replay{Part: "ack-replay"})
		return
	}
	ackWriters(h, m)
	for _, path := range []string{"ws", "socks5"} {
		var io cryptomesh.ICMPObs
		rp := replay{Part: "ack-replay", Kind: "icmp-" + path}
		if p := vh.Recover(func() { io = m.ReplayICMP(path) }); p != "" {
			c.Fail("panic", "ICMP ack-replay scenario panicked: "+p, rp)
			continue
		}
		if io.OpenErr != "" {
			c.Note("ack-replay icmp-%s: session did not open (%s); not evaluated", path, io.OpenErr)
			continue
		}
		if !io.KeysAgree {
			c.Fail("key-mismatch-live-icmp-"+path, fmt.Sprintf("icmp %s path: the exit cannot open what the ingress sealed: the two ends do not hold the same key (%s)", path, io.Detail), rp)
		}
		a1, a2 := sortedKeys(io.KeysA1), sortedKeys(io.KeysA2)
		same := len(a1) == len(a2)
		for i := 0; same && i < len(a1); i++ {
			same = a1[i] == a2[i]
		}
		if !same {
			c.Fail("session-key-replaced-by-duplicate-ack-icmp-"+path, fmt.Sprintf("icmp %s path: a duplicated ICMP_OPEN_ACK replaced the ingress's session key (%d new derivations)", path, io.DerivedByReplay), rp)
		}
		c.Case("ack-replay/icmp-"+path, true, rp)
		c.Count("ack-replay:icmp-" + path)
	}
	for _, o := range obs {
		rp := replay{Part: "ack-replay", Kind: o.Kind}
		if o.OpenErr != "" {
			c.Fail("live-open-failed-"+o.Kind, fmt.Sprintf("%s through the two-agent mesh failed: %s", o.Kind, o.OpenErr), rp)
			continue
		}
		a1, a2 := sortedKeys(o.KeysA1), sortedKeys(o.KeysA2)
		same := len(a1) == len(a2)
		for i := 0; same && i < len(a1); i++ {
			same = a1[i] == a2[i]
		}
		shared := false
		inB := map[string]bool{}
		for _, k := range sortedKeys(o.KeysB) {
			inB[k] = true
		}
		for _, k := range a2 {
			if inB[k] {
				shared = true
			}
		}
		switch {
		case !same:
			c.Fail("session-key-replaced-by-duplicate-ack-"+o.Kind,
				fmt.Sprintf("%s: a duplicated *_OPEN_ACK replaced the ingress's session key (before %v, after %v; %d new derivations); the exit still holds the old one", o.Kind, short(a1), short(a2), o.DerivedByReplay), rp)
		case !shared:
			c.Fail("session-key-not-shared-after-duplicate-ack-"+o.Kind, fmt.Sprintf("%s: after a duplicated *_OPEN_ACK ingress and exit hold no common session key", o.Kind), rp)
		case !o.WorksAfterReplay:
			c.Fail("tunnel-dead-after-duplicate-ack-"+o.Kind, fmt.Sprintf("%s: traffic no longer crosses after a duplicated *_OPEN_ACK: %s", o.Kind, o.AfterErr), rp)
		}
		i := c.Case("ack-replay/"+o.Kind, true, rp)
		k1, k2 := "", ""
		if len(a1) > 0 {
			k1 = a1[0]
		}
		if len(a2) > 0 {
			k2 = a2[0]
		}
		_ = i
		_, _ = k1, k2
		c.Count("ack-replay:" + o.Kind)
	}
}

func short(ks []string) []string {
	out := make([]string, len(ks))
	for i, k := range ks {
		if len(k) > 16 {
			k = k[:16]
		}
		out[i] = k
	}
	return out
}
