package main

// Request ids are the tunnel identifier in the HKDF salt and the key under
// which an ingress waits for its STREAM_OPEN_ACK: two concurrent opens must
// never get the same one (the ACK of one tunnel would complete the other
// dial, which then combines its own private key with the other exit's key).
// Also: the ephemeral key must survive every *_OPEN_ACK writer -> wire ->
// reader path for every bound-address type.

import (
	"bytes"
	"fmt"
	"net"
	"sync"
	"time"

	"github.com/postalsys/muti-metroo/internal/crypto"
	"github.com/postalsys/muti-metroo/internal/identity"
	"github.com/postalsys/muti-metroo/internal/protocol"
	"github.com/postalsys/muti-metroo/internal/stream"
	"github.com/postalsys/muti-metroo/verifharness/cryptomesh"
)

func requestIDStorm(h *harness) {
	c := h.c
	local, _ := identity.NewAgentID()
	remote, _ := identity.NewAgentID()
	rounds := c.N(3, 30)
	for round := 0; round < rounds; round++ {
		mgr := stream.NewManager(stream.DefaultManagerConfig(), local)
		const g = 16
		perG := 4000
		opens := 150
		ids := make([][]uint64, g)
		var wg sync.WaitGroup
		start := make(chan struct{})
		for w := 0; w < g; w++ {
			wg.Add(1)
			go func(w int) {
				defer wg.Done()
				<-start
				for i := 0; i < perG; i++ {
					ids[w] = append(ids[w], mgr.NextRequestID())
				}
				for i := 0; i < opens; i++ {
					p := mgr.OpenStream(uint64(w*100000+i*2+1), remote, "127.0.0.1", 80, 30*time.Second)
					ids[w] = append(ids[w], p.RequestID)
					mgr.CancelPendingRequest(p.RequestID)
				}
			}(w)
		}
		close(start)
		wg.Wait()
		mgr.Close()
		seen := map[uint64]bool{}
		dups, zero := 0, 0
		for _, l := range ids {
			for _, id := range l {
				if id == 0 {
					zero++
				}
				if seen[id] {
					dups++
				}
				seen[id] = true
			}
		}
		rp := replay{Part: "request-ids"}
		if dups > 0 {
			c.Fail("request-id-allocated-twice", fmt.Sprintf("stream.Manager handed out %d request ids twice among %d allocations by %d concurrent callers: two tunnels would share the HKDF salt id and the pending-ACK slot", dups, g*(perG+opens), g), rp)
		}
		c.Case(fmt.Sprintf("request-ids/%d", round), true, rp)
		c.Count("request-id-storm")
	}
}

// ackWriters: agent B writes *_OPEN_ACK frames to agent A through its real
// writer methods for every bound-address type; what A receives is decoded with
// the real decoder and must carry the same ephemeral key and request id.
func ackWriters(h *harness, m *cryptomesh.Mesh) {
	c := h.c
	var pub [crypto.KeySize]byte
	for i := range pub {
		pub[i] = byte(0xA0 + i)
	}
	v4 := net.IPv4(127, 0, 0, 1)
	addrs := []struct {
		name string
		ip   net.IP
	}{
		{"ipv4-4byte", v4.To4()}, {"ipv4-16byte-form", v4.To16()}, {"ipv6", net.ParseIP("::1")},
		{"ipv6-global", net.ParseIP("2001:db8::7")}, {"none", nil},
	}
	waitRx := func(typ uint8, sid uint64) *protocol.Frame {
		var f *protocol.Frame
		cryptomesh.WaitFor(5*time.Second, func() bool {
			for _, r := range m.RxA() {
				if r.Frame.Type == typ && r.Frame.StreamID == sid {
					f = r.Frame
					return true
				}
			}
			return false
		})
		return f
	}
	sid := uint64(9000001)
	for _, a := range addrs {
		sid += 2
		reqID := uint64(0x1122334455660000) + sid
		rp := replay{Part: "ack-writers", Kind: "stream", Note: a.name}
		if err := m.B.WriteStreamOpenAck(m.A.ID(), sid, reqID, a.ip, 4242, pub); err != nil {
			c.Note("ack-writers: WriteStreamOpenAck(%s): %v", a.name, err)
			continue
		}
		f := waitRx(protocol.FrameStreamOpenAck, sid)
		if f == nil {
			c.Fail("open-ack-lost", "STREAM_OPEN_ACK ("+a.name+") never reached the ingress", rp)
			continue
		}
		ack, err := protocol.DecodeStreamOpenAck(f.Payload)
		if err != nil {
			c.Fail("open-ack-ephemeral-key-garbled", fmt.Sprintf("STREAM_OPEN_ACK with bound address %s does not decode at the ingress: %v", a.name, err), rp)
		} else if ack.EphemeralPubKey != pub || ack.RequestID != reqID {
			c.Fail("open-ack-ephemeral-key-garbled", fmt.Sprintf("STREAM_OPEN_ACK with bound address %s: the ingress decodes ephemeral key %x.. request id %x, the exit wrote %x.. %x (both ends derive different keys while the open reports success)", a.name, ack.EphemeralPubKey[:6], ack.RequestID, pub[:6], reqID), rp)
		} else if a.ip != nil && !bytes.Equal(net.IP(ack.BoundAddr).To16(), a.ip.To16()) {
			c.Note("ack-writers: bound address %s arrives as %v", a.name, net.IP(ack.BoundAddr))
		}
		c.Case("ack-writers/stream/"+a.name, true, rp)
		c.Count("ack-writer:stream:" + a.name)
	}
	for _, a := range addrs[:4] {
		sid += 2
		reqID := uint64(0x2233445566770000) + sid
		rp := replay{Part: "ack-writers", Kind: "udp", Note: a.name}
		at, ab := uint8(protocol.AddrTypeIPv4), []byte(a.ip.To4())
		if a.ip.To4() == nil {
			at, ab = protocol.AddrTypeIPv6, []byte(a.ip.To16())
		}
		if err := m.B.WriteUDPOpenAck(m.A.ID(), sid, &protocol.UDPOpenAck{RequestID: reqID, BoundAddrType: at, BoundAddr: ab, BoundPort: 5353, EphemeralPubKey: pub}); err != nil {
			continue
		}
		f := waitRx(protocol.FrameUDPOpenAck, sid)
		if f == nil {
			c.Fail("open-ack-lost", "UDP_OPEN_ACK ("+a.name+") never reached the ingress", rp)
			continue
		}
		ack, err := protocol.DecodeUDPOpenAck(f.Payload)
		if err != nil || ack.EphemeralPubKey != pub || ack.RequestID != reqID {
			c.Fail("open-ack-ephemeral-key-garbled", fmt.Sprintf("UDP_OPEN_ACK with bound address %s: ephemeral key or request id differ after writer -> wire -> reader (%v)", a.name, err), rp)
		}
		c.Case("ack-writers/udp/"+a.name, true, rp)
		c.Count("ack-writer:udp:" + a.name)
	}
	{
		sid += 2
		reqID := uint64(0x3344556677880000) + sid
		rp := replay{Part: "ack-writers", Kind: "icmp"}
		if err := m.B.WriteICMPOpenAck(m.A.ID(), sid, &protocol.ICMPOpenAck{RequestID: reqID, EphemeralPubKey: pub}); err == nil {
			f := waitRx(protocol.FrameICMPOpenAck, sid)
			if f == nil {
				c.Fail("open-ack-lost", "ICMP_OPEN_ACK never reached the ingress", rp)
			} else if ack, err := protocol.DecodeICMPOpenAck(f.Payload); err != nil || ack.EphemeralPubKey != pub || ack.RequestID != reqID {
				c.Fail("open-ack-ephemeral-key-garbled", fmt.Sprintf("ICMP_OPEN_ACK: ephemeral key or request id differ after writer -> wire -> reader (%v)", err), rp)
			}
			c.Case("ack-writers/icmp", true, rp)
			c.Count("ack-writer:icmp")
		}
	}
}
