package main

import (
	"net"
	"strings"

	"golang.org/x/net/dns/dnsmessage"
)

// startDNS answers every A/IN query for name with 127.0.0.1 (the exit agent
// of the live mesh resolves the domain-route destination through it).
func startDNS(name string) (addr string, stop func(), err error) {
	pc, err := net.ListenPacket("udp", "127.0.0.1:0")
	if err != nil {
		return "", nil, err
	}
	go func() {
		buf := make([]byte, 512)
		for {
			n, src, err := pc.ReadFrom(buf)
			if err != nil {
				return
			}
			var p dnsmessage.Parser
			hdr, err := p.Start(buf[:n])
			if err != nil {
				continue
			}
			q, err := p.Question()
			if err != nil {
				continue
			}
			b := dnsmessage.NewBuilder(make([]byte, 0, 256), dnsmessage.Header{ID: hdr.ID, Response: true, RecursionDesired: hdr.RecursionDesired, RecursionAvailable: true})
			b.StartQuestions()
			b.Question(q)
			qn := strings.TrimSuffix(strings.ToLower(q.Name.String()), ".")
			if q.Type == dnsmessage.TypeA && q.Class == dnsmessage.ClassINET && qn == name {
				b.StartAnswers()
				b.AResource(dnsmessage.ResourceHeader{Name: q.Name, Type: dnsmessage.TypeA, Class: dnsmessage.ClassINET, TTL: 60}, dnsmessage.AResource{A: [4]byte{127, 0, 0, 1}})
			}
			out, err := b.Finish()
			if err != nil {
				continue
			}
			pc.WriteTo(out, src)
		}
	}()
	return pc.LocalAddr().String(), func() { pc.Close() }, nil
}
