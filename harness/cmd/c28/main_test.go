// c28: correspondence and monitor harness for C28 (signed-command mode
// rejects every unsigned or invalid sleep/wake command, on every path).
//
// Implementation under test: a real agent.Agent (agent.New with a signing
// public key in its configuration), its real flood.Flooder and a real
// sleep.Manager. Frames are handed to the agent's own dispatcher
// (processFrame) through the verif hook; the flooder's peer sender and the
// sleep callbacks are the harness's recorders. Every case runs in its own
// testing/synctest bubble, so "now" is virtual and the 100 ms pause inside
// handleSleepCommand costs nothing.
package main

import (
	"encoding/hex"
	"fmt"
	"os"
	"strings"
	"sync"
	"sync/atomic"
	"testing"
	"testing/synctest"
	"time"

	"github.com/postalsys/muti-metroo/internal/agent"
	"github.com/postalsys/muti-metroo/internal/config"
	"github.com/postalsys/muti-metroo/internal/flood"
	"github.com/postalsys/muti-metroo/internal/identity"
	"github.com/postalsys/muti-metroo/internal/protocol"
	"github.com/postalsys/muti-metroo/internal/routing"
	"github.com/postalsys/muti-metroo/internal/sleep"
	"github.com/postalsys/muti-metroo/verifharness/scx"
	"github.com/postalsys/muti-metroo/verifharness/vh"
)

const windowNs = int64(300 * time.Second)

type frameSpec struct {
	Type      string       `json:"type"` // sleep | wake | queued-sleep | queued-wake | peer-up (From connects; no command)
	From      int          `json:"from"`
	AdvanceMs int64        `json:"advance_ms"` // virtual time to let pass before handing the frame in
	Cmd       *scx.CmdSpec `json:"cmd"`
}

type caseSpec struct {
	Signing  bool `json:"signing_key_configured"`
	Sleeping bool `json:"initially_sleeping"`
	// the agent is asleep and inside a poll window (its own doPoll is running) when the frames arrive
	InPoll bool `json:"in_poll_window,omitempty"`
	// sleep.enabled=false in the agent configuration (a transit agent): no sleep manager, the flooder still handles and forwards commands
	SleepDisabled bool        `json:"sleep_disabled,omitempty"`
	Frames        []frameSpec `json:"frames"`
	Why           string      `json:"why,omitempty"`
	// concurrent phase (not a frame sequence), replayed by name
	Scenario string `json:"scenario,omitempty"`
	Attempts int    `json:"attempts_per_forger,omitempty"`
}

type sent struct {
	To    int
	Frame *protocol.Frame
}

type recorder struct {
	mu    sync.Mutex
	peers []identity.AgentID
	sent  []sent
}

func (r *recorder) SendToPeer(p identity.AgentID, f *protocol.Frame) error {
	r.mu.Lock()
	defer r.mu.Unlock()
	r.sent = append(r.sent, sent{To: scx.Idx(p), Frame: f})
	return nil
}
func (r *recorder) GetPeerIDs() []identity.AgentID { return r.peers }
func (r *recorder) take() []sent {
	r.mu.Lock()
	defer r.mu.Unlock()
	s := r.sent
	r.sent = nil
	return s
}

type fwdCmd struct {
	Origin int
	ID, Ts uint64
}

type stepObs struct {
	FwdWakeCmds       []fwdCmd
	NowNs             int64
	State             int
	SleepCb, WakeCb   int
	FwdSleep, FwdWake []int
	Keys              []scx.Key
}

var peers = []int{1, 2, 3}

func runCase(c *vh.Ctx, t *testing.T, keys *scx.Keys, dataDir string, cs *caseSpec) (obs []stepObs, startNs int64, panicked string) {
	keys.ResetCase()
	synctest.Test(t, func(t *testing.T) {
		panicked = vh.Recover(func() {
			cfg := config.Default()
			cfg.Agent.ID = hex.EncodeToString(func() []byte { id := scx.ID(0); return id[:] }())
			cfg.Agent.DataDir = dataDir
			cfg.Agent.LogLevel = "error"
			cfg.UDP.Enabled = false // their handlers start cleanup goroutines that Agent.Stop never ends
			cfg.ICMP.Enabled = false
			cfg.SOCKS5.Enabled = false
			cfg.HTTP.Enabled = false
			cfg.Sleep.Enabled = !cs.SleepDisabled
			cfg.Sleep.PersistState = false
			cfg.Sleep.PollInterval = 6 * time.Hour
			cfg.Sleep.PollIntervalJitter = 0
			if cs.InPoll {
				cfg.Listeners, cfg.Peers = nil, nil
				cfg.Sleep.PollInterval = time.Hour
				cfg.Sleep.PollDuration = 10 * time.Minute
			}
			if cs.Signing {
				cfg.Management.SigningPublicKey = hex.EncodeToString(keys.Pub)
			}
			startNs = time.Now().UnixNano() // the flooder's cleanup loop ticks every SeenCacheTTL/2 from here
			a, err := agent.New(cfg)
			if err != nil {
				panic(err)
			}
			rec := &recorder{}
			for _, p := range peers {
				rec.peers = append(rec.peers, scx.ID(p))
			}
			a.VerifFlooder().VerifSetSender(rec)
			var sleepCb, wakeCb int
			var mgr *sleep.Manager
			if cs.SleepDisabled {
				defer a.Stop()
			} else {
				mgr = a.VerifInitSleepManager(sleep.Callbacks{
					OnSleep: func() error { sleepCb++; return nil },
					OnWake:  func() error { wakeCb++; return nil },
					OnPoll: func() error {
						if cs.InPoll {
							return a.VerifDoPoll() // the agent's own poll cycle (sets up the wake signal, waits for the window to end)
						}
						return nil
					},
				})
				defer func() {
					mgr.Stop()
					a.Stop()
				}()
			}
			if cs.Sleeping || cs.InPoll {
				if err := mgr.Sleep(); err != nil {
					panic(err)
				}
				sleepCb = 0
			}
			if cs.InPoll {
				time.Sleep(time.Hour + time.Second) // the poll timer fires, doPoll opens the poll window
				synctest.Wait()
				if mgr.GetState() != sleep.StatePolling {
					panic("agent did not enter its poll window")
				}
			}
			for i := range cs.Frames {
				fs := &cs.Frames[i]
				if fs.AdvanceMs > 0 {
					time.Sleep(time.Duration(fs.AdvanceMs) * time.Millisecond)
					synctest.Wait() // a cleanup pass due at this very instant runs before the frame is handed in
				}
				now := time.Now()
				var fr *protocol.Frame
				switch fs.Type {
				case "sleep":
					fr = &protocol.Frame{Type: protocol.FrameSleepCommand, StreamID: protocol.ControlStreamID, Payload: keys.Sleep(fs.Cmd, now.Unix()).Encode()}
				case "wake":
					fr = &protocol.Frame{Type: protocol.FrameWakeCommand, StreamID: protocol.ControlStreamID, Payload: keys.Wake(fs.Cmd, now.Unix()).Encode()}
				case "queued-sleep":
					q := &protocol.QueuedState{SleepCmd: keys.Sleep(fs.Cmd, now.Unix())}
					fr = &protocol.Frame{Type: protocol.FrameQueuedState, StreamID: protocol.ControlStreamID, Payload: q.Encode()}
				case "queued-wake":
					q := &protocol.QueuedState{WakeCmd: keys.Wake(fs.Cmd, now.Unix())}
					fr = &protocol.Frame{Type: protocol.FrameQueuedState, StreamID: protocol.ControlStreamID, Payload: q.Encode()}
				case "peer-up":
				default:
					panic("unknown frame type " + fs.Type)
				}
				sleepCb, wakeCb = 0, 0
				rec.take()
				if fs.Type == "peer-up" {
					a.VerifFlooder().OnPeerConnected(scx.ID(fs.From))
				} else {
					a.VerifProcessFrame(scx.ID(fs.From), fr)
				}
				o := stepObs{NowNs: now.UnixNano(), State: int(a.GetSleepState()), SleepCb: sleepCb, WakeCb: wakeCb}
				for _, s := range rec.take() {
					switch s.Frame.Type {
					case protocol.FrameSleepCommand:
						o.FwdSleep = append(o.FwdSleep, s.To)
						if fs.Type == "peer-up" {
							c.Fail("sleep-command-sent-to-connecting-peer", "a SLEEP_COMMAND was sent when a peer connected", cs)
							break
						}
						if fc, err := protocol.DecodeSleepCommand(s.Frame.Payload); err != nil || !sameCmd(fs.Cmd, fc.OriginAgent, fc.CommandID, fc.Timestamp, fc.Signature, fs.Type) {
							c.Fail("forwarded-command-differs", "a forwarded SLEEP_COMMAND does not carry the received command", cs)
						}
					case protocol.FrameWakeCommand:
						o.FwdWake = append(o.FwdWake, s.To)
						if fc, err := protocol.DecodeWakeCommand(s.Frame.Payload); err == nil {
							o.FwdWakeCmds = append(o.FwdWakeCmds, fwdCmd{Origin: scx.Idx(fc.OriginAgent), ID: fc.CommandID, Ts: fc.Timestamp})
						}
						if fs.Type == "peer-up" {
							break
						}
						if fc, err := protocol.DecodeWakeCommand(s.Frame.Payload); err != nil || !sameCmd(fs.Cmd, fc.OriginAgent, fc.CommandID, fc.Timestamp, fc.Signature, fs.Type) {
							c.Fail("forwarded-command-differs", "a forwarded WAKE_COMMAND does not carry the received command", cs)
						}
					}
				}
				for _, e := range a.VerifFlooder().VerifSleepCmdCache() {
					o.Keys = append(o.Keys, scx.Key{Origin: scx.Idx(e.Origin), ID: e.CommandID})
				}
				obs = append(obs, o)
			}
		})
	})
	return
}

func sameCmd(s *scx.CmdSpec, o identity.AgentID, id, ts uint64, sig [64]byte, _ string) bool {
	return scx.Idx(o) == s.Origin && id == s.ID && ts == s.Ts
}

// monitor: the text of C28 on what the agent did, without the model.
func monitor(c *vh.Ctx, cs *caseSpec, obs []stepObs) {
	if !cs.Signing {
		return
	}
	prev := 0
	if cs.Sleeping {
		prev = 1
	}
	if cs.InPoll {
		prev = 2
	}
	for i, o := range obs {
		fs := cs.Frames[i]
		acted := o.State != prev || o.SleepCb+o.WakeCb > 0
		forwarded := len(o.FwdSleep)+len(o.FwdWake) > 0
		prev = o.State
		if fs.Type == "peer-up" {
			if acted {
				c.Fail("peer-connection-changed-sleep-state", fmt.Sprintf("frame %d: a connecting peer changed the sleep state", i), cs)
			}
			for _, fc := range o.FwdWakeCmds {
				ok := false
				for j := 0; j < i; j++ {
					pc := cs.Frames[j].Cmd
					if pc != nil && pc.Kind == "wake" && pc.Origin == fc.Origin && pc.ID == fc.ID && pc.Ts == fc.Ts &&
						pc.SigOK && !pc.Zero && scx.TsInWindow(obs[j].NowNs, pc.Ts, windowNs) && o.NowNs-obs[j].NowNs <= int64(300*time.Second)+200e6 {
						ok = true
					}
				}
				if !ok {
					c.Fail("pending-wake-forward-unverified", fmt.Sprintf("frame %d: connecting peer %d was sent wake command (%d,%d,%d) which no frame delivered validly within the last 5 minutes", i, fs.From, fc.Origin, fc.ID, fc.Ts), cs)
				}
			}
			continue
		}
		if !acted && !forwarded {
			continue
		}
		cmd := fs.Cmd
		okSig := cmd.SigOK && !cmd.Zero
		okTs := scx.TsInWindow(o.NowNs, cmd.Ts, windowNs)
		if okSig && okTs {
			continue
		}
		what := "acted on"
		if forwarded && !acted {
			what = "forwarded"
		} else if forwarded {
			what = "acted on and forwarded"
		}
		path := "flooded"
		if strings.HasPrefix(fs.Type, "queued") {
			path = "queued-state"
		}
		var sig string
		switch {
		case !okSig && cmd.Zero:
			sig = path + "-unsigned-command-accepted"
		case !okSig:
			sig = path + "-bad-signature-accepted"
		case cmd.Ts > uint64(o.NowNs/1e9)+9223372036:
			sig = path + "-far-future-timestamp-accepted"
		default:
			sig = path + "-timestamp-outside-window-accepted"
		}
		c.Fail(sig, fmt.Sprintf("frame %d (%s): agent %s a %s command with sig=%s sig_ok=%v zero=%v timestamp=%d at now=%d ns (window 300 s)",
			i, fs.Type, what, cmd.Kind, cmd.Sig, cmd.SigOK, cmd.Zero, cmd.Ts, o.NowNs), cs)
	}
}

// forgeStress: several peers keep delivering copies of one genuine signed
// command (duplicates are verified before they are deduplicated) while other
// peers deliver forged commands - fresh ids, current timestamp, the genuine
// command's signature bytes - on their own goroutines, as the per-connection
// read loops do. Real time, real Flooder. Returns forged commands accepted.
func forgeStress(keys *scx.Keys, attempts int) (forgedAccepted, forgedTotal int64, firstID uint64, genuineAccepted int64) {
	cfg := flood.DefaultFloodConfig()
	var pub [32]byte
	copy(pub[:], keys.Pub)
	cfg.SigningPublicKey = &pub
	rec := &recorder{}
	for p := 1; p <= 6; p++ {
		rec.peers = append(rec.peers, scx.ID(p))
	}
	f := flood.NewFlooder(cfg, scx.ID(0), routing.NewManager(scx.ID(0)), rec)
	defer f.Stop()
	ts := uint64(time.Now().Unix())
	gspec := &scx.CmdSpec{Kind: "wake", Origin: 10, ID: 1000, Sig: "valid", TsAbs: &ts}
	genuine := keys.Wake(gspec, int64(ts))
	var stop atomic.Bool
	var fOK, fTot, gOK atomic.Int64
	var fID atomic.Uint64
	var relays, forgers sync.WaitGroup
	for p := 1; p <= 3; p++ {
		relays.Add(1)
		go func(p int) {
			defer relays.Done()
			for !stop.Load() {
				c := *genuine
				if f.HandleWakeCommand(scx.ID(p), &c) {
					gOK.Add(1)
				}
			}
		}(p)
	}
	for p := 4; p <= 6; p++ {
		forgers.Add(1)
		go func(p int) {
			defer forgers.Done()
			for i := 0; i < attempts; i++ {
				forged := &protocol.SleepCommand{OriginAgent: genuine.OriginAgent, CommandID: uint64(p)<<32 | uint64(i), Timestamp: ts, Signature: genuine.Signature}
				fTot.Add(1)
				if f.HandleSleepCommand(scx.ID(p), forged) {
					if fOK.Add(1) == 1 {
						fID.Store(forged.CommandID)
					}
				}
			}
		}(p)
	}
	forgers.Wait()
	stop.Store(true)
	relays.Wait()
	return fOK.Load(), fTot.Load(), fID.Load(), gOK.Load()
}

func initCode(cs *caseSpec) uint64 {
	switch {
	case cs.SleepDisabled:
		return 3
	case cs.InPoll:
		return 2
	case cs.Sleeping:
		return 1
	}
	return 0
}

func coqFrame(fs *frameSpec) string {
	if fs.Type == "peer-up" {
		return "EvPeerUp"
	}
	return "(EvFrame " + coqFrame0(fs) + ")"
}

func coqFrame0(fs *frameSpec) string {
	switch fs.Type {
	case "sleep":
		return "(FSleep " + scx.CoqCmd(fs.Cmd) + ")"
	case "wake":
		return "(FWake " + scx.CoqCmd(fs.Cmd) + ")"
	case "queued-sleep":
		return "(FQueued (Some " + scx.CoqCmd(fs.Cmd) + ") None)"
	default:
		return "(FQueued None (Some " + scx.CoqCmd(fs.Cmd) + "))"
	}
}

func u64p(v uint64) *uint64 { return &v }

func genCmd(r *vh.Rand, kind string, nowUnix uint64) *scx.CmdSpec {
	s := &scx.CmdSpec{Kind: kind, Origin: 10 + r.Intn(2), ID: r.PickU64(1, 2, ^uint64(0))}
	switch r.Intn(10) {
	case 0, 1, 2, 3:
		s.Sig = "valid"
	case 4:
		s.Sig = "zero"
	case 5:
		s.Sig = "wrongkey"
	case 6:
		s.Sig = "bitflip"
	case 7:
		s.Sig = []string{"other-origin", "other-id", "other-ts"}[r.Intn(3)]
	case 8:
		s.Sig = "random"
	default:
		s.Sig = "copied"
	}
	switch r.Intn(12) {
	case 0, 1, 2:
		s.TsDelta = int64(r.Pick(0, -1, 1, -7, 30))
	case 3, 4:
		s.TsDelta = int64(r.Pick(-299, -300, -301))
	case 5, 6:
		s.TsDelta = int64(r.Pick(299, 300, 301))
	case 7:
		s.TsDelta = int64(r.Pick(-86400, 86400, -100000000, 100000000))
	case 8:
		// around the saturation point of time.Duration (about 292 years ahead)
		s.TsAbs = u64p(nowUnix + uint64(r.Pick(9223372035, 9223372036, 9223372037, 9223372038)))
	case 9:
		s.TsAbs = u64p(r.PickU64(1<<40, 1<<62, (1<<63)-1-62135596800, (1<<63)-62135596800, (1<<63)-1))
	case 10:
		s.TsAbs = u64p(r.PickU64(0, 1, 1<<63, (1<<63)+946684800, ^uint64(0), ^uint64(0)-300))
	default:
		s.TsDelta = 0
	}
	switch r.Intn(8) {
	case 0:
		s.SeenBy = []int{0} // loop: already contains the agent under test
	case 1:
		s.SeenBy = []int{1}
	case 2:
		s.SeenBy = []int{2, 3}
	case 3:
		s.SeenBy = []int{s.Origin}
	default:
	}
	return s
}

func TestVerif(t *testing.T) {
	c := vh.Start("C28")
	defer c.Finish()
	c.Res.Rule = "case = (signing key configured?, initial sleep state, 1-4 frames of type SLEEP_COMMAND / WAKE_COMMAND / QUEUED_STATE each carrying one command with a chosen signature kind, timestamp and SeenBy); " +
		"a real agent processes the frames; state, callbacks, forwarded frames and seen-cache keys after every frame are compared with the model; non-trivial = signing configured and at least one frame whose command the harness's own Ed25519 check or window check rejects, or a valid one; distinct = distinct case description"
	keys := scx.NewKeys(c.Rand.Fork())
	dataDir, err := os.MkdirTemp("", "c28-")
	if err != nil {
		t.Fatal(err)
	}
	defer os.RemoveAll(dataDir)

	var coq []string
	do := func(cs *caseSpec) {
		obs, startNs, p := runCase(c, t, keys, dataDir, cs)
		if p != "" {
			c.Fail("panic", p, cs)
			return
		}
		key := fmt.Sprintf("%v/%v/%v/%v", cs.Signing, cs.Sleeping, cs.InPoll, cs.SleepDisabled)
		for _, f := range cs.Frames {
			c.Count("frame:" + f.Type)
			if f.Cmd == nil {
				key += fmt.Sprintf("|%s:%d:%d", f.Type, f.From, f.AdvanceMs)
				continue
			}
			key += fmt.Sprintf("|%s:%d:%d:%d:%s:%d:%v:%d", f.Type, f.From, f.Cmd.Origin, f.Cmd.ID, f.Cmd.Sig, f.Cmd.Ts, f.Cmd.SeenBy, f.AdvanceMs)
			c.Count("sig:" + f.Cmd.Sig)
		}
		c.Case(key, cs.Signing, cs)
		monitor(c, cs, obs)
		var steps []string
		for i, o := range obs {
			if o.SleepCb+o.WakeCb > 0 {
				c.Count("acted")
			} else {
				c.Count("not-acted")
			}
			steps = append(steps, fmt.Sprintf("mkstep %s %s %s (mkobs %s %s %s %s %s %s)", vh.CoqZ(o.NowNs), vh.CoqN(uint64(cs.Frames[i].From)), coqFrame(&cs.Frames[i]),
				vh.CoqN(uint64(o.State)), vh.CoqN(uint64(o.SleepCb)), vh.CoqN(uint64(o.WakeCb)), scx.CoqNs(o.FwdSleep), scx.CoqNs(o.FwdWake), scx.CoqKeys(o.Keys)))
		}
		coq = append(coq, fmt.Sprintf("mkacase %s %s %s %s", vh.CoqZ(startNs), vh.CoqBool(cs.Signing), vh.CoqN(initCode(cs)), vh.CoqList(steps)))
	}

	runForgeStress := func(attempts int) {
		cs := &caseSpec{Signing: true, Scenario: "forged-with-copied-signature-under-concurrency", Attempts: attempts}
		var ok, tot, gok int64
		var id uint64
		if p := vh.Recover(func() { ok, tot, id, gok = forgeStress(keys, attempts) }); p != "" {
			c.Fail("panic", p, cs)
			return
		}
		c.Case(fmt.Sprintf("forge-stress/%d", attempts), true, cs)
		c.Count("forge-stress")
		c.Res.Extra["forged_attempts"] = tot
		coq = append(coq, "mkacase 0%Z true 0%N []")
		if ok > 0 {
			c.Fail("forged-command-accepted-under-concurrency", fmt.Sprintf("%d of %d forged sleep commands (fresh command id, e.g. %d; signature bytes copied from a genuine wake command that other peers kept delivering) were accepted and forwarded", ok, tot, id), cs)
		}
		if gok != 1 {
			c.Fail("genuine-command-not-accepted-exactly-once", fmt.Sprintf("the genuine command was accepted %d times", gok), cs)
		}
	}

	if c.Replay != "" {
		var cs caseSpec
		if err := c.ReadReplay(&cs); err != nil {
			t.Fatal(err)
		}
		if cs.Scenario != "" {
			runForgeStress(cs.Attempts)
		} else {
			do(&cs)
		}
	} else {
		runForgeStress(c.N(3000, 40000))
		// fixed witnesses first
		// 1. unsigned command inside QUEUED_STATE, signing key configured
		do(&caseSpec{Signing: true, Why: "witness-queued-unsigned-sleep", Frames: []frameSpec{{Type: "queued-sleep", From: 1, Cmd: &scx.CmdSpec{Kind: "sleep", Origin: 10, ID: 1, Sig: "zero"}}}})
		do(&caseSpec{Signing: true, Sleeping: true, Why: "witness-queued-unsigned-wake", Frames: []frameSpec{{Type: "queued-wake", From: 1, Cmd: &scx.CmdSpec{Kind: "wake", Origin: 10, ID: 1, Sig: "zero"}}}})
		do(&caseSpec{Signing: true, Why: "witness-queued-stale-sleep", Frames: []frameSpec{{Type: "queued-sleep", From: 2, Cmd: &scx.CmdSpec{Kind: "sleep", Origin: 10, ID: 2, Sig: "valid", TsDelta: -86400}}}})
		// 2. validly signed command stamped more than 292 years ahead (time.Duration saturates, negation overflows)
		do(&caseSpec{Signing: true, Why: "witness-far-future-timestamp", Frames: []frameSpec{{Type: "sleep", From: 1, Cmd: &scx.CmdSpec{Kind: "sleep", Origin: 10, ID: 1, Sig: "valid", TsAbs: u64p(1 << 40)}}}})
		do(&caseSpec{Signing: true, Sleeping: true, Why: "witness-far-future-timestamp", Frames: []frameSpec{{Type: "wake", From: 1, Cmd: &scx.CmdSpec{Kind: "wake", Origin: 10, ID: 1, Sig: "valid", TsAbs: u64p(946684800 + 9223372037)}}}})
		// 3. plain good and bad flooded commands
		do(&caseSpec{Signing: true, Why: "flooded-valid", Frames: []frameSpec{{Type: "sleep", From: 1, Cmd: &scx.CmdSpec{Kind: "sleep", Origin: 10, ID: 1, Sig: "valid"}}, {Type: "wake", From: 2, AdvanceMs: 1500, Cmd: &scx.CmdSpec{Kind: "wake", Origin: 10, ID: 2, Sig: "valid"}}}})
		do(&caseSpec{Signing: true, Why: "flooded-unsigned", Frames: []frameSpec{{Type: "sleep", From: 1, Cmd: &scx.CmdSpec{Kind: "sleep", Origin: 10, ID: 1, Sig: "zero"}}}})

		// 4. a verified wake command is re-sent to a peer connecting within 5 minutes, not after, never to its origin
		do(&caseSpec{Signing: true, Sleeping: true, Why: "pending-wake", Frames: []frameSpec{
			{Type: "wake", From: 1, Cmd: &scx.CmdSpec{Kind: "wake", Origin: 10, ID: 7, Sig: "valid"}},
			{Type: "peer-up", From: 4, AdvanceMs: 200000}, {Type: "peer-up", From: 10}, {Type: "peer-up", From: 2, AdvanceMs: 101000}}})
		do(&caseSpec{Signing: true, Sleeping: true, Why: "pending-wake-rejected", Frames: []frameSpec{
			{Type: "wake", From: 1, Cmd: &scx.CmdSpec{Kind: "wake", Origin: 10, ID: 8, Sig: "bitflip"}},
			{Type: "queued-wake", From: 1, Cmd: &scx.CmdSpec{Kind: "wake", Origin: 10, ID: 9, Sig: "zero"}},
			{Type: "peer-up", From: 4, AdvanceMs: 1000}}})

		// 5. signature bytes of an accepted command copied onto different commands (other id, origin, type, timestamp)
		do(&caseSpec{Signing: true, Why: "copied-signature", Frames: []frameSpec{
			{Type: "sleep", From: 1, Cmd: &scx.CmdSpec{Kind: "sleep", Origin: 10, ID: 1, Sig: "valid"}},
			{Type: "wake", From: 2, AdvanceMs: 1000, Cmd: &scx.CmdSpec{Kind: "wake", Origin: 11, ID: 2, Sig: "copied"}},
			{Type: "queued-sleep", From: 3, AdvanceMs: 1000, Cmd: &scx.CmdSpec{Kind: "sleep", Origin: 10, ID: 3, Sig: "copied", TsDelta: -7}},
			{Type: "wake", From: 1, AdvanceMs: 1, Cmd: &scx.CmdSpec{Kind: "wake", Origin: 10, ID: 1, Sig: "copied", TsDelta: 1}}}})
		do(&caseSpec{Signing: true, Sleeping: true, Why: "copied-signature", Frames: []frameSpec{
			{Type: "wake", From: 1, Cmd: &scx.CmdSpec{Kind: "wake", Origin: 10, ID: 1, Sig: "valid"}},
			{Type: "sleep", From: 2, AdvanceMs: 250, Cmd: &scx.CmdSpec{Kind: "sleep", Origin: 10, ID: 2, Sig: "copied"}},
			{Type: "peer-up", From: 4, AdvanceMs: 1000}}})

		// 6. histories long enough for the flooder's own cleanup loop (every 150 s) to drop the seen entry (after 660 s),
		//    also with a pass falling into the 100 ms pause of handleSleepCommand
		do(&caseSpec{Signing: true, Sleeping: true, Why: "cleanup-loop", Frames: []frameSpec{
			{Type: "wake", From: 3, AdvanceMs: 59000, Cmd: &scx.CmdSpec{Kind: "wake", Origin: 10, ID: ^uint64(0), Sig: "valid", TsDelta: 1}},
			{Type: "peer-up", From: 4, AdvanceMs: 299000}, {Type: "peer-up", From: 11, AdvanceMs: 299000}, {Type: "peer-up", From: 11, AdvanceMs: 299000}}})
		do(&caseSpec{Signing: true, Sleeping: true, Why: "cleanup-loop", Frames: []frameSpec{
			{Type: "wake", From: 1, Cmd: &scx.CmdSpec{Kind: "wake", Origin: 10, ID: 1, Sig: "valid"}},
			{Type: "sleep", From: 2, AdvanceMs: 749950, Cmd: &scx.CmdSpec{Kind: "sleep", Origin: 10, ID: 2, Sig: "valid"}},
			{Type: "wake", From: 2, AdvanceMs: 1, Cmd: &scx.CmdSpec{Kind: "wake", Origin: 10, ID: 1, Sig: "valid", TsDelta: -750}}}})
		do(&caseSpec{Signing: true, Why: "cleanup-loop", Frames: []frameSpec{
			{Type: "sleep", From: 1, AdvanceMs: 150000, Cmd: &scx.CmdSpec{Kind: "sleep", Origin: 11, ID: 2, Sig: "valid"}},
			{Type: "peer-up", From: 2, AdvanceMs: 660000}, {Type: "sleep", From: 3, AdvanceMs: 100, Cmd: &scx.CmdSpec{Kind: "sleep", Origin: 11, ID: 2, Sig: "valid", TsDelta: -810}}}})

		// 8. a transit agent: signing key configured, sleep mode disabled - it must still refuse to forward what does not verify
		for _, sig := range []string{"zero", "wrongkey", "valid"} {
			do(&caseSpec{Signing: true, SleepDisabled: true, Why: "sleep-disabled-transit", Frames: []frameSpec{
				{Type: "sleep", From: 1, Cmd: &scx.CmdSpec{Kind: "sleep", Origin: 10, ID: 1, Sig: sig}},
				{Type: "wake", From: 2, AdvanceMs: 250, Cmd: &scx.CmdSpec{Kind: "wake", Origin: 10, ID: 2, Sig: sig, TsDelta: -301}},
				{Type: "queued-wake", From: 3, AdvanceMs: 1, Cmd: &scx.CmdSpec{Kind: "wake", Origin: 11, ID: 3, Sig: sig}},
				{Type: "peer-up", From: 4, AdvanceMs: 1000}}})
		}
		// 7. frames that arrive while the agent sits in a poll window (asleep, reconnected, its doPoll waiting)
		for _, sig := range []string{"zero", "wrongkey", "bitflip", "valid"} {
			do(&caseSpec{Signing: true, InPoll: true, Why: "poll-window", Frames: []frameSpec{
				{Type: "wake", From: 1, AdvanceMs: 1000, Cmd: &scx.CmdSpec{Kind: "wake", Origin: 10, ID: 1, Sig: sig}},
				{Type: "queued-wake", From: 2, AdvanceMs: 250, Cmd: &scx.CmdSpec{Kind: "wake", Origin: 10, ID: 2, Sig: sig, TsDelta: -301}},
				{Type: "sleep", From: 3, AdvanceMs: 1, Cmd: &scx.CmdSpec{Kind: "sleep", Origin: 11, ID: 3, Sig: sig}}}})
		}

		n := c.N(500, 8000)
		for i := 0; i < n; i++ {
			r := c.Rand.Fork()
			cs := &caseSpec{Signing: !r.Chance(1, 6), Sleeping: r.Chance(1, 2)}
			if r.Chance(1, 6) {
				cs.InPoll, cs.Sleeping = true, false
			} else if r.Chance(1, 6) {
				cs.SleepDisabled, cs.Sleeping = true, false
			}
			nf := 1 + r.Intn(4)
			for j := 0; j < nf; j++ {
				if j > 0 && r.Chance(1, 4) {
					cs.Frames = append(cs.Frames, frameSpec{Type: "peer-up", From: r.Pick(1, 2, 4, 10, 11), AdvanceMs: int64(r.Pick(0, 1000, 59000, 299000, 300000, 301000))})
					continue
				}
				typ := []string{"sleep", "wake", "wake", "queued-sleep", "queued-wake"}[r.Intn(5)]
				kind := "sleep"
				if strings.HasSuffix(typ, "wake") {
					kind = "wake"
				}
				fs := frameSpec{Type: typ, From: 1 + r.Intn(3), AdvanceMs: int64(r.Pick(0, 0, 1, 250, 1000, 59000, 149950, 300000, 661000)), Cmd: genCmd(r, kind, 946684800)}
				cs.Frames = append(cs.Frames, fs)
			}
			if cs.InPoll {
				// everything happens inside the 10-minute poll window
				for j := range cs.Frames {
					if cs.Frames[j].AdvanceMs > 1000 {
						cs.Frames[j].AdvanceMs = 1000
					}
				}
			}
			do(cs)
		}
	}

	c.WriteCasesV("cases.v", scx.CasesV("From Coq Require Import List NArith ZArith.\nFrom MM Require Import Model.SleepCmd.\nImport ListNotations.\n", "acase", "amismatches_from", coq, 1500))
}
