// c38: correspondence and monitor harness for C38 (stream identifiers).
// Implementation under test: transport.StreamIDAllocator and its wiring in
// peer.NewConnection / Connection.NextStreamID.
package main

import (
	"context"
	"fmt"
	"net"
	"sort"
	"strings"
	"sync"
	"time"

	"github.com/postalsys/muti-metroo/internal/identity"
	"github.com/postalsys/muti-metroo/internal/peer"
	"github.com/postalsys/muti-metroo/internal/transport"
	"github.com/postalsys/muti-metroo/verifharness/vh"
)

type fakeConn struct {
	dialer bool
	tt     transport.TransportType
}

func (f *fakeConn) OpenStream(ctx context.Context) (transport.Stream, error) {
	<-ctx.Done()
	return nil, ctx.Err()
}
func (f *fakeConn) AcceptStream(ctx context.Context) (transport.Stream, error) {
	<-ctx.Done()
	return nil, ctx.Err()
}
func (f *fakeConn) Close() error                       { return nil }
func (f *fakeConn) LocalAddr() net.Addr                { return &net.TCPAddr{} }
func (f *fakeConn) RemoteAddr() net.Addr               { return &net.TCPAddr{} }
func (f *fakeConn) IsDialer() bool                     { return f.dialer }
func (f *fakeConn) TransportType() transport.TransportType {
	if f.tt == "" {
		return transport.TransportQUIC
	}
	return f.tt
}

// pipeConn: a peer connection over an in-memory pipe whose single stream is the
// pipe itself, enough for a real PEER_HELLO handshake.
type pipeStream struct{ net.Conn }

func (s pipeStream) StreamID() uint64  { return 0 }
func (s pipeStream) CloseWrite() error { return nil }

type pipeConn struct {
	c      net.Conn
	dialer bool
}

func (d *pipeConn) OpenStream(ctx context.Context) (transport.Stream, error) {
	return pipeStream{d.c}, nil
}
func (d *pipeConn) AcceptStream(ctx context.Context) (transport.Stream, error) {
	return pipeStream{d.c}, nil
}
func (d *pipeConn) Close() error                           { return d.c.Close() }
func (d *pipeConn) LocalAddr() net.Addr                    { return &net.TCPAddr{} }
func (d *pipeConn) RemoteAddr() net.Addr                   { return &net.TCPAddr{} }
func (d *pipeConn) IsDialer() bool                         { return d.dialer }
func (d *pipeConn) TransportType() transport.TransportType { return transport.TransportQUIC }

type replay struct {
	Kind       string   `json:"kind"` // "allocator" | "connection-pair"
	Start      uint64   `json:"start"`
	SetCounter bool     `json:"set_counter"`
	Dialer     bool     `json:"dialer"`
	Goroutines int      `json:"goroutines"`
	PerG       int      `json:"per_goroutine"`
	Observed   []uint64 `json:"observed,omitempty"`
	Trials     int      `json:"trials,omitempty"`
	Order      string   `json:"order,omitempty"` // reconnect: who dials at each step ('a' or 'b')
	Step       int      `json:"step,omitempty"`
}

// storm runs g goroutines each calling next() m times and returns all ids.
func storm(g, m int, next func() uint64) []uint64 {
	out := make([][]uint64, g)
	var wg sync.WaitGroup
	startCh := make(chan struct{})
	for i := 0; i < g; i++ {
		wg.Add(1)
		go func(i int) {
			defer wg.Done()
			<-startCh
			ids := make([]uint64, 0, m)
			for j := 0; j < m; j++ {
				ids = append(ids, next())
			}
			out[i] = ids
		}(i)
	}
	close(startCh)
	wg.Wait()
	var all []uint64
	for _, o := range out {
		all = append(all, o...)
	}
	return all
}

func sortByDistance(ids []uint64, start uint64) {
	sort.Slice(ids, func(i, j int) bool { return ids[i]-start < ids[j]-start })
}

func main() {
	c := vh.Start("C38")
	defer c.Finish()
	c.Res.Rule = "case = (counter before, G goroutines x M allocations) on a real StreamIDAllocator or on the two peer.Connection ends; " +
		"identifiers observed are compared with the model's allocs; non-trivial = at least 2 allocations; distinct = distinct (start,G,M,role)"

	var coq []string
	addCase := func(r replay, ids []uint64) {
		sortByDistance(ids, r.Start)
		items := make([]string, len(ids))
		for i, v := range ids {
			items[i] = vh.CoqN(v)
		}
		coq = append(coq, fmt.Sprintf("(%s, %s, %s)", vh.CoqN(r.Start), vh.CoqNat(len(ids)), vh.CoqList(items)))
	}
	monitor := func(r replay, ids []uint64, wantOdd bool) {
		seen := map[uint64]bool{}
		for _, id := range ids {
			if id == 0 {
				c.Fail("zero-id", "allocator returned identifier 0", r)
			}
			if seen[id] {
				c.Fail("duplicate-id", fmt.Sprintf("identifier %d allocated twice on one connection end", id), r)
			}
			seen[id] = true
			if (id%2 == 1) != wantOdd {
				c.Fail("wrong-parity", fmt.Sprintf("identifier %d has the wrong parity for dialer=%v", id, wantOdd), r)
			}
		}
	}

	runAllocator := func(r replay) {
		a := transport.NewStreamIDAllocator(r.Dialer)
		if r.SetCounter {
			a.VerifSetNext(r.Start)
		}
		ids := storm(r.Goroutines, r.PerG, a.Next)
		key := fmt.Sprintf("alloc/%d/%d/%d/%v", r.Start, r.Goroutines, r.PerG, r.Dialer)
		c.Case(key, len(ids) >= 2, r)
		addCase(r, ids)
		if !r.SetCounter {
			monitor(r, ids, r.Dialer)
			c.Count("allocator-default-start")
		} else {
			c.Count("allocator-set-counter")
			// A counter value with the role's parity that is reached from the
			// role's start value without wrapping is a reachable state, so the
			// property's own text applies to what is allocated from it.
			roleStart := uint64(2)
			if r.Dialer {
				roleStart = 1
			}
			n := uint64(len(ids))
			if r.Start >= roleStart && r.Start%2 == roleStart%2 && r.Start+2*n > r.Start && r.Start+2*n >= 2*n {
				monitor(r, ids, r.Dialer)
				c.Count("allocator-set-counter-reachable")
			}
		}
	}
	runPair := func(g, m int) {
		// both ends of one connection as the agent builds them
		id, _ := identity.NewAgentID()
		// the role decides the parity whatever carries the connection
		tts := []transport.TransportType{transport.TransportQUIC, transport.TransportHTTP2, transport.TransportWebSocket}
		tt := tts[(g+m+c.Res.Evaluations)%len(tts)]
		d := peer.NewConnection(&fakeConn{dialer: true, tt: tt}, peer.DefaultConnectionConfig(id))
		a := peer.NewConnection(&fakeConn{dialer: false, tt: tt}, peer.DefaultConnectionConfig(id))
		c.Count("transport:" + string(tt))
		defer d.Close()
		defer a.Close()
		var dIDs, aIDs []uint64
		var wg sync.WaitGroup
		wg.Add(2)
		go func() { defer wg.Done(); dIDs = storm(g, m, d.NextStreamID) }()
		go func() { defer wg.Done(); aIDs = storm(g, m, a.NextStreamID) }()
		wg.Wait()
		rd := replay{Kind: "connection-pair", Start: 1, Dialer: true, Goroutines: g, PerG: m}
		ra := replay{Kind: "connection-pair", Start: 2, Dialer: false, Goroutines: g, PerG: m}
		c.Case(fmt.Sprintf("pair-d/%d/%d", g, m), len(dIDs) >= 2, rd)
		addCase(rd, dIDs)
		c.Case(fmt.Sprintf("pair-a/%d/%d", g, m), len(aIDs) >= 2, ra)
		addCase(ra, aIDs)
		monitor(rd, dIDs, true)
		monitor(ra, aIDs, false)
		set := map[uint64]bool{}
		for _, v := range dIDs {
			set[v] = true
		}
		for _, v := range aIDs {
			if set[v] {
				c.Fail("cross-end-collision", fmt.Sprintf("identifier %d allocated by both ends", v), rd)
			}
		}
		c.Count("connection-pair")
	}

	// Allocation continues across Close(): a handler that still holds the
	// connection must never be handed an identifier the connection issued
	// before (a connection's identifiers are unique for that connection).
	runAcrossClose := func(dialer bool, g, m int) {
		id, _ := identity.NewAgentID()
		cn := peer.NewConnection(&fakeConn{dialer: dialer}, peer.DefaultConnectionConfig(id))
		before := storm(g, m, cn.NextStreamID)
		var during []uint64
		var wg sync.WaitGroup
		wg.Add(2)
		go func() { defer wg.Done(); during = storm(g, m, cn.NextStreamID) }()
		go func() { defer wg.Done(); cn.Close() }()
		wg.Wait()
		after := storm(g, m, cn.NextStreamID)
		all := append(append(append([]uint64{}, before...), during...), after...)
		start := uint64(2)
		if dialer {
			start = 1
		}
		r := replay{Kind: "across-close", Start: start, Dialer: dialer, Goroutines: g, PerG: m}
		c.Case(fmt.Sprintf("close/%v/%d/%d", dialer, g, m), true, r)
		addCase(r, append([]uint64{}, all...))
		monitor(r, all, dialer)
		c.Count("across-close")
	}

	// First allocation on fresh connection ends with every goroutine released at
	// once, monitors only (no model case): many cheap trials for a lazily or
	// non-atomically seeded counter.
	runFirstAllocRace := func(trials int) {
		id, _ := identity.NewAgentID()
		for i := 0; i < trials; i++ {
			dialer := i%2 == 0
			cn := peer.NewConnection(&fakeConn{dialer: dialer}, peer.DefaultConnectionConfig(id))
			ids := storm(8, 1, cn.NextStreamID)
			st := uint64(2)
			if dialer {
				st = 1
			}
			r := replay{Kind: "first-alloc-race", Start: st, Dialer: dialer, Goroutines: 8, PerG: 1, Trials: i + 1}
			before := len(c.Res.Failures)
			monitor(r, ids, dialer)
			cn.Close()
			if len(c.Res.Failures) != before {
				break
			}
		}
		c.Res.Histogram["first-alloc-race-trials"] += trials
	}
	// Real handshakes over an in-memory pipe with long-lived Handshakers, the
	// link re-established in the same and in the reverse direction: whatever a
	// handshake does to the connection object, each connection's two ends must
	// allocate from their own role's start (compared with the model) and keep
	// the role's parity.
	handshake := func(dial, accept *peer.Handshaker, dialID, acceptID identity.AgentID) (*peer.Connection, *peer.Connection, error) {
		p1, p2 := net.Pipe()
		ctx, cancel := context.WithTimeout(context.Background(), 5*time.Second)
		defer cancel()
		type res struct {
			c   *peer.Connection
			err error
		}
		ch := make(chan res, 1)
		go func() {
			cn, err := accept.AcceptHandshake(ctx, &pipeConn{c: p2, dialer: false}, peer.DefaultConnectionConfig(acceptID))
			ch <- res{cn, err}
		}()
		dconn := peer.NewConnection(&pipeConn{c: p1, dialer: true}, peer.DefaultConnectionConfig(dialID))
		if _, err := dial.PerformHandshake(ctx, dconn, identity.AgentID{}); err != nil {
			p1.Close()
			p2.Close()
			<-ch
			return nil, nil, err
		}
		r := <-ch
		if r.err != nil {
			return nil, nil, r.err
		}
		return dconn, r.c, nil
	}
	runReconnect := func(order string, m int) {
		idA, _ := identity.NewAgentID()
		idB, _ := identity.NewAgentID()
		hA := peer.NewHandshaker(idA, "A", nil, 5*time.Second)
		hB := peer.NewHandshaker(idB, "B", nil, 5*time.Second)
		for step, ch := range order {
			dial, acc, dID, aID := hA, hB, idA, idB
			if ch == 'b' {
				dial, acc, dID, aID = hB, hA, idB, idA
			}
			dc, ac, err := handshake(dial, acc, dID, aID)
			if err != nil {
				c.Fail("handshake-failed", fmt.Sprintf("order %s step %d: %v", order, step, err), replay{Kind: "reconnect", Order: order, PerG: m})
				return
			}
			var dIDs, aIDs []uint64
			var wg sync.WaitGroup
			wg.Add(2)
			go func() { defer wg.Done(); dIDs = storm(2, m, dc.NextStreamID) }()
			go func() { defer wg.Done(); aIDs = storm(2, m, ac.NextStreamID) }()
			wg.Wait()
			rd := replay{Kind: "reconnect", Order: order, Step: step, Start: 1, Dialer: true, Goroutines: 2, PerG: m}
			ra := replay{Kind: "reconnect", Order: order, Step: step, Start: 2, Dialer: false, Goroutines: 2, PerG: m}
			c.Case(fmt.Sprintf("reconnect-d/%s/%d/%d", order, step, m), true, rd)
			addCase(rd, dIDs)
			c.Case(fmt.Sprintf("reconnect-a/%s/%d/%d", order, step, m), true, ra)
			addCase(ra, aIDs)
			monitor(rd, dIDs, true)
			monitor(ra, aIDs, false)
			set := map[uint64]bool{}
			for _, v := range dIDs {
				set[v] = true
			}
			for _, v := range aIDs {
				if set[v] {
					c.Fail("cross-end-collision", fmt.Sprintf("identifier %d allocated by both ends (order %s step %d)", v, order, step), rd)
				}
			}
			dc.Close()
			ac.Close()
		}
		c.Count("reconnect:" + order)
	}

	if c.Replay != "" {
		var r replay
		if err := c.ReadReplay(&r); err != nil {
			panic(err)
		}
		if r.Kind == "connection-pair" {
			runPair(r.Goroutines, r.PerG)
		} else if r.Kind == "across-close" {
			runAcrossClose(r.Dialer, r.Goroutines, r.PerG)
		} else if r.Kind == "first-alloc-race" {
			runFirstAllocRace(4 * r.Trials)
		} else if r.Kind == "reconnect" {
			runReconnect(r.Order, r.PerG)
		} else {
			runAllocator(r)
		}
	} else {
		// First-allocation races: many fresh allocators / connection pairs, every
		// goroutine released at once, one or two allocations each.
		for i := 0; i < c.N(300, 3000); i++ {
			if i%3 == 0 {
				runPair(8, 1+i%2)
			} else {
				runAllocator(replay{Kind: "allocator", Start: uint64(2 - i%2), Dialer: i%2 == 1, Goroutines: 8, PerG: 1 + i%2})
			}
		}
		for i := 0; i < c.N(20, 200); i++ {
			runAcrossClose(i%2 == 0, 1+i%4, 1+i%3)
		}
		runFirstAllocRace(c.N(20000, 200000))
		for i, order := range []string{"ab", "ba", "aa", "aba", "abba", "bab", "aab"} {
			runReconnect(order, 1+i%3)
		}
		n := c.N(60, 600)
		for i := 0; i < n; i++ {
			g := c.Rand.Pick(1, 2, 4, 8, 16)
			m := c.Rand.Pick(1, 2, 7, 50, 200)
			switch c.Rand.Intn(4) {
			case 0:
				runPair(g, m)
			case 1:
				d := c.Rand.Chance(1, 2)
				st := uint64(2)
				if d {
					st = 1
				}
				runAllocator(replay{Kind: "allocator", Start: st, Dialer: d, Goroutines: g, PerG: m})
			default:
				// boundary counters through the verif-only setter
				d := c.Rand.Chance(1, 2)
				base := c.Rand.PickU64(0, 1, 2, 1<<31-6, 1<<32-7, 1<<32-1, 1<<32+8, 1<<63-2, 1<<63, ^uint64(0)-5, ^uint64(0)-1, ^uint64(0), ^uint64(0)-uint64(2*g*m), 1<<32-uint64(g*m))
				if c.Rand.Chance(3, 4) && base > 4 {
					// give the counter the role's parity (a reachable state)
					if d {
						base |= 1
					} else {
						base &^= 1
					}
				}
				runAllocator(replay{Kind: "allocator", Start: base, SetCounter: true, Dialer: d, Goroutines: g, PerG: m})
			}
		}
	}

	var sb strings.Builder
	sb.WriteString("From Coq Require Import List NArith.\nFrom MM Require Import Model.StreamID.\nImport ListNotations.\n")
	sb.WriteString("Definition cases : list case := \n" + vh.CoqList(coq) + ".\n")
	sb.WriteString("Definition M := Eval vm_compute in mismatches cases.\nPrint M.\n")
	c.WriteCasesV("cases.v", sb.String())
}
