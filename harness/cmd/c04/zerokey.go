package main

// (1) The plaintext fallback of the datagram tunnels ("no ephemeral key
// offered") must be taken for the ALL-ZERO key only. Honest X25519 public keys
// that are zero in one byte position (1 in 256 keys for each position), and
// keys with all bytes but one zero, are fed
//   - to the real exit handler udp.Handler.HandleUDPOpen (as the ingress' key):
//     it must either refuse the open or install a session key, answer with a
//     non-zero key of its own and seal what it returns;
//   - to the real ingress (agent.handleUDPOpenAck, deriveICMPSessionKey through
//     handleICMPOpenAck for the SOCKS5 association and the WebSocket ping
//     session) as the exit's key, with the harness playing the exit end behind
//     the C -> D link: what the ingress then sends must be sealed.
// icmp.Handler.HandleICMPOpen needs an ICMP socket before it looks at the key
// and cannot run in the sandbox; its zero-key test is covered by the
// translator fact only.
//
// (2) WebSocket ping session closed while echo requests are still queued:
// whatever runWSICMPSender still sends after the close must be sealed.

import (
	"bytes"
	"context"
	"fmt"
	"net"
	"sync"
	"time"

	"github.com/postalsys/muti-metroo/internal/crypto"
	"github.com/postalsys/muti-metroo/internal/health"
	"github.com/postalsys/muti-metroo/internal/identity"
	"github.com/postalsys/muti-metroo/internal/logging"
	"github.com/postalsys/muti-metroo/internal/protocol"
	"github.com/postalsys/muti-metroo/internal/udp"
	"github.com/postalsys/muti-metroo/verifharness/tunnelmesh"
)

// keypairWithZeroByte draws honest ephemeral pairs until the public half has
// a zero byte at position pos (about 256 draws).
func keypairWithZeroByte(pos int) (priv, pub [32]byte, ok bool) {
	for i := 0; i < 20000; i++ {
		p, q, err := crypto.GenerateEphemeralKeypair()
		if err != nil {
			return
		}
		if q[pos] == 0 {
			return p, q, true
		}
	}
	return
}

type udpRecWriter struct {
	mu    sync.Mutex
	acks  []*protocol.UDPOpenAck
	errs  []*protocol.UDPOpenErr
	dgram []*protocol.UDPDatagram
}

func (w *udpRecWriter) WriteUDPDatagram(_ identity.AgentID, _ uint64, d *protocol.UDPDatagram) error {
	w.mu.Lock()
	w.dgram = append(w.dgram, d)
	w.mu.Unlock()
	return nil
}
func (w *udpRecWriter) WriteUDPClose(identity.AgentID, uint64, uint8) error { return nil }
func (w *udpRecWriter) WriteUDPOpenAck(_ identity.AgentID, _ uint64, a *protocol.UDPOpenAck) error {
	w.mu.Lock()
	w.acks = append(w.acks, a)
	w.mu.Unlock()
	return nil
}
func (w *udpRecWriter) WriteUDPOpenErr(_ identity.AgentID, _ uint64, e *protocol.UDPOpenErr) error {
	w.mu.Lock()
	w.errs = append(w.errs, e)
	w.mu.Unlock()
	return nil
}
func (w *udpRecWriter) counts() (int, int, int) {
	w.mu.Lock()
	defer w.mu.Unlock()
	return len(w.acks), len(w.errs), len(w.dgram)
}

func (e *env) zeroPositions() []int {
	if e.c.Thorough() {
		p := make([]int, 32)
		for i := range p {
			p[i] = i
		}
		return p
	}
	return []int{0, 1, 31, 1 + e.c.Rand.Intn(30), 1 + e.c.Rand.Intn(30)}
}

func (e *env) zeroByteKeys() {
	e.zeroKeysAtExit()
	e.zeroKeysAtIngress()
}

// exit side: udp.Handler
func (e *env) zeroKeysAtExit() {
	var peer identity.AgentID
	w := &udpRecWriter{}
	h := udp.NewHandler(udp.Config{Enabled: true, MaxAssociations: 100, MaxDatagramSize: 1472}, w, logging.NopLogger())
	defer h.Close()
	port := uint16(e.udpEcho.LocalAddr().(*net.UDPAddr).Port)
	sid := uint64(5_000_001)
	var zero [32]byte

	type cand struct {
		name      string
		priv, pub [32]byte
		honest    bool
	}
	var cands []cand
	for _, pos := range e.zeroPositions() {
		if priv, pub, ok := keypairWithZeroByte(pos); ok {
			cands = append(cands, cand{fmt.Sprintf("honest key, byte %d zero", pos), priv, pub, true})
		}
	}
	for _, pos := range []int{0, 1, 16, 31} {
		var k [32]byte
		k[pos] = 9
		cands = append(cands, cand{fmt.Sprintf("all bytes zero except byte %d", pos), zero, k, false})
	}
	for _, c := range cands {
		sid += 2
		replay := map[string]any{"kind": "zero-byte-keys", "key": fmt.Sprintf("%x", c.pub), "what": c.name}
		a0, e0, _ := w.counts()
		open := &protocol.UDPOpen{RequestID: sid, AddressType: protocol.AddrTypeIPv4, Address: []byte{0, 0, 0, 0}, EphemeralPubKey: c.pub}
		h.HandleUDPOpen(context.Background(), peer, sid, open, c.pub)
		a1, e1, _ := w.counts()
		e.c.Count("zero-byte-keys:udp-exit")
		if e1 > e0 && a1 == a0 {
			continue // refused: nothing can leak
		}
		if a1 == a0 {
			e.c.Fail("harness-no-answer", "udp exit gave neither ACK nor error for "+c.name, replay)
			continue
		}
		w.mu.Lock()
		ack := w.acks[len(w.acks)-1]
		w.mu.Unlock()
		assoc := h.GetAssociation(sid)
		if ack.EphemeralPubKey == zero || assoc == nil || assoc.GetSessionKey() == nil {
			e.c.Fail("plaintext-fallback-for-nonzero-key:udp-exit",
				fmt.Sprintf("UDP_OPEN with a non-zero ephemeral key (%s: %x) was treated as 'no key offered': the exit installed no session key and acknowledged with %x", c.name, c.pub, ack.EphemeralPubKey[:8]), replay)
		}
		if c.honest && assoc != nil {
			// what the exit returns for a datagram must be sealed under the agreed key
			shared, err := crypto.ComputeECDH(c.priv, ack.EphemeralPubKey)
			can := e.c.Rand.Bytes(48)
			var data []byte
			var ik *crypto.SessionKey
			if err == nil {
				ik = crypto.DeriveSessionKey(shared, sid, c.pub, ack.EphemeralPubKey, true)
				data, _ = ik.Encrypt(can)
			} else {
				data = can // the exit has no key: it takes the bytes as they are
			}
			_, _, d0 := w.counts()
			h.HandleUDPDatagram(peer, sid, &protocol.UDPDatagram{AddressType: protocol.AddrTypeIPv4, Address: []byte{127, 0, 0, 1}, Port: port, Data: data})
			if tunnelmesh.WaitFor(5*time.Second, func() bool { _, _, d := w.counts(); return d > d0 }) == nil {
				w.mu.Lock()
				reply := w.dgram[len(w.dgram)-1]
				w.mu.Unlock()
				if bytes.Contains(reply.Data, reverse(can)[:32]) {
					e.c.Fail("canary-visible-to-transit:zero-byte-keys", fmt.Sprintf("the exit returned a datagram in the clear on an association opened with %s", c.name), replay)
				} else if ik != nil {
					if pt, err := ik.Decrypt(reply.Data); err != nil || !bytes.Equal(pt, reverse(can)) {
						e.c.Fail("payload-not-sealed:zero-byte-keys", "the exit's reply does not open under the agreed key", replay)
					}
				}
			}
		}
		h.HandleUDPClose(peer, sid)
	}
	e.kmu.Lock()
	e.keys = nil
	e.kmu.Unlock()
}

func (e *env) udpPseudoTap(ev tunnelmesh.FrameEvent) {
	if ev.From != 2 || ev.To != 3 || ev.Injected || !e.pseudoUDP.Load() {
		return
	}
	switch ev.Type {
	case fUDPOpen:
		open, err := protocol.DecodeUDPOpen(ev.Payload)
		if err != nil {
			return
		}
		priv, pub := e.responderKeypair()
		shared, err := crypto.ComputeECDH(priv, open.EphemeralPubKey)
		if err != nil {
			e.c.Fail("open-arrived-without-usable-key:udp", fmt.Sprintf("the UDP_OPEN reached the exit end with ephemeral key %x (%v): an exit would run this association unencrypted", open.EphemeralPubKey[:8], err), map[string]any{"kind": "udp"})
			oe := &protocol.UDPOpenErr{RequestID: open.RequestID, ErrorCode: protocol.ErrGeneralFailure, Message: "no usable ephemeral key"}
			go e.mesh.Inject(3, 2, 0x32, 0, ev.StreamID, oe.Encode())
			return
		}
		key := crypto.DeriveSessionKey(shared, open.RequestID, open.EphemeralPubKey, pub, false)
		e.imu.Lock()
		e.udpKey, e.udpGot = key, nil
		e.imu.Unlock()
		ack := &protocol.UDPOpenAck{RequestID: open.RequestID, BoundAddrType: protocol.AddrTypeIPv4, BoundAddr: []byte{127, 0, 0, 1}, BoundPort: 9, EphemeralPubKey: pub}
		go e.mesh.Inject(3, 2, 0x31, 0, ev.StreamID, ack.Encode())
	case fUDPDatagram:
		d, err := protocol.DecodeUDPDatagram(ev.Payload)
		if err != nil {
			return
		}
		e.imu.Lock()
		e.udpGot = append(e.udpGot, d.Data)
		e.imu.Unlock()
	}
}

// ingress side, with the harness as the exit end answering with a key that
// has a zero byte
func (e *env) zeroKeysAtIngress() {
	a, d := e.mesh.Nodes[0].Agent, e.mesh.Nodes[3].Agent
	for _, pos := range e.zeroPositions() {
		priv, pub, ok := keypairWithZeroByte(pos)
		if !ok {
			continue
		}
		e.imu.Lock()
		e.respKeys = func() ([32]byte, [32]byte) { return priv, pub }
		e.imu.Unlock()
		replay := map[string]any{"kind": "zero-byte-keys", "key": fmt.Sprintf("%x", pub), "what": fmt.Sprintf("exit key with byte %d zero", pos)}

		// UDP
		e.pseudoUDP.Store(true)
		ctx, cancel := context.WithTimeout(context.Background(), 6*time.Second)
		base, err := a.CreateUDPAssociation(ctx, &net.UDPAddr{IP: net.IPv4(127, 0, 0, 1), Port: 40002})
		if err == nil {
			can := e.c.Rand.Bytes(64)
			err = e.udpSend(base, can)
			if err != nil {
				e.c.Fail("write-failed:udp", "zero-byte key sweep: "+err.Error(), replay)
			} else {
				tunnelmesh.WaitFor(8*time.Second, func() bool { e.imu.Lock(); defer e.imu.Unlock(); return len(e.udpGot) > 0 })
				e.imu.Lock()
				key, got := e.udpKey, e.udpGot
				e.imu.Unlock()
				for _, g := range got {
					if bytes.Contains(g, can[:32]) {
						e.c.Fail("plaintext-fallback-for-nonzero-key:udp-ingress", fmt.Sprintf("the exit acknowledged with a non-zero key whose byte %d is zero (%x); the ingress installed no key and sent the datagram in the clear", pos, pub), replay)
					} else if pt, err := key.Decrypt(g); err != nil || !bytes.Equal(pt, can) {
						e.c.Fail("payload-not-sealed:zero-byte-keys", "ingress datagram does not open under the agreed key", replay)
					}
				}
			}
			a.CloseUDPAssociation(base)
		} else {
			e.c.Fail("tunnel-open-failed", "udp (zero-byte key sweep): "+err.Error(), replay)
		}
		cancel()
		e.settle()
		e.pseudoUDP.Store(false)
		e.c.Count("zero-byte-keys:udp-ingress")

		// ICMP, both ingress paths
		for _, ws := range []bool{false, true} {
			if e.tooManyOpenFailures("icmp") {
				break
			}
			e.imu.Lock()
			e.icmpKey, e.icmpGot = nil, nil
			e.imu.Unlock()
			ctx, cancel := context.WithTimeout(context.Background(), 6*time.Second)
			can := e.c.Rand.Bytes(64)
			m := e.rec.mark()
			var sid uint64
			var sess *health.ICMPSession
			var err error
			if ws {
				sess, err = a.OpenICMPSession(ctx, d.ID(), net.IPv4(127, 0, 0, 1))
				if err == nil {
					sess.SendEcho <- &health.ICMPEchoRequest{Identifier: 9, Sequence: 1, Payload: can}
				}
			} else {
				sid, err = a.CreateICMPSession(ctx, net.IPv4(127, 0, 0, 1))
				if err == nil {
					err = a.RelayICMPEcho(sid, 9, 1, can)
				}
			}
			if err != nil {
				e.openFailed("icmp")
				e.c.Fail("tunnel-open-failed", "icmp (zero-byte key sweep): "+err.Error(), replay)
			} else {
				up := func(ev tunnelmesh.FrameEvent) bool { return ev.From == 0 && ev.To == 1 && ev.Type == fICMPEcho }
				tunnelmesh.WaitFor(8*time.Second, func() bool { return e.rec.count(m, up) > 0 })
				for _, ev := range e.rec.since(m) {
					if up(ev) && bytes.Contains(ev.Payload, can[:32]) {
						e.c.Fail("plaintext-fallback-for-nonzero-key:icmp-ingress", fmt.Sprintf("the exit acknowledged with a non-zero key whose byte %d is zero (%x); the ingress (websocket=%v) installed no key and sent the echo payload in the clear", pos, pub, ws), replay)
					}
				}
				tunnelmesh.WaitFor(4*time.Second, func() bool { e.imu.Lock(); defer e.imu.Unlock(); return len(e.icmpGot) > 0 })
				e.imu.Lock()
				ok := len(e.icmpGot) > 0 && bytes.Equal(e.icmpGot[0], can)
				e.imu.Unlock()
				if !ok {
					e.c.Fail("payload-not-sealed:zero-byte-keys", "the echo request did not open under the agreed key at the exit end", replay)
				}
				if ws {
					sess.Close()
				} else {
					a.CloseICMPSession(sid)
				}
			}
			cancel()
			e.settle()
			e.c.Count("zero-byte-keys:icmp-ingress")
		}
		e.rec.trim()
	}
	e.imu.Lock()
	e.respKeys = nil
	e.imu.Unlock()
	e.kmu.Lock()
	e.keys = nil
	e.kmu.Unlock()
}

// wsICMPCloseRace: echo requests are still queued in the ping session's
// SendEcho channel when the session is closed; runWSICMPSender may still pick
// them up (its select chooses at random between Done and SendEcho). The sender
// is held inside its first SendToPeer (in the tap) while more requests are
// queued and Close runs. Repeated, because the sender's select is a coin flip.
func (e *env) wsICMPCloseRace() {
	a, d := e.mesh.Nodes[0].Agent, e.mesh.Nodes[3].Agent
	reps := e.c.N(16, 40)
	for r := 0; r < reps; r++ {
		if e.tooManyOpenFailures("icmp") {
			return
		}
		e.imu.Lock()
		e.icmpKey, e.icmpGot = nil, nil
		e.imu.Unlock()
		ctx, cancel := context.WithTimeout(context.Background(), 6*time.Second)
		sess, err := a.OpenICMPSession(ctx, d.ID(), net.IPv4(127, 0, 0, 1))
		if err != nil {
			cancel()
			e.openFailed("icmp")
			e.c.Fail("tunnel-open-failed", "icmp ws close race: "+err.Error(), nil)
			continue
		}
		m := e.rec.mark()
		var canaries [][]byte
		held, release := make(chan struct{}), make(chan struct{})
		var once sync.Once
		gate := func(ev tunnelmesh.FrameEvent) {
			if ev.From == 0 && ev.To == 1 && ev.Type == fICMPEcho {
				first := false
				once.Do(func() { first = true })
				if first {
					close(held)
					<-release
				}
			}
		}
		e.gate.Store(&gate)
		first := e.payload(64, &canaries)
		sess.SendEcho <- &health.ICMPEchoRequest{Identifier: 3, Sequence: 0, Payload: first}
		select {
		case <-held:
		case <-time.After(8 * time.Second):
			e.c.Fail("harness-yield-not-reached", "the ping session never sent its first echo", nil)
		}
		// queue more while the sender is held, then close
		for i := 1; i <= 8; i++ {
			select {
			case sess.SendEcho <- &health.ICMPEchoRequest{Identifier: 3, Sequence: uint16(i), Payload: e.payload(64, &canaries)}:
			default:
			}
		}
		go sess.Close() // blocks on the peer write of ICMP_CLOSE until the sender is released; the session itself is closed first
		select {
		case <-sess.Done:
		case <-time.After(8 * time.Second):
		}
		close(release)
		e.gate.Store(nil)
		time.Sleep(20 * time.Millisecond)
		for _, ev := range e.rec.since(m) {
			if ev.Type != fICMPEcho {
				continue
			}
			for _, can := range canaries {
				if bytes.Contains(ev.Payload, can) {
					e.c.Fail("canary-visible-to-transit:ws-icmp-close", fmt.Sprintf("an echo request queued in the ping session was sent in the clear after the session was closed (frame from agent %d to %d)", ev.From, ev.To), map[string]any{"kind": "ws-icmp-close"})
				}
			}
		}
		cancel()
		e.settle()
		e.rec.trim()
		e.c.Count("ws-icmp-close-race")
	}
	e.kmu.Lock()
	e.keys = nil
	e.kmu.Unlock()
}
