package main

// Close / reset / stop landing between "application bytes read" and "bytes
// sealed" on every exit-side stream data path.
//
//   - exit.Handler.readLoop, forward.Handler.readLoop: the destination
//     connection is a scripted net.Conn (exit/forward.VerifAttach); the Read
//     that hands out the "late" block first lets HandleStreamClose /
//     HandleStreamReset / Stop for that stream run to completion in another
//     goroutine, so the close lands exactly between Conn.Read obtaining the
//     bytes and Encrypt;
//   - shell.Handler.pumpPTYOutput / pumpOutput: same with a scripted PTY /
//     stdout reader and HandleStreamClose / Close;
//   - Agent.sendFileDownload (real download through the four-agent chain) and
//     Agent.streamFileContent: parked at the verifYieldTunnel point after the
//     read, a STREAM_CLOSE for the stream is delivered to the sender, then the
//     loop is released.
//
// The handlers write through the real Agent.WriteStreamData of agent D to its
// peer C, so everything emitted is seen on the D -> C link by the tap. Monitor:
// each non-empty STREAM_DATA payload of the stream opens under the tunnel's
// own key - not under the all-zero key, not under nothing - and carries no
// canary in the clear. Emitting nothing for the late bytes is acceptable.

import (
	"bytes"
	"context"
	"fmt"
	"io"
	"net"
	"os"
	"path/filepath"
	"sync"
	"syscall"
	"time"

	"golang.org/x/crypto/chacha20poly1305"

	"github.com/postalsys/muti-metroo/internal/agent"
	"github.com/postalsys/muti-metroo/internal/crypto"
	"github.com/postalsys/muti-metroo/internal/exit"
	"github.com/postalsys/muti-metroo/internal/forward"
	"github.com/postalsys/muti-metroo/internal/health"
	"github.com/postalsys/muti-metroo/internal/logging"
	"github.com/postalsys/muti-metroo/internal/shell"
	"github.com/postalsys/muti-metroo/verifharness/tunnelmesh"
)

const (
	fStreamOpen  = 0x01
	fStreamClose = 0x05
	fStreamReset = 0x06
)

// raceReader hands out block 0 normally; the Read that returns block 1 first
// runs onLate (once) to completion; afterwards it reports EOF / closed.
type raceReader struct {
	mu     sync.Mutex
	blocks [][]byte
	next   int
	onLate func()
	closed chan struct{}
	conce  sync.Once
}

func (r *raceReader) Read(p []byte) (int, error) {
	r.mu.Lock()
	i := r.next
	r.next++
	r.mu.Unlock()
	if i >= len(r.blocks) {
		return 0, io.EOF
	}
	if i == len(r.blocks)-1 && r.onLate != nil {
		done := make(chan struct{})
		go func() { defer close(done); r.onLate() }() // the frame dispatcher's goroutine
		<-done
	}
	return copy(p, r.blocks[i]), nil
}
func (r *raceReader) markClosed() { r.conce.Do(func() { close(r.closed) }) }

type raceConn struct{ *raceReader }

func (c raceConn) Write(p []byte) (int, error)      { return len(p), nil }
func (c raceConn) Close() error                     { c.markClosed(); return nil }
func (c raceConn) LocalAddr() net.Addr              { return &net.TCPAddr{IP: net.IPv4(127, 0, 0, 1), Port: 1} }
func (c raceConn) RemoteAddr() net.Addr             { return &net.TCPAddr{IP: net.IPv4(127, 0, 0, 1), Port: 2} }
func (c raceConn) SetDeadline(time.Time) error      { return nil }
func (c raceConn) SetReadDeadline(time.Time) error  { return nil }
func (c raceConn) SetWriteDeadline(time.Time) error { return nil }

type racePTY struct{ *raceReader }

func (p racePTY) Write(b []byte) (int, error) { return len(b), nil }
func (p racePTY) Resize(uint16, uint16) error { return nil }
func (p racePTY) Signal(syscall.Signal) error { return nil }
func (p racePTY) Wait() int32                 { return 0 }
func (p racePTY) Close()                      { p.markClosed() }

var raceSID uint64 = 7_000_001

// classify opens one payload with the tunnel key, then with the all-zero key.
func classify(key [32]byte, payload []byte) (plain []byte, how string) {
	if pt, ok := aeadOpen([]keyRec{{key: key}}, payload); ok {
		return pt, "tunnel"
	}
	var zero [32]byte
	if a, err := chacha20poly1305.New(zero[:]); err == nil && len(payload) >= 28 {
		if pt, err := a.Open(nil, payload[:12], payload[12:], nil); err == nil {
			return pt, "zero"
		}
	}
	return nil, "none"
}

// judge runs the monitor over the STREAM_DATA payloads of one stream and
// returns the sealed / clear application byte totals.
func (e *env) judge(kind string, ops []op, frames []tunnelmesh.FrameEvent, key [32]byte, canaries [][]byte, prefix int) (sealed, clear int) {
	replay := map[string]any{"kind": kind, "ops": ops}
	for _, f := range frames {
		for _, can := range canaries {
			if bytes.Contains(f.Payload, can) {
				e.c.Fail("canary-visible-to-transit:"+kind, fmt.Sprintf("frame from agent %d to agent %d contains an application canary in the clear", f.From, f.To), replay)
			}
		}
		if len(f.Payload) == 0 {
			continue
		}
		pt, how := classify(key, f.Payload)
		switch how {
		case "tunnel":
			if prefix == 1 {
				if len(pt) > 0 && pt[0] == shell.MsgStdout {
					sealed += len(pt) - 1
				}
			} else {
				sealed += len(pt)
			}
		case "zero":
			clear += len(f.Payload)
			leak := pt
			if len(leak) > 24 {
				leak = leak[:24]
			}
			e.c.Fail("sealed-under-zero-key:"+kind, fmt.Sprintf("a %d byte payload written to the transit after the close is sealed under the ALL-ZERO key, not the tunnel's key: anybody opens it (starts %x)", len(f.Payload), leak), replay)
		default:
			clear += len(f.Payload)
			e.c.Fail("payload-not-sealed:"+kind, fmt.Sprintf("a %d byte payload written to the transit does not open under the tunnel's key", len(f.Payload)), replay)
		}
	}
	return
}

// streamRace runs one scripted close race. path: exit | forward | shellpty |
// shellout; how: close | reset | stop.
func (e *env) streamRace(path, how string) {
	d := e.mesh.Nodes[3].Agent
	cID := e.mesh.Nodes[2].Agent.ID()
	k0 := e.keyCount()
	kI, kR := keyPairFor(21)
	keyBytes := kI.VerifKeyBytes()
	raceSID += 2
	sid := raceSID
	var canaries [][]byte
	n1, n2 := e.c.Rand.Pick(1, 64, 500, 16355), e.c.Rand.Pick(32, 96, 1000, 16355)
	b1, b2 := e.payload(n1, &canaries), e.payload(n2, &canaries)
	rr := &raceReader{blocks: [][]byte{b1, b2}, closed: make(chan struct{})}
	m := e.rec.mark()
	mine := func(ev tunnelmesh.FrameEvent) bool { return ev.From == 3 && ev.To == 2 && ev.StreamID == sid }
	loopDone := make(chan struct{})
	prefix := 0
	kind := "race-" + path + "-" + how

	switch path {
	case "exit":
		h := exit.NewHandler(exit.HandlerConfig{MaxConnections: 10}, d.ID(), d)
		h.Start()
		rr.onLate = func() {
			switch how {
			case "close":
				h.HandleStreamClose(cID, sid)
			case "reset":
				h.HandleStreamReset(cID, sid, 1)
			default:
				go h.Stop() // Stop waits for readLoop, which is waiting for us: only wait until the connections are closed
				tunnelmesh.WaitFor(10*time.Second, func() bool {
					select {
					case <-rr.closed:
						return h.GetConnection(sid) == nil
					default:
						return false
					}
				})
			}
		}
		h.VerifAttach(sid, cID, raceConn{rr}, kR)
		go func() {
			tunnelmesh.WaitFor(20*time.Second, func() bool {
				rr.mu.Lock()
				defer rr.mu.Unlock()
				return rr.next > len(rr.blocks)
			})
			// one more Read has started after the late block: the late block has been through Encrypt + WriteStreamData
			close(loopDone)
		}()
		defer h.Stop()
	case "forward":
		h := forward.NewHandler(forward.HandlerConfig{MaxConnections: 10}, d.ID(), d)
		h.Start()
		rr.onLate = func() {
			switch how {
			case "close":
				h.HandleStreamClose(cID, sid)
			case "reset":
				h.HandleStreamReset(cID, sid, 1)
			default:
				h.Stop()
			}
		}
		h.VerifAttach(sid, cID, raceConn{rr}, kR)
		go func() {
			if how == "stop" {
				// after Stop the loop returns at its next iteration without reading again
				time.Sleep(200 * time.Millisecond)
			} else {
				tunnelmesh.WaitFor(20*time.Second, func() bool {
					rr.mu.Lock()
					defer rr.mu.Unlock()
					return rr.next > len(rr.blocks)
				})
			}
			close(loopDone)
		}()
		defer h.Stop()
	case "shellpty", "shellout":
		prefix = 1
		h := shell.NewHandler(shell.NewExecutor(shell.Config{Enabled: true, Whitelist: []string{"*"}}), d, logging.NopLogger())
		rr.onLate = func() {
			if how == "close" {
				h.HandleStreamClose(sid)
			} else {
				h.Close()
			}
		}
		if path == "shellpty" {
			h.VerifAttachPTY(cID, sid, kR, racePTY{rr})
			go func() {
				tunnelmesh.WaitFor(20*time.Second, func() bool {
					return e.rec.count(m, func(ev tunnelmesh.FrameEvent) bool { return mine(ev) && ev.Type == fStreamClose }) > 0
				})
				close(loopDone)
			}()
		} else {
			done := make(chan struct{})
			h.VerifAttachPump(cID, sid, kR, rr, done)
			go func() {
				select {
				case <-done:
				case <-time.After(20 * time.Second):
				}
				close(loopDone)
			}()
		}
	}
	if path == "exit" && how == "stop" {
		// the stopped loop does not read again
		select {
		case <-loopDone:
		case <-time.After(300 * time.Millisecond):
		}
	} else {
		select {
		case <-loopDone:
		case <-time.After(25 * time.Second):
			e.c.Fail("harness-loop-stuck", kind, nil)
		}
	}
	var frames []tunnelmesh.FrameEvent
	for _, ev := range e.rec.since(m) {
		if mine(ev) && ev.Type == fStreamData {
			frames = append(frames, ev)
		}
	}
	ops := []op{{"down", n1}, {"close", 0}, {"late", n2}}
	sealed, clear := e.judge(kind, ops, frames, keyBytes, canaries, prefix)
	o := observation{Kind: "stream-race", Ops: ops, DownSealed: sealed, DownClear: clear, Derived: e.keyCount() - k0,
		TransitKeys: len(e.mesh.Nodes[1].Agent.VerifSessionKeys()) + len(e.mesh.Nodes[2].Agent.VerifSessionKeys())}
	e.c.Count("race:" + path + ":" + how)
	e.record(o)
	e.rec.trim()
}

// fileRace: a real download A <- B <- C <- D; D's sendFileDownload is parked
// after its first read, a STREAM_CLOSE for the stream is delivered to D on
// the C -> D link, D's stream entry disappears, then the loop is released.
func (e *env) fileRace() {
	a, d := e.mesh.Nodes[0].Agent, e.mesh.Nodes[3].Agent
	var canaries [][]byte
	n := e.c.Rand.Pick(300, 5000, 16256, 40000)
	content := e.payload(n, &canaries)
	dir := filepath.Join(e.scratch, "files")
	os.MkdirAll(dir, 0o755)
	remote, back := filepath.Join(dir, "race-remote.bin"), filepath.Join(dir, "race-back.bin")
	if err := os.WriteFile(remote, content, 0o644); err != nil {
		panic(err)
	}
	defer os.Remove(remote)
	defer os.Remove(back)

	m, k0 := e.rec.mark(), e.keyCount()
	parked, release := make(chan struct{}), make(chan struct{})
	var once sync.Once
	agent.VerifSetYieldHook(func(point string) {
		if point != "sendFileDownload.after-read" {
			return
		}
		first := false
		once.Do(func() { first = true })
		if first {
			close(parked)
			<-release
		}
	})
	defer agent.VerifSetYieldHook(nil)
	ctx, cancel := context.WithTimeout(context.Background(), 20*time.Second)
	defer cancel()
	dlDone := make(chan struct{})
	go func() {
		defer close(dlDone)
		a.DownloadFile(ctx, d.ID(), remote, back, health.TransferOptions{}, nil) // fails or is cut short: the stream is closed under it
	}()
	select {
	case <-parked:
	case <-time.After(15 * time.Second):
		e.c.Fail("harness-yield-not-reached", "sendFileDownload never read the file", nil)
		close(release)
		return
	}
	// the stream id D knows this download by: the STREAM_OPEN on the C -> D link
	var sid uint64
	for _, ev := range e.rec.since(m) {
		if ev.From == 2 && ev.To == 3 && ev.Type == fStreamOpen {
			sid = ev.StreamID
		}
	}
	before := len(d.VerifSessionKeys())
	e.mesh.Inject(2, 3, fStreamClose, 0, sid, nil)
	tunnelmesh.WaitFor(10*time.Second, func() bool { return len(d.VerifSessionKeys()) < before })
	close(release)
	// whatever D still emits for the parked read appears at once
	time.Sleep(300 * time.Millisecond)
	cancel()
	<-dlDone
	keys := e.keysSince(k0)
	var frames []tunnelmesh.FrameEvent
	for _, ev := range e.rec.since(m) {
		if ev.From == 3 && ev.To == 2 && ev.Type == fStreamData {
			frames = append(frames, ev)
		}
	}
	ops := []op{{"close", 0}, {"late", n}}
	var keyBytes [32]byte
	if len(keys) > 0 {
		keyBytes = keys[0].key
	}
	sealed, clear := e.judge("race-file-download", ops, frames, keyBytes, canaries, 0)
	o := observation{Kind: "file-race", Ops: ops, DownSealed: sealed, DownClear: clear, Derived: len(keys),
		TransitKeys: len(e.mesh.Nodes[1].Agent.VerifSessionKeys()) + len(e.mesh.Nodes[2].Agent.VerifSessionKeys())}
	e.c.Count("race:file-download:close")
	e.settle()
	e.record(o)
	e.rec.trim()
}

var _ = crypto.KeySize
