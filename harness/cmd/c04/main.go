// c04: correspondence and monitor harness for C04 (transit agents see only
// ciphertext of tunnelled application data and never hold the tunnel key).
//
// Implementation under test: four real agents A(0) - B(1) - C(2) - D(3) wired
// in one process over the in-memory transport of package tunnelmesh; A is the
// ingress, D the exit, B and C are transits running the real relay code.
// Tunnels of every kind are opened through the real ingress API (TCP stream,
// port forward, shell, file upload/download, UDP association, ICMP session);
// application payloads carry random 32-byte canaries.
//
// Monitors (property text, no model):
//   - no canary occurs in any frame payload on any link (every link of the
//     chain touches a transit);
//   - the encrypted part of every relayed STREAM_DATA / UDP_DATAGRAM /
//     ICMP_ECHO payload opens (ChaCha20-Poly1305, run by the harness) under a
//     session key that an endpoint derived for that tunnel;
//   - exactly two key derivations happen per tunnel and the transits' state
//     holds no session key (enumerated through verif accessors);
//   - transits forward payloads verbatim and in order;
//   - the bytes recovered with the key are the application bytes.
//
// ICMP: the sandbox cannot open ICMP sockets, so the exit end of the ICMP
// tunnel is played by the harness behind the C-D link (frames dropped on the
// link and answered by injection); ingress and both transits are real. The
// exit-side Encrypt/Decrypt of icmp.Session and udp.Association are also
// exercised directly (use after Close).
package main

import (
	"bytes"
	"context"
	"crypto/sha256"
	"fmt"
	"net"
	"os"
	"path/filepath"
	"strings"
	"sync"
	"sync/atomic"
	"time"

	"golang.org/x/crypto/chacha20poly1305"

	"github.com/postalsys/muti-metroo/internal/config"
	"github.com/postalsys/muti-metroo/internal/crypto"
	"github.com/postalsys/muti-metroo/internal/health"
	"github.com/postalsys/muti-metroo/internal/icmp"
	"github.com/postalsys/muti-metroo/internal/identity"
	"github.com/postalsys/muti-metroo/internal/protocol"
	"github.com/postalsys/muti-metroo/internal/shell"
	"github.com/postalsys/muti-metroo/internal/udp"
	"github.com/postalsys/muti-metroo/verifharness/tunnelmesh"
	"github.com/postalsys/muti-metroo/verifharness/vh"
)

const (
	fStreamData  = 0x04
	fUDPOpen     = 0x30
	fUDPDatagram = 0x33
	fICMPOpen    = 0x40
	fICMPOpenAck = 0x41
	fICMPEcho    = 0x43
	fICMPClose   = 0x44
)

// ---------------------------------------------------------------------------

type recorder struct {
	mu     sync.Mutex
	events []tunnelmesh.FrameEvent
}

func (r *recorder) tap(ev tunnelmesh.FrameEvent) {
	r.mu.Lock()
	r.events = append(r.events, ev)
	r.mu.Unlock()
}
func (r *recorder) mark() int {
	r.mu.Lock()
	defer r.mu.Unlock()
	return len(r.events)
}
func (r *recorder) since(i int) []tunnelmesh.FrameEvent {
	r.mu.Lock()
	defer r.mu.Unlock()
	return append([]tunnelmesh.FrameEvent(nil), r.events[i:]...)
}
func (r *recorder) count(i int, keep func(tunnelmesh.FrameEvent) bool) int {
	n := 0
	for _, e := range r.since(i) {
		if keep(e) {
			n++
		}
	}
	return n
}
func (r *recorder) trim() {
	r.mu.Lock()
	r.events = nil
	r.mu.Unlock()
}

type keyRec struct {
	key  [32]byte
	init bool
}

type env struct {
	c       *vh.Ctx
	mesh    *tunnelmesh.Mesh
	rec     *recorder
	scratch string
	tcp     *tcpPeer
	udpEcho *net.UDPConn

	kmu  sync.Mutex
	keys []keyRec

	// UDP close race
	ymu      sync.Mutex
	armed    bool
	readDone chan struct{}
	release  chan struct{}

	// harness exit end (ICMP always, UDP while pseudoUDP is set)
	pseudoUDP atomic.Bool
	respKeys  func() (priv, pub [32]byte)
	udpKey    *crypto.SessionKey
	udpGot    [][]byte
	imu       sync.Mutex
	icmpKey  *crypto.SessionKey
	icmpGot  [][]byte
	icmpSID  uint64
	icmpOpen chan struct{}

	// optional blocking hook run inside the tap (writer's goroutine)
	gate atomic.Pointer[func(tunnelmesh.FrameEvent)]

	openFails map[string]int

	coq []string
}

// after two failed opens of one tunnel kind the remaining tunnels of that kind
// are skipped (each would only wait for its timeout again)
func (e *env) openFailed(kind string) {
	e.kmu.Lock()
	if e.openFails == nil {
		e.openFails = map[string]int{}
	}
	e.openFails[kind]++
	e.kmu.Unlock()
}
func (e *env) tooManyOpenFailures(kind string) bool {
	e.kmu.Lock()
	defer e.kmu.Unlock()
	if e.openFails[kind] >= 2 {
		e.c.Count("skipped-after-open-failures:" + kind)
		return true
	}
	return false
}

func (e *env) keyCount() int {
	e.kmu.Lock()
	defer e.kmu.Unlock()
	return len(e.keys)
}
func (e *env) keysSince(i int) []keyRec {
	e.kmu.Lock()
	defer e.kmu.Unlock()
	return append([]keyRec(nil), e.keys[i:]...)
}

// open tries the tunnel's keys on nonce||ciphertext||tag
func aeadOpen(keys []keyRec, sealed []byte) ([]byte, bool) {
	if len(sealed) < 28 {
		return nil, false
	}
	for _, k := range keys {
		a, err := chacha20poly1305.New(k.key[:])
		if err != nil {
			continue
		}
		if pt, err := a.Open(nil, sealed[:12], sealed[12:], nil); err == nil {
			return pt, true
		}
	}
	return nil, false
}

// ---------------------------------------------------------------------------
// observation of one tunnel

type observation struct {
	Kind        string `json:"kind"`
	Ops         []op   `json:"ops"`
	UpSealed    int    `json:"up_sealed"`   // application bytes seen sealed by the transits, ingress -> exit
	UpClear     int    `json:"up_clear"`    // bytes in data payloads that do not open under the tunnel key
	DownSealed  int    `json:"down_sealed"` // exit -> ingress
	DownClear   int    `json:"down_clear"`
	Derived     int    `json:"derived_keys"`
	TransitKeys int    `json:"transit_keys"`
}

type op struct {
	Op string `json:"op"` // up | down | close | late
	N  int    `json:"n"`
}

// sealedPart extracts the part of a data-carrying frame that is supposed to
// be sealed.
func sealedPart(ev tunnelmesh.FrameEvent) ([]byte, bool) {
	switch ev.Type {
	case fStreamData:
		return ev.Payload, true
	case fUDPDatagram:
		d, err := protocol.DecodeUDPDatagram(ev.Payload)
		if err != nil {
			return ev.Payload, true
		}
		return d.Data, true
	case fICMPEcho:
		d, err := protocol.DecodeICMPEcho(ev.Payload)
		if err != nil {
			return ev.Payload, true
		}
		return d.Data, true
	}
	return nil, false
}

type linkView struct {
	sealed, clear int
	hashes        []string
	plain         []byte
}

// evaluate runs the monitors over everything recorded since the mark.
func (e *env) evaluate(kind string, ops []op, m, k0 int, canaries [][]byte, upApp, downApp []byte, exactBytes bool) observation {
	c := e.c
	evs := e.rec.since(m)
	keys := e.keysSince(k0)
	o := observation{Kind: kind, Ops: ops, Derived: len(keys)}
	replay := map[string]any{"kind": kind, "ops": ops}

	// (i) canaries
	for _, ev := range evs {
		for _, can := range canaries {
			if bytes.Contains(ev.Payload, can) {
				c.Fail("canary-visible-to-transit:"+kind, fmt.Sprintf("frame type 0x%02x from agent %d to agent %d (%d payload bytes) contains an application canary in the clear",
					ev.Type, ev.From, ev.To, ev.Length), replay)
			}
		}
	}
	// (ii) sealed under the tunnel's key; (iv) verbatim relay
	views := map[[2]int]*linkView{}
	for _, ev := range evs {
		part, ok := sealedPart(ev)
		if !ok || len(part) == 0 {
			continue
		}
		lk := [2]int{ev.From, ev.To}
		v := views[lk]
		if v == nil {
			v = &linkView{}
			views[lk] = v
		}
		h := sha256.Sum256(part)
		v.hashes = append(v.hashes, fmt.Sprintf("%x", h[:8]))
		if pt, ok := aeadOpen(keys, part); ok {
			v.sealed += len(pt)
			v.plain = append(v.plain, pt...)
		} else {
			v.clear += len(part)
			c.Fail("payload-not-sealed:"+kind, fmt.Sprintf("frame type 0x%02x from agent %d to agent %d: %d bytes that do not open under any session key derived for this tunnel",
				ev.Type, ev.From, ev.To, len(part)), replay)
		}
	}
	get := func(a, b int) *linkView {
		if v := views[[2]int{a, b}]; v != nil {
			return v
		}
		return &linkView{}
	}
	o.UpSealed, o.UpClear = get(1, 2).sealed, get(1, 2).clear
	o.DownSealed, o.DownClear = get(2, 1).sealed, get(2, 1).clear
	// the late datagram of the close race never reaches C -> B (C has dropped
	// its relay entry); what the transit C itself sees on D -> C counts
	if get(3, 2).clear > o.DownClear {
		o.DownClear = get(3, 2).clear
	}
	same := func(a, b *linkView) bool { return strings.Join(a.hashes, ",") == strings.Join(b.hashes, ",") }
	if kind != "icmp" && kind != "udp-race" {
		if !same(get(0, 1), get(1, 2)) || !same(get(1, 2), get(2, 3)) {
			c.Fail("relay-not-verbatim:"+kind, fmt.Sprintf("payload sequences differ along the path towards the exit: %d / %d / %d payloads", len(get(0, 1).hashes), len(get(1, 2).hashes), len(get(2, 3).hashes)), replay)
		}
		if !same(get(3, 2), get(2, 1)) || !same(get(2, 1), get(1, 0)) {
			c.Fail("relay-not-verbatim:"+kind, fmt.Sprintf("payload sequences differ along the path towards the ingress: %d / %d / %d payloads", len(get(3, 2).hashes), len(get(2, 1).hashes), len(get(1, 0).hashes)), replay)
		}
	} else if kind == "icmp" {
		if !same(get(0, 1), get(1, 2)) || !same(get(2, 1), get(1, 0)) {
			c.Fail("relay-not-verbatim:"+kind, "ICMP payload sequences differ between the two transit links", replay)
		}
	}
	// (v) the bytes under the key are the application bytes
	if exactBytes {
		if !bytes.Equal(get(1, 2).plain, upApp) {
			c.Fail("bytes-mismatch:"+kind, fmt.Sprintf("ingress -> exit: %d bytes recovered with the tunnel key, %d application bytes sent", len(get(1, 2).plain), len(upApp)), replay)
		}
		if !bytes.Equal(get(2, 1).plain, downApp) {
			c.Fail("bytes-mismatch:"+kind, fmt.Sprintf("exit -> ingress: %d bytes recovered with the tunnel key, %d application bytes sent", len(get(2, 1).plain), len(downApp)), replay)
		}
	}
	// (iii) two derivations, one per end, and nothing at the transits
	want := 2
	if o.Derived != want {
		c.Fail("key-derivations:"+kind, fmt.Sprintf("%d session keys were derived for one tunnel (expected one per endpoint)", o.Derived), replay)
	} else if keys[0].key != keys[1].key || keys[0].init == keys[1].init {
		c.Fail("key-derivations:"+kind, "the two derived keys differ or have the same role", replay)
	}
	o.TransitKeys = len(e.mesh.Nodes[1].Agent.VerifSessionKeys()) + len(e.mesh.Nodes[2].Agent.VerifSessionKeys())
	if o.TransitKeys != 0 {
		c.Fail("transit-holds-key", fmt.Sprintf("%d session keys are reachable from the state of the transit agents", o.TransitKeys), replay)
	}
	return o
}

func (e *env) record(o observation) {
	key := fmt.Sprintf("%s/%v", o.Kind, o.Ops)
	total := 0
	items := []string{}
	for _, p := range o.Ops {
		total += p.N
		items = append(items, fmt.Sprintf("(O_%s, %d%%N)", p.Op, p.N))
	}
	e.c.Case(key, total > 0, o)
	e.c.Count("kind:" + o.Kind)
	e.coq = append(e.coq, fmt.Sprintf("(K_%s, %s, (%d%%N, %d%%N, %d%%N, %d%%N), %d%%N, %d%%N)", strings.ReplaceAll(o.Kind, "-", "_"),
		vh.CoqList(items), o.UpSealed, o.UpClear, o.DownSealed, o.DownClear, o.Derived, o.TransitKeys))
}

// payload with canaries: random bytes, a fresh 32-byte canary every ~200 bytes
func (e *env) payload(n int, canaries *[][]byte) []byte {
	b := e.c.Rand.Bytes(n)
	for off := 0; off+32 <= n; off += 200 + e.c.Rand.Intn(100) {
		can := e.c.Rand.Bytes(32)
		copy(b[off:], can)
		*canaries = append(*canaries, can)
	}
	return b
}

// virtualTime, when set (test binary: main_test.go), runs the scenarios that
// need a synctest bubble.
var virtualTime func(e *env)

func main() { runHarness() }

func runHarness() {
	c := vh.Start("C04")
	defer c.Finish()
	c.Res.Rule = "case = one tunnel (tcp, forward, shell, file, udp, icmp, udp close race) through two real transits x a script of application sends; " +
		"observed = application bytes the transits saw sealed / not sealed per direction, number of key derivations, keys reachable from transit state; " +
		"non-trivial = at least one application byte; distinct = distinct (kind, script)"
	scratch := os.Getenv("VERIF_SCRATCH")
	if scratch == "" {
		scratch = filepath.Join(c.OutDir, "scratch")
	}
	os.MkdirAll(scratch, 0o755)
	defer os.RemoveAll(scratch)

	e := &env{c: c, rec: &recorder{}, scratch: scratch}
	var err error
	if e.tcp, err = newTCPPeer(); err != nil {
		panic(err)
	}
	defer e.tcp.close()
	if e.udpEcho, err = net.ListenUDP("udp", &net.UDPAddr{IP: net.IPv4(127, 0, 0, 1)}); err != nil {
		panic(err)
	}
	defer e.udpEcho.Close()
	go e.udpEchoLoop()

	crypto.VerifSetOnDerive(func(key [32]byte, init bool) {
		e.kmu.Lock()
		e.keys = append(e.keys, keyRec{key, init})
		e.kmu.Unlock()
	})
	udp.VerifSetYield(e.yield)

	mesh, err := tunnelmesh.New(4, scratch, func(i int, cfg *config.Config) {
		if i == 3 {
			cfg.Exit.Enabled = true
			cfg.Exit.Routes = []string{"0.0.0.0/0"}
			cfg.Forward.Endpoints = []config.ForwardEndpoint{{Key: "c04fwd", Target: e.tcp.addr()}}
			cfg.Shell.Enabled = true
			cfg.Shell.Whitelist = []string{"*"}
			cfg.FileTransfer.Enabled = true
			cfg.FileTransfer.AllowedPaths = []string{"*"}
			cfg.UDP.Enabled = true
			cfg.UDP.IdleTimeout = 5 * time.Minute
			cfg.ICMP.Enabled = true
		}
		if i == 0 {
			cfg.FileTransfer.Enabled = true
			cfg.FileTransfer.AllowedPaths = []string{"*"}
		}
	})
	if err != nil {
		panic(err)
	}
	defer mesh.Close()
	e.mesh = mesh
	mesh.SetTap(e.tapAll)
	mesh.SetFilter(e.icmpFilter)
	if err := mesh.Chain(); err != nil {
		panic(err)
	}
	a, d := mesh.Nodes[0].Agent, mesh.Nodes[3].Agent
	if err := tunnelmesh.WaitFor(30*time.Second, func() bool {
		cidr := false
		for _, r := range a.GetRoutes() {
			if r.Network.String() == "0.0.0.0/0" && len(r.Path) == 3 {
				cidr = true
			}
		}
		known := false
		for _, id := range a.GetKnownAgentIDs() {
			if id == d.ID() {
				known = true
			}
		}
		return cidr && known && a.LookupForwardRoute("c04fwd") != nil
	}); err != nil {
		panic("routes did not propagate")
	}

	run := func(name string, f func()) {
		if p := vh.Recover(f); p != "" {
			c.Fail("panic", name+": "+p, nil)
		}
	}
	if c.Replay != "" {
		var r struct {
			Kind string `json:"kind"`
		}
		if err := c.ReadReplay(&r); err != nil {
			panic(err)
		}
		switch r.Kind {
		case "tcp", "forward":
			run(r.Kind, func() { e.streamTunnel(r.Kind) })
		case "udp":
			run("udp", e.udpTunnel)
		case "udp-race":
			run("udp-race", e.udpRace)
		case "zero-byte-keys":
			run("zero-byte-keys", e.zeroByteKeys)
	run("held-open-ack", e.heldOpenAck)
	if virtualTime != nil {
		run("timed-out-open", func() { virtualTime(e) })
	} else {
		c.Note("built as a plain program: the virtual-time scenario (timed-out UDP open) was skipped")
	}
		case "ws-icmp-close":
			run("ws-icmp-close", e.wsICMPCloseRace)
		case "file-race":
			run("race-file-download", e.fileRace)
		case "stream-race":
			for _, pth := range []string{"exit", "forward"} {
				for _, how := range []string{"close", "reset", "stop"} {
					run("race-"+pth+"-"+how, func() { e.streamRace(pth, how) })
				}
			}
			for _, pth := range []string{"shellpty", "shellout"} {
				for _, how := range []string{"close", "stop"} {
					run("race-"+pth+"-"+how, func() { e.streamRace(pth, how) })
				}
			}
		case "icmp":
			run("icmp", e.icmpTunnel)
		case "shell":
			run("shell", e.shellTunnel)
		case "file":
			run("file", e.fileTunnel)
		default:
			run("direct", e.directAfterClose)
		}
		e.writeCases()
		return
	}
	// fixed witnesses first
	run("direct", e.directAfterClose)
	run("udp-race", e.udpRace)
	for _, pth := range []string{"exit", "forward"} {
		for _, how := range []string{"close", "reset", "stop"} {
			run("race-"+pth+"-"+how, func() { e.streamRace(pth, how) })
		}
	}
	for _, pth := range []string{"shellpty", "shellout"} {
		for _, how := range []string{"close", "stop"} {
			run("race-"+pth+"-"+how, func() { e.streamRace(pth, how) })
		}
	}
	run("race-file-download", e.fileRace)
	run("zero-byte-keys", e.zeroByteKeys)
	run("held-open-ack", e.heldOpenAck)
	if virtualTime != nil {
		run("timed-out-open", func() { virtualTime(e) })
	} else {
		c.Note("built as a plain program: the virtual-time scenario (timed-out UDP open) was skipped")
	}
	run("ws-icmp-close", e.wsICMPCloseRace)
	n := c.N(14, 120)
	for i := 0; i < n; i++ {
		run("tcp", func() { e.streamTunnel("tcp") })
		run("forward", func() { e.streamTunnel("forward") })
		run("udp", e.udpTunnel)
		run("icmp", e.icmpTunnel)
		if i < c.N(5, 30) {
			run("shell", e.shellTunnel)
			run("file", e.fileTunnel)
		}
	}

	e.writeCases()
}

func (e *env) writeCases() {
	var sb strings.Builder
	sb.WriteString("From Coq Require Import List NArith Bool.\nFrom MM Require Import Model.Transit.\nImport ListNotations.\n")
	sb.WriteString("Definition cases : list c04_case := \n" + vh.CoqList(e.coq) + ".\n")
	sb.WriteString("Definition M := Eval vm_compute in c04_mismatches cases.\nPrint M.\n")
	e.c.WriteCasesV("cases.v", sb.String())
}

func (e *env) tapAll(ev tunnelmesh.FrameEvent) {
	e.rec.tap(ev)
	e.icmpTap(ev)
	e.udpPseudoTap(ev)
	if g := e.gate.Load(); g != nil {
		(*g)(ev)
	}
}

// ---------------------------------------------------------------------------
// loopback destinations

type tcpPeer struct {
	ln    net.Listener
	conns chan net.Conn
}

func newTCPPeer() (*tcpPeer, error) {
	ln, err := net.Listen("tcp", "127.0.0.1:0")
	if err != nil {
		return nil, err
	}
	p := &tcpPeer{ln: ln, conns: make(chan net.Conn, 64)}
	go func() {
		for {
			c, err := ln.Accept()
			if err != nil {
				return
			}
			p.conns <- c
		}
	}()
	return p, nil
}
func (p *tcpPeer) addr() string { return p.ln.Addr().String() }
func (p *tcpPeer) close()       { p.ln.Close() }
func (p *tcpPeer) accept() (net.Conn, error) {
	select {
	case c := <-p.conns:
		return c, nil
	case <-time.After(30 * time.Second):
		return nil, fmt.Errorf("no connection arrived at the loopback destination")
	}
}

// the UDP destination answers every datagram with "R" + the same bytes
// reversed, so that the reply carries its own recognisable content
func (e *env) udpEchoLoop() {
	buf := make([]byte, 65536)
	for {
		n, addr, err := e.udpEcho.ReadFromUDP(buf)
		if err != nil {
			return
		}
		e.udpEcho.WriteToUDP(reverse(buf[:n]), addr)
	}
}

func reverse(b []byte) []byte {
	out := make([]byte, len(b))
	for i := range b {
		out[len(b)-1-i] = b[i]
	}
	return out
}

func readN(conn net.Conn, n int) []byte {
	conn.SetReadDeadline(time.Now().Add(20 * time.Second))
	buf := make([]byte, n)
	got := 0
	for got < n {
		k, err := conn.Read(buf[got:])
		got += k
		if err != nil {
			break
		}
	}
	return buf[:got]
}

// ---------------------------------------------------------------------------
// TCP stream / port forward

func (e *env) streamTunnel(kind string) {
	a := e.mesh.Nodes[0].Agent
	m, k0 := e.rec.mark(), e.keyCount()
	ctx, cancel := context.WithTimeout(context.Background(), 60*time.Second)
	defer cancel()
	var conn net.Conn
	var err error
	if kind == "forward" {
		conn, err = a.DialForward(ctx, "c04fwd")
	} else {
		conn, err = a.DialContext(ctx, "tcp", e.tcp.addr())
	}
	if err != nil {
		e.c.Fail("tunnel-open-failed", kind+": "+err.Error(), nil)
		return
	}
	srv, err := e.tcp.accept()
	if err != nil {
		conn.Close()
		e.c.Fail("tunnel-open-failed", kind+": "+err.Error(), nil)
		return
	}
	var canaries [][]byte
	var ops []op
	var upApp, downApp []byte
	for i := 0; i < 2+e.c.Rand.Intn(4); i++ {
		n := e.c.Rand.Pick(1, 31, 32, 33, 500, 4096, 16355, 16356, 16357, 40000)
		if e.c.Rand.Chance(1, 2) {
			b := e.payload(n, &canaries)
			if w, err := conn.Write(b); err != nil || w != n {
				e.c.Fail("write-failed:"+kind, fmt.Sprintf("%d %v", w, err), nil)
			}
			if got := readN(srv, n); !bytes.Equal(got, b) {
				e.c.Fail("bytes-not-delivered:"+kind, fmt.Sprintf("up %d: got %d", n, len(got)), nil)
			}
			upApp = append(upApp, b...)
			ops = append(ops, op{"up", n})
		} else {
			b := e.payload(n, &canaries)
			go srv.Write(b)
			if got := readN(conn, n); !bytes.Equal(got, b) {
				e.c.Fail("bytes-not-delivered:"+kind, fmt.Sprintf("down %d: got %d", n, len(got)), nil)
			}
			downApp = append(downApp, b...)
			ops = append(ops, op{"down", n})
		}
	}
	// all data frames have passed every link once the bytes have arrived; take
	// the observation while both ends still hold the key
	o := e.evaluate(kind, ops, m, k0, canaries, upApp, downApp, true)
	conn.Close()
	srv.Close()
	e.settle()
	e.record(o)
	e.rec.trim()
}

// settle waits until the relay tables of the transits are empty again.
func (e *env) settle() {
	tunnelmesh.WaitFor(10*time.Second, func() bool {
		for _, i := range []int{1, 2} {
			t, u, ic := e.mesh.Nodes[i].Agent.VerifRelayCounts()
			if t+u+ic != 0 {
				return false
			}
		}
		return true
	})
}

// ---------------------------------------------------------------------------
// shell

func (e *env) shellTunnel() {
	a, d := e.mesh.Nodes[0].Agent, e.mesh.Nodes[3].Agent
	var canaries [][]byte
	n := e.c.Rand.Pick(100, 5000, 16355, 20000, 70000)
	content := e.payload(n, &canaries)
	// the command line is application data too: the file name carries an ASCII canary
	nameCanary := fmt.Sprintf("%x", e.c.Rand.Bytes(16))
	canaries = append(canaries, []byte(nameCanary))
	src := filepath.Join(e.scratch, "shell-"+nameCanary+".bin")
	if err := os.WriteFile(src, content, 0o644); err != nil {
		panic(err)
	}
	defer os.Remove(src)
	m, k0 := e.rec.mark(), e.keyCount()
	ctx, cancel := context.WithTimeout(context.Background(), 60*time.Second)
	defer cancel()
	sess, err := a.OpenShellStream(ctx, d.ID(), &shell.ShellMeta{Command: "cat", Args: []string{src}}, false)
	if err != nil {
		e.c.Fail("tunnel-open-failed", "shell: "+err.Error(), nil)
		return
	}
	var out []byte
	deadline := time.After(60 * time.Second)
	exited := false
loop:
	for !exited {
		select {
		case msg, ok := <-sess.Receive:
			if !ok {
				break loop
			}
			if len(msg) > 0 && msg[0] == shell.MsgStdout {
				out = append(out, msg[1:]...)
			}
			if len(msg) > 0 && msg[0] == shell.MsgExit {
				exited = true
			}
		case <-sess.Done:
			for {
				select {
				case msg := <-sess.Receive:
					if len(msg) > 0 && msg[0] == shell.MsgStdout {
						out = append(out, msg[1:]...)
					}
					continue
				default:
				}
				break
			}
			break loop
		case <-deadline:
			break loop
		}
	}
	if !bytes.Equal(out, content) {
		e.c.Fail("bytes-not-delivered:shell", fmt.Sprintf("command printed %d bytes, client received %d", n, len(out)), nil)
	}
	o := e.evaluate("shell", []op{{"down", n}}, m, k0, canaries, nil, nil, false)
	sess.Close()
	e.settle()
	e.record(o)
	e.rec.trim()
}

// ---------------------------------------------------------------------------
// file transfer

func (e *env) fileTunnel() {
	a, d := e.mesh.Nodes[0].Agent, e.mesh.Nodes[3].Agent
	var canaries [][]byte
	n := e.c.Rand.Pick(1, 300, 16256, 16257, 50000, 200000)
	content := e.payload(n, &canaries)
	dir := filepath.Join(e.scratch, "files")
	os.MkdirAll(dir, 0o755)
	// the remote path travels in the transfer metadata: it carries an ASCII canary
	nameCanary := fmt.Sprintf("%x", e.c.Rand.Bytes(16))
	canaries = append(canaries, []byte(nameCanary))
	local, remote, back := filepath.Join(dir, "up.bin"), filepath.Join(dir, "remote-"+nameCanary+".bin"), filepath.Join(dir, "back.bin")
	defer os.Remove(remote)
	os.Remove(remote)
	os.Remove(back)
	if err := os.WriteFile(local, content, 0o644); err != nil {
		panic(err)
	}
	ctx, cancel := context.WithTimeout(context.Background(), 120*time.Second)
	defer cancel()

	m, k0 := e.rec.mark(), e.keyCount()
	err := a.UploadFile(ctx, d.ID(), local, remote, health.TransferOptions{}, nil)
	var got []byte
	if err == nil {
		tunnelmesh.WaitFor(20*time.Second, func() bool { got, _ = os.ReadFile(remote); return bytes.Equal(got, content) })
	}
	if err != nil || !bytes.Equal(got, content) {
		e.c.Fail("bytes-not-delivered:file-up", fmt.Sprintf("upload %d bytes: err=%v remote=%d", n, err, len(got)), nil)
	}
	o := e.evaluate("file", []op{{"up", n}}, m, k0, canaries, nil, nil, false)
	e.settle()
	e.record(o)
	e.rec.trim()

	if err == nil {
		m, k0 = e.rec.mark(), e.keyCount()
		err = a.DownloadFile(ctx, d.ID(), remote, back, health.TransferOptions{}, nil)
		got, _ = os.ReadFile(back)
		if err != nil || !bytes.Equal(got, content) {
			e.c.Fail("bytes-not-delivered:file-down", fmt.Sprintf("download %d bytes: err=%v local=%d", n, err, len(got)), nil)
		}
		o = e.evaluate("file", []op{{"down", n}}, m, k0, canaries, nil, nil, false)
		e.settle()
		e.record(o)
		e.rec.trim()
	}
}

// ---------------------------------------------------------------------------
// UDP

func (e *env) udpSend(base uint64, b []byte) error {
	port := uint16(e.udpEcho.LocalAddr().(*net.UDPAddr).Port)
	return e.mesh.Nodes[0].Agent.RelayUDPDatagram(base, nil, port, protocol.AddrTypeIPv4, []byte{127, 0, 0, 1}, b)
}

func (e *env) udpTunnel() {
	a := e.mesh.Nodes[0].Agent
	m, k0 := e.rec.mark(), e.keyCount()
	if e.tooManyOpenFailures("udp") {
		return
	}
	ctx, cancel := context.WithTimeout(context.Background(), 8*time.Second)
	defer cancel()
	base, err := a.CreateUDPAssociation(ctx, &net.UDPAddr{IP: net.IPv4(127, 0, 0, 1), Port: 40000})
	if err != nil {
		e.openFailed("udp")
		e.c.Fail("tunnel-open-failed", "udp: "+err.Error(), nil)
		return
	}
	var canaries [][]byte
	var ops []op
	var upApp, downApp []byte
	for i := 0; i < 1+e.c.Rand.Intn(4); i++ {
		n := e.c.Rand.Pick(1, 32, 33, 100, 512, 1400, 1472)
		b := e.payload(n, &canaries)
		for off := 0; off+32 <= n; off += 32 { // the reply is the reversed datagram: its canaries are the reversed ones
			canaries = append(canaries, reverse(b)[off:off+32])
		}
		seen := e.rec.count(m, func(ev tunnelmesh.FrameEvent) bool { return ev.From == 1 && ev.To == 0 && ev.Type == fUDPDatagram })
		if err := e.udpSend(base, b); err != nil {
			e.openFailed("udp")
			e.c.Fail("write-failed:udp", err.Error(), nil)
			break
		}
		if tunnelmesh.WaitFor(8*time.Second, func() bool {
			return e.rec.count(m, func(ev tunnelmesh.FrameEvent) bool { return ev.From == 1 && ev.To == 0 && ev.Type == fUDPDatagram }) > seen
		}) != nil {
			e.c.Fail("bytes-not-delivered:udp", fmt.Sprintf("no reply datagram for a %d byte datagram", n), nil)
			break
		}
		upApp = append(upApp, b...)
		downApp = append(downApp, reverse(b)...)
		ops = append(ops, op{"up", n}, op{"down", n})
	}
	o := e.evaluate("udp", ops, m, k0, canaries, upApp, downApp, true)
	a.CloseUDPAssociation(base)
	e.settle()
	e.record(o)
	e.rec.trim()
}

// yield is installed in package udp: the exit's readLoop calls it right after
// a datagram has been read from the socket.
func (e *env) yield(point string) {
	e.ymu.Lock()
	armed := e.armed
	e.armed = false
	rd, rel := e.readDone, e.release
	e.ymu.Unlock()
	if !armed || point != "udp.readLoop.after-read" {
		return
	}
	close(rd)
	<-rel
}

// udpRace forces the interleaving "reply datagram read from the socket, then
// the association is closed, then the reply is encrypted and sent".
func (e *env) udpRace() {
	a, d := e.mesh.Nodes[0].Agent, e.mesh.Nodes[3].Agent
	m, k0 := e.rec.mark(), e.keyCount()
	ctx, cancel := context.WithTimeout(context.Background(), 30*time.Second)
	defer cancel()
	base, err := a.CreateUDPAssociation(ctx, &net.UDPAddr{IP: net.IPv4(127, 0, 0, 1), Port: 40001})
	if err != nil {
		e.c.Fail("tunnel-open-failed", "udp-race: "+err.Error(), nil)
		return
	}
	var canaries [][]byte
	first := e.payload(64, &canaries)
	canaries = append(canaries, reverse(first)[:32], reverse(first)[32:64])
	if err := e.udpSend(base, first); err != nil {
		e.c.Fail("write-failed:udp", err.Error(), nil)
		return
	}
	down := func(ev tunnelmesh.FrameEvent) bool { return ev.From == 1 && ev.To == 0 && ev.Type == fUDPDatagram }
	tunnelmesh.WaitFor(20*time.Second, func() bool { return e.rec.count(m, down) >= 1 })
	// exit-side association: the stream id D knows it by is the one of the UDP_OPEN on the C -> D link
	var assoc *udp.Association
	for _, ev := range e.rec.since(m) {
		if ev.From == 2 && ev.To == 3 && ev.Type == fUDPOpen {
			assoc = d.VerifUDPHandler().GetAssociation(ev.StreamID)
		}
	}
	if assoc == nil {
		e.c.Fail("tunnel-open-failed", "udp-race: exit association not found", nil)
		return
	}
	e.ymu.Lock()
	e.armed, e.readDone, e.release = true, make(chan struct{}), make(chan struct{})
	rd, rel := e.readDone, e.release
	e.ymu.Unlock()
	late := e.payload(96, &canaries)
	for off := 0; off+32 <= 96; off += 32 {
		canaries = append(canaries, reverse(late)[off:off+32])
	}
	if err := e.udpSend(base, late); err != nil {
		e.c.Fail("write-failed:udp", err.Error(), nil)
		close(rel)
		return
	}
	select {
	case <-rd: // the reply has been read by the exit's readLoop, which is now parked
	case <-time.After(20 * time.Second):
		e.c.Fail("harness-yield-not-reached", "the exit never read the reply datagram", nil)
		close(rel)
		return
	}
	a.CloseUDPAssociation(base)
	tunnelmesh.WaitFor(20*time.Second, assoc.IsClosed)
	close(rel)
	// anything the exit still emits for the parked datagram appears at once
	time.Sleep(300 * time.Millisecond)
	ops := []op{{"up", 64}, {"down", 64}, {"up", 96}, {"close", 0}, {"late", 96}}
	o := e.evaluate("udp-race", ops, m, k0, canaries, nil, nil, false)
	e.settle()
	e.record(o)
	e.rec.trim()
}

// directAfterClose: Encrypt / Decrypt of the exit-side UDP association and
// ICMP session after Close (what the readLoop / waitForReply goroutines call
// when they lose the race).
func (e *env) directAfterClose() {
	var id identity.AgentID
	_, kR := keyPairFor(11)
	can := e.c.Rand.Bytes(48)
	as := udp.NewAssociation(5, 11, id)
	as.SetSessionKey(kR)
	ct, err := as.Encrypt(can)
	if err != nil || bytes.Contains(ct, can[:32]) || len(ct) != len(can)+28 {
		e.c.Fail("association-encrypt-not-sealing", "udp.Association.Encrypt with a key did not seal", nil)
	}
	as.Close()
	ct, err = as.Encrypt(can)
	if err == nil && bytes.Contains(ct, can[:32]) {
		e.c.Fail("plaintext-after-close:udp-association", "udp.Association.Encrypt returned the plaintext unchanged after Close", map[string]any{"kind": "udp-association"})
	}
	pt, err := as.Decrypt(can)
	if err == nil && bytes.Equal(pt, can) {
		e.c.Fail("plaintext-after-close:udp-association", "udp.Association.Decrypt accepted unauthenticated bytes after Close", map[string]any{"kind": "udp-association"})
	}
	e.c.Count("kind:direct-udp-association")

	_, kR2 := keyPairFor(12)
	s := icmp.NewSession(6, 12, id, net.IPv4(127, 0, 0, 1))
	s.SetSessionKey(kR2)
	ct, err = s.Encrypt(can)
	if err != nil || bytes.Contains(ct, can[:32]) || len(ct) != len(can)+28 {
		e.c.Fail("association-encrypt-not-sealing", "icmp.Session.Encrypt with a key did not seal", nil)
	}
	s.Close()
	ct, err = s.Encrypt(can)
	if err == nil && bytes.Contains(ct, can[:32]) {
		e.c.Fail("plaintext-after-close:icmp-session", "icmp.Session.Encrypt returned the plaintext unchanged after Close", map[string]any{"kind": "icmp-session"})
	}
	pt, err = s.Decrypt(can)
	if err == nil && bytes.Equal(pt, can) {
		e.c.Fail("plaintext-after-close:icmp-session", "icmp.Session.Decrypt accepted unauthenticated bytes after Close", map[string]any{"kind": "icmp-session"})
	}
	e.c.Count("kind:direct-icmp-session")
	// these derivations are the harness's own
	e.kmu.Lock()
	e.keys = nil
	e.kmu.Unlock()
}

func keyPairFor(req uint64) (initiator, responder *crypto.SessionKey) {
	aPriv, aPub, _ := crypto.GenerateEphemeralKeypair()
	bPriv, bPub, _ := crypto.GenerateEphemeralKeypair()
	s1, _ := crypto.ComputeECDH(aPriv, bPub)
	s2, _ := crypto.ComputeECDH(bPriv, aPub)
	return crypto.DeriveSessionKey(s1, req, aPub, bPub, true), crypto.DeriveSessionKey(s2, req, aPub, bPub, false)
}

// ---------------------------------------------------------------------------
// ICMP with the harness as the exit end behind the C -> D link

func (e *env) icmpFilter(ev tunnelmesh.FrameEvent) bool {
	if ev.From == 2 && ev.To == 3 && e.pseudoUDP.Load() && (ev.Type == fUDPOpen || ev.Type == fUDPDatagram || ev.Type == 0x34) {
		return true
	}
	return ev.From == 2 && ev.To == 3 && (ev.Type == fICMPOpen || ev.Type == fICMPEcho || ev.Type == fICMPClose)
}

// responderKeypair: the ephemeral pair the harness exit end answers with
// (random unless a sweep installed a chooser).
func (e *env) responderKeypair() (priv, pub [32]byte) {
	e.imu.Lock()
	f := e.respKeys
	e.imu.Unlock()
	if f != nil {
		return f()
	}
	priv, pub, _ = crypto.GenerateEphemeralKeypair()
	return
}

func (e *env) icmpTap(ev tunnelmesh.FrameEvent) {
	if ev.From != 2 || ev.To != 3 || ev.Injected {
		return
	}
	switch ev.Type {
	case fICMPOpen:
		open, err := protocol.DecodeICMPOpen(ev.Payload)
		if err != nil {
			return
		}
		priv, pub := e.responderKeypair()
		shared, err := crypto.ComputeECDH(priv, open.EphemeralPubKey)
		if err != nil {
			// the honest ingress always sends its ephemeral key: it was lost or damaged on the way
			e.c.Fail("open-arrived-without-usable-key:icmp", fmt.Sprintf("the ICMP_OPEN reached the exit end with ephemeral key %x (%v): an exit would run this session unencrypted", open.EphemeralPubKey[:8], err), map[string]any{"kind": "icmp"})
			oe := &protocol.ICMPOpenErr{RequestID: open.RequestID, ErrorCode: protocol.ErrGeneralFailure, Message: "no usable ephemeral key"}
			go e.mesh.Inject(3, 2, 0x42, 0, ev.StreamID, oe.Encode())
			return
		}
		key := crypto.DeriveSessionKey(shared, open.RequestID, open.EphemeralPubKey, pub, false)
		e.imu.Lock()
		e.icmpKey, e.icmpSID = key, ev.StreamID
		e.imu.Unlock()
		ack := &protocol.ICMPOpenAck{RequestID: open.RequestID, EphemeralPubKey: pub}
		go e.mesh.Inject(3, 2, fICMPOpenAck, 0, ev.StreamID, ack.Encode())
	case fICMPEcho:
		echo, err := protocol.DecodeICMPEcho(ev.Payload)
		if err != nil {
			return
		}
		e.imu.Lock()
		key := e.icmpKey
		e.imu.Unlock()
		if key == nil {
			return
		}
		// ICMP_ECHO frames take the transits' parallel fast lane and may arrive in
		// any order: open with the raw AEAD, not with SessionKey.Decrypt (which
		// refuses counters older than the last one)
		pt, ok := aeadOpen([]keyRec{{key: key.VerifKeyBytes()}}, echo.Data)
		if !ok {
			e.c.Fail("payload-not-sealed:icmp", "an echo request does not open under the key agreed with the ingress", nil)
			return
		}
		e.imu.Lock()
		e.icmpGot = append(e.icmpGot, pt)
		e.imu.Unlock()
		ct, _ := key.Encrypt(reverse(pt))
		reply := &protocol.ICMPEcho{Identifier: echo.Identifier, Sequence: echo.Sequence, IsReply: true, SrcIP: []byte{127, 0, 0, 1}, Data: ct}
		go e.mesh.Inject(3, 2, fICMPEcho, 0, ev.StreamID, reply.Encode())
	}
}

func (e *env) icmpTunnel() {
	a, d := e.mesh.Nodes[0].Agent, e.mesh.Nodes[3].Agent
	m, k0 := e.rec.mark(), e.keyCount()
	e.imu.Lock()
	e.icmpKey, e.icmpGot = nil, nil
	e.imu.Unlock()
	if e.tooManyOpenFailures("icmp") {
		return
	}
	ctx, cancel := context.WithTimeout(context.Background(), 8*time.Second)
	defer cancel()
	// two ingress paths: the SOCKS5 ICMP association (CreateICMPSession /
	// RelayICMPEcho) and the WebSocket ping session (OpenICMPSession)
	ws := e.c.Rand.Chance(1, 2)
	var sid uint64
	var sess *health.ICMPSession
	var err error
	if ws {
		sess, err = a.OpenICMPSession(ctx, d.ID(), net.IPv4(127, 0, 0, 1))
	} else {
		sid, err = a.CreateICMPSession(ctx, net.IPv4(127, 0, 0, 1))
	}
	if err != nil {
		e.openFailed("icmp")
		e.c.Fail("tunnel-open-failed", "icmp: "+err.Error(), nil)
		return
	}
	var canaries [][]byte
	var ops []op
	var upApp, downApp []byte
	for i := 0; i < 1+e.c.Rand.Intn(3); i++ {
		n := e.c.Rand.Pick(32, 56, 64, 1000, 1472)
		b := e.payload(n, &canaries)
		for off := 0; off+32 <= n; off += 32 {
			canaries = append(canaries, reverse(b)[off:off+32])
		}
		reply := func(ev tunnelmesh.FrameEvent) bool { return ev.From == 1 && ev.To == 0 && ev.Type == fICMPEcho }
		seen := e.rec.count(m, reply)
		if ws {
			select {
			case sess.SendEcho <- &health.ICMPEchoRequest{Identifier: 7, Sequence: uint16(i), Payload: b}:
			case <-time.After(8 * time.Second):
				err = fmt.Errorf("send channel blocked")
			}
		} else {
			err = a.RelayICMPEcho(sid, 7, uint16(i), b)
		}
		if err != nil {
			e.c.Fail("write-failed:icmp", err.Error(), nil)
			break
		}
		if tunnelmesh.WaitFor(8*time.Second, func() bool { return e.rec.count(m, reply) > seen }) != nil {
			e.c.Fail("bytes-not-delivered:icmp", "no echo reply reached the ingress", nil)
			break
		}
		if ws {
			// the ingress application gets the reply in the clear
			select {
			case r := <-sess.ReceiveEcho:
				if r.Error != "" || !bytes.Equal(r.Payload, reverse(b)) {
					e.c.Fail("bytes-not-delivered:icmp", fmt.Sprintf("ping session got a wrong reply (%d bytes, error %q)", len(r.Payload), r.Error), nil)
				}
			case <-time.After(8 * time.Second):
				e.c.Fail("bytes-not-delivered:icmp", "the ping session did not deliver the reply", nil)
			}
		}
		upApp = append(upApp, b...)
		downApp = append(downApp, reverse(b)...)
		ops = append(ops, op{"up", n}, op{"down", n})
	}
	e.imu.Lock()
	got := bytes.Join(e.icmpGot, nil)
	e.imu.Unlock()
	if !bytes.Equal(got, upApp) {
		e.c.Fail("bytes-not-delivered:icmp", fmt.Sprintf("exit end recovered %d bytes, %d sent", len(got), len(upApp)), nil)
	}
	o := e.evaluate("icmp", ops, m, k0, canaries, upApp, downApp, true)
	if ws {
		sess.Close()
		e.c.Count("icmp-ingress:websocket-session")
	} else {
		a.CloseICMPSession(sid)
		e.c.Count("icmp-ingress:socks5-association")
	}
	e.settle()
	e.record(o)
	e.rec.trim()
}
