package main

// The UDP ingress never sends a datagram for an association whose key exchange
// has not completed successfully.
//
// heldOpenAck (real time, real exit D): the UDP_OPEN_ACK of a fresh per-exit
// association is held on the B -> A link while further datagrams are submitted
// on the same SOCKS5 association. Nothing may leave the ingress before the ACK
// has been processed, and everything that leaves must be sealed.

import (
	"bytes"
	"context"
	"fmt"
	"net"
	"sync"
	"time"

	"github.com/postalsys/muti-metroo/verifharness/tunnelmesh"
)

func (e *env) heldOpenAck() {
	a := e.mesh.Nodes[0].Agent
	for rep := 0; rep < e.c.N(2, 10); rep++ {
		m, k0 := e.rec.mark(), e.keyCount()
		ctx, cancel := context.WithTimeout(context.Background(), 8*time.Second)
		base, err := a.CreateUDPAssociation(ctx, &net.UDPAddr{IP: net.IPv4(127, 0, 0, 1), Port: 40003})
		cancel()
		if err != nil {
			e.c.Fail("tunnel-open-failed", "udp (held ack): "+err.Error(), nil)
			return
		}
		held, release := make(chan struct{}), make(chan struct{})
		var once sync.Once
		gate := func(ev tunnelmesh.FrameEvent) {
			if ev.From == 1 && ev.To == 0 && ev.Type == 0x31 {
				first := false
				once.Do(func() { first = true })
				if first {
					close(held)
					<-release
				}
			}
		}
		e.gate.Store(&gate)
		var canaries [][]byte
		n := 1 + e.c.Rand.Intn(3)
		datagrams := [][]byte{e.payload(64, &canaries)}
		var wg sync.WaitGroup
		wg.Add(1)
		go func() { defer wg.Done(); e.udpSend(base, datagrams[0]) }()
		select {
		case <-held:
		case <-time.After(8 * time.Second):
			e.gate.Store(nil)
			e.c.Fail("harness-yield-not-reached", "the UDP_OPEN_ACK never came back to the ingress link", nil)
			close(release)
			return
		}
		// the open is in flight, its ACK has not reached the ingress: more datagrams on the same association
		for i := 0; i < n; i++ {
			d := e.payload(100+i, &canaries)
			datagrams = append(datagrams, d)
			wg.Add(1)
			go func() { defer wg.Done(); e.udpSend(base, d) }()
		}
		time.Sleep(150 * time.Millisecond)
		upData := func(ev tunnelmesh.FrameEvent) bool { return ev.From == 0 && ev.To == 1 && ev.Type == fUDPDatagram }
		early := e.rec.count(m, upData)
		close(release)
		e.gate.Store(nil)
		wg.Wait()
		tunnelmesh.WaitFor(5*time.Second, func() bool { return e.rec.count(m, upData) >= len(datagrams) })
		replay := map[string]any{"kind": "held-open-ack"}
		if early > 0 {
			e.c.Fail("datagram-sent-before-key-exchange-completed:udp", fmt.Sprintf("%d datagram(s) left the ingress while the UDP_OPEN_ACK of their association had not yet reached it", early), replay)
		}
		keys := e.keysSince(k0)
		for _, ev := range e.rec.since(m) {
			if !upData(ev) {
				continue
			}
			for _, can := range canaries {
				if bytes.Contains(ev.Payload, can) {
					e.c.Fail("canary-visible-to-transit:held-open-ack", "a datagram submitted while the association was still opening crossed the ingress -> transit link in the clear", replay)
				}
			}
			if part, ok := sealedPart(ev); ok {
				if _, ok := aeadOpen(keys, part); !ok {
					e.c.Fail("payload-not-sealed:held-open-ack", fmt.Sprintf("a %d byte datagram payload on the ingress -> transit link does not open under the association's key", len(part)), replay)
				}
			}
		}
		a.CloseUDPAssociation(base)
		e.settle()
		e.rec.trim()
		e.c.Count("held-open-ack")
	}
	e.kmu.Lock()
	e.keys = nil
	e.kmu.Unlock()
}
