package main

// Built as a test binary (spec: "harness_kind": "test") so that
// testing/synctest is available: the UDP ingress gives up on an open after a
// fixed 30 s; in a bubble that wait costs nothing.

import (
	"bytes"
	"context"
	"fmt"
	"net"
	"sync"
	"sync/atomic"
	"testing"
	"testing/synctest"
	"time"

	"github.com/postalsys/muti-metroo/internal/config"
	"github.com/postalsys/muti-metroo/internal/crypto"
	"github.com/postalsys/muti-metroo/internal/protocol"
	"github.com/postalsys/muti-metroo/verifharness/tunnelmesh"
)

func TestVerif(t *testing.T) {
	virtualTime = func(e *env) {
		synctest.Test(t, func(t *testing.T) { e.timedOutOpen() })
	}
	runHarness()
}

// timedOutOpen: own mesh A - B - D inside the bubble (no sockets: the harness
// is the exit end behind the B -> D link). The first UDP_OPEN is never
// answered: the ingress' send gives up after its 30 s. Afterwards the exit end
// answers opens again, and a late ACK for the abandoned open is delivered too.
// Datagrams submitted then must be sealed (a fresh, successful key exchange)
// or not sent at all.
func (e *env) timedOutOpen() {
	mesh, err := tunnelmesh.New(3, e.scratch, func(i int, cfg *config.Config) {
		if i == 2 {
			cfg.Exit.Enabled = true
			cfg.Exit.Routes = []string{"0.0.0.0/0"}
		}
	})
	if err != nil {
		e.c.Fail("harness-setup", "bubble mesh: "+err.Error(), nil)
		return
	}
	defer mesh.Close()
	var mu sync.Mutex
	var upData [][]byte // UDP_DATAGRAM payloads on A -> B
	var answer atomic.Bool
	type pend struct {
		sid  uint64
		open *protocol.UDPOpen
	}
	var unanswered []pend
	keys := []keyRec{}
	reply := func(p pend) {
		priv, pub, _ := crypto.GenerateEphemeralKeypair()
		shared, err := crypto.ComputeECDH(priv, p.open.EphemeralPubKey)
		if err != nil {
			return
		}
		k := crypto.DeriveSessionKey(shared, p.open.RequestID, p.open.EphemeralPubKey, pub, false)
		mu.Lock()
		keys = append(keys, keyRec{key: k.VerifKeyBytes()})
		mu.Unlock()
		ack := &protocol.UDPOpenAck{RequestID: p.open.RequestID, BoundAddrType: protocol.AddrTypeIPv4, BoundAddr: []byte{127, 0, 0, 1}, BoundPort: 9, EphemeralPubKey: pub}
		mesh.Inject(2, 1, 0x31, 0, p.sid, ack.Encode())
	}
	mesh.SetFilter(func(ev tunnelmesh.FrameEvent) bool {
		return ev.From == 1 && ev.To == 2 && (ev.Type == fUDPOpen || ev.Type == fUDPDatagram || ev.Type == 0x34)
	})
	mesh.SetTap(func(ev tunnelmesh.FrameEvent) {
		if ev.Injected {
			return
		}
		if ev.From == 0 && ev.To == 1 && ev.Type == fUDPDatagram {
			mu.Lock()
			upData = append(upData, ev.Payload)
			mu.Unlock()
		}
		if ev.From == 1 && ev.To == 2 && ev.Type == fUDPOpen {
			if open, err := protocol.DecodeUDPOpen(ev.Payload); err == nil {
				p := pend{ev.StreamID, open}
				if answer.Load() {
					go reply(p)
				} else {
					mu.Lock()
					unanswered = append(unanswered, p)
					mu.Unlock()
				}
			}
		}
	})
	if err := mesh.Chain(); err != nil {
		e.c.Fail("harness-setup", "bubble mesh: "+err.Error(), nil)
		return
	}
	a := mesh.Nodes[0].Agent
	if tunnelmesh.WaitFor(30*time.Second, func() bool {
		for _, r := range a.GetRoutes() {
			if r.Network.String() == "0.0.0.0/0" {
				return true
			}
		}
		return false
	}) != nil {
		e.c.Fail("harness-setup", "bubble mesh: no route", nil)
		return
	}
	base, err := a.CreateUDPAssociation(context.Background(), &net.UDPAddr{IP: net.IPv4(127, 0, 0, 1), Port: 40004})
	if err != nil {
		e.c.Fail("tunnel-open-failed", "udp (bubble): "+err.Error(), nil)
		return
	}
	send := func(b []byte) error {
		return a.RelayUDPDatagram(base, nil, 9, protocol.AddrTypeIPv4, []byte{127, 0, 0, 1}, b)
	}
	var canaries [][]byte
	t0 := time.Now()
	err1 := send(e.payload(64, &canaries)) // nobody answers: gives up after the ingress' own timeout
	waited := time.Since(t0)
	replay := map[string]any{"kind": "timed-out-open", "first_send_error": fmt.Sprint(err1), "virtual_wait": waited.String()}
	if err1 == nil {
		e.c.Fail("datagram-sent-before-key-exchange-completed:udp", "a datagram was accepted for sending although the association's UDP_OPEN was never acknowledged", replay)
	}
	// the exit end is reachable again; the ACK of the abandoned open arrives late
	answer.Store(true)
	mu.Lock()
	late := append([]pend(nil), unanswered...)
	mu.Unlock()
	for _, p := range late {
		reply(p)
	}
	time.Sleep(200 * time.Millisecond)
	for i := 0; i < 3; i++ {
		send(e.payload(80+i, &canaries))
		time.Sleep(50 * time.Millisecond)
	}
	time.Sleep(time.Second)
	mu.Lock()
	frames, ks := append([][]byte(nil), upData...), append([]keyRec(nil), keys...)
	mu.Unlock()
	for _, pl := range frames {
		for _, can := range canaries {
			if bytes.Contains(pl, can) {
				e.c.Fail("canary-visible-to-transit:timed-out-open", fmt.Sprintf("after a UDP open that timed out (%v virtual), a later datagram to the same exit crossed the ingress -> transit link in the clear", waited), replay)
			}
		}
		if d, err := protocol.DecodeUDPDatagram(pl); err == nil {
			if _, ok := aeadOpen(ks, d.Data); !ok {
				e.c.Fail("payload-not-sealed:timed-out-open", fmt.Sprintf("a %d byte datagram payload sent after a timed-out open does not open under any key the exit end agreed", len(d.Data)), replay)
			}
		}
	}
	e.c.Res.Extra["timed_out_open_virtual_wait"] = waited.String()
	e.c.Res.Extra["timed_out_open_datagrams_after"] = len(frames)
	a.CloseUDPAssociation(base)
	e.c.Count("timed-out-open")
}
