// c26: correspondence and monitor harness for C26 (file transfer and browsing
// stay inside the allowed paths).
//
// Implementation under test: filetransfer.StreamHandler — ValidateUploadMetadata
// + WriteUploadedFile, ValidateDownloadMetadata + ReadFileForDownload, and
// Browse (list, stat, chmod, delete) — on a real scratch tree that contains an
// allowed area, an outside area and symbolic links between them at several
// depths.  The scratch root is the model's "/": request paths and allowed
// patterns are given to the model with the scratch prefix removed (every
// lexical check of the code is invariant under a common literal prefix).
package main

import (
	"archive/tar"
	"bytes"
	"compress/gzip"
	"fmt"
	"io"
	"os"
	"path/filepath"
	"sort"
	"strings"
	"syscall"

	"github.com/postalsys/muti-metroo/internal/filetransfer"
	"github.com/postalsys/muti-metroo/verifharness/fsutil"
	"github.com/postalsys/muti-metroo/verifharness/vh"
)

type node struct {
	Path   string `json:"path"`
	Kind   string `json:"kind"` // dir | file | sym
	Data   string `json:"data,omitempty"`
	Target string `json:"target,omitempty"` // "@/x" = absolute inside the scratch root
}

type request struct {
	Op        string `json:"op"`   // upload | download | list | stat | chmod | delete
	Path      string `json:"path"` // "@" stands for the scratch root
	Data      string `json:"data,omitempty"`
	Mode      string `json:"mode,omitempty"`
	Recursive bool   `json:"recursive,omitempty"`
	// request metadata that is independent of what the path designates
	IsDir    bool  `json:"is_directory,omitempty"` // TransferMetadata.IsDirectory (upload: the data is a tar.gz of the single file u.txt)
	Compress bool  `json:"compress,omitempty"`     // TransferMetadata.Compress
	Offset   int64 `json:"offset,omitempty"`       // TransferMetadata.Offset (> 0: resume, ReadFileForDownloadAtOffset)
	// directory upload: name and kind (reg | cont = typeflag '7' | fifo | char) of the archive's single entry ("" = u.txt, reg)
	TarName string `json:"tar_name,omitempty"`
	TarKind string `json:"tar_kind,omitempty"`
}

type kase struct {
	Note    string   `json:"note,omitempty"`
	Tree    []node   `json:"tree"`
	Allowed []string `json:"allowed"` // "@" stands for the scratch root
	Req     request  `json:"req"`
	// requests carried out before Req on the SAME handler and tree (op "roots" included)
	Pre []request `json:"pre,omitempty"`
}

func baseTree() []node {
	return []node{
		{Path: "allowed", Kind: "dir"},
		{Path: "allowed/pub.txt", Kind: "file", Data: "PUB"},
		{Path: "allowed/sub", Kind: "dir"},
		{Path: "allowed/sub/deep.txt", Kind: "file", Data: "DEEP"},
		{Path: "outside", Kind: "dir"},
		{Path: "outside/secret.txt", Kind: "file", Data: "SECRET"},
		{Path: "outside/dir2", Kind: "dir"},
		{Path: "outside/dir2/s2.txt", Kind: "file", Data: "S2"},
		{Path: "allowed2", Kind: "dir"},
		{Path: "allowed2/x.txt", Kind: "file", Data: "X"},
		{Path: "allowedevil", Kind: "dir"},
		{Path: "allowedevil/e.txt", Kind: "file", Data: "E"},
	}
}

var optionalLinks = []node{
	{Path: "allowed/link", Kind: "sym", Target: "../outside"},
	{Path: "allowed/abs", Kind: "sym", Target: "@/outside"},
	{Path: "allowed/flink", Kind: "sym", Target: "../outside/secret.txt"},
	{Path: "allowed/inlink", Kind: "sym", Target: "sub"},
	{Path: "allowed/dangling", Kind: "sym", Target: "../outside/newfile"},
	{Path: "allowed/sub/up", Kind: "sym", Target: ".."},
	{Path: "allowed/sub/out2", Kind: "sym", Target: "../../outside/dir2"},
	{Path: "allowed/loop", Kind: "sym", Target: "loop"},
	{Path: "allowed/pubref", Kind: "sym", Target: "pub.txt"},
	{Path: "outside/back", Kind: "sym", Target: "../allowed"},
}

// link chains of two and three hops whose first hops point inside the allowed area
var linkChains = []node{
	{Path: "allowed/hop2", Kind: "sym", Target: "../outside/secret.txt"},
	{Path: "allowed/hop1", Kind: "sym", Target: "hop2"},
	{Path: "allowed/hop0", Kind: "sym", Target: "@/allowed/hop1"},
	{Path: "allowed/sub/dhop2", Kind: "sym", Target: "@/outside/dir2"},
	{Path: "allowed/dhop1", Kind: "sym", Target: "sub/dhop2"},
	{Path: "allowed/inhop2", Kind: "sym", Target: "pub.txt"},
	{Path: "allowed/inhop1", Kind: "sym", Target: "inhop2"},
}

func build(root string, nodes []node) {
	for _, n := range nodes {
		p := filepath.Join(root, n.Path)
		var err error
		switch n.Kind {
		case "dir":
			err = os.Mkdir(p, 0o755)
		case "file":
			err = os.WriteFile(p, []byte(n.Data), 0o644)
		case "sym":
			t := n.Target
			if strings.HasPrefix(t, "@") {
				t = root + t[1:]
			}
			err = os.Symlink(t, p)
		}
		if err != nil {
			panic(fmt.Sprintf("building tree: %v", err))
		}
	}
}

type obj struct {
	Path   string `json:"path"`
	Kind   string `json:"kind"`
	Data   string `json:"data,omitempty"`
	Target string `json:"target,omitempty"`
	Perm   uint32 `json:"perm"`
	Ino    uint64 `json:"ino"`
}

func snapshot(root string) []obj {
	var out []obj
	filepath.Walk(root, func(p string, info os.FileInfo, err error) error {
		if err != nil || p == root {
			return nil
		}
		rel, _ := filepath.Rel(root, p)
		o := obj{Path: rel, Perm: uint32(info.Mode().Perm())}
		if st, ok := info.Sys().(*syscall.Stat_t); ok {
			o.Ino = st.Ino
		}
		switch {
		case info.Mode()&os.ModeSymlink != 0:
			o.Kind = "sym"
			t, _ := os.Readlink(p)
			if strings.HasPrefix(t, root+"/") || t == root {
				t = "@" + t[len(root):]
			}
			o.Target = t
		case info.IsDir():
			o.Kind = "dir"
		default:
			o.Kind = "file"
			b, _ := os.ReadFile(p)
			o.Data = string(b)
		}
		out = append(out, o)
		return nil
	})
	sort.Slice(out, func(i, j int) bool { return out[i].Path < out[j].Path })
	return out
}

// ---------------------------------------------------------------------------
// running one request on the real handler

type result struct {
	Code    int    `json:"code"` // 0 done, 1 refused by validation, 2 failed later
	Msg     string `json:"msg,omitempty"`
	Payload string `json:"payload,omitempty"`
}

func expand(s, root string) string { return strings.ReplaceAll(s, "@", root) }

func entryString(e filetransfer.FileEntry, withSize bool) string {
	s := fmt.Sprintf("%s|dir=%v|sym=%v|%s", e.Name, e.IsDir, e.IsSymlink, e.LinkTarget)
	if withSize && !e.IsDir {
		s += fmt.Sprintf("|%d", e.Size)
	}
	return s
}

func validationText(msg string) bool {
	for _, t := range []string{"path contains dangerous characters", "path must be absolute", "directory traversal not allowed", "no paths are allowed",
		"path not in allowed list", "path is required", "symlink target not allowed", "cannot resolve symlink"} {
		if strings.Contains(msg, t) {
			return true
		}
	}
	return false
}

func gz(b []byte) []byte {
	var buf bytes.Buffer
	w := gzip.NewWriter(&buf)
	w.Write(b)
	w.Close()
	return buf.Bytes()
}

func tarOf(name, kind, data string) []byte {
	var buf bytes.Buffer
	zw := gzip.NewWriter(&buf)
	tw := tar.NewWriter(zw)
	h := &tar.Header{Name: name, Typeflag: tar.TypeReg, Mode: 0o644, Size: int64(len(data)), Format: tar.FormatPAX}
	switch kind {
	case "cont":
		h.Typeflag = tar.TypeCont
	case "fifo":
		h.Typeflag, h.Size = tar.TypeFifo, 0
	case "char":
		h.Typeflag, h.Size, h.Devmajor, h.Devminor = tar.TypeChar, 0, 1, 3
	}
	tw.WriteHeader(h)
	if h.Size > 0 {
		tw.Write([]byte(data))
	}
	tw.Close()
	zw.Close()
	return buf.Bytes()
}

func (r request) tarEntry() (string, string) {
	name, kind := r.TarName, r.TarKind
	if name == "" {
		name = "u.txt"
	}
	if kind == "" {
		kind = "reg"
	}
	return name, kind
}

// tarNames: the entry names of a tar.gz stream, sorted
func tarNames(b []byte) string {
	zr, err := gzip.NewReader(bytes.NewReader(b))
	if err != nil {
		return "?" + err.Error()
	}
	tr := tar.NewReader(zr)
	var names []string
	for {
		h, err := tr.Next()
		if err != nil {
			break
		}
		names = append(names, strings.TrimSuffix(h.Name, "/"))
	}
	sort.Strings(names)
	return strings.Join(names, ";")
}

func run(h *filetransfer.StreamHandler, root string, rq request) (res result) {
	path := expand(rq.Path, root)
	stripTargets := func(s string) string { return strings.ReplaceAll(s, root, "") }
	switch rq.Op {
	case "roots":
		resp := h.Browse(&filetransfer.BrowseRequest{Action: "roots"})
		if resp.Error != "" {
			code := 2
			if validationText(resp.Error) {
				code = 1
			}
			return result{Code: code, Msg: stripTargets(resp.Error)}
		}
		rs := make([]string, len(resp.Roots))
		for i, r := range resp.Roots {
			rs[i] = stripTargets(r)
			if rs[i] == "" {
				rs[i] = "/"
			}
		}
		return result{Payload: strings.Join(rs, ";")}
	case "upload":
		// as the agent does: ValidateUploadMetadata on the first frame, WriteUploadedFile with the metadata's fields at the end
		meta := &filetransfer.TransferMetadata{Path: path, Mode: 0o644, Size: int64(len(rq.Data)), IsDirectory: rq.IsDir, Compress: rq.Compress}
		if err := h.ValidateUploadMetadata(meta); err != nil {
			return result{Code: 1, Msg: stripTargets(err.Error())}
		}
		body := []byte(rq.Data)
		if rq.IsDir {
			n, kd := rq.tarEntry()
			body = tarOf(n, kd, rq.Data)
		} else if rq.Compress {
			body = gz(body)
		}
		if _, err := h.WriteUploadedFile(meta.Path, bytes.NewReader(body), meta.Mode, meta.IsDirectory, meta.Compress); err != nil {
			return result{Code: 2, Msg: stripTargets(err.Error())}
		}
		return result{}
	case "download":
		// as the agent does: ValidateDownloadMetadata on the first frame; Offset > 0 selects the resume entry point
		meta := &filetransfer.TransferMetadata{Path: path, IsDirectory: rq.IsDir, Compress: rq.Compress, Offset: rq.Offset}
		if err := h.ValidateDownloadMetadata(meta); err != nil {
			code := 2
			if validationText(err.Error()) {
				code = 1
			}
			return result{Code: code, Msg: stripTargets(err.Error())}
		}
		var r io.Reader
		var isDir bool
		var err error
		if meta.Offset > 0 {
			if _, serr := os.Stat(meta.Path); serr != nil {
				return result{Code: 2, Msg: stripTargets(serr.Error())}
			}
			r, _, _, isDir, err = h.ReadFileForDownloadAtOffset(meta.Path, meta.Offset, meta.Compress)
		} else {
			r, _, _, isDir, err = h.ReadFileForDownload(meta.Path, meta.Compress)
		}
		if err != nil {
			return result{Code: 2, Msg: stripTargets(err.Error())}
		}
		b, _ := io.ReadAll(r)
		if cl, ok := r.(io.Closer); ok {
			cl.Close()
		}
		if isDir {
			return result{Payload: "<directory>:" + tarNames(b)} // a tar.gz stream of the directory
		}
		if meta.Compress {
			zr, zerr := gzip.NewReader(bytes.NewReader(b))
			if zerr != nil {
				return result{Code: 2, Msg: "gunzip: " + zerr.Error()}
			}
			b, _ = io.ReadAll(zr)
		}
		return result{Payload: string(b)}
	default:
		resp := h.Browse(&filetransfer.BrowseRequest{Action: rq.Op, Path: path, Mode: rq.Mode, Recursive: rq.Recursive})
		if resp.Error != "" {
			code := 2
			if validationText(resp.Error) {
				code = 1
			}
			return result{Code: code, Msg: stripTargets(resp.Error)}
		}
		switch rq.Op {
		case "list":
			parts := make([]string, len(resp.Entries))
			for i, e := range resp.Entries {
				parts[i] = stripTargets(entryString(e, false))
			}
			return result{Payload: strings.Join(parts, ";")}
		default:
			if resp.Entry != nil {
				return result{Payload: stripTargets(entryString(*resp.Entry, rq.Op == "stat"))}
			}
		}
		return result{}
	}
}

// ---------------------------------------------------------------------------
// generators

var reqComps = []string{"allowed", "allowed", "sub", "link", "abs", "flink", "inlink", "dangling", "up", "out2", "loop", "pubref", "secret.txt", "dir2", "s2.txt",
	"pub.txt", "deep.txt", "new.txt", "newdir", "..", ".", "outside", "allowedevil", "allowed2", "x.txt", "back"}

var interesting = []string{"allowed", "allowed/pub.txt", "allowed/sub", "allowed/sub/deep.txt", "allowed/link", "allowed/link/secret.txt", "allowed/link/dir2",
	"allowed/link/dir2/s2.txt", "allowed/abs", "allowed/abs/secret.txt", "allowed/abs/dir2", "allowed/flink", "allowed/inlink", "allowed/inlink/deep.txt",
	"allowed/dangling", "allowed/sub/up", "allowed/sub/up/pub.txt", "allowed/sub/up/link/secret.txt", "allowed/sub/out2", "allowed/sub/out2/s2.txt",
	"allowed/loop", "allowed/pubref", "allowed/link/back", "allowed/link/back/pub.txt", "allowed/new.txt", "allowed/newdir/new.txt", "allowed/link/new.txt",
	"allowed/link/newdir/new.txt", "allowed/sub/new.txt", "allowed/hop1", "allowed/hop0", "allowed/dhop1", "allowed/dhop1/s2.txt", "allowed/inhop1", "allowed/hop2", "allowed/pub.txt/x", "allowed/link/..", "allowed/link/../outside/secret.txt", "allowed/sub/../pub.txt",
	"allowed/link/../allowed2/x.txt", "allowed/sub/up/../pub.txt", "allowed/sub/up/../outside/secret.txt", "allowed/sub/up/../allowed2/x.txt", "allowed/sub/up/../allowedevil/e.txt", "allowed/inlink/../pub.txt", "outside/secret.txt", "outside/back/pub.txt", "allowed2/x.txt", "allowedevil/e.txt", "allowed/a..b"}

func genPath(r *vh.Rand) string {
	if r.Chance(3, 5) {
		return "@/" + interesting[r.Intn(len(interesting))]
	}
	// paths that start in the allowed area and then wander
	n := 1 + r.Intn(4)
	parts := []string{}
	if r.Chance(5, 6) {
		parts = append(parts, "allowed")
	}
	for i := 0; i < n; i++ {
		parts = append(parts, reqComps[r.Intn(len(reqComps))])
	}
	s := "@/" + strings.Join(parts, "/")
	switch r.Intn(40) {
	case 0:
		s = strings.Join(parts, "/") // relative
	case 1:
		s = s + "/"
	case 2:
		s = strings.Replace(s, "/", "//", 1)
	case 3:
		s = s + "\x01"
	case 4:
		s = ""
	case 5:
		s = "@/allowed/../outside/secret.txt"
	case 6:
		s = "@/allowedevil/e.txt"
	}
	return s
}

func genAllowed(r *vh.Rand) []string {
	switch r.Intn(24) {
	case 0:
		return []string{}
	case 1, 2:
		return []string{"*"}
	case 3, 4:
		return []string{"@/allowed/**"}
	case 5:
		return []string{"@/allowed/*"}
	case 6:
		return []string{"@/allow?d"}
	case 7, 8:
		return []string{"@/allowed2", "@/allowed"}
	case 9:
		return []string{"@/nonexistent/**"}
	case 10:
		return []string{"@/allowed/sub"}
	case 11:
		return []string{"@/allowed/s*"}
	case 12:
		return []string{"@/allowed/"}
	case 13:
		return []string{"@/outside/../allowed"}
	case 14:
		return []string{"@/allowed/s*", "@/allowed2/x*"}
	case 15:
		return []string{"@/allowed/*/deep.txt"}
	case 16:
		return []string{"@/*/sub"}
	}
	return []string{"@/allowed"}
}

// insideScratch: the cleaned request stays strictly below the scratch root (the model's "/")
func insideScratch(p string) bool {
	if !strings.HasPrefix(p, "@") {
		return true // relative and empty paths are refused lexically
	}
	c := filepath.Clean("/R" + p[1:])
	return strings.HasPrefix(c, "/R/") // strictly below: the root itself has a real name the model does not know
}

func genCase(r *vh.Rand) kase {
	k := kase{Tree: baseTree(), Allowed: genAllowed(r)}
	if r.Chance(1, 2) { // multi-hop chains: every hop but the last stays inside the allowed area
		k.Tree = append(k.Tree, linkChains...)
	}
	for _, l := range optionalLinks {
		if r.Chance(3, 5) {
			k.Tree = append(k.Tree, l)
		}
	}
	ops := []string{"upload", "download", "list", "stat", "chmod", "delete", "delete"}
	k.Req = request{Op: ops[r.Intn(len(ops))], Path: genPath(r)}
	if !insideScratch(k.Req.Path) {
		k.Req.Path = "@/allowed/sub/../pub.txt"
	}
	switch k.Req.Op {
	case "upload":
		k.Req.Data = "UP"
	case "chmod":
		k.Req.Mode = []string{"0600", "0700", "0640", "", "9", "1777"}[r.Intn(6)]
		if r.Chance(4, 5) {
			k.Req.Mode = "0600"
		}
	case "delete":
		k.Req.Recursive = r.Chance(1, 2)
	}
	randomMeta(r, &k.Req)
	// histories on one handler: browse requests (roots first) and other operations before the request
	if r.Chance(1, 3) {
		n := 1 + r.Intn(2)
		for i := 0; i < n; i++ {
			var p request
			switch r.Intn(5) {
			case 0, 1:
				p = request{Op: "roots"}
			case 2:
				p = request{Op: "list", Path: "@/allowed"}
			case 3:
				p = request{Op: "stat", Path: genPath(r)}
			default:
				p = request{Op: []string{"upload", "download", "delete", "chmod"}[r.Intn(4)], Path: genPath(r), Data: "P", Mode: "0640"}
			}
			if p.Op != "roots" && !insideScratch(p.Path) {
				p.Path = "@/allowed/pub.txt"
			}
			k.Pre = append(k.Pre, p)
		}
	}
	return k
}

// randomMeta sets the metadata fields of a transfer request independently of what its path designates
func randomMeta(r *vh.Rand, rq *request) {
	switch rq.Op {
	case "download":
		rq.IsDir = r.Chance(1, 3)
		rq.Compress = r.Chance(1, 3)
		if r.Chance(1, 3) {
			rq.Offset = []int64{1, 2, 3, 6, 1000}[r.Intn(5)]
		}
	case "upload":
		rq.IsDir = r.Chance(1, 5)
		rq.Compress = r.Chance(1, 3)
		if rq.IsDir && r.Chance(2, 3) {
			// the archive's entry: named like objects (and links) that may exist in the target directory, of a common or a rare type
			rq.TarName = []string{"u.txt", "pub.txt", "flink", "link/x.txt", "dangling", "sub/deep.txt", "sub/up/evil.txt", "pubref", "inlink/n.txt", "hop1"}[r.Intn(10)]
			rq.TarKind = []string{"reg", "reg", "cont", "cont", "fifo", "char"}[r.Intn(6)]
		}
	}
}

func witnesses() []kase {
	links := append(baseTree(), optionalLinks...)
	a := []string{"@/allowed"}
	mk := func(note string, rq request) kase { return kase{Note: note, Tree: links, Allowed: a, Req: rq} }
	return []kase{
		mk("download through a link in a parent directory", request{Op: "download", Path: "@/allowed/link/secret.txt"}),
		mk("download through an absolute link in a parent directory", request{Op: "download", Path: "@/allowed/abs/secret.txt"}),
		mk("download with a link as the final component", request{Op: "download", Path: "@/allowed/flink"}),
		mk("download of a link to a directory with /. appended", request{Op: "download", Path: "@/allowed/link/."}),
		mk("download of a link to a directory with / appended", request{Op: "download", Path: "@/allowed/abs/"}),
		{Note: "download of a two-hop link chain inside -> inside -> outside", Tree: append(append(baseTree(), optionalLinks...), linkChains...), Allowed: a, Req: request{Op: "download", Path: "@/allowed/hop1"}},
		{Note: "download of a three-hop link chain (absolute first hop)", Tree: append(append(baseTree(), optionalLinks...), linkChains...), Allowed: a, Req: request{Op: "download", Path: "@/allowed/hop0"}},
		{Note: "download of a two-hop chain to an outside directory", Tree: append(append(baseTree(), optionalLinks...), linkChains...), Allowed: a, Req: request{Op: "download", Path: "@/allowed/dhop1"}},
		{Note: "download of a two-hop chain that stays inside", Tree: append(append(baseTree(), optionalLinks...), linkChains...), Allowed: a, Req: request{Op: "download", Path: "@/allowed/inhop1"}},
		mk("upload through a link in a parent directory", request{Op: "upload", Path: "@/allowed/link/evil.txt", Data: "UP"}),
		mk("upload onto a link as the final component", request{Op: "upload", Path: "@/allowed/flink", Data: "UP"}),
		mk("upload onto a dangling link", request{Op: "upload", Path: "@/allowed/dangling", Data: "UP"}),
		mk("upload creating directories through a link", request{Op: "upload", Path: "@/allowed/link/newdir/evil.txt", Data: "UP"}),
		mk("list through a link in a parent directory", request{Op: "list", Path: "@/allowed/link/dir2"}),
		mk("list a link as the final component", request{Op: "list", Path: "@/allowed/link"}),
		mk("stat through a link in a parent directory", request{Op: "stat", Path: "@/allowed/link/secret.txt"}),
		mk("stat a link as the final component", request{Op: "stat", Path: "@/allowed/flink"}),
		mk("chmod through a link in a parent directory", request{Op: "chmod", Path: "@/allowed/link/secret.txt", Mode: "0600"}),
		mk("chmod a link as the final component", request{Op: "chmod", Path: "@/allowed/flink", Mode: "0600"}),
		mk("delete through a link in a parent directory", request{Op: "delete", Path: "@/allowed/link/secret.txt"}),
		mk("recursive delete through a link in a parent directory", request{Op: "delete", Path: "@/allowed/link/dir2", Recursive: true}),
		mk("delete a link to a directory", request{Op: "delete", Path: "@/allowed/link", Recursive: true}),
		{Note: "upload below an allowed root that does not exist yet", Tree: links, Allowed: []string{"@/nonexistent/deep"}, Req: request{Op: "upload", Path: "@/nonexistent/deep/f.txt", Data: "UP"}},
		mk("download of a link with is_directory set in the request", request{Op: "download", Path: "@/allowed/flink", IsDir: true}),
		mk("compressed download of a link with is_directory set", request{Op: "download", Path: "@/allowed/flink", IsDir: true, Compress: true}),
		mk("download of a directory link with is_directory set", request{Op: "download", Path: "@/allowed/link", IsDir: true}),
		mk("resume download: '..' after a link to a shallower directory", request{Op: "download", Path: "@/allowed/sub/up/../outside/secret.txt", Offset: 2}),
		mk("resume download through a link in a parent directory", request{Op: "download", Path: "@/allowed/link/secret.txt", Offset: 3}),
		mk("resume download of a final-component link", request{Op: "download", Path: "@/allowed/flink", Offset: 1}),
		mk("compressed download", request{Op: "download", Path: "@/allowed/sub/deep.txt", Compress: true}),
		mk("resume download", request{Op: "download", Path: "@/allowed/sub/deep.txt", Offset: 2, Compress: true}),
		mk("directory download (tar stream)", request{Op: "download", Path: "@/allowed", IsDir: true}),
		mk("directory upload", request{Op: "upload", Path: "@/allowed/updir", Data: "UP", IsDir: true}),
		mk("directory upload through a link", request{Op: "upload", Path: "@/allowed/link/updir", Data: "UP", IsDir: true}),
		mk("directory upload whose entry is named like a link that leaves the allowed area", request{Op: "upload", Path: "@/allowed", Data: "UP", IsDir: true, TarName: "flink"}),
		mk("directory upload: contiguous-file entry (typeflag 7) named like such a link", request{Op: "upload", Path: "@/allowed", Data: "UP", IsDir: true, TarName: "flink", TarKind: "cont"}),
		mk("directory upload: typeflag 7 onto a dangling link", request{Op: "upload", Path: "@/allowed", Data: "UP", IsDir: true, TarName: "dangling", TarKind: "cont"}),
		mk("directory upload: typeflag 7 below a link", request{Op: "upload", Path: "@/allowed", Data: "UP", IsDir: true, TarName: "link/x.txt", TarKind: "cont"}),
		mk("directory upload: character device / fifo entries", request{Op: "upload", Path: "@/allowed/sub", Data: "", IsDir: true, TarName: "flink", TarKind: "char"}),
		mk("compressed upload", request{Op: "upload", Path: "@/allowed/z.txt", Data: "UP", Compress: true}),
		{Note: "roots, then a request under a pattern's base that the pattern does not match", Tree: links, Allowed: []string{"@/allowed/s*"}, Pre: []request{{Op: "roots"}}, Req: request{Op: "download", Path: "@/allowed/pub.txt"}},
		{Note: "roots with two glob patterns, then delete under a base", Tree: links, Allowed: []string{"@/allowed2/x*", "@/allowed/s*"}, Pre: []request{{Op: "roots"}, {Op: "list", Path: "@/allowed"}}, Req: request{Op: "delete", Path: "@/allowed/pub.txt"}},
		{Note: "roots with a glob in the middle, then upload next to the match", Tree: links, Allowed: []string{"@/*/sub"}, Pre: []request{{Op: "roots"}, {Op: "roots"}}, Req: request{Op: "upload", Path: "@/outside/new.txt", Data: "UP"}},
		{Note: "roots on '*'", Tree: links, Allowed: []string{"*"}, Pre: []request{{Op: "roots"}}, Req: request{Op: "stat", Path: "@/outside/secret.txt"}},
		mk("lexical traversal", request{Op: "download", Path: "@/allowed/../outside/secret.txt"}),
		mk("prefix bypass", request{Op: "download", Path: "@/allowedevil/e.txt"}),
		{Note: "empty allow list", Tree: links, Allowed: []string{}, Req: request{Op: "download", Path: "@/allowed/pub.txt"}},
		mk("ordinary download", request{Op: "download", Path: "@/allowed/sub/deep.txt"}),
		mk("ordinary upload", request{Op: "upload", Path: "@/allowed/newdir/n.txt", Data: "UP"}),
		mk("ordinary list", request{Op: "list", Path: "@/allowed"}),
	}
}

// ---------------------------------------------------------------------------
// monitor

// allowedLexically: is the (real, link-free) path p inside the configured
// allowed paths?  This is the monitor's own reading of the configuration
// format (prefix, "/**", glob on the path or one of its ancestors, "*"),
// independent of the code under test, so that a defect in the code's
// matching rule is seen as well.
func allowedLexically(allowed []string, p string) bool {
	p = filepath.Clean(p)
	under := func(path, root string) bool {
		return path == root || strings.HasPrefix(path, strings.TrimSuffix(root, "/")+"/")
	}
	for _, pat := range allowed {
		if pat == "*" {
			return true
		}
		cp := filepath.Clean(pat)
		switch {
		case strings.HasSuffix(cp, "/**"):
			if under(p, strings.TrimSuffix(cp, "/**")) {
				return true
			}
		case strings.ContainsAny(cp, "*?["):
			for d := p; d != "/" && d != "."; d = filepath.Dir(d) {
				if ok, err := filepath.Match(cp, d); err == nil && ok {
					return true
				}
			}
		default:
			if filepath.IsAbs(cp) && under(p, cp) {
				return true
			}
		}
	}
	return false
}

// realPath resolves all links of the longest existing prefix of p.
func realPath(p string) string { return realPathN(p, 0) }

func realPathN(p string, depth int) string {
	p = filepath.Clean(p)
	if depth > 45 {
		return p
	}
	rest := ""
	cur := p
	for {
		if r, err := filepath.EvalSymlinks(cur); err == nil {
			return filepath.Join(r, rest)
		}
		// a dangling link as last existing component: follow its text once
		if fi, err := os.Lstat(cur); err == nil && fi.Mode()&os.ModeSymlink != 0 {
			if t, err := os.Readlink(cur); err == nil {
				if !filepath.IsAbs(t) {
					t = filepath.Join(filepath.Dir(cur), t)
				}
				return filepath.Join(realPathN(t, depth+1), rest)
			}
		}
		parent := filepath.Dir(cur)
		if parent == cur {
			return p
		}
		rest = filepath.Join(filepath.Base(cur), rest)
		cur = parent
	}
}

// linkPosition: where the first symbolic link sits on the (cleaned) request path
func linkPosition(root, p string) string {
	p = filepath.Clean(p)
	rel, err := filepath.Rel(root, p)
	if err != nil || strings.HasPrefix(rel, "..") {
		return "lexical"
	}
	parts := strings.Split(rel, "/")
	cur := root
	for i, part := range parts {
		cur = filepath.Join(cur, part)
		fi, err := os.Lstat(cur)
		if err != nil {
			return "lexical"
		}
		if fi.Mode()&os.ModeSymlink != 0 {
			if i == len(parts)-1 {
				return "final-link"
			}
			return "parent-link"
		}
	}
	return "lexical"
}

func main() {
	c := vh.Start("C26")
	defer c.Finish()
	c.Res.Rule = "case = a history of 1-3 requests on one handler (upload file/directory, download incl. compressed, resume and directory downloads, list, stat, chmod, delete, roots; metadata fields varied independently of the tree) with one allowed_paths configuration on a scratch tree with an allowed area, " +
		"an outside area and symbolic links between them; verdict, result, returned data and the complete resulting tree are compared with the model; " +
		"non-trivial = the request passes the lexical validation; distinct = distinct (tree, config, request)"

	var cases []kase
	if c.Replay != "" {
		var k kase
		if err := c.ReadReplay(&k); err != nil {
			panic(err)
		}
		cases = []kase{k}
	} else {
		cases = append(witnesses(), boundaryCases(c.Thorough())...)
		rnd := c.Rand.Fork()
		n := c.N(380, 15000)
		for i := 0; i < n; i++ {
			cases = append(cases, genCase(rnd))
		}
	}
	base, err := os.MkdirTemp("", "c26-")
	if err != nil {
		panic(err)
	}
	defer os.RemoveAll(base)

	var coq []string
	for i, k := range cases {
		root := filepath.Join(base, fmt.Sprintf("w%d", i))
		if err := os.Mkdir(root, 0o755); err != nil {
			panic(err)
		}
		build(root, k.Tree)
		allowed := make([]string, len(k.Allowed))
		for j, a := range k.Allowed {
			allowed[j] = expand(a, root)
		}
		// the monitor keeps its own copy of the configuration: the handler is given a slice it may (must not) write to
		orig := append([]string{}, allowed...)
		h := filetransfer.NewStreamHandler(filetransfer.StreamConfig{Enabled: true, AllowedPaths: allowed})
		steps := append(append([]request{}, k.Pre...), k.Req)
		first := snapshot(root)
		before := first
		var stepTerms []string
		var results []result
		nontrivial := false
		for si, rq := range steps {
			kk := k // the failing history: the steps up to and including this one
			kk.Pre, kk.Req = steps[:si], rq
			reqPath := expand(rq.Path, root)
			// what the request really designates, computed before it runs
			real := realPath(reqPath)
			pos := linkPosition(root, reqPath)
			if rq.Op == "download" && pos == "final-link" && (strings.HasSuffix(reqPath, "/.") || strings.HasSuffix(reqPath, "/")) {
				// "link/." and "link/" make Lstat follow the link, so validateSymlinkTarget sees a directory, not a link
				pos = "final-link-via-trailing-dot"
			}
			var res result
			pan := vh.Recover(func() { res = run(h, root, rq) })
			after := snapshot(root)
			results = append(results, res)
			c.Count(fmt.Sprintf("op/%s/code=%d", rq.Op, res.Code))
			if rq.IsDir || rq.Compress || rq.Offset > 0 {
				c.Count(fmt.Sprintf("meta/%s/dir=%v,gz=%v,off=%v", rq.Op, rq.IsDir, rq.Compress, rq.Offset > 0))
			}
			if res.Code != 1 {
				nontrivial = true
			}
			if pan != "" {
				c.Fail("filetransfer-panic", rq.Op+" panicked: "+pan, kk)
			}
			// ---- monitor: a request that was carried out touched `real`; that object must be allowed (by the ORIGINAL configuration)
			escaped := false
			if rq.Op != "roots" {
				if res.Code == 0 && !allowedLexically(orig, real) {
					escaped = true
					sig := fmt.Sprintf("ft-escape:%s:%s", rq.Op, pos)
					if len(orig) == 0 {
						sig = "ft-empty-allowlist-touched:" + rq.Op
					}
					c.Fail(sig, fmt.Sprintf("%s %s was carried out on %s, which is outside allowed_paths %v", rq.Op, rq.Path, strings.TrimPrefix(real, root), k.Allowed), kk)
				}
				// effects outside every allowed area (independent of the resolution above)
				diffOutside(c, kk, orig, root, before, after, res, pos)
				if len(orig) == 0 && res.Code == 0 {
					c.Fail("ft-empty-allowlist-touched:"+rq.Op, "a request was carried out although allowed_paths is empty", kk)
				}
			}
			if (rq.Op == "download" || rq.Op == "list" || rq.Op == "stat" || rq.Op == "roots") && !sameTree(before, after) {
				c.Fail("ft-read-request-changed-tree", rq.Op+" changed the file system", kk)
			}
			// the configuration the handler was given is still what it was
			for j := range orig {
				if allowed[j] != orig[j] {
					c.Fail("ft-policy-changed-by-request", fmt.Sprintf("after %s %s the handler's allowed_paths[%d] reads %q instead of %q", rq.Op, rq.Path, j,
						strings.ReplaceAll(allowed[j], root, "@"), strings.ReplaceAll(orig[j], root, "@")), kk)
					break
				}
			}
			chmodded := ""
			bm := map[string]obj{}
			for _, o := range before {
				bm[o.Path] = o
			}
			for _, o := range after {
				if b, ok := bm[o.Path]; ok && b.Perm != o.Perm && o.Kind != "sym" {
					chmodded = o.Path
				}
			}
			stepTerms = append(stepTerms, fmt.Sprintf("(%s, (%d%%N, %s, %s, %s))", coqReq(rq), res.Code, in.S(res.Payload), in.S(chmodded), vh.CoqBool(escaped)))
			before = after
		}
		os.RemoveAll(root)
		rep := map[string]any{"note": k.Note, "tree": k.Tree, "allowed": k.Allowed, "pre": k.Pre, "req": k.Req, "results": results}
		c.Case(fmt.Sprintf("%v|%v|%v|%v", k.Tree, k.Allowed, k.Pre, k.Req), nontrivial, rep)
		if len(steps) > 1 {
			c.Count(fmt.Sprintf("history-length/%d", len(steps)))
		}
		// an unchanged tree is not sent to the model (which must then report an unchanged state as well)
		final := "(Some " + coqSnap(before) + ")"
		if sameTree(first, before) {
			final = "None"
		}
		coq = append(coq, fmt.Sprintf("FCase %s %s %s %s", coqTree(k.Tree), coqStrs(stripAt(k.Allowed)), vh.CoqList(stepTerms), final))
	}

	var sb strings.Builder
	sb.WriteString("From Coq Require Import List NArith String.\nFrom MM Require Import Model.Fs Model.Untar Model.PathPolicy.\nImport ListNotations.\nLocal Open Scope string_scope.\n")
	baseDef := coqTreeList(baseTree())
	sweepDef := coqTreeList(sweepTree()[len(baseTree()):])
	sb.WriteString(in.Defs())
	sb.WriteString("Definition base_tree : list inode_spec := " + baseDef + ".\n")
	sb.WriteString("Definition sweep_tree : list inode_spec := base_tree ++ " + sweepDef + ".\n")
	sb.WriteString("Definition sweep_fs : fsys := Eval vm_compute in build_fs sweep_tree.\n")
	const chunk = 100
	var names []string
	for i := 0; i < len(coq); i += chunk {
		j := i + chunk
		if j > len(coq) {
			j = len(coq)
		}
		name := fmt.Sprintf("cases%d", i/chunk)
		names = append(names, name)
		sb.WriteString("Definition " + name + " : list fcase := \n [" + strings.Join(coq[i:j], ";\n  ") + "].\n")
	}
	sb.WriteString("Definition cases : list fcase := " + strings.Join(names, " ++ ") + ".\n")
	sb.WriteString("Definition M := Eval vm_compute in mismatches cases.\nPrint M.\n")
	c.WriteCasesV("cases.v", sb.String())
}

func stripAt(xs []string) []string {
	out := make([]string, len(xs))
	for i, x := range xs {
		out[i] = strings.ReplaceAll(x, "@", "")
	}
	return out
}

func coqStrs(xs []string) string {
	items := make([]string, len(xs))
	for i, x := range xs {
		items[i] = coqText(x)
	}
	return vh.CoqList(items)
}

func coqText(s string) string { return in.S(s) }

func sameNodes(a, b []node) bool {
	if len(a) != len(b) {
		return false
	}
	for i := range a {
		if a[i] != b[i] {
			return false
		}
	}
	return true
}

func coqTree(nodes []node) string {
	// the fixed part is a shared definition: elaborating string literals dominates the cost of cases.v
	if sameNodes(nodes, sweepTree()) {
		return "sweep_fs" // built once
	}
	nb := len(baseTree())
	if len(nodes) >= nb {
		same := true
		for i, b := range baseTree() {
			if nodes[i] != b {
				same = false
			}
		}
		if same {
			return "(build_fs (base_tree ++ " + coqTreeList(nodes[nb:]) + "))"
		}
	}
	return "(build_fs " + coqTreeList(nodes) + ")"
}

func coqTreeList(nodes []node) string {
	items := make([]string, len(nodes))
	for i, n := range nodes {
		switch n.Kind {
		case "dir":
			items[i] = fmt.Sprintf("IDir %s", in.S(n.Path))
		case "file":
			items[i] = fmt.Sprintf("IFile %s %s", in.S(n.Path), in.S(n.Data))
		default:
			items[i] = fmt.Sprintf("ISym %s %s", in.S(n.Path), in.S(strings.TrimPrefix(n.Target, "@")))
		}
	}
	return vh.CoqList(items)
}

func coqReq(r request) string {
	p := coqText(strings.ReplaceAll(r.Path, "@", ""))
	switch r.Op {
	case "roots":
		return "XRoots"
	case "upload":
		if r.IsDir {
			n, kd := r.tarEntry()
			if kd == "reg" {
				return fmt.Sprintf("XUploadDir %s (EReg %s %s)", p, in.S(n), in.S(r.Data))
			}
			return fmt.Sprintf("XUploadDir %s (EOther %s)", p, in.S(n)) // every other typeflag is skipped
		}
		return fmt.Sprintf("XBase (RUpload %s %s)", p, in.S(r.Data))
	case "download":
		// is_directory and compress do not influence what is validated or read (source fact); offset > 0 selects the resume entry point
		if r.Offset > 0 {
			return fmt.Sprintf("XDownloadAt %s %d%%nat", p, r.Offset)
		}
		return fmt.Sprintf("XBase (RDownload %s)", p)
	case "list":
		return fmt.Sprintf("XBase (RList %s)", p)
	case "stat":
		return fmt.Sprintf("XBase (RStat %s)", p)
	case "chmod":
		return fmt.Sprintf("XBase (RChmod %s %s)", p, in.S(r.Mode))
	}
	return fmt.Sprintf("XBase (RDelete %s %s)", p, vh.CoqBool(r.Recursive))
}

func coqSnap(objs []obj) string {
	items := make([]string, len(objs))
	for i, o := range objs {
		switch o.Kind {
		case "dir":
			items[i] = fmt.Sprintf("(%s, ODir)", in.S(o.Path))
		case "file":
			items[i] = fmt.Sprintf("(%s, OFile %s %s)", in.S(o.Path), in.S(o.Data), in.S(o.Path))
		default:
			items[i] = fmt.Sprintf("(%s, OSym %s)", in.S(o.Path), in.S(strings.TrimPrefix(o.Target, "@")))
		}
	}
	return vh.CoqList(items)
}

// diffOutside reports changes to objects that are not allowed (by their own
// real path) — the effect-based form of the property for writing operations —
// and data of such objects showing up in what a reading operation returned.
func diffOutside(c *vh.Ctx, k kase, allowed []string, root string, before, after []obj, res result, pos string) {
	bm, am := map[string]obj{}, map[string]obj{}
	for _, o := range before {
		bm[o.Path] = o
	}
	for _, o := range after {
		am[o.Path] = o
	}
	notAllowed := func(rel string) bool { return !allowedLexically(allowed, filepath.Join(root, rel)) }
	sigOf := func(what string) string {
		if len(allowed) == 0 {
			return "ft-empty-allowlist-touched:" + k.Req.Op
		}
		return fmt.Sprintf("ft-escape:%s:%s", k.Req.Op, pos)
	}
	for p, b := range bm {
		a, ok := am[p]
		if !notAllowed(p) {
			continue
		}
		switch {
		case !ok:
			c.Fail(sigOf("deleted"), fmt.Sprintf("%s (not in allowed_paths) was deleted by %s %s", p, k.Req.Op, k.Req.Path), k)
		case a.Data != b.Data || a.Kind != b.Kind || a.Target != b.Target:
			c.Fail(sigOf("modified"), fmt.Sprintf("%s (not in allowed_paths) was modified by %s %s", p, k.Req.Op, k.Req.Path), k)
		case a.Perm != b.Perm:
			c.Fail(sigOf("chmod"), fmt.Sprintf("%s (not in allowed_paths) was chmodded by %s %s", p, k.Req.Op, k.Req.Path), k)
		}
	}
	reqRel, _ := filepath.Rel(root, filepath.Clean(expand(k.Req.Path, root)))
	for p, a := range am {
		if _, ok := bm[p]; !ok && notAllowed(p) {
			if k.Req.Op == "upload" && pos == "lexical" && a.Kind == "dir" && strings.HasPrefix(reqRel+"/", p+"/") &&
				allowedLexically(allowed, filepath.Join(root, reqRel)) {
				// the uploaded file itself is allowed; MkdirAll created a missing parent directory that no pattern matches
				// (above an allowed root that does not exist yet, or between a glob pattern's base and the file it matches)
				c.Fail("ft-upload-creates-ancestors-of-allowed-root", fmt.Sprintf("upload %s created the missing directory %s, which lies above every allowed path", k.Req.Path, p), k)
				continue
			}
			c.Fail(sigOf("created"), fmt.Sprintf("%s (not in allowed_paths) was created by %s %s", p, k.Req.Op, k.Req.Path), k)
		}
	}
	if k.Req.Op == "download" && res.Code == 0 && !strings.HasPrefix(res.Payload, "<directory>:") {
		// what was returned is (the requested part of) the content of a file that is not allowed, and of no allowed file
		part := func(data string) (string, bool) {
			if k.Req.Offset > int64(len(data)) {
				return "", false
			}
			return data[k.Req.Offset:], true
		}
		for p, b := range bm {
			if d, ok := part(b.Data); b.Kind == "file" && ok && d == res.Payload && d != "" && notAllowed(p) {
				same := false
				for q, o := range bm {
					if d2, ok2 := part(o.Data); o.Kind == "file" && ok2 && d2 == res.Payload && !notAllowed(q) {
						same = true
					}
				}
				if !same {
					c.Fail(sigOf("read"), fmt.Sprintf("download %s (offset %d) returned the content of %s (not in allowed_paths)", k.Req.Path, k.Req.Offset, p), k)
				}
			}
		}
	}
}

func sameTree(a, b []obj) bool {
	if len(a) != len(b) {
		return false
	}
	for i := range a {
		if a[i] != b[i] {
			return false
		}
	}
	return true
}

var in = fsutil.NewInterner()

var _ = bytes.MinRead
