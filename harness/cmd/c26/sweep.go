package main

import (
	"fmt"
	"strings"
)

// Boundary sweep: "the allow-list decision is made on exactly the path the
// operation uses, and matching respects path-component boundaries".
//
// (a) For every allow-list form derived from a base directory, requests that
//     name a SIBLING of the base whose name shares a string prefix with it
//     (base-x, basex, "base.", base\drop, base<U+FF0F>x, "base ").
// (b) A well-formed request with one separator or one component replaced by a
//     look-alike (backslash, doubled separator, /./, /x/../, /../, full-width
//     solidus, control characters, trailing dot / space / backslash,
//     trailing slash and /. and /..), at every component position.
// Every sibling directory and look-alike name really exists in the tree, so
// that an operation that is let through has an effect the real-path monitor
// and the tree comparison see.  No symbolic link is involved anywhere: a
// failure here carries the signature ft-escape:<op>:lexical.

const fwSlash = "／" // FULLWIDTH SOLIDUS, stable under NFC

var siblingSuffixes = []string{"-x", "x", ".", " ", "\\drop", fwSlash + "x"}

func sweepTree() []node {
	t := baseTree()
	add := func(p, kind, data string) { t = append(t, node{Path: p, Kind: kind, Data: data}) }
	// siblings of "allowed" at the root, each with a file and a sub directory
	for _, suf := range siblingSuffixes {
		d := "allowed" + suf
		add(d, "dir", "")
		add(d+"/f.txt", "file", "SIB")
	}
	for _, d := range []string{"allowed\\sub", "allowed" + fwSlash + "sub"} {
		add(d, "dir", "")
		add(d+"/deep.txt", "file", "SIBDEEP")
	}
	for _, d := range []string{"allowed.", "allowed "} {
		add(d+"/sub", "dir", "")
		add(d+"/sub/deep.txt", "file", "SIBDEEP")
	}
	// siblings of "allowed/sub" inside the allowed directory
	for _, suf := range siblingSuffixes {
		d := "allowed/sub" + suf
		add(d, "dir", "")
		add(d+"/f.txt", "file", "INSIB")
	}
	for _, d := range []string{"allowed/sub.", "allowed/sub "} {
		add(d+"/deep.txt", "file", "INSIBDEEP")
	}
	for _, f := range []string{"allowed/sub\\deep.txt", "allowed/sub" + fwSlash + "deep.txt", "allowed/sub/deep.txt.", "allowed/sub/deep.txt ", "allowed/sub/deep.txt\\"} {
		add(f, "file", "LOOKALIKE")
	}
	return t
}

// allow-list forms derived from a base directory ("@/allowed" or "@/allowed/sub")
func patternForms(base string) []string {
	i := strings.LastIndex(base, "/")
	dir, last := base[:i], base[i+1:]
	q := last[:len(last)-2] + "?" + last[len(last)-1:]
	mid := strings.Replace(base, "/allowed", "/al*wed", 1)
	return []string{base, base + "/", base + "/**", base + "/*", dir + "/" + q, mid, base + "*"}
}

var allOps = []string{"upload", "download", "list", "stat", "chmod", "delete"}

func requestFor(op, dir string) request {
	switch op {
	case "upload":
		return request{Op: op, Path: dir + "/new.txt", Data: "UP"}
	case "list":
		return request{Op: op, Path: dir}
	case "chmod":
		return request{Op: op, Path: dir + "/f.txt", Mode: "0600"}
	}
	return request{Op: op, Path: dir + "/f.txt"}
}

func boundaryCases(thorough bool) []kase {
	tree := sweepTree()
	var out []kase
	n := 0
	// (a) sibling names
	for _, base := range []string{"@/allowed", "@/allowed/sub"} {
		for fi, form := range patternForms(base) {
			for _, suf := range siblingSuffixes {
				full := thorough || (base == "@/allowed" && (fi == 0 || fi == 2 || fi == 3))
				for oi, op := range allOps {
					if !full && oi != n%len(allOps) {
						continue
					}
					out = append(out, kase{Note: fmt.Sprintf("sibling %q of the base of allow pattern %q", base[1:]+suf, form[1:]),
						Tree: tree, Allowed: []string{form}, Req: requestFor(op, base+suf)})
				}
				n++
			}
		}
	}
	// (b) look-alike separators and components at each position of @/allowed/sub/deep.txt
	comps := []string{"allowed", "sub", "deep.txt"}
	build := func(cs []string, seps []string, tail string) string {
		s := "@"
		for i, c := range cs {
			s += seps[i] + c
		}
		return s + tail
	}
	plainSeps := func() []string { return []string{"/", "/", "/"} }
	type variant struct {
		note string
		path string
		key  bool // separator confusion proper: all operations in the quick tier as well
	}
	var vs []variant
	for pos := 1; pos <= 2; pos++ { // the separator in front of component pos (0-based); the one after the root is left alone
		for _, sep := range []string{"\\", fwSlash, "//", "/./", "/x/../", "/../"} {
			seps := plainSeps()
			seps[pos] = sep
			vs = append(vs, variant{fmt.Sprintf("separator %d written %q", pos, sep), build(comps, seps, ""), sep == "\\" || sep == fwSlash})
		}
	}
	for pos := 0; pos < 3; pos++ {
		for _, m := range []struct{ pre, post string }{{"\x01", ""}, {"\t", ""}, {"\x7f", ""}, {"", "."}, {"", " "}, {"", "\\"}} {
			cs := append([]string{}, comps...)
			cs[pos] = m.pre + cs[pos] + m.post
			vs = append(vs, variant{fmt.Sprintf("component %d written %q", pos, cs[pos]), build(cs, plainSeps(), ""), false})
		}
	}
	for _, tail := range []string{"/", "/.", "/..", "\\", "\\..\\..\\outside\\secret.txt"} {
		vs = append(vs, variant{fmt.Sprintf("request ending in %q", tail), build(comps, plainSeps(), tail), false})
	}
	for vi, v := range vs {
		allowed := []string{"@/allowed"}
		if vi%2 == 1 {
			allowed = []string{"@/allowed/**"}
		}
		for oi, op := range allOps {
			if !thorough && !v.key && oi != vi%len(allOps) {
				continue
			}
			rq := request{Op: op, Path: v.path}
			switch op {
			case "upload":
				rq.Data = "UP"
			case "chmod":
				rq.Mode = "0600"
			case "delete":
				rq.Recursive = vi%3 == 0
			}
			out = append(out, kase{Note: "look-alike: " + v.note, Tree: tree, Allowed: allowed, Req: rq})
		}
	}
	return out
}
