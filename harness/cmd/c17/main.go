// c17: correspondence and monitor harness for C17 (tunnel bookkeeping
// returns to empty once tunnels and peers are gone). Implementation under
// test: the real relayTable, a real agent.Agent acting as transit, and real
// exit.Handler / forward.Handler instances with loopback destinations.
package main

import (
	"fmt"
	"strings"

	rh "github.com/postalsys/muti-metroo/verifharness/relayh"
	"github.com/postalsys/muti-metroo/verifharness/vh"
)

type Replay struct {
	Kind     string            `json:"kind"` // table | transit | exit | forward
	Name     string            `json:"name"`
	Table    []rh.TOp          `json:"table,omitempty"`
	Transit  *rh.TransitScript `json:"transit,omitempty"`
	Book     []rh.BOp          `json:"book,omitempty"`
	MaxConns int               `json:"max_conns,omitempty"`
	ET       *rh.ETScenario    `json:"exit_transit,omitempty"`
	OR       *rh.ORScenario    `json:"open_race,omitempty"`
	TD       *rh.TDScenario    `json:"teardown,omitempty"`
}

// ---------------------------------------------------------------------------
// monitors: the property text on the implementation's final state

func leftoverSig(fam string, e rh.Entry, ended []rh.Tunnel) string {
	famN := map[string]int{"tcp": rh.TCP, "udp": rh.UDP, "icmp": rh.ICMP}[fam]
	for _, t := range ended {
		if t.Fam == famN && t.UpPeer == e.UpPeer && t.UpID == e.UpID && t.DownPeer == e.DownPeer && t.DownID == e.DownID {
			if t.PeerGone && famN != rh.TCP {
				return "udp-icmp-relay-entry-survives-peer-disconnect"
			}
			if t.Collided {
				return "relay-orphan-after-id-collision"
			}
		}
	}
	return "relay-entry-leak"
}

func monitorTransitDrained(c *vh.Ctx, rp Replay, obs []rh.AObs, ended []rh.Tunnel) {
	last := obs[len(obs)-1]
	for fam, sn := range map[string]rh.Snap{"tcp": last.TCP, "udp": last.UDP, "icmp": last.ICMP} {
		seen := map[rh.Entry]bool{}
		for _, ix := range append(append([]rh.Indexed{}, sn.Up...), sn.Down...) {
			if seen[ix.E] {
				continue
			}
			seen[ix.E] = true
			c.Fail(leftoverSig(fam, ix.E, ended), fmt.Sprintf("%s: after every tunnel was closed, reset, failed or lost a peer the %s relay table still holds %+v (byUpstream %d entries, byDownstream %d entries)",
				rp.Name, fam, ix.E, len(sn.Up), len(sn.Down)), rp)
		}
	}
}

func monitorTableDrained(c *vh.Ctx, rp Replay, res []rh.TRes) {
	// which entries ever shared a bare key with another live one
	collided := map[rh.Entry]bool{}
	var live []rh.Entry
	for i, op := range rp.Table {
		switch op.Op {
		case "insert":
			for _, e := range live {
				if e.UpID == op.E.UpID || e.DownID == op.E.DownID {
					collided[e], collided[op.E] = true, true
				}
			}
			live = append(live, op.E)
		case "delete", "popmatching", "popdown", "deletebypeer":
			// liveness per the protocol: recompute from the history (the generator ends tunnels explicitly)
			var keep []rh.Entry
			for _, e := range live {
				gone := false
				switch op.Op {
				case "delete":
					gone = e == op.E
				case "popmatching":
					gone = (e.UpID == op.ID && e.UpPeer == op.Peer) || (e.DownID == op.ID && e.DownPeer == op.Peer)
				case "popdown":
					gone = e.DownID == op.ID && e.DownPeer == op.Peer
				case "deletebypeer":
					gone = e.UpPeer == op.Peer || e.DownPeer == op.Peer
				}
				if !gone {
					keep = append(keep, e)
				}
			}
			live = keep
		}
		_ = i
	}
	if len(live) != 0 {
		return // not a drained history (replay of a foreign script)
	}
	last := res[len(res)-1].Snap
	seen := map[rh.Entry]bool{}
	for _, ix := range append(append([]rh.Indexed{}, last.Up...), last.Down...) {
		if seen[ix.E] {
			continue
		}
		seen[ix.E] = true
		sig := "relay-entry-leak"
		if collided[ix.E] {
			sig = "relay-orphan-after-id-collision"
		}
		c.Fail(sig, fmt.Sprintf("%s: every tunnel of the history ended, but the table still holds %+v (byUpstream %d, byDownstream %d)", rp.Name, ix.E, len(last.Up), len(last.Down)), rp)
	}
}

func monitorBookDrained(c *vh.Ctx, rp Replay, obs []rh.BObs) {
	// id collisions between different peers while both tunnels were alive?
	type lt struct {
		peer int
		id   uint64
	}
	live := map[int]lt{}
	collided := false
	serial := 0
	for i, op := range rp.Book {
		switch op.Op {
		case "open":
			if obs[i].Res == 0 {
				for _, t := range live {
					if t.id == op.ID && t.peer != op.Peer {
						collided = true
					}
				}
				live[serial] = lt{op.Peer, op.ID}
				serial++
			} else if obs[i].Res == 1 && len(live) < rp.MaxConns {
				sig := rp.Kind + "-limit-consumed-by-dead-tunnels"
				if !collided {
					sig = rp.Kind + "-connection-slot-leak"
				}
				c.Fail(sig, fmt.Sprintf("%s: step %d: open refused with 'connection limit exceeded' (limit %d) while only %d tunnels are alive; ConnectionCount()=%d",
					rp.Name, i, rp.MaxConns, len(live), obs[i].Count), rp)
			}
		case "openzero":
			if obs[i].Res == 1 && len(live) < rp.MaxConns {
				sig := rp.Kind + "-limit-consumed-by-dead-tunnels"
				if !collided {
					sig = rp.Kind + "-connection-slot-leak"
				}
				c.Fail(sig, fmt.Sprintf("%s: step %d: open refused with 'connection limit exceeded' (limit %d) while only %d tunnels are alive; ConnectionCount()=%d",
					rp.Name, i, rp.MaxConns, len(live), obs[i].Count), rp)
			}
		case "close", "reset":
			for s, t := range live {
				if t.peer == op.Peer && t.id == op.ID {
					delete(live, s)
				}
			}
		case "destclose":
			delete(live, op.Serial)
		}
		// as long as no two peers shared a stream id, the counter is the number of records
		if !collided && obs[i].Count != int64(len(obs[i].Recs)) {
			c.Fail(rp.Kind+"-connection-slot-leak", fmt.Sprintf("%s: step %d (%+v): ConnectionCount()=%d but %d connection records exist (no stream id was shared)",
				rp.Name, i, op, obs[i].Count, len(obs[i].Recs)), rp)
		}
		if obs[i].Note != "" {
			c.Fail("harness-timeout", rp.Name+": "+obs[i].Note, rp)
		}
	}
	if len(live) != 0 {
		return
	}
	last := obs[len(obs)-1]
	if last.Count != 0 || len(last.Recs) != 0 {
		sig := rp.Kind + "-connection-leak"
		if collided {
			sig = rp.Kind + "-conncount-leak-on-id-collision"
		}
		c.Fail(sig, fmt.Sprintf("%s: every tunnel was closed, reset or ended by its destination, but ConnectionCount()=%d and %d connection records remain", rp.Name, last.Count, len(last.Recs)), rp)
	}
}

// ---------------------------------------------------------------------------

func witnesses() []Replay {
	e1 := rh.Entry{UpPeer: 1, UpID: 1, DownPeer: 3, DownID: 1}
	e2 := rh.Entry{UpPeer: 2, UpID: 1, DownPeer: 3, DownID: 3}
	return []Replay{
		{Kind: "table", Name: "collision-orphan", Table: []rh.TOp{
			{Op: "insert", E: e1}, {Op: "insert", E: e2},
			{Op: "popmatching", ID: 1, Peer: 1}, // peer 1 closes its tunnel: nothing removed
			{Op: "popmatching", ID: 1, Peer: 2}, // peer 2 closes: e2 removed
			{Op: "deletebypeer", Peer: 1},       // peer 1 disconnects: byUpstream is empty, e1 stays in byDownstream
			{Op: "deletebypeer", Peer: 3}}},     // even the downstream peer's disconnect does not remove it
		{Kind: "exit", Name: "exit-counter-leak", MaxConns: 3, Book: []rh.BOp{
			{Op: "open", Peer: 1, ID: 1}, {Op: "open", Peer: 2, ID: 1},
			{Op: "close", Peer: 1, ID: 1}, {Op: "close", Peer: 2, ID: 1}, {Op: "destclose", Serial: 0}}},
		{Kind: "forward", Name: "forward-counter-leak", MaxConns: 3, Book: []rh.BOp{
			{Op: "open", Peer: 1, ID: 1}, {Op: "open", Peer: 2, ID: 1},
			{Op: "destclose", Serial: 1}, {Op: "destclose", Serial: 0}}},
		{Kind: "exit", Name: "exit-limit-consumed", MaxConns: 2, Book: []rh.BOp{
			{Op: "open", Peer: 1, ID: 1}, {Op: "open", Peer: 2, ID: 1}, {Op: "close", Peer: 1, ID: 1}, {Op: "close", Peer: 2, ID: 1}, {Op: "destclose", Serial: 0},
			{Op: "open", Peer: 1, ID: 3}, {Op: "open", Peer: 2, ID: 3}, {Op: "close", Peer: 1, ID: 3}, {Op: "close", Peer: 2, ID: 3}, {Op: "destclose", Serial: 2},
			{Op: "open", Peer: 3, ID: 1}}},
		{Kind: "exit", Name: "exit-zero-key-opens", MaxConns: 2, Book: []rh.BOp{
			{Op: "openzero", Peer: 1, ID: 1}, {Op: "openzero", Peer: 2, ID: 1}, {Op: "openzero", Peer: 1, ID: 3},
			{Op: "open", Peer: 3, ID: 1}, {Op: "close", Peer: 3, ID: 1}}},
		{Kind: "forward", Name: "forward-zero-key-opens", MaxConns: 2, Book: []rh.BOp{
			{Op: "openzero", Peer: 1, ID: 1}, {Op: "openzero", Peer: 2, ID: 1}, {Op: "openzero", Peer: 1, ID: 3},
			{Op: "open", Peer: 3, ID: 1}, {Op: "close", Peer: 3, ID: 1}}},
		{Kind: "forward", Name: "forward-limit-consumed", MaxConns: 2, Book: []rh.BOp{
			{Op: "open", Peer: 1, ID: 1}, {Op: "open", Peer: 2, ID: 1}, {Op: "close", Peer: 1, ID: 1}, {Op: "close", Peer: 2, ID: 1}, {Op: "destclose", Serial: 0},
			{Op: "open", Peer: 1, ID: 3}, {Op: "open", Peer: 2, ID: 3}, {Op: "close", Peer: 1, ID: 3}, {Op: "close", Peer: 2, ID: 3}, {Op: "destclose", Serial: 2},
			{Op: "open", Peer: 3, ID: 1}}},
	}
}

func transitWitness(c *vh.Ctx) (Replay, []rh.AObs, []rh.Tunnel, error) {
	// UDP and ICMP relay entries of a vanished peer stay
	run, err := rh.NewTransitRunner(rh.TransitMe, nil)
	if err != nil {
		return Replay{}, nil, nil, err
	}
	defer run.Close()
	sc := rh.TransitScript{Me: rh.TransitMe, Locals: []uint64{}}
	var obs []rh.AObs
	do := func(ev rh.Event) rh.AObs {
		sc.Events = append(sc.Events, ev)
		o := run.Step(ev)
		obs = append(obs, o)
		return o
	}
	for _, ev := range rh.TransitPrologue() {
		do(ev)
	}
	var ended []rh.Tunnel
	for i, fam := range []int{rh.TCP, rh.UDP, rh.ICMP} {
		id := uint64(1 + 2*i)
		o := do(rh.Event{Ev: "frame", From: 1, Frame: &rh.Frame{Fam: fam, Kind: rh.KOpen, ID: id, Path: []int{3}, Tag: uint64(70 + i)}})
		for _, s := range o.Out {
			ended = append(ended, rh.Tunnel{Fam: fam, UpPeer: 1, UpID: id, DownPeer: 3, DownID: s.Frame.ID, Tag: uint64(70 + i), PeerGone: true})
		}
	}
	do(rh.Event{Ev: "disconnect", Peer: 1})
	do(rh.Event{Ev: "disconnect", Peer: 3})
	return Replay{Kind: "transit", Name: "udp-icmp-entries-survive-disconnect", Transit: &sc}, obs, ended, nil
}

func main() {
	c := vh.Start("C17")
	defer c.Finish()
	c.Res.Rule = "case = drained history: (a) realistic relayTable history (per-connection-unique ids that collide across peers) where every tunnel is ended by the " +
		"operation the agent uses (close/reset from either side, open error, failed forward, peer disconnect); (b) the same kind of history as frames and disconnects on a " +
		"real agent acting as transit, generated online from the downstream ids the agent allocated; (c) open/data/close/reset/destination-close histories on real " +
		"exit.Handler and forward.Handler instances with loopback destinations; every step's result and state is compared with Model/Relay.v resp. Model/ExitBook.v and the " +
		"final state must be empty (both indices, connections, ConnectionCount); non-trivial = at least two tunnels; distinct = distinct histories"
	var coq, coqB []string
	type pendingBook struct {
		s string
	}
	var bookCases []string
	runTable := func(rp Replay) {
		var res []rh.TRes
		if p := vh.Recover(func() { res = rh.RunTable(rp.Table) }); p != "" {
			c.Fail("panic", rp.Name+": "+p, rp)
			return
		}
		nIns := 0
		for _, op := range rp.Table {
			c.Count("table-op:" + op.Op)
			if op.Op == "insert" {
				nIns++
			}
		}
		c.Case(fmt.Sprint(rp.Table), nIns >= 2, rp)
		monitorTableDrained(c, rp, res)
		coq = append(coq, rh.CoqTCase(rp.Table, res))
	}
	recordTransit := func(rp Replay, obs []rh.AObs, ended []rh.Tunnel) {
		for _, ev := range rp.Transit.Events {
			if ev.Ev == "frame" {
				c.Count(fmt.Sprintf("frame:%d/%d", ev.Frame.Fam, ev.Frame.Kind))
			} else {
				c.Count("event:" + ev.Ev)
			}
		}
		nColl := 0
		for _, t := range ended {
			if t.Collided {
				nColl++
			}
		}
		if nColl > 0 {
			c.Count("transit-history-with-collision")
		}
		c.Case(fmt.Sprint(rp.Transit.Events), len(ended) >= 2, rp)
		if ended != nil {
			monitorTransitDrained(c, rp, obs, ended)
		}
		coq = append(coq, rh.CoqACase(*rp.Transit, obs))
	}
	_ = coqB
	var etReplay *rh.ETScenario
	var orReplay *rh.ORScenario
	var tdReplay *rh.TDScenario
	if c.Replay != "" {
		var rp Replay
		if err := c.ReadReplay(&rp); err != nil {
			panic(err)
		}
		switch rp.Kind {
		case "exittransit":
			etReplay = rp.ET
		case "openrace":
			orReplay = rp.OR
		case "teardown":
			tdReplay = rp.TD
		case "table":
			runTable(rp)
		case "transit":
			obs, err := rh.RunTransit(*rp.Transit)
			if err != nil {
				panic(err)
			}
			recordTransit(rp, obs, nil)
			// without the generator's tunnel list: anything left in the tables after the last event is reported
			monitorTransitDrained(c, rp, obs, nil)
		default:
			obs, err := rh.RunBook(rp.Kind, rp.MaxConns, rp.Book)
			if err != nil {
				panic(err)
			}
			c.Case(fmt.Sprint(rp.Book), true, rp)
			monitorBookDrained(c, rp, obs)
			bookCases = append(bookCases, rh.CoqBCase(rp.MaxConns, rp.Book, obs))
		}
	} else {
		root := vh.NewRand(int64(c.Rand.U64()))
		var books []Replay
		for _, w := range witnesses() {
			if w.Kind == "table" {
				runTable(w)
			} else {
				books = append(books, w)
			}
		}
		// OPEN_ERR from one of two next hops that use the same downstream id: the
		// refused tunnel's entry must go (repeated: Go map iteration order varies)
		for k := 0; k < 8; k++ {
			sc := rh.TransitScript{Me: rh.TransitMe, Locals: []uint64{}, Events: append(rh.TransitPrologue(),
				rh.Event{Ev: "frame", From: 1, Frame: &rh.Frame{Fam: rh.TCP, Kind: rh.KOpen, ID: 1, Path: []int{3}, Tag: 61}},
				rh.Event{Ev: "frame", From: 1, Frame: &rh.Frame{Fam: rh.TCP, Kind: rh.KOpen, ID: 3, Path: []int{4}, Tag: 62}},
				rh.Event{Ev: "frame", From: 4, Frame: &rh.Frame{Fam: rh.TCP, Kind: rh.KErr, ID: 1, Tag: 62}},
				rh.Event{Ev: "frame", From: 3, Frame: &rh.Frame{Fam: rh.TCP, Kind: rh.KErr, ID: 1, Tag: 61}})}
			rp := Replay{Kind: "transit", Name: fmt.Sprintf("open-err-with-equal-downstream-ids-%d", k), Transit: &sc}
			if obs, err := rh.RunTransit(sc); err == nil {
				recordTransit(rp, obs, []rh.Tunnel{})
			}
		}
		if rp, obs, ended, err := transitWitness(c); err == nil {
			recordTransit(rp, obs, ended)
		} else {
			c.Fail("panic", err.Error(), nil)
		}
		for i, n := 0, c.N(70, 1500); i < n; i++ {
			r := root.Fork()
			runTable(Replay{Kind: "table", Name: fmt.Sprintf("table-%d", i), Table: rh.GenTableHistory(r, 4+r.Intn(16))})
		}
		for i, n := 0, c.N(50, 800); i < n; i++ {
			r := root.Fork()
			run, err := rh.NewTransitRunner(rh.TransitMe, nil)
			if err != nil {
				c.Fail("panic", err.Error(), nil)
				continue
			}
			var sc rh.TransitScript
			var obs []rh.AObs
			var ended []rh.Tunnel
			p := vh.Recover(func() { sc, obs, ended = rh.GenTransitHistory(r, 8+r.Intn(24), run, i%2 == 1) })
			run.Close()
			rp := Replay{Kind: "transit", Name: fmt.Sprintf("transit-%d", i), Transit: &sc}
			if p != "" {
				c.Fail("panic", rp.Name+": "+p, rp)
				continue
			}
			recordTransit(rp, obs, ended)
		}
		// exit / forward histories come last: their cases use a second mismatch list
		for i, n := 0, c.N(14, 150); i < n; i++ {
			r := root.Fork()
			kind := []string{"exit", "forward"}[i%2]
			mc := 2 + r.Intn(3)
			books = append(books, Replay{Kind: kind, Name: fmt.Sprintf("%s-%d", kind, i), MaxConns: mc, Book: rh.GenBook(r, 4+r.Intn(10), mc)})
		}
		for _, rp := range books {
			var obs []rh.BObs
			var err error
			if p := vh.Recover(func() { obs, err = rh.RunBook(rp.Kind, rp.MaxConns, rp.Book) }); p != "" || err != nil {
				c.Fail("panic", fmt.Sprintf("%s: %s %v", rp.Name, p, err), rp)
				continue
			}
			nOpen := 0
			for _, op := range rp.Book {
				c.Count(rp.Kind + "-op:" + op.Op)
				if op.Op == "open" {
					nOpen++
				}
			}
			c.Case(fmt.Sprint(rp.Kind, rp.MaxConns, rp.Book), nOpen >= 2, rp)
			monitorBookDrained(c, rp, obs)
			bookCases = append(bookCases, rh.CoqBCase(rp.MaxConns, rp.Book, obs))
		}
	}
	// one agent that is exit for peer 1 and transit for peer 2 with equal numeric
	// ids: after the relayed tunnel ends (CLOSE / RESET from either side) and then
	// the exit tunnel, the relay tables and the exit endpoints must be empty
	// (monitor only; these cases come after every model-backed case)
	runET := func(sc rh.ETScenario) {
		rp := Replay{Kind: "exittransit", Name: fmt.Sprintf("exit+transit fam=%d dir=%s kind=%d", sc.Fam, sc.Dir, sc.Kind), ET: &sc}
		var o rh.ETObs
		var err error
		if p := vh.Recover(func() { o, err = rh.RunExitTransit(sc) }); p != "" || err != nil {
			c.Fail("panic", fmt.Sprintf("%s: %s %v", rp.Name, p, err), rp)
			return
		}
		c.Count(fmt.Sprintf("exit+transit:%d/%s/%d", sc.Fam, sc.Dir, sc.Kind))
		c.Case(rp.Name, true, rp)
		if !o.OpenedExit || o.RelayDownID == 0 {
			c.Fail("harness-timeout", rp.Name+": scenario could not be set up: "+o.Notes, rp)
			return
		}
		_, drain := rh.CheckExitTransit(sc, o)
		for _, d := range drain {
			c.Fail("relay-entry-leak-behind-local-endpoint", rp.Name+": "+d, rp)
		}
	}
	if c.Replay == "" {
		for _, sc := range rh.AllExitTransit() {
			runET(sc)
		}
	} else if etReplay != nil {
		runET(*etReplay)
	}
	// races around the forwarding of an OPEN (gated write to the next hop): whatever
	// happens in that window, nothing may be left once the tunnel / the next hop is gone
	runOR := func(sc rh.ORScenario) {
		rp := Replay{Kind: "openrace", Name: fmt.Sprintf("open-race fam=%d %s", sc.Fam, sc.Kind), OR: &sc}
		var o rh.ORObs
		var err error
		if p := vh.Recover(func() { o, err = rh.RunOpenRace(sc) }); p != "" || err != nil {
			c.Fail("panic", fmt.Sprintf("%s: %s %v", rp.Name, p, err), rp)
			return
		}
		c.Count("open-race:" + sc.Kind)
		c.Case(rp.Name, true, rp)
		if o.Notes != "" {
			c.Fail("harness-timeout", rp.Name+": "+o.Notes, rp)
			return
		}
		_, drain := rh.CheckOpenRace(sc, o)
		for _, d := range drain {
			c.Fail("relay-entry-inserted-for-a-gone-peer", rp.Name+": "+d, rp)
		}
	}
	// link teardown through the real peer.Manager path: remote hang-up, local
	// Disconnect(peer), local DisconnectAll() (the sleep path)
	runTD := func(sc rh.TDScenario) {
		rp := Replay{Kind: "teardown", Name: fmt.Sprintf("teardown %s peer=%d", sc.How, sc.Who), TD: &sc}
		var o rh.TDObs
		var err error
		if p := vh.Recover(func() { o, err = rh.RunTeardown(sc) }); p != "" || err != nil {
			c.Fail("panic", fmt.Sprintf("%s: %s %v", rp.Name, p, err), rp)
			return
		}
		c.Count("teardown:" + sc.How)
		c.Case(rp.Name, true, rp)
		if o.Notes != "" || o.Before != [3]int{1, 1, 1} {
			c.Fail("harness-timeout", fmt.Sprintf("%s: scenario could not be set up: %s before=%v", rp.Name, o.Notes, o.Before), rp)
			return
		}
		if o.After != [3]int{} {
			c.Fail("relay-entry-survives-link-teardown", fmt.Sprintf("%s: the link ended (%s) but the relay tables still hold tcp/udp/icmp = %v entries", rp.Name, sc.How, o.After), rp)
		}
	}
	if c.Replay == "" {
		for _, sc := range rh.AllOpenRaces() {
			runOR(sc)
		}
		for _, sc := range rh.AllTeardowns() {
			runTD(sc)
		}
	} else if orReplay != nil {
		runOR(*orReplay)
	} else if tdReplay != nil {
		runTD(*tdReplay)
	}
	var sb strings.Builder
	sb.WriteString("From Coq Require Import List NArith ZArith Bool.\nFrom MM Require Import Model.Relay Model.ExitBook.\nImport ListNotations.\nLocal Open Scope N_scope.\n")
	sb.WriteString("Definition cases : list case := [\n" + strings.Join(coq, ";\n") + "].\n")
	sb.WriteString("Definition bcases : list bcase := [\n" + strings.Join(bookCases, ";\n") + "].\n")
	sb.WriteString("Definition M := Eval vm_compute in mismatches cases.\nPrint M.\n")
	sb.WriteString(fmt.Sprintf("Definition MB := Eval vm_compute in bmismatches_from %s bcases.\nPrint MB.\n", vh.CoqN(uint64(len(coq)))))
	c.WriteCasesV("cases.v", sb.String())
}
