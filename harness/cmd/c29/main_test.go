// c29: correspondence and monitor harness for C29 (a validly signed sleep or
// wake command takes effect at most once per agent).
//
// Implementation under test: a real flood.Flooder (default configuration:
// SeenCacheTTL 5 min, cleanup loop every 2.5 min, MaxSeenCacheSize 10000,
// timestamp window 5 min) with a signing public key, inside a
// testing/synctest bubble: the flooder's own cleanup goroutine runs at its
// real (virtual) instants while the harness delivers genuine, replayed and
// forged commands and lets virtual time pass.
package main

import (
	"encoding/hex"
	"fmt"
	"os"
	"sync"
	"sync/atomic"
	"testing"
	"testing/synctest"
	"time"

	"github.com/postalsys/muti-metroo/internal/agent"
	"github.com/postalsys/muti-metroo/internal/config"
	"github.com/postalsys/muti-metroo/internal/flood"
	"github.com/postalsys/muti-metroo/internal/identity"
	"github.com/postalsys/muti-metroo/internal/protocol"
	"github.com/postalsys/muti-metroo/internal/routing"
	"github.com/postalsys/muti-metroo/verifharness/scx"
	"github.com/postalsys/muti-metroo/verifharness/vh"
)

const (
	tickNs   = int64(150 * time.Second)
	windowNs = int64(300 * time.Second)
)

type op struct {
	Op        string       `json:"op"` // recv | advance | cleanup | junk | issue (the flooder under test issues the command itself)
	Kind      string       `json:"kind,omitempty"`
	From      int          `json:"from,omitempty"`
	Cmd       *scx.CmdSpec `json:"cmd,omitempty"`
	AdvanceMs int64        `json:"advance_ms,omitempty"`
	Junk      int          `json:"junk,omitempty"`       // number of forged commands with fresh ids
	UntilGone *scx.Key     `json:"until_gone,omitempty"` // junk rounds are repeated (max 40) until this key has left the cache
}

type caseSpec struct {
	// concurrent-delivery stress phase (not a history): the same signed command handed in by
	// several neighbours at once, many times; replayed by scenario name
	Scenario   string   `json:"scenario,omitempty"`
	Rounds     int      `json:"rounds,omitempty"`
	Neighbours int      `json:"neighbours,omitempty"`
	Frames     []aframe `json:"frames,omitempty"` // scenario "agent-history"

	Ops []op   `json:"ops"`
	Why string `json:"why,omitempty"`
	Max int    `json:"max_seen_cache_size,omitempty"` // 0 = default 10000
}

type recorder struct {
	mu    sync.Mutex
	peers []identity.AgentID
	to    []int
}

func (r *recorder) SendToPeer(p identity.AgentID, f *protocol.Frame) error {
	r.mu.Lock()
	defer r.mu.Unlock()
	r.to = append(r.to, scx.Idx(p))
	return nil
}
func (r *recorder) GetPeerIDs() []identity.AgentID { return r.peers }
func (r *recorder) take() []int {
	r.mu.Lock()
	defer r.mu.Unlock()
	s := r.to
	r.to = nil
	return s
}

type entryObs struct {
	Origin int
	ID     uint64
	AtNs   int64
	From   int
}

// one model-visible step: a delivery or a cleanup pass, with what was observed after it
type stepObs struct {
	NowNs    int64
	IsRecv   bool
	IsIssue  bool
	OpIdx    int
	Accepted bool
	Fwd      []int
	Cache    []entryObs
}

type acceptance struct {
	NowNs     int64
	OpIdx     int
	JunkSince int // junk deliveries between the previous acceptance of the same command and this one
}

func snapshot(f *flood.Flooder) []entryObs {
	var out []entryObs
	for _, e := range f.VerifSleepCmdCache() {
		out = append(out, entryObs{Origin: scx.Idx(e.Origin), ID: e.CommandID, AtNs: e.SeenAt.UnixNano(), From: scx.Idx(e.SeenFrom)})
	}
	return out
}

func runCase(t *testing.T, keys *scx.Keys, cs *caseSpec) (steps []stepObs, acc map[string][]acceptance, ownAccepted [][2]int, overflow bool, panicked string) {
	acc = map[string][]acceptance{}
	issued := map[string]int{}
	synctest.Test(t, func(t *testing.T) {
		panicked = vh.Recover(func() {
			cfg := flood.DefaultFloodConfig()
			var pub [32]byte
			copy(pub[:], keys.Pub)
			cfg.SigningPublicKey = &pub
			if cs.Max > 0 {
				cfg.MaxSeenCacheSize = cs.Max
			}
			rec := &recorder{peers: []identity.AgentID{scx.ID(1), scx.ID(2), scx.ID(3)}}
			start := time.Now().UnixNano()
			f := flood.NewFlooder(cfg, scx.ID(0), routing.NewManager(scx.ID(0)), rec)
			defer f.Stop()
			junkID := uint64(1 << 32)
			junkTotal := 0
			lastTick := int64(0)
			// emit the cleanup passes the flooder's own loop has run up to now
			ticks := func() {
				synctest.Wait()
				now := time.Now().UnixNano()
				for (lastTick+1)*tickNs <= now-start {
					lastTick++
					// the cache content right after a pass is only observable for the latest one
					steps = append(steps, stepObs{NowNs: start + lastTick*tickNs, OpIdx: -1, Cache: nil})
				}
			}
			deliver := func(kind string, from int, s *scx.CmdSpec) bool {
				now := time.Now()
				if kind == "wake" {
					return f.HandleWakeCommand(scx.ID(from), keys.Wake(s, now.Unix()))
				}
				return f.HandleSleepCommand(scx.ID(from), keys.Sleep(s, now.Unix()))
			}
			for i := range cs.Ops {
				o := &cs.Ops[i]
				switch o.Op {
				case "advance":
					time.Sleep(time.Duration(o.AdvanceMs) * time.Millisecond)
					ticks()
					if len(steps) > 0 && steps[len(steps)-1].OpIdx == -1 {
						steps[len(steps)-1].Cache = snapshot(f)
						steps[len(steps)-1].OpIdx = -2 // cache observed
					}
				case "cleanup":
					f.VerifCleanup()
					steps = append(steps, stepObs{NowNs: time.Now().UnixNano(), OpIdx: -2, Cache: snapshot(f)})
				case "issue":
					// what Agent.TriggerSleep / TriggerWake do with the flooder: the command carries the
					// local identity as origin and in SeenBy, is signed, and is handed to Flood*Command
					rec.take()
					now := time.Now()
					if o.Kind == "wake" {
						f.FloodWakeCommand(keys.Wake(o.Cmd, now.Unix()))
					} else {
						f.FloodSleepCommand(keys.Sleep(o.Cmd, now.Unix()))
					}
					steps = append(steps, stepObs{NowNs: now.UnixNano(), IsIssue: true, OpIdx: i, Fwd: rec.take(), Cache: snapshot(f)})
					issued[fmt.Sprintf("%d/%d/%d", o.Cmd.Origin, o.Cmd.ID, o.Cmd.Ts)] = i
				case "recv":
					rec.take()
					ok := deliver(o.Kind, o.From, o.Cmd)
					if ok {
						if j, was := issued[fmt.Sprintf("%d/%d/%d", o.Cmd.Origin, o.Cmd.ID, o.Cmd.Ts)]; was {
							ownAccepted = append(ownAccepted, [2]int{j, i})
						}
					}
					now := time.Now().UnixNano()
					steps = append(steps, stepObs{NowNs: now, IsRecv: true, OpIdx: i, Accepted: ok, Fwd: rec.take(), Cache: snapshot(f)})
					if ok {
						k := fmt.Sprintf("%s/%d/%d/%d", o.Kind, o.Cmd.Origin, o.Cmd.ID, o.Cmd.Ts)
						acc[k] = append(acc[k], acceptance{NowNs: now, OpIdx: i, JunkSince: junkTotal})
					}
				case "junk":
					overflow = true
					for round := 0; round < 40; round++ {
						for j := 0; j < o.Junk; j++ {
							junkID++
							junkTotal++
							deliver("sleep", 1+j%3, &scx.CmdSpec{Kind: "sleep", Origin: 11, ID: junkID, Sig: "zero"})
						}
						// let the flooder's own next cleanup pass run
						time.Sleep(time.Duration(tickNs - (time.Now().UnixNano()-start)%tickNs))
						synctest.Wait()
						lastTick = (time.Now().UnixNano() - start) / tickNs
						if o.UntilGone == nil {
							break
						}
						gone := true
						for _, e := range f.VerifSleepCmdCache() {
							if scx.Idx(e.Origin) == o.UntilGone.Origin && e.CommandID == o.UntilGone.ID {
								gone = false
							}
						}
						// the junk did not even enter the cache (repaired code): more rounds change nothing
						if gone || f.SleepCommandSeenCacheSize() < o.Junk/2 {
							break
						}
					}
					rec.take()
				}
			}
		})
	})
	return
}

// stress hands the same genuine signed command to the flooder from several
// neighbours at the same moment (one goroutine per peer connection, as the
// peer read loops do), for many commands, in real time. Returns how many
// commands were accepted more than once / never, and the worst count.
func stress(keys *scx.Keys, rounds, neighbours int) (twice, never, worst int) {
	cfg := flood.DefaultFloodConfig()
	var pub [32]byte
	copy(pub[:], keys.Pub)
	cfg.SigningPublicKey = &pub
	rec := &recorder{peers: []identity.AgentID{scx.ID(1), scx.ID(2), scx.ID(3)}}
	f := flood.NewFlooder(cfg, scx.ID(0), routing.NewManager(scx.ID(0)), rec)
	defer f.Stop()
	ts := uint64(time.Now().Unix())
	for r := 0; r < rounds; r++ {
		kind := "sleep"
		if r%3 == 2 {
			kind = "wake"
		}
		spec := &scx.CmdSpec{Kind: kind, Origin: 10 + r%2, ID: uint64(1000 + r), Sig: "valid", TsAbs: &ts}
		sl, wk := keys.Sleep(spec, int64(ts)), keys.Wake(spec, int64(ts))
		var accepted int32
		var wg sync.WaitGroup
		start := make(chan struct{})
		for p := 1; p <= neighbours; p++ {
			wg.Add(1)
			go func(p int) {
				defer wg.Done()
				// each neighbour forwards its own copy of the frame
				var ok bool
				if kind == "wake" {
					c := *wk
					<-start
					ok = f.HandleWakeCommand(scx.ID(p), &c)
				} else {
					c := *sl
					<-start
					ok = f.HandleSleepCommand(scx.ID(p), &c)
				}
				if ok {
					atomic.AddInt32(&accepted, 1)
				}
			}(p)
		}
		close(start)
		wg.Wait()
		rec.take()
		switch {
		case accepted == 0:
			never++
		case accepted > 1:
			twice++
			if int(accepted) > worst {
				worst = int(accepted)
			}
		}
	}
	return
}

// ---------------------------------------------------------------------------
// Agent level, with the agent's REAL sleep callbacks: a started agent.Agent
// (Agent.Start wires enterSleep / exitSleep / doPoll into its sleep manager)
// receives frames through its dispatcher. A command may be delivered as a
// SLEEP_COMMAND / WAKE_COMMAND frame or inside QUEUED_STATE, from different
// peers, and replayed after the agent's state has changed in between.
// Monitor (property text only): a frame that changes the sleep state carries
// a command that has not changed it before.

type aframe struct {
	Via       string       `json:"via"` // frame | queued
	Kind      string       `json:"kind"`
	From      int          `json:"from"`
	AdvanceMs int64        `json:"advance_ms"`
	Cmd       *scx.CmdSpec `json:"cmd"`
}

type aobs struct {
	Before, After int
}

func agentHistory(t *testing.T, keys *scx.Keys, dataDir string, frames []aframe) (out []aobs, panicked string) {
	synctest.Test(t, func(t *testing.T) {
		panicked = vh.Recover(func() {
			cfg := config.Default()
			id0 := scx.ID(0)
			cfg.Agent.ID = hex.EncodeToString(id0[:])
			cfg.Agent.DataDir = dataDir
			cfg.Agent.LogLevel = "error"
			cfg.UDP.Enabled, cfg.ICMP.Enabled, cfg.SOCKS5.Enabled, cfg.HTTP.Enabled = false, false, false, false
			cfg.Listeners, cfg.Peers = nil, nil
			cfg.Sleep.Enabled = true
			cfg.Sleep.PersistState = false
			cfg.Sleep.PollInterval = 12 * time.Hour
			cfg.Sleep.PollIntervalJitter = 0
			cfg.Management.SigningPublicKey = hex.EncodeToString(keys.Pub)
			a, err := agent.New(cfg)
			if err != nil {
				panic(err)
			}
			rec := &recorder{peers: []identity.AgentID{scx.ID(1), scx.ID(2), scx.ID(3)}}
			a.VerifFlooder().VerifSetSender(rec)
			if err := a.Start(); err != nil {
				panic(err)
			}
			defer a.Stop()
			for i := range frames {
				fr := &frames[i]
				if fr.AdvanceMs > 0 {
					time.Sleep(time.Duration(fr.AdvanceMs) * time.Millisecond)
				}
				synctest.Wait()
				now := time.Now().Unix()
				var f *protocol.Frame
				switch {
				case fr.Via == "frame" && fr.Kind == "sleep":
					f = &protocol.Frame{Type: protocol.FrameSleepCommand, StreamID: protocol.ControlStreamID, Payload: keys.Sleep(fr.Cmd, now).Encode()}
				case fr.Via == "frame":
					f = &protocol.Frame{Type: protocol.FrameWakeCommand, StreamID: protocol.ControlStreamID, Payload: keys.Wake(fr.Cmd, now).Encode()}
				case fr.Kind == "sleep":
					f = &protocol.Frame{Type: protocol.FrameQueuedState, StreamID: protocol.ControlStreamID, Payload: (&protocol.QueuedState{SleepCmd: keys.Sleep(fr.Cmd, now)}).Encode()}
				default:
					f = &protocol.Frame{Type: protocol.FrameQueuedState, StreamID: protocol.ControlStreamID, Payload: (&protocol.QueuedState{WakeCmd: keys.Wake(fr.Cmd, now)}).Encode()}
				}
				before := int(a.GetSleepState())
				a.VerifProcessFrame(scx.ID(fr.From), f)
				synctest.Wait()
				out = append(out, aobs{Before: before, After: int(a.GetSleepState())})
				rec.take()
			}
		})
	})
	return
}

func coqCache(es []entryObs) string {
	it := make([]string, len(es))
	for i, e := range es {
		it[i] = fmt.Sprintf("mkentry %s %s %s %s", vh.CoqN(uint64(e.Origin)), vh.CoqN(e.ID), vh.CoqZ(e.AtNs), vh.CoqN(uint64(e.From)))
	}
	return vh.CoqList(it)
}

func u64p(v uint64) *uint64 { return &v }

func genCmd(r *vh.Rand, kind string) *scx.CmdSpec {
	s := &scx.CmdSpec{Kind: kind, Origin: 10 + r.Intn(2), ID: r.PickU64(1, 2, 3)}
	switch r.Intn(8) {
	case 0:
		s.Sig = "zero"
	case 1:
		s.Sig = []string{"wrongkey", "bitflip", "other-ts", "random"}[r.Intn(4)]
	default:
		s.Sig = "valid"
	}
	// few distinct absolute timestamps around the bubble's start (2000-01-01) so that replays are exact copies
	base := uint64(946684800)
	s.TsAbs = u64p(base + uint64(r.Pick(0, 150, 299, 300, 301, 450, 600, 601, 900, 1200)))
	switch r.Intn(6) {
	case 0:
		s.SeenBy = []int{0}
	case 1:
		s.SeenBy = []int{2}
	}
	return s
}

func TestVerif(t *testing.T) {
	c := vh.Start("C29")
	defer c.Finish()
	c.Res.Rule = "case = history of deliveries (genuine / replayed / forged sleep and wake commands over few (origin,id,timestamp) triples), virtual-time advances across the flooder's own cleanup passes, explicit cleanup passes and junk floods; " +
		"the real Flooder's verdict, forwards and seen cache (keys, SeenAt, SeenFrom) after every step are compared with the model; non-trivial = at least one command delivered twice; distinct = distinct history"
	keys := scx.NewKeys(c.Rand.Fork())

	var coq []string
	do := func(cs *caseSpec) {
		steps, acc, ownAccepted, overflow, p := runCase(t, keys, cs)
		if p != "" {
			c.Fail("panic", p, cs)
			return
		}
		// monitor: a command the agent issued itself is never accepted when it comes back
		for _, oa := range ownAccepted {
			c.Fail("own-command-accepted-after-issuing", fmt.Sprintf("the command issued at op %d was accepted when delivered back at op %d (SeenBy %v)", oa[0], oa[1], cs.Ops[oa[1]].Cmd.SeenBy), cs)
		}
		// monitor: every validly signed command is accepted at most once
		for k, as := range acc {
			if len(as) <= 1 {
				continue
			}
			sig := "signed-command-accepted-twice"
			switch {
			case as[1].JunkSince > as[0].JunkSince:
				sig = "replay-accepted-after-cache-flood"
			case as[1].NowNs-as[0].NowNs > int64(300*time.Second):
				sig = "replay-accepted-after-cache-expiry"
			}
			c.Fail(sig, fmt.Sprintf("command %s accepted %d times: first at %d ns (op %d), again at %d ns (op %d)", k, len(as), as[0].NowNs, as[0].OpIdx, as[1].NowNs, as[1].OpIdx), cs)
		}
		key := ""
		dup := false
		seen := map[string]bool{}
		for _, o := range cs.Ops {
			c.Count("op:" + o.Op)
			if o.Cmd != nil {
				key += fmt.Sprintf("|%s:%s:%d:%d:%d:%d:%s:%v", o.Op, o.Kind, o.From, o.Cmd.Origin, o.Cmd.ID, o.Cmd.Ts, o.Cmd.Sig, o.Cmd.SeenBy)
				k := fmt.Sprintf("%d/%d/%d", o.Cmd.Origin, o.Cmd.ID, o.Cmd.Ts)
				if seen[k] {
					dup = true
				}
				seen[k] = true
				c.Count("sig:" + o.Cmd.Sig)
			} else {
				key += fmt.Sprintf("|%s:%d:%d", o.Op, o.AdvanceMs, o.Junk)
			}
		}
		idx := c.Case(key, dup, cs)
		_ = idx
		for _, s := range steps {
			if s.IsRecv {
				if s.Accepted {
					c.Count("accepted")
				} else {
					c.Count("rejected")
				}
			}
		}
		if overflow {
			// junk floods overflow the cache; which entries the size-based
			// eviction removes is map-iteration order: monitored, not compared
			coq = append(coq, "mkfcase []")
			return
		}
		var it []string
		for _, s := range steps {
			if s.IsIssue {
				o := cs.Ops[s.OpIdx]
				k := "KSleep"
				if o.Kind == "wake" {
					k = "KWake"
				}
				it = append(it, fmt.Sprintf("FIssue %s %s %s %s %s", vh.CoqZ(s.NowNs), k, scx.CoqCmd(o.Cmd), scx.CoqNs(s.Fwd), coqCache(s.Cache)))
			} else if s.IsRecv {
				o := cs.Ops[s.OpIdx]
				k := "KSleep"
				if o.Kind == "wake" {
					k = "KWake"
				}
				it = append(it, fmt.Sprintf("FRecv %s %s %s %s %s %s %s", vh.CoqZ(s.NowNs), k, vh.CoqN(uint64(o.From)), scx.CoqCmd(o.Cmd), vh.CoqBool(s.Accepted), scx.CoqNs(s.Fwd), coqCache(s.Cache)))
			} else if s.OpIdx == -2 {
				it = append(it, fmt.Sprintf("FCleanup %s (Some %s)", vh.CoqZ(s.NowNs), coqCache(s.Cache)))
			} else {
				it = append(it, fmt.Sprintf("FCleanup %s None", vh.CoqZ(s.NowNs)))
			}
		}
		coq = append(coq, "mkfcase "+vh.CoqList(it))
	}

	runStress := func(rounds, neighbours int) {
		cs := &caseSpec{Scenario: "concurrent-delivery", Rounds: rounds, Neighbours: neighbours}
		var twice, never, worst int
		if p := vh.Recover(func() { twice, never, worst = stress(keys, rounds, neighbours) }); p != "" {
			c.Fail("panic", p, cs)
			return
		}
		c.Case(fmt.Sprintf("stress/%d/%d", rounds, neighbours), true, cs)
		c.Count("stress-rounds")
		coq = append(coq, "mkfcase []")
		c.Res.Extra["stress_rounds"] = rounds
		if twice > 0 {
			c.Fail("concurrent-delivery-accepted-twice", fmt.Sprintf("%d of %d signed commands were accepted more than once (worst: %d times) when handed in by %d neighbours at the same moment", twice, rounds, worst, neighbours), cs)
		}
		if never > 0 {
			c.Fail("genuine-command-never-accepted", fmt.Sprintf("%d of %d genuine commands were accepted by no handler", never, rounds), cs)
		}
	}

	agentDir, err := os.MkdirTemp("", "c29-agent-")
	if err != nil {
		t.Fatal(err)
	}
	defer os.RemoveAll(agentDir)
	runAgent := func(why string, frames []aframe) {
		cs := &caseSpec{Scenario: "agent-history", Why: why, Frames: frames}
		out, p := agentHistory(t, keys, agentDir, frames)
		if p != "" {
			c.Fail("panic", p, cs)
			return
		}
		key := "agent"
		acted := map[string]int{}
		for i, fr := range frames {
			key += fmt.Sprintf("|%s:%s:%d:%d:%d:%d", fr.Via, fr.Kind, fr.From, fr.Cmd.ID, fr.Cmd.Ts, fr.AdvanceMs)
			c.Count("agent-frame:" + fr.Via + "-" + fr.Kind)
			if i >= len(out) {
				break
			}
			if out[i].Before == out[i].After {
				continue
			}
			k := fmt.Sprintf("%s/%d/%d/%d", fr.Kind, fr.Cmd.Origin, fr.Cmd.ID, fr.Cmd.Ts)
			if j, was := acted[k]; was {
				c.Fail("replayed-command-acted-on-again", fmt.Sprintf("frame %d (%s, %s command %s) changed the sleep state %d -> %d although the same command already changed it at frame %d",
					i, fr.Via, fr.Kind, k, out[i].Before, out[i].After, j), cs)
			} else {
				acted[k] = i
			}
			c.Count("agent-acted")
		}
		c.Case(key, true, cs)
		coq = append(coq, "mkfcase []")
	}

	if c.Replay != "" {
		var cs caseSpec
		if err := c.ReadReplay(&cs); err != nil {
			t.Fatal(err)
		}
		if cs.Scenario == "agent-history" {
			runAgent(cs.Why, cs.Frames)
		} else if cs.Scenario != "" {
			runStress(cs.Rounds, cs.Neighbours)
		} else {
			do(&cs)
		}
	} else {
		runStress(c.N(10000, 60000), 8)
		// agent level with the real sleep callbacks
		mk := func(kind string, id uint64, ts uint64) *scx.CmdSpec {
			return &scx.CmdSpec{Kind: kind, Origin: 10, ID: id, Sig: "valid", TsAbs: u64p(ts)}
		}
		base0 := uint64(946684800)
		runAgent("witness", []aframe{
			{Via: "frame", Kind: "sleep", From: 1, Cmd: mk("sleep", 1, base0)},
			{Via: "frame", Kind: "wake", From: 2, AdvanceMs: 2000, Cmd: mk("wake", 2, base0)},
			{Via: "frame", Kind: "sleep", From: 3, AdvanceMs: 2000, Cmd: mk("sleep", 1, base0)}, // replay of the first sleep
			{Via: "frame", Kind: "sleep", From: 1, AdvanceMs: 1000, Cmd: mk("sleep", 3, base0)},
			{Via: "queued", Kind: "wake", From: 2, AdvanceMs: 1000, Cmd: mk("wake", 2, base0)}, // the old wake, now inside QUEUED_STATE
			{Via: "queued", Kind: "wake", From: 2, AdvanceMs: 1000, Cmd: mk("wake", 4, base0)},
			{Via: "queued", Kind: "sleep", From: 1, AdvanceMs: 1000, Cmd: mk("sleep", 3, base0)}, // replay inside QUEUED_STATE
			{Via: "frame", Kind: "sleep", From: 1, AdvanceMs: 1000, Cmd: mk("sleep", 1, base0)}})
		na := c.N(40, 1500)
		for i := 0; i < na; i++ {
			r := c.Rand.Fork()
			var fs []aframe
			var pool []*scx.CmdSpec
			n := 4 + r.Intn(6)
			asleep := false
			for j := 0; j < n; j++ {
				via := []string{"frame", "queued"}[r.Intn(2)]
				adv := int64(r.Pick(0, 1000, 2000, 30000))
				if len(pool) > 0 && r.Chance(1, 2) {
					p := *pool[r.Intn(len(pool))]
					fs = append(fs, aframe{Via: via, Kind: p.Kind, From: 1 + r.Intn(3), AdvanceMs: adv, Cmd: &p})
					continue
				}
				// a fresh genuine command that changes the state
				kind := "sleep"
				if asleep {
					kind = "wake"
				}
				asleep = !asleep
				cmd := mk(kind, uint64(100+j), base0+uint64(r.Pick(0, 60, 290)))
				pool = append(pool, cmd)
				fs = append(fs, aframe{Via: via, Kind: kind, From: 1 + r.Intn(3), AdvanceMs: adv, Cmd: cmd})
			}
			runAgent("random", fs)
		}
		base := uint64(946684800)
		// witness 1: command stamped 5 min ahead, acted on, replayed after the entry expired but inside the window
		w1 := &scx.CmdSpec{Kind: "sleep", Origin: 10, ID: 1, Sig: "valid", TsAbs: u64p(base + 300)}
		w1b := *w1
		do(&caseSpec{Why: "witness-replay-after-expiry", Ops: []op{
			{Op: "recv", Kind: "sleep", From: 1, Cmd: w1},
			{Op: "advance", AdvanceMs: 451000},
			{Op: "recv", Kind: "sleep", From: 2, Cmd: &w1b}}})
		// same, wake command, replay at the last valid instant
		w2 := &scx.CmdSpec{Kind: "wake", Origin: 10, ID: 2, Sig: "valid", TsAbs: u64p(base + 300)}
		w2b := *w2
		do(&caseSpec{Why: "witness-replay-after-expiry", Ops: []op{
			{Op: "recv", Kind: "wake", From: 1, Cmd: w2},
			{Op: "advance", AdvanceMs: 600000},
			{Op: "recv", Kind: "wake", From: 1, Cmd: &w2b}}})
		// witness 2: genuine command, then forged commands with fresh ids flood the cache until the genuine entry is evicted, then replay
		w3 := &scx.CmdSpec{Kind: "sleep", Origin: 10, ID: 3, Sig: "valid", TsAbs: u64p(base + 200)}
		w3b := *w3
		do(&caseSpec{Why: "witness-replay-after-flood", Ops: []op{
			{Op: "recv", Kind: "sleep", From: 1, Cmd: w3},
			{Op: "junk", Junk: 30000, UntilGone: &scx.Key{Origin: 10, ID: 3}},
			{Op: "recv", Kind: "sleep", From: 2, Cmd: &w3b}}})
		// immediate duplicate (what the repository's tests do)
		w4 := &scx.CmdSpec{Kind: "sleep", Origin: 10, ID: 1, Sig: "valid", TsAbs: u64p(base)}
		w4b := *w4
		do(&caseSpec{Why: "immediate-duplicate", Ops: []op{{Op: "recv", Kind: "sleep", From: 1, Cmd: w4}, {Op: "recv", Kind: "sleep", From: 2, Cmd: &w4b}}})

		// the agent issues a command itself and gets it back with SeenBy stripped, rewritten, and intact
		for _, kind := range []string{"sleep", "wake"} {
			own := &scx.CmdSpec{Kind: kind, Origin: 0, ID: 77, Sig: "valid", TsAbs: u64p(base), SeenBy: []int{0}}
			stripped, rewritten, intact, again := *own, *own, *own, *own
			stripped.SeenBy, rewritten.SeenBy = nil, []int{2}
			do(&caseSpec{Why: "witness-own-command-replayed", Ops: []op{
				{Op: "issue", Kind: kind, Cmd: own},
				{Op: "recv", Kind: kind, From: 1, Cmd: &stripped},
				{Op: "advance", AdvanceMs: 150000},
				{Op: "issue", Kind: kind, Cmd: &again},
				{Op: "recv", Kind: kind, From: 2, Cmd: &rewritten},
				{Op: "advance", AdvanceMs: 149000},
				{Op: "recv", Kind: kind, From: 3, Cmd: &intact}}})
		}

		n := c.N(260, 6000)
		for i := 0; i < n; i++ {
			r := c.Rand.Fork()
			cs := &caseSpec{}
			nops := 3 + r.Intn(8)
			var prev []*op
			for j := 0; j < nops; j++ {
				switch r.Intn(10) {
				case 0, 1, 2:
					cs.Ops = append(cs.Ops, op{Op: "advance", AdvanceMs: int64(r.Pick(1, 999, 1000, 149999, 150000, 150001, 299000, 300000, 301000, 451000, 600000, 601000, 659000, 660000, 661000, 750000, 810000))})
				case 3:
					if r.Chance(1, 2) {
						cs.Ops = append(cs.Ops, op{Op: "cleanup"})
						break
					}
					// the flooder issues a command of its own; its emitted copy may come back later with SeenBy altered
					kind := []string{"sleep", "wake"}[r.Intn(2)]
					o := op{Op: "issue", Kind: kind, Cmd: &scx.CmdSpec{Kind: kind, Origin: 0, ID: r.PickU64(70, 71), Sig: "valid",
						TsAbs: u64p(uint64(946684800) + uint64(r.Pick(0, 150, 300))), SeenBy: []int{0}}}
					cs.Ops = append(cs.Ops, o)
					back := *o.Cmd
					back.SeenBy = [][]int{nil, {2}, {0}, {1, 3}}[r.Intn(4)]
					prev = append(prev, &op{Op: "recv", Kind: kind, Cmd: &back})
				case 4, 5, 6:
					if len(prev) > 0 {
						// exact replay of an earlier delivery, possibly from another peer
						p := prev[r.Intn(len(prev))]
						cp := *p.Cmd
						cs.Ops = append(cs.Ops, op{Op: "recv", Kind: p.Kind, From: 1 + r.Intn(3), Cmd: &cp})
						break
					}
					fallthrough
				default:
					kind := []string{"sleep", "wake"}[r.Intn(2)]
					o := op{Op: "recv", Kind: kind, From: 1 + r.Intn(3), Cmd: genCmd(r, kind)}
					cs.Ops = append(cs.Ops, o)
					prev = append(prev, &cs.Ops[len(cs.Ops)-1])
				}
			}
			// prev holds pointers into a slice that may have been reallocated; replays were copied by value already
			do(cs)
		}
		if c.Thorough() {
			for i := 0; i < 3; i++ {
				w := &scx.CmdSpec{Kind: "wake", Origin: 11, ID: uint64(20 + i), Sig: "valid", TsAbs: u64p(base + 100)}
				wb := *w
				do(&caseSpec{Why: "replay-after-flood", Ops: []op{
					{Op: "recv", Kind: "wake", From: 1, Cmd: w},
					{Op: "junk", Junk: 15000 + 5000*i, UntilGone: &scx.Key{Origin: 11, ID: uint64(20 + i)}},
					{Op: "recv", Kind: "wake", From: 3, Cmd: &wb}}})
			}
		}
	}

	c.WriteCasesV("cases.v", scx.CasesV("From Coq Require Import List NArith ZArith.\nFrom MM Require Import Model.SleepCmd Model.SleepCmdFlood.\nImport ListNotations.\n", "fcase", "fmismatches_from", coq, 1500))
}
