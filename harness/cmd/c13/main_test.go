// c13: correspondence and monitor harness for C13 (flood family; see harness/floodnet).
package main

import (
	"testing"

	"github.com/postalsys/muti-metroo/verifharness/floodnet"
)

func TestVerif(t *testing.T) { floodnet.Main(t, "C13") }
