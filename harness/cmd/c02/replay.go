package main

// Agent-level scenario for the class "a tunnel session's SessionKey object is
// created exactly once and its counters never move backwards": on a live
// two-agent mesh every tunnel kind that is reachable without privileges is
// opened, carries traffic, then has its *_OPEN_ACK delivered to the ingress
// again (twice), then carries traffic again. Every SessionKey object handed
// out by DeriveSessionKey is observed; no two objects holding the same key in
// the same direction may both have sealed something.

import (
	"fmt"

	"github.com/postalsys/muti-metroo/verifharness/cryptomesh"
	"github.com/postalsys/muti-metroo/verifharness/vh"
)

func ackReplay(c *vh.Ctx) {
	m, err := cryptomesh.Start()
	if err != nil {
		c.Note("ack-replay scenario skipped (environment): %v", err)
		c.Res.Extra["ack_replay"] = false
		return
	}
	defer m.Close()
	c.Res.Extra["ack_replay"] = true
	rounds := c.N(1, 5)
	for round := 0; round < rounds; round++ {
		var obs []cryptomesh.ReplayObs
		if p := vh.Recover(func() {
			obs = append(obs, m.ReplayUDP())
			for _, k := range []string{"tcp", "domain", "forward"} {
				obs = append(obs, m.ReplayStream(k))
			}
		}); p != "" {
			c.Fail("panic", "ack-replay scenario panicked: "+p, map[string]any{"kind": "ack-replay"})
			return
		}
		for _, path := range []string{"ws", "socks5"} {
			var io cryptomesh.ICMPObs
			if p := vh.Recover(func() { io = m.ReplayICMP(path) }); p != "" {
				c.Fail("panic", "ICMP ack-replay scenario panicked: "+p, map[string]any{"kind": "ack-replay"})
				return
			}
			if io.OpenErr != "" {
				c.Note("ack-replay icmp-%s: session did not open (%s); not evaluated", path, io.OpenErr)
				continue
			}
			c.Case(fmt.Sprintf("ack-replay/icmp-%s/%d", path, round), true, map[string]any{"kind": "ack-replay", "tunnel": "icmp-" + path, "round": round})
			c.Count("ack-replay:icmp-" + path)
			if io.DerivedByReplay > 0 {
				c.Count("ack-replay-rederived:icmp-" + path)
			}
		}
		for _, o := range obs {
			rp := map[string]any{"kind": "ack-replay", "tunnel": o.Kind, "round": round}
			if o.OpenErr != "" {
				c.Note("ack-replay %s: tunnel did not open (%s); not evaluated", o.Kind, o.OpenErr)
				c.Count("ack-replay-not-opened:" + o.Kind)
				continue
			}
			c.Case(fmt.Sprintf("ack-replay/%s/%d", o.Kind, round), o.AcksReplayed > 0, rp)
			c.Count("ack-replay:" + o.Kind)
			if o.DerivedByReplay > 0 {
				c.Count("ack-replay-rederived:" + o.Kind)
			}
		}
	}
	for _, r := range m.NonceReuse() {
		role := "responder"
		if r.Initiator {
			role = "initiator"
		}
		c.Fail("nonce-reused-after-duplicate-open-ack",
			fmt.Sprintf("request id %d: %d SessionKey objects hold the same key %x in the %s direction and more than one of them has sealed payloads (send counters %v): the pairs (key, nonce 0..) repeat within one tunnel session",
				r.RequestID, len(r.Sends), r.Key[:8], role, r.Sends),
			map[string]any{"kind": "ack-replay"})
	}
}
