package main

// Agent-level scenario for the class "a tunnel session's SessionKey object is
// created exactly once and its counters never move backwards": on a live
// two-agent mesh every tunnel kind that is reachable without privileges is
// opened, carries traffic, then has its *_OPEN_ACK delivered to the ingress
// again (twice), then carries traffic again. Every SessionKey object handed
// out by DeriveSessionKey is observed; no two objects holding the same key in
// the same direction may both have sealed something.

import (
	"fmt"

	"github.com/postalsys/muti-metroo/verifharness/cryptomesh"
	"github.com/postalsys/muti-metroo/verifharness/vh"
)

func ackReplay(c *vh.Ctx) {
	m, err := cryptomesh.Start()
	if err != nil {
		c.Note("ack-replay scenario skipped (environment): %v", err)
		c.Res.Extra["ack_replay"] = false
		return
	}
	defer m.Close()
	c.Res.Extra["ack_replay"] = true
	rounds := c.N(1, 5)
	for round := 0; round < rounds; round++ {
		var obs []cryptomesh.ReplayObs
		if p := vh.Recover(func() {
			obs = append(obs, m.ReplayUDP())
			for _, k := range []string{"tcp", "domain", "forward"} {
				obs = append(obs, m.ReplayStream(k))
			}
		}); p != "" {
			c.Fail("panic", "ack-replay scenario panicked: "+p, map[string]any{"kind": "ack-replay"})
			return
		}
		for _, path := range []string{"ws", "socks5"} {
			var io cryptomesh.ICMPObs
			if p := vh.Recover(func() { io = m.ReplayICMP(path) }); p != "" {
				c.Fail("panic", "ICMP ack-replay scenario panicked: "+p, map[string]any{"kind": "ack-replay"})
				return
			}
			if io.OpenErr != "" {
				c.Note("ack-replay icmp-%s: session did not open (%s); not evaluated", path, io.OpenErr)
				continue
			}
			c.Case(fmt.Sprintf("ack-replay/icmp-%s/%d", path, round), true, map[string]any{"kind": "ack-replay", "tunnel": "icmp-" + path, "round": round})
			c.Count("ack-replay:icmp-" + path)
			if io.DerivedByReplay > 0 {
				c.Count("ack-replay-rederived:icmp-" + path)
			}
		}
		for _, o := range obs {
			rp := map[string]any{"kind": "ack-replay", "tunnel": o.Kind, "round": round}
			if o.OpenErr != "" {
				c.Note("ack-replay %s: tunnel did not open (%s); not evaluated", o.Kind, o.OpenErr)
				c.Count("ack-replay-not-opened:" + o.Kind)
				continue
			}
			c.Case(fmt.Sprintf("ack-replay/%s/%d", o.Kind, round), o.AcksReplayed > 0, rp)
			c.Count("ack-replay:" + o.Kind)
			if o.DerivedByReplay > 0 {
				c.Count("ack-replay-rederived:" + o.Kind)
			}
		}
	}
	// shell client path: metadata frame sealed by OpenShellStream, stdin frames by the adapter
	for i := 0; i < c.N(1, 4); i++ {
		var so cryptomesh.ShellObs
		if p := vh.Recover(func() { so = m.ShellStdin(3) }); p != "" {
			c.Fail("panic", "shell scenario panicked: "+p, map[string]any{"kind": "ack-replay"})
			break
		}
		if so.OpenErr != "" {
			c.Note("shell client scenario: did not open (%s); not evaluated", so.OpenErr)
			break
		}
		c.Case(fmt.Sprintf("shell-client/%d", i), true, map[string]any{"kind": "ack-replay", "tunnel": "shell-client"})
		c.Count(fmt.Sprintf("shell-client:echoed-%d-of-%d", so.Echoed, so.Sent))
	}
	// duplicated ACKs arriving back-to-back over the real connection
	{
		var bo cryptomesh.BurstObs
		if p := vh.Recover(func() { bo = m.AckBurst(c.N(25, 200), 4) }); p != "" {
			c.Fail("panic", "ACK burst scenario panicked: "+p, map[string]any{"kind": "ack-replay"})
		} else {
			c.Count(fmt.Sprintf("ack-burst-opens:%d", bo.Opens/10*10))
			if bo.Failed > 0 {
				c.Note("ACK burst: %d opens failed", bo.Failed)
			}
			for _, id := range bo.DerivedTwice {
				c.Fail("session-key-object-created-twice", fmt.Sprintf("request id %d: when the *_OPEN_ACK arrives several times back-to-back over the peer connection the ingress derives the session key more than once (two SessionKey objects, both starting at nonce counter 0, for one tunnel)", id), map[string]any{"kind": "ack-replay"})
			}
			c.Case("ack-burst", bo.Opens > 0, map[string]any{"kind": "ack-replay", "tunnel": "ack-burst"})
		}
	}
	for _, d := range m.WireNonceReuse() {
		c.Fail("wire-nonce-repeated-within-tunnel", fmt.Sprintf("%s stream %d (%s): nonce %s seen %d times on the wire within one tunnel and direction — one tunnel has one key, so the (key, nonce) pair repeats", d.Side, d.StreamID, d.Frame, d.Nonce, d.Count), map[string]any{"kind": "ack-replay"})
	}
	for _, r := range m.NonceReuse() {
		role := "responder"
		if r.Initiator {
			role = "initiator"
		}
		c.Fail("nonce-reused-after-duplicate-open-ack",
			fmt.Sprintf("request id %d: %d SessionKey objects hold the same key %x in the %s direction and more than one of them has sealed payloads (send counters %v): the pairs (key, nonce 0..) repeat within one tunnel session",
				r.RequestID, len(r.Sends), r.Key[:8], role, r.Sends),
			map[string]any{"kind": "ack-replay"})
	}
}
