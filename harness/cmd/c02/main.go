// c02: correspondence and monitor harness for C02 (no nonce is ever reused
// under a session key, in either direction).
//
// Implementation under test: crypto.SessionKey.Encrypt on both ends of real
// sessions (keys derived through the real ECDH + DeriveSessionKey with the
// role flags true/false), hammered by concurrent senders on both ends at
// once, with counters started anywhere in [0, 2^64) through the verif-only
// accessor. Observed: the 12-byte nonce prefix of every ciphertext.
package main

import (
	"bytes"
	"encoding/binary"
	"fmt"
	"sort"
	"strings"
	"sync"

	"golang.org/x/crypto/chacha20poly1305"

	"github.com/postalsys/muti-metroo/internal/crypto"
	"github.com/postalsys/muti-metroo/verifharness/cryptomesh"
	"github.com/postalsys/muti-metroo/verifharness/vh"
)

type U64 uint64

func (u U64) MarshalJSON() ([]byte, error) { return []byte(fmt.Sprintf("\"%d\"", uint64(u))), nil }
func (u *U64) UnmarshalJSON(b []byte) error {
	var v uint64
	if _, err := fmt.Sscan(strings.Trim(string(b), "\""), &v); err != nil {
		return err
	}
	*u = U64(v)
	return nil
}

type replay struct {
	Name       string `json:"name"`
	IStart     U64    `json:"i_start"`
	RStart     U64    `json:"r_start"`
	Goroutines int    `json:"goroutines"`
	PerG       int    `json:"per_goroutine"`
	PlainLen   int    `json:"plain_len"`
	SameRole   string `json:"same_role,omitempty"` // documentation of negative controls (never set by the generator)
}

func newPair() (*crypto.SessionKey, *crypto.SessionKey, error) {
	privA, pubA, err := crypto.GenerateEphemeralKeypair()
	if err != nil {
		return nil, nil, err
	}
	privB, pubB, err := crypto.GenerateEphemeralKeypair()
	if err != nil {
		return nil, nil, err
	}
	sa, err := crypto.ComputeECDH(privA, pubB)
	if err != nil {
		return nil, nil, err
	}
	sb, err := crypto.ComputeECDH(privB, pubA)
	if err != nil {
		return nil, nil, err
	}
	return crypto.DeriveSessionKey(sa, 99, pubA, pubB, true), crypto.DeriveSessionKey(sb, 99, pubA, pubB, false), nil
}

// storm: g goroutines x m Encrypt calls on sk; returns every ciphertext's nonce.
func storm(sk *crypto.SessionKey, g, m, plen int, start <-chan struct{}, wg *sync.WaitGroup, out *[][]byte, errs *[]string, mu *sync.Mutex) {
	kb := sk.Key()
	aead, _ := chacha20poly1305.New(kb[:])
	for i := 0; i < g; i++ {
		wg.Add(1)
		go func(i int) {
			defer wg.Done()
			<-start
			local := make([][]byte, 0, m)
			pt := make([]byte, plen)
			for j := 0; j < m; j++ {
				var ct []byte
				var err error
				if p := vh.Recover(func() { ct, err = sk.Encrypt(pt) }); p != "" {
					mu.Lock()
					*errs = append(*errs, "panic: "+p)
					mu.Unlock()
					return
				}
				if err != nil || len(ct) != len(pt)+crypto.EncryptionOverhead {
					mu.Lock()
					*errs = append(*errs, fmt.Sprintf("encrypt: err=%v len=%d", err, len(ct)))
					mu.Unlock()
					return
				}
				// the nonce on the wire must be the nonce the AEAD was given (and no
				// associated data): open the frame ourselves with exactly that
				if aead != nil {
					if got, oerr := aead.Open(nil, ct[:12], ct[12:], nil); oerr != nil || !bytes.Equal(got, pt) {
						mu.Lock()
						*errs = append(*errs, fmt.Sprintf("aead-args: ciphertext with wire nonce %x does not open under (session key, wire nonce, no associated data): %v", ct[:12], oerr))
						mu.Unlock()
						return
					}
				}
				local = append(local, append([]byte(nil), ct[:12]...))
			}
			mu.Lock()
			*out = append(*out, local...)
			mu.Unlock()
		}(i)
	}
}

func main() {
	c := vh.Start("C02")
	defer c.Finish()
	if cryptomesh.IsChild() {
		ackReplay(c)
		return
	}
	c.Res.Rule = "case = one end of a real session (role, start counter) with G concurrent senders x M Encrypt calls while the other end is hammered at the same time; " +
		"the multiset of emitted 12-byte nonces is compared with the model's; non-trivial = at least 2 calls; distinct = distinct (role,start,G,M)"

	var coq []string
	runCase := func(r replay) {
		ski, skr, err := newPair()
		if err != nil {
			c.Fail("key-setup", err.Error(), r)
			return
		}
		if !ski.VerifIsInitiator() || skr.VerifIsInitiator() {
			c.Fail("role-flag-lost", "DeriveSessionKey did not keep the isInitiator flag it was given", r)
		}
		ski.VerifSetCounters(uint64(r.IStart), 0)
		skr.VerifSetCounters(uint64(r.RStart), 0)
		var wg sync.WaitGroup
		var mu sync.Mutex
		var ni, nr [][]byte
		var errs []string
		start := make(chan struct{})
		storm(ski, r.Goroutines, r.PerG, r.PlainLen, start, &wg, &ni, &errs, &mu)
		storm(skr, r.Goroutines, r.PerG, r.PlainLen, start, &wg, &nr, &errs, &mu)
		close(start)
		wg.Wait()
		for _, e := range errs {
			if strings.HasPrefix(e, "aead-args:") {
				c.Fail("aead-nonce-differs-from-wire-nonce", e+" — the wire prefixes are distinct but the nonces actually used for sealing are not known to be", r)
			} else {
				c.Fail("encrypt-error", e, r)
			}
		}
		// ---- monitor: no two payloads sealed under the same key and nonce ----
		seen := map[string]string{}
		for side, ns := range map[string][][]byte{"I": ni, "R": nr} {
			for _, n := range ns {
				k := string(n)
				if prev, dup := seen[k]; dup {
					sig := "nonce-reused-same-direction"
					if prev != side {
						sig = "nonce-reused-across-directions"
					}
					c.Fail(sig, fmt.Sprintf("nonce %x used twice under one session key (ends %s and %s)", n, prev, side), r)
				}
				seen[k] = side
			}
		}
		// counters afterwards
		si, _ := ski.VerifCounters()
		sr, _ := skr.VerifCounters()
		total := uint64(r.Goroutines * r.PerG)
		if si != uint64(r.IStart)+total || sr != uint64(r.RStart)+total {
			c.Fail("send-counter-lost-update", fmt.Sprintf("after %d calls per end the send counters are %d and %d (started at %d and %d)", total, si, sr, uint64(r.IStart), uint64(r.RStart)), r)
		}
		// ---- observed nonces for the model ----
		emit := func(side string, startCtr uint64, ns [][]byte) {
			sort.Slice(ns, func(a, b int) bool {
				ca, cb := binary.BigEndian.Uint64(ns[a][4:])-startCtr, binary.BigEndian.Uint64(ns[b][4:])-startCtr
				if ca != cb {
					return ca < cb
				}
				return string(ns[a]) < string(ns[b])
			})
			// lossless run-length encoding of the sorted observation
			var items []string
			for i := 0; i < len(ns); {
				pre := binary.BigEndian.Uint32(ns[i][:4])
				first := binary.BigEndian.Uint64(ns[i][4:])
				j := i + 1
				for j < len(ns) && binary.BigEndian.Uint32(ns[j][:4]) == pre && binary.BigEndian.Uint64(ns[j][4:]) == first+uint64(j-i) {
					j++
				}
				items = append(items, fmt.Sprintf("(%d, %d, %d%%nat)", pre, first, j-i))
				i = j
			}
			cs := "Ini"
			if side == "R" {
				cs = "Res"
			}
			c.Case(fmt.Sprintf("%s/%d/%d/%d", side, startCtr, r.Goroutines, r.PerG), len(ns) >= 2, r)
			coq = append(coq, fmt.Sprintf("mkncase %s %d %d%%nat %s", cs, startCtr, r.Goroutines*r.PerG, vh.CoqList(items)))
		}
		emit("I", uint64(r.IStart), ni)
		emit("R", uint64(r.RStart), nr)
		c.Count(fmt.Sprintf("goroutines:%d", r.Goroutines))
		c.Count(fmt.Sprintf("calls-per-end:%d", (r.Goroutines*r.PerG+99)/100*100))
		if r.IStart != 0 || r.RStart != 0 {
			c.Count("start-counter-set")
		} else {
			c.Count("start-counter-zero")
		}
	}

	if c.Replay != "" {
		var r replay
		if err := c.ReadReplay(&r); err != nil {
			panic(err)
		}
		if r.Name == "" && r.Goroutines == 0 {
			ackReplay(c) // replay of an agent-level ack-replay failure
		} else {
			runCase(r)
		}
	} else {
		boundary := []uint64{0, 1, 255, 256, 1<<32 - 1, 1 << 32, 1<<63 - 1, 1 << 63, ^uint64(0) - 300, ^uint64(0) - 1, ^uint64(0)}
		runCase(replay{Name: "fresh-session-single-sender", Goroutines: 1, PerG: 300, PlainLen: 3})
		runCase(replay{Name: "fresh-session-16-senders", Goroutines: 16, PerG: 40, PlainLen: 0})
		runCase(replay{Name: "both-ends-same-counter-near-wrap", IStart: U64(^uint64(0) - 5), RStart: U64(^uint64(0) - 5), Goroutines: 4, PerG: 4, PlainLen: 1})
		root := vh.NewRand(int64(uint64(c.Seed)*0xD1342543DE82EF95 + 0x632BE59BD9B4E019))
		n := c.N(30, 300)
		for i := 0; i < n; i++ {
			r := root.Fork()
			rp := replay{Name: "random", Goroutines: r.Pick(1, 2, 4, 8, 16, 32), PerG: r.Pick(1, 2, 7, 20, 40), PlainLen: r.Pick(0, 1, 16, 1000)}
			switch r.Intn(3) {
			case 0:
			case 1:
				v := r.PickU64(boundary...)
				rp.IStart, rp.RStart = U64(v), U64(v) // same counter value on both ends: only the direction prefix separates them
			default:
				rp.IStart, rp.RStart = U64(r.PickU64(boundary...)), U64(r.PickU64(boundary...))
			}
			runCase(rp)
		}
	}

	if c.Replay == "" {
		cryptomesh.Run(c, func() { ackReplay(c) })
	}

	var sb strings.Builder
	sb.WriteString("From Coq Require Import List NArith String.\nFrom MM Require Import Lib.Bytes Model.Session.\nImport ListNotations.\nLocal Open Scope N_scope.\nLocal Open Scope string_scope.\n")
	sb.WriteString("Definition cases : list ncase := \n" + vh.CoqList(coq) + ".\n")
	sb.WriteString("Definition M := Eval vm_compute in nonce_mismatches cases.\nPrint M.\n")
	c.WriteCasesV("cases.v", sb.String())
}
