// c22: correspondence and monitor harness for C22 (SOCKS5 UDP associations
// relay only for their own client).
//
// Implementation under test: socks5.Handler.handleUDPAssociate (expected
// client address from the request) and socks5.UDPAssociation.ReadLoop /
// WriteToClient, reached through the real Handler.Handle over a real TCP
// control connection on loopback; datagrams are sent from real UDP sockets
// bound to 127.0.0.1 (two ports), 127.0.0.2 and 127.0.0.3. The mesh side is
// a recording UDPAssociationHandler.
//
// Ordering: datagrams are sent one after the other from one goroutine
// (loopback delivery enqueues in send order) and ReadLoop handles them
// strictly in arrival order; after every group the harness sends a datagram
// from the owner's socket and waits until the handler has relayed it, which
// proves that everything sent before has been dealt with. No sleeps.
package main

import (
	"context"
	"fmt"
	"io"
	"net"
	"strings"
	"sync"
	"time"

	"github.com/postalsys/muti-metroo/internal/socks5"
	"github.com/postalsys/muti-metroo/verifharness/policy"
	"github.com/postalsys/muti-metroo/verifharness/vh"
)

// sender sockets
var senderAddrs = []string{"127.0.0.1", "127.0.0.1", "127.0.0.2", "127.0.0.3"}

type Event struct {
	Kind   string `json:"kind"`             // dgram | reply | session (other SOCKS5 sessions on the same handler whose requests carry the address of sender socket Sender)
	Sender int    `json:"sender,omitempty"` // index into the sender sockets
	Bad    string `json:"bad,omitempty"`    // "" | frag | short | atyp  (malformed SOCKS5 UDP header)
}

type Scenario struct {
	Name string `json:"name"`
	// the TCP control connection is made from this address
	ControlIP string `json:"control_ip"` // "127.0.0.1" | "127.0.0.2"
	// DST.ADDR / DST.PORT of the UDP ASSOCIATE request: "" = 0.0.0.0:0
	ReqIP       string  `json:"req_ip"`
	ReqPortFrom int     `json:"req_port_from"` // -1: port 0; otherwise the port of that sender socket
	Events      []Event `json:"events"`
}

// recording mesh side
type mesh struct {
	mu      sync.Mutex
	cond    *sync.Cond
	relayed []string // payloads in relay order
	assoc   *socks5.UDPAssociation
}

func (m *mesh) CreateUDPAssociation(ctx context.Context, clientAddr *net.UDPAddr) (uint64, error) {
	return 7, nil
}
func (m *mesh) SetSOCKS5UDPAssociation(streamID uint64, assoc *socks5.UDPAssociation) {
	m.mu.Lock()
	m.assoc = assoc
	m.cond.Broadcast()
	m.mu.Unlock()
}
func (m *mesh) RelayUDPDatagram(streamID uint64, destAddr net.Addr, destPort uint16, addrType byte, rawAddr []byte, data []byte) error {
	m.mu.Lock()
	m.relayed = append(m.relayed, string(data))
	m.cond.Broadcast()
	m.mu.Unlock()
	return nil
}
func (m *mesh) CloseUDPAssociation(streamID uint64) {}
func (m *mesh) IsUDPEnabled() bool                  { return true }

// waitRelayed waits until payload has been relayed.
func (m *mesh) waitRelayed(payload string, d time.Duration) bool {
	deadline := time.Now().Add(d)
	t := time.AfterFunc(d, func() { m.mu.Lock(); m.cond.Broadcast(); m.mu.Unlock() })
	defer t.Stop()
	m.mu.Lock()
	defer m.mu.Unlock()
	for {
		for _, p := range m.relayed {
			if p == payload {
				return true
			}
		}
		if time.Now().After(deadline) {
			return false
		}
		m.cond.Wait()
	}
}

type env struct {
	c       *vh.Ctx
	ln      net.Listener
	ln6     net.Listener // [::1]: control connections over IPv6 (nil when unavailable)
	handler *socks5.Handler
	socks   []*net.UDPConn
	coq     []string
	nextPay int
	lost    int // scenarios aborted because the owner's datagram was not relayed
}

func udpHeader(bad string) []byte {
	switch bad {
	case "frag":
		return []byte{0, 0, 1, 1, 9, 9, 9, 9, 0, 53}
	case "atyp":
		return []byte{0, 0, 0, 7, 9, 9, 9, 9, 0, 53}
	case "short":
		return []byte{0, 0, 0, 1, 9}
	}
	return []byte{0, 0, 0, 1, 9, 9, 9, 9, 0, 53}
}

func (e *env) ownerSocket(sc Scenario) int {
	owner := sc.ControlIP
	if sc.ReqIP != "" {
		owner = sc.ReqIP
	}
	for i, a := range senderAddrs {
		if a == owner {
			return i
		}
	}
	return 0
}

func (e *env) runScenario(sc Scenario) {
	c := e.c
	m := &mesh{}
	m.cond = sync.NewCond(&m.mu)
	e.handler.SetUDPHandler(m)

	if sc.ControlIP == "pipe" {
		e.runPipeScenario(sc, m)
		return
	}
	if strings.Contains(sc.ControlIP, ":") {
		e.runV6ControlScenario(sc, m)
		return
	}
	// control connection from the chosen local address
	d := net.Dialer{LocalAddr: &net.TCPAddr{IP: net.ParseIP(sc.ControlIP)}, Timeout: 5 * time.Second}
	cc, err := d.Dial("tcp", e.ln.Addr().String())
	if err != nil {
		c.Fail("control-dial-failed", err.Error(), sc)
		return
	}
	defer cc.Close()
	sconn, err := e.ln.Accept()
	if err != nil {
		c.Fail("control-accept-failed", err.Error(), sc)
		return
	}
	handled := make(chan struct{})
	go func() { defer close(handled); defer sconn.Close(); e.handler.Handle(sconn) }()

	// greeting + UDP ASSOCIATE
	req := []byte{5, 1, 0, 5, 3, 0, 1}
	reqIP := net.IPv4zero.To4()
	reqPort := 0
	if sc.ReqIP != "" {
		reqIP = net.ParseIP(sc.ReqIP).To4()
	}
	if sc.ReqPortFrom >= 0 {
		reqPort = e.socks[sc.ReqPortFrom].LocalAddr().(*net.UDPAddr).Port
	}
	req = append(req, reqIP...)
	req = append(req, byte(reqPort>>8), byte(reqPort))
	cc.SetDeadline(time.Now().Add(10 * time.Second))
	if _, err := cc.Write(req); err != nil {
		c.Fail("control-write-failed", err.Error(), sc)
		return
	}
	rep := make([]byte, 12)
	n := 0
	for n < 12 {
		k, err := cc.Read(rep[n:])
		if err != nil {
			c.Fail("associate-failed", fmt.Sprintf("reply % x: %v", rep[:n], err), sc)
			return
		}
		n += k
	}
	if rep[0] != 5 || rep[1] != 0 || rep[2] != 5 || rep[3] != 0 || rep[5] != 1 {
		c.Fail("associate-failed", fmt.Sprintf("reply % x", rep), sc)
		return
	}
	relay := &net.UDPAddr{IP: net.IPv4(127, 0, 0, 1), Port: int(rep[10])<<8 | int(rep[11])}
	m.mu.Lock()
	assoc := m.assoc
	m.mu.Unlock()
	if assoc == nil {
		c.Fail("associate-failed", "no association handed to the mesh side", sc)
		return
	}

	ownerIP := net.ParseIP(sc.ControlIP)
	if sc.ReqIP != "" {
		ownerIP = net.ParseIP(sc.ReqIP)
	}
	ownerSock := e.ownerSocket(sc)
	isOwner := func(a *net.UDPAddr) bool { return a != nil && a.IP.Equal(ownerIP) }

	type sent struct {
		payload string
		sender  int
		bad     string
	}
	var pending []sent
	var steps []string
	seenRelayed := 0
	flush := func() bool {
		// sentinel from the owner's socket: when it has been relayed, every
		// datagram sent before it has been handled
		e.nextPay++
		sp := fmt.Sprintf("sync-%d", e.nextPay)
		if _, err := e.socks[ownerSock].WriteToUDP(append(udpHeader(""), sp...), relay); err != nil {
			c.Fail("send-failed", err.Error(), sc)
			return false
		}
		if !m.waitRelayed(sp, 3*time.Second) {
			// still evaluate what did get relayed before reporting the lost datagram
			m.mu.Lock()
			got := append([]string{}, m.relayed[seenRelayed:]...)
			m.mu.Unlock()
			for _, s := range pending {
				src := e.socks[s.sender].LocalAddr().(*net.UDPAddr)
				for _, p := range got {
					if p == s.payload && !isOwner(src) {
						c.Fail("datagram-from-non-owner-relayed",
							fmt.Sprintf("datagram from %s was relayed into the mesh; the association belongs to %s (control connection from %s, request address %q)", src, ownerIP, sc.ControlIP, sc.ReqIP), sc)
					}
				}
			}
			if dst := assoc.VerifActualClientAddr(); dst != nil && !isOwner(dst) {
				c.Fail("reply-sent-to-non-owner",
					fmt.Sprintf("the recorded client address (destination of replies) is %s; the association belongs to %s (control connection from %s, request address %q)", dst, ownerIP, sc.ControlIP, sc.ReqIP), sc)
			}
			c.Fail("owner-datagram-not-relayed",
				fmt.Sprintf("a well-formed datagram from the association's owner %s was not relayed within 3 s", e.socks[ownerSock].LocalAddr()), sc)
			e.lost++
			return false
		}
		m.mu.Lock()
		got := append([]string{}, m.relayed[seenRelayed:]...)
		seenRelayed = len(m.relayed)
		m.mu.Unlock()
		rel := map[string]bool{}
		for _, p := range got {
			rel[p] = true
		}
		known := map[string]bool{sp: true}
		for _, s := range pending {
			known[s.payload] = true
		}
		for _, p := range got {
			if !known[p] {
				c.Fail("unexpected-relay", fmt.Sprintf("the handler relayed a payload %q that no well-formed datagram carried", p), sc)
			}
		}
		// relay order must be arrival order
		idx := 0
		for _, s := range append(pending, sent{payload: sp, sender: ownerSock}) {
			if rel[s.payload] {
				if idx >= len(got) || got[idx] != s.payload {
					c.Fail("relay-order-differs-from-arrival-order", fmt.Sprintf("relayed %q", got), sc)
				}
				idx++
			}
		}
		for _, s := range pending {
			src := e.socks[s.sender].LocalAddr().(*net.UDPAddr)
			c.Count(fmt.Sprintf("dgram:from-%s:relayed=%v", map[bool]string{true: "owner-ip", false: "other-ip"}[isOwner(src)], rel[s.payload]))
			if rel[s.payload] && !isOwner(src) {
				c.Fail("datagram-from-non-owner-relayed",
					fmt.Sprintf("datagram from %s was relayed into the mesh; the association belongs to %s (control connection from %s, request address %q)", src, ownerIP, sc.ControlIP, sc.ReqIP), sc)
			}
			steps = append(steps, fmt.Sprintf("(EvDgram %s %s, ObsRelayed %s)", coqAddr(src), vh.CoqBool(s.bad == ""), vh.CoqBool(rel[s.payload])))
		}
		src := e.socks[ownerSock].LocalAddr().(*net.UDPAddr)
		steps = append(steps, fmt.Sprintf("(EvDgram %s true, ObsRelayed true)", coqAddr(src)))
		pending = nil
		return true
	}

	nontrivial := false
	for _, ev := range sc.Events {
		switch ev.Kind {
		case "dgram":
			e.nextPay++
			p := fmt.Sprintf("d-%d", e.nextPay)
			pkt := append(udpHeader(ev.Bad), p...)
			if ev.Bad == "short" {
				pkt = udpHeader(ev.Bad) // shorter than any valid header: carries no payload
			}
			if _, err := e.socks[ev.Sender].WriteToUDP(pkt, relay); err != nil {
				c.Fail("send-failed", err.Error(), sc)
				return
			}
			pending = append(pending, sent{p, ev.Sender, ev.Bad})
		case "session":
			e.otherSessions(senderAddrs[ev.Sender])
			c.Count("other-sessions")
		case "reply":
			if len(steps) > 0 || len(pending) > 0 {
				if !flush() {
					return
				}
			}
			e.nextPay++
			p := fmt.Sprintf("r-%d", e.nextPay)
			err := assoc.WriteToClient(1, []byte{9, 9, 9, 9}, 53, []byte(p))
			dst := assoc.VerifActualClientAddr()
			if err != nil {
				if dst != nil {
					c.Fail("reply-failed", err.Error(), sc)
					return
				}
				steps = append(steps, "(EvReply, ObsReplyTo None)")
				c.Count("reply:no-client-yet")
				break
			}
			// the datagram must really arrive at the socket named by the recorded client address
			hit := -1
			for i, s := range e.socks {
				la := s.LocalAddr().(*net.UDPAddr)
				if dst != nil && la.Port == dst.Port && la.IP.Equal(dst.IP) {
					hit = i
				}
			}
			if hit < 0 {
				c.Fail("reply-to-unknown-address", fmt.Sprintf("reply sent to %v which is none of the harness sockets", dst), sc)
				return
			}
			buf := make([]byte, 2048)
			e.socks[hit].SetReadDeadline(time.Now().Add(5 * time.Second))
			nn, from, rerr := e.socks[hit].ReadFromUDP(buf)
			if rerr != nil || !strings.HasSuffix(string(buf[:nn]), p) || from.Port != relay.Port {
				c.Fail("reply-not-received", fmt.Sprintf("socket %s: %v %q", e.socks[hit].LocalAddr(), rerr, buf[:nn]), sc)
				return
			}
			nontrivial = true
			c.Count(fmt.Sprintf("reply:to-%s", map[bool]string{true: "owner-ip", false: "other-ip"}[isOwner(dst)]))
			if !isOwner(dst) {
				c.Fail("reply-sent-to-non-owner",
					fmt.Sprintf("a reply datagram was delivered to %s; the association belongs to %s (control connection from %s, request address %q)", dst, ownerIP, sc.ControlIP, sc.ReqIP), sc)
			}
			steps = append(steps, fmt.Sprintf("(EvReply, ObsReplyTo (Some %s))", coqAddr(dst)))
		}
	}
	if !flush() {
		return
	}
	// end of the association: closing the control connection ends Handle
	cc.Close()
	select {
	case <-handled:
	case <-time.After(10 * time.Second):
		c.Fail("handler-did-not-end", "Handle did not return within 10 s after the control connection was closed", sc)
	}
	expected := "None"
	if sc.ReqIP != "" {
		expected = "(Some " + coqIP(net.ParseIP(sc.ReqIP)) + ")"
	}
	c.Case(sc.Name, nontrivial || len(sc.Events) > 1, sc)
	e.coq = append(e.coq, fmt.Sprintf("(mkAssoc %s (Some %s),\n  %s)", expected, coqIP(net.ParseIP(sc.ControlIP)), policy.CoqListNL(steps)))
}

// runPipeScenario: the control connection is not a TCP connection (what the
// WebSocket listener hands to the handler: RemoteAddr() is not a *net.TCPAddr)
// and the request named no address, so nobody knows the owner's address: the
// repaired code trusts the first sender and then sticks to its IP. The
// association is built with the package's own constructor.
func (e *env) runPipeScenario(sc Scenario, m *mesh) {
	c := e.c
	p1, p2 := net.Pipe()
	defer p1.Close()
	defer p2.Close()
	assoc, err := socks5.NewUDPAssociation(p2, m, net.IPv4(127, 0, 0, 1))
	if err != nil {
		c.Fail("associate-failed", err.Error(), sc)
		return
	}
	assoc.SetStreamID(7)
	go assoc.ReadLoop()
	defer assoc.Close()
	relay := assoc.LocalAddr()
	first := -1
	for _, ev := range sc.Events {
		if ev.Kind == "dgram" {
			first = ev.Sender
			break
		}
	}
	if first < 0 {
		return
	}
	firstIP := e.socks[first].LocalAddr().(*net.UDPAddr).IP
	var steps []string
	var pend []struct {
		p      string
		sender int
		bad    string
	}
	seen := 0
	flush := func() bool {
		e.nextPay++
		sp := fmt.Sprintf("sync-%d", e.nextPay)
		e.socks[first].WriteToUDP(append(udpHeader(""), sp...), relay)
		if !m.waitRelayed(sp, 3*time.Second) {
			c.Fail("first-sender-datagram-not-relayed", "owner unknown: a well-formed datagram from the first sender was not relayed within 3 s", sc)
			e.lost++
			return false
		}
		m.mu.Lock()
		got := append([]string{}, m.relayed[seen:]...)
		seen = len(m.relayed)
		m.mu.Unlock()
		rel := map[string]bool{}
		for _, p := range got {
			rel[p] = true
		}
		for _, s := range pend {
			src := e.socks[s.sender].LocalAddr().(*net.UDPAddr)
			c.Count(fmt.Sprintf("pipe-dgram:first-sender-ip=%v:relayed=%v", src.IP.Equal(firstIP), rel[s.p]))
			if rel[s.p] && !src.IP.Equal(firstIP) {
				c.Fail("datagram-from-second-address-relayed", fmt.Sprintf("owner unknown: first sender %s, but a datagram from %s was relayed too", firstIP, src), sc)
			}
			steps = append(steps, fmt.Sprintf("(EvDgram %s %s, ObsRelayed %s)", coqAddr(src), vh.CoqBool(s.bad == ""), vh.CoqBool(rel[s.p])))
		}
		steps = append(steps, fmt.Sprintf("(EvDgram %s true, ObsRelayed true)", coqAddr(e.socks[first].LocalAddr().(*net.UDPAddr))))
		pend = nil
		return true
	}
	started := false
	for _, ev := range sc.Events {
		switch ev.Kind {
		case "dgram":
			started = true
			e.nextPay++
			p := fmt.Sprintf("d-%d", e.nextPay)
			pkt := append(udpHeader(ev.Bad), p...)
			if ev.Bad == "short" {
				pkt = udpHeader(ev.Bad)
			}
			e.socks[ev.Sender].WriteToUDP(pkt, relay)
			pend = append(pend, struct {
				p      string
				sender int
				bad    string
			}{p, ev.Sender, ev.Bad})
		case "reply":
			if !started {
				if err := assoc.WriteToClient(1, []byte{9, 9, 9, 9}, 53, []byte("x")); err == nil {
					c.Fail("reply-without-client", "WriteToClient succeeded before any datagram arrived", sc)
				}
				steps = append(steps, "(EvReply, ObsReplyTo None)")
				continue
			}
			if !flush() {
				return
			}
			e.nextPay++
			p := fmt.Sprintf("r-%d", e.nextPay)
			if err := assoc.WriteToClient(1, []byte{9, 9, 9, 9}, 53, []byte(p)); err != nil {
				c.Fail("reply-failed", err.Error(), sc)
				return
			}
			dst := assoc.VerifActualClientAddr()
			hit := -1
			for i, s := range e.socks {
				la := s.LocalAddr().(*net.UDPAddr)
				if dst != nil && la.Port == dst.Port && la.IP.Equal(dst.IP) {
					hit = i
				}
			}
			if hit < 0 {
				c.Fail("reply-to-unknown-address", fmt.Sprintf("reply sent to %v", dst), sc)
				return
			}
			buf := make([]byte, 2048)
			e.socks[hit].SetReadDeadline(time.Now().Add(5 * time.Second))
			nn, _, rerr := e.socks[hit].ReadFromUDP(buf)
			if rerr != nil || !strings.HasSuffix(string(buf[:nn]), p) {
				c.Fail("reply-not-received", fmt.Sprintf("socket %s: %v", e.socks[hit].LocalAddr(), rerr), sc)
				return
			}
			c.Count(fmt.Sprintf("pipe-reply:to-first-sender-ip=%v", dst.IP.Equal(firstIP)))
			if !dst.IP.Equal(firstIP) {
				c.Fail("reply-to-second-address", fmt.Sprintf("owner unknown: first sender %s, reply delivered to %s", firstIP, dst), sc)
			}
			steps = append(steps, fmt.Sprintf("(EvReply, ObsReplyTo (Some %s))", coqAddr(dst)))
		}
	}
	if !flush() {
		return
	}
	c.Case(sc.Name, true, sc)
	e.coq = append(e.coq, fmt.Sprintf("(mkAssoc None None,\n  %s)", policy.CoqListNL(steps)))
}

// otherSessions runs unrelated SOCKS5 sessions on the SAME handler while the
// association is alive: requests whose IP-typed address is x (IPv4 form and
// IPv4-mapped IPv6 form), some one after the other and some concurrently.
// They have nothing to do with the association: its owner must not change.
func (e *env) otherSessions(x string) {
	ip4 := net.ParseIP(x).To4()
	ip16 := net.ParseIP(x).To16()
	reqs := [][]byte{
		append(append([]byte{5, 1, 0, 5, 2, 0, 1}, ip4...), 0, 80),   // BIND (unsupported), IPv4
		append(append([]byte{5, 1, 0, 5, 2, 0, 4}, ip16...), 0, 80),  // BIND, IPv6-typed
		append(append([]byte{5, 1, 0, 5, 1, 0, 1}, ip4...), 0, 1),    // CONNECT to a closed loopback port
		append(append([]byte{5, 1, 0, 5, 9, 0, 1}, ip4...), 0xff, 1), // unknown command
	}
	one := func(in []byte) {
		c1, s1 := net.Pipe()
		done := make(chan struct{})
		go func() { defer close(done); e.handler.Handle(s1); s1.Close() }()
		go func() { c1.Write(in) }()
		c1.SetReadDeadline(time.Now().Add(5 * time.Second))
		buf := make([]byte, 64)
		for n := 0; n < 2; n++ {
			if _, err := c1.Read(buf); err != nil {
				break
			}
		}
		c1.Close()
		select {
		case <-done:
		case <-time.After(5 * time.Second):
		}
	}
	for i := 0; i < 12; i++ {
		one(reqs[i%len(reqs)])
	}
	var wg sync.WaitGroup
	for i := 0; i < 12; i++ {
		wg.Add(1)
		go func(i int) { defer wg.Done(); one(reqs[i%len(reqs)]) }(i)
	}
	wg.Wait()
}

// runV6ControlScenario: the control connection arrives over IPv6 (a
// dual-stack or IPv6 SOCKS5 listener) and the request names no address. The
// owner is then the IPv6 control peer; the relay socket is IPv4-only, so NO
// datagram that can arrive comes from the owner: nothing may be relayed,
// nobody may be recorded as the client. There is no datagram that could serve
// as a "handled up to here" marker in this situation, so the harness waits a
// bounded time for a forbidden effect to show up (absence within the bound
// is a pass; the wait can only miss a defect, never raise a false alarm).
func (e *env) runV6ControlScenario(sc Scenario, m *mesh) {
	c := e.c
	if e.ln6 == nil {
		c.Count("v6-control:skipped-no-ipv6")
		return
	}
	d := net.Dialer{LocalAddr: &net.TCPAddr{IP: net.ParseIP(sc.ControlIP)}, Timeout: 5 * time.Second}
	cc, err := d.Dial("tcp", e.ln6.Addr().String())
	if err != nil {
		c.Fail("control-dial-failed", err.Error(), sc)
		return
	}
	defer cc.Close()
	sconn, err := e.ln6.Accept()
	if err != nil {
		c.Fail("control-accept-failed", err.Error(), sc)
		return
	}
	handled := make(chan struct{})
	go func() { defer close(handled); defer sconn.Close(); e.handler.Handle(sconn) }()
	cc.SetDeadline(time.Now().Add(10 * time.Second))
	cc.Write([]byte{5, 1, 0, 5, 3, 0, 1, 0, 0, 0, 0, 0, 0})
	hdr := make([]byte, 6)
	if _, err := io.ReadFull(cc, hdr); err != nil || hdr[1] != 0 || hdr[3] != 0 {
		c.Fail("associate-failed", fmt.Sprintf("reply % x: %v", hdr, err), sc)
		return
	}
	alen := 4
	if hdr[5] == 4 {
		alen = 16
	}
	rest := make([]byte, alen+2)
	if _, err := io.ReadFull(cc, rest); err != nil {
		c.Fail("associate-failed", fmt.Sprintf("reply % x % x: %v", hdr, rest, err), sc)
		return
	}
	relay := &net.UDPAddr{IP: net.IPv4(127, 0, 0, 1), Port: int(rest[alen])<<8 | int(rest[alen+1])}
	m.mu.Lock()
	assoc := m.assoc
	m.mu.Unlock()
	if assoc == nil {
		c.Fail("associate-failed", "no association handed to the mesh side", sc)
		return
	}
	quiesce := func() bool {
		deadline := time.Now().Add(300 * time.Millisecond)
		for time.Now().Before(deadline) {
			m.mu.Lock()
			n := len(m.relayed)
			var first string
			if n > 0 {
				first = m.relayed[0]
			}
			m.mu.Unlock()
			if n > 0 {
				c.Fail("datagram-from-non-owner-relayed",
					fmt.Sprintf("the association belongs to the IPv6 control peer %s (no address in the request); a datagram from an IPv4 sender (payload %q) was relayed into the mesh", sc.ControlIP, first), sc)
				return false
			}
			if dst := assoc.VerifActualClientAddr(); dst != nil {
				c.Fail("reply-sent-to-non-owner",
					fmt.Sprintf("the association belongs to the IPv6 control peer %s; %s was recorded as the client that replies are sent to", sc.ControlIP, dst), sc)
				return false
			}
			time.Sleep(2 * time.Millisecond)
		}
		return true
	}
	var steps []string
	sentSince := false
	for _, ev := range sc.Events {
		switch ev.Kind {
		case "dgram":
			e.nextPay++
			pkt := append(udpHeader(ev.Bad), fmt.Sprintf("d-%d", e.nextPay)...)
			if ev.Bad == "short" {
				pkt = udpHeader(ev.Bad)
			}
			e.socks[ev.Sender].WriteToUDP(pkt, relay)
			sentSince = true
			steps = append(steps, fmt.Sprintf("(EvDgram %s %s, ObsRelayed false)", coqAddr(e.socks[ev.Sender].LocalAddr().(*net.UDPAddr)), vh.CoqBool(ev.Bad == "")))
			c.Count("v6-control:dgram")
		case "reply":
			if sentSince {
				if !quiesce() {
					return
				}
				sentSince = false
			}
			if err := assoc.WriteToClient(1, []byte{9, 9, 9, 9}, 53, []byte("r")); err == nil {
				c.Fail("reply-sent-to-non-owner", fmt.Sprintf("a reply was sent to %v although the owner (IPv6 control peer) never sent a datagram", assoc.VerifActualClientAddr()), sc)
				return
			}
			steps = append(steps, "(EvReply, ObsReplyTo None)")
		}
	}
	if sentSince && !quiesce() {
		return
	}
	cc.Close()
	select {
	case <-handled:
	case <-time.After(10 * time.Second):
		c.Fail("handler-did-not-end", "Handle did not return within 10 s after the control connection was closed", sc)
	}
	c.Case(sc.Name, true, sc)
	// the IPv6 control peer as a number that no IPv4 sender has
	e.coq = append(e.coq, fmt.Sprintf("(mkAssoc None (Some (18446744073709551616 + 1)%%N),\n  %s)", policy.CoqListNL(steps)))
}

func coqIP(ip net.IP) string {
	v := ip.To4()
	return fmt.Sprintf("%d%%N", uint32(v[0])<<24|uint32(v[1])<<16|uint32(v[2])<<8|uint32(v[3]))
}

func coqAddr(a *net.UDPAddr) string { return fmt.Sprintf("(%s, %d%%N)", coqIP(a.IP), a.Port) }

func witnesses() []Scenario {
	return []Scenario{
		// no address in the request: a stranger's datagram (second), then a reply
		{Name: "w-no-expected-stranger-relayed", ControlIP: "127.0.0.1", ReqPortFrom: -1,
			Events: []Event{{Kind: "dgram", Sender: 0}, {Kind: "dgram", Sender: 2}, {Kind: "reply"}}},
		// stranger sends first: it becomes the reply destination
		{Name: "w-stranger-first-hijacks-replies", ControlIP: "127.0.0.1", ReqPortFrom: -1,
			Events: []Event{{Kind: "dgram", Sender: 2}, {Kind: "dgram", Sender: 0}, {Kind: "reply"}, {Kind: "reply"}}},
		// with an address in the request the stranger is filtered but was still recorded as the client
		{Name: "w-expected-stranger-first-hijacks-replies", ControlIP: "127.0.0.1", ReqIP: "127.0.0.1", ReqPortFrom: 0,
			Events: []Event{{Kind: "dgram", Sender: 3}, {Kind: "dgram", Sender: 0}, {Kind: "reply"}}},
		// an explicit client address in the request, then unrelated sessions on the same server naming a stranger's address
		{Name: "w-other-sessions-do-not-change-the-owner", ControlIP: "127.0.0.1", ReqIP: "127.0.0.1", ReqPortFrom: 0,
			Events: []Event{{Kind: "session", Sender: 2}, {Kind: "dgram", Sender: 2}, {Kind: "dgram", Sender: 0}, {Kind: "reply"},
				{Kind: "session", Sender: 3}, {Kind: "dgram", Sender: 3}, {Kind: "dgram", Sender: 1}, {Kind: "reply"}}},
		{Name: "w-other-sessions-announced-address", ControlIP: "127.0.0.1", ReqIP: "127.0.0.2", ReqPortFrom: 2,
			Events: []Event{{Kind: "dgram", Sender: 2}, {Kind: "session", Sender: 0}, {Kind: "dgram", Sender: 0}, {Kind: "dgram", Sender: 2}, {Kind: "reply"}}},
		// control connection over IPv6, no address in the request: no IPv4 sender is the owner
		{Name: "w-ipv6-control-stranger-first", ControlIP: "::1", ReqPortFrom: -1,
			Events: []Event{{Kind: "reply"}, {Kind: "dgram", Sender: 2}, {Kind: "reply"}, {Kind: "dgram", Sender: 0}, {Kind: "dgram", Sender: 3}, {Kind: "reply"}}},
		{Name: "w-owner-only", ControlIP: "127.0.0.1", ReqPortFrom: -1,
			Events: []Event{{Kind: "reply"}, {Kind: "dgram", Sender: 0}, {Kind: "reply"}, {Kind: "dgram", Sender: 1}, {Kind: "reply"}}},
		// the client announces a different address than the control connection's
		{Name: "w-announced-other-address", ControlIP: "127.0.0.1", ReqIP: "127.0.0.2", ReqPortFrom: 2,
			Events: []Event{{Kind: "dgram", Sender: 0}, {Kind: "dgram", Sender: 2}, {Kind: "reply"}, {Kind: "dgram", Sender: 3}, {Kind: "reply"}}},
		{Name: "w-control-from-second-address", ControlIP: "127.0.0.2", ReqPortFrom: -1,
			Events: []Event{{Kind: "dgram", Sender: 0}, {Kind: "dgram", Sender: 2}, {Kind: "reply"}}},
		{Name: "w-owner-unknown-first-sender-sticks", ControlIP: "pipe", ReqPortFrom: -1,
			Events: []Event{{Kind: "reply"}, {Kind: "dgram", Sender: 2}, {Kind: "dgram", Sender: 0}, {Kind: "reply"}, {Kind: "dgram", Sender: 3}, {Kind: "dgram", Sender: 2}, {Kind: "reply"}}},
		{Name: "w-malformed-first", ControlIP: "127.0.0.1", ReqPortFrom: -1,
			Events: []Event{{Kind: "dgram", Sender: 2, Bad: "frag"}, {Kind: "dgram", Sender: 0, Bad: "short"}, {Kind: "reply"}, {Kind: "dgram", Sender: 0}, {Kind: "reply"}}},
	}
}

func genScenario(r *vh.Rand, idx int) Scenario {
	sc := Scenario{Name: fmt.Sprintf("g%d", idx), ControlIP: "127.0.0.1", ReqPortFrom: -1}
	if r.Chance(1, 4) {
		sc.ControlIP = "127.0.0.2"
	}
	if r.Chance(1, 8) {
		sc.ControlIP = "pipe" // owner unknown
	}
	if r.Chance(1, 25) {
		sc.ControlIP = "::1" // control connection over IPv6
	}
	switch r.Intn(5) {
	case 0, 1: // no address (0.0.0.0:0)
	case 2:
		sc.ReqIP = sc.ControlIP
		sc.ReqPortFrom = r.Pick(-1, 0, 2)
	case 3:
		sc.ReqIP = []string{"127.0.0.1", "127.0.0.2"}[r.Intn(2)]
		sc.ReqPortFrom = r.Pick(-1, 0, 1, 2)
	case 4: // port only
		sc.ReqPortFrom = r.Pick(0, 1, 2)
	}
	if sc.ControlIP == "pipe" || sc.ControlIP == "::1" {
		sc.ReqIP, sc.ReqPortFrom = "", -1
	}
	n := 1 + r.Intn(10)
	for i := 0; i < n; i++ {
		switch r.Intn(7) {
		case 6:
			if sc.ControlIP != "pipe" && r.Chance(1, 2) {
				sc.Events = append(sc.Events, Event{Kind: "session", Sender: r.Pick(0, 2, 3)})
			} else {
				sc.Events = append(sc.Events, Event{Kind: "dgram", Sender: r.Intn(len(senderAddrs))})
			}
		case 0:
			sc.Events = append(sc.Events, Event{Kind: "reply"})
		default:
			ev := Event{Kind: "dgram", Sender: r.Intn(len(senderAddrs))}
			if r.Chance(1, 6) {
				ev.Bad = []string{"frag", "short", "atyp"}[r.Intn(3)]
			}
			sc.Events = append(sc.Events, ev)
		}
	}
	sc.Events = append(sc.Events, Event{Kind: "reply"})
	return sc
}

func main() {
	c := vh.Start("C22")
	defer c.Finish()
	c.Res.Rule = "case = one UDP association created through the real handler over a loopback TCP control connection, with a generated arrival sequence of datagrams " +
		"from four sender sockets (owner address twice, two strangers) interleaved with replies; per datagram whether it was relayed and per reply where it was delivered are compared with the model; " +
		"non-trivial = at least one reply delivered or more than one event; distinct = distinct scenario names"
	e := &env{c: c}
	var err error
	if e.ln, err = net.Listen("tcp4", "127.0.0.1:0"); err != nil {
		panic(err)
	}
	defer e.ln.Close()
	if e.ln6, err = net.Listen("tcp6", "[::1]:0"); err != nil {
		e.ln6 = nil
		c.Note("IPv6 loopback not available: control connections over IPv6 are skipped")
	} else {
		defer e.ln6.Close()
	}
	// the listener must accept connections to 127.0.0.1 from 127.0.0.2 as well: it does (loopback)
	e.handler = socks5.NewHandler(nil, nil)
	for _, a := range senderAddrs {
		s, err := net.ListenUDP("udp4", &net.UDPAddr{IP: net.ParseIP(a)})
		if err != nil {
			panic(err)
		}
		defer s.Close()
		e.socks = append(e.socks, s)
	}
	run := func(sc Scenario) {
		if p := vh.Recover(func() { e.runScenario(sc) }); p != "" {
			c.Fail("panic", p, sc)
		}
		// drain anything a failed scenario left in the sender sockets
		for _, s := range e.socks {
			s.SetReadDeadline(time.Now().Add(-time.Second))
			buf := make([]byte, 2048)
			for {
				if _, _, err := s.ReadFromUDP(buf); err != nil {
					break
				}
			}
			s.SetReadDeadline(time.Time{})
		}
	}
	if c.Replay != "" {
		var sc Scenario
		if err := c.ReadReplay(&sc); err != nil {
			panic(err)
		}
		run(sc)
	} else {
		for _, sc := range witnesses() {
			run(sc)
		}
		n := c.N(150, 4000)
		for i := 0; i < n && e.lost < 4; i++ {
			run(genScenario(c.Rand.Fork(), i))
		}
		if e.lost >= 4 {
			c.Note("stopped early: the owner's datagrams are not relayed (%d scenarios aborted)", e.lost)
		}
	}
	var sb strings.Builder
	sb.WriteString("From Coq Require Import List NArith.\nFrom MM Require Import Model.UdpAssoc.\nImport ListNotations.\n")
	sb.WriteString(policy.ChunkedCases("cases", "case", "mismatches_from", e.coq, 400))
	c.WriteCasesV("cases.v", sb.String())
}
