// c27: correspondence and monitor harness for C27 (directory uploads never
// write outside the destination).
//
// Implementation under test: filetransfer.UntarDirectory on real tar.gz
// archives built from generated entry lists, extracted into
// <scratch>/o2/o1/dest.  Everything else under <scratch> is a sentinel area
// that is recorded (names, types, contents, link targets, inode sharing)
// before and after the extraction.
package main

import (
	"archive/tar"
	"bytes"
	"compress/gzip"
	"encoding/hex"
	"fmt"
	"os"
	"path/filepath"
	"sort"
	"strings"
	"syscall"

	"github.com/postalsys/muti-metroo/internal/filetransfer"
	"github.com/postalsys/muti-metroo/verifharness/fsutil"
	"github.com/postalsys/muti-metroo/verifharness/vh"
)

type entry struct {
	Kind string `json:"kind"`          // dir | reg | sym | hard | fifo | cont (contiguous file, '7') | char | block
	GNU  bool   `json:"gnu,omitempty"` // header written in GNU format (long names as GNU long-name records) instead of PAX
	Name string `json:"name"`
	Link string `json:"link,omitempty"`
	Data string `json:"data,omitempty"` // ascii content
}

// initNode: one object created by the harness before the extraction, path
// relative to the scratch root (which is the model's "/").
type initNode struct {
	Path   string `json:"path"`
	Kind   string `json:"kind"` // dir | file | sym | hard
	Data   string `json:"data,omitempty"`
	Target string `json:"target,omitempty"` // sym: link text ("@/x" = absolute inside the scratch root); hard: path of the existing file
}

type kase struct {
	Note    string     `json:"note,omitempty"`
	Init    []initNode `json:"init"` // in creation order, in addition to the fixed skeleton
	Entries []entry    `json:"entries"`
}

const destRel = "o2/o1/dest"

func skeleton() []initNode {
	return []initNode{
		{Path: "top.txt", Kind: "file", Data: "TOP"},
		{Path: "o2", Kind: "dir"},
		{Path: "o2/s2.txt", Kind: "file", Data: "S2"},
		{Path: "o2/o1", Kind: "dir"},
		{Path: "o2/o1/s1.txt", Kind: "file", Data: "S1"},
		{Path: "o2/o1/other", Kind: "dir"},
		{Path: "o2/o1/other/s0.txt", Kind: "file", Data: "S0"},
		// siblings whose names extend the destination's name
		{Path: "o2/o1/dest-backup", Kind: "dir"},
		{Path: "o2/o1/dest-backup/keep.txt", Kind: "file", Data: "KEEP"},
		{Path: "o2/o1/dest.bak", Kind: "file", Data: "BAK"},
		{Path: "o2/o1/dest2", Kind: "dir"},
	}
}

func build(root string, nodes []initNode) {
	for _, n := range nodes {
		p := filepath.Join(root, n.Path)
		var err error
		switch n.Kind {
		case "dir":
			err = os.Mkdir(p, 0o755)
		case "file":
			err = os.WriteFile(p, []byte(n.Data), 0o644)
		case "sym":
			t := n.Target
			if strings.HasPrefix(t, "@") {
				t = root + t[1:]
			}
			err = os.Symlink(t, p)
		case "hard":
			err = os.Link(filepath.Join(root, n.Target), p)
		}
		if err != nil {
			panic(fmt.Sprintf("building initial tree: %v", err))
		}
	}
}

// ---------------------------------------------------------------------------
// snapshots

type obj struct {
	Path   string `json:"path"`
	Kind   string `json:"kind"` // dir | file | sym | other
	Data   string `json:"data,omitempty"`
	Target string `json:"target,omitempty"`
	Ino    uint64 `json:"ino"`
	Perm   uint32 `json:"perm"`
	Leader string `json:"leader,omitempty"` // first path (sorted) with the same inode
}

func snapshot(root string) []obj {
	var out []obj
	filepath.Walk(root, func(p string, info os.FileInfo, err error) error {
		if err != nil || p == root {
			return nil
		}
		rel, _ := filepath.Rel(root, p)
		o := obj{Path: rel, Perm: uint32(info.Mode().Perm())}
		if st, ok := info.Sys().(*syscall.Stat_t); ok {
			o.Ino = st.Ino
		}
		switch {
		case info.Mode()&os.ModeSymlink != 0:
			o.Kind = "sym"
			t, _ := os.Readlink(p)
			if strings.HasPrefix(t, root+"/") || t == root {
				t = "@" + t[len(root):]
			}
			o.Target = t
		case info.IsDir():
			o.Kind = "dir"
		case info.Mode().IsRegular():
			o.Kind = "file"
			b, _ := os.ReadFile(p)
			o.Data = string(b)
		default:
			o.Kind = "other"
		}
		out = append(out, o)
		return nil
	})
	sort.Slice(out, func(i, j int) bool { return out[i].Path < out[j].Path })
	leader := map[uint64]string{}
	for i := range out {
		if out[i].Kind != "file" {
			continue
		}
		if l, ok := leader[out[i].Ino]; ok {
			out[i].Leader = l
		} else {
			leader[out[i].Ino] = out[i].Path
			out[i].Leader = out[i].Path
		}
	}
	return out
}

func inside(p string) bool { return p == destRel || strings.HasPrefix(p, destRel+"/") }

// ---------------------------------------------------------------------------
// archive

func writeArchive(entries []entry) []byte {
	var buf bytes.Buffer
	gz := gzip.NewWriter(&buf)
	tw := tar.NewWriter(gz)
	for _, e := range entries {
		h := &tar.Header{Name: e.Name, Mode: 0o644, Format: tar.FormatPAX}
		if e.GNU {
			h.Format = tar.FormatGNU
		} else if len(e.Name)%3 == 1 {
			h.PAXRecords = map[string]string{"comment": "x", "MM.note": e.Kind}
		}
		switch e.Kind {
		case "dir":
			h.Typeflag, h.Mode = tar.TypeDir, 0o755
		case "reg":
			h.Typeflag, h.Size = tar.TypeReg, int64(len(e.Data))
		case "sym":
			h.Typeflag, h.Linkname = tar.TypeSymlink, e.Link
		case "hard":
			h.Typeflag, h.Linkname = tar.TypeLink, e.Link
		case "fifo":
			h.Typeflag = tar.TypeFifo
		case "cont":
			h.Typeflag, h.Size = tar.TypeCont, int64(len(e.Data))
		case "char":
			h.Typeflag, h.Devmajor, h.Devminor = tar.TypeChar, 1, 3
		case "block":
			h.Typeflag, h.Devmajor, h.Devminor = tar.TypeBlock, 7, 0
		}
		if err := tw.WriteHeader(h); err != nil {
			panic(err)
		}
		if e.Kind == "reg" || e.Kind == "cont" {
			tw.Write([]byte(e.Data))
		}
	}
	tw.Close()
	gz.Close()
	return buf.Bytes()
}

// ---------------------------------------------------------------------------
// generators

var comps = []string{"a", "a", "a", "b", "b", "c", "d", ".", ".."}

func genName(r *vh.Rand) string {
	n := 1 + r.Intn(3)
	parts := make([]string, n)
	for i := range parts {
		parts[i] = comps[r.Intn(len(comps))]
		if i == 0 && parts[i] == ".." && !r.Chance(1, 12) {
			parts[i] = "a"
		}
	}
	s := strings.Join(parts, "/")
	switch r.Intn(48) {
	case 0:
		s = "/" + s
	case 1, 2:
		s = s + "/"
	case 3, 4:
		s = "./" + s
	case 5:
		s = ""
	}
	return s
}

func genTarget(r *vh.Rand) string {
	switch r.Intn(28) {
	case 0:
		return "/etc/hostname"
	case 1:
		return "/" + genName(r)
	case 2, 3:
		return ".."
	case 4, 5:
		return "."
	case 6:
		return "../.."
	case 7:
		return ""
	}
	n := 1 + r.Intn(4)
	parts := make([]string, n)
	tc := []string{"a", "a", "b", "c", "d", "..", "."}
	for i := range parts {
		parts[i] = tc[r.Intn(len(tc))]
	}
	return strings.Join(parts, "/")
}

func genCase(r *vh.Rand) kase {
	var k kase
	// destination: absent, empty, or pre-populated (possibly with links that leave it)
	switch r.Intn(6) {
	case 0: // absent
	case 1, 2:
		k.Init = append(k.Init, initNode{Path: destRel, Kind: "dir"})
	default:
		k.Init = append(k.Init, initNode{Path: destRel, Kind: "dir"})
		pre := []initNode{
			{Path: destRel + "/a", Kind: "dir"},
			{Path: destRel + "/a/f", Kind: "file", Data: "old-af"},
			{Path: destRel + "/b", Kind: "file", Data: "old-b"},
			{Path: destRel + "/c", Kind: "sym", Target: "../other"},
			{Path: destRel + "/d", Kind: "sym", Target: "@/o2"},
			{Path: destRel + "/a/b", Kind: "sym", Target: ".."},
			{Path: destRel + "/a/c", Kind: "sym", Target: "../../s1.txt"},
			{Path: destRel + "/a/d", Kind: "hard", Target: destRel + "/a/f"},
			{Path: destRel + "/b", Kind: "sym", Target: "a"},
			{Path: destRel + "/c", Kind: "dir"},
			{Path: destRel + "/c/b", Kind: "file", Data: "old-cb"},
		}
		for _, p := range pre {
			if r.Chance(2, 5) {
				k.Init = append(k.Init, p)
			}
		}
		// keep only consistent ones: parents must be directories created before
		var ok []initNode
		kind := map[string]string{destRel: "dir"}
		for _, p := range k.Init {
			if p.Path == destRel {
				ok = append(ok, p)
				continue
			}
			if _, dup := kind[p.Path]; dup || kind[filepath.Dir(p.Path)] != "dir" {
				continue
			}
			if p.Kind == "hard" && kind[p.Target] != "file" {
				continue
			}
			kind[p.Path] = p.Kind
			ok = append(ok, p)
		}
		k.Init = ok
	}
	// two thirds of the archives are mostly well-formed (plain names, links
	// that stay inside) so that extraction gets past the first entries
	benign := r.Intn(3) != 0
	plain := func() string {
		pc := []string{"a", "a", "b", "b", "c", "d"}
		m := 1 + r.Intn(3)
		parts := make([]string, m)
		for i := range parts {
			parts[i] = pc[r.Intn(len(pc))]
		}
		return strings.Join(parts, "/")
	}
	n := 1 + r.Intn(8)
	for i := 0; i < n; i++ {
		e := entry{Name: genName(r)}
		if benign && !r.Chance(1, 8) {
			e.Name = plain()
		}
		switch x := r.Intn(23); {
		case x < 5:
			e.Kind = "dir"
		case x < 11:
			e.Kind, e.Data = "reg", fmt.Sprintf("new%d", i)
			if r.Chance(1, 6) {
				e.Data = ""
			}
		case x < 16:
			e.Kind, e.Link = "sym", genTarget(r)
			if benign && !r.Chance(1, 6) {
				e.Link = []string{"a", "b", "c", "a/b", "../a", "../b/c", "d", "./a"}[r.Intn(8)]
				if !strings.Contains(e.Name, "/") && strings.HasPrefix(e.Link, "../") {
					e.Link = e.Link[3:]
				}
			}
		case x < 19:
			e.Kind, e.Link = "hard", genName(r)
			// mostly link to a regular file an earlier entry created
			var regs []string
			for _, p := range k.Entries {
				if p.Kind == "reg" {
					regs = append(regs, p.Name)
				}
			}
			if len(regs) > 0 && r.Chance(2, 3) {
				e.Link = regs[r.Intn(len(regs))]
			}
		default:
			e.Kind = []string{"fifo", "cont", "cont", "char", "block"}[r.Intn(5)]
			if e.Kind == "cont" {
				e.Data = fmt.Sprintf("cont%d", i)
			}
		}
		e.GNU = r.Chance(1, 4)
		// re-use the name of an earlier entry (repeated directory entries, a directory
		// or file later replaced by a link of the same name, entries below it afterwards)
		if len(k.Entries) > 0 && r.Chance(1, 4) {
			prev := k.Entries[r.Intn(len(k.Entries))]
			e.Name = strings.TrimSuffix(prev.Name, "/")
			if r.Chance(1, 3) && e.Name != "" {
				e.Name += "/" + []string{"a", "b", "x"}[r.Intn(3)]
			}
			if e.Kind == "sym" && r.Chance(1, 2) {
				e.Link = []string{"a/..", "b/..", ".", "a", "../a/.."}[r.Intn(5)]
			}
		}
		if e.Kind != "dir" {
			e.Name = strings.TrimSuffix(e.Name, "/")
		}
		if !encodable(e) {
			e.Name = "a"
		}
		k.Entries = append(k.Entries, e)
	}
	return k
}

// encodable: archive/tar refuses a few header forms
func encodable(e entry) (ok bool) {
	defer func() {
		if recover() != nil {
			ok = false
		}
	}()
	writeArchive([]entry{e})
	return true
}

func witnesses() []kase {
	d := []initNode{{Path: destRel, Kind: "dir"}}
	return []kase{
		{Note: "chain: a/b -> .., a/b/c -> .., write a/b/c/evil", Init: d, Entries: []entry{
			{Kind: "dir", Name: "a"}, {Kind: "sym", Name: "a/b", Link: ".."}, {Kind: "sym", Name: "a/b/c", Link: ".."}, {Kind: "reg", Name: "a/b/c/evil", Data: "EVIL"}}},
		{Note: "x -> ., x/y -> .., write y/evil", Init: d, Entries: []entry{
			{Kind: "sym", Name: "x", Link: "."}, {Kind: "sym", Name: "x/y", Link: ".."}, {Kind: "reg", Name: "y/evil", Data: "EVIL"}}},
		{Note: "s -> ., t -> s/../s1.txt, overwrite t", Init: d, Entries: []entry{
			{Kind: "sym", Name: "s", Link: "."}, {Kind: "sym", Name: "t", Link: "s/../s1.txt"}, {Kind: "reg", Name: "t", Data: "EVIL"}}},
		{Note: "hard link to an outside file through a link, then overwrite it", Init: d, Entries: []entry{
			{Kind: "sym", Name: "s", Link: "."}, {Kind: "sym", Name: "up", Link: "s/.."}, {Kind: "hard", Name: "h", Link: "up/s1.txt"}, {Kind: "reg", Name: "h", Data: "EVIL"}}},
		{Note: "mkdir through a link", Init: d, Entries: []entry{
			{Kind: "sym", Name: "s", Link: "."}, {Kind: "sym", Name: "up", Link: "s/.."}, {Kind: "dir", Name: "up/newdir/sub"}}},
		{Note: "replace an outside file by a link (remove + symlink through a link)", Init: d, Entries: []entry{
			{Kind: "sym", Name: "s", Link: "."}, {Kind: "sym", Name: "up", Link: "s/.."}, {Kind: "sym", Name: "up/s1.txt", Link: "s"}}},
		{Note: "pre-existing link that leaves the destination", Init: append(append([]initNode{}, d...), initNode{Path: destRel + "/c", Kind: "sym", Target: "../other"}),
			Entries: []entry{{Kind: "reg", Name: "c/s0.txt", Data: "EVIL"}, {Kind: "reg", Name: "c/new.txt", Data: "EVIL"}}},
		{Note: "link entry that names the destination itself", Init: d, Entries: []entry{{Kind: "sym", Name: ".", Link: "dest/x"}, {Kind: "reg", Name: "f", Data: "x"}}},
		{Note: "hard link entry that names the destination itself", Init: d, Entries: []entry{{Kind: "hard", Name: "a/..", Link: "b"}}},
		{Note: "a directory that was checked once is replaced by a link (stale 'already inspected' verdict): a -> ., d, d again, d -> a/.., write d/escape.txt", Init: d, Entries: []entry{
			{Kind: "sym", Name: "a", Link: "."}, {Kind: "dir", Name: "d"}, {Kind: "dir", Name: "d"}, {Kind: "sym", Name: "d", Link: "a/.."}, {Kind: "reg", Name: "d/escape.txt", Data: "EVIL"}}},
		{Note: "same, overwriting an existing outside file", Init: d, Entries: []entry{
			{Kind: "sym", Name: "a", Link: "."}, {Kind: "dir", Name: "d/"}, {Kind: "reg", Name: "d/x", Data: "x"}, {Kind: "hard", Name: "keep", Link: "d/x"}, {Kind: "dir", Name: "d"},
			{Kind: "sym", Name: "d/x", Link: "."}, {Kind: "dir", Name: "e"}, {Kind: "dir", Name: "e"}, {Kind: "sym", Name: "e", Link: "a/.."}, {Kind: "reg", Name: "e/s1.txt", Data: "EVIL"}}},
		{Note: "checked directory replaced by a link, then mkdir / hard link / link through it", Init: d, Entries: []entry{
			{Kind: "sym", Name: "a", Link: "."}, {Kind: "dir", Name: "d"}, {Kind: "reg", Name: "f", Data: "F"}, {Kind: "dir", Name: "d"}, {Kind: "sym", Name: "d", Link: "a/.."},
			{Kind: "dir", Name: "d/newdir"}}},
		{Note: "chain into a sibling whose name extends the destination's name: a -> ., b -> a/../dest-backup, write b/evil.txt", Init: d, Entries: []entry{
			{Kind: "sym", Name: "a", Link: "."}, {Kind: "sym", Name: "b", Link: "a/../dest-backup"}, {Kind: "reg", Name: "b/evil.txt", Data: "EVIL"}}},
		{Note: "chain onto a sibling file whose name extends the destination's name", Init: d, Entries: []entry{
			{Kind: "sym", Name: "a", Link: "."}, {Kind: "sym", Name: "b", Link: "a/../dest.bak"}, {Kind: "reg", Name: "b", Data: "EVIL"}}},
		{Note: "links only (extraction succeeds): nothing outside may change, permission bits included", Init: d, Entries: []entry{
			{Kind: "sym", Name: "a", Link: "."}, {Kind: "sym", Name: "b", Link: "a/.."}, {Kind: "sym", Name: "c", Link: "a/../s1.txt"}, {Kind: "sym", Name: "e", Link: "a/../other"}, {Kind: "reg", Name: "f", Data: "F"}}},
		{Note: "contiguous-file entry (typeflag 7) named like a link that leaves the destination", Init: d, Entries: []entry{
			{Kind: "dir", Name: "a"}, {Kind: "sym", Name: "a/b", Link: "."}, {Kind: "sym", Name: "a/l", Link: "b/../../s1.txt"}, {Kind: "cont", Name: "a/l", Data: "EVIL"}}},
		{Note: "rare typeflags through a link", Init: d, Entries: []entry{
			{Kind: "sym", Name: "a", Link: "."}, {Kind: "sym", Name: "up", Link: "a/.."}, {Kind: "cont", Name: "up/evil7", Data: "EVIL"}, {Kind: "char", Name: "up/c"}, {Kind: "block", Name: "up/b"}, {Kind: "fifo", Name: "up/p"}}},
		{Note: "long names (GNU long-name records / PAX path records)", Init: d, Entries: []entry{
			{Kind: "dir", Name: strings.Repeat("a", 120), GNU: true}, {Kind: "reg", Name: strings.Repeat("a", 120) + "/" + strings.Repeat("b", 130), Data: "L", GNU: true},
			{Kind: "reg", Name: strings.Repeat("c", 140) + "/f", Data: "P"}, {Kind: "sym", Name: "l", Link: strings.Repeat("a", 120), GNU: true}}},
		{Note: "plain traversal names", Init: d, Entries: []entry{{Kind: "reg", Name: "../evil", Data: "EVIL"}}},
		{Note: "absolute name", Init: d, Entries: []entry{{Kind: "reg", Name: "/evil", Data: "EVIL"}}},
		{Note: "escaping link target", Init: d, Entries: []entry{{Kind: "sym", Name: "l", Link: "../other"}, {Kind: "reg", Name: "l/evil", Data: "EVIL"}}},
		{Note: "ordinary tree", Init: nil, Entries: []entry{
			{Kind: "dir", Name: "a/"}, {Kind: "reg", Name: "a/f", Data: "hello"}, {Kind: "sym", Name: "a/l", Link: "f"}, {Kind: "hard", Name: "g", Link: "a/f"}, {Kind: "reg", Name: "b/c/d", Data: "deep"}}},
	}
}

// ---------------------------------------------------------------------------

var in = fsutil.NewInterner()

func coqStr(s string) string { return in.S(s) }

func coqInit(nodes []initNode) string {
	items := make([]string, len(nodes))
	for i, n := range nodes {
		switch n.Kind {
		case "dir":
			items[i] = fmt.Sprintf("IDir %s", coqStr(n.Path))
		case "file":
			items[i] = fmt.Sprintf("IFile %s %s", coqStr(n.Path), coqStr(n.Data))
		case "sym":
			t := n.Target
			if strings.HasPrefix(t, "@") {
				t = t[1:]
			}
			items[i] = fmt.Sprintf("ISym %s %s", coqStr(n.Path), coqStr(t))
		case "hard":
			items[i] = fmt.Sprintf("IHard %s %s", coqStr(n.Path), coqStr(n.Target))
		}
	}
	return vh.CoqList(items)
}

func coqEntries(es []entry) string {
	items := make([]string, len(es))
	for i, e := range es {
		switch e.Kind {
		case "dir":
			items[i] = fmt.Sprintf("EDir %s", coqStr(e.Name))
		case "reg":
			items[i] = fmt.Sprintf("EReg %s %s", coqStr(e.Name), coqStr(e.Data))
		case "sym":
			items[i] = fmt.Sprintf("ESym %s %s", coqStr(e.Name), coqStr(e.Link))
		case "hard":
			items[i] = fmt.Sprintf("EHard %s %s", coqStr(e.Name), coqStr(e.Link))
		default:
			items[i] = fmt.Sprintf("EOther %s", coqStr(e.Name))
		}
	}
	return vh.CoqList(items)
}

func coqSnapshot(objs []obj) string {
	items := make([]string, len(objs))
	for i, o := range objs {
		switch o.Kind {
		case "dir":
			items[i] = fmt.Sprintf("(%s, ODir)", coqStr(o.Path))
		case "file":
			items[i] = fmt.Sprintf("(%s, OFile %s %s)", coqStr(o.Path), coqStr(o.Data), coqStr(o.Leader))
		case "sym":
			t := o.Target
			if strings.HasPrefix(t, "@") {
				t = t[1:]
			}
			items[i] = fmt.Sprintf("(%s, OSym %s)", coqStr(o.Path), coqStr(t))
		default:
			items[i] = fmt.Sprintf("(%s, OOther)", coqStr(o.Path))
		}
	}
	return vh.CoqList(items)
}

func main() {
	c := vh.Start("C27")
	defer c.Finish()
	c.Res.Rule = "case = one archive (1..8 entries: directories, regular files, symbolic links, hard links, names/targets over {a,b,c,d,.,..}, absolute and empty forms) " +
		"extracted by the real UntarDirectory into a scratch tree whose destination is absent, empty or pre-populated (incl. links leaving it); " +
		"the error flag and the complete resulting tree (inside and outside the destination) are compared with the model; " +
		"non-trivial = at least one entry is a link; distinct = distinct (initial tree, archive)"

	var cases []kase
	if c.Replay != "" {
		var k kase
		if err := c.ReadReplay(&k); err != nil {
			panic(err)
		}
		cases = []kase{k}
	} else {
		cases = witnesses()
		rnd := c.Rand.Fork() // Fork decorrelates the streams of neighbouring seeds
		n := c.N(340, 12000)
		for i := 0; i < n; i++ {
			cases = append(cases, genCase(rnd))
		}
	}

	base, err := os.MkdirTemp("", "c27-")
	if err != nil {
		panic(err)
	}
	defer os.RemoveAll(base)

	var coq []string
	for i, k := range cases {
		root := filepath.Join(base, fmt.Sprintf("w%d", i))
		if err := os.Mkdir(root, 0o755); err != nil {
			panic(err)
		}
		build(root, skeleton())
		build(root, k.Init)
		before := snapshot(root)
		archive := writeArchive(k.Entries)
		var xerr error
		// the way an uploaded directory really arrives: StreamHandler.WriteUploadedFile(isDirectory = true)
		up := filetransfer.NewStreamHandler(filetransfer.StreamConfig{Enabled: true, AllowedPaths: []string{"*"}})
		pan := vh.Recover(func() {
			_, xerr = up.WriteUploadedFile(filepath.Join(root, destRel), bytes.NewReader(archive), 0o644, true, false)
		})
		after := snapshot(root)
		os.RemoveAll(root)

		hasLink := false
		for _, e := range k.Entries {
			if e.Kind == "sym" || e.Kind == "hard" {
				hasLink = true
			}
			c.Count("entry/" + e.Kind)
		}
		rep := map[string]any{"note": k.Note, "init": k.Init, "entries": k.Entries, "archive_hex": hex.EncodeToString(archive)}
		if xerr != nil {
			rep["error"] = xerr.Error()
			c.Count("result/error")
		} else {
			c.Count("result/ok")
		}
		c.Case(fmt.Sprintf("%v|%v", k.Init, k.Entries), hasLink, rep)
		if pan != "" {
			c.Fail("untar-panic", "UntarDirectory panicked: "+pan, k)
		}
		monitor(c, k, before, after)
		coq = append(coq, fmt.Sprintf("UCase (skel ++ %s) %s %s %s", coqInit(k.Init), coqEntries(k.Entries), vh.CoqBool(xerr != nil), coqSnapshot(after)))
	}

	var sb strings.Builder
	sb.WriteString("From Coq Require Import List NArith String.\nFrom MM Require Import Model.Fs Model.Untar.\nImport ListNotations.\nLocal Open Scope string_scope.\n")
	skel := coqInit(skeleton())
	sb.WriteString(in.Defs())
	sb.WriteString("Definition skel : list inode_spec := " + skel + ".\n")
	const chunk = 100
	var names []string
	for i := 0; i < len(coq); i += chunk {
		j := i + chunk
		if j > len(coq) {
			j = len(coq)
		}
		name := fmt.Sprintf("cases%d", i/chunk)
		names = append(names, name)
		sb.WriteString("Definition " + name + " : list ucase := \n [" + strings.Join(coq[i:j], ";\n  ") + "].\n")
	}
	sb.WriteString("Definition cases : list ucase := " + strings.Join(names, " ++ ") + ".\n")
	sb.WriteString("Definition M := Eval vm_compute in mismatches cases.\nPrint M.\n")
	c.WriteCasesV("cases.v", sb.String())
}

// monitor: nothing outside the destination was created, modified, linked or deleted.
func monitor(c *vh.Ctx, k kase, before, after []obj) {
	b := map[string]obj{}
	outsideIno := map[uint64]string{}
	for _, o := range before {
		if !inside(o.Path) {
			b[o.Path] = o
			if o.Kind == "file" {
				outsideIno[o.Ino] = o.Path
			}
		}
	}
	seen := map[string]bool{}
	var destBefore *obj
	for i := range before {
		if before[i].Path == destRel {
			destBefore = &before[i]
		}
	}
	for _, o := range after {
		if o.Path == destRel && (o.Kind != "dir" || (destBefore != nil && destBefore.Ino != o.Ino)) {
			c.Fail("untar-destination-replaced", fmt.Sprintf("the destination directory itself was removed or replaced (now %s %q)", o.Kind, o.Target), k)
		}
		if inside(o.Path) {
			if o.Kind == "file" {
				if p, ok := outsideIno[o.Ino]; ok {
					c.Fail("untar-hardlink-to-outside", fmt.Sprintf("%s inside the destination is a hard link to %s outside it", o.Path, p), k)
				}
			}
			continue
		}
		seen[o.Path] = true
		old, ok := b[o.Path]
		switch {
		case !ok:
			c.Fail("untar-created-outside", fmt.Sprintf("%s (%s) was created outside the destination", o.Path, o.Kind), k)
		case old.Kind != o.Kind || old.Target != o.Target || old.Ino != o.Ino:
			c.Fail("untar-replaced-outside", fmt.Sprintf("%s outside the destination was replaced (%s -> %s)", o.Path, old.Kind, o.Kind), k)
		case old.Data != o.Data:
			c.Fail("untar-modified-outside", fmt.Sprintf("%s outside the destination was overwritten (%q -> %q)", o.Path, old.Data, o.Data), k)
		case old.Perm != o.Perm && o.Kind != "sym":
			c.Fail("untar-chmod-outside", fmt.Sprintf("the permission bits of %s outside the destination were changed (%04o -> %04o)", o.Path, old.Perm, o.Perm), k)
		}
	}
	destAfter := false
	for _, o := range after {
		if o.Path == destRel {
			destAfter = true
		}
	}
	if destBefore != nil && !destAfter {
		c.Fail("untar-destination-replaced", "the destination directory itself was removed", k)
	}
	for p := range b {
		if !seen[p] {
			c.Fail("untar-deleted-outside", fmt.Sprintf("%s outside the destination was deleted", p), k)
		}
	}
}
