// c36: correspondence and monitor harness for C36 (embedded configuration).
// Implementation under test: internal/embed (XOR, AppendConfig,
// HasEmbeddedConfig, ReadEmbeddedConfig, GetOriginalBinarySize,
// CopyBinaryWithoutConfig) on real temporary files.
//
// Every reader case is executed in a child process of this same binary
// (environment C36_CHILD=1): a footer length far above the file size makes a
// defective reader call make([]byte, n) with n up to 2^64-1, which is either a
// recoverable panic or a fatal out-of-memory abort; the child isolates the
// latter so that the parent can still report the failing input.
package main

import (
	"bufio"
	"bytes"
	"encoding/binary"
	"encoding/hex"
	"encoding/json"
	"errors"
	"fmt"
	"go/ast"
	"go/parser"
	"go/token"
	"os"
	"os/exec"
	"path/filepath"
	"sort"
	"strconv"
	"strings"

	"github.com/postalsys/muti-metroo/internal/embed"
	"github.com/postalsys/muti-metroo/verifharness/vh"
)

// ---------------------------------------------------------------------------
// case / observation types (JSON, also the replay format)

type kase struct {
	Kind string `json:"kind"`           // "reader" | "roundtrip" | "xor"
	File string `json:"file,omitempty"` // hex: whole file content (reader)
	Bin  string `json:"bin,omitempty"`  // hex: binary (roundtrip)
	Cfg  string `json:"cfg,omitempty"`  // hex: configuration (roundtrip) / data (xor)
	Note string `json:"note,omitempty"`
	// roundtrip: how source and destination of AppendConfig (and of the in-place
	// strip) relate: "" distinct files | same | dst-symlink | dst-hardlink | src-symlink | relative
	Alias string `json:"alias,omitempty"`
	// roundtrip with distinct files: what the destination holds BEFORE the embed under test:
	// PreCfg = a configuration embedded first (re-embed history), Pre = arbitrary previous content
	PreCfg string `json:"pre_cfg,omitempty"`
	Pre    string `json:"pre,omitempty"`
	// sized: binary and configuration given by length only (byte i = i*31+Fill); results are
	// reduced to booleans in the child, nothing of this size is sent to the model
	BinLen int    `json:"bin_len,omitempty"`
	CfgLen int    `json:"cfg_len,omitempty"`
	Fill   uint64 `json:"fill,omitempty"`
}

// outcome of one call: Code 0 = ok; 1 ErrNoEmbeddedConfig; 2 ErrConfigTooLarge;
// 3 ErrAlreadyEmbedded; 4 read failure; 7 panic; 8 process died; 9 other error.
type outcome struct {
	Code int    `json:"code"`
	Bool bool   `json:"bool,omitempty"`
	Int  int64  `json:"int,omitempty"`
	Data string `json:"data,omitempty"` // hex
	Msg  string `json:"msg,omitempty"`
}

type observed struct {
	Has      outcome `json:"has"`
	Read     outcome `json:"read"`
	Size     outcome `json:"size"`
	Copy     outcome `json:"copy"`
	Append   outcome `json:"append"`              // roundtrip: Data = resulting file
	SrcAfter string  `json:"src_after,omitempty"` // roundtrip: hex content of the source file after AppendConfig
	Strip    outcome `json:"strip"`               // roundtrip: CopyBinaryWithoutConfig onto the embedded file itself; Data = the file afterwards
	XOR      string  `json:"xor,omitempty"`
}

func errCode(err error) int {
	switch {
	case err == nil:
		return 0
	case errors.Is(err, embed.ErrNoEmbeddedConfig):
		return 1
	case errors.Is(err, embed.ErrConfigTooLarge):
		return 2
	case errors.Is(err, embed.ErrAlreadyEmbedded):
		return 3
	case strings.Contains(err.Error(), "failed to read"):
		return 4
	}
	return 9
}

func unhex(s string) []byte {
	b, err := hex.DecodeString(s)
	if err != nil {
		panic(err)
	}
	return b
}

// ---------------------------------------------------------------------------
// running the real code (child side)

func call(f func() (outcome, error)) (o outcome) {
	defer func() {
		if r := recover(); r != nil {
			o = outcome{Code: 7, Msg: fmt.Sprint(r)}
		}
	}()
	o, err := f()
	if err != nil {
		o.Code = errCode(err)
		o.Msg = err.Error()
	}
	return o
}

func runReaders(dir string, path string, obs *observed) {
	obs.Has = call(func() (outcome, error) {
		b, err := embed.HasEmbeddedConfig(path)
		return outcome{Bool: b}, err
	})
	obs.Read = call(func() (outcome, error) {
		d, err := embed.ReadEmbeddedConfig(path)
		if err != nil {
			return outcome{}, err
		}
		return outcome{Data: hex.EncodeToString(d)}, nil
	})
	obs.Size = call(func() (outcome, error) {
		n, err := embed.GetOriginalBinarySize(path)
		return outcome{Int: n}, err
	})
	obs.Copy = call(func() (outcome, error) {
		dst := filepath.Join(dir, "stripped")
		os.Remove(dst)
		if err := embed.CopyBinaryWithoutConfig(path, dst); err != nil {
			return outcome{}, err
		}
		d, err := os.ReadFile(dst)
		if err != nil {
			return outcome{}, err
		}
		return outcome{Data: hex.EncodeToString(d)}, nil
	})
}

func runCase(dir string, k kase) observed {
	var obs observed
	switch k.Kind {
	case "xor":
		obs.XOR = hex.EncodeToString(embed.XOR(unhex(k.Cfg)))
	case "reader":
		p := filepath.Join(dir, "bin")
		if err := os.WriteFile(p, unhex(k.File), 0o755); err != nil {
			panic(err)
		}
		runReaders(dir, p, &obs)
	case "sized":
		bin, cfg := pattern(k.BinLen, k.Fill), pattern(k.CfgLen, k.Fill+7)
		k2 := kase{Kind: "roundtrip", Bin: hex.EncodeToString(bin), Cfg: hex.EncodeToString(cfg)}
		o := runCase(dir, k2)
		// keep verdicts only
		red := func(oc outcome, want []byte) outcome {
			r := outcome{Code: oc.Code, Msg: oc.Msg, Int: oc.Int}
			r.Bool = oc.Code == 0 && oc.Data == hex.EncodeToString(want)
			return r
		}
		whole := append(append(append([]byte{}, bin...), embed.XOR(cfg)...), footer(uint64(len(cfg)), embed.Magic[:])...)
		obs.Append, obs.Read, obs.Copy, obs.Strip = red(o.Append, whole), red(o.Read, cfg), red(o.Copy, bin), red(o.Strip, bin)
		obs.Has, obs.Size = o.Has, o.Size
	case "roundtrip":
		// two names for AppendConfig; with an alias mode they designate one file
		os.RemoveAll(filepath.Join(dir, "rt"))
		rt := filepath.Join(dir, "rt")
		if err := os.Mkdir(rt, 0o755); err != nil {
			panic(err)
		}
		src := filepath.Join(rt, "src")
		dst := filepath.Join(rt, "dst")
		real := src // the file that holds the binary
		switch k.Alias {
		case "same":
			dst = src
		case "dst-symlink":
			must(os.Symlink(src, dst))
		case "dst-hardlink":
			// created after the binary is written, below
		case "src-symlink":
			real = dst
			must(os.Symlink("dst", src))
		case "relative":
			must(os.Chdir(rt))
			dst = "src" // relative spelling of the same file
		}
		must(os.WriteFile(real, unhex(k.Bin), 0o755))
		if k.Alias == "dst-hardlink" {
			must(os.Link(src, dst))
		}
		if k.Alias == "" {
			if k.PreCfg != "" {
				_ = embed.AppendConfig(src, dst, unhex(k.PreCfg)) // an earlier embed onto the same destination
			} else if k.Pre != "" {
				must(os.WriteFile(dst, unhex(k.Pre), 0o755))
			}
		}
		obs.Append = call(func() (outcome, error) {
			if err := embed.AppendConfig(src, dst, unhex(k.Cfg)); err != nil {
				return outcome{}, err
			}
			d, err := os.ReadFile(dst)
			if err != nil {
				return outcome{}, err
			}
			return outcome{Data: hex.EncodeToString(d)}, nil
		})
		if b, err := os.ReadFile(src); err == nil {
			obs.SrcAfter = hex.EncodeToString(b)
		}
		if obs.Append.Code == 0 {
			runReaders(dir, dst, &obs)
			// strip in place, through the same pair of names
			obs.Strip = call(func() (outcome, error) {
				from, to := dst, dst
				if k.Alias != "" {
					from, to = dst, src
				}
				if err := embed.CopyBinaryWithoutConfig(from, to); err != nil {
					return outcome{}, err
				}
				d, err := os.ReadFile(dst)
				if err != nil {
					return outcome{}, err
				}
				return outcome{Data: hex.EncodeToString(d)}, nil
			})
		}
		if k.Alias == "relative" {
			must(os.Chdir(dir))
		}
	}
	return obs
}

func pattern(n int, fill uint64) []byte {
	b := make([]byte, n)
	for i := range b {
		b[i] = byte(uint64(i)*31 + fill)
	}
	return b
}

// sizeSweep: binaries and configurations whose sizes lie within 17 bytes of a
// power of two / page / buffer size, and of every integer constant that occurs
// in the embed.go under test (a read-ahead or chunk size introduced there shows
// up here without the harness knowing about it).
func sizeSweep(thorough bool, r *vh.Rand) []kase {
	consts := map[int]bool{4096: true, 8192: true, 65536: true}
	if thorough {
		for _, v := range []int{256, 512, 1024, 2048, 16384, 32768, 131072} {
			consts[v] = true
		}
	}
	if repo := os.Getenv("VERIF_REPO"); repo != "" {
		if fset, f := token.NewFileSet(), (*ast.File)(nil); true {
			f, _ = parser.ParseFile(fset, filepath.Join(repo, "internal/embed/embed.go"), nil, 0)
			if f != nil {
				ast.Inspect(f, func(n ast.Node) bool {
					if bl, ok := n.(*ast.BasicLit); ok && bl.Kind == token.INT {
						if v, err := strconv.ParseInt(bl.Value, 0, 64); err == nil && v >= 64 && v <= 1<<20 {
							consts[int(v)] = true
						}
					}
					return true
				})
			}
		}
	}
	var vals []int
	for v := range consts {
		vals = append(vals, v)
	}
	sort.Ints(vals)
	var out []kase
	for _, c := range vals {
		for d := -17; d <= 17; d++ {
			n := c + d
			// the configuration has that size (small and page-sized binary) ...
			out = append(out, kase{Kind: "sized", BinLen: []int{40, 0, 4096, 5}[(d+17)%4], CfgLen: n, Fill: r.U64() & 0xff, Note: fmt.Sprintf("config size %d%+d", c, d)})
			// ... the binary has (total file size near the constant as well)
			if c <= 8192 || thorough {
				out = append(out, kase{Kind: "sized", BinLen: n, CfgLen: []int{10, 1, 33}[(d+17)%3], Fill: r.U64() & 0xff, Note: fmt.Sprintf("binary size %d%+d", c, d)})
				if n-16-10 >= 0 {
					out = append(out, kase{Kind: "sized", BinLen: n - 16 - 10, CfgLen: 10, Fill: r.U64() & 0xff, Note: fmt.Sprintf("file size %d%+d", c, d)})
				}
			}
		}
	}
	return out
}

func must(err error) {
	if err != nil {
		panic(err)
	}
}

func childMain() {
	dir, err := os.MkdirTemp("", "c36-child-")
	if err != nil {
		panic(err)
	}
	defer os.RemoveAll(dir)
	in := bufio.NewReaderSize(os.Stdin, 1<<20)
	out := bufio.NewWriter(os.Stdout)
	for {
		line, err := in.ReadBytes('\n')
		if len(bytes.TrimSpace(line)) > 0 {
			var k kase
			if e := json.Unmarshal(line, &k); e != nil {
				panic(e)
			}
			obs := runCase(dir, k)
			b, _ := json.Marshal(obs)
			out.Write(b)
			out.WriteByte('\n')
			out.Flush()
		}
		if err != nil {
			return
		}
	}
}

// runIsolated runs the cases in child processes; a child that dies on case i
// yields Code 8 outcomes for that case and a fresh child continues at i+1.
func runIsolated(cases []kase) []observed {
	res := make([]observed, len(cases))
	i := 0
	for i < len(cases) {
		var in bytes.Buffer
		for _, k := range cases[i:] {
			b, _ := json.Marshal(k)
			in.Write(b)
			in.WriteByte('\n')
		}
		cmd := exec.Command(os.Args[0])
		cmd.Env = append(os.Environ(), "C36_CHILD=1", "GOMEMLIMIT=off")
		cmd.Stdin = &in
		var stderr bytes.Buffer
		cmd.Stderr = &stderr
		outb, _ := cmd.Output()
		lines := bytes.Split(bytes.TrimSpace(outb), []byte("\n"))
		n := 0
		for _, l := range lines {
			if len(l) == 0 {
				continue
			}
			var o observed
			if err := json.Unmarshal(l, &o); err != nil {
				break
			}
			res[i+n] = o
			n++
		}
		i += n
		if i < len(cases) {
			// the child died while executing case i
			msg := stderr.String()
			if len(msg) > 300 {
				msg = msg[:300]
			}
			d := outcome{Code: 8, Msg: "process died: " + strings.SplitN(msg, "\n", 2)[0]}
			res[i] = observed{Has: d, Read: d, Size: d, Copy: d, Append: d}
			i++
		}
	}
	return res
}

// ---------------------------------------------------------------------------
// generators

func footer(n uint64, magic []byte) []byte {
	f := make([]byte, 16)
	binary.LittleEndian.PutUint64(f[:8], n)
	copy(f[8:], magic)
	return f
}

func genBody(r *vh.Rand) []byte {
	n := r.Pick(0, 0, 1, 7, 8, 15, 16, 17, 31, 32, 33, 40, 64, 100, 200)
	b := r.Bytes(n)
	// sometimes plant a magic marker inside or at the end of the body
	if n >= 8 && r.Chance(1, 4) {
		off := r.Intn(n - 7)
		if r.Chance(1, 2) {
			off = n - 8
		}
		copy(b[off:], embed.Magic[:])
	}
	return b
}

func genReaderFile(r *vh.Rand) (file []byte, note string) {
	body := genBody(r)
	magic := append([]byte{}, embed.Magic[:]...)
	switch r.Intn(10) {
	case 0: // corrupted magic
		magic[r.Intn(8)] ^= byte(1 << uint(r.Intn(8)))
		note = "bad-magic"
	case 1: // no footer at all
		return body, "no-footer"
	default:
		note = "magic"
	}
	room := uint64(len(body))
	cands := []uint64{0, 1, 2, room / 2, room - 1, room, room + 1, room + 2, room + 15, room + 16, room + 17, room + 24, room + 32,
		255, 256, 65536, 1 << 31, 1<<31 + 1, 1 << 32, 1 << 40, 1 << 47, 1 << 48, 1<<62 + 5, 1<<63 - 1, 1 << 63, 1<<63 + 1, 1<<63 + room,
		^uint64(0) - 31, ^uint64(0) - 17, ^uint64(0) - 16, ^uint64(0) - 15, ^uint64(0) - room, ^uint64(0) - 1, ^uint64(0)}
	n := cands[r.Intn(len(cands))]
	if r.Chance(1, 6) {
		n = r.U64()
	}
	if r.Chance(1, 5) && room > 0 {
		n = uint64(r.Intn(int(room) + 1))
	}
	file = append(append([]byte{}, body...), footer(n, magic)...)
	if r.Chance(1, 12) { // truncated footer: shorter than 16 bytes in total
		file = file[len(file)-r.Pick(1, 8, 9, 15):]
		note += "+short"
	}
	return file, fmt.Sprintf("%s len=%d room=%d", note, n, room)
}

func witnesses() []kase {
	var ks []kase
	body := bytes.Repeat([]byte{0xab}, 24)
	for _, n := range []uint64{1 << 63, ^uint64(0), 1<<63 + 24, 25, 40, 41, 1 << 31, 1<<63 - 1, ^uint64(0) - 15, ^uint64(0) - 16} {
		ks = append(ks, kase{Kind: "reader", File: hex.EncodeToString(append(append([]byte{}, body...), footer(n, embed.Magic[:])...)),
			Note: fmt.Sprintf("witness footer length %d on a %d-byte file", n, len(body)+16)})
	}
	// embedding and stripping in place, through every way two names can designate one file
	for _, a := range []string{"same", "dst-symlink", "dst-hardlink", "src-symlink", "relative"} {
		ks = append(ks, kase{Kind: "roundtrip", Bin: hex.EncodeToString(bytes.Repeat([]byte{0x7f, 'E', 'L', 'F'}, 10)), Cfg: hex.EncodeToString([]byte("agent:\n  id: auto\n")), Alias: a,
			Note: "in-place embed, alias mode " + a})
	}
	// file that is exactly one footer
	ks = append(ks, kase{Kind: "reader", File: hex.EncodeToString(footer(0, embed.Magic[:])), Note: "bare footer len 0"})
	ks = append(ks, kase{Kind: "reader", File: hex.EncodeToString(footer(1, embed.Magic[:])), Note: "bare footer len 1"})
	return ks
}

// ---------------------------------------------------------------------------
// Coq output

func coqOutcome(o outcome, withData bool) string {
	// (code, data)
	d := "\"\""
	if withData {
		d = "\"" + o.Data + "\""
	}
	return fmt.Sprintf("(%d%%N, %s)", o.Code, d)
}

func main() {
	if os.Getenv("C36_CHILD") == "1" {
		childMain()
		return
	}
	c := vh.Start("C36")
	defer c.Finish()
	c.Res.Rule = "case = one file content (reader: arbitrary body + footer length from a boundary set, valid/corrupt/absent magic), one (binary, config) pair " +
		"(roundtrip: AppendConfig then all readers on the result) or one XOR input; every call's result class and returned bytes are compared with the model; " +
		"non-trivial = the file carries the magic marker (reader) or the config is non-empty (roundtrip); distinct = distinct file / pair"

	var cases []kase
	if c.Replay != "" {
		var k kase
		if err := c.ReadReplay(&k); err != nil {
			panic(err)
		}
		cases = []kase{k}
	} else {
		cases = witnesses()
		r := c.Rand.Fork() // Fork decorrelates the streams of neighbouring seeds
		nReader, nRound, nXor := c.N(260, 6000), c.N(120, 3000), c.N(20, 300)
		for i := 0; i < nReader; i++ {
			f, note := genReaderFile(r)
			cases = append(cases, kase{Kind: "reader", File: hex.EncodeToString(f), Note: note})
		}
		for i := 0; i < nRound; i++ {
			bin := genBody(r)
			cfg := r.Bytes(r.Pick(0, 1, 1, 2, 15, 16, 31, 32, 33, 63, 64, 65, 100, 257))
			if r.Chance(1, 8) && len(bin) >= 8 { // binary that itself looks embedded
				copy(bin[len(bin)-8:], embed.Magic[:])
			}
			alias := ""
			if i%2 == 1 { // every second pair embeds and strips in place, through one of the ways two names can mean one file
				alias = []string{"same", "dst-symlink", "dst-hardlink", "src-symlink", "relative"}[(i/2)%5]
			}
			k := kase{Kind: "roundtrip", Bin: hex.EncodeToString(bin), Cfg: hex.EncodeToString(cfg), Alias: alias}
			if alias == "" {
				// the destination exists already: an earlier embed of a longer / shorter / equally long
				// configuration from the same binary, or a file of some other length
				switch (i / 2) % 4 {
				case 0:
					k.PreCfg = hex.EncodeToString(r.Bytes(len(cfg) + r.Pick(1, 2, 15, 16, 17, 40)))
				case 1:
					k.PreCfg = hex.EncodeToString(r.Bytes(r.Pick(1, 1+len(cfg)/2, len(cfg)+1)))
				case 2:
					k.Pre = hex.EncodeToString(r.Bytes(len(bin) + len(cfg) + 16 + r.Pick(0, 1, 8, 16, 17, 64)))
				}
			}
			cases = append(cases, k)
		}
		for i := 0; i < nXor; i++ {
			cases = append(cases, kase{Kind: "xor", Cfg: hex.EncodeToString(r.Bytes(r.Pick(0, 1, 31, 32, 33, 64, 65, 150)))})
		}
		// last: these are not sent to the model, the case numbering of cases.v stays a prefix
		cases = append(cases, sizeSweep(c.Thorough(), r)...)
	}

	obs := runIsolated(cases)

	var coq []string
	for i, k := range cases {
		o := obs[i]
		rep := map[string]any{"kind": k.Kind, "file": k.File, "bin": k.Bin, "cfg": k.Cfg, "note": k.Note, "alias": k.Alias, "pre_cfg": k.PreCfg, "pre": k.Pre, "observed": o}
		switch k.Kind {
		case "xor":
			c.Case("xor/"+k.Cfg, len(k.Cfg) > 0, rep)
			c.Count("xor")
			in := unhex(k.Cfg)
			back := embed.XOR(unhex(o.XOR))
			if !bytes.Equal(back, in) {
				c.Fail("xor-not-involutive", "XOR(XOR(x)) != x", k)
			}
			coq = append(coq, fmt.Sprintf("CXor \"%s\" \"%s\"", k.Cfg, o.XOR))
		case "reader":
			file := unhex(k.File)
			hasMagic := len(file) >= 16 && bytes.Equal(file[len(file)-8:], embed.Magic[:])
			c.Case("reader/"+k.File, hasMagic, rep)
			monitorReaders(c, k, file, o)
			c.Count(fmt.Sprintf("reader/read=%d", o.Read.Code))
			c.Count(fmt.Sprintf("reader/copy=%d", o.Copy.Code))
			coq = append(coq, fmt.Sprintf("CReader \"%s\" (%s) %s (%d%%N, (%d)%%Z) %s", k.File, coqHas(o.Has), coqOutcome(o.Read, true), o.Size.Code, o.Size.Int, coqOutcome(o.Copy, true)))
		case "sized":
			c.Case(fmt.Sprintf("sized/%d/%d", k.BinLen, k.CfgLen), k.CfgLen > 0, map[string]any{"kind": "sized", "bin_len": k.BinLen, "cfg_len": k.CfgLen, "fill": k.Fill, "note": k.Note, "observed": o})
			c.Count("sized")
			for name, oc := range map[string]outcome{"AppendConfig": o.Append, "HasEmbeddedConfig": o.Has, "ReadEmbeddedConfig": o.Read, "GetOriginalBinarySize": o.Size, "CopyBinaryWithoutConfig": o.Copy, "CopyBinaryWithoutConfig (in place)": o.Strip} {
				if oc.Code == 7 || oc.Code == 8 {
					c.Fail("embed-reader-panic", fmt.Sprintf("%s panicked / died with a %d-byte binary and a %d-byte config: %s", name, k.BinLen, k.CfgLen, oc.Msg), k)
				}
			}
			if !o.Append.Bool {
				c.Fail("embed-append-content", fmt.Sprintf("AppendConfig of a %d-byte config onto a %d-byte binary did not produce binary+config+footer (code %d)", k.CfgLen, k.BinLen, o.Append.Code), k)
			}
			if k.CfgLen > 0 && !o.Read.Bool {
				c.Fail("embed-roundtrip-config", fmt.Sprintf("reading back an embedded %d-byte config (binary %d bytes) gave code %d / different bytes", k.CfgLen, k.BinLen, o.Read.Code), k)
			}
			if !o.Copy.Bool || !o.Strip.Bool {
				c.Fail("embed-roundtrip-strip", fmt.Sprintf("stripping a %d-byte config did not give back the %d-byte binary (codes %d, %d)", k.CfgLen, k.BinLen, o.Copy.Code, o.Strip.Code), k)
			}
			if !(o.Size.Code == 0 && o.Size.Int == int64(k.BinLen)) {
				c.Fail("embed-roundtrip-size", fmt.Sprintf("original size %d reported for a %d-byte binary", o.Size.Int, k.BinLen), k)
			}
		case "roundtrip":
			bin, cfg := unhex(k.Bin), unhex(k.Cfg)
			c.Case("roundtrip/"+k.Alias+"/"+k.Bin+"/"+k.Cfg, len(cfg) > 0, rep)
			c.Count("roundtrip/alias=" + k.Alias)
			c.Count(fmt.Sprintf("roundtrip/append=%d", o.Append.Code))
			already := len(bin) >= 16 && bytes.Equal(bin[len(bin)-8:], embed.Magic[:])
			switch {
			case o.Append.Code == 7 || o.Append.Code == 8:
				c.Fail("embed-append-crash", "AppendConfig crashed: "+o.Append.Msg, k)
			case o.Append.Code == 0:
				monitorReaders(c, k, unhex(o.Append.Data), o)
				if len(cfg) > 0 && !(o.Read.Code == 0 && bytes.Equal(unhex(o.Read.Data), cfg)) {
					c.Fail("embed-roundtrip-config", fmt.Sprintf("reading back an embedded %d-byte config gave code %d / different bytes", len(cfg), o.Read.Code), k)
				}
				if !(o.Copy.Code == 0 && bytes.Equal(unhex(o.Copy.Data), bin)) {
					c.Fail("embed-roundtrip-strip", fmt.Sprintf("stripping the embedded config did not give back the %d-byte binary (code %d)", len(bin), o.Copy.Code), k)
				}
				if !(o.Strip.Code == 0 && bytes.Equal(unhex(o.Strip.Data), bin)) {
					c.Fail("embed-roundtrip-strip-in-place", fmt.Sprintf("embedding (alias mode %q) and stripping in place left %d bytes instead of the %d-byte binary (code %d %s)",
						k.Alias, len(o.Strip.Data)/2, len(bin), o.Strip.Code, o.Strip.Msg), k)
				}
				wantSrc := bin
				if k.Alias != "" {
					wantSrc = unhex(o.Append.Data)
				}
				if !bytes.Equal(unhex(o.SrcAfter), wantSrc) {
					c.Fail("embed-append-damaged-source", fmt.Sprintf("after AppendConfig (alias mode %q) the source file holds %d bytes", k.Alias, len(o.SrcAfter)/2), k)
				}
				if !(o.Size.Code == 0 && o.Size.Int == int64(len(bin))) {
					c.Fail("embed-roundtrip-size", fmt.Sprintf("original size %d reported for a %d-byte binary", o.Size.Int, len(bin)), k)
				}
			case !already:
				c.Fail("embed-append-refused", fmt.Sprintf("AppendConfig refused a binary that has no trailer (code %d: %s)", o.Append.Code, o.Append.Msg), k)
			}
			if o.Append.Code == 0 {
				coq = append(coq, fmt.Sprintf("CRound %s \"%s\" \"%s\" %s (%s) %s (%d%%N, (%d)%%Z) %s \"%s\" %s", vh.CoqBool(k.Alias != ""), k.Bin, k.Cfg, coqOutcome(o.Append, true),
					coqHas(o.Has), coqOutcome(o.Read, true), o.Size.Code, o.Size.Int, coqOutcome(o.Copy, true), o.SrcAfter, coqOutcome(o.Strip, true)))
			} else {
				coq = append(coq, fmt.Sprintf("CRound %s \"%s\" \"%s\" %s (0%%N, false) (0%%N, \"\") (0%%N, 0%%Z) (0%%N, \"\") \"%s\" (0%%N, \"\")", vh.CoqBool(k.Alias != ""), k.Bin, k.Cfg, coqOutcome(o.Append, false), o.SrcAfter))
			}
		}
	}

	var sb strings.Builder
	sb.WriteString("From Coq Require Import List NArith ZArith String.\nFrom MM Require Import Model.Embed.\nImport ListNotations.\nLocal Open Scope string_scope.\n")
	// split into chunks to keep single terms small
	const chunk = 200
	var names []string
	for i := 0; i < len(coq); i += chunk {
		j := i + chunk
		if j > len(coq) {
			j = len(coq)
		}
		name := fmt.Sprintf("cases%d", i/chunk)
		names = append(names, name)
		sb.WriteString("Definition " + name + " : list ecase := \n [" + strings.Join(coq[i:j], ";\n  ") + "].\n")
	}
	sb.WriteString("Definition cases : list ecase := " + strings.Join(names, " ++ ") + ".\n")
	sb.WriteString("Definition M := Eval vm_compute in mismatches cases.\nPrint M.\n")
	c.WriteCasesV("cases.v", sb.String())
}

func coqHas(o outcome) string {
	return fmt.Sprintf("%d%%N, %s", o.Code, vh.CoqBool(o.Bool))
}

// monitorReaders: the property's text on what the implementation did with
// one file content: no crash; a returned configuration is the de-obfuscated
// slice of the file just before the footer, of the length the footer states;
// a stripped copy is a prefix of the file; the reported original size lies
// inside the file.
func monitorReaders(c *vh.Ctx, k kase, file []byte, o observed) {
	size := int64(len(file))
	for name, oc := range map[string]outcome{"HasEmbeddedConfig": o.Has, "ReadEmbeddedConfig": o.Read, "GetOriginalBinarySize": o.Size, "CopyBinaryWithoutConfig": o.Copy} {
		if oc.Code == 7 {
			c.Fail("embed-reader-panic", fmt.Sprintf("%s panicked on a %d-byte file: %s", name, size, oc.Msg), k)
		}
		if oc.Code == 8 {
			c.Fail("embed-reader-crash", fmt.Sprintf("process died in the embedded-config readers on a %d-byte file: %s", size, oc.Msg), k)
		}
	}
	if o.Read.Code == 0 {
		d := unhex(o.Read.Data)
		n := int64(len(d))
		ok := n > 0 && n <= size-16 && bytes.Equal(embed.XOR(file[size-16-n:size-16]), d) &&
			binary.LittleEndian.Uint64(file[size-16:size-8]) == uint64(n)
		if !ok {
			c.Fail("embed-read-outside", fmt.Sprintf("ReadEmbeddedConfig returned %d bytes that are not the footer-described slice of the %d-byte file", n, size), k)
		}
	}
	if o.Size.Code == 0 && (o.Size.Int < 0 || o.Size.Int > size) {
		c.Fail("embed-origsize-outside", fmt.Sprintf("GetOriginalBinarySize returned %d for a %d-byte file", o.Size.Int, size), k)
	}
	if o.Copy.Code == 0 {
		d := unhex(o.Copy.Data)
		if int64(len(d)) > size || !bytes.Equal(file[:len(d)], d) {
			c.Fail("embed-copy-outside", fmt.Sprintf("CopyBinaryWithoutConfig wrote %d bytes that are not a prefix of the %d-byte file", len(d), size), k)
		}
	}
}
