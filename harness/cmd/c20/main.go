// c20: correspondence and monitor harness for C20 (port-forward endpoints
// connect only to their configured targets).
//
// Implementation under test: forward.Handler (NewHandler's key -> target
// map, HandleStreamOpen) built by agent.New from generated
// forward.endpoints, and the "forward:" prefix dispatch of the agent's
// STREAM_OPEN handling. Targets are loopback sink listeners, so every
// connection the handler opens is observed together with the endpoint it
// reached.
package main

import (
	"context"
	"fmt"
	"net"
	"strings"
	"time"

	"github.com/postalsys/muti-metroo/internal/config"
	"github.com/postalsys/muti-metroo/internal/identity"
	"github.com/postalsys/muti-metroo/internal/protocol"
	"github.com/postalsys/muti-metroo/verifharness/policy"
	"github.com/postalsys/muti-metroo/verifharness/vh"
)

type Endpoint struct {
	Key    []byte `json:"key"`
	Target int    `json:"target"` // index of the sink
	// Host spells the target's host: "" = 127.0.0.1, otherwise a host NAME
	// that resolves to loopback ("localhost"). Canonical form everywhere
	// else (monitor, model) is 127.0.0.1:<port of the sink>.
	Host string `json:"host,omitempty"`
}

type Request struct {
	Via  string `json:"via"`  // "dispatch" (STREAM_OPEN through the agent) | "direct" (forward.Handler.HandleStreamOpen)
	Addr []byte `json:"addr"` // dispatch: the domain address bytes; direct: the key
}

type Scenario struct {
	Name      string     `json:"name"`
	Endpoints []Endpoint `json:"endpoints"`
	Requests  []Request  `json:"requests"`
}

type env struct {
	c         *vh.Ctx
	sinks     []*policy.Sink
	peer      identity.AgentID
	nextID    uint64
	totalAcks int
	coq       []string
	hostNames bool // "localhost" resolves to loopback here
}

func (e *env) target(i int) string { return fmt.Sprintf("127.0.0.1:%d", e.sinks[i].Port) }

func (e *env) runScenario(sc Scenario) {
	c := e.c
	a, cleanup, err := policy.NewAgent(func(cfg *config.Config) {
		for _, ep := range sc.Endpoints {
			tgt := e.target(ep.Target)
			if ep.Host != "" && e.hostNames {
				tgt = fmt.Sprintf("%s:%d", ep.Host, e.sinks[ep.Target].Port)
			}
			cfg.Forward.Endpoints = append(cfg.Forward.Endpoints, config.ForwardEndpoint{Key: string(ep.Key), Target: tgt})
		}
	})
	if err != nil {
		c.Fail("agent-new-failed", err.Error(), sc)
		return
	}
	defer cleanup()
	w := policy.NewWriter()
	fh := a.VerifForwardHandler()
	if fh != nil {
		fh.VerifSetWriter(w)
		fh.Start()
		defer fh.Stop()
	}
	if (fh != nil) != (len(sc.Endpoints) > 0) {
		c.Fail("forward-handler-presence", fmt.Sprintf("forward handler present=%v with %d endpoints", fh != nil, len(sc.Endpoints)), sc)
	}
	// the monitor's reading of the configuration: the targets configured for a key
	configured := func(key string) map[string]bool {
		m := map[string]bool{}
		for _, ep := range sc.Endpoints {
			if string(ep.Key) == key {
				m[e.target(ep.Target)] = true
			}
		}
		return m
	}

	var steps []string
	acks := 0
	nontrivial := false
	for i, rq := range sc.Requests {
		c.Count("via:" + rq.Via)
		e.nextID += 2
		sid := e.nextID
		w.Expect(sid)
		var key string
		isForward := true
		var coqReq string
		switch rq.Via {
		case "dispatch":
			addr := append([]byte{byte(len(rq.Addr))}, rq.Addr...)
			so := &protocol.StreamOpen{RequestID: sid + 1000000, AddressType: protocol.AddrTypeDomain, Address: addr, Port: 0,
				EphemeralPubKey: policy.EphemeralPub()}
			a.VerifProcessFrame(e.peer, &protocol.Frame{Type: protocol.FrameStreamOpen, StreamID: sid, Payload: so.Encode()})
			// what the property calls the requested key: the address minus the forward: prefix
			if strings.HasPrefix(string(rq.Addr), "forward:") {
				key = string(rq.Addr[len("forward:"):])
			} else {
				isForward = false
			}
			coqReq = "ReqDispatch " + policy.CoqBytes(rq.Addr)
		case "direct":
			key = string(rq.Addr)
			coqReq = "ReqDirect " + policy.CoqBytes(rq.Addr)
			if fh != nil {
				fh.HandleStreamOpen(context.Background(), sid, sid+1000000, e.peer, key, policy.EphemeralPub())
			}
		}
		var coqObs string
		expectAnswer := fh != nil && isForward
		if !expectAnswer {
			// no forward handler (the agent answers through the peer manager,
			// which has no peers here) or not a forward address (exit
			// handler absent): nothing reaches the recording writer
			coqObs = "FNoAnswer"
			c.Count("obs:no-answer")
			if w.Pending(sid) {
				c.Fail("unexpected-answer", fmt.Sprintf("request %d (%q via %s) was answered although no forward handler / not a forward address", i, rq.Addr, rq.Via), sc)
			}
		} else {
			r, ok := w.Wait(sid, 20*time.Second)
			if !ok {
				c.Fail("open-no-answer", fmt.Sprintf("request %d (%q via %s): no answer within 20 s", i, rq.Addr, rq.Via), sc)
				return
			}
			switch {
			case r.Ack:
				acks++
				hit := -1
				// the ACK is written after the connection is established; wait
				// (bounded) for the accept loop of the sink to record it
				deadline := time.Now().Add(10 * time.Second)
				for hit < 0 && time.Now().Before(deadline) {
					for j, s := range e.sinks {
						if s.Has(int(r.BoundPort)) {
							s.WaitFor(int(r.BoundPort), time.Second)
							hit = j
							break
						}
					}
					if hit < 0 {
						time.Sleep(200 * time.Microsecond)
					}
				}
				if hit < 0 {
					c.Fail("ack-without-observed-dial", fmt.Sprintf("request %d: ACK but no sink accepted a connection from port %d", i, r.BoundPort), sc)
					return
				}
				fh.HandleStreamClose(e.peer, sid)
				coqObs = "FDialed " + policy.CoqBytes([]byte(e.target(hit)))
				c.Count("obs:dialed")
				nontrivial = true
				if !configured(key)[e.target(hit)] {
					c.Fail("dial-to-unconfigured-target",
						fmt.Sprintf("request %d for key %q connected to %s, which is not a target configured for that key (configured: %v)", i, key, e.target(hit), keys(configured(key))), sc)
				}
			case r.ErrCode == protocol.ErrForwardNotFound:
				coqObs = "FNotFound"
				c.Count("obs:not-found")
				if len(configured(key)) > 0 {
					c.Count("obs:not-found-but-configured")
				}
			default:
				coqObs = fmt.Sprintf("FOther %d%%N", r.ErrCode)
				c.Count(fmt.Sprintf("obs:other-%d", r.ErrCode))
			}
			if len(configured(key)) == 0 && !(r.ErrCode == protocol.ErrForwardNotFound && !r.Ack) {
				c.Fail("unknown-key-not-refused", fmt.Sprintf("request %d for unknown key %q was answered ack=%v code=%d instead of not-found (40)", i, key, r.Ack, r.ErrCode), sc)
			}
		}
		steps = append(steps, fmt.Sprintf("(%s, %s)", coqReq, coqObs))
	}
	total := 0
	for _, s := range e.sinks {
		n, err := s.Fence("127.0.0.1")
		if err != nil {
			c.Fail("sink-fence-failed", err.Error(), sc)
			return
		}
		total += n
	}
	e.totalAcks += acks
	if total != e.totalAcks {
		c.Fail("unacknowledged-connection", fmt.Sprintf("sinks accepted %d connections in total but only %d opens were acknowledged", total, e.totalAcks), sc)
		e.totalAcks = total
	}
	var eps []string
	for _, ep := range sc.Endpoints {
		eps = append(eps, fmt.Sprintf("(%s, %s)", policy.CoqBytes(ep.Key), policy.CoqBytes([]byte(e.target(ep.Target)))))
	}
	c.Case(sc.Name, nontrivial, sc)
	e.coq = append(e.coq, fmt.Sprintf("(%s,\n  %s)", vh.CoqList(eps), policy.CoqListNL(steps)))
}

func keys(m map[string]bool) []string {
	var out []string
	for k := range m {
		out = append(out, k)
	}
	return out
}

var baseKeys = []string{"web", "db", "my-web-server", "a", "k8s/api", "wéb", "forward:web", "x.y"}

func variants(r *vh.Rand, k string) []byte {
	if r.Chance(2, 5) {
		return []byte(k)
	}
	if len(k) >= 15 && r.Chance(1, 2) {
		// extend / cut a long key
		if r.Chance(1, 4) {
			return []byte(k[:len(k)-1])
		}
		n := r.Pick(1, 1, 2, 16, 64)
		if len(k)+n > 247 {
			n = 1
		}
		return []byte(k + strings.Repeat(string(k[len(k)-1]), n))
	}
	switch r.Intn(20) {
	case 16:
		return []byte(k + ":" + []string{"admin", "", "8080", k}[r.Intn(4)]) // colon-separated extension of a configured key
	case 17:
		return []byte(":" + k)
	case 18:
		return []byte(k + "/" + k)
	case 19:
		if i := strings.IndexAny(k, ":/.-"); i > 0 {
			return []byte(k[:i]) // first segment of a structured key
		}
		return []byte(k + ".")
	case 0:
		return []byte(strings.ToUpper(k))
	case 1:
		if len(k) > 1 {
			return []byte(k[:len(k)-1]) // proper prefix
		}
		return []byte{}
	case 2:
		return []byte(k + "x") // extension
	case 3:
		return []byte(k + "\x00")
	case 4:
		return []byte(k + "\x00evil")
	case 5:
		return []byte(" " + k)
	case 6:
		return []byte(k + " ")
	case 7:
		if len(k) > 1 {
			return []byte(k[1:]) // proper suffix
		}
		return []byte("?")
	case 8:
		return []byte{}
	case 9:
		return []byte(strings.Repeat("a", r.Pick(246, 247, 255)))
	case 10:
		return []byte(strings.Title(k))
	case 11:
		return []byte("forward:" + k)
	case 12:
		return r.Bytes(1 + r.Intn(6))
	default:
		return []byte(k)
	}
}

func genScenario(r *vh.Rand, idx int, nsinks int) Scenario {
	sc := Scenario{Name: fmt.Sprintf("g%d", idx)}
	ne := r.Pick(0, 1, 1, 2, 3, 4, 6)
	var ks [][]byte
	for i := 0; i < ne; i++ {
		var k []byte
		switch {
		case len(ks) > 0 && r.Chance(1, 5):
			k = ks[r.Intn(len(ks))] // duplicate key: the later endpoint wins
		case len(ks) > 0 && r.Chance(1, 3):
			k = variants(r, string(ks[r.Intn(len(ks))])) // near miss of another configured key
		default:
			k = []byte(baseKeys[r.Intn(len(baseKeys))])
		}
		if r.Chance(1, 12) {
			// a key the route manager refuses to advertise (longer than 255 bytes)
			k = []byte(strings.Repeat("L", r.Pick(256, 257, 300)))
		} else if r.Chance(1, 6) {
			// a key at a length boundary
			k = []byte(strings.Repeat("k", r.Pick(15, 16, 17, 31, 32, 33, 63, 64, 65, 127, 128, 129, 246, 247)))
		}
		ks = append(ks, k)
		ep := Endpoint{Key: k, Target: r.Intn(nsinks)}
		if r.Chance(1, 3) {
			ep.Host = "localhost"
		}
		sc.Endpoints = append(sc.Endpoints, ep)
	}
	nr := 4 + r.Intn(12)
	for i := 0; i < nr; i++ {
		base := baseKeys[r.Intn(len(baseKeys))]
		if len(ks) > 0 && r.Chance(4, 5) {
			base = string(ks[r.Intn(len(ks))])
		}
		k := variants(r, base)
		if r.Chance(1, 2) || len(k) > 247 {
			sc.Requests = append(sc.Requests, Request{Via: "direct", Addr: k})
			continue
		}
		var addr []byte
		switch r.Intn(12) {
		case 0:
			addr = append([]byte("Forward:"), k...)
		case 1:
			addr = append([]byte("forward"), k...)
		case 2:
			addr = append([]byte(" forward:"), k...)
		case 3:
			addr = k
		default:
			addr = append([]byte("forward:"), k...)
		}
		if len(addr) > 255 {
			addr = addr[:255]
		}
		sc.Requests = append(sc.Requests, Request{Via: "dispatch", Addr: addr})
	}
	return sc
}

// boundaryScenario: one endpoint per length in lens (key = that many bytes,
// all sharing a common prefix so that each is a prefix of the longer ones),
// and for every configured key k requests for k itself, k cut by one byte and
// k extended by 1, 2, ... bytes up to the longest key the wire can carry.
func boundaryScenario(name string, lens []int) Scenario {
	sc := Scenario{Name: name}
	mk := func(n int) []byte {
		k := make([]byte, n)
		for i := range k {
			k[i] = byte('a' + i%26)
		}
		return k
	}
	ask := func(k []byte) {
		if len(k) <= 247 {
			sc.Requests = append(sc.Requests, Request{Via: "dispatch", Addr: append([]byte("forward:"), k...)})
		}
		if len(k) <= 255 {
			sc.Requests = append(sc.Requests, Request{Via: "direct", Addr: k})
		}
	}
	for i, n := range lens {
		sc.Endpoints = append(sc.Endpoints, Endpoint{Key: mk(n), Target: i % 4})
	}
	for _, n := range lens {
		k := mk(n)
		ask(k)
		ask(k[:n-1])
		for _, extra := range []int{1, 2, 3, 8, 64, 100, 183, 184, 191, 192} {
			if n+extra <= 255 {
				ext := append(append([]byte{}, k...), mk(n + extra)[n:]...)
				ask(ext)
				ask(append(append([]byte{}, k...), []byte(strings.Repeat("Z", extra))...))
			}
		}
		ask(mk(247))
		ask(mk(255))
	}
	return sc
}

func witnesses() []Scenario {
	b := func(s string) []byte { return []byte(s) }
	return []Scenario{
		{Name: "w-basic", Endpoints: []Endpoint{{Key: b("web"), Target: 0}, {Key: b("db"), Target: 1}}, Requests: []Request{
			{"dispatch", b("forward:web")}, {"dispatch", b("forward:db")}, {"dispatch", b("forward:we")}, {"dispatch", b("forward:webx")},
			{"dispatch", b("forward:WEB")}, {"dispatch", b("forward:web\x00")}, {"dispatch", b("forward:")}, {"dispatch", b("Forward:web")},
			{"dispatch", b("forward")}, {"dispatch", b("web")}, {"direct", b("web")}, {"direct", b("")}, {"direct", b("forward:web")},
			{"direct", b(strings.Repeat("a", 255))}, {"dispatch", b("forward:forward:web")}}},
		{Name: "w-colon-suffixed-key-is-unknown", Endpoints: []Endpoint{{Key: b("web"), Target: 0}, {Key: b("db"), Target: 1}, {Key: b("a:b"), Target: 2}}, Requests: []Request{
			{"dispatch", b("forward:web:admin")}, {"dispatch", b("forward:web:")}, {"dispatch", b("forward:web:8080")}, {"dispatch", b("forward::web")},
			{"dispatch", b("forward:a:b")}, {"dispatch", b("forward:a")}, {"dispatch", b("forward:a:b:c")}, {"direct", b("web:admin")}, {"direct", b("a:b")}, {"direct", b("a")}}},
		// endpoints whose targets share a host NAME and differ in the port
		{Name: "w-shared-host-name", Endpoints: []Endpoint{{Key: b("web"), Target: 0, Host: "localhost"}, {Key: b("db"), Target: 1, Host: "localhost"}, {Key: b("cache"), Target: 2, Host: "localhost"}, {Key: b("ip"), Target: 3, Host: ""}}, Requests: []Request{
			{"dispatch", b("forward:web")}, {"dispatch", b("forward:db")}, {"direct", b("cache")}, {"direct", b("db")}, {"dispatch", b("forward:web")}, {"direct", b("ip")}, {"direct", b("cache")}}},
		// configured keys AT length boundaries and requests that extend them
		boundaryScenario("w-key-length-63-64-65", []int{63, 64, 65}),
		boundaryScenario("w-key-length-31-32-33-128", []int{31, 32, 33, 128}),
		boundaryScenario("w-key-length-246-247-254-255", []int{246, 247, 254, 255}),
		// an endpoint whose key is too long to be advertised (> 255 bytes) next to ordinary ones: the empty key stays unknown
		{Name: "w-unadvertisable-endpoint", Endpoints: []Endpoint{{Key: b("web"), Target: 0}, {Key: b(strings.Repeat("k", 300)), Target: 1}, {Key: b("db"), Target: 2}}, Requests: []Request{
			{"dispatch", b("forward:")}, {"direct", b("")}, {"dispatch", b("forward:web")}, {"direct", b(strings.Repeat("k", 300))}, {"direct", b(strings.Repeat("k", 255))},
			{"dispatch", b("forward:db")}, {"dispatch", b("forward:")}}},
		{Name: "w-duplicate-key-last-wins", Endpoints: []Endpoint{{Key: b("web"), Target: 0}, {Key: b("web"), Target: 1}, {Key: b("Web"), Target: 2}}, Requests: []Request{
			{"dispatch", b("forward:web")}, {"direct", b("web")}, {"direct", b("Web")}, {"direct", b("WEB")}}},
		{Name: "w-no-endpoints", Requests: []Request{{"dispatch", b("forward:web")}, {"dispatch", b("forward:")}, {"direct", b("web")}}},
		{Name: "w-empty-and-prefixed-keys", Endpoints: []Endpoint{{Key: b(""), Target: 0}, {Key: b("forward:web"), Target: 1}, {Key: b("web\x00"), Target: 2}}, Requests: []Request{
			{"dispatch", b("forward:")}, {"direct", b("")}, {"dispatch", b("forward:forward:web")}, {"dispatch", b("forward:web")},
			{"direct", b("web\x00")}, {"direct", b("web")}, {"dispatch", b("forward:web\x00")}}},
	}
}

func main() {
	c := vh.Start("C20")
	defer c.Finish()
	c.Res.Rule = "case = one scenario: generated forward.endpoints on a real agent and a list of tunnel open requests (through the agent's STREAM_OPEN dispatch or directly at forward.Handler); " +
		"for every request the sink reached / the error code is compared with the model; non-trivial = at least one request connected; distinct = distinct scenario names"
	e := &env{c: c}
	for i := 0; i < 4; i++ {
		s, err := policy.NewSink(fmt.Sprintf("t%d", i), "tcp4", "127.0.0.1:0")
		if err != nil {
			panic(err)
		}
		defer s.Close()
		e.sinks = append(e.sinks, s)
	}
	e.peer, _ = identity.NewAgentID()
	if addrs, err := net.LookupHost("localhost"); err == nil {
		for _, a := range addrs {
			if a == "127.0.0.1" {
				e.hostNames = true
			}
		}
	}
	if !e.hostNames {
		c.Note("localhost does not resolve to 127.0.0.1 here: host-name targets are configured as IP literals")
	}
	run := func(sc Scenario) {
		if p := vh.Recover(func() { e.runScenario(sc) }); p != "" {
			c.Fail("panic", p, sc)
		}
	}
	if c.Replay != "" {
		var sc Scenario
		if err := c.ReadReplay(&sc); err != nil {
			panic(err)
		}
		run(sc)
	} else {
		for _, sc := range witnesses() {
			run(sc)
		}
		n := c.N(150, 4000)
		for i := 0; i < n; i++ {
			run(genScenario(c.Rand.Fork(), i, len(e.sinks)))
		}
	}
	var sb strings.Builder
	sb.WriteString("From Coq Require Import List NArith String.\nFrom MM Require Import Lib.Bytes Model.Forward.\nImport ListNotations.\nLocal Open Scope string_scope.\n")
	sb.WriteString(policy.ChunkedCases("cases", "case", "mismatches_from", e.coq, 400))
	c.WriteCasesV("cases.v", sb.String())
}
