// c20: correspondence and monitor harness for C20 (port-forward endpoints
// connect only to their configured targets).
//
// Implementation under test: forward.Handler (NewHandler's key -> target
// map, HandleStreamOpen) built by agent.New from generated
// forward.endpoints, and the "forward:" prefix dispatch of the agent's
// STREAM_OPEN handling. Targets are loopback sink listeners, so every
// connection the handler opens is observed together with the endpoint it
// reached.
package main

import (
	"context"
	"fmt"
	"strings"
	"time"

	"github.com/postalsys/muti-metroo/internal/config"
	"github.com/postalsys/muti-metroo/internal/identity"
	"github.com/postalsys/muti-metroo/internal/protocol"
	"github.com/postalsys/muti-metroo/verifharness/policy"
	"github.com/postalsys/muti-metroo/verifharness/vh"
)

type Endpoint struct {
	Key    []byte `json:"key"`
	Target int    `json:"target"` // index of the sink
}

type Request struct {
	Via  string `json:"via"`  // "dispatch" (STREAM_OPEN through the agent) | "direct" (forward.Handler.HandleStreamOpen)
	Addr []byte `json:"addr"` // dispatch: the domain address bytes; direct: the key
}

type Scenario struct {
	Name      string     `json:"name"`
	Endpoints []Endpoint `json:"endpoints"`
	Requests  []Request  `json:"requests"`
}

type env struct {
	c         *vh.Ctx
	sinks     []*policy.Sink
	peer      identity.AgentID
	nextID    uint64
	totalAcks int
	coq       []string
}

func (e *env) target(i int) string { return fmt.Sprintf("127.0.0.1:%d", e.sinks[i].Port) }

func (e *env) runScenario(sc Scenario) {
	c := e.c
	a, cleanup, err := policy.NewAgent(func(cfg *config.Config) {
		for _, ep := range sc.Endpoints {
			cfg.Forward.Endpoints = append(cfg.Forward.Endpoints, config.ForwardEndpoint{Key: string(ep.Key), Target: e.target(ep.Target)})
		}
	})
	if err != nil {
		c.Fail("agent-new-failed", err.Error(), sc)
		return
	}
	defer cleanup()
	w := policy.NewWriter()
	fh := a.VerifForwardHandler()
	if fh != nil {
		fh.VerifSetWriter(w)
		fh.Start()
		defer fh.Stop()
	}
	if (fh != nil) != (len(sc.Endpoints) > 0) {
		c.Fail("forward-handler-presence", fmt.Sprintf("forward handler present=%v with %d endpoints", fh != nil, len(sc.Endpoints)), sc)
	}
	// the monitor's reading of the configuration: the targets configured for a key
	configured := func(key string) map[string]bool {
		m := map[string]bool{}
		for _, ep := range sc.Endpoints {
			if string(ep.Key) == key {
				m[e.target(ep.Target)] = true
			}
		}
		return m
	}

	var steps []string
	acks := 0
	nontrivial := false
	for i, rq := range sc.Requests {
		c.Count("via:" + rq.Via)
		e.nextID += 2
		sid := e.nextID
		w.Expect(sid)
		var key string
		isForward := true
		var coqReq string
		switch rq.Via {
		case "dispatch":
			addr := append([]byte{byte(len(rq.Addr))}, rq.Addr...)
			so := &protocol.StreamOpen{RequestID: sid + 1000000, AddressType: protocol.AddrTypeDomain, Address: addr, Port: 0,
				EphemeralPubKey: policy.EphemeralPub()}
			a.VerifProcessFrame(e.peer, &protocol.Frame{Type: protocol.FrameStreamOpen, StreamID: sid, Payload: so.Encode()})
			// what the property calls the requested key: the address minus the forward: prefix
			if strings.HasPrefix(string(rq.Addr), "forward:") {
				key = string(rq.Addr[len("forward:"):])
			} else {
				isForward = false
			}
			coqReq = "ReqDispatch " + policy.CoqBytes(rq.Addr)
		case "direct":
			key = string(rq.Addr)
			coqReq = "ReqDirect " + policy.CoqBytes(rq.Addr)
			if fh != nil {
				fh.HandleStreamOpen(context.Background(), sid, sid+1000000, e.peer, key, policy.EphemeralPub())
			}
		}
		var coqObs string
		expectAnswer := fh != nil && isForward
		if !expectAnswer {
			// no forward handler (the agent answers through the peer manager,
			// which has no peers here) or not a forward address (exit
			// handler absent): nothing reaches the recording writer
			coqObs = "FNoAnswer"
			c.Count("obs:no-answer")
			if w.Pending(sid) {
				c.Fail("unexpected-answer", fmt.Sprintf("request %d (%q via %s) was answered although no forward handler / not a forward address", i, rq.Addr, rq.Via), sc)
			}
		} else {
			r, ok := w.Wait(sid, 20*time.Second)
			if !ok {
				c.Fail("open-no-answer", fmt.Sprintf("request %d (%q via %s): no answer within 20 s", i, rq.Addr, rq.Via), sc)
				return
			}
			switch {
			case r.Ack:
				acks++
				hit := -1
				// the ACK is written after the connection is established; wait
				// (bounded) for the accept loop of the sink to record it
				deadline := time.Now().Add(10 * time.Second)
				for hit < 0 && time.Now().Before(deadline) {
					for j, s := range e.sinks {
						if s.Has(int(r.BoundPort)) {
							s.WaitFor(int(r.BoundPort), time.Second)
							hit = j
							break
						}
					}
					if hit < 0 {
						time.Sleep(200 * time.Microsecond)
					}
				}
				if hit < 0 {
					c.Fail("ack-without-observed-dial", fmt.Sprintf("request %d: ACK but no sink accepted a connection from port %d", i, r.BoundPort), sc)
					return
				}
				fh.HandleStreamClose(e.peer, sid)
				coqObs = "FDialed " + policy.CoqBytes([]byte(e.target(hit)))
				c.Count("obs:dialed")
				nontrivial = true
				if !configured(key)[e.target(hit)] {
					c.Fail("dial-to-unconfigured-target",
						fmt.Sprintf("request %d for key %q connected to %s, which is not a target configured for that key (configured: %v)", i, key, e.target(hit), keys(configured(key))), sc)
				}
			case r.ErrCode == protocol.ErrForwardNotFound:
				coqObs = "FNotFound"
				c.Count("obs:not-found")
				if len(configured(key)) > 0 {
					c.Count("obs:not-found-but-configured")
				}
			default:
				coqObs = fmt.Sprintf("FOther %d%%N", r.ErrCode)
				c.Count(fmt.Sprintf("obs:other-%d", r.ErrCode))
			}
			if len(configured(key)) == 0 && !(r.ErrCode == protocol.ErrForwardNotFound && !r.Ack) {
				c.Fail("unknown-key-not-refused", fmt.Sprintf("request %d for unknown key %q was answered ack=%v code=%d instead of not-found (40)", i, key, r.Ack, r.ErrCode), sc)
			}
		}
		steps = append(steps, fmt.Sprintf("(%s, %s)", coqReq, coqObs))
	}
	total := 0
	for _, s := range e.sinks {
		n, err := s.Fence("127.0.0.1")
		if err != nil {
			c.Fail("sink-fence-failed", err.Error(), sc)
			return
		}
		total += n
	}
	e.totalAcks += acks
	if total != e.totalAcks {
		c.Fail("unacknowledged-connection", fmt.Sprintf("sinks accepted %d connections in total but only %d opens were acknowledged", total, e.totalAcks), sc)
		e.totalAcks = total
	}
	var eps []string
	for _, ep := range sc.Endpoints {
		eps = append(eps, fmt.Sprintf("(%s, %s)", policy.CoqBytes(ep.Key), policy.CoqBytes([]byte(e.target(ep.Target)))))
	}
	c.Case(sc.Name, nontrivial, sc)
	e.coq = append(e.coq, fmt.Sprintf("(%s,\n  %s)", vh.CoqList(eps), policy.CoqListNL(steps)))
}

func keys(m map[string]bool) []string {
	var out []string
	for k := range m {
		out = append(out, k)
	}
	return out
}

var baseKeys = []string{"web", "db", "my-web-server", "a", "k8s/api", "wéb", "forward:web", "x.y"}

func variants(r *vh.Rand, k string) []byte {
	if r.Chance(2, 5) {
		return []byte(k)
	}
	switch r.Intn(20) {
	case 16:
		return []byte(k + ":" + []string{"admin", "", "8080", k}[r.Intn(4)]) // colon-separated extension of a configured key
	case 17:
		return []byte(":" + k)
	case 18:
		return []byte(k + "/" + k)
	case 19:
		if i := strings.IndexAny(k, ":/.-"); i > 0 {
			return []byte(k[:i]) // first segment of a structured key
		}
		return []byte(k + ".")
	case 0:
		return []byte(strings.ToUpper(k))
	case 1:
		if len(k) > 1 {
			return []byte(k[:len(k)-1]) // proper prefix
		}
		return []byte{}
	case 2:
		return []byte(k + "x") // extension
	case 3:
		return []byte(k + "\x00")
	case 4:
		return []byte(k + "\x00evil")
	case 5:
		return []byte(" " + k)
	case 6:
		return []byte(k + " ")
	case 7:
		if len(k) > 1 {
			return []byte(k[1:]) // proper suffix
		}
		return []byte("?")
	case 8:
		return []byte{}
	case 9:
		return []byte(strings.Repeat("a", r.Pick(246, 247, 255)))
	case 10:
		return []byte(strings.Title(k))
	case 11:
		return []byte("forward:" + k)
	case 12:
		return r.Bytes(1 + r.Intn(6))
	default:
		return []byte(k)
	}
}

func genScenario(r *vh.Rand, idx int, nsinks int) Scenario {
	sc := Scenario{Name: fmt.Sprintf("g%d", idx)}
	ne := r.Pick(0, 1, 1, 2, 3, 4, 6)
	var ks [][]byte
	for i := 0; i < ne; i++ {
		var k []byte
		switch {
		case len(ks) > 0 && r.Chance(1, 5):
			k = ks[r.Intn(len(ks))] // duplicate key: the later endpoint wins
		case len(ks) > 0 && r.Chance(1, 3):
			k = variants(r, string(ks[r.Intn(len(ks))])) // near miss of another configured key
		default:
			k = []byte(baseKeys[r.Intn(len(baseKeys))])
		}
		ks = append(ks, k)
		sc.Endpoints = append(sc.Endpoints, Endpoint{Key: k, Target: r.Intn(nsinks)})
	}
	nr := 4 + r.Intn(12)
	for i := 0; i < nr; i++ {
		base := baseKeys[r.Intn(len(baseKeys))]
		if len(ks) > 0 && r.Chance(4, 5) {
			base = string(ks[r.Intn(len(ks))])
		}
		k := variants(r, base)
		if r.Chance(1, 2) || len(k) > 247 {
			sc.Requests = append(sc.Requests, Request{Via: "direct", Addr: k})
			continue
		}
		var addr []byte
		switch r.Intn(12) {
		case 0:
			addr = append([]byte("Forward:"), k...)
		case 1:
			addr = append([]byte("forward"), k...)
		case 2:
			addr = append([]byte(" forward:"), k...)
		case 3:
			addr = k
		default:
			addr = append([]byte("forward:"), k...)
		}
		if len(addr) > 255 {
			addr = addr[:255]
		}
		sc.Requests = append(sc.Requests, Request{Via: "dispatch", Addr: addr})
	}
	return sc
}

func witnesses() []Scenario {
	b := func(s string) []byte { return []byte(s) }
	return []Scenario{
		{Name: "w-basic", Endpoints: []Endpoint{{b("web"), 0}, {b("db"), 1}}, Requests: []Request{
			{"dispatch", b("forward:web")}, {"dispatch", b("forward:db")}, {"dispatch", b("forward:we")}, {"dispatch", b("forward:webx")},
			{"dispatch", b("forward:WEB")}, {"dispatch", b("forward:web\x00")}, {"dispatch", b("forward:")}, {"dispatch", b("Forward:web")},
			{"dispatch", b("forward")}, {"dispatch", b("web")}, {"direct", b("web")}, {"direct", b("")}, {"direct", b("forward:web")},
			{"direct", b(strings.Repeat("a", 255))}, {"dispatch", b("forward:forward:web")}}},
		{Name: "w-colon-suffixed-key-is-unknown", Endpoints: []Endpoint{{b("web"), 0}, {b("db"), 1}, {b("a:b"), 2}}, Requests: []Request{
			{"dispatch", b("forward:web:admin")}, {"dispatch", b("forward:web:")}, {"dispatch", b("forward:web:8080")}, {"dispatch", b("forward::web")},
			{"dispatch", b("forward:a:b")}, {"dispatch", b("forward:a")}, {"dispatch", b("forward:a:b:c")}, {"direct", b("web:admin")}, {"direct", b("a:b")}, {"direct", b("a")}}},
		{Name: "w-duplicate-key-last-wins", Endpoints: []Endpoint{{b("web"), 0}, {b("web"), 1}, {b("Web"), 2}}, Requests: []Request{
			{"dispatch", b("forward:web")}, {"direct", b("web")}, {"direct", b("Web")}, {"direct", b("WEB")}}},
		{Name: "w-no-endpoints", Requests: []Request{{"dispatch", b("forward:web")}, {"dispatch", b("forward:")}, {"direct", b("web")}}},
		{Name: "w-empty-and-prefixed-keys", Endpoints: []Endpoint{{b(""), 0}, {b("forward:web"), 1}, {b("web\x00"), 2}}, Requests: []Request{
			{"dispatch", b("forward:")}, {"direct", b("")}, {"dispatch", b("forward:forward:web")}, {"dispatch", b("forward:web")},
			{"direct", b("web\x00")}, {"direct", b("web")}, {"dispatch", b("forward:web\x00")}}},
	}
}

func main() {
	c := vh.Start("C20")
	defer c.Finish()
	c.Res.Rule = "case = one scenario: generated forward.endpoints on a real agent and a list of tunnel open requests (through the agent's STREAM_OPEN dispatch or directly at forward.Handler); " +
		"for every request the sink reached / the error code is compared with the model; non-trivial = at least one request connected; distinct = distinct scenario names"
	e := &env{c: c}
	for i := 0; i < 4; i++ {
		s, err := policy.NewSink(fmt.Sprintf("t%d", i), "tcp4", "127.0.0.1:0")
		if err != nil {
			panic(err)
		}
		defer s.Close()
		e.sinks = append(e.sinks, s)
	}
	e.peer, _ = identity.NewAgentID()
	run := func(sc Scenario) {
		if p := vh.Recover(func() { e.runScenario(sc) }); p != "" {
			c.Fail("panic", p, sc)
		}
	}
	if c.Replay != "" {
		var sc Scenario
		if err := c.ReadReplay(&sc); err != nil {
			panic(err)
		}
		run(sc)
	} else {
		for _, sc := range witnesses() {
			run(sc)
		}
		n := c.N(150, 4000)
		for i := 0; i < n; i++ {
			run(genScenario(c.Rand.Fork(), i, len(e.sinks)))
		}
	}
	var sb strings.Builder
	sb.WriteString("From Coq Require Import List NArith String.\nFrom MM Require Import Lib.Bytes Model.Forward.\nImport ListNotations.\nLocal Open Scope string_scope.\n")
	sb.WriteString(policy.ChunkedCases("cases", "case", "mismatches_from", e.coq, 400))
	c.WriteCasesV("cases.v", sb.String())
}
