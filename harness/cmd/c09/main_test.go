// c09: harness for C09 (domain, forward-key and agent-presence lookups).
// A test binary because the route tables read the clock: every history runs
// inside a testing/synctest bubble.
package c09

import (
	"fmt"
	"testing"

	rh "github.com/postalsys/muti-metroo/verifharness/routingh"
	"github.com/postalsys/muti-metroo/verifharness/vh"
)

func dadv(peer, origin int, seq uint64, pat string, metric uint16) rh.Op {
	return rh.Op{Code: rh.OpDAdv, Peer: peer, Origin: origin, Seq: seq, Path: []int{peer}, Ents: []rh.Ent{{Name: pat, Metric: metric}}}
}
func dl(name string) rh.Op { return rh.Op{Code: rh.OpDLookup, Name: name} }
func fadv(peer, origin int, seq uint64, key string, metric uint16) rh.Op {
	return rh.Op{Code: rh.OpFAdv, Peer: peer, Origin: origin, Seq: seq, Path: []int{peer}, Ents: []rh.Ent{{Name: key, Target: "h:1", Metric: metric}}}
}

// Fixed regression histories (the situations the property text names).
func fixed() ([]string, map[string][]rh.Op) {
	names := []string{"local-mixed-case-removal", "exact-over-wildcard", "wildcard-one-level", "degenerate-wildcards", "case-insensitive", "lowest-metric", "forward-and-agent", "forward-disconnect-order", "refresh-then-cleanup"}
	return names, map[string][]rh.Op{
		"exact-over-wildcard": {
			dadv(1, 1, 1, "*.example.com", 0), dadv(2, 2, 1, "api.example.com", 9),
			dl("api.example.com"), dl("www.example.com"), dl("example.com"),
		},
		"wildcard-one-level": {
			dadv(1, 1, 1, "*.example.com", 1), dadv(1, 1, 1, "*.b.example.com", 1),
			dl("a.example.com"), dl("a.b.example.com"), dl("a.c.example.com"), dl("x.a.b.example.com"), dl(".example.com"), dl("example.com"), dl("a.example.com."),
		},
		// a local pattern / key with upper-case letters is removable with the spelling it was added with
		"local-mixed-case-removal": {
			{Code: rh.OpDAddLocal, Name: "Api.Example.com", Metric: 0}, dadv(1, 1, 1, "api.example.com", 5),
			dl("api.example.com"), {Code: rh.OpDRmLocal, Name: "Api.Example.com"}, dl("api.example.com"),
			{Code: rh.OpDAddLocal, Name: "*.Svc.Example.com", Metric: 0}, {Code: rh.OpDRmLocal, Name: "*.Svc.Example.com"}, dl("x.svc.example.com"),
			{Code: rh.OpFAddLocal, Name: "Web", Target: "h:1", Metric: 0}, {Code: rh.OpFRmLocal, Name: "Web"}, {Code: rh.OpFLookup, Name: "Web"},
		},
		// empty label / empty base / blanks: none of these lookups may match
		"degenerate-wildcards": {
			dadv(1, 1, 1, "*.", 1), dadv(1, 1, 1, "*.example.com", 1), dadv(1, 1, 1, " *.test.com ", 1), dadv(1, 1, 1, "*.*.example.com", 3),
			dl("a."), dl("."), dl("a.."), dl(".example.com"), dl("..example.com"), dl("a.test.com"), dl("x.*.example.com"), dl("*.example.com"), dl(" a.test.com"),
		},
		"case-insensitive": {
			dadv(1, 1, 1, "API.Example.COM", 3), dadv(2, 2, 1, "*.EXAMPLE.com", 1), dadv(2, 3, 1, "api.example.com", 2),
			dl("api.example.com"), dl("Api.eXample.Com"), dl("WWW.example.COM"),
			// upper case in the first label only: the rest already equals the wildcard's map key
			dl("API.example.com"), dl("Api.example.com"), dl("aPi.example.com"),
		},
		// three origins through three peers; the best one's peer disconnects: the survivors stay in metric order
		"forward-disconnect-order": {
			fadv(1, 1, 1, "web", 0), fadv(2, 2, 1, "web", 3), fadv(3, 3, 1, "web", 7),
			{Code: rh.OpFLookup, Name: "web"}, {Code: rh.OpFDisc, Peer: 1}, {Code: rh.OpFLookup, Name: "web"},
			dadv(1, 1, 1, "a.test.com", 0), dadv(2, 2, 1, "a.test.com", 3), dadv(3, 3, 1, "a.test.com", 7),
			{Code: rh.OpDDisc, Peer: 1}, dl("a.test.com"),
			{Code: rh.OpAAdv, Peer: 1, Origin: 4, Agent: 4, Seq: 1, Metric: 1, Path: []int{1, 4}},
			{Code: rh.OpAAdv, Peer: 2, Origin: 4, Agent: 4, Seq: 1, Metric: 4, Path: []int{2, 4}},
			{Code: rh.OpAAdv, Peer: 3, Origin: 4, Agent: 4, Seq: 1, Metric: 8, Path: []int{3, 4}},
			{Code: rh.OpADisc, Peer: 1}, {Code: rh.OpALookup, Agent: 4},
		},
		// periodic re-advertisement refreshes the route: a cleanup right after must keep it
		"refresh-then-cleanup": {
			fadv(1, 1, 1, "web", 2), fadv(2, 2, 1, "web", 7), {Code: rh.OpTick, Ms: 5000},
			fadv(1, 1, 2, "web", 2), {Code: rh.OpFClean, Ms: 1000}, {Code: rh.OpFLookup, Name: "web"},
			dadv(1, 1, 1, "a.test.com", 2), {Code: rh.OpTick, Ms: 5000}, dadv(1, 1, 2, "a.test.com", 2),
			{Code: rh.OpDClean, Ms: 1000}, dl("a.test.com"),
			{Code: rh.OpAAdv, Peer: 1, Origin: 4, Agent: 4, Seq: 1, Metric: 1, Path: []int{1, 4}}, {Code: rh.OpTick, Ms: 5000},
			{Code: rh.OpAAdv, Peer: 1, Origin: 4, Agent: 4, Seq: 2, Metric: 1, Path: []int{1, 4}},
			{Code: rh.OpAClean, Ms: 1000}, {Code: rh.OpALookup, Agent: 4},
		},
		"lowest-metric": {
			dadv(1, 1, 1, "a.test.com", 7), dadv(2, 2, 1, "a.test.com", 2), dadv(3, 3, 1, "A.test.com", 2), dadv(1, 4, 1, "a.TEST.com", 4),
			dl("a.test.com"),
			{Code: rh.OpDDisc, Peer: 2}, dl("a.test.com"),
			{Code: rh.OpDTRm, Origin: 3, Name: "a.test.com"}, dl("a.test.com"),
		},
		"forward-and-agent": {
			{Code: rh.OpFAdv, Peer: 1, Origin: 1, Seq: 1, Path: []int{1}, Ents: []rh.Ent{{Name: "web", Target: "h:1", Metric: 4}}},
			{Code: rh.OpFAdv, Peer: 2, Origin: 2, Seq: 1, Path: []int{2}, Ents: []rh.Ent{{Name: "web", Target: "h:2", Metric: 1}}},
			{Code: rh.OpFAddLocal, Name: "web", Target: "h:3", Metric: 1},
			{Code: rh.OpFLookup, Name: "web"}, {Code: rh.OpFLookup, Name: "Web"}, {Code: rh.OpFLookup, Name: "nope"},
			{Code: rh.OpAAdv, Peer: 1, Origin: 3, Agent: 3, Seq: 1, Metric: 5, Path: []int{1, 3}},
			{Code: rh.OpAAdv, Peer: 2, Origin: 3, Agent: 3, Seq: 1, Metric: 2, Path: []int{2, 3}},
			{Code: rh.OpALookup, Agent: 3}, {Code: rh.OpALookup, Agent: 4},
			{Code: rh.OpADisc, Peer: 2}, {Code: rh.OpALookup, Agent: 3},
		},
	}
}

func TestVerif(t *testing.T) {
	c := vh.Start("C09")
	defer c.Finish()
	c.Res.Rule = "case = one operation history on a real routing.Manager over the domain, forward and agent tables (advertise/disconnect/cleanup/local/raw remove, virtual time) " +
		"with domain, forward-key and agent lookups after every operation; results, a digest of all four tables after every operation and every lookup result are compared with the model; " +
		"non-trivial = at least 2 operations changed the state; distinct = distinct observation digests"
	mon := rh.MonitorsFor("C09")
	var hs []rh.History
	add := func(o *rh.Outcome) {
		rh.Report(c, o)
		rh.CountLookups(c, o)
		hs = append(hs, o.H)
	}
	if c.Replay != "" {
		var h rh.History
		if rh.ReplayOther(c) {
			return
		}
		if err := c.ReadReplay(&h); err != nil {
			t.Fatal(err)
		}
		o := rh.RunFixed(t, h.Name, h.Profile, h.Pools, h.Ops, mon, 2)
		add(o)
		for _, f := range o.Fails {
			fmt.Printf("replay: %s: %s\n", f.Sig, f.Detail)
		}
	} else {
		names, w := fixed()
		for _, n := range names {
			ops := append(w[n], rh.Op{Code: rh.OpDLookupAll}, rh.Op{Code: rh.OpFLookupAll}, rh.Op{Code: rh.OpALookupAll})
			add(rh.RunFixed(t, "fixed:"+n, "keyed", rh.Pools{}, ops, mon, 2))
		}
		n := c.N(24, 300)
		sm := rh.NewStrMaterial(c.Rand.Fork())
		for i := 0; i < n; i++ {
			g := rh.NewGen(c.Rand.Fork(), "keyed", sm)
			nm := c.Rand.Pick(20, 60, 60, 120)
			if c.Thorough() && c.Rand.Chance(1, 10) {
				nm = 600
			}
			add(rh.RunGenerated(t, fmt.Sprintf("gen-%d", i), g, mon, nm, 2))
		}
	}
	if c.Replay == "" {
		// concurrent phase (both tiers): same key and origin added from several goroutines at once
		for _, f := range rh.ConcurrentSameSlot(c.N(30, 120), c.N(20000, 50000)) {
			c.Fail(f.Sig, f.Detail, "concurrent same-slot phase: 4 goroutines advertise sequences 1..4 of one origin for one key while RemoveRoutesFromPeer scans the table")
		}
		c.Count("concurrent-same-slot-phase")
		// agent-level layer: real agents, ROUTE_ADVERTISE frames through the dispatcher, real disconnect path
		rh.AgentPhase(c)
		// case-insensitivity beyond ASCII (monitor only; the model is ASCII by declared boundary)
		for _, f := range rh.UnicodeCasePhase() {
			c.Fail(f.Sig, f.Detail, "non-ASCII case phase: patterns with non-ASCII capitals stored by advertisement, looked up in upper/lower/mixed case")
		}
		c.Count("unicode-case-phase")
	}
	if c.Thorough() && c.Replay == "" {
		for _, f := range rh.Stress(c.Rand.Fork(), 8, 3000) {
			c.Fail(f.Sig, f.Detail, "concurrent stress phase (thorough tier)")
		}
		c.Count("stress-phase")
	}
	rh.WriteCases(c, hs)
}
