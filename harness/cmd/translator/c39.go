package main

import (
	"go/ast"
	"strings"
)

func init() { generators["C39"] = genC39 }

// C39 source facts (internal/agent/agent.go):
//   - handleControlRequest: the forwarded request's RequestID is a fresh value of
//     a.nextControlID (incremented under controlMu), the forwardedControl entry
//     is stored under that value and keeps the requester's id and source peer,
//     and the failure path deletes that same key
//   - handleControlResponse: restores forwarded.RequestID before re-encoding
//   - SendControlRequestWithData: own ids come from the same counter
func genC39(g *gen) {
	f := parseFile("internal/agent/agent.go")
	fwdIDFromCounter, storeUnderFwdID, keepsOrig, fwdReqUsesFwdID, failDeletesFwdID := false, false, false, false, false
	fwdVar := ""
	if fd := findFunc(f, "Agent", "handleControlRequest"); fd != nil {
		ast.Inspect(fd, func(n ast.Node) bool {
			switch x := n.(type) {
			case *ast.AssignStmt:
				if len(x.Lhs) == 1 && len(x.Rhs) == 1 {
					l, r := src(x.Lhs[0]), src(x.Rhs[0])
					if r == "a.nextControlID" {
						fwdVar = l
						fwdIDFromCounter = true
					}
					if strings.HasPrefix(l, "a.forwardedControl[") {
						key := strings.TrimSuffix(strings.TrimPrefix(l, "a.forwardedControl["), "]")
						if fwdVar != "" && key == fwdVar {
							storeUnderFwdID = true
						}
						if strings.Contains(r, "RequestID:") && strings.Contains(r, "req.RequestID") && strings.Contains(r, "SourcePeer:") && strings.Contains(r, "peerID") {
							keepsOrig = true
						}
					}
				}
			case *ast.CompositeLit:
				if strings.HasSuffix(src(x.Type), "ControlRequest") {
					for _, el := range x.Elts {
						if kv, ok := el.(*ast.KeyValueExpr); ok && src(kv.Key) == "RequestID" && fwdVar != "" && src(kv.Value) == fwdVar {
							fwdReqUsesFwdID = true
						}
					}
				}
			case *ast.CallExpr:
				if id, ok := x.Fun.(*ast.Ident); ok && id.Name == "delete" && len(x.Args) == 2 && src(x.Args[0]) == "a.forwardedControl" && fwdVar != "" && src(x.Args[1]) == fwdVar {
					failDeletesFwdID = true
				}
			}
			return true
		})
		// the increment precedes the read
		inc := false
		ast.Inspect(fd, func(n ast.Node) bool {
			if s, ok := n.(*ast.IncDecStmt); ok && src(s.X) == "a.nextControlID" {
				inc = true
			}
			return true
		})
		fwdIDFromCounter = fwdIDFromCounter && inc
	}
	restores := false
	pendingFirst := false
	if fd := findFunc(f, "Agent", "handleControlResponse"); fd != nil {
		ast.Inspect(fd, func(n ast.Node) bool {
			if a, ok := n.(*ast.AssignStmt); ok && len(a.Lhs) == 1 && len(a.Rhs) == 1 && src(a.Lhs[0]) == "resp.RequestID" && src(a.Rhs[0]) == "forwarded.RequestID" {
				restores = true
			}
			return true
		})
		// order of the two dispatch ifs
		pi, fi := -1, -1
		for i, st := range fd.Body.List {
			if ifs, ok := st.(*ast.IfStmt); ok {
				c := src(ifs.Cond)
				if strings.HasPrefix(c, "hasPending") && pi < 0 {
					pi = i
				}
				if c == "hasForwarded" && fi < 0 {
					fi = i
				}
			}
		}
		pendingFirst = pi >= 0 && fi >= 0 && pi < fi
	}
	ownFromCounter := false
	if fd := findFunc(f, "Agent", "SendControlRequestWithData"); fd != nil {
		inc, use := false, false
		ast.Inspect(fd, func(n ast.Node) bool {
			switch x := n.(type) {
			case *ast.IncDecStmt:
				if src(x.X) == "a.nextControlID" {
					inc = true
				}
			case *ast.AssignStmt:
				if len(x.Rhs) == 1 && src(x.Rhs[0]) == "a.nextControlID" {
					use = true
				}
			}
			return true
		})
		ownFromCounter = inc && use
	}
	// the 'failed to forward' reply (and the other error replies to the requester)
	// carries the requester's id: every sendControlResponse in handleControlRequest
	// passes req.RequestID
	repliesUnderRequesterID, nReplies := true, 0
	if fd := findFunc(f, "Agent", "handleControlRequest"); fd != nil {
		ast.Inspect(fd, func(n ast.Node) bool {
			if call, ok := n.(*ast.CallExpr); ok && strings.HasSuffix(src(call.Fun), ".sendControlResponse") && len(call.Args) >= 2 {
				nReplies++
				if src(call.Args[0]) != "peerID" || src(call.Args[1]) != "req.RequestID" {
					repliesUnderRequesterID = false
				}
			}
			return true
		})
	}
	g.line("Definition gen_replies_to_requester_use_its_id : bool := %s.", coqBool(repliesUnderRequesterID && nReplies >= 4))

	// ---- the id space is never restarted: nextControlID is only incremented, and
	// the two maps are created once, in the constructor
	counterOnlyIncremented, mapsCreatedOnce := true, true
	nInc, nMakeP, nMakeF := 0, 0, 0
	for _, af := range parseDir("internal/agent") {
		ast.Inspect(af, func(n ast.Node) bool {
			switch x := n.(type) {
			case *ast.AssignStmt:
				for _, l := range x.Lhs {
					switch src(l) {
					case "a.nextControlID":
						counterOnlyIncremented = false
					case "a.pendingControl", "a.forwardedControl":
						mapsCreatedOnce = false
					}
				}
			case *ast.IncDecStmt:
				if src(x.X) == "a.nextControlID" {
					if x.Tok.String() == "++" {
						nInc++
					} else {
						counterOnlyIncremented = false
					}
				}
			case *ast.CallExpr:
				t := strings.ReplaceAll(src(x), " ", "")
				if t == "make(map[uint64]*pendingControlRequest)" {
					nMakeP++
				}
				if t == "make(map[uint64]*forwardedControlRequest)" {
					nMakeF++
				}
			}
			return true
		})
	}
	g.line("Definition gen_control_counter_only_incremented : bool := %s.", coqBool(counterOnlyIncremented && nInc == 2))
	g.line("Definition gen_control_maps_created_once : bool := %s.", coqBool(mapsCreatedOnce && nMakeP == 1 && nMakeF == 1))

	// ---- every reply the agent itself sends comes from handleControlRequest (and
	// carries req.RequestID, checked above); sendControlResponse writes to the
	// requester's own link only - no route lookup, no second destination
	totalCalls := 0
	for _, af := range parseDir("internal/agent") {
		ast.Inspect(af, func(n ast.Node) bool {
			if call, ok := n.(*ast.CallExpr); ok && strings.HasSuffix(src(call.Fun), ".sendControlResponse") {
				totalCalls++
			}
			return true
		})
	}
	g.line("Definition gen_all_own_replies_come_from_the_request_handler : bool := %s.", coqBool(totalCalls == nReplies && nReplies >= 4))
	directOnly := false
	if fd := findFunc(f, "Agent", "sendControlResponse"); fd != nil {
		sends, other := 0, false
		ast.Inspect(fd, func(n ast.Node) bool {
			if call, ok := n.(*ast.CallExpr); ok {
				fn := src(call.Fun)
				if strings.HasSuffix(fn, ".SendToPeer") {
					sends++
					if len(call.Args) != 2 || src(call.Args[0]) != "peerID" {
						other = true
					}
				}
				if strings.Contains(fn, "routeMgr") || strings.Contains(fn, "Broadcast") || strings.Contains(fn, "flooder") {
					other = true
				}
			}
			return true
		})
		directOnly = sends == 1 && !other
	}
	g.line("Definition gen_own_reply_sent_to_the_requester_link_only : bool := %s.", coqBool(directOnly))

	// the encoders of the control frames return buffers nobody else can write to:
	// a fresh bufferWriter per call, no pool, no package-level buffer
	pf := parseFile("internal/protocol/frame.go")
	freshEnc := func(recv string) bool {
		fd := findFunc(pf, recv, "Encode")
		if fd == nil || fd.Body == nil {
			return false
		}
		body := src(fd.Body)
		if strings.Contains(body, ".Get()") || strings.Contains(body, ".Put(") || strings.Contains(body, "Pool") {
			return false
		}
		fresh, ret := false, false
		ast.Inspect(fd.Body, func(n ast.Node) bool {
			switch x := n.(type) {
			case *ast.AssignStmt:
				if len(x.Lhs) == 1 && len(x.Rhs) == 1 && src(x.Lhs[0]) == "w" && strings.HasPrefix(src(x.Rhs[0]), "newBufferWriter(") && x.Tok.String() == ":=" {
					fresh = true
				}
			case *ast.ReturnStmt:
				if len(x.Results) == 1 && src(x.Results[0]) == "w.bytes()" {
					ret = true
				}
			}
			return true
		})
		return fresh && ret
	}
	newWriterFresh := false
	if fd := findFunc(pf, "", "newBufferWriter"); fd != nil && fd.Body != nil && len(fd.Body.List) == 1 {
		t := strings.NewReplacer(" ", "", "\t", "").Replace(src(fd.Body.List[0]))
		newWriterFresh = t == "return&bufferWriter{buf:make([]byte,size)}"
	}
	poolInProtocol := false
	for _, pfile := range parseDir("internal/protocol") {
		ast.Inspect(pfile, func(n ast.Node) bool {
			if sel, ok := n.(*ast.SelectorExpr); ok && src(sel) == "sync.Pool" {
				poolInProtocol = true
			}
			return true
		})
	}
	g.line("Definition gen_control_request_encode_returns_fresh_buffer : bool := %s.", coqBool(freshEnc("ControlRequest") && newWriterFresh))
	g.line("Definition gen_control_response_encode_returns_fresh_buffer : bool := %s.", coqBool(freshEnc("ControlResponse") && newWriterFresh))
	g.line("Definition gen_protocol_package_has_no_buffer_pool : bool := %s.", coqBool(!poolInProtocol))

	if !(fwdIDFromCounter && storeUnderFwdID && keepsOrig && fwdReqUsesFwdID && failDeletesFwdID && restores && ownFromCounter) {
		g.note("control request forwarding pattern not (fully) recognised")
	}
	g.line("Definition gen_forward_id_from_own_counter : bool := %s.", coqBool(fwdIDFromCounter))
	g.line("Definition gen_forward_entry_stored_under_that_id : bool := %s.", coqBool(storeUnderFwdID))
	g.line("Definition gen_forward_entry_keeps_requester_id_and_peer : bool := %s.", coqBool(keepsOrig))
	g.line("Definition gen_forwarded_request_carries_that_id : bool := %s.", coqBool(fwdReqUsesFwdID))
	g.line("Definition gen_forward_failure_deletes_that_id : bool := %s.", coqBool(failDeletesFwdID))
	g.line("Definition gen_response_restores_requester_id : bool := %s.", coqBool(restores))
	g.line("Definition gen_own_ids_from_same_counter : bool := %s.", coqBool(ownFromCounter))
	g.line("Definition gen_response_checks_pending_before_forwarded : bool := %s.", coqBool(pendingFirst))
}
