package main

import (
	"go/ast"
	"go/token"
	"sort"
	"strings"
)

// Source facts for the routing family (C08, C09, C10): the comparison
// operators and their operands in the lookup, sort, update-rule, peer-filter
// and cleanup code of the four route tables, and the call-site wiring of the
// agent's disconnect handler and cleanup loop. Facts, not text: operands are
// classified (new route / stored route / field name), variable names and
// layout do not matter.

func init() {
	generators["C08"] = genC08
	generators["C09"] = genC09
	generators["C10"] = genC10
}

// binaries returns every binary expression inside n, in source order.
func binaries(n ast.Node) []*ast.BinaryExpr {
	var out []*ast.BinaryExpr
	if n == nil {
		return nil
	}
	ast.Inspect(n, func(x ast.Node) bool {
		if b, ok := x.(*ast.BinaryExpr); ok {
			out = append(out, b)
		}
		return true
	})
	sort.SliceStable(out, func(i, j int) bool { return out[i].Pos() < out[j].Pos() })
	return out
}

// cmpOp returns the operator of the first binary expression whose left
// operand text contains xsub and whose right operand text contains ysub.
func cmpOp(n ast.Node, xsub, ysub string) string {
	for _, b := range binaries(n) {
		switch b.Op {
		case token.LSS, token.GTR, token.LEQ, token.GEQ, token.EQL, token.NEQ:
			if strings.Contains(src(b.X), xsub) && strings.Contains(src(b.Y), ysub) {
				return b.Op.String()
			}
		}
	}
	return "?"
}

func firstParam(fd *ast.FuncDecl) string {
	if fd == nil || fd.Type.Params == nil || len(fd.Type.Params.List) == 0 || len(fd.Type.Params.List[0].Names) == 0 {
		return ""
	}
	return fd.Type.Params.List[0].Names[0].Name
}

// shape renders a boolean expression with its operands classified: a
// selector on the function's first parameter is "new.<Field>", a selector on
// any other plain identifier is "old.<Field>".
func shape(e ast.Expr, newName string) string {
	switch x := e.(type) {
	case *ast.ParenExpr:
		return shape(x.X, newName)
	case *ast.BinaryExpr:
		return "(" + shape(x.X, newName) + " " + x.Op.String() + " " + shape(x.Y, newName) + ")"
	case *ast.SelectorExpr:
		if id, ok := x.X.(*ast.Ident); ok {
			if id.Name == newName {
				return "new." + x.Sel.Name
			}
			return "old." + x.Sel.Name
		}
	}
	return src(e)
}

// updateRule finds, in an AddRoute function, the condition of the if
// statement that compares sequences, and renders its shape.
func updateRule(fd *ast.FuncDecl) string {
	if fd == nil {
		return "?"
	}
	newName := firstParam(fd)
	res := "?"
	ast.Inspect(fd, func(n ast.Node) bool {
		if is, ok := n.(*ast.IfStmt); ok && res == "?" && strings.Contains(src(is.Cond), ".Sequence") {
			res = shape(is.Cond, newName)
		}
		return true
	})
	return res
}

// loopCheck reports whether the function rejects (returns false) when an
// element of <param>.Path equals the table's localID, before taking the lock.
func loopCheck(fd *ast.FuncDecl) bool {
	if fd == nil || fd.Body == nil {
		return false
	}
	newName := firstParam(fd)
	ok := false
	for _, st := range fd.Body.List {
		if strings.Contains(src(st), ".Lock()") {
			break
		}
		rs, isRange := st.(*ast.RangeStmt)
		if !isRange || src(rs.X) != newName+".Path" || rs.Value == nil {
			continue
		}
		v := src(rs.Value)
		for _, s2 := range rs.Body.List {
			if is, isIf := s2.(*ast.IfStmt); isIf {
				c := src(is.Cond)
				if (c == v+" == t.localID" || c == "t.localID == "+v) && len(is.Body.List) == 1 && src(is.Body.List[0]) == "return false" {
					ok = true
				}
			}
		}
	}
	return ok
}

// peerFilter renders what RemoveRoutesFromPeer-like code keeps: the operator
// between <elem>.NextHop and the function's parameter in the if whose body
// appends to the kept slice.
func peerFilter(n ast.Node, param string) string {
	res := "?"
	ast.Inspect(n, func(x ast.Node) bool {
		if is, ok := x.(*ast.IfStmt); ok && res == "?" {
			if b, ok := is.Cond.(*ast.BinaryExpr); ok && strings.HasSuffix(src(b.X), ".NextHop") && src(b.Y) == param &&
				strings.Contains(src(is.Body), "append(") {
				res = "keep NextHop " + b.Op.String() + " peer"
			}
		}
		return true
	})
	return res
}

// cleanupRule renders what the stale cleanup keeps.
func cleanupRule(n ast.Node) string {
	if n == nil {
		return "?"
	}
	local := "?"
	age := "?"
	for _, b := range binaries(n) {
		x, y := src(b.X), src(b.Y)
		if b.Op == token.EQL && strings.HasSuffix(x, ".OriginAgent") && strings.HasSuffix(y, "localID") {
			local = "OriginAgent == localID"
		}
		if strings.Contains(x, ".Sub(") && strings.Contains(x, ".LastUpdate") && y == "maxAge" {
			age = "age " + b.Op.String() + " maxAge"
		}
	}
	return "keep " + local + " or " + age
}

// singleWriteLock reports whether an AddRoute function does its
// "do we already have a route from this origin" probe and its insert inside
// ONE write-lock region: exactly one <mu>.Lock() statement followed by a
// deferred Unlock, no RLock/RUnlock anywhere, and every range loop that
// compares OriginAgent comes after the Lock statement.
func singleWriteLock(fd *ast.FuncDecl) bool {
	if fd == nil || fd.Body == nil {
		return false
	}
	locks, rlocks, unlocksOutsideDefer := 0, 0, 0
	var lockPos token.Pos
	deferred := false
	ast.Inspect(fd.Body, func(n ast.Node) bool {
		switch x := n.(type) {
		case *ast.DeferStmt:
			if strings.HasSuffix(src(x.Call.Fun), ".Unlock") {
				deferred = true
				return false
			}
		case *ast.CallExpr:
			f := src(x.Fun)
			switch {
			case strings.HasSuffix(f, ".RLock"), strings.HasSuffix(f, ".RUnlock"), strings.HasSuffix(f, ".TryLock"), strings.HasSuffix(f, ".TryRLock"):
				rlocks++
			case strings.HasSuffix(f, ".Lock"):
				locks++
				lockPos = x.Pos()
			case strings.HasSuffix(f, ".Unlock"):
				unlocksOutsideDefer++
			}
		}
		return true
	})
	if locks != 1 || rlocks != 0 || unlocksOutsideDefer != 0 || !deferred {
		return false
	}
	ok, probes := true, 0
	ast.Inspect(fd.Body, func(n ast.Node) bool {
		if rs, isRange := n.(*ast.RangeStmt); isRange && strings.Contains(src(rs.Body), ".OriginAgent") {
			probes++
			if rs.Pos() < lockPos {
				ok = false
			}
		}
		return true
	})
	// the map/slice of the key is not read before the lock either
	for _, st := range fd.Body.List {
		if st.Pos() >= lockPos {
			break
		}
		t := src(st)
		if strings.Contains(t, "[key]") || strings.Contains(t, ".routes[") || strings.Contains(t, "Routes[") || strings.Contains(t, "wildcardBase[") {
			ok = false
		}
	}
	return ok && probes == 1
}

func routingFn(file, recv, name string) *ast.FuncDecl {
	return findFunc(parseFile("internal/routing/"+file), recv, name)
}

func coqStrListRouting(xs []string) string {
	q := make([]string, len(xs))
	for i, x := range xs {
		q[i] = coqString(x)
	}
	return "[" + strings.Join(q, "; ") + "]%string"
}

func genC08(g *gen) {
	g.line("Local Open Scope string_scope.")
	lk := routingFn("table.go", "Table", "lookupUnlocked")
	g.line("Definition gen_lpm_compare : string := %s.", coqString("ones "+cmpOp(lk, "ones", "bestPrefixLen")+" best"))
	init := "?"
	if lk != nil {
		ast.Inspect(lk, func(n ast.Node) bool {
			if vs, ok := n.(*ast.ValueSpec); ok && len(vs.Names) == 1 && vs.Names[0].Name == "bestPrefixLen" && len(vs.Values) == 1 {
				init = src(vs.Values[0])
			}
			return true
		})
	}
	g.line("Definition gen_lpm_initial_best : string := %s.", coqString(init))
	// the candidate of a bucket is its first element, and its own network is what is tested and measured
	first := lk != nil && strings.Contains(src(lk), "first := routes[0]") && strings.Contains(src(lk), "first.Network.Contains(ip)") &&
		strings.Contains(src(lk), "first.Network.Mask.Size()") && strings.Contains(src(lk), "bestRoute = first")
	g.line("Definition gen_lpm_candidate_is_bucket_head : bool := %s.", coqBool(first))
	g.line("Definition gen_cidr_sort_less : string := %s.", coqString("[i].Metric "+cmpOp(routingFn("table.go", "Table", "sortRoutes"), "[i].Metric", "[j].Metric")+" [j].Metric"))
	// canonical keying (the repair): AddRoute derives the key and the stored network from canonicalNetwork(route.Network)
	add := routingFn("table.go", "Table", "AddRoute")
	canon := false
	if add != nil {
		s := src(add)
		p := firstParam(add)
		canon = strings.Contains(s, "network := canonicalNetwork("+p+".Network)") && strings.Contains(s, "key := network.String()") &&
			strings.Count(s, "cloned.Network = network") == 2 && !strings.Contains(s, p+".Network.String()")
	}
	g.line("Definition gen_addroute_keys_by_canonical_network : bool := %s.", coqBool(canon))
	g.line("Definition gen_cidr_addroute_probe_and_insert_under_one_write_lock : bool := %s.", coqBool(singleWriteLock(add)))
	cn := routingFn("table.go", "", "canonicalNetwork")
	g.line("Definition gen_canonical_is_parsecidr_of_printed : bool := %s.", coqBool(cn != nil && strings.Contains(src(cn), "net.ParseCIDR(network.String())")))
	rm := routingFn("table.go", "Table", "RemoveRoute")
	g.line("Definition gen_removeroute_uses_canonical_key : bool := %s.", coqBool(rm != nil && strings.Contains(src(rm), "key := networkKey(network)")))
	if !first || !canon {
		g.note("lookupUnlocked / AddRoute pattern not recognised")
	}
}

func genC09(g *gen) {
	g.line("Local Open Scope string_scope.")
	lk := routingFn("domain.go", "DomainTable", "lookupUnlocked")
	lowers, exactFirst, single, noLoop := false, false, false, false
	if lk != nil && lk.Body != nil {
		s := src(lk)
		p := firstParam(lk)
		if len(lk.Body.List) > 0 {
			lowers = src(lk.Body.List[0]) == p+" = strings.ToLower("+p+")"
		}
		ie, iw := strings.Index(s, "t.exactRoutes["), strings.Index(s, "t.wildcardBase[")
		exactFirst = ie >= 0 && iw > ie
		single = strings.Contains(s, "idx := strings.Index("+p+", \".\")") && strings.Contains(s, "idx > 0 && idx < len("+p+")-1") &&
			strings.Contains(s, "baseDomain := "+p+"[idx+1:]") && strings.Contains(s, "t.wildcardBase[baseDomain]")
		noLoop = true
		ast.Inspect(lk, func(n ast.Node) bool {
			switch n.(type) {
			case *ast.ForStmt, *ast.RangeStmt:
				noLoop = false
			}
			return true
		})
	}
	g.line("Definition gen_domain_lookup_lowercases_first : bool := %s.", coqBool(lowers))
	g.line("Definition gen_domain_exact_before_wildcard : bool := %s.", coqBool(exactFirst))
	g.line("Definition gen_domain_wildcard_strips_one_label : bool := %s.", coqBool(single && noLoop))
	heads := lk != nil && strings.Count(src(lk), "return routes[0].Clone()") == 2
	g.line("Definition gen_domain_returns_bucket_head : bool := %s.", coqBool(heads))
	rk := routingFn("domain.go", "DomainTable", "routeMapAndKey")
	keys := rk != nil && strings.Contains(src(rk), "return t.wildcardBase, strings.ToLower(baseDomain)") && strings.Contains(src(rk), "return t.exactRoutes, strings.ToLower(pattern)")
	g.line("Definition gen_domain_keys_are_lowercased : bool := %s.", coqBool(keys))
	pp := routingFn("domain.go", "", "ParseDomainPattern")
	parse := pp != nil && strings.Contains(src(pp), "pattern = strings.TrimSpace(pattern)") && strings.Contains(src(pp), "strings.HasPrefix(pattern, \"*.\")") && strings.Contains(src(pp), "return true, pattern[2:]")
	g.line("Definition gen_parse_pattern_shape : bool := %s.", coqBool(parse))
	less := func(file, recv, name string) string {
		return "[i].Metric " + cmpOp(routingFn(file, recv, name), "[i].Metric", "[j].Metric") + " [j].Metric"
	}
	g.line("Definition gen_sort_less : list string := %s.", coqStrListRouting([]string{
		less("domain.go", "DomainTable", "sortRoutesInMap"), less("forward.go", "ForwardTable", "sortRoutes"), less("agent.go", "AgentTable", "sortRoutes")}))
	hd := func(file, recv string) bool {
		fd := routingFn(file, recv, "Lookup")
		return fd != nil && strings.Contains(src(fd), "return routes[0].Clone()")
	}
	g.line("Definition gen_keyed_lookups_return_bucket_head : bool := %s.", coqBool(hd("forward.go", "ForwardTable") && hd("agent.go", "AgentTable")))
	g.line("(* order: domain table, forward table, agent table *)")
	g.line("Definition gen_addroute_probe_and_insert_under_one_write_lock : list bool := [%s; %s; %s].",
		coqBool(singleWriteLock(routingFn("domain.go", "DomainTable", "AddRoute"))),
		coqBool(singleWriteLock(routingFn("forward.go", "ForwardTable", "AddRoute"))),
		coqBool(singleWriteLock(routingFn("agent.go", "AgentTable", "AddRoute"))))
	if !lowers || !single {
		g.note("DomainTable.lookupUnlocked pattern not recognised")
	}
}

func genC10(g *gen) {
	g.line("Local Open Scope string_scope.")
	type tab struct{ file, recv string }
	tabs := []tab{{"table.go", "Table"}, {"domain.go", "DomainTable"}, {"forward.go", "ForwardTable"}, {"agent.go", "AgentTable"}}
	var rules, loops, peers, cleans []string
	for _, t := range tabs {
		add := routingFn(t.file, t.recv, "AddRoute")
		rules = append(rules, updateRule(add))
		if loopCheck(add) {
			loops = append(loops, "path-checked-before-lock")
		} else {
			loops = append(loops, "?")
		}
		rp := routingFn(t.file, t.recv, "RemoveRoutesFromPeer")
		var pn ast.Node = rp
		param := firstParam(rp)
		var cn ast.Node = routingFn(t.file, t.recv, "CleanupStaleRoutes")
		if t.recv == "DomainTable" { // helpers shared by the two maps
			if h := routingFn(t.file, "", "filterRoutesFromPeer"); h != nil && rp != nil && strings.Contains(src(rp), "filterRoutesFromPeer(routeMap, "+param+")") &&
				strings.Contains(src(routingFn(t.file, t.recv, "allRouteMaps")), "t.exactRoutes, t.wildcardBase") {
				pn = h
				if len(h.Type.Params.List) == 2 {
					param = h.Type.Params.List[1].Names[0].Name
				}
			}
			if h := routingFn(t.file, "", "cleanupStaleRoutesInMap"); h != nil && cn != nil && strings.Contains(src(cn), "cleanupStaleRoutesInMap(routeMap, t.localID, now, maxAge)") {
				cn = h
			}
		}
		peers = append(peers, peerFilter(pn, param))
		cleans = append(cleans, cleanupRule(cn))
	}
	g.line("(* order: CIDR table, domain table, forward table, agent table *)")
	g.line("Definition gen_update_rule : list string := %s.", coqStrListRouting(rules))
	{
		var bs []string
		for _, t := range tabs {
			bs = append(bs, coqBool(singleWriteLock(routingFn(t.file, t.recv, "AddRoute"))))
		}
		g.line("Definition gen_addroute_atomic : list bool := [%s].", strings.Join(bs, "; "))
	}
	// the next hop of a learned route is the delivering peer, in all four Process*Advertise
	{
		mf := parseFile("internal/routing/manager.go")
		var bs []string
		for _, n := range []string{"ProcessRouteAdvertise", "ProcessDomainRouteAdvertise", "ProcessForwardRouteAdvertise", "ProcessAgentRouteAdvertise"} {
			fd := findFunc(mf, "Manager", n)
			ok := false
			if fd != nil {
				p := firstParam(fd)
				cnt := 0
				ast.Inspect(fd, func(x ast.Node) bool {
					if kv, isKV := x.(*ast.KeyValueExpr); isKV && src(kv.Key) == "NextHop" {
						cnt++
						ok = src(kv.Value) == p
					}
					return true
				})
				ok = ok && cnt == 1
			}
			bs = append(bs, coqBool(ok))
		}
		g.line("Definition gen_learned_nexthop_is_delivering_peer : list bool := [%s].", strings.Join(bs, "; "))
	}
	g.line("Definition gen_loop_check : list string := %s.", coqStrListRouting(loops))
	g.line("Definition gen_peer_filter : list string := %s.", coqStrListRouting(peers))
	g.line("Definition gen_cleanup_rule : list string := %s.", coqStrListRouting(cleans))
	// the agent-table slot also compares the next hop
	aa := routingFn("agent.go", "AgentTable", "AddRoute")
	slot := "?"
	if aa != nil {
		p := firstParam(aa)
		ast.Inspect(aa, func(n ast.Node) bool {
			if is, ok := n.(*ast.IfStmt); ok && slot == "?" && strings.Contains(src(is.Cond), ".OriginAgent") && !strings.Contains(src(is.Cond), ".Sequence") {
				slot = shape(is.Cond, p)
			}
			return true
		})
	}
	g.line("Definition gen_agent_slot : string := %s.", coqString(slot))
	// wiring in the agent: the disconnect handler and the cleanup loop address all four tables
	af := parseFile("internal/agent/agent.go")
	calls := func(prefix string) []string {
		best := []string{}
		if af == nil {
			return best
		}
		for _, d := range af.Decls {
			fd, ok := d.(*ast.FuncDecl)
			if !ok || fd.Body == nil {
				continue
			}
			set := map[string]bool{}
			ast.Inspect(fd.Body, func(n ast.Node) bool {
				if c, ok := n.(*ast.CallExpr); ok {
					if sel, ok := c.Fun.(*ast.SelectorExpr); ok && strings.HasPrefix(sel.Sel.Name, prefix) && strings.HasSuffix(src(sel.X), "routeMgr") {
						set[sel.Sel.Name] = true
					}
				}
				return true
			})
			if len(set) > len(best) {
				best = best[:0]
				for k := range set {
					best = append(best, k)
				}
				sort.Strings(best)
			}
		}
		return best
	}
	g.line("Definition gen_disconnect_handler_calls : list string := %s.", coqStrListRouting(calls("HandlePeerDisconnect")))
	// ... as unconditional top-level statements of handlePeerDisconnect: none of
	// the four calls sits inside an if/for/switch/closure, and no return
	// statement precedes the last of them
	{
		uncond := false
		if fd := findFunc(af, "Agent", "handlePeerDisconnect"); fd != nil && fd.Body != nil {
			top := map[string]bool{}
			lastIdx := -1
			for i, st := range fd.Body.List {
				if es, ok := st.(*ast.ExprStmt); ok {
					if c, ok := es.X.(*ast.CallExpr); ok {
						if sel, ok := c.Fun.(*ast.SelectorExpr); ok && strings.HasPrefix(sel.Sel.Name, "HandlePeerDisconnect") && strings.HasSuffix(src(sel.X), "routeMgr") &&
							len(c.Args) == 1 {
							top[sel.Sel.Name] = true
							lastIdx = i
						}
					}
				}
			}
			uncond = len(top) == 4
			for i, st := range fd.Body.List {
				if i > lastIdx {
					break
				}
				ast.Inspect(st, func(n ast.Node) bool {
					if _, isRet := n.(*ast.ReturnStmt); isRet {
						uncond = false
					}
					if _, isLit := n.(*ast.FuncLit); isLit {
						return false
					}
					return true
				})
			}
		}
		g.line("Definition gen_disconnect_calls_unconditional : bool := %s.", coqBool(uncond))
	}
	cl := []string{}
	for _, c := range calls("CleanupStale") {
		if c != "CleanupStaleNodeInfo" {
			cl = append(cl, c)
		}
	}
	g.line("Definition gen_cleanup_loop_calls : list string := %s.", coqStrListRouting(cl))
	// metric increment of learned routes (uint16 arithmetic)
	mf := parseFile("internal/routing/manager.go")
	inc := 0
	for _, n := range []string{"ProcessRouteAdvertise", "ProcessDomainRouteAdvertise", "ProcessForwardRouteAdvertise"} {
		fd := findFunc(mf, "Manager", n)
		if fd == nil {
			continue
		}
		found := false
		ast.Inspect(fd, func(x ast.Node) bool {
			if kv, ok := x.(*ast.KeyValueExpr); ok && src(kv.Key) == "Metric" {
				if b, ok := kv.Value.(*ast.BinaryExpr); ok && b.Op == token.ADD && strings.HasSuffix(src(b.X), ".Metric") && src(b.Y) == "1" {
					found = true
				}
			}
			return true
		})
		if found {
			inc++
		}
	}
	g.line("Definition gen_advertise_increments_metric : N := %d.", inc)
}
