package main

import (
	"go/ast"
	"go/token"
	"strings"
)

func init() { generators["C22"] = genC22 }

// C22: order of "filter by owner" and "record the client address" in
// UDPAssociation.ReadLoop, who the owner is, where replies go, and when the
// request's address becomes the expected client address.
func genC22(g *gen) {
	uf := parseFile("internal/socks5/udp.go")

	// ReadLoop: inside the for loop, a `continue` guarded by an address
	// comparison against the owner precedes the only assignment to ActualClientAddr
	filterFirst, filterUsesOwner, singleAdopt := false, false, false
	if fd := findFunc(uf, "UDPAssociation", "ReadLoop"); fd != nil && fd.Body != nil {
		var loop *ast.ForStmt
		for _, st := range fd.Body.List {
			if f, ok := st.(*ast.ForStmt); ok {
				loop = f
			}
		}
		if loop != nil {
			filterPos, adoptPos := token.NoPos, token.NoPos
			adopts := 0
			ownerVar := ""
			ast.Inspect(loop.Body, func(n ast.Node) bool {
				switch x := n.(type) {
				case *ast.AssignStmt:
					for i, l := range x.Lhs {
						if strings.HasSuffix(src(l), ".ActualClientAddr") {
							adopts++
							adoptPos = x.Pos()
						}
						if i < len(x.Rhs) {
							if c, ok := x.Rhs[i].(*ast.CallExpr); ok && strings.HasSuffix(calleeName(c), ".ownerIPLocked") {
								ownerVar = src(l)
							}
						}
					}
				case *ast.IfStmt:
					cond := src(x.Cond)
					if strings.Contains(cond, ".Equal(") && strings.Contains(cond, "!") {
						hasContinue := false
						for _, b := range x.Body.List {
							if br, ok := b.(*ast.BranchStmt); ok && br.Tok == token.CONTINUE {
								hasContinue = true
							}
						}
						if hasContinue && filterPos == token.NoPos {
							filterPos = x.Pos()
							filterUsesOwner = ownerVar != "" && strings.Contains(cond, ".Equal("+ownerVar+")") && strings.Contains(cond, ownerVar+" != nil")
						}
					}
				}
				return true
			})
			singleAdopt = adopts == 1
			filterFirst = filterPos != token.NoPos && adoptPos != token.NoPos && filterPos < adoptPos
		}
	}
	g.line("Definition gen_filter_precedes_recording_the_client : bool := %s.", coqBool(filterFirst))
	g.line("Definition gen_filter_compares_with_owner : bool := %s.", coqBool(filterUsesOwner))
	g.line("Definition gen_client_recorded_in_one_place : bool := %s.", coqBool(singleAdopt))

	// ownerIPLocked: returns, in this order, the expected address, the control connection's peer, the recorded client
	order := false
	if fd := findFunc(uf, "UDPAssociation", "ownerIPLocked"); fd != nil && fd.Body != nil {
		var rets []string
		ast.Inspect(fd.Body, func(n ast.Node) bool {
			if r, ok := n.(*ast.ReturnStmt); ok && len(r.Results) == 1 {
				rets = append(rets, src(r.Results[0]))
			}
			return true
		})
		body := src(fd.Body)
		if len(rets) == 4 && rets[3] == "nil" && strings.HasSuffix(rets[2], "ActualClientAddr.IP") &&
			strings.Contains(body, "ExpectedClientAddr") && strings.Contains(body, "TCPConn.RemoteAddr()") &&
			strings.Index(body, "ExpectedClientAddr") < strings.Index(body, "TCPConn.RemoteAddr()") &&
			strings.Index(body, "TCPConn.RemoteAddr()") < strings.Index(body, "ActualClientAddr.IP") {
			order = true
		}
	}
	g.line("Definition gen_owner_is_expected_then_control_peer_then_first_sender : bool := %s.", coqBool(order))

	// WriteToClient sends to ActualClientAddr
	replyTo := false
	if fd := findFunc(uf, "UDPAssociation", "WriteToClient"); fd != nil && fd.Body != nil {
		dst := ""
		ast.Inspect(fd.Body, func(n ast.Node) bool {
			switch x := n.(type) {
			case *ast.AssignStmt:
				if len(x.Lhs) == 1 && len(x.Rhs) == 1 && strings.HasSuffix(src(x.Rhs[0]), ".ActualClientAddr") {
					dst = src(x.Lhs[0])
				}
			case *ast.CallExpr:
				if strings.HasSuffix(calleeName(x), ".WriteToUDP") && len(x.Args) == 2 && dst != "" && src(x.Args[1]) == dst {
					replyTo = true
				}
			}
			return true
		})
	}
	g.line("Definition gen_replies_go_to_recorded_client : bool := %s.", coqBool(replyTo))

	// handleUDPAssociate: expected client only when the request address is specified; the control connection is handed to the association
	expectedCond, conn := false, false
	hf := parseFile("internal/socks5/handler.go")
	if fd := findFunc(hf, "Handler", "handleUDPAssociate"); fd != nil && fd.Body != nil {
		ast.Inspect(fd.Body, func(n ast.Node) bool {
			switch x := n.(type) {
			case *ast.IfStmt:
				cond := src(x.Cond)
				if strings.Contains(cond, "DestIP != nil") && strings.Contains(cond, "!") && strings.Contains(cond, "DestIP.IsUnspecified()") &&
					strings.Contains(src(x.Body), "expectedClient =") {
					expectedCond = true
				}
			case *ast.CallExpr:
				if calleeName(x) == "NewUDPAssociation" && len(x.Args) >= 1 && src(x.Args[0]) == "conn" {
					conn = true
				}
			}
			return true
		})
	}
	g.line("Definition gen_expected_set_only_for_specified_request_address : bool := %s.", coqBool(expectedCond))
	g.line("Definition gen_association_gets_control_connection : bool := %s.", coqBool(conn))

	// the address bytes that become ExpectedClientAddr.IP are allocated by readRequest for this request alone
	g.line("Definition gen_request_address_bytes_are_not_shared : bool := %s.", coqBool(freshBuffers(findFunc(hf, "Handler", "readRequest"), false)))

	// the datagram bytes live in ReadLoop's single receive buffer, which the next datagram (from anybody)
	// overwrites: nothing may keep using them after RelayUDPDatagram has returned. ReadLoop calls the mesh
	// side synchronously, and Agent.RelayUDPDatagram starts no goroutine and builds no closure.
	noAsync := func(fd *ast.FuncDecl) bool {
		if fd == nil || fd.Body == nil {
			return false
		}
		ok := true
		ast.Inspect(fd.Body, func(n ast.Node) bool {
			switch n.(type) {
			case *ast.GoStmt, *ast.FuncLit:
				ok = false
			}
			return true
		})
		return ok
	}
	g.line("Definition gen_read_loop_relays_synchronously : bool := %s.", coqBool(noAsync(findFunc(uf, "UDPAssociation", "ReadLoop"))))
	g.line("Definition gen_agent_relay_keeps_no_reference_to_the_datagram : bool := %s.", coqBool(noAsync(findFuncInDir("internal/agent", "Agent", "RelayUDPDatagram"))))
}
