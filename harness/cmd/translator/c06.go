package main

import (
	"go/ast"
	"go/token"
	"strings"
)

func init() { generators["C06"] = genC06 }

// C06 source facts from internal/flood/flood.go:
//   - maxRoutesPerAdvertise, maxRouteBytesPerAdvertise (evaluated)
//   - splitRoutes: the per-route size expression (constant part, coefficient
//     of len(r.Prefix)), and the shape of the group-closing condition
//   - AnnounceLocalRoutes / SendFullTable: the advertisement is built inside a
//     loop over splitRoutes(...), the sequence number is taken inside that
//     loop, and the advertisement's Routes field is the loop's group
func genC06(g *gen) {
	proto := map[string]int64{}
	collectConsts(parseFile("internal/protocol/types.go"), proto)
	collectConsts(parseFile("internal/protocol/frame.go"), proto)
	f := parseFile("internal/flood/flood.go")
	env := map[string]int64{}
	// constants of flood.go may refer to protocol.X
	if f != nil {
		for pass := 0; pass < 3; pass++ {
			for _, d := range f.Decls {
				gd, ok := d.(*ast.GenDecl)
				if !ok || gd.Tok != token.CONST {
					continue
				}
				for _, s := range gd.Specs {
					vs := s.(*ast.ValueSpec)
					for i, n := range vs.Names {
						if i < len(vs.Values) {
							if v, ok := evalSel(vs.Values[i], env, proto); ok {
								env[n.Name] = v
							}
						}
					}
				}
			}
		}
	}
	get := func(n string) int64 {
		if v, ok := env[n]; ok {
			return v
		}
		g.note("constant %s not found in flood.go", n)
		return 0
	}
	g.line("Definition gen_max_routes_per_adv : N := %d.", get("maxRoutesPerAdvertise"))
	g.line("Definition gen_max_route_bytes_per_adv : N := %d.", get("maxRouteBytesPerAdvertise"))

	sizeConst, sizeCoef := int64(0), int64(0)
	nonEmpty, countGE, sizeGT := false, false, false
	if fd := findFunc(f, "", "splitRoutes"); fd != nil {
		ast.Inspect(fd.Body, func(n ast.Node) bool {
			switch x := n.(type) {
			case *ast.AssignStmt:
				if len(x.Lhs) == 1 && src(x.Lhs[0]) == "routeSize" && len(x.Rhs) == 1 {
					sizeConst, sizeCoef = linear(x.Rhs[0], env)
				}
			case *ast.IfStmt:
				be, ok := x.Cond.(*ast.BinaryExpr)
				if !ok || be.Op != token.LAND {
					return true
				}
				if l, ok := be.X.(*ast.BinaryExpr); ok && l.Op == token.GTR && src(l.X) == "i" && src(l.Y) == "start" {
					nonEmpty = true
				}
				if p, ok := be.Y.(*ast.ParenExpr); ok {
					if or, ok := p.X.(*ast.BinaryExpr); ok && or.Op == token.LOR {
						if c, ok := or.X.(*ast.BinaryExpr); ok && c.Op == token.GEQ && isBin(c.X, token.SUB, "i", "start") && src(c.Y) == "maxRoutesPerAdvertise" {
							countGE = true
						}
						if c, ok := or.Y.(*ast.BinaryExpr); ok && c.Op == token.GTR && isBin(c.X, token.ADD, "size", "routeSize") && src(c.Y) == "maxRouteBytesPerAdvertise" {
							sizeGT = true
						}
					}
				}
			}
			return true
		})
	} else {
		g.note("splitRoutes not found")
	}
	g.line("Definition gen_route_size_const : N := %d.", sizeConst)
	g.line("Definition gen_route_size_per_prefix_byte : N := %d.", sizeCoef)
	g.line("Definition gen_split_closes_only_nonempty_group : bool := %s.", coqBool(nonEmpty))
	g.line("Definition gen_split_closes_at_max_count : bool := %s.", coqBool(countGE))
	g.line("Definition gen_split_closes_when_size_would_exceed : bool := %s.", coqBool(sizeGT))

	for _, fn := range []string{"AnnounceLocalRoutes", "SendFullTable"} {
		loop, routesIsGroup := false, false
		freshSeq, keptSeq, seenByIsPath := false, false, false
		outside := 0
		if fd := findFunc(f, "Flooder", fn); fd != nil {
			ast.Inspect(fd.Body, func(n ast.Node) bool {
				rs, ok := n.(*ast.RangeStmt)
				if !ok || !strings.HasPrefix(src(rs.X), "splitRoutes(") || rs.Value == nil {
					return true
				}
				loop = true
				group := src(rs.Value)
				seqVar := ""
				for _, st := range rs.Body.List {
					switch y := st.(type) {
					case *ast.AssignStmt:
						if len(y.Lhs) == 1 && len(y.Rhs) == 1 && y.Tok == token.DEFINE {
							switch {
							case strings.HasSuffix(src(y.Rhs[0]), ".IncrementSequence()"):
								freshSeq, seqVar = true, src(y.Lhs[0]) // every group numbered from the local counter
							case src(y.Rhs[0]) == "key.seq":
								keptSeq, seqVar = true, src(y.Lhs[0]) // the stored (origin's) sequence number
							}
						}
					case *ast.IfStmt:
						// if originAgent == f.localID { seq = f.routeMgr.IncrementSequence() }
						if be, ok := y.Cond.(*ast.BinaryExpr); ok && be.Op == token.EQL && src(be.X) == "originAgent" && src(be.Y) == "f.localID" &&
							len(y.Body.List) == 1 && y.Else == nil {
							if as, ok := y.Body.List[0].(*ast.AssignStmt); ok && len(as.Lhs) == 1 && src(as.Lhs[0]) == seqVar &&
								strings.HasSuffix(src(as.Rhs[0]), ".IncrementSequence()") {
								freshSeq = true
							}
						}
					}
				}
				ast.Inspect(rs.Body, func(m ast.Node) bool {
					if kv, ok := m.(*ast.KeyValueExpr); ok {
						switch src(kv.Key) {
						case "Routes":
							routesIsGroup = src(kv.Value) == group
						case "Sequence":
							if src(kv.Value) != seqVar {
								freshSeq, keptSeq = false, false
							}
						case "SeenBy":
							seenByIsPath = src(kv.Value) == "path"
						}
					}
					return true
				})
				return false
			})
			// no sequence number taken and no advertisement built outside the loop
			ast.Inspect(fd.Body, func(n ast.Node) bool {
				if rs, ok := n.(*ast.RangeStmt); ok && strings.HasPrefix(src(rs.X), "splitRoutes(") {
					return false
				}
				if c, ok := n.(*ast.CallExpr); ok && strings.HasSuffix(src(c.Fun), ".IncrementSequence") {
					outside++
				}
				if cl, ok := n.(*ast.CompositeLit); ok && strings.HasSuffix(src(cl.Type), "RouteAdvertise") {
					outside++
				}
				return true
			})
		} else {
			g.note("%s not found", fn)
		}
		okLoop := loop && routesIsGroup && outside == 0
		g.line("Definition gen_%s_one_adv_per_group : bool := %s.", fn, coqBool(okLoop))
		if fn == "AnnounceLocalRoutes" {
			g.line("Definition gen_%s_sequence_per_group : bool := %s.", fn, coqBool(okLoop && freshSeq && !keptSeq))
		} else {
			g.line("Definition gen_%s_own_routes_fresh_sequence_per_group : bool := %s.", fn, coqBool(okLoop && freshSeq))
			g.line("Definition gen_%s_foreign_group_keeps_sequence : bool := %s.", fn, coqBool(okLoop && keptSeq))
			g.line("Definition gen_%s_seen_by_is_path : bool := %s.", fn, coqBool(okLoop && seenByIsPath))
		}
	}

	// SendFullTable: groups are keyed by (origin, sequence, path) for foreign origins and by
	// origin alone for the local one (replayKeyFor), and only one group per (origin, sequence)
	// survives (bestGroup selection followed by delete(allOrigins, key))
	keyed, localKey := false, false
	if fd := findFunc(f, "Flooder", "replayKeyFor"); fd != nil {
		ast.Inspect(fd.Body, func(n ast.Node) bool {
			if cl, ok := n.(*ast.CompositeLit); ok && src(cl.Type) == "replayKey" {
				fields := map[string]string{}
				for _, e := range cl.Elts {
					if kv, ok := e.(*ast.KeyValueExpr); ok {
						fields[src(kv.Key)] = src(kv.Value)
					}
				}
				if len(fields) == 3 && fields["origin"] == "origin" && fields["seq"] == "seq" && strings.Contains(fields["path"], "EncodePath(path)") {
					keyed = true
				}
				if len(fields) == 1 && fields["origin"] == "origin" {
					localKey = true
				}
			}
			return true
		})
	}
	g.line("Definition gen_replay_groups_keyed_by_origin_seq_path : bool := %s.", coqBool(keyed && localKey))
	selects, deletes, bySize, byPathLen, byPathBytes := false, false, false, false, false
	if fd := findFunc(f, "Flooder", "SendFullTable"); fd != nil {
		ast.Inspect(fd.Body, func(n ast.Node) bool {
			switch x := n.(type) {
			case *ast.AssignStmt:
				if len(x.Lhs) == 1 && strings.HasPrefix(src(x.Lhs[0]), "bestGroup[") && src(x.Rhs[0]) == "key" {
					selects = true
				}
			case *ast.CallExpr:
				if src(x.Fun) == "delete" && len(x.Args) == 2 && src(x.Args[0]) == "allOrigins" {
					deletes = true
				}
			case *ast.BinaryExpr:
				switch {
				case x.Op == token.GTR && src(x.X) == "groupSize(key)" && src(x.Y) == "groupSize(cur)":
					bySize = true
				case x.Op == token.LSS && src(x.X) == "len(key.path)" && src(x.Y) == "len(cur.path)":
					byPathLen = true
				case x.Op == token.LSS && src(x.X) == "key.path" && src(x.Y) == "cur.path":
					byPathBytes = true
				}
			}
			return true
		})
	}
	g.line("Definition gen_replay_one_group_per_origin_seq : bool := %s.", coqBool(selects && deletes))
	g.line("Definition gen_replay_prefers_larger_then_shorter_path : bool := %s.", coqBool(bySize && byPathLen && byPathBytes))

	// getLocalDisplayName: `if len(name) > maxDisplayNameLen { name = name[:maxDisplayNameLen] }`,
	// i.e. the wire name is the first maxDisplayNameLen bytes. Any other shape gives 0.
	cut := int64(0)
	if fd := findFunc(f, "Flooder", "getLocalDisplayName"); fd != nil {
		for _, st := range fd.Body.List {
			is, ok := st.(*ast.IfStmt)
			if !ok || is.Else != nil || len(is.Body.List) != 1 {
				continue
			}
			be, ok := is.Cond.(*ast.BinaryExpr)
			if !ok || be.Op != token.GTR || src(be.X) != "len(name)" {
				continue
			}
			lim, ok := evalSel(be.Y, env, proto)
			if !ok {
				continue
			}
			if as, ok := is.Body.List[0].(*ast.AssignStmt); ok && len(as.Lhs) == 1 && src(as.Lhs[0]) == "name" && as.Tok == token.ASSIGN {
				if sl, ok := as.Rhs[0].(*ast.SliceExpr); ok && src(sl.X) == "name" && sl.Low == nil && sl.High != nil && !sl.Slice3 {
					if hi, ok := evalSel(sl.High, env, proto); ok && hi == lim {
						cut = lim
					}
				}
			}
		}
		if cut == 0 {
			g.note("getLocalDisplayName: the cut to maxDisplayNameLen bytes was not recognised")
		}
	}
	g.line("Definition gen_display_name_cut_bytes : N := %d.", cut)

	// routing.Manager: every increment of the sequence counter happens while m.mu is
	// held for writing (Lock, not RLock); IncrementSequence in particular
	writers, exclusive, incrExclusive := 0, 0, false
	for _, mf := range parseDir("internal/routing") {
		for _, d := range mf.Decls {
			fd, ok := d.(*ast.FuncDecl)
			if !ok || fd.Body == nil || recvName(fd) != "Manager" {
				continue
			}
			state := "" // "", "w", "r": lock state along the statement list (top-level statements, in order)
			var walk func(list []ast.Stmt)
			walk = func(list []ast.Stmt) {
				for _, st := range list {
					switch x := st.(type) {
					case *ast.ExprStmt:
						switch src(x.X) {
						case "m.mu.Lock()":
							state = "w"
						case "m.mu.RLock()":
							state = "r"
						case "m.mu.Unlock()", "m.mu.RUnlock()":
							state = ""
						}
					case *ast.IncDecStmt:
						if src(x.X) == "m.sequence" {
							writers++
							if state == "w" {
								exclusive++
								if fd.Name.Name == "IncrementSequence" {
									incrExclusive = true
								}
							}
						}
					case *ast.AssignStmt:
						for _, l := range x.Lhs {
							if src(l) == "m.sequence" {
								writers++
								if state == "w" {
									exclusive++
								}
							}
						}
					case *ast.IfStmt:
						saved := state
						walk(x.Body.List)
						if n := len(x.Body.List); n > 0 {
							if _, returns := x.Body.List[n-1].(*ast.ReturnStmt); returns {
								state = saved // an early exit: the code after the if still holds the lock
							}
						}
					case *ast.BlockStmt:
						walk(x.List)
					}
				}
			}
			walk(fd.Body.List)
		}
	}
	g.line("Definition gen_sequence_writers : N := %d.", writers)
	g.line("Definition gen_sequence_writers_under_write_lock : N := %d.", exclusive)
	g.line("Definition gen_increment_sequence_under_write_lock : bool := %s.", coqBool(incrExclusive))

	// ipNetToProtocolRoute: family from the mask width (bits == 128), prefix length from the
	// mask's ones, prefix bytes = the address as it is
	famFromBits, plenFromOnes, rawIP := false, false, false
	if fd := findFunc(f, "", "ipNetToProtocolRoute"); fd != nil {
		onesVar, bitsVar := "", ""
		ast.Inspect(fd.Body, func(n ast.Node) bool {
			switch x := n.(type) {
			case *ast.AssignStmt:
				if len(x.Lhs) == 2 && len(x.Rhs) == 1 && src(x.Rhs[0]) == "network.Mask.Size()" {
					onesVar, bitsVar = src(x.Lhs[0]), src(x.Lhs[1])
				}
			case *ast.IfStmt:
				if be, ok := x.Cond.(*ast.BinaryExpr); ok && be.Op == token.EQL && bitsVar != "" && bitsVar != "_" && src(be.X) == bitsVar && src(be.Y) == "128" &&
					len(x.Body.List) == 1 && strings.HasSuffix(src(x.Body.List[0]), "protocol.AddrFamilyIPv6") {
					famFromBits = true
				}
			case *ast.KeyValueExpr:
				switch src(x.Key) {
				case "PrefixLength":
					plenFromOnes = onesVar != "" && src(x.Value) == "uint8("+onesVar+")"
				case "Prefix":
					rawIP = src(x.Value) == "[]byte(network.IP)"
				case "AddressFamily":
					if src(x.Value) != "family" {
						famFromBits = false
					}
				}
			}
			return true
		})
	} else {
		g.note("ipNetToProtocolRoute not found")
	}
	g.line("Definition gen_cidr_family_from_mask_width : bool := %s.", coqBool(famFromBits))
	g.line("Definition gen_cidr_prefix_length_from_mask_ones : bool := %s.", coqBool(plenFromOnes))
	g.line("Definition gen_cidr_prefix_is_address_bytes : bool := %s.", coqBool(rawIP))

	// HandleRouteAdvertise: the re-flooded routes are a copy with every metric incremented,
	// the seen-by list gets the local id appended, origin/sequence are passed through
	metricInc, passesFwd, seenAppend := false, false, false
	if fd := findFunc(f, "Flooder", "HandleRouteAdvertise"); fd != nil {
		ast.Inspect(fd.Body, func(n ast.Node) bool {
			switch x := n.(type) {
			case *ast.IncDecStmt:
				if x.Tok == token.INC && src(x.X) == "fwdRoutes[i].Metric" {
					metricInc = true
				}
			case *ast.AssignStmt:
				if len(x.Lhs) == 1 && src(x.Lhs[0]) == "newSeenBy" && src(x.Rhs[0]) == "append(seenBy, f.localID)" {
					seenAppend = true
				}
			case *ast.CallExpr:
				if strings.HasSuffix(src(x.Fun), ".floodAdvertisementEncrypted") && len(x.Args) == 7 &&
					src(x.Args[1]) == "originAgent" && src(x.Args[3]) == "sequence" && src(x.Args[4]) == "fwdRoutes" && src(x.Args[6]) == "newSeenBy" {
					passesFwd = true
				}
			}
			return true
		})
	}
	g.line("Definition gen_reflood_increments_metric : bool := %s.", coqBool(metricInc && passesFwd))
	g.line("Definition gen_reflood_keeps_origin_sequence_appends_seen_by : bool := %s.", coqBool(passesFwd && seenAppend))
}

// evalSel is intLit extended with protocol.X selectors.
func evalSel(e ast.Expr, env, proto map[string]int64) (int64, bool) {
	switch x := e.(type) {
	case *ast.SelectorExpr:
		if id, ok := x.X.(*ast.Ident); ok && id.Name == "protocol" {
			v, ok := proto[x.Sel.Name]
			return v, ok
		}
	case *ast.ParenExpr:
		return evalSel(x.X, env, proto)
	case *ast.BinaryExpr:
		a, ok1 := evalSel(x.X, env, proto)
		b, ok2 := evalSel(x.Y, env, proto)
		if ok1 && ok2 {
			switch x.Op {
			case token.ADD:
				return a + b, true
			case token.SUB:
				return a - b, true
			case token.MUL:
				return a * b, true
			}
		}
		return 0, false
	}
	return intLit(e, env)
}

func isBin(e ast.Expr, op token.Token, x, y string) bool {
	b, ok := e.(*ast.BinaryExpr)
	return ok && b.Op == op && src(b.X) == x && src(b.Y) == y
}
