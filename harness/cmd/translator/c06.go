package main

import (
	"go/ast"
	"go/token"
	"strings"
)

func init() { generators["C06"] = genC06 }

// C06 source facts from internal/flood/flood.go:
//   - maxRoutesPerAdvertise, maxRouteBytesPerAdvertise (evaluated)
//   - splitRoutes: the per-route size expression (constant part, coefficient
//     of len(r.Prefix)), and the shape of the group-closing condition
//   - AnnounceLocalRoutes / SendFullTable: the advertisement is built inside a
//     loop over splitRoutes(...), the sequence number is taken inside that
//     loop, and the advertisement's Routes field is the loop's group
func genC06(g *gen) {
	proto := map[string]int64{}
	collectConsts(parseFile("internal/protocol/types.go"), proto)
	collectConsts(parseFile("internal/protocol/frame.go"), proto)
	f := parseFile("internal/flood/flood.go")
	env := map[string]int64{}
	// constants of flood.go may refer to protocol.X
	if f != nil {
		for pass := 0; pass < 3; pass++ {
			for _, d := range f.Decls {
				gd, ok := d.(*ast.GenDecl)
				if !ok || gd.Tok != token.CONST {
					continue
				}
				for _, s := range gd.Specs {
					vs := s.(*ast.ValueSpec)
					for i, n := range vs.Names {
						if i < len(vs.Values) {
							if v, ok := evalSel(vs.Values[i], env, proto); ok {
								env[n.Name] = v
							}
						}
					}
				}
			}
		}
	}
	get := func(n string) int64 {
		if v, ok := env[n]; ok {
			return v
		}
		g.note("constant %s not found in flood.go", n)
		return 0
	}
	g.line("Definition gen_max_routes_per_adv : N := %d.", get("maxRoutesPerAdvertise"))
	g.line("Definition gen_max_route_bytes_per_adv : N := %d.", get("maxRouteBytesPerAdvertise"))

	sizeConst, sizeCoef := int64(0), int64(0)
	nonEmpty, countGE, sizeGT := false, false, false
	if fd := findFunc(f, "", "splitRoutes"); fd != nil {
		ast.Inspect(fd.Body, func(n ast.Node) bool {
			switch x := n.(type) {
			case *ast.AssignStmt:
				if len(x.Lhs) == 1 && src(x.Lhs[0]) == "routeSize" && len(x.Rhs) == 1 {
					sizeConst, sizeCoef = linear(x.Rhs[0], env)
				}
			case *ast.IfStmt:
				be, ok := x.Cond.(*ast.BinaryExpr)
				if !ok || be.Op != token.LAND {
					return true
				}
				if l, ok := be.X.(*ast.BinaryExpr); ok && l.Op == token.GTR && src(l.X) == "i" && src(l.Y) == "start" {
					nonEmpty = true
				}
				if p, ok := be.Y.(*ast.ParenExpr); ok {
					if or, ok := p.X.(*ast.BinaryExpr); ok && or.Op == token.LOR {
						if c, ok := or.X.(*ast.BinaryExpr); ok && c.Op == token.GEQ && isBin(c.X, token.SUB, "i", "start") && src(c.Y) == "maxRoutesPerAdvertise" {
							countGE = true
						}
						if c, ok := or.Y.(*ast.BinaryExpr); ok && c.Op == token.GTR && isBin(c.X, token.ADD, "size", "routeSize") && src(c.Y) == "maxRouteBytesPerAdvertise" {
							sizeGT = true
						}
					}
				}
			}
			return true
		})
	} else {
		g.note("splitRoutes not found")
	}
	g.line("Definition gen_route_size_const : N := %d.", sizeConst)
	g.line("Definition gen_route_size_per_prefix_byte : N := %d.", sizeCoef)
	g.line("Definition gen_split_closes_only_nonempty_group : bool := %s.", coqBool(nonEmpty))
	g.line("Definition gen_split_closes_at_max_count : bool := %s.", coqBool(countGE))
	g.line("Definition gen_split_closes_when_size_would_exceed : bool := %s.", coqBool(sizeGT))

	for _, fn := range []string{"AnnounceLocalRoutes", "SendFullTable"} {
		loop, seqInside, routesIsGroup := false, false, false
		if fd := findFunc(f, "Flooder", fn); fd != nil {
			ast.Inspect(fd.Body, func(n ast.Node) bool {
				rs, ok := n.(*ast.RangeStmt)
				if !ok || !strings.HasPrefix(src(rs.X), "splitRoutes(") || rs.Value == nil {
					return true
				}
				loop = true
				group := src(rs.Value)
				ast.Inspect(rs.Body, func(m ast.Node) bool {
					switch y := m.(type) {
					case *ast.CallExpr:
						if strings.HasSuffix(src(y.Fun), ".IncrementSequence") {
							seqInside = true
						}
					case *ast.KeyValueExpr:
						if src(y.Key) == "Routes" && src(y.Value) == group {
							routesIsGroup = true
						}
					}
					return true
				})
				return false
			})
			// no IncrementSequence outside the loop and no advertisement built outside it
			outside := 0
			ast.Inspect(fd.Body, func(n ast.Node) bool {
				if rs, ok := n.(*ast.RangeStmt); ok && strings.HasPrefix(src(rs.X), "splitRoutes(") {
					return false
				}
				if c, ok := n.(*ast.CallExpr); ok && strings.HasSuffix(src(c.Fun), ".IncrementSequence") {
					outside++
				}
				if cl, ok := n.(*ast.CompositeLit); ok && strings.HasSuffix(src(cl.Type), "RouteAdvertise") {
					outside++
				}
				return true
			})
			if outside > 0 {
				seqInside = false
			}
		} else {
			g.note("%s not found", fn)
		}
		g.line("Definition gen_%s_one_adv_per_group : bool := %s.", fn, coqBool(loop && routesIsGroup))
		g.line("Definition gen_%s_sequence_per_group : bool := %s.", fn, coqBool(loop && seqInside))
	}
}

// evalSel is intLit extended with protocol.X selectors.
func evalSel(e ast.Expr, env, proto map[string]int64) (int64, bool) {
	switch x := e.(type) {
	case *ast.SelectorExpr:
		if id, ok := x.X.(*ast.Ident); ok && id.Name == "protocol" {
			v, ok := proto[x.Sel.Name]
			return v, ok
		}
	case *ast.ParenExpr:
		return evalSel(x.X, env, proto)
	case *ast.BinaryExpr:
		a, ok1 := evalSel(x.X, env, proto)
		b, ok2 := evalSel(x.Y, env, proto)
		if ok1 && ok2 {
			switch x.Op {
			case token.ADD:
				return a + b, true
			case token.SUB:
				return a - b, true
			case token.MUL:
				return a * b, true
			}
		}
		return 0, false
	}
	return intLit(e, env)
}

func isBin(e ast.Expr, op token.Token, x, y string) bool {
	b, ok := e.(*ast.BinaryExpr)
	return ok && b.Op == op && src(b.X) == x && src(b.Y) == y
}
