package main

import (
	"go/ast"
	"go/token"
	"strings"
)

func init() { generators["C16"] = genC16 }

// C16/C17 source facts (internal/agent/relay_table.go, agent.go, udp.go,
// icmp.go, internal/exit/handler.go, internal/forward/handler.go,
// internal/stream/manager.go):
//   - the key type of relayTable.byUpstream / byDownstream and whether it
//     carries the peer
//   - every LookupBoth call passes the frame's source peer; ACK handlers use
//     LookupDownstreamFrom with the source peer
//   - cleanupRelaysForPeer calls DeleteByPeer on the tcp, udp and icmp tables
//   - DeleteByPeer ranges over byUpstream and deletes the entry's downstream key
//   - the key types of exit/forward Handler.connections and stream.Manager.streams
//   - the order in which handleStreamData tries the local endpoints
func genC16(g *gen) {
	rt := parseFile("internal/agent/relay_table.go")
	// struct field types
	fieldType := func(f *ast.File, structName, field string) string {
		if f == nil {
			return ""
		}
		for _, d := range f.Decls {
			gd, ok := d.(*ast.GenDecl)
			if !ok {
				continue
			}
			for _, s := range gd.Specs {
				ts, ok := s.(*ast.TypeSpec)
				if !ok || ts.Name.Name != structName {
					continue
				}
				st, ok := ts.Type.(*ast.StructType)
				if !ok {
					continue
				}
				for _, fl := range st.Fields.List {
					for _, n := range fl.Names {
						if n.Name == field {
							return src(fl.Type)
						}
					}
				}
			}
		}
		return ""
	}
	mapKey := func(t string) string {
		if !strings.HasPrefix(t, "map[") {
			return ""
		}
		depth := 0
		for i := 4; i < len(t); i++ {
			switch t[i] {
			case '[':
				depth++
			case ']':
				if depth == 0 {
					return t[4:i]
				}
				depth--
			}
		}
		return ""
	}
	structFields := func(f *ast.File, structName string) (names []string, types []string) {
		if f == nil {
			return
		}
		for _, d := range f.Decls {
			gd, ok := d.(*ast.GenDecl)
			if !ok {
				continue
			}
			for _, s := range gd.Specs {
				ts, ok := s.(*ast.TypeSpec)
				if !ok || ts.Name.Name != structName {
					continue
				}
				if st, ok := ts.Type.(*ast.StructType); ok {
					for _, fl := range st.Fields.List {
						for _, n := range fl.Names {
							names = append(names, n.Name)
							types = append(types, src(fl.Type))
						}
					}
				}
			}
		}
		return
	}
	upKey := mapKey(fieldType(rt, "relayTable", "byUpstream"))
	downKey := mapKey(fieldType(rt, "relayTable", "byDownstream"))
	keyHasPeer := func(k string) bool {
		if k == "" || k == "uint64" {
			return false
		}
		_, types := structFields(rt, k)
		peer, id := false, false
		for _, t := range types {
			if t == "identity.AgentID" {
				peer = true
			}
			if t == "uint64" {
				id = true
			}
		}
		return peer && id && len(types) == 2
	}
	g.line("Definition gen_relay_up_key_is_peer_id : bool := %s.", coqBool(keyHasPeer(upKey)))
	g.line("Definition gen_relay_down_key_is_peer_id : bool := %s.", coqBool(keyHasPeer(downKey)))
	if !keyHasPeer(upKey) || !keyHasPeer(downKey) {
		g.note("relayTable index key types: byUpstream %q, byDownstream %q", upKey, downKey)
	}

	// call sites in the frame handlers
	lookupBothOK, lookupBothN := true, 0
	ackOK, ackN := true, 0
	bareDownN := 0
	for _, rel := range []string{"internal/agent/agent.go", "internal/agent/udp.go", "internal/agent/icmp.go"} {
		f := parseFile(rel)
		if f == nil {
			continue
		}
		ast.Inspect(f, func(n ast.Node) bool {
			call, ok := n.(*ast.CallExpr)
			if !ok {
				return true
			}
			sel, ok := call.Fun.(*ast.SelectorExpr)
			if !ok || !strings.HasSuffix(src(sel.X), "Relay") {
				return true
			}
			switch sel.Sel.Name {
			case "LookupBoth":
				lookupBothN++
				if len(call.Args) != 2 || src(call.Args[0]) != "frame.StreamID" || src(call.Args[1]) != "peerID" {
					lookupBothOK = false
				}
			case "LookupDownstreamFrom":
				ackN++
				if len(call.Args) != 2 || src(call.Args[0]) != "frame.StreamID" || src(call.Args[1]) != "peerID" {
					ackOK = false
				}
			case "LookupDownstream":
				bareDownN++
			}
			return true
		})
	}
	g.line("Definition gen_lookup_both_calls : N := %d.", lookupBothN)
	g.line("Definition gen_lookup_both_pass_source_peer : bool := %s.", coqBool(lookupBothOK && lookupBothN > 0))
	g.line("Definition gen_ack_lookups : N := %d.", ackN)
	g.line("Definition gen_ack_lookups_pass_source_peer : bool := %s.", coqBool(ackOK && ackN > 0))
	g.line("Definition gen_bare_downstream_lookups_in_handlers : N := %d.", bareDownN)

	// cleanupRelaysForPeer: which tables get DeleteByPeer(peerID)
	af := parseFile("internal/agent/agent.go")
	tables := map[string]bool{}
	if fd := findFunc(af, "Agent", "cleanupRelaysForPeer"); fd != nil {
		ast.Inspect(fd, func(n ast.Node) bool {
			call, ok := n.(*ast.CallExpr)
			if !ok {
				return true
			}
			if sel, ok := call.Fun.(*ast.SelectorExpr); ok && sel.Sel.Name == "DeleteByPeer" && len(call.Args) == 1 && src(call.Args[0]) == "peerID" {
				tables[src(sel.X)] = true
			}
			return true
		})
	}
	g.line("Definition gen_disconnect_cleans_tcp : bool := %s.", coqBool(tables["a.tcpRelay"]))
	g.line("Definition gen_disconnect_cleans_udp : bool := %s.", coqBool(tables["a.udpRelay"]))
	g.line("Definition gen_disconnect_cleans_icmp : bool := %s.", coqBool(tables["a.icmpRelay"]))
	// handlePeerDisconnect calls cleanupRelaysForPeer
	callsCleanup := false
	if fd := findFunc(af, "Agent", "handlePeerDisconnect"); fd != nil {
		ast.Inspect(fd, func(n ast.Node) bool {
			if call, ok := n.(*ast.CallExpr); ok && strings.HasSuffix(src(call.Fun), ".cleanupRelaysForPeer") {
				callsCleanup = true
			}
			return true
		})
	}
	g.line("Definition gen_disconnect_calls_cleanup : bool := %s.", coqBool(callsCleanup))

	// DeleteByPeer: range over byUpstream; both deletes present
	dbpRange, dbpDelUp, dbpDelDown := "", false, false
	if fd := findFunc(rt, "relayTable", "DeleteByPeer"); fd != nil {
		ast.Inspect(fd, func(n ast.Node) bool {
			switch x := n.(type) {
			case *ast.RangeStmt:
				dbpRange = src(x.X)
			case *ast.CallExpr:
				if id, ok := x.Fun.(*ast.Ident); ok && id.Name == "delete" && len(x.Args) == 2 {
					if strings.HasSuffix(src(x.Args[0]), "byUpstream") {
						dbpDelUp = true
					}
					if strings.HasSuffix(src(x.Args[0]), "byDownstream") {
						dbpDelDown = true
					}
				}
			}
			return true
		})
	}
	g.line("Definition gen_delete_by_peer_ranges_upstream : bool := %s.", coqBool(strings.HasSuffix(dbpRange, "byUpstream")))
	g.line("Definition gen_delete_by_peer_deletes_both : bool := %s.", coqBool(dbpDelUp && dbpDelDown))

	// endpoints still keyed by the bare id
	exitKey := mapKey(fieldType(parseFile("internal/exit/handler.go"), "Handler", "connections"))
	fwdKey := mapKey(fieldType(parseFile("internal/forward/handler.go"), "Handler", "connections"))
	smKey := mapKey(fieldType(parseFile("internal/stream/manager.go"), "Manager", "streams"))
	g.line("Definition gen_exit_connections_key_bare : bool := %s.", coqBool(exitKey == "uint64"))
	g.line("Definition gen_forward_connections_key_bare : bool := %s.", coqBool(fwdKey == "uint64"))
	g.line("Definition gen_stream_manager_key_bare : bool := %s.", coqBool(smKey == "uint64"))

	// exit/forward: the record is stored and the counter incremented unconditionally
	storeThenAdd := func(rel string) bool {
		f := parseFile(rel)
		fd := findFunc(f, "Handler", "handleStreamOpenAsync")
		if fd == nil {
			return false
		}
		found := false
		ast.Inspect(fd, func(n ast.Node) bool {
			bs, ok := n.(*ast.BlockStmt)
			if !ok {
				return true
			}
			for i := 0; i+1 < len(bs.List); i++ {
				a, ok1 := bs.List[i].(*ast.AssignStmt)
				e, ok2 := bs.List[i+1].(*ast.ExprStmt)
				if ok1 && ok2 && len(a.Lhs) == 1 && strings.HasPrefix(src(a.Lhs[0]), "h.connections[") && src(e.X) == "h.connCount.Add(1)" {
					found = true
				}
			}
			return true
		})
		return found
	}
	g.line("Definition gen_exit_store_then_count_unconditional : bool := %s.", coqBool(storeThenAdd("internal/exit/handler.go")))
	g.line("Definition gen_forward_store_then_count_unconditional : bool := %s.", coqBool(storeThenAdd("internal/forward/handler.go")))

	// every handler that dispatches a frame by its stream id: the relay table
	// (keyed by (peer, id)) is consulted before any local endpoint (keyed by the
	// bare id), and the relay branch returns
	relayMarks := []string{"Relay.LookupBoth(", "Relay.PopMatchingPeer(", "Relay.LookupDownstreamFrom(", "Relay.PopDownstreamFromPeer("}
	localMarks := []string{"a.exitHandler.", "a.forwardHandler.", "a.udpHandler.", "a.icmpHandler.", "a.streamMgr.", "a.shellHandler.",
		"a.handleShellClient", "a.getFileTransferStream(", "a.udpIngressByLocalStream", "a.icmpIngressByStream", "a.icmpWSSessionByStream", "a.handleFileTransferStreamData("}
	handlers := []struct{ file, name string }{
		{"internal/agent/agent.go", "handleStreamOpenAck"}, {"internal/agent/agent.go", "handleStreamOpenErr"},
		{"internal/agent/agent.go", "handleStreamData"}, {"internal/agent/agent.go", "handleStreamClose"}, {"internal/agent/agent.go", "handleStreamReset"},
		{"internal/agent/udp.go", "handleUDPOpenAck"}, {"internal/agent/udp.go", "handleUDPOpenErr"},
		{"internal/agent/udp.go", "handleUDPDatagram"}, {"internal/agent/udp.go", "handleUDPClose"},
		{"internal/agent/icmp.go", "handleICMPOpenAck"}, {"internal/agent/icmp.go", "handleICMPOpenErr"},
		{"internal/agent/icmp.go", "handleICMPEcho"}, {"internal/agent/icmp.go", "handleICMPClose"},
	}
	containsAny := func(t string, marks []string) bool {
		for _, m := range marks {
			if strings.Contains(t, m) {
				return true
			}
		}
		return false
	}
	// does every path through the statement end in a return? (if/else chains and blocks)
	var endsInReturn func(st ast.Stmt) bool
	endsInReturn = func(st ast.Stmt) bool {
		switch x := st.(type) {
		case *ast.ReturnStmt:
			return true
		case *ast.BlockStmt:
			return len(x.List) > 0 && endsInReturn(x.List[len(x.List)-1])
		case *ast.IfStmt:
			return endsInReturn(x.Body) // the branch taken when the relay matched
		}
		return false
	}
	for _, h := range handlers {
		fd := findFunc(parseFile(h.file), "Agent", h.name)
		firstRelay, firstLocal := -1, -1
		relayReturns := true
		if fd != nil && fd.Body != nil {
			for i, st := range fd.Body.List {
				t := src(st)
				isRelay := containsAny(t, relayMarks)
				if isRelay && firstRelay < 0 {
					firstRelay = i
				}
				if isRelay {
					// the statements that act on a relay match are the if-statements mentioning the looked-up entry
					if ifs, ok := st.(*ast.IfStmt); ok && !endsInReturn(ifs) {
						relayReturns = false
					}
				} else if ifs, ok := st.(*ast.IfStmt); ok && (strings.Contains(src(ifs.Cond), "relayUp") || strings.Contains(src(ifs.Cond), "relayDown") ||
					strings.Contains(src(ifs.Cond), "upRelay") || strings.Contains(src(ifs.Cond), "downRelay")) {
					if !endsInReturn(ifs) {
						relayReturns = false
					}
				}
				if !isRelay && containsAny(t, localMarks) && firstLocal < 0 {
					firstLocal = i
				}
			}
		}
		ok := firstRelay >= 0 && (firstLocal < 0 || firstRelay < firstLocal)
		if !ok {
			g.note("%s: relay lookup at statement %d, first local endpoint at statement %d", h.name, firstRelay, firstLocal)
		}
		g.line("Definition gen_relay_first_%s : bool := %s.", h.name, coqBool(ok))
		g.line("Definition gen_relay_match_returns_%s : bool := %s.", h.name, coqBool(firstRelay >= 0 && relayReturns))
	}

	// the relay branch of every *_OPEN handler: the entry is inserted BEFORE the
	// forwarded OPEN is written to the next hop (its answer, or the next hop's
	// disconnect, may be handled concurrently), it is deleted again when the
	// write fails, and the error reply goes to the opener on the opener's id
	for _, h := range []struct{ file, name, errCall string }{
		{"internal/agent/agent.go", "handleStreamOpen", ""},
		{"internal/agent/udp.go", "handleUDPOpen", "a.sendUDPOpenErr(peerID, frame.StreamID,"},
		{"internal/agent/icmp.go", "handleICMPOpen", "a.sendICMPOpenErr(peerID, frame.StreamID,"},
	} {
		fd := findFunc(parseFile(h.file), "Agent", h.name)
		insertPos, sendPos := token.NoPos, token.NoPos
		deletes, replyOK := false, false
		if fd != nil && fd.Body != nil {
			ast.Inspect(fd.Body, func(n ast.Node) bool {
				switch x := n.(type) {
				case *ast.CallExpr:
					t := src(x)
					if strings.Contains(t, "Relay.Insert(") && insertPos == token.NoPos {
						insertPos = x.Pos()
					}
				case *ast.IfStmt:
					if x.Init != nil && strings.Contains(src(x.Init), "SendToPeer(nextHop,") && sendPos == token.NoPos {
						sendPos = x.Pos()
						body := src(x.Body)
						deletes = strings.Contains(body, "Relay.Delete(relay)")
						if h.errCall != "" {
							replyOK = strings.Contains(body, h.errCall)
						} else {
							flat := strings.NewReplacer(" ", "", "\t", "").Replace(body)
							replyOK = strings.Contains(flat, "StreamID:frame.StreamID") && strings.Contains(flat, "SendToPeer(peerID,errFrame)")
						}
					}
				}
				return true
			})
		}
		before := insertPos != token.NoPos && sendPos != token.NoPos && insertPos < sendPos
		if !before || !deletes || !replyOK {
			g.note("%s: insert before send=%v, delete on failure=%v, error reply to the opener=%v", h.name, before, deletes, replyOK)
		}
		g.line("Definition gen_open_inserts_before_send_%s : bool := %s.", h.name, coqBool(before))
		g.line("Definition gen_open_deletes_on_send_failure_%s : bool := %s.", h.name, coqBool(deletes))
		g.line("Definition gen_open_error_reply_to_opener_%s : bool := %s.", h.name, coqBool(replyOK))
	}
	// peer.Manager.handleDisconnect: a connection that is no longer registered
	// (local Disconnect / DisconnectAll unregister before closing) is NOT stale:
	// the staleness test is disconnectHandled || (ok && existing != conn)
	staleOK := false
	if fd := findFunc(parseFile("internal/peer/manager.go"), "Manager", "handleDisconnect"); fd != nil {
		ast.Inspect(fd, func(n ast.Node) bool {
			if a, ok := n.(*ast.AssignStmt); ok && len(a.Lhs) == 1 && src(a.Lhs[0]) == "stale" && len(a.Rhs) == 1 {
				c := strings.ReplaceAll(src(a.Rhs[0]), " ", "")
				staleOK = c == "conn.disconnectHandled||(ok&&existing!=conn)"
			}
			return true
		})
	}
	if !staleOK {
		g.note("peer.Manager.handleDisconnect: staleness test not recognised")
	}
	g.line("Definition gen_unregistered_connection_still_notifies_disconnect : bool := %s.", coqBool(staleOK))

	// ---- addressing of OPEN replies at the endpoints: (peer, STREAM id, REQUEST id)
	openErrOK := func(file string) (bool, int) {
		f := parseFile(file)
		ok, n := true, 0
		if f == nil {
			return false, 0
		}
		ast.Inspect(f, func(nd ast.Node) bool {
			call, isCall := nd.(*ast.CallExpr)
			if !isCall {
				return true
			}
			fn := src(call.Fun)
			switch {
			case strings.HasSuffix(fn, ".sendOpenErr") && len(call.Args) >= 3:
				n++
				if src(call.Args[1]) != "streamID" || src(call.Args[2]) != "requestID" {
					ok = false
				}
			case strings.HasSuffix(fn, ".WriteStreamOpenErr") && len(call.Args) >= 3:
				n++
				if src(call.Args[1]) != "streamID" || src(call.Args[2]) != "requestID" {
					ok = false
				}
			case strings.HasSuffix(fn, ".WriteStreamOpenAck") && len(call.Args) >= 3:
				n++
				if src(call.Args[1]) != "streamID" || src(call.Args[2]) != "requestID" {
					ok = false
				}
			}
			return true
		})
		return ok, n
	}
	for _, h := range []struct{ name, file string }{{"exit", "internal/exit/handler.go"}, {"forward", "internal/forward/handler.go"}} {
		ok, n := openErrOK(h.file)
		if !ok || n < 3 {
			g.note("%s handler: an OPEN reply call does not pass (streamID, requestID) in that order (%d call sites)", h.name, n)
		}
		g.line("Definition gen_%s_open_replies_pass_stream_then_request_id : bool := %s.", h.name, coqBool(ok && n >= 3))
	}
	// udp / icmp exit handlers: Write*OpenErr(peerID, streamID, &...{RequestID: open.RequestID ...})
	typedErrOK := func(file, method string) bool {
		f := parseFile(file)
		ok, n := true, 0
		if f == nil {
			return false
		}
		ast.Inspect(f, func(nd ast.Node) bool {
			call, isCall := nd.(*ast.CallExpr)
			if !isCall || !strings.HasSuffix(src(call.Fun), "."+method) || len(call.Args) != 3 {
				return true
			}
			n++
			flat := strings.NewReplacer(" ", "", "\t", "", "\n", "").Replace(src(call.Args[2]))
			a1 := src(call.Args[1])
			if (a1 != "streamID" && a1 != "assoc.StreamID" && a1 != "session.StreamID") || !strings.Contains(flat, "RequestID:open.RequestID") {
				ok = false
			}
			return true
		})
		return ok && n > 0
	}
	g.line("Definition gen_udp_open_err_addressed_by_stream_and_request : bool := %s.", coqBool(typedErrOK("internal/udp/handler.go", "WriteUDPOpenErr")))
	g.line("Definition gen_icmp_open_err_addressed_by_stream_and_request : bool := %s.", coqBool(typedErrOK("internal/icmp/handler.go", "WriteICMPOpenErr")))
	// the agent's StreamWriter puts the stream id in the frame header and the request id in the payload
	wOK := false
	if fd := findFunc(af, "Agent", "WriteStreamOpenErr"); fd != nil {
		flat := strings.NewReplacer(" ", "", "\t", "", "\n", "").Replace(src(fd.Body))
		wOK = strings.Contains(flat, "RequestID:requestID") && strings.Contains(flat, "StreamID:streamID")
	}
	g.line("Definition gen_agent_open_err_writer_maps_ids : bool := %s.", coqBool(wOK))

	// ---- which (peer, id) a relayed frame is forwarded to, per direction:
	// from upstream -> (DownstreamPeer, DownstreamID); from downstream -> (UpstreamPeer, UpstreamID)
	fwdOK := func(file, fn string) bool {
		fd := findFunc(parseFile(file), "Agent", fn)
		if fd == nil {
			return false
		}
		flat := strings.NewReplacer(" ", "", "\t", "", "\n", "").Replace(src(fd.Body))
		switch {
		case strings.Contains(flat, "PopMatchingPeer("):
			// close / reset shape
			a1 := strings.Contains(flat, "dstPeer,dstID:=entry.UpstreamPeer,entry.UpstreamID") && strings.Contains(flat, "iffromUpstream{dstPeer,dstID=entry.DownstreamPeer,entry.DownstreamID}")
			a2 := strings.Contains(flat, "iffromUpstream{dstPeer=entry.DownstreamPeerdstID=entry.DownstreamID}else{dstPeer=entry.UpstreamPeerdstID=entry.UpstreamID}")
			return (a1 || a2) && strings.Contains(flat, "StreamID:dstID") && strings.Contains(flat, "SendToPeer(dstPeer,fwdFrame)")
		case strings.Contains(flat, "LookupBoth("):
			up := "upRelay"
			down := "downRelay"
			if strings.Contains(flat, "relayUp,relayDown:=") {
				up, down = "relayUp", "relayDown"
			}
			return strings.Contains(flat, "StreamID:"+up+".DownstreamID") && strings.Contains(flat, "SendToPeer("+up+".DownstreamPeer,fwdFrame)") &&
				strings.Contains(flat, "StreamID:"+down+".UpstreamID") && strings.Contains(flat, "SendToPeer("+down+".UpstreamPeer,fwdFrame)")
		}
		return false
	}
	for _, h := range []struct{ file, fn string }{
		{"internal/agent/agent.go", "handleStreamData"}, {"internal/agent/agent.go", "handleStreamClose"}, {"internal/agent/agent.go", "handleStreamReset"},
		{"internal/agent/udp.go", "handleUDPDatagram"}, {"internal/agent/udp.go", "handleUDPClose"},
		{"internal/agent/icmp.go", "handleICMPEcho"}, {"internal/agent/icmp.go", "handleICMPClose"},
	} {
		ok := fwdOK(h.file, h.fn)
		if !ok {
			g.note("%s: forwarding target (peer, id) per direction not recognised", h.fn)
		}
		g.line("Definition gen_forward_ids_%s : bool := %s.", h.fn, coqBool(ok))
	}
	// UDP ingress: a refused UDP_OPEN removes the refused association's own mesh stream
	uiOK := false
	if fd := findFunc(parseFile("internal/agent/udp.go"), "Agent", "handleUDPOpenErr"); fd != nil {
		flat := strings.NewReplacer(" ", "", "\t", "", "\n", "").Replace(src(fd.Body))
		uiOK = strings.Contains(flat, "delete(a.udpIngressByLocalStream,dest.StreamID)") && strings.Count(flat, "delete(a.udpIngressByLocalStream,") == 1
	}
	g.line("Definition gen_udp_open_err_removes_own_mesh_stream : bool := %s.", coqBool(uiOK))

	// handleStreamData: order in which the local endpoints are tried after the relay lookup
	// codes: 1 relay, 2 exit, 3 forward, 4 file transfer, 5 shell server, 6 shell client, 7 stream manager
	var order []string
	if fd := findFunc(af, "Agent", "handleStreamData"); fd != nil && fd.Body != nil {
		for _, st := range fd.Body.List {
			t := src(st)
			code := ""
			switch {
			case strings.Contains(t, "tcpRelay.LookupBoth"):
				code = "1"
			case strings.Contains(t, "a.exitHandler.HandleStreamData"):
				code = "2"
			case strings.Contains(t, "a.forwardHandler.HandleStreamData"):
				code = "3"
			case strings.Contains(t, "a.handleFileTransferStreamData"):
				code = "4"
			case strings.Contains(t, "a.shellHandler.HandleStreamData"):
				code = "5"
			case strings.Contains(t, "a.handleShellClientData"):
				code = "6"
			case strings.Contains(t, "a.streamMgr.HandleStreamData"):
				code = "7"
			}
			if code != "" && (len(order) == 0 || order[len(order)-1] != code) {
				order = append(order, code)
			}
		}
	}
	g.line("Definition gen_stream_data_dispatch_order : list N := [%s].", strings.Join(order, "; "))
}
