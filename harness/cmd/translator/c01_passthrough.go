package main

// C01, class "closed or keyless endpoints never hand back unauthenticated
// bytes as accepted": every Encrypt / Decrypt method outside internal/crypto
// that returns its input unchanged when no session key is set, with the order
// of its tests. A pair is sound when both twins test the closed flag BEFORE
// the key (Close sets the key to nil, so the other order turns a closed
// encrypted endpoint into a pass-through).

import (
	"go/ast"
	"go/token"
	"os"
	"path/filepath"
	"sort"
	"strings"
)

type passThrough struct {
	pkg, typ, fn          string
	closedPos, nilPos     int // index among the top-level statements; -1 = absent
	returnsInputOnNil     bool
}

func scanPassThrough() []passThrough {
	var out []passThrough
	var dirs []string
	filepath.Walk(filepath.Join(repo, "internal"), func(p string, info os.FileInfo, err error) error {
		if err == nil && info.IsDir() {
			rel, _ := filepath.Rel(repo, p)
			dirs = append(dirs, rel)
		}
		return nil
	})
	sort.Strings(dirs)
	for _, dir := range dirs {
		if dir == "internal/crypto" {
			continue
		}
		for _, f := range parseDir(dir) {
			for _, d := range f.Decls {
				fd, ok := d.(*ast.FuncDecl)
				if !ok || fd.Body == nil || fd.Recv == nil || (fd.Name.Name != "Encrypt" && fd.Name.Name != "Decrypt") {
					continue
				}
				param := ""
				if len(fd.Type.Params.List) == 1 && len(fd.Type.Params.List[0].Names) == 1 {
					param = fd.Type.Params.List[0].Names[0].Name
				}
				pt := passThrough{pkg: dir, typ: recvName(fd), fn: fd.Name.Name, closedPos: -1, nilPos: -1}
				for i, st := range fd.Body.List {
					is, ok := st.(*ast.IfStmt)
					if !ok {
						continue
					}
					cond := src(is.Cond)
					if pt.closedPos < 0 && (strings.Contains(strings.ToLower(cond), "closed")) {
						pt.closedPos = i
					}
					if be, ok := is.Cond.(*ast.BinaryExpr); ok && be.Op == token.EQL && src(be.Y) == "nil" && strings.HasSuffix(strings.ToLower(src(be.X)), "sessionkey") && pt.nilPos < 0 {
						pt.nilPos = i
						if len(is.Body.List) > 0 {
							if ret, ok := is.Body.List[len(is.Body.List)-1].(*ast.ReturnStmt); ok && len(ret.Results) >= 1 && src(ret.Results[0]) == param {
								pt.returnsInputOnNil = true
							}
						}
					}
				}
				if pt.nilPos >= 0 {
					out = append(out, pt)
				}
			}
		}
	}
	return out
}

func genPassThroughPairs(g *gen) {
	ps := scanPassThrough()
	g.line("(* Encrypt/Decrypt methods that pass their input through when no key is set:")
	g.line("   (package, type, method, closed test comes first, returns the input when keyless) *)")
	g.line("Definition gen_c01_passthrough : list (string * string * string * bool * bool) := [")
	for i, p := range ps {
		sep := ";"
		if i == len(ps)-1 {
			sep = ""
		}
		g.line("  (%s, %s, %s, %s, %s)%s", coqString(p.pkg), coqString(p.typ), coqString(p.fn),
			coqBool(p.closedPos >= 0 && p.closedPos < p.nilPos), coqBool(p.returnsInputOnNil), sep)
	}
	g.line("]%%string.")
}
