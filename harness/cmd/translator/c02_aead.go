package main

// Facts on the arguments of the AEAD calls in crypto.SessionKey.Encrypt /
// Decrypt: the nonce handed to Seal is the array built by buildSendNonce (the
// same array that is copied to the front of the frame), the nonce handed to
// Open is the array copied from the first NonceSize bytes of the frame (the
// same array the window and direction tests read), and no associated data.

import (
	"go/ast"
)

type aeadFacts struct {
	sealCalls, openCalls             int
	sealNonceIsBuilt, sealAADNil     bool
	sealNonceIsWirePrefix            bool
	openNonceIsWire, openAADNil      bool
	openNonceIsTested                bool
}

func aeadSliceOfIdent(e ast.Expr) string {
	if sl, ok := e.(*ast.SliceExpr); ok && sl.Low == nil && sl.High == nil {
		if id, ok := sl.X.(*ast.Ident); ok {
			return id.Name
		}
	}
	return ""
}

func scanAEAD() aeadFacts {
	var r aeadFacts
	f := parseFile("internal/crypto/crypto.go")
	if enc := findFunc(f, "SessionKey", "Encrypt"); enc != nil && enc.Body != nil {
		built := ""
		wire := map[string]bool{} // arrays copied to the front of the output
		ast.Inspect(enc.Body, func(n ast.Node) bool {
			switch s := n.(type) {
			case *ast.AssignStmt:
				if len(s.Lhs) == 1 && len(s.Rhs) == 1 {
					if call, ok := s.Rhs[0].(*ast.CallExpr); ok {
						if sel, ok := call.Fun.(*ast.SelectorExpr); ok && sel.Sel.Name == "buildSendNonce" {
							if id, ok := s.Lhs[0].(*ast.Ident); ok {
								built = id.Name
							}
						}
					}
				}
			case *ast.CallExpr:
				if id, ok := s.Fun.(*ast.Ident); ok && id.Name == "copy" && len(s.Args) == 2 {
					if n := aeadSliceOfIdent(s.Args[1]); n != "" {
						wire[n] = true
					}
				}
			}
			return true
		})
		ast.Inspect(enc.Body, func(n ast.Node) bool {
			call, ok := n.(*ast.CallExpr)
			if !ok {
				return true
			}
			if sel, ok := call.Fun.(*ast.SelectorExpr); ok && sel.Sel.Name == "Seal" && len(call.Args) == 4 {
				r.sealCalls++
				n := aeadSliceOfIdent(call.Args[1])
				r.sealNonceIsBuilt = n != "" && n == built
				r.sealNonceIsWirePrefix = n != "" && wire[n]
				if id, ok := call.Args[3].(*ast.Ident); ok && id.Name == "nil" {
					r.sealAADNil = true
				}
			}
			return true
		})
	}
	if dec := findFunc(f, "SessionKey", "Decrypt"); dec != nil && dec.Body != nil {
		fromWire := map[string]bool{} // arrays filled by copy(x[:], ciphertext[:NonceSize])
		tested := map[string]bool{}   // arrays whose bytes are read by binary.BigEndian.UintNN(x[...])
		ast.Inspect(dec.Body, func(n ast.Node) bool {
			call, ok := n.(*ast.CallExpr)
			if !ok {
				return true
			}
			if id, ok := call.Fun.(*ast.Ident); ok && id.Name == "copy" && len(call.Args) == 2 {
				if sl, ok := call.Args[1].(*ast.SliceExpr); ok && sl.Low == nil && src(sl.High) == "NonceSize" {
					if n := aeadSliceOfIdent(call.Args[0]); n != "" {
						fromWire[n] = true
					}
				}
			}
			if s := src(call.Fun); (s == "binary.BigEndian.Uint64" || s == "binary.BigEndian.Uint32") && len(call.Args) == 1 {
				if sl, ok := call.Args[0].(*ast.SliceExpr); ok {
					if id, ok := sl.X.(*ast.Ident); ok {
						tested[id.Name] = true
					}
				}
			}
			return true
		})
		ast.Inspect(dec.Body, func(n ast.Node) bool {
			call, ok := n.(*ast.CallExpr)
			if !ok {
				return true
			}
			if sel, ok := call.Fun.(*ast.SelectorExpr); ok && sel.Sel.Name == "Open" && len(call.Args) == 4 {
				r.openCalls++
				n := aeadSliceOfIdent(call.Args[1])
				r.openNonceIsWire = n != "" && fromWire[n]
				r.openNonceIsTested = n != "" && tested[n]
				if id, ok := call.Args[3].(*ast.Ident); ok && id.Name == "nil" {
					r.openAADNil = true
				}
			}
			return true
		})
	}
	return r
}

func genAEADFacts(g *gen, prefix string) {
	r := scanAEAD()
	g.line("Definition %s_seal_calls : N := %d.", prefix, r.sealCalls)
	g.line("Definition %s_seal_nonce_is_built_nonce : bool := %s.", prefix, coqBool(r.sealNonceIsBuilt))
	g.line("Definition %s_seal_nonce_is_frame_prefix : bool := %s.", prefix, coqBool(r.sealNonceIsWirePrefix))
	g.line("Definition %s_seal_no_associated_data : bool := %s.", prefix, coqBool(r.sealAADNil))
	g.line("Definition %s_open_calls : N := %d.", prefix, r.openCalls)
	g.line("Definition %s_open_nonce_is_frame_prefix : bool := %s.", prefix, coqBool(r.openNonceIsWire))
	g.line("Definition %s_open_nonce_is_the_tested_nonce : bool := %s.", prefix, coqBool(r.openNonceIsTested))
	g.line("Definition %s_open_no_associated_data : bool := %s.", prefix, coqBool(r.openAADNil))
}
