package main

import (
	"go/ast"
	"go/token"
	"strings"
)

func init() {
	generators["C31"] = genC31
	generators["C32"] = genC32
}

// ---------------------------------------------------------------------------
// helpers shared by C31 / C32 (family "peer")

func peerNorm(s string) string { return strings.Join(strings.Fields(s), " ") }

// peerPos returns the position of the first node inside root for which pred
// holds (pre-order), or token.NoPos.
func peerPos(root ast.Node, pred func(ast.Node) bool) token.Pos {
	pos := token.NoPos
	if root == nil {
		return pos
	}
	ast.Inspect(root, func(n ast.Node) bool {
		if n == nil || pos != token.NoPos {
			return false
		}
		if pred(n) {
			pos = n.Pos()
			return false
		}
		return true
	})
	return pos
}

// peerBodyReturns reports whether the block ends in a return statement.
func peerBodyReturns(b *ast.BlockStmt) bool {
	if b == nil || len(b.List) == 0 {
		return false
	}
	_, ok := b.List[len(b.List)-1].(*ast.ReturnStmt)
	return ok
}

// peerGuard finds `if <cond> { ...; return }` where the normalised condition
// satisfies match, and returns its position.
func peerGuard(root ast.Node, match func(cond string) bool) token.Pos {
	return peerPos(root, func(n ast.Node) bool {
		is, ok := n.(*ast.IfStmt)
		return ok && is.Init == nil && match(peerNorm(src(is.Cond))) && peerBodyReturns(is.Body)
	})
}

// peerCall finds a call whose function expression (normalised source) satisfies match.
func peerCall(root ast.Node, match func(fun string) bool) token.Pos {
	return peerPos(root, func(n ast.Node) bool {
		c, ok := n.(*ast.CallExpr)
		return ok && match(peerNorm(src(c.Fun)))
	})
}

func peerCountCalls(root ast.Node, match func(fun string) bool) int {
	n := 0
	if root == nil {
		return 0
	}
	ast.Inspect(root, func(x ast.Node) bool {
		if c, ok := x.(*ast.CallExpr); ok && match(peerNorm(src(c.Fun))) {
			n++
		}
		return true
	})
	return n
}

func peerBefore(a, b token.Pos) bool { return a != token.NoPos && b != token.NoPos && a < b }

func hasAll(s string, parts ...string) bool {
	for _, p := range parts {
		if !strings.Contains(s, p) {
			return false
		}
	}
	return true
}

// ---------------------------------------------------------------------------
// C31: where the reconnector checks `paused`, how timers are armed, and how
// peer.Manager drives it.

func genC31(g *gen) {
	f := parseFile("internal/peer/reconnect.go")
	sched := findFunc(f, "Reconnector", "Schedule")
	att := findFunc(f, "Reconnector", "attemptReconnect")
	armF := findFunc(f, "Reconnector", "arm")
	jit := findFunc(f, "Reconnector", "addJitter")

	isAfterFunc := func(s string) bool { return s == "time.AfterFunc" }
	isArm := func(s string) bool { return strings.HasSuffix(s, ".arm") }

	// Schedule: `if r.closed || r.paused { return }` before anything is armed
	schedPaused := false
	schedInflight := false
	if sched != nil {
		armPos := peerCall(sched.Body, func(s string) bool { return isAfterFunc(s) || isArm(s) })
		p := peerGuard(sched.Body, func(c string) bool { return hasAll(c, ".paused") && !strings.Contains(c, "!") })
		schedPaused = peerBefore(p, armPos)
		q := peerGuard(sched.Body, func(c string) bool { return strings.HasSuffix(c, ".inFlight") && !strings.Contains(c, "!") })
		schedInflight = peerBefore(q, armPos)
	}

	// attemptReconnect: position of the callback call splits the function
	attPausedStart, attPausedRearm, attGen, attIdentity, attSetsInflight := false, false, false, false, false
	if att != nil {
		cb := peerCall(att.Body, func(s string) bool { return strings.HasSuffix(s, ".callback") })
		incr := peerPos(att.Body, func(n ast.Node) bool {
			i, ok := n.(*ast.IncDecStmt)
			return ok && i.Tok == token.INC && strings.HasSuffix(peerNorm(src(i.X)), ".attempts")
		})
		// before the attempt starts
		p1 := peerGuard(att.Body, func(c string) bool { return strings.HasSuffix(c, ".paused") && !strings.Contains(c, "!") })
		attPausedStart = peerBefore(p1, incr) && peerBefore(incr, cb)
		g1 := peerGuard(att.Body, func(c string) bool { return hasAll(c, ".timerGen", "!=") })
		attGen = peerBefore(g1, incr)
		// after the callback: identity check, and a paused guard before re-arming
		rearm := token.NoPos
		ast.Inspect(att.Body, func(n ast.Node) bool {
			if c, ok := n.(*ast.CallExpr); ok && c.Pos() > cb && (isAfterFunc(peerNorm(src(c.Fun))) || isArm(peerNorm(src(c.Fun)))) && rearm == token.NoPos {
				rearm = c.Pos()
			}
			return true
		})
		p2 := token.NoPos
		ast.Inspect(att.Body, func(n ast.Node) bool {
			if is, ok := n.(*ast.IfStmt); ok && is.Pos() > cb && p2 == token.NoPos {
				c := peerNorm(src(is.Cond))
				if strings.HasSuffix(c, ".paused") && !strings.Contains(c, "!") && peerBodyReturns(is.Body) {
					p2 = is.Pos()
				}
			}
			return true
		})
		attPausedRearm = peerBefore(cb, p2) && peerBefore(p2, rearm)
		idp := token.NoPos
		ast.Inspect(att.Body, func(n ast.Node) bool {
			if is, ok := n.(*ast.IfStmt); ok && is.Pos() > cb && idp == token.NoPos {
				c := peerNorm(src(is.Cond))
				if hasAll(c, ".states[", "!= state") && peerBodyReturns(is.Body) {
					idp = is.Pos()
				}
			}
			return true
		})
		attIdentity = peerBefore(cb, idp) && peerBefore(idp, rearm)
		// inFlight set before and cleared after the callback
		setT, setF := token.NoPos, token.NoPos
		ast.Inspect(att.Body, func(n ast.Node) bool {
			if a, ok := n.(*ast.AssignStmt); ok && len(a.Lhs) == 1 && len(a.Rhs) == 1 && strings.HasSuffix(peerNorm(src(a.Lhs[0])), ".inFlight") {
				switch peerNorm(src(a.Rhs[0])) {
				case "true":
					if setT == token.NoPos {
						setT = a.Pos()
					}
				case "false":
					if setF == token.NoPos {
						setF = a.Pos()
					}
				}
			}
			return true
		})
		attSetsInflight = peerBefore(setT, cb) && peerBefore(cb, setF) && peerBefore(setF, rearm)
	}

	// arm(): stops the previous timer and takes a new generation before AfterFunc;
	// and no other function of the file creates timers
	armStops, armGen := false, false
	if armF != nil {
		af := peerCall(armF.Body, isAfterFunc)
		st := peerCall(armF.Body, func(s string) bool { return strings.HasSuffix(s, ".timer.Stop") })
		armStops = peerBefore(st, af)
		inc := peerPos(armF.Body, func(n ast.Node) bool {
			i, ok := n.(*ast.IncDecStmt)
			return ok && i.Tok == token.INC && strings.HasSuffix(peerNorm(src(i.X)), ".gen")
		})
		armGen = peerBefore(inc, af)
	}
	totalAF, armAF := 0, 0
	if f != nil {
		totalAF = peerCountCalls(f, isAfterFunc)
	}
	if armF != nil {
		armAF = peerCountCalls(armF.Body, isAfterFunc)
	}
	onlyArm := totalAF > 0 && totalAF == armAF

	// addJitter constants: now % M, / D, - O, * F
	jm, jd, jo, jf := int64(0), "", "", int64(0)
	if jit != nil {
		ast.Inspect(jit.Body, func(n ast.Node) bool {
			be, ok := n.(*ast.BinaryExpr)
			if !ok {
				return true
			}
			switch be.Op {
			case token.REM:
				if v, ok := intLit(be.Y, nil); ok && strings.Contains(src(be.X), "UnixNano") {
					jm = v
				}
			case token.QUO:
				if bl, ok := be.Y.(*ast.BasicLit); ok && strings.Contains(src(be.X), "UnixNano") {
					jd = bl.Value
				}
			case token.SUB:
				if bl, ok := be.Y.(*ast.BasicLit); ok && strings.Contains(src(be.X), "UnixNano") {
					jo = bl.Value
				}
			case token.MUL:
				if v, ok := intLit(be.Y, nil); ok && strings.Contains(src(be.X), "UnixNano") {
					jf = v
				}
			}
			return true
		})
	}

	// peer.Manager wiring
	mf := parseFile("internal/peer/manager.go")
	isSched := func(s string) bool { return strings.HasSuffix(s, "reconnector.Schedule") }
	mgrSchedOnFail := false
	if fd := findFunc(mf, "Manager", "connectWithTransport"); fd != nil {
		ast.Inspect(fd.Body, func(n ast.Node) bool {
			is, ok := n.(*ast.IfStmt)
			if ok && peerNorm(src(is.Cond)) == "err != nil" && peerBodyReturns(is.Body) {
				if peerCall(is.Body, isSched) != token.NoPos {
					mgrSchedOnFail = true
				}
			}
			return true
		})
	}
	mgrSchedOnDisc := false
	if fd := findFunc(mf, "Manager", "handleDisconnect"); fd != nil {
		mgrSchedOnDisc = peerCall(fd.Body, isSched) != token.NoPos
	}
	mgrPause := false
	if fd := findFunc(mf, "Manager", "DisconnectAll"); fd != nil {
		pp := peerCall(fd.Body, func(s string) bool { return strings.HasSuffix(s, "reconnector.Pause") })
		early := peerPos(fd.Body, func(n ast.Node) bool { _, ok := n.(*ast.ReturnStmt); return ok })
		// a top-level statement of the function, and no return statement before it
		top := false
		for _, st := range fd.Body.List {
			if es, ok := st.(*ast.ExprStmt); ok && es.Pos() <= pp && pp < es.End() {
				top = true
			}
		}
		mgrPause = pp != token.NoPos && top && !(early != token.NoPos && early < pp)
	}
	mgrCallback := false
	if fd := findFunc(mf, "", "NewManager"); fd != nil {
		ast.Inspect(fd.Body, func(n ast.Node) bool {
			if c, ok := n.(*ast.CallExpr); ok && peerNorm(src(c.Fun)) == "NewReconnector" && len(c.Args) == 2 && strings.HasSuffix(peerNorm(src(c.Args[1])), ".handleReconnect") {
				mgrCallback = true
			}
			return true
		})
	}

	// agent plumbing: which setting each parameter of the peer manager is read from in initComponents
	plumb := peerAgentPlumbing()

	if sched == nil || att == nil {
		g.note("Reconnector.Schedule / attemptReconnect not found; facts set to false")
	}
	g.line("Definition gen_schedule_checks_paused : bool := %s.", coqBool(schedPaused))
	g.line("Definition gen_attempt_checks_paused_before_start : bool := %s.", coqBool(attPausedStart))
	g.line("Definition gen_attempt_checks_paused_before_rearm : bool := %s.", coqBool(attPausedRearm))
	g.line("Definition gen_schedule_skips_while_inflight : bool := %s.", coqBool(schedInflight))
	g.line("Definition gen_attempt_tracks_inflight : bool := %s.", coqBool(attSetsInflight))
	g.line("Definition gen_attempt_checks_generation : bool := %s.", coqBool(attGen))
	g.line("Definition gen_attempt_checks_state_identity : bool := %s.", coqBool(attIdentity))
	g.line("Definition gen_arm_stops_previous_timer : bool := %s.", coqBool(armStops))
	g.line("Definition gen_arm_takes_new_generation : bool := %s.", coqBool(armGen))
	g.line("Definition gen_timers_created_only_in_arm : bool := %s.", coqBool(onlyArm))
	g.line("Definition gen_jitter_modulus : Z := %d%%Z.", jm)
	g.line("Definition gen_jitter_divisor : string := %s%%string.", coqString(jd))
	g.line("Definition gen_jitter_offset : string := %s%%string.", coqString(jo))
	g.line("Definition gen_jitter_factor : Z := %d%%Z.", jf)
	g.line("Definition gen_manager_schedules_on_dial_failure : bool := %s.", coqBool(mgrSchedOnFail))
	g.line("Definition gen_manager_schedules_on_disconnect : bool := %s.", coqBool(mgrSchedOnDisc))
	g.line("Definition gen_manager_disconnectall_pauses : bool := %s.", coqBool(mgrPause))
	g.line("Definition gen_manager_callback_is_handle_reconnect : bool := %s.", coqBool(mgrCallback))
	for _, k := range []string{"InitialDelay", "MaxDelay", "Multiplier", "Jitter", "MaxAttempts", "KeepaliveInterval", "KeepaliveTimeout", "KeepaliveJitter"} {
		g.line("Definition gen_agent_%s_from : string := %s%%string.", k, coqString(plumb[k]))
	}
}

// peerAgentPlumbing resolves, in Agent.initComponents, the source expression of
// every field of peerCfg.ReconnectConfig and of the keepalive parameters to a
// path below a.cfg (local aliases such as `conns := a.cfg.Connections` are
// substituted). Unknown / unrecognised -> "?".
func peerAgentPlumbing() map[string]string {
	out := map[string]string{}
	for _, k := range []string{"InitialDelay", "MaxDelay", "Multiplier", "Jitter", "MaxAttempts", "KeepaliveInterval", "KeepaliveTimeout", "KeepaliveJitter"} {
		out[k] = "?"
	}
	af := parseFile("internal/agent/agent.go")
	fd := findFunc(af, "Agent", "initComponents")
	if fd == nil {
		return out
	}
	// single-assignment local aliases
	alias := map[string]string{}
	count := map[string]int{}
	ast.Inspect(fd.Body, func(n ast.Node) bool {
		if a, ok := n.(*ast.AssignStmt); ok && len(a.Lhs) == 1 && len(a.Rhs) == 1 {
			if id, ok := a.Lhs[0].(*ast.Ident); ok {
				count[id.Name]++
				if a.Tok == token.DEFINE {
					alias[id.Name] = peerNorm(src(a.Rhs[0]))
				}
			}
		}
		return true
	})
	var resolve func(e string, depth int) string
	resolve = func(e string, depth int) string {
		if depth > 5 {
			return e
		}
		root := e
		rest := ""
		if i := strings.Index(e, "."); i >= 0 {
			root, rest = e[:i], e[i:]
		}
		if v, ok := alias[root]; ok && count[root] == 1 && root != "a" {
			return resolve(v+rest, depth+1)
		}
		return e
	}
	ast.Inspect(fd.Body, func(n ast.Node) bool {
		a, ok := n.(*ast.AssignStmt)
		if !ok || len(a.Lhs) != 1 || len(a.Rhs) != 1 {
			return true
		}
		lhs := peerNorm(src(a.Lhs[0]))
		switch lhs {
		case "peerCfg.KeepaliveInterval", "peerCfg.KeepaliveTimeout", "peerCfg.KeepaliveJitter":
			out[strings.TrimPrefix(lhs, "peerCfg.")] = resolve(peerNorm(src(a.Rhs[0])), 0)
		case "peerCfg.ReconnectConfig":
			if cl, ok := a.Rhs[0].(*ast.CompositeLit); ok {
				for _, el := range cl.Elts {
					if kv, ok := el.(*ast.KeyValueExpr); ok {
						out[peerNorm(src(kv.Key))] = resolve(peerNorm(src(kv.Value)), 0)
					}
				}
			}
		}
		if strings.HasPrefix(lhs, "peerCfg.ReconnectConfig.") {
			out[strings.TrimPrefix(lhs, "peerCfg.ReconnectConfig.")] = resolve(peerNorm(src(a.Rhs[0])), 0)
		}
		return true
	})
	return out
}

// ---------------------------------------------------------------------------
// C32: registerConnection / handleDisconnect / loops / agent callback.

func genC32(g *gen) {
	mf := parseFile("internal/peer/manager.go")
	reg := findFunc(mf, "Manager", "registerConnection")
	hd := findFunc(mf, "Manager", "handleDisconnect")
	rl := findFunc(mf, "Manager", "readLoop")
	kl := findFunc(mf, "Manager", "keepaliveLoop")

	isMuLock := func(s string) bool { return strings.HasSuffix(s, ".mu.Lock") }
	isMuUnlock := func(s string) bool { return strings.HasSuffix(s, ".mu.Unlock") }
	isLcLock := func(s string) bool { return strings.HasSuffix(s, ".lifecycleMu.Lock") }
	isLcUnlock := func(s string) bool { return strings.HasSuffix(s, ".lifecycleMu.Unlock") }

	// registerConnection: duplicate check and insertion inside one m.mu section;
	// the duplicate branch closes the new connection and returns without starting loops
	regAtomic, regRejectCloses, regLifecycle := false, false, false
	if reg != nil {
		lock := peerCall(reg.Body, isMuLock)
		var dup *ast.IfStmt
		ast.Inspect(reg.Body, func(n ast.Node) bool {
			if is, ok := n.(*ast.IfStmt); ok && dup == nil && is.Init != nil && strings.Contains(peerNorm(src(is.Init)), ".peers[") && peerNorm(src(is.Cond)) == "ok" {
				dup = is
			}
			return true
		})
		ins := peerPos(reg.Body, func(n ast.Node) bool {
			a, ok := n.(*ast.AssignStmt)
			return ok && len(a.Lhs) == 1 && strings.Contains(peerNorm(src(a.Lhs[0])), ".peers[") && a.Tok == token.ASSIGN
		})
		if dup != nil && ins != token.NoPos && lock != token.NoPos {
			// no unlock between lock and the duplicate test; the only unlocks between the test and the insertion are inside returning branches
			ok := true
			ast.Inspect(reg.Body, func(n ast.Node) bool {
				if c, isCall := n.(*ast.CallExpr); isCall && isMuUnlock(peerNorm(src(c.Fun))) && c.Pos() > lock && c.Pos() < ins {
					// must be inside a block that returns (select-case or the duplicate branch)
					inReturning := false
					ast.Inspect(reg.Body, func(m ast.Node) bool {
						switch b := m.(type) {
						case *ast.BlockStmt:
							if b.Pos() <= c.Pos() && c.End() <= b.End() && b != reg.Body && peerBodyReturns(b) {
								inReturning = true
							}
						case *ast.CommClause:
							if b.Pos() <= c.Pos() && c.End() <= b.End() && len(b.Body) > 0 {
								if _, isRet := b.Body[len(b.Body)-1].(*ast.ReturnStmt); isRet {
									inReturning = true
								}
							}
						}
						return true
					})
					if !inReturning {
						ok = false
					}
				}
				return true
			})
			regAtomic = ok && lock < dup.Pos() && dup.Pos() < ins
			cl := peerCall(dup.Body, func(s string) bool { return s == "conn.Close" })
			goLoop := peerPos(dup.Body, func(n ast.Node) bool { _, ok := n.(*ast.GoStmt); return ok })
			regRejectCloses = cl != token.NoPos && peerBodyReturns(dup.Body) && goLoop == token.NoPos
		}
		lc := peerCall(reg.Body, isLcLock)
		lcu := peerCall(reg.Body, isLcUnlock)
		regLifecycle = peerBefore(lc, lock) && peerBefore(lock, lcu) && peerBefore(lcu, ins)
	}

	// handleDisconnect
	hdRemovesOnlySame, hdOnce, hdSerial := false, false, false
	if hd != nil {
		del := peerCall(hd.Body, func(s string) bool { return s == "delete" })
		ast.Inspect(hd.Body, func(n ast.Node) bool {
			if is, ok := n.(*ast.IfStmt); ok {
				c := peerNorm(src(is.Cond))
				if hasAll(c, "existing == conn") && peerCall(is.Body, func(s string) bool { return s == "delete" }) != token.NoPos {
					hdRemovesOnlySame = true
				}
			}
			return true
		})
		if del == token.NoPos {
			hdRemovesOnlySame = false
		}
		cb := peerCall(hd.Body, func(s string) bool { return strings.HasSuffix(s, ".OnPeerDisconnect") })
		// stale := conn.disconnectHandled || (ok && existing != conn); if stale { unlock; return } before the callback
		staleDef := peerPos(hd.Body, func(n ast.Node) bool {
			a, ok := n.(*ast.AssignStmt)
			return ok && len(a.Lhs) == 1 && len(a.Rhs) == 1 && peerNorm(src(a.Lhs[0])) == "stale" &&
				hasAll(peerNorm(src(a.Rhs[0])), "conn.disconnectHandled", "||", "existing != conn")
		})
		mark := peerPos(hd.Body, func(n ast.Node) bool {
			a, ok := n.(*ast.AssignStmt)
			return ok && len(a.Lhs) == 1 && len(a.Rhs) == 1 && peerNorm(src(a.Lhs[0])) == "conn.disconnectHandled" && peerNorm(src(a.Rhs[0])) == "true"
		})
		guard := peerGuard(hd.Body, func(c string) bool { return c == "stale" })
		firstUnlock := peerCall(hd.Body, isMuUnlock)
		hdOnce = peerBefore(staleDef, mark) && peerBefore(mark, guard) && peerBefore(guard, cb) && peerBefore(staleDef, firstUnlock)
		// lifecycleMu held from the start to the end (Lock first, deferred Unlock)
		lc := peerCall(hd.Body, isLcLock)
		deferred := peerPos(hd.Body, func(n ast.Node) bool {
			d, ok := n.(*ast.DeferStmt)
			return ok && isLcUnlock(peerNorm(src(d.Call.Fun)))
		})
		lock := peerCall(hd.Body, isMuLock)
		hdSerial = peerBefore(lc, lock) && peerBefore(lc, deferred) && peerBefore(deferred, lock)
	}

	// both loops report a teardown: Close then handleDisconnect
	countHD := func(fd *ast.FuncDecl) int {
		if fd == nil {
			return 0
		}
		return peerCountCalls(fd.Body, func(s string) bool { return strings.HasSuffix(s, ".handleDisconnect") })
	}

	// agent callback cleans by peer identity
	af := parseFile("internal/agent/agent.go")
	agentByID, agentChecksConn := false, false
	if fd := findFunc(af, "Agent", "handlePeerDisconnect"); fd != nil {
		byID := peerPos(fd.Body, func(n ast.Node) bool {
			a, ok := n.(*ast.AssignStmt)
			return ok && len(a.Lhs) == 1 && len(a.Rhs) == 1 && peerNorm(src(a.Lhs[0])) == "peerID" && peerNorm(src(a.Rhs[0])) == "conn.RemoteID"
		})
		r1 := peerCall(fd.Body, func(s string) bool { return strings.HasSuffix(s, ".cleanupRelaysForPeer") })
		r2 := peerCall(fd.Body, func(s string) bool { return strings.HasSuffix(s, "routeMgr.HandlePeerDisconnect") })
		agentByID = byID != token.NoPos && r1 != token.NoPos && r2 != token.NoPos
		agentChecksConn = peerCall(fd.Body, func(s string) bool { return strings.HasSuffix(s, "peerMgr.GetPeer") }) != token.NoPos
	}
	// the by-peer-id cleanup is reachable only as the manager's callback (which applies the stale /
	// once checks and the lifecycle lock): no other call site in the agent package
	otherCalls := 0
	for _, f := range parseDir("internal/agent") {
		ast.Inspect(f, func(n ast.Node) bool {
			if c, ok := n.(*ast.CallExpr); ok && strings.HasSuffix(peerNorm(src(c.Fun)), ".handlePeerDisconnect") {
				otherCalls++
			}
			return true
		})
	}
	wired := false
	if fd := findFunc(af, "Agent", "initComponents"); fd != nil {
		ast.Inspect(fd.Body, func(n ast.Node) bool {
			if a, ok := n.(*ast.AssignStmt); ok && len(a.Lhs) == 1 && len(a.Rhs) == 1 &&
				strings.HasSuffix(peerNorm(src(a.Lhs[0])), ".OnPeerDisconnect") && strings.HasSuffix(peerNorm(src(a.Rhs[0])), ".handlePeerDisconnect") {
				wired = true
			}
			return true
		})
	}

	// DisconnectAll: snapshot and map replacement in one m.mu section, before any Close
	daAtomic := false
	if fd := findFunc(mf, "Manager", "DisconnectAll"); fd != nil {
		lock := peerCall(fd.Body, isMuLock)
		unlock := peerCall(fd.Body, isMuUnlock)
		reset := peerPos(fd.Body, func(n ast.Node) bool {
			a, ok := n.(*ast.AssignStmt)
			return ok && len(a.Lhs) == 1 && strings.HasSuffix(peerNorm(src(a.Lhs[0])), ".peers") && a.Tok == token.ASSIGN
		})
		cl := peerCall(fd.Body, func(s string) bool { return strings.HasSuffix(s, "conn.Close") })
		daAtomic = peerBefore(lock, reset) && peerBefore(reset, unlock) && peerBefore(unlock, cl)
	}
	// Disconnect(id): entry deleted under m.mu
	dAtomic := false
	if fd := findFunc(mf, "Manager", "Disconnect"); fd != nil {
		lock := peerCall(fd.Body, isMuLock)
		unlock := peerCall(fd.Body, isMuUnlock)
		del := peerCall(fd.Body, func(s string) bool { return s == "delete" })
		dAtomic = peerBefore(lock, del) && peerBefore(del, unlock)
	}
	// the loops tear down their OWN connection (conn.Close), never "whatever is registered for the identity"
	loopsOwn := true
	for _, fd := range []*ast.FuncDecl{rl, kl} {
		if fd == nil {
			loopsOwn = false
			continue
		}
		if peerCountCalls(fd.Body, func(s string) bool { return strings.HasSuffix(s, ".Disconnect") || strings.HasSuffix(s, ".DisconnectAll") }) > 0 {
			loopsOwn = false
		}
		if peerCountCalls(fd.Body, func(s string) bool { return s == "conn.Close" }) < peerCountCalls(fd.Body, func(s string) bool { return strings.HasSuffix(s, ".handleDisconnect") }) {
			loopsOwn = false
		}
	}
	// the agent's cleanup runs synchronously inside the callback (so that lifecycleMu covers it)
	agentSync := false
	if fd := findFunc(af, "Agent", "handlePeerDisconnect"); fd != nil {
		agentSync = peerPos(fd.Body, func(n ast.Node) bool { _, ok := n.(*ast.GoStmt); return ok }) == token.NoPos
	}

	if reg == nil || hd == nil {
		g.note("Manager.registerConnection / handleDisconnect not found; facts set to false")
	}
	g.line("Definition gen_register_check_and_insert_atomic : bool := %s.", coqBool(regAtomic))
	g.line("Definition gen_register_reject_closes_without_loops : bool := %s.", coqBool(regRejectCloses))
	g.line("Definition gen_register_waits_for_lifecycle : bool := %s.", coqBool(regLifecycle))
	g.line("Definition gen_disconnect_removes_only_same_conn : bool := %s.", coqBool(hdRemovesOnlySame))
	g.line("Definition gen_disconnect_once_and_not_replaced : bool := %s.", coqBool(hdOnce))
	g.line("Definition gen_disconnect_holds_lifecycle : bool := %s.", coqBool(hdSerial))
	g.line("Definition gen_readloop_teardown_reports : N := %d.", countHD(rl))
	g.line("Definition gen_keepalive_teardown_reports : N := %d.", countHD(kl))
	g.line("Definition gen_agent_cleanup_by_peer_id : bool := %s.", coqBool(agentByID))
	g.line("Definition gen_agent_cleanup_checks_connection : bool := %s.", coqBool(agentChecksConn))
	g.line("Definition gen_agent_callback_wired : bool := %s.", coqBool(wired))
	g.line("Definition gen_disconnectall_snapshot_and_reset_atomic : bool := %s.", coqBool(daAtomic))
	g.line("Definition gen_disconnect_delete_under_lock : bool := %s.", coqBool(dAtomic))
	g.line("Definition gen_loops_close_their_own_connection : bool := %s.", coqBool(loopsOwn))
	g.line("Definition gen_agent_cleanup_synchronous : bool := %s.", coqBool(agentSync))
	g.line("Definition gen_agent_cleanup_direct_calls : N := %d.", otherCalls)
}
