package main

import (
	"fmt"
	"go/ast"
	"go/token"
	"strconv"
	"strings"
)

func init() { generators["C36"] = genC36 }

// byteArrayLit evaluates a composite literal of byte values ('M', 0x4d, 77).
func byteArrayLit(e ast.Expr) ([]int, bool) {
	cl, ok := e.(*ast.CompositeLit)
	if !ok {
		return nil, false
	}
	var out []int
	for _, el := range cl.Elts {
		bl, ok := el.(*ast.BasicLit)
		if !ok {
			return nil, false
		}
		switch bl.Kind {
		case token.INT:
			v, err := strconv.ParseInt(bl.Value, 0, 64)
			if err != nil || v < 0 || v > 255 {
				return nil, false
			}
			out = append(out, int(v))
		case token.CHAR:
			r, _, _, err := strconv.UnquoteChar(strings.Trim(bl.Value, "'"), '\'')
			if err != nil || r > 255 {
				return nil, false
			}
			out = append(out, int(r))
		default:
			return nil, false
		}
	}
	return out, true
}

func coqNListFs(xs []int) string {
	if len(xs) == 0 {
		return "[]"
	}
	parts := make([]string, len(xs))
	for i, x := range xs {
		parts[i] = fmt.Sprint(x)
	}
	return "[" + strings.Join(parts, "; ") + "]"
}

// lengthCheckKind classifies the guard in front of "return …, ErrConfigTooLarge"
// inside fd: 0 = no such guard, 1 = the length is compared as a signed
// int64 (int64(configLen) > …), 2 = compared unsigned against
// uint64(fileSize-FooterSize). It also reports whether the guard precedes the
// first make([]byte, …) / subtraction that uses the length.
func lengthCheckKind(fd *ast.FuncDecl) (kind int, beforeUse bool) {
	if fd == nil || fd.Body == nil {
		return 0, false
	}
	guardPos, usePos := token.NoPos, token.NoPos
	ast.Inspect(fd.Body, func(n ast.Node) bool {
		switch s := n.(type) {
		case *ast.IfStmt:
			returnsTooLarge := false
			for _, st := range s.Body.List {
				if r, ok := st.(*ast.ReturnStmt); ok {
					for _, res := range r.Results {
						if id, ok := res.(*ast.Ident); ok && id.Name == "ErrConfigTooLarge" {
							returnsTooLarge = true
						}
					}
				}
			}
			if !returnsTooLarge || guardPos != token.NoPos {
				return true
			}
			be, ok := s.Cond.(*ast.BinaryExpr)
			if !ok || (be.Op != token.GTR && be.Op != token.LSS && be.Op != token.GEQ && be.Op != token.LEQ) {
				return true
			}
			guardPos = s.Pos()
			a, b := strings.ReplaceAll(src(be.X), " ", ""), strings.ReplaceAll(src(be.Y), " ", "")
			if be.Op == token.LSS || be.Op == token.LEQ {
				a, b = b, a
			}
			switch {
			case a == "configLen" && strings.HasPrefix(b, "uint64(") && strings.Contains(b, "fileSize"):
				kind = 2
			case strings.HasPrefix(a, "int64(configLen)"):
				kind = 1
			default:
				kind = 0
			}
		case *ast.BinaryExpr:
			if s.Op == token.SUB && src(s.Y) == "int64(configLen)" && usePos == token.NoPos {
				usePos = s.Pos()
			}
		case *ast.CallExpr:
			if id, ok := s.Fun.(*ast.Ident); ok && id.Name == "make" && len(s.Args) == 2 && src(s.Args[1]) == "configLen" && usePos == token.NoPos {
				usePos = s.Pos()
			}
		}
		return true
	})
	return kind, guardPos != token.NoPos && (usePos == token.NoPos || guardPos < usePos)
}

// C36: trailer constants and the shape of the two footer-length guards.
func genC36(g *gen) {
	f := parseFile("internal/embed/embed.go")
	fs, ok := int64(0), false
	if e := constExpr(f, "FooterSize"); e != nil {
		fs, ok = intLit(e, nil)
	}
	if !ok {
		g.note("FooterSize not recognised")
	}
	magic, ok1 := byteArrayLit(constExpr(f, "Magic"))
	key, ok2 := byteArrayLit(constExpr(f, "XORKey"))
	if !ok1 || !ok2 {
		g.note("Magic / XORKey literal not recognised")
	}
	g.line("Definition gen_footer_size : Z := %d%%Z.", fs)
	g.line("Definition gen_magic : list N := %s.", coqNListFs(magic))
	g.line("Definition gen_xor_key : list N := %s.", coqNListFs(key))
	k1, b1 := lengthCheckKind(findFunc(f, "", "ReadEmbeddedConfig"))
	k2, b2 := lengthCheckKind(findFunc(f, "", "GetOriginalBinarySize"))
	g.line("(* footer-length guard: 0 = absent, 1 = signed int64 comparison, 2 = unsigned comparison against uint64(fileSize-FooterSize) *)")
	g.line("Definition gen_read_guard : N := %d.", k1)
	g.line("Definition gen_read_guard_before_use : bool := %s.", coqBool(b1))
	g.line("Definition gen_origsize_guard : N := %d.", k2)
	g.line("Definition gen_origsize_guard_before_use : bool := %s.", coqBool(b2))
	// XOR indexes the key modulo its length
	xorMod := false
	if fd := findFunc(f, "", "XOR"); fd != nil {
		s := strings.ReplaceAll(src(fd.Body), " ", "")
		xorMod = strings.Contains(s, "b^XORKey[i%keyLen]") && strings.Contains(s, "keyLen:=len(XORKey)")
	}
	g.line("Definition gen_xor_indexes_key_mod_len : bool := %s.", coqBool(xorMod))

	// Source and destination may be one file: the complete source is in memory
	// before the destination is opened (and truncated), in both writers.
	// Extracted: the source-order positions of "whole source read" and of the
	// first call that can truncate the destination, and what is written.
	firstCall := func(fd *ast.FuncDecl, match func(fun string, call *ast.CallExpr) bool) token.Pos {
		pos := token.NoPos
		if fd == nil || fd.Body == nil {
			return pos
		}
		ast.Inspect(fd.Body, func(n ast.Node) bool {
			if call, ok := n.(*ast.CallExpr); ok && pos == token.NoPos && match(strings.ReplaceAll(src(call.Fun), " ", ""), call) {
				pos = call.Pos()
			}
			return true
		})
		return pos
	}
	hasCall := func(fd *ast.FuncDecl, name string) bool {
		return firstCall(fd, func(fun string, _ *ast.CallExpr) bool { return fun == name }) != token.NoPos
	}
	ac := findFunc(f, "", "AppendConfig")
	readAll := firstCall(ac, func(fun string, c *ast.CallExpr) bool { return fun == "os.ReadFile" && len(c.Args) == 1 && src(c.Args[0]) == "srcBinary" })
	openDst := firstCall(ac, func(fun string, c *ast.CallExpr) bool {
		return (fun == "os.OpenFile" || fun == "os.Create" || fun == "os.WriteFile") && len(c.Args) >= 1 && src(c.Args[0]) == "dstBinary"
	})
	g.line("(* AppendConfig: os.ReadFile(srcBinary) comes before the destination is opened; the source is not streamed *)")
	g.line("Definition gen_append_reads_source_before_opening_dst : bool := %s.", coqBool(readAll != token.NoPos && openDst != token.NoPos && readAll < openDst))
	g.line("Definition gen_append_streams_source : bool := %s.", coqBool(hasCall(ac, "io.Copy") || hasCall(ac, "os.Open") || hasCall(ac, "io.CopyN")))
	// the destination is truncated when it is opened (an older, longer file must not shine through)
	trunc := false
	if ac != nil && ac.Body != nil {
		ast.Inspect(ac.Body, func(n ast.Node) bool {
			if call, ok := n.(*ast.CallExpr); ok && strings.ReplaceAll(src(call.Fun), " ", "") == "os.OpenFile" && len(call.Args) >= 2 && src(call.Args[0]) == "dstBinary" {
				fl := src(call.Args[1])
				trunc = strings.Contains(fl, "os.O_TRUNC") && strings.Contains(fl, "os.O_CREATE") && !strings.Contains(fl, "os.O_APPEND")
			}
			return true
		})
	}
	g.line("Definition gen_append_truncates_dst : bool := %s.", coqBool(trunc))
	cp := findFunc(f, "", "CopyBinaryWithoutConfig")
	readOrig := firstCall(cp, func(fun string, _ *ast.CallExpr) bool { return fun == "io.ReadFull" || fun == "os.ReadFile" })
	writeDst := firstCall(cp, func(fun string, c *ast.CallExpr) bool {
		return (fun == "os.WriteFile" || fun == "os.OpenFile" || fun == "os.Create") && len(c.Args) >= 1 && src(c.Args[0]) == "dstPath"
	})
	g.line("Definition gen_strip_reads_original_before_writing_dst : bool := %s.", coqBool(readOrig != token.NoPos && writeDst != token.NoPos && readOrig < writeDst))
	g.line("Definition gen_strip_streams_source : bool := %s.", coqBool(hasCall(cp, "io.Copy") || hasCall(cp, "io.CopyN")))
}
