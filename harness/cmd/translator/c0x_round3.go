package main

// Round-3 facts (crypto family):
//  - C02: which frame types peer.Manager.readLoop sends to the PARALLEL fast
//    lane (handlers that rely on one-at-a-time dispatch, e.g. the *_OPEN_ACK
//    handlers with their "open completes once" test, must stay on the
//    sequential lane);
//  - C02: crypto.SessionKey (it holds a mutex and the send counter) is only
//    ever handled through pointers: no field / parameter / variable of the
//    value type and no `*key` copy outside internal/crypto;
//  - C01: every responder derivation site uses an ephemeral keypair generated
//    by a direct crypto.GenerateEphemeralKeypair() call in the same function
//    (a cached keypair makes a replayed STREAM_OPEN reproduce the session key
//    with a fresh receive window);
//  - C01: the UDP and ICMP exit handlers make the association / session
//    visible to the datagram path only after the key exchange.

import (
	"go/ast"
	"go/token"
	"os"
	"path/filepath"
	"sort"
	"strings"
)

func r3AllDirs() []string {
	var dirs []string
	filepath.Walk(filepath.Join(repo, "internal"), func(p string, info os.FileInfo, err error) error {
		if err == nil && info.IsDir() {
			rel, _ := filepath.Rel(repo, p)
			dirs = append(dirs, rel)
		}
		return nil
	})
	sort.Strings(dirs)
	return dirs
}

func genFastLane(g *gen, name string) {
	var lanes []string
	found := false
	fd := findFuncInDir("internal/peer", "Manager", "readLoop")
	if fd != nil && fd.Body != nil {
		ast.Inspect(fd.Body, func(n ast.Node) bool {
			sw, ok := n.(*ast.SwitchStmt)
			if !ok {
				return true
			}
			for _, cl := range sw.Body.List {
				cc, ok := cl.(*ast.CaseClause)
				if !ok {
					continue
				}
				toFast := false
				for _, st := range cc.Body {
					if as, ok := st.(*ast.AssignStmt); ok && len(as.Rhs) == 1 && strings.Contains(src(as.Rhs[0]), "fastLane") {
						toFast = true
					}
				}
				if toFast {
					found = true
					for _, e := range cc.List {
						s := src(e)
						if i := strings.LastIndex(s, "."); i >= 0 {
							s = s[i+1:]
						}
						lanes = append(lanes, s)
					}
				}
			}
			return true
		})
	}
	sort.Strings(lanes)
	g.line("Definition %s_recognised : bool := %s.", name, coqBool(found))
	g.line("Definition %s : list string := %s%%string.", name, coqStrList(lanes))
}

func isSessionKeyType(e ast.Expr, inCrypto bool) bool {
	switch x := e.(type) {
	case *ast.SelectorExpr:
		if id, ok := x.X.(*ast.Ident); ok && id.Name == "crypto" && x.Sel.Name == "SessionKey" {
			return true
		}
	case *ast.Ident:
		return inCrypto && x.Name == "SessionKey"
	}
	return false
}

func genSessionKeyCopies(g *gen, name string) {
	valueUses, derefs := 0, 0
	for _, dir := range r3AllDirs() {
		inCrypto := dir == "internal/crypto"
		for _, f := range parseDir(dir) {
			// 1. value-typed declarations
			ast.Inspect(f, func(n ast.Node) bool {
				switch x := n.(type) {
				case *ast.Field:
					if isSessionKeyType(x.Type, inCrypto) {
						// receivers are pointer receivers; a value Field is a field/param/result
						valueUses++
					}
				case *ast.ValueSpec:
					if x.Type != nil && isSessionKeyType(x.Type, inCrypto) {
						valueUses++
					}
				case *ast.CompositeLit:
					if isSessionKeyType(x.Type, inCrypto) {
						// &SessionKey{...} is fine; a bare SessionKey{...} value is a copy source
						// (handled by the parent check below)
					}
				case *ast.ArrayType:
					if isSessionKeyType(x.Elt, inCrypto) {
						valueUses++
					}
				case *ast.MapType:
					if isSessionKeyType(x.Value, inCrypto) {
						valueUses++
					}
				case *ast.ChanType:
					if isSessionKeyType(x.Value, inCrypto) {
						valueUses++
					}
				}
				return true
			})
			// 2. dereference copies: *k where k is known to be a *SessionKey
			for _, d := range f.Decls {
				fd, ok := d.(*ast.FuncDecl)
				if !ok || fd.Body == nil {
					continue
				}
				ptrs := map[string]bool{}
				addFields := func(fl *ast.FieldList) {
					if fl == nil {
						return
					}
					for _, fld := range fl.List {
						if st, ok := fld.Type.(*ast.StarExpr); ok && isSessionKeyType(st.X, inCrypto) {
							for _, n := range fld.Names {
								ptrs[n.Name] = true
							}
						}
					}
				}
				addFields(fd.Type.Params)
				addFields(fd.Type.Results)
				addFields(fd.Recv)
				ast.Inspect(fd.Body, func(n ast.Node) bool {
					if as, ok := n.(*ast.AssignStmt); ok && len(as.Rhs) == 1 {
						r := src(as.Rhs[0])
						if strings.Contains(r, "DeriveSessionKey(") || strings.Contains(r, "GetSessionKey()") || strings.HasSuffix(strings.ToLower(r), "sessionkey") {
							if id, ok := as.Lhs[0].(*ast.Ident); ok {
								ptrs[id.Name] = true
							}
						}
					}
					return true
				})
				ast.Inspect(fd.Body, func(n ast.Node) bool {
					st, ok := n.(*ast.StarExpr)
					if !ok {
						return true
					}
					switch x := st.X.(type) {
					case *ast.Ident:
						if ptrs[x.Name] {
							derefs++
						}
					case *ast.SelectorExpr:
						if strings.EqualFold(x.Sel.Name, "sessionKey") {
							derefs++
						}
					case *ast.CallExpr:
						s := src(x.Fun)
						if strings.HasSuffix(s, "DeriveSessionKey") || strings.HasSuffix(s, "GetSessionKey") {
							derefs++
						}
					}
					return true
				})
			}
		}
	}
	g.line("Definition %s_value_typed_uses : N := %d.", name, valueUses)
	g.line("Definition %s_dereference_copies : N := %d.", name, derefs)
}

// responder sites: own keypair generated by a direct call in the same function
func genFreshKeypairs(g *gen, name string) {
	sites, _ := scanKeySites()
	g.line("(* responder derivation sites: (kind, function, its ECDH private key is the first result of a")
	g.line("   crypto.GenerateEphemeralKeypair() call made in that same function, and that function stores")
	g.line("   no keypair in a struct field or package variable) *)")
	g.line("Definition %s : list (string * string * bool) := [", name)
	var rows []string
	for _, s := range sites {
		if s.flag != 0 {
			continue
		}
		dir := s.file[:len(s.file)-len("/"+baseName(s.file))]
		fd := findFuncAnyRecv(dir, s.fn)
		fresh := false
		if fd != nil {
			defs := defsIn(fd)
			// the ECDH call whose result feeds this site
			ast.Inspect(fd.Body, func(n ast.Node) bool {
				call, ok := n.(*ast.CallExpr)
				if !ok {
					return true
				}
				if _, ok := isCryptoCall(call, "ComputeECDH", false); ok && len(call.Args) == 2 {
					if id, ok := call.Args[0].(*ast.Ident); ok {
						if d, ok := defs[id.Name]; ok && d.origin == "keypair0" {
							fresh = true
						}
					}
				}
				return true
			})
			// the generated keypair must not be stored outside the function
			ast.Inspect(fd.Body, func(n ast.Node) bool {
				as, ok := n.(*ast.AssignStmt)
				if !ok || len(as.Rhs) != 1 {
					return true
				}
				if _, ok := isCryptoCall(as.Rhs[0], "GenerateEphemeralKeypair", false); ok {
					for _, l := range as.Lhs {
						if _, isSel := l.(*ast.SelectorExpr); isSel {
							fresh = false
						}
					}
				}
				return true
			})
		}
		rows = append(rows, "  ("+coqString(s.kind)+", "+coqString(s.fn)+", "+coqBool(fresh)+")")
	}
	g.line("%s", strings.Join(rows, ";\n"))
	g.line("]%%string.")
}

// exit handlers: registration in the lookup table after the key exchange call
func genRegisterAfterKeyExchange(g *gen, name string) {
	g.line("(* (package, open handler, the table the datagram path looks sessions up in is written only AFTER the key exchange call) *)")
	g.line("Definition %s : list (string * string * bool) := [", name)
	var rows []string
	for _, h := range [][3]string{{"internal/udp", "HandleUDPOpen", "associations"}, {"internal/icmp", "HandleICMPOpen", "sessions"}} {
		fd := findFuncInDir(h[0], "Handler", h[1])
		ok := false
		if fd != nil && fd.Body != nil {
			var kx token.Pos
			ast.Inspect(fd.Body, func(n ast.Node) bool {
				if call, isCall := n.(*ast.CallExpr); isCall {
					if sel, isSel := call.Fun.(*ast.SelectorExpr); isSel && sel.Sel.Name == "performKeyExchange" && kx == 0 {
						kx = call.Pos()
					}
				}
				return true
			})
			writes, early := 0, 0
			ast.Inspect(fd.Body, func(n ast.Node) bool {
				as, isAs := n.(*ast.AssignStmt)
				if !isAs {
					return true
				}
				for _, l := range as.Lhs {
					if ix, isIx := l.(*ast.IndexExpr); isIx {
						if sel, isSel := ix.X.(*ast.SelectorExpr); isSel && sel.Sel.Name == h[2] {
							writes++
							if kx == 0 || as.Pos() < kx {
								early++
							}
						}
					}
				}
				return true
			})
			ok = kx != 0 && writes > 0 && early == 0
		}
		rows = append(rows, "  ("+coqString(h[0])+", "+coqString(h[1])+", "+coqBool(ok)+")")
	}
	g.line("%s", strings.Join(rows, ";\n"))
	g.line("]%%string.")
}
