package main

// C03 facts about identifiers and key bytes around the derivation sites:
//  - stream.Manager allocates request ids with one atomic Add and touches the
//    counter in no other way (Load+Store hands the same id to two concurrent
//    opens);
//  - no function that contains a DeriveSessionKey site writes to the remote
//    public key it received (masking or normalising it before salting makes
//    the two ends salt with different bytes).

import (
	"go/ast"
	"go/token"
	"strings"
)

func genC03IDs(g *gen) {
	adds, others, fieldAtomic := 0, 0, false
	for _, f := range parseDir("internal/stream") {
		for _, d := range f.Decls {
			switch x := d.(type) {
			case *ast.GenDecl:
				for _, sp := range x.Specs {
					ts, ok := sp.(*ast.TypeSpec)
					if !ok || ts.Name.Name != "Manager" {
						continue
					}
					if st, ok := ts.Type.(*ast.StructType); ok {
						for _, fl := range st.Fields.List {
							for _, n := range fl.Names {
								if n.Name == "nextRequestID" && src(fl.Type) == "atomic.Uint64" {
									fieldAtomic = true
								}
							}
						}
					}
				}
			case *ast.FuncDecl:
				if x.Body == nil {
					continue
				}
				addSel := map[token.Pos]bool{}
				ast.Inspect(x.Body, func(n ast.Node) bool {
					if call, ok := n.(*ast.CallExpr); ok {
						if sel, ok := call.Fun.(*ast.SelectorExpr); ok && sel.Sel.Name == "Add" {
							if inner, ok := sel.X.(*ast.SelectorExpr); ok && inner.Sel.Name == "nextRequestID" {
								if v, ok := intLit(call.Args[0], nil); ok && v == 1 && len(call.Args) == 1 {
									adds++
									addSel[inner.Pos()] = true
								}
							}
						}
					}
					return true
				})
				ast.Inspect(x.Body, func(n ast.Node) bool {
					if sel, ok := n.(*ast.SelectorExpr); ok && sel.Sel.Name == "nextRequestID" && !addSel[sel.Pos()] {
						others++
					}
					return true
				})
			}
		}
	}
	g.line("Definition gen_c03_request_id_counter_is_atomic_uint64 : bool := %s.", coqBool(fieldAtomic))
	g.line("Definition gen_c03_request_id_atomic_add_calls : N := %d.", adds)
	g.line("Definition gen_c03_request_id_other_uses : N := %d.", others)

	// writes to a remote public key in functions that contain a site
	sites, _ := scanKeySites()
	seen := map[string]bool{}
	muts := 0
	for _, s := range sites {
		dir := s.file[:len(s.file)-len("/"+baseName(s.file))]
		key := dir + ":" + s.fn
		if seen[key] {
			continue
		}
		seen[key] = true
		fd := findFuncAnyRecv(dir, s.fn)
		if fd == nil {
			continue
		}
		defs := defsIn(fd)
		isRemote := func(e ast.Expr) bool {
			for {
				switch x := e.(type) {
				case *ast.IndexExpr:
					e = x.X
					continue
				case *ast.SliceExpr:
					e = x.X
					continue
				case *ast.ParenExpr:
					e = x.X
					continue
				}
				break
			}
			switch e.(type) {
			case *ast.Ident, *ast.SelectorExpr:
				return classify(e, defs) == clsRemotePub
			}
			return false
		}
		ast.Inspect(fd.Body, func(n ast.Node) bool {
			switch st := n.(type) {
			case *ast.AssignStmt:
				if st.Tok == token.DEFINE {
					return true
				}
				for _, l := range st.Lhs {
					if isRemote(l) {
						muts++
					}
				}
			case *ast.IncDecStmt:
				if isRemote(st.X) {
					muts++
				}
			case *ast.CallExpr:
				// copy(remote[:], ...) / ZeroKey(&remote)
				name := src(st.Fun)
				if (name == "copy" || strings.HasSuffix(name, "ZeroKey")) && len(st.Args) >= 1 {
					a := st.Args[0]
					if u, ok := a.(*ast.UnaryExpr); ok && u.Op == token.AND {
						a = u.X
					}
					if isRemote(a) {
						muts++
					}
				}
			}
			return true
		})
	}
	g.line("Definition gen_c03_remote_key_writes_in_site_functions : N := %d.", muts)
}
