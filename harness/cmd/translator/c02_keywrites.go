package main

// C02, class "a tunnel session's SessionKey object is installed exactly once":
// every place outside internal/crypto that stores a non-nil session key —
// direct writes of a field named SessionKey/sessionKey and calls of a
// SetSessionKey method — with the reason why it cannot run twice for one
// session.
//
//   1 = the function returns before the write when the open handshake has
//       already completed (`select { case <-x.PendingOpen: return ... }`) or
//       when a key is already present (`if x.SessionKey != nil { return }`)
//   2 = the object written to was created in the same function (fresh)
//   3 = the object comes from a one-shot result received from a channel in
//       the same function (the pending request is consumed by the first ACK)
//   4 = the object is a parameter and every caller passes a fresh object
//   0 = none of these: a repeated frame could replace the key

import (
	"go/ast"
	"go/token"
	"os"
	"path/filepath"
	"sort"
	"strings"
)

type keyWrite struct {
	file, fn, how string
	class         int
	line          int
}

func kwBaseIdent(e ast.Expr) *ast.Ident {
	for {
		switch x := e.(type) {
		case *ast.SelectorExpr:
			e = x.X
		case *ast.ParenExpr:
			e = x.X
		case *ast.StarExpr:
			e = x.X
		case *ast.Ident:
			return x
		default:
			return nil
		}
	}
}

func kwIsNilIdent(e ast.Expr) bool {
	id, ok := e.(*ast.Ident)
	return ok && id.Name == "nil"
}

func kwEndsInReturn(b []ast.Stmt) bool {
	if len(b) == 0 {
		return false
	}
	_, ok := b[len(b)-1].(*ast.ReturnStmt)
	return ok
}

// kwGuardedBefore: does fd contain, before pos, an early return on "open already
// completed" / "key already present" for the object named base?
func kwGuardedBefore(fd *ast.FuncDecl, base string, pos token.Pos) bool {
	found := false
	ast.Inspect(fd.Body, func(n ast.Node) bool {
		if n == nil || n.Pos() > pos {
			return true
		}
		switch s := n.(type) {
		case *ast.SelectStmt:
			for _, cl := range s.Body.List {
				cc, ok := cl.(*ast.CommClause)
				if !ok || cc.Comm == nil || !kwEndsInReturn(cc.Body) {
					continue
				}
				var rx ast.Expr
				switch c := cc.Comm.(type) {
				case *ast.ExprStmt:
					rx = c.X
				case *ast.AssignStmt:
					if len(c.Rhs) == 1 {
						rx = c.Rhs[0]
					}
				}
				if u, ok := rx.(*ast.UnaryExpr); ok && u.Op == token.ARROW {
					if sel, ok := u.X.(*ast.SelectorExpr); ok && sel.Sel.Name == "PendingOpen" {
						if b := kwBaseIdent(sel.X); b != nil && b.Name == base && s.End() < pos {
							found = true
						}
					}
				}
			}
		case *ast.IfStmt:
			if be, ok := s.Cond.(*ast.BinaryExpr); ok && be.Op == token.NEQ && kwIsNilIdent(be.Y) && kwEndsInReturn(s.Body.List) && s.End() < pos {
				if sel, ok := be.X.(*ast.SelectorExpr); ok && strings.EqualFold(sel.Sel.Name, "sessionKey") {
					if b := kwBaseIdent(sel.X); b != nil && b.Name == base {
						found = true
					}
				}
			}
		}
		return true
	})
	return found
}

// kwOriginOf classifies where the object named base comes from inside fd.
func kwOriginOf(fd *ast.FuncDecl, base string) string {
	for _, fl := range fd.Type.Params.List {
		for _, n := range fl.Names {
			if n.Name == base {
				return "param"
			}
		}
	}
	origin := "other"
	ast.Inspect(fd.Body, func(n ast.Node) bool {
		switch s := n.(type) {
		case *ast.AssignStmt:
			for i, l := range s.Lhs {
				id, ok := l.(*ast.Ident)
				if !ok || id.Name != base {
					continue
				}
				var r ast.Expr
				if len(s.Rhs) == len(s.Lhs) {
					r = s.Rhs[i]
				} else if len(s.Rhs) == 1 {
					r = s.Rhs[0]
				}
				switch x := r.(type) {
				case *ast.UnaryExpr:
					if x.Op == token.ARROW {
						origin = "oneshot"
					} else if x.Op == token.AND {
						if _, ok := x.X.(*ast.CompositeLit); ok {
							origin = "fresh"
						}
					}
				case *ast.CompositeLit:
					origin = "fresh"
				case *ast.CallExpr:
					name := ""
					switch f := x.Fun.(type) {
					case *ast.Ident:
						name = f.Name
					case *ast.SelectorExpr:
						name = f.Sel.Name
					}
					if strings.HasPrefix(name, "New") || strings.HasPrefix(name, "new") {
						origin = "fresh"
					}
				}
			}
		}
		return true
	})
	return origin
}

// kwCallersPassFresh: every call of fd (same package) passes, at the position
// of parameter base, an object created in the calling function.
func kwCallersPassFresh(dir string, fd *ast.FuncDecl, base string) bool {
	idx, i := -1, 0
	for _, fl := range fd.Type.Params.List {
		for _, n := range fl.Names {
			if n.Name == base {
				idx = i
			}
			i++
		}
	}
	if idx < 0 || ast.IsExported(fd.Name.Name) {
		return false
	}
	calls, ok := 0, true
	for _, f := range parseDir(dir) {
		for _, d := range f.Decls {
			caller, isFn := d.(*ast.FuncDecl)
			if !isFn || caller.Body == nil || caller == fd {
				continue
			}
			ast.Inspect(caller.Body, func(n ast.Node) bool {
				call, isCall := n.(*ast.CallExpr)
				if !isCall {
					return true
				}
				name := ""
				switch fn := call.Fun.(type) {
				case *ast.Ident:
					name = fn.Name
				case *ast.SelectorExpr:
					name = fn.Sel.Name
				}
				if name != fd.Name.Name || idx >= len(call.Args) {
					return true
				}
				calls++
				b := kwBaseIdent(call.Args[idx])
				if b == nil || kwOriginOf(caller, b.Name) != "fresh" {
					ok = false
				}
				return true
			})
		}
	}
	return ok && calls > 0
}

func scanKeyWrites() []keyWrite {
	var out []keyWrite
	var dirs []string
	filepath.Walk(filepath.Join(repo, "internal"), func(p string, info os.FileInfo, err error) error {
		if err == nil && info.IsDir() {
			rel, _ := filepath.Rel(repo, p)
			dirs = append(dirs, rel)
		}
		return nil
	})
	sort.Strings(dirs)
	for _, dir := range dirs {
		if dir == "internal/crypto" {
			continue
		}
		for _, f := range parseDir(dir) {
			for _, d := range f.Decls {
				fd, ok := d.(*ast.FuncDecl)
				if !ok || fd.Body == nil || fd.Name.Name == "SetSessionKey" {
					continue
				}
				classify := func(target ast.Expr, pos token.Pos, how string) {
					b := kwBaseIdent(target)
					kw := keyWrite{file: relFile(f), fn: fd.Name.Name, how: how, line: fset.Position(pos).Line}
					if b != nil {
						switch {
						case kwGuardedBefore(fd, b.Name, pos):
							kw.class = 1
						case kwOriginOf(fd, b.Name) == "fresh":
							kw.class = 2
						case kwOriginOf(fd, b.Name) == "oneshot":
							kw.class = 3
						case kwOriginOf(fd, b.Name) == "param" && kwCallersPassFresh(dir, fd, b.Name):
							kw.class = 4
						}
					}
					out = append(out, kw)
				}
				ast.Inspect(fd.Body, func(n ast.Node) bool {
					switch s := n.(type) {
					case *ast.AssignStmt:
						for i, l := range s.Lhs {
							sel, ok := l.(*ast.SelectorExpr)
							if !ok || !strings.EqualFold(sel.Sel.Name, "sessionKey") {
								continue
							}
							if len(s.Rhs) == len(s.Lhs) && kwIsNilIdent(s.Rhs[i]) {
								continue // teardown
							}
							classify(sel.X, s.Pos(), "field")
						}
					case *ast.CallExpr:
						if sel, ok := s.Fun.(*ast.SelectorExpr); ok && sel.Sel.Name == "SetSessionKey" && len(s.Args) == 1 && !kwIsNilIdent(s.Args[0]) {
							classify(sel.X, s.Pos(), "setter")
						}
					}
					return true
				})
			}
		}
	}
	sort.Slice(out, func(i, j int) bool {
		if out[i].file != out[j].file {
			return out[i].file < out[j].file
		}
		return out[i].line < out[j].line
	})
	return out
}

func genC02KeyWrites(g *gen) { genKeyWritesNamed(g, "gen_c02_key_writes") }

func genKeyWritesNamed(g *gen, name string) {
	ws := scanKeyWrites()
	g.line("(* every store of a non-nil session key outside internal/crypto: (function, \"field\" | \"setter\", class);")
	g.line("   class 1 = early return when the open already completed / a key is present, 2 = object created in the same function,")
	g.line("   3 = object from a one-shot channel result, 4 = parameter, all callers pass a fresh object, 0 = unprotected *)")
	g.line("Definition %s : list (string * string * N) := [", name)
	for i, w := range ws {
		sep := ";"
		if i == len(ws)-1 {
			sep = ""
		}
		g.line("  (%s, %s, %d)%s", coqString(w.fn), coqString(w.how), w.class, sep)
	}
	g.line("]%%string.")
}
