package main

import (
	"fmt"
	"go/ast"
	"strings"
)

func init() { generators["C23"] = genC23 }

// C23: the protocol constants of the SOCKS5 front end, the error -> reply
// table, the shape of the request parser's address switch and of the command
// dispatch, and the lengths a bound address can have when it comes back from
// the mesh (the reply encoder writes whatever length it is given).
func genC23(g *gen) {
	hf := parseFile("internal/socks5/handler.go")
	consts := map[string]int64{}
	for _, n := range []string{"SOCKS5Version", "CmdConnect", "CmdBind", "CmdUDPAssociate", "CmdICMPEcho", "AddrTypeIPv4", "AddrTypeDomain", "AddrTypeIPv6",
		"ReplySucceeded", "ReplyServerFailure", "ReplyNotAllowed", "ReplyNetworkUnreachable", "ReplyHostUnreachable", "ReplyConnectionRefused",
		"ReplyTTLExpired", "ReplyCmdNotSupported", "ReplyAddrNotSupported"} {
		if v, ok := intConst(hf, n); ok {
			consts[n] = v
		} else {
			g.note("constant %s not found", n)
			consts[n] = 999
		}
	}
	val := func(expr string) int64 {
		if v, ok := consts[expr]; ok {
			return v
		}
		return 999
	}
	g.line("Definition gen_version : N := %d.", consts["SOCKS5Version"])
	g.line("Definition gen_cmd_connect : N := %d.", consts["CmdConnect"])
	g.line("Definition gen_cmd_udp : N := %d.", consts["CmdUDPAssociate"])
	g.line("Definition gen_cmd_icmp : N := %d.", consts["CmdICMPEcho"])
	g.line("Definition gen_rep_succeeded : N := %d.", consts["ReplySucceeded"])
	g.line("Definition gen_rep_server_failure : N := %d.", consts["ReplyServerFailure"])
	g.line("Definition gen_rep_host_unreachable : N := %d.", consts["ReplyHostUnreachable"])
	g.line("Definition gen_rep_ttl_expired : N := %d.", consts["ReplyTTLExpired"])
	g.line("Definition gen_rep_cmd_not_supported : N := %d.", consts["ReplyCmdNotSupported"])
	g.line("Definition gen_rep_addr_not_supported : N := %d.", consts["ReplyAddrNotSupported"])

	// mapErrorToReply: the return values in source order
	var rets []string
	if fd := findFunc(hf, "", "mapErrorToReply"); fd != nil && fd.Body != nil {
		ast.Inspect(fd.Body, func(n ast.Node) bool {
			if r, ok := n.(*ast.ReturnStmt); ok && len(r.Results) == 1 {
				rets = append(rets, fmt.Sprint(val(src(r.Results[0]))))
			}
			return true
		})
	}
	g.line("(* mapErrorToReply returns, in source order: DNS error, OpError timeout, OpError dial, anything else *)")
	g.line("Definition gen_error_replies : list N := [%s].", strings.Join(rets, "; "))

	// readRequest: switch req.AddrType { case IPv4: 4 bytes; case Domain: ...; case IPv6: 16 bytes; default: sendReply(AddrNotSupported) }
	var atyps []string
	defaultRep, zeroDomainRep := int64(999), int64(999)
	if fd := findFunc(hf, "Handler", "readRequest"); fd != nil && fd.Body != nil {
		ast.Inspect(fd.Body, func(n ast.Node) bool {
			sw, ok := n.(*ast.SwitchStmt)
			if !ok || !strings.HasSuffix(src(sw.Tag), ".AddrType") {
				return true
			}
			for _, c := range sw.Body.List {
				cc := c.(*ast.CaseClause)
				if len(cc.List) == 0 {
					calls(&ast.BlockStmt{List: cc.Body}, func(call *ast.CallExpr) {
						if strings.HasSuffix(calleeName(call), ".sendReply") && len(call.Args) >= 2 {
							defaultRep = val(src(call.Args[1]))
						}
					})
					continue
				}
				t := val(src(cc.List[0]))
				size := int64(-1) // variable length
				calls(&ast.BlockStmt{List: cc.Body}, func(call *ast.CallExpr) {
					if calleeName(call) == "make" && len(call.Args) == 2 && src(call.Args[0]) == "[]byte" {
						if v, ok := intLit(call.Args[1], nil); ok && v != 1 && size == -1 {
							size = v
						}
					}
					if strings.HasSuffix(calleeName(call), ".sendReply") && len(call.Args) >= 2 && t == consts["AddrTypeDomain"] {
						zeroDomainRep = val(src(call.Args[1]))
					}
				})
				if size < 0 {
					size = 0
				}
				atyps = append(atyps, fmt.Sprintf("(%d, %d)", t, size))
			}
			return false
		})
	}
	g.line("(* address types the parser accepts with their fixed lengths (0 = length-prefixed) *)")
	g.line("Definition gen_address_types : list (N * N) := [%s].", strings.Join(atyps, "; "))
	g.line("Definition gen_unknown_address_type_reply : N := %d.", defaultRep)
	g.line("Definition gen_zero_length_domain_reply : N := %d.", zeroDomainRep)

	// Handle: switch req.Command { case CmdConnect, CmdUDPAssociate, CmdICMPEcho; default: sendReply(CmdNotSupported) }
	var cmds []string
	cmdDefault := int64(999)
	authBeforeRequest := false
	if fd := findFunc(hf, "Handler", "Handle"); fd != nil && fd.Body != nil {
		pa, pr := posOfCall(fd.Body, ".authenticate"), posOfCall(fd.Body, ".readRequest")
		authBeforeRequest = pa.IsValid() && pr.IsValid() && pa < pr
		ast.Inspect(fd.Body, func(n ast.Node) bool {
			sw, ok := n.(*ast.SwitchStmt)
			if !ok || !strings.HasSuffix(src(sw.Tag), ".Command") {
				return true
			}
			for _, c := range sw.Body.List {
				cc := c.(*ast.CaseClause)
				if len(cc.List) == 0 {
					calls(&ast.BlockStmt{List: cc.Body}, func(call *ast.CallExpr) {
						if strings.HasSuffix(calleeName(call), ".sendReply") && len(call.Args) >= 2 {
							cmdDefault = val(src(call.Args[1]))
						}
					})
					continue
				}
				for _, e := range cc.List {
					cmds = append(cmds, fmt.Sprint(val(src(e))))
				}
			}
			return false
		})
	}
	g.line("Definition gen_commands : list N := [%s].", strings.Join(cmds, "; "))
	g.line("Definition gen_unknown_command_reply : N := %d.", cmdDefault)
	g.line("Definition gen_authenticate_precedes_read_request : bool := %s.", coqBool(authBeforeRequest))

	// handleConnect: exactly one dial, its address is JoinHostPort(req.DestAddr, Itoa(req.DestPort))
	dialExact := false
	if fd := findFunc(hf, "Handler", "handleConnect"); fd != nil && fd.Body != nil {
		addrVar := ""
		ast.Inspect(fd.Body, func(n ast.Node) bool {
			if as, ok := n.(*ast.AssignStmt); ok && len(as.Lhs) == 1 && len(as.Rhs) == 1 {
				r := strings.ReplaceAll(src(as.Rhs[0]), " ", "")
				if r == "net.JoinHostPort(req.DestAddr,strconv.Itoa(int(req.DestPort)))" {
					addrVar = src(as.Lhs[0])
				}
			}
			return true
		})
		n := 0
		good := 0
		calls(fd.Body, func(c *ast.CallExpr) {
			name := calleeName(c)
			if strings.HasSuffix(name, "dialer.DialContext") || strings.HasSuffix(name, "dialer.Dial") {
				n++
				if addrVar != "" && len(c.Args) >= 2 && src(c.Args[len(c.Args)-1]) == addrVar {
					good++
				}
			}
		})
		dialExact = n == 1 && good == 1
	}
	g.line("Definition gen_connect_dials_join_of_request_addr_and_port : bool := %s.", coqBool(dialExact))

	// bound address lengths coming back from the mesh
	var lens []string
	pf := parseFile("internal/protocol/frame.go")
	if fd := findFunc(pf, "", "DecodeStreamOpenAck"); fd != nil && fd.Body != nil {
		ast.Inspect(fd.Body, func(n ast.Node) bool {
			sw, ok := n.(*ast.SwitchStmt)
			if !ok || !strings.HasSuffix(src(sw.Tag), ".BoundAddrType") {
				return true
			}
			for _, c := range sw.Body.List {
				cc := c.(*ast.CaseClause)
				for _, st := range cc.Body {
					if as, ok := st.(*ast.AssignStmt); ok && len(as.Lhs) == 1 && src(as.Lhs[0]) == "addrLen" {
						if v, ok := intLit(as.Rhs[0], nil); ok {
							lens = append(lens, fmt.Sprint(v))
						}
					}
				}
			}
			return false
		})
	}
	g.line("Definition gen_mesh_bound_address_lengths : list N := [%s].", strings.Join(lens, "; "))
	nilConv := false
	af := parseFile("internal/agent/agent.go")
	if fd := findFunc(af, "Agent", "handleStreamOpenAck"); fd != nil && fd.Body != nil {
		ast.Inspect(fd.Body, func(n ast.Node) bool {
			if is, ok := n.(*ast.IfStmt); ok && strings.ReplaceAll(src(is.Cond), " ", "") == "len(ack.BoundAddr)>0" && strings.Contains(src(is.Body), "boundIP = net.IP(ack.BoundAddr)") {
				nilConv = true
			}
			return true
		})
	}
	g.line("Definition gen_empty_bound_address_becomes_nil : bool := %s.", coqBool(nilConv))

	// buffers: readRequest fills only buffers it allocates itself (nothing pooled or shared escapes into the
	// Request), sendReply encodes into a local buffer, and the Handler carries no scratch buffer
	g.line("Definition gen_read_request_buffers_are_fresh : bool := %s.", coqBool(freshBuffers(findFunc(hf, "Handler", "readRequest"), false)))
	g.line("Definition gen_send_reply_buffer_is_local : bool := %s.", coqBool(freshBuffers(findFunc(hf, "Handler", "sendReply"), true)))
	g.line("Definition gen_handler_has_no_shared_buffer_field : bool := %s.", coqBool(!structHasBufferField(hf, "Handler")))
	noRecover := true
	for _, fn := range []string{"Handle", "authenticate"} {
		if fd := findFunc(hf, "Handler", fn); fd != nil && fd.Body != nil {
			calls(fd.Body, func(c *ast.CallExpr) {
				if calleeName(c) == "recover" {
					noRecover = false
				}
			})
		} else {
			noRecover = false
		}
	}
	g.line("Definition gen_handle_does_not_swallow_panics : bool := %s.", coqBool(noRecover))
}
