package main

import (
	"go/ast"
	"go/token"
)

func init() {
	generators["C02"] = genC02
	generators["C01"] = genC01
}

// C02: the send nonce layout, what the lock region of Encrypt contains, who
// else writes the send counter, and the role flag at every derivation site.
func genC02(g *gen) {
	f := parseFile("internal/crypto/crypto.go")
	sp := noncePrefix("buildSendNonce")
	if !sp.ok {
		g.note("buildSendNonce: pattern not recognised")
	}
	g.line("Definition gen_c02_send_prefix_initiator : list N := %s.", coqNList(sp.initiator[:]))
	g.line("Definition gen_c02_send_prefix_responder : list N := %s.", coqNList(sp.responder[:]))
	g.line("Definition gen_c02_send_pattern_recognised : bool := %s.", coqBool(sp.ok))
	g.line("Definition gen_c02_counter_offset : N := %s.", itoa(sp.counterOffset))
	g.line("Definition gen_c02_counter_field : string := %s%%string.", coqString(sp.counterField))
	g.line("Definition gen_c02_counter_big_endian_u64 : bool := %s.", coqBool(sp.bigEndian))
	g.line("Definition gen_c02_nonce_is_array_copy : bool := %s.", coqBool(sp.returnsArray))
	ns := int64(-1)
	if v, ok := intLit(constExpr(f, "NonceSize"), nil); ok {
		ns = v
	}
	g.line("Definition gen_c02_nonce_size : N := %s.", itoa(ns))

	// Encrypt: Lock ... Unlock region at the top level of the body
	hasBuild, hasIncr, refsOutside, incrAmount := false, false, int64(0), int64(0)
	buildCallsOutside := int64(0)
	fd := findFunc(f, "SessionKey", "Encrypt")
	if fd != nil && fd.Body != nil {
		for _, p := range callPositions(fd, func(c *ast.CallExpr) bool {
			sel, ok := c.Fun.(*ast.SelectorExpr)
			return ok && sel.Sel.Name == "buildSendNonce"
		}) {
			if lockedAt(fd, p) {
				hasBuild = true
			} else {
				buildCallsOutside++
			}
		}
		ast.Inspect(fd.Body, func(n ast.Node) bool {
			switch s := n.(type) {
			case *ast.IncDecStmt:
				if sel, ok := s.X.(*ast.SelectorExpr); ok && sel.Sel.Name == "sendNonce" && s.Tok == token.INC && lockedAt(fd, s.Pos()) {
					hasIncr = true
					incrAmount++
				}
			case *ast.AssignStmt:
				if len(s.Lhs) == 1 && len(s.Rhs) == 1 {
					if sel, ok := s.Lhs[0].(*ast.SelectorExpr); ok && sel.Sel.Name == "sendNonce" && s.Tok == token.ADD_ASSIGN && lockedAt(fd, s.Pos()) {
						if v, ok := intLit(s.Rhs[0], nil); ok {
							hasIncr = true
							incrAmount += v
						}
					}
				}
			}
			return true
		})
		for _, p := range fieldRefs(fd, "sendNonce") {
			if !lockedAt(fd, p) {
				refsOutside++
			}
		}
	} else {
		g.note("Encrypt not found")
	}
	g.line("Definition gen_c02_lock_region_builds_nonce : bool := %s.", coqBool(hasBuild))
	g.line("Definition gen_c02_lock_region_increments : bool := %s.", coqBool(hasIncr))
	g.line("Definition gen_c02_increment_amount : N := %s.", itoa(incrAmount))
	g.line("Definition gen_c02_send_counter_refs_outside_lock : N := %s.", itoa(refsOutside))
	g.line("Definition gen_c02_build_calls_outside_lock : N := %s.", itoa(buildCallsOutside))
	g.line("Definition gen_c02_send_counter_writers : list string := %s%%string.", coqStrList(writersOf("sendNonce")))
	g.line("Definition gen_c02_role_flag_writers : list string := %s%%string.", coqStrList(roleFlagWriters()))

	// role flag at every derivation site: (kind, function, role implied by the
	// key argument order: 1 initiator / 0 responder / 2 unknown, literal flag)
	sites, _ := scanKeySites()
	g.line("Definition gen_c02_site_flags : list (string * string * N * N) := [")
	for i, s := range sites {
		role := 2
		if s.a == clsOwnPub && s.b == clsRemotePub {
			role = 1
		} else if s.a == clsRemotePub && s.b == clsOwnPub {
			role = 0
		}
		sep := ";"
		if i == len(sites)-1 {
			sep = ""
		}
		g.line("  (%s, %s, %d, %d)%s", coqString(s.kind), coqString(s.fn), role, s.flag, sep)
	}
	g.line("]%%string.")
	genC02KeyWrites(g)
	genAEADFacts(g, "gen_c02_aead")
	genFastLane(g, "gen_c02_fast_lane_types")
	genSessionKeyCopies(g, "gen_c02_session_key")
}

// roleFlagWriters: functions of internal/crypto that set isInitiator (by
// assignment or in a SessionKey composite literal).
func roleFlagWriters() []string {
	var out []string
	for _, f := range parseDir("internal/crypto") {
		for _, d := range f.Decls {
			fd, ok := d.(*ast.FuncDecl)
			if !ok || fd.Body == nil {
				continue
			}
			w := len(fieldWrites(fd, "isInitiator")) > 0
			ast.Inspect(fd.Body, func(n ast.Node) bool {
				if kv, ok := n.(*ast.KeyValueExpr); ok {
					if id, ok := kv.Key.(*ast.Ident); ok && id.Name == "isInitiator" {
						w = true
					}
				}
				return true
			})
			if w {
				out = append(out, fd.Name.Name)
			}
		}
	}
	return out
}

// C01: the receive prefix layout and where Decrypt writes the receive counter
// relative to the AEAD open.
func genC01(g *gen) {
	f := parseFile("internal/crypto/crypto.go")
	rp := noncePrefix("buildRecvNonce")
	if !rp.ok {
		g.note("buildRecvNonce: pattern not recognised")
	}
	g.line("Definition gen_c01_recv_prefix_initiator : list N := %s.", coqNList(rp.initiator[:]))
	g.line("Definition gen_c01_recv_prefix_responder : list N := %s.", coqNList(rp.responder[:]))
	g.line("Definition gen_c01_recv_pattern_recognised : bool := %s.", coqBool(rp.ok))
	g.line("Definition gen_c01_counter_offset : N := %s.", itoa(rp.counterOffset))
	env := map[string]int64{}
	for _, n := range []string{"KeySize", "NonceSize", "TagSize"} {
		if v, ok := intLit(constExpr(f, n), env); ok {
			env[n] = v
		}
	}
	ov := int64(-1)
	if v, ok := intLit(constExpr(f, "EncryptionOverhead"), env); ok {
		ov = v
	}
	g.line("Definition gen_c01_overhead : N := %s.", itoa(ov))
	g.line("Definition gen_c01_nonce_size : N := %s.", itoa(env["NonceSize"]))

	before, afterLocked, afterUnlocked, opens := int64(0), int64(0), int64(0), int64(0)
	fd := findFunc(f, "SessionKey", "Decrypt")
	if fd != nil && fd.Body != nil {
		op := callPositions(fd, func(c *ast.CallExpr) bool {
			sel, ok := c.Fun.(*ast.SelectorExpr)
			return ok && sel.Sel.Name == "Open"
		})
		opens = int64(len(op))
		if len(op) == 1 {
			for _, p := range fieldWrites(fd, "recvNonce") {
				switch {
				case p < op[0]:
					before++
				case lockedAt(fd, p):
					afterLocked++
				default:
					afterUnlocked++
				}
			}
		}
	} else {
		g.note("Decrypt not found")
	}
	// the locked region that advances the window re-tests it first
	recheck := false
	if fd != nil && fd.Body != nil {
		for _, wp := range fieldWrites(fd, "recvNonce") {
			var lastLock token.Pos
			for _, st := range fd.Body.List {
				if st.Pos() > wp {
					break
				}
				if isMuCall(st, "Lock") {
					lastLock = st.Pos()
				}
			}
			for _, st := range fd.Body.List {
				is, ok := st.(*ast.IfStmt)
				if !ok || st.Pos() < lastLock || st.Pos() > wp || len(is.Body.List) == 0 {
					continue
				}
				if _, ok := is.Body.List[len(is.Body.List)-1].(*ast.ReturnStmt); !ok {
					continue
				}
				mentions := false
				check := func(n ast.Node) {
					if n == nil {
						return
					}
					ast.Inspect(n, func(m ast.Node) bool {
						if sel, ok := m.(*ast.SelectorExpr); ok && sel.Sel.Name == "recvNonce" {
							mentions = true
						}
						return true
					})
				}
				if is.Init != nil {
					check(is.Init)
				}
				check(is.Cond)
				if mentions {
					recheck = true
				}
			}
		}
	}
	g.line("Definition gen_c01_commit_region_retests_window : bool := %s.", coqBool(recheck))
	g.line("Definition gen_c01_open_calls : N := %s.", itoa(opens))
	g.line("Definition gen_c01_recv_writes_before_open : N := %s.", itoa(before))
	g.line("Definition gen_c01_recv_writes_after_open_locked : N := %s.", itoa(afterLocked))
	g.line("Definition gen_c01_recv_writes_after_open_unlocked : N := %s.", itoa(afterUnlocked))
	g.line("Definition gen_c01_recv_counter_writers : list string := %s%%string.", coqStrList(writersOf("recvNonce")))
	genAEADFacts(g, "gen_c01_aead")
	genKeyWritesNamed(g, "gen_c01_key_writes")
	genPassThroughPairs(g)
	genFreshKeypairs(g, "gen_c01_responder_fresh_keypair")
	genRegisterAfterKeyExchange(g, "gen_c01_register_after_key_exchange")
	genFastLane(g, "gen_c01_fast_lane_types")
}
