package main

import (
	"go/ast"
	"go/token"
	"strings"
)

func init() { generators["C20"] = genC20 }

// C20: the constants and the wiring of the port-forward exit path:
//   - protocol.ForwardStreamPrefix and the other special stream addresses,
//     protocol.ErrForwardNotFound;
//   - forward.NewHandler fills targets[ep.Key] = ep.Target in endpoint order;
//   - forward.Handler.HandleStreamOpen looks the requested key up with a plain
//     map index on that key, answers ErrForwardNotFound and returns when it is
//     absent, and hands the looked-up target to handleStreamOpenAsync;
//   - handleStreamOpenAsync dials exactly that target;
//   - agent.handleStreamOpen strips the prefix and passes the rest as the key.
func genC20(g *gen) {
	types := parseFile("internal/protocol/types.go")
	emitStr := func(coqName, goName string) {
		if s, ok := stringConst(types, goName); ok {
			g.line("Definition %s : list N := %s.", coqName, coqBytesN(s))
		} else {
			g.note("constant %s not found", goName)
			g.line("Definition %s : list N := [].", coqName)
		}
	}
	emitStr("gen_forward_prefix", "ForwardStreamPrefix")
	emitStr("gen_file_upload", "FileTransferUpload")
	emitStr("gen_file_download", "FileTransferDownload")
	emitStr("gen_shell_stream", "ShellStream")
	emitStr("gen_shell_tty", "ShellInteractive")
	if v, ok := intConst(types, "ErrForwardNotFound"); ok {
		g.line("Definition gen_err_forward_not_found : N := %d.", v)
	} else {
		g.note("constant ErrForwardNotFound not found")
		g.line("Definition gen_err_forward_not_found : N := 0.")
	}

	hf := parseFile("internal/forward/handler.go")

	// NewHandler: for _, ep := range cfg.Endpoints { targets[ep.Key] = ep.Target }
	built := false
	if fd := findFunc(hf, "", "NewHandler"); fd != nil && fd.Body != nil {
		ast.Inspect(fd.Body, func(n ast.Node) bool {
			rs, ok := n.(*ast.RangeStmt)
			if !ok || !strings.HasSuffix(src(rs.X), ".Endpoints") {
				return true
			}
			v, _ := rs.Value.(*ast.Ident)
			if v == nil || len(rs.Body.List) != 1 {
				return true
			}
			if as, ok := rs.Body.List[0].(*ast.AssignStmt); ok && as.Tok == token.ASSIGN && len(as.Lhs) == 1 && len(as.Rhs) == 1 {
				if ix, ok := as.Lhs[0].(*ast.IndexExpr); ok && src(ix.Index) == v.Name+".Key" && src(as.Rhs[0]) == v.Name+".Target" {
					built = true
				}
			}
			return true
		})
	}
	g.line("Definition gen_targets_built_from_endpoints_in_order : bool := %s.", coqBool(built))

	// HandleStreamOpen
	exactLookup, notFoundRefuses, asyncGetsTarget := false, false, false
	if fd := findFunc(hf, "Handler", "HandleStreamOpen"); fd != nil && fd.Body != nil {
		ps := paramNames(fd)
		keyParam := ""
		for _, p := range ps {
			if p == "key" {
				keyParam = p
			}
		}
		targetVar, okVar := "", ""
		lookupIdx := -1
		for i, st := range fd.Body.List {
			as, ok := st.(*ast.AssignStmt)
			if !ok || len(as.Lhs) != 2 || len(as.Rhs) != 1 {
				continue
			}
			ix, ok := as.Rhs[0].(*ast.IndexExpr)
			if !ok || !strings.HasSuffix(src(ix.X), ".targets") {
				continue
			}
			if keyParam != "" && isIdent(ix.Index, keyParam) {
				exactLookup = true
				targetVar, okVar = src(as.Lhs[0]), src(as.Lhs[1])
				lookupIdx = i
			}
		}
		if lookupIdx >= 0 {
			for _, st := range fd.Body.List[lookupIdx+1:] {
				switch s := st.(type) {
				case *ast.IfStmt:
					if src(s.Cond) == "!"+okVar && s.Else == nil {
						sends, returns := false, false
						for _, b := range s.Body.List {
							if es, ok := b.(*ast.ExprStmt); ok {
								if c, ok := es.X.(*ast.CallExpr); ok && strings.HasSuffix(calleeName(c), ".sendOpenErr") {
									for _, a := range c.Args {
										if strings.HasSuffix(src(a), "ErrForwardNotFound") {
											sends = true
										}
									}
								}
							}
							if _, ok := b.(*ast.ReturnStmt); ok {
								returns = true
							}
						}
						notFoundRefuses = sends && returns
					}
				case *ast.GoStmt:
					if strings.HasSuffix(calleeName(s.Call), ".handleStreamOpenAsync") {
						hasKey, hasTarget := false, false
						for _, a := range s.Call.Args {
							if isIdent(a, keyParam) {
								hasKey = true
							}
							if isIdent(a, targetVar) {
								hasTarget = true
							}
						}
						asyncGetsTarget = hasKey && hasTarget && notFoundRefuses
					}
				}
			}
		}
	}
	g.line("Definition gen_lookup_is_exact_map_index_on_key : bool := %s.", coqBool(exactLookup))
	g.line("Definition gen_unknown_key_sends_not_found_and_returns : bool := %s.", coqBool(notFoundRefuses))
	g.line("Definition gen_async_receives_looked_up_target : bool := %s.", coqBool(asyncGetsTarget))

	// handleStreamOpenAsync: the only DialContext call has the target parameter as address
	dialsTarget := false
	if fd := findFunc(hf, "Handler", "handleStreamOpenAsync"); fd != nil && fd.Body != nil {
		ps := paramNames(fd)
		hasTarget := false
		for _, p := range ps {
			if p == "target" {
				hasTarget = true
			}
		}
		n, good := 0, 0
		calls(fd.Body, func(c *ast.CallExpr) {
			name := calleeName(c)
			if strings.HasSuffix(name, ".DialContext") || strings.HasSuffix(name, ".Dial") || name == "net.Dial" || name == "net.DialTimeout" {
				n++
				if hasTarget && len(c.Args) >= 2 && isIdent(c.Args[len(c.Args)-1], "target") {
					good++
				}
			}
		})
		// the target parameter must not be reassigned
		reassigned := false
		ast.Inspect(fd.Body, func(x ast.Node) bool {
			if as, ok := x.(*ast.AssignStmt); ok {
				for _, l := range as.Lhs {
					if isIdent(l, "target") {
						reassigned = true
					}
				}
			}
			return true
		})
		dialsTarget = n == 1 && good == 1 && !reassigned
	}
	g.line("Definition gen_async_dials_exactly_the_target : bool := %s.", coqBool(dialsTarget))

	// agent.handleStreamOpen: HasPrefix(destAddr, ForwardStreamPrefix) -> key := TrimPrefix(destAddr, ForwardStreamPrefix) -> forwardHandler.HandleStreamOpen(..., key, ...)
	strips := false
	keyRewritten := false
	af := parseFile("internal/agent/agent.go")
	if fd := findFunc(af, "Agent", "handleStreamOpen"); fd != nil && fd.Body != nil {
		ast.Inspect(fd.Body, func(n ast.Node) bool {
			is, ok := n.(*ast.IfStmt)
			if !ok {
				return true
			}
			c, ok := is.Cond.(*ast.CallExpr)
			if !ok || calleeName(c) != "strings.HasPrefix" || len(c.Args) != 2 || !strings.HasSuffix(src(c.Args[1]), "ForwardStreamPrefix") {
				return true
			}
			addrVar := src(c.Args[0])
			keyVar := ""
			for _, st := range is.Body.List {
				if as, ok := st.(*ast.AssignStmt); ok && len(as.Lhs) == 1 && len(as.Rhs) == 1 {
					if tc, ok := as.Rhs[0].(*ast.CallExpr); ok && calleeName(tc) == "strings.TrimPrefix" && len(tc.Args) == 2 &&
						src(tc.Args[0]) == addrVar && strings.HasSuffix(src(tc.Args[1]), "ForwardStreamPrefix") {
						keyVar = src(as.Lhs[0])
					}
				}
			}
			if keyVar == "" {
				return true
			}
			// the key is what follows the prefix, unchanged: no second assignment (truncation, trimming, splitting)
			assigns := 0
			ast.Inspect(is.Body, func(m ast.Node) bool {
				if as, ok := m.(*ast.AssignStmt); ok {
					for _, l := range as.Lhs {
						if src(l) == keyVar {
							assigns++
						}
					}
				}
				return true
			})
			if assigns != 1 {
				keyRewritten = true
			}
			calls(is.Body, func(hc *ast.CallExpr) {
				if strings.HasSuffix(calleeName(hc), "forwardHandler.HandleStreamOpen") {
					for _, a := range hc.Args {
						if isIdent(a, keyVar) {
							strips = true
						}
					}
				}
			})
			return true
		})
	}
	g.line("Definition gen_dispatch_strips_prefix_and_passes_key : bool := %s.", coqBool(strips))
	g.line("Definition gen_dispatch_passes_the_key_unmodified : bool := %s.", coqBool(strips && !keyRewritten))
}
