package main

import (
	"go/ast"
	"go/token"
)

func init() { generators["C38"] = genC38 }

// C38: start values written by NewStreamIDAllocator, the stride of Next, and
// whether Next is a single atomic add on an atomic.Uint64 field.
func genC38(g *gen) {
	f := parseFile("internal/transport/transport.go")
	startDialer, startAcceptor := int64(-1), int64(-1)
	if fd := findFunc(f, "", "NewStreamIDAllocator"); fd != nil && fd.Body != nil {
		flag := ""
		if len(fd.Type.Params.List) == 1 && len(fd.Type.Params.List[0].Names) == 1 {
			flag = fd.Type.Params.List[0].Names[0].Name
		}
		for _, st := range fd.Body.List {
			switch s := st.(type) {
			case *ast.AssignStmt:
				if len(s.Lhs) == 1 && len(s.Rhs) == 1 {
					if id, ok := s.Lhs[0].(*ast.Ident); ok && id.Name == "start" {
						if v, ok := intLit(s.Rhs[0], nil); ok {
							startAcceptor = v // value when the flag is false
						}
					}
				}
			case *ast.IfStmt:
				if id, ok := s.Cond.(*ast.Ident); ok && id.Name == flag && s.Else == nil {
					for _, st2 := range s.Body.List {
						if a, ok := st2.(*ast.AssignStmt); ok && len(a.Lhs) == 1 && len(a.Rhs) == 1 {
							if id, ok := a.Lhs[0].(*ast.Ident); ok && id.Name == "start" {
								if v, ok := intLit(a.Rhs[0], nil); ok {
									startDialer = v
								}
							}
						}
					}
				}
			}
		}
	}
	delta, adjust := int64(-1), int64(-1)
	single := false
	if fd := findFunc(f, "StreamIDAllocator", "Next"); fd != nil && fd.Body != nil && len(fd.Body.List) == 1 {
		if r, ok := fd.Body.List[0].(*ast.ReturnStmt); ok && len(r.Results) == 1 {
			if be, ok := r.Results[0].(*ast.BinaryExpr); ok && be.Op == token.SUB {
				if call, ok := be.X.(*ast.CallExpr); ok && len(call.Args) == 1 {
					if sel, ok := call.Fun.(*ast.SelectorExpr); ok && sel.Sel.Name == "Add" {
						if d, ok := intLit(call.Args[0], nil); ok {
							delta = d
						}
						if a, ok := intLit(be.Y, nil); ok {
							adjust = a
						}
						single = fieldIsAtomicUint64(f, "StreamIDAllocator", src(sel.X))
					}
				}
			}
		}
	}
	if startDialer < 0 || startAcceptor < 0 || delta < 0 {
		g.note("pattern not recognised in NewStreamIDAllocator/Next; facts set to 0/false")
	}
	nz := func(v int64) int64 {
		if v < 0 {
			return 0
		}
		return v
	}
	g.line("Definition gen_start_dialer : N := %d.", nz(startDialer))
	g.line("Definition gen_start_acceptor : N := %d.", nz(startAcceptor))
	g.line("Definition gen_delta : N := %d.", nz(delta))
	g.line("Definition gen_return_adjust : N := %d.", nz(adjust))
	g.line("Definition gen_next_is_single_atomic_add : bool := %s.", coqBool(single))

	// Wiring in peer.Connection: the allocator is created once, in the
	// constructor, from the transport connection's role, and NextStreamID only
	// delegates to it.
	pf := parseFile("internal/peer/connection.go")
	ctorInit, nextDirect := false, false
	if fd := findFunc(pf, "", "NewConnection"); fd != nil && fd.Body != nil {
		ast.Inspect(fd.Body, func(n ast.Node) bool {
			if kv, ok := n.(*ast.KeyValueExpr); ok {
				if k, ok := kv.Key.(*ast.Ident); ok && k.Name == "streamAlloc" {
					if src(kv.Value) == "transport.NewStreamIDAllocator(conn.IsDialer())" {
						ctorInit = true
					}
				}
			}
			return true
		})
	}
	if fd := findFunc(pf, "Connection", "NextStreamID"); fd != nil && fd.Body != nil && len(fd.Body.List) == 1 {
		if r, ok := fd.Body.List[0].(*ast.ReturnStmt); ok && len(r.Results) == 1 && src(r.Results[0]) == "c.streamAlloc.Next()" {
			nextDirect = true
		}
	}
	// any other assignment to the field outside the constructor?
	reassigned := false
	for _, f2 := range parseDir("internal/peer") {
		ast.Inspect(f2, func(n ast.Node) bool {
			if as, ok := n.(*ast.AssignStmt); ok {
				for _, l := range as.Lhs {
					if sel, ok := l.(*ast.SelectorExpr); ok && sel.Sel.Name == "streamAlloc" {
						reassigned = true
					}
				}
			}
			return true
		})
	}
	g.line("Definition gen_conn_alloc_in_constructor : bool := %s.", coqBool(ctorInit))
	g.line("Definition gen_conn_next_delegates : bool := %s.", coqBool(nextDirect))
	g.line("Definition gen_conn_alloc_reassigned : bool := %s.", coqBool(reassigned))
}

// fieldIsAtomicUint64 reports whether expr is "<recv>.<field>" with field of
// type atomic.Uint64 in the named struct.
func fieldIsAtomicUint64(f *ast.File, structName, expr string) bool {
	if f == nil {
		return false
	}
	for _, d := range f.Decls {
		gd, ok := d.(*ast.GenDecl)
		if !ok {
			continue
		}
		for _, s := range gd.Specs {
			ts, ok := s.(*ast.TypeSpec)
			if !ok || ts.Name.Name != structName {
				continue
			}
			st, ok := ts.Type.(*ast.StructType)
			if !ok {
				continue
			}
			for _, fl := range st.Fields.List {
				if src(fl.Type) != "atomic.Uint64" {
					continue
				}
				for _, n := range fl.Names {
					if len(expr) > len(n.Name) && expr[len(expr)-len(n.Name)-1:] == "."+n.Name {
						return true
					}
				}
			}
		}
	}
	return false
}
