package main

import (
	"go/ast"
	"go/token"
	"strings"
)

func init() { generators["C35"] = genC35 }

// selectorPath turns redacted.Peers[i].TLS.Key into (root "redacted",
// ["Peers","TLS","Key"], indexed slices [["Peers"]], index idents ["i"]).
func selectorPath(e ast.Expr) (root string, path []string, slices [][]string, idxVars []string, ok bool) {
	switch x := e.(type) {
	case *ast.Ident:
		return x.Name, nil, nil, nil, true
	case *ast.ParenExpr:
		return selectorPath(x.X)
	case *ast.SelectorExpr:
		r, p, s, iv, ok := selectorPath(x.X)
		if !ok {
			return "", nil, nil, nil, false
		}
		return r, append(p, x.Sel.Name), s, iv, true
	case *ast.IndexExpr:
		r, p, s, iv, ok := selectorPath(x.X)
		if !ok {
			return "", nil, nil, nil, false
		}
		id, isID := x.Index.(*ast.Ident)
		name := "?"
		if isID {
			name = id.Name
		}
		cp := append([]string(nil), p...)
		return r, p, append(s, cp), append(iv, name), true
	}
	return "", nil, nil, nil, false
}

func coqStrListHttpcfg(xs []string) string {
	q := make([]string, len(xs))
	for i, x := range xs {
		q[i] = coqString(x)
	}
	return "[" + strings.Join(q, "; ") + "]"
}

func coqStrListList(xs [][]string) string {
	q := make([]string, len(xs))
	for i, x := range xs {
		q[i] = coqStrListHttpcfg(x)
	}
	if len(q) == 0 {
		return "[]"
	}
	return "[\n    " + strings.Join(q, ";\n    ") + " ]"
}

// structTypes collects the struct type declarations of a package directory.
func structTypes(rel string) (map[string]*ast.StructType, map[string]ast.Expr) {
	structs := map[string]*ast.StructType{}
	others := map[string]ast.Expr{}
	for _, f := range parseDir(rel) {
		for _, d := range f.Decls {
			gd, ok := d.(*ast.GenDecl)
			if !ok || gd.Tok != token.TYPE {
				continue
			}
			for _, s := range gd.Specs {
				ts := s.(*ast.TypeSpec)
				if st, ok := ts.Type.(*ast.StructType); ok {
					structs[ts.Name.Name] = st
				} else {
					others[ts.Name.Name] = ts.Type
				}
			}
		}
	}
	return structs, others
}

var basicNonString = map[string]bool{"bool": true, "int": true, "int8": true, "int16": true, "int32": true, "int64": true,
	"uint": true, "uint8": true, "uint16": true, "uint32": true, "uint64": true, "float32": true, "float64": true, "byte": true, "rune": true, "uintptr": true}

// stringLeaves walks a struct type and lists the paths of all string-typed
// leaves (through nested structs, pointers, slices and arrays).
func stringLeaves(structs map[string]*ast.StructType, others map[string]ast.Expr, t ast.Expr, path []string, depth int,
	leaves *[][]string, unknown *[]string) {
	if depth > 12 {
		*unknown = append(*unknown, strings.Join(path, ".")+": recursion too deep")
		return
	}
	switch x := t.(type) {
	case *ast.Ident:
		switch {
		case x.Name == "string":
			*leaves = append(*leaves, append([]string(nil), path...))
		case basicNonString[x.Name]:
		case structs[x.Name] != nil:
			for _, fl := range structs[x.Name].Fields.List {
				if len(fl.Names) == 0 { // embedded
					stringLeaves(structs, others, fl.Type, path, depth+1, leaves, unknown)
					continue
				}
				for _, n := range fl.Names {
					stringLeaves(structs, others, fl.Type, append(append([]string(nil), path...), n.Name), depth+1, leaves, unknown)
				}
			}
		case others[x.Name] != nil:
			stringLeaves(structs, others, others[x.Name], path, depth+1, leaves, unknown)
		default:
			*unknown = append(*unknown, strings.Join(path, ".")+": type "+x.Name)
		}
	case *ast.StarExpr:
		stringLeaves(structs, others, x.X, path, depth+1, leaves, unknown)
	case *ast.ArrayType:
		stringLeaves(structs, others, x.Elt, path, depth+1, leaves, unknown)
	case *ast.SelectorExpr:
		if s := src(x); s != "time.Duration" && s != "time.Time" {
			*unknown = append(*unknown, strings.Join(path, ".")+": type "+s)
		}
	case *ast.StructType:
		for _, fl := range x.Fields.List {
			for _, n := range fl.Names {
				stringLeaves(structs, others, fl.Type, append(append([]string(nil), path...), n.Name), depth+1, leaves, unknown)
			}
		}
	default:
		*unknown = append(*unknown, strings.Join(path, ".")+": type "+src(t))
	}
}

// C35: the redact(&...) field list of Config.Redacted, every string-typed
// leaf of config.Config, whether Redacted can return its receiver, whether
// String renders the redacted copy, and which slices the fallback copy clones.
func genC35(g *gen) {
	f := parseFile("internal/config/config.go")
	var redactPaths [][]string
	var writtenSlices [][]string
	returnsReceiver := int64(-1)
	loopsOK := true
	unrecognised := 0
	fallbackCall := ""
	if fd := findFunc(f, "Config", "Redacted"); fd != nil && fd.Body != nil {
		returnsReceiver = 0
		recv := ""
		if len(fd.Recv.List[0].Names) == 1 {
			recv = fd.Recv.List[0].Names[0].Name
		}
		// enclosing range loops: index var -> ranged slice path
		var visit func(n ast.Node, loops map[string]string)
		visit = func(n ast.Node, loops map[string]string) {
			ast.Inspect(n, func(m ast.Node) bool {
				switch x := m.(type) {
				case *ast.RangeStmt:
					if m == n {
						return true
					}
					inner := map[string]string{}
					for k, v := range loops {
						inner[k] = v
					}
					if id, ok := x.Key.(*ast.Ident); ok {
						_, p, _, _, ok2 := selectorPath(x.X)
						if ok2 {
							inner[id.Name] = strings.Join(p, ".")
						}
					}
					visit(x.Body, inner)
					return false
				case *ast.ReturnStmt:
					if len(x.Results) == 1 {
						if id, ok := x.Results[0].(*ast.Ident); ok && id.Name == recv {
							returnsReceiver++
						}
					}
				case *ast.AssignStmt:
					// redacted = c.copyForRedaction()
					if len(x.Rhs) == 1 {
						if call, ok := x.Rhs[0].(*ast.CallExpr); ok {
							if sel, ok := call.Fun.(*ast.SelectorExpr); ok {
								if id, ok := sel.X.(*ast.Ident); ok && id.Name == recv && len(call.Args) == 0 {
									fallbackCall = sel.Sel.Name
								}
							}
						}
					}
				case *ast.CallExpr:
					if id, ok := x.Fun.(*ast.Ident); ok && id.Name == "redact" && len(x.Args) == 1 {
						u, ok := x.Args[0].(*ast.UnaryExpr)
						if !ok || u.Op != token.AND {
							unrecognised++
							return true
						}
						_, p, slices, iv, ok := selectorPath(u.X)
						if !ok {
							unrecognised++
							return true
						}
						redactPaths = append(redactPaths, p)
						for i, s := range slices {
							writtenSlices = appendUnique(writtenSlices, s)
							if loops[iv[i]] != strings.Join(s, ".") {
								loopsOK = false
							}
						}
					}
				}
				return true
			})
		}
		visit(fd.Body, map[string]string{})
	}
	// fallback copy: which slices are cloned (x.P = append([]T(nil), c.P...))
	var cloned [][]string
	if fallbackCall != "" {
		if fd := findFunc(f, "Config", fallbackCall); fd != nil && fd.Body != nil {
			recv := ""
			if len(fd.Recv.List[0].Names) == 1 {
				recv = fd.Recv.List[0].Names[0].Name
			}
			for _, st := range fd.Body.List {
				as, ok := st.(*ast.AssignStmt)
				if !ok || len(as.Lhs) != 1 || len(as.Rhs) != 1 {
					continue
				}
				_, lp, _, _, ok1 := selectorPath(as.Lhs[0])
				call, ok2 := as.Rhs[0].(*ast.CallExpr)
				if !ok1 || !ok2 || len(lp) == 0 {
					continue
				}
				if id, ok := call.Fun.(*ast.Ident); ok && id.Name == "append" && len(call.Args) == 2 && call.Ellipsis != token.NoPos {
					// first argument must be a fresh (nil/empty) slice, second the receiver's slice
					first := src(call.Args[0])
					fresh := strings.HasSuffix(first, "(nil)") || strings.HasSuffix(first, "{}")
					r, sp, _, _, ok3 := selectorPath(call.Args[1])
					if fresh && ok3 && r == recv && strings.Join(sp, ".") == strings.Join(lp, ".") {
						cloned = appendUnique(cloned, lp)
					}
				} else if src(call.Fun) == "slices.Clone" && len(call.Args) == 1 {
					r, sp, _, _, ok3 := selectorPath(call.Args[0])
					if ok3 && r == recv && strings.Join(sp, ".") == strings.Join(lp, ".") {
						cloned = appendUnique(cloned, lp)
					}
				}
			}
		}
	}
	// String(): marshals the result of Redacted()
	stringUsesRedacted := false
	if fd := findFunc(f, "Config", "String"); fd != nil && fd.Body != nil {
		redVar := ""
		ast.Inspect(fd.Body, func(n ast.Node) bool {
			switch x := n.(type) {
			case *ast.AssignStmt:
				if len(x.Lhs) == 1 && len(x.Rhs) == 1 {
					if call, ok := x.Rhs[0].(*ast.CallExpr); ok {
						if sel, ok := call.Fun.(*ast.SelectorExpr); ok && sel.Sel.Name == "Redacted" {
							if id, ok := x.Lhs[0].(*ast.Ident); ok {
								redVar = id.Name
							}
						}
					}
				}
			case *ast.CallExpr:
				if src(x.Fun) == "yaml.Marshal" && len(x.Args) == 1 {
					a := src(x.Args[0])
					stringUsesRedacted = (redVar != "" && a == redVar) || strings.HasSuffix(a, ".Redacted()")
				}
			}
			return true
		})
	}
	// String(): a single return (no path around Redacted)
	stringReturns := 0
	if fd := findFunc(f, "Config", "String"); fd != nil && fd.Body != nil {
		ast.Inspect(fd.Body, func(n ast.Node) bool {
			if _, ok := n.(*ast.ReturnStmt); ok {
				stringReturns++
			}
			return true
		})
	}
	// redact(): `if *s != "" { *s = redactedValue }`
	placeholder, _ := strLit(constExpr(f, "redactedValue"))
	redactShape := false
	if fd := findFunc(f, "", "redact"); fd != nil && fd.Body != nil && len(fd.Body.List) == 1 {
		if is, ok := fd.Body.List[0].(*ast.IfStmt); ok && is.Else == nil && len(is.Body.List) == 1 {
			cond := strings.ReplaceAll(src(is.Cond), " ", "")
			body := strings.ReplaceAll(src(is.Body.List[0]), " ", "")
			redactShape = cond == `*s!=""` && body == "*s=redactedValue"
		}
	}
	// all string leaves of Config
	structs, others := structTypes("internal/config")
	var leaves [][]string
	var unknown []string
	if structs["Config"] != nil {
		stringLeaves(structs, others, &ast.Ident{Name: "Config"}, nil, 0, &leaves, &unknown)
	} else {
		unknown = append(unknown, "Config struct not found")
	}
	if returnsReceiver < 0 || unrecognised > 0 || len(redactPaths) == 0 {
		g.note("pattern not recognised in Config.Redacted (%d unrecognised redact calls)", unrecognised)
		returnsReceiver = 99
	}
	g.line("Open Scope string_scope.")
	g.line("Definition gen_redact_paths : list (list string) := %s.", coqStrListList(redactPaths))
	g.line("Definition gen_string_leaves : list (list string) := %s.", coqStrListList(leaves))
	g.line("Definition gen_unknown_types : list string := %s.", coqStrListHttpcfg(unknown))
	g.line("Definition gen_redacted_returns_receiver : N := %d.", returnsReceiver)
	g.line("Definition gen_redact_calls_inside_matching_range_loops : bool := %s.", coqBool(loopsOK))
	g.line("Definition gen_written_slices : list (list string) := %s.", coqStrListList(writtenSlices))
	g.line("Definition gen_fallback_copy : string := %s.", coqString(fallbackCall))
	g.line("Definition gen_fallback_cloned_slices : list (list string) := %s.", coqStrListList(cloned))
	g.line("Definition gen_string_renders_redacted_copy : bool := %s.", coqBool(stringUsesRedacted))
	g.line("Definition gen_string_return_statements : N := %d.", stringReturns)
	g.line("Definition gen_placeholder : string := %s.", coqString(placeholder))
	g.line("Definition gen_redact_only_nonempty : bool := %s.", coqBool(redactShape))
}

func appendUnique(xs [][]string, x []string) [][]string {
	k := strings.Join(x, ".")
	for _, y := range xs {
		if strings.Join(y, ".") == k {
			return xs
		}
	}
	return append(xs, append([]string(nil), x...))
}
