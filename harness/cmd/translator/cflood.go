package main

// Source facts for the flood family (C11..C15), regenerated on every run from
// internal/flood/flood.go, internal/routing/*.go, internal/agent/agent.go and
// internal/config/config.go. Each fact is matched by a theorem in
// Properties/C1x.v against the value the model uses; an unrecognised pattern
// yields a value that makes that theorem fail.

import (
	"go/ast"
	"go/token"
	"strings"
)

func init() {
	generators["C11"] = genC11
	generators["C12"] = genC12
	generators["C13"] = genC13
	generators["C14"] = genC14
	generators["C15"] = genC15
}

const floodGo = "internal/flood/flood.go"
const agentGo = "internal/agent/agent.go"

func norm(s string) string { return strings.Join(strings.Fields(s), " ") }

// hasNode reports whether the function body contains a node for which pred holds.
func hasNode(fd *ast.FuncDecl, pred func(ast.Node) bool) bool {
	if fd == nil || fd.Body == nil {
		return false
	}
	found := false
	ast.Inspect(fd.Body, func(n ast.Node) bool {
		if n != nil && !found && pred(n) {
			found = true
		}
		return !found
	})
	return found
}

// posOf returns the source offset of the first node satisfying pred (-1 if none).
func posOf(fd *ast.FuncDecl, pred func(ast.Node) bool) int {
	if fd == nil || fd.Body == nil {
		return -1
	}
	pos := -1
	ast.Inspect(fd.Body, func(n ast.Node) bool {
		if n != nil && pos < 0 && pred(n) {
			pos = int(n.Pos())
		}
		return pos < 0
	})
	return pos
}

func isExprText(n ast.Node, text string) bool {
	e, ok := n.(ast.Expr)
	return ok && norm(src(e)) == text
}

func isStmtText(n ast.Node, text string) bool {
	s, ok := n.(ast.Stmt)
	if !ok {
		return false
	}
	if _, blk := n.(*ast.BlockStmt); blk {
		return false
	}
	return norm(src(s)) == text
}

// structFields lists the field names of a struct type declared in f.
func structFields(f *ast.File, name string) []string {
	if f == nil {
		return nil
	}
	var out []string
	for _, d := range f.Decls {
		gd, ok := d.(*ast.GenDecl)
		if !ok {
			continue
		}
		for _, s := range gd.Specs {
			ts, ok := s.(*ast.TypeSpec)
			if !ok || ts.Name.Name != name {
				continue
			}
			if st, ok := ts.Type.(*ast.StructType); ok {
				for _, fl := range st.Fields.List {
					for _, n := range fl.Names {
						out = append(out, n.Name)
					}
				}
			}
		}
	}
	return out
}

func coqStrListFlood(xs []string) string {
	ss := make([]string, len(xs))
	for i, x := range xs {
		ss[i] = coqString(x) + "%string"
	}
	return "[" + strings.Join(ss, "; ") + "]"
}

// callArgs returns the printed arguments of the first call of sel (e.g.
// "a.flooder.HandleRouteAdvertise") in fd.
func callArgs(fd *ast.FuncDecl, sel string) []string {
	var out []string
	if fd == nil || fd.Body == nil {
		return nil
	}
	done := false
	ast.Inspect(fd.Body, func(n ast.Node) bool {
		if done {
			return false
		}
		if c, ok := n.(*ast.CallExpr); ok && norm(src(c.Fun)) == sel {
			for _, a := range c.Args {
				out = append(out, norm(src(a)))
			}
			done = true
		}
		return !done
	})
	return out
}

// compositeField returns the printed value of a field in the first composite
// literal of the given type inside fd that has that field, searching the
// literals in source order and returning the LAST match (SendFullTable's
// advertisement literal is the last one in the function).
func compositeField(fd *ast.FuncDecl, typ, field string) string {
	res := ""
	typ = strings.TrimPrefix(typ, "&")
	if fd == nil || fd.Body == nil {
		return res
	}
	ast.Inspect(fd.Body, func(n ast.Node) bool {
		if cl, ok := n.(*ast.CompositeLit); ok && norm(src(cl.Type)) == typ {
			for _, el := range cl.Elts {
				if kv, ok := el.(*ast.KeyValueExpr); ok && norm(src(kv.Key)) == field {
					res = norm(src(kv.Value))
				}
			}
		}
		return true
	})
	return res
}

// durationSeconds evaluates "<int> * time.Minute|Second|Hour".
func durationSeconds(e ast.Expr) int64 {
	be, ok := e.(*ast.BinaryExpr)
	if !ok || be.Op != token.MUL {
		return -1
	}
	v, ok := intLit(be.X, nil)
	if !ok {
		return -1
	}
	switch norm(src(be.Y)) {
	case "time.Second":
		return v
	case "time.Minute":
		return v * 60
	case "time.Hour":
		return v * 3600
	}
	return -1
}

func nz(v int64) int64 {
	if v < 0 {
		return 999999
	}
	return v
}

// ---------------------------------------------------------------------------

func genC11(g *gen) {
	f := parseFile(floodGo)
	g.line("Local Open Scope string_scope.")
	g.line("Definition gen_seen_key_fields : list string := %s.", coqStrListFlood(structFields(f, "AdvertisementKey")))
	h := findFunc(f, "Flooder", "HandleRouteAdvertise")
	// the key is built from (originAgent, sequence)
	keyOrigin := compositeField(h, "AdvertisementKey", "OriginAgent")
	keySeq := compositeField(h, "AdvertisementKey", "Sequence")
	g.line("Definition gen_seen_key_origin_arg : string := %s.", coqString(keyOrigin))
	g.line("Definition gen_seen_key_sequence_arg : string := %s.", coqString(keySeq))
	// order inside HandleRouteAdvertise: lookup, mark, loop check, store, flood
	pLookup := posOf(h, func(n ast.Node) bool { return isExprText(n, "f.seenCache[key]") })
	pMark := posOf(h, func(n ast.Node) bool {
		a, ok := n.(*ast.AssignStmt)
		return ok && len(a.Lhs) == 1 && norm(src(a.Lhs[0])) == "f.seenCache[key]"
	})
	pLoop := posOf(h, func(n ast.Node) bool { return isExprText(n, "containsAgent(seenBy, f.localID)") })
	pFlood := posOf(h, func(n ast.Node) bool {
		c, ok := n.(*ast.CallExpr)
		return ok && norm(src(c.Fun)) == "f.floodAdvertisementEncrypted"
	})
	pStore := posOf(h, func(n ast.Node) bool {
		c, ok := n.(*ast.CallExpr)
		return ok && norm(src(c.Fun)) == "f.routeMgr.ProcessRouteAdvertise"
	})
	ordered := pLookup >= 0 && pLookup < pMark && pMark < pLoop && pLoop < pStore && pStore < pFlood
	g.line("Definition gen_handle_order_lookup_mark_loopcheck_store_flood : bool := %s.", coqBool(ordered))
	// check-then-act atomicity: the lookup of the key and its insertion lie in ONE write-lock region of f.mu
	g.line("Definition gen_seen_check_and_mark_in_one_lock_region : bool := %s.", coqBool(floodSeenOneLockRegion(h)))
	// ROUTE_WITHDRAW shares the seen cache: same key expression (origin of the withdrawal, never the relaying peer),
	// same one-lock-region test-and-set, flooded with the local id appended to seen-by, and no handler ever deletes
	// from the seen cache (only the TTL cleanup and the explicit clear do)
	hw := findFunc(f, "Flooder", "HandleRouteWithdraw")
	g.line("Definition gen_withdraw_seen_key_origin_arg : string := %s.", coqString(compositeField(hw, "AdvertisementKey", "OriginAgent")))
	g.line("Definition gen_withdraw_seen_key_sequence_arg : string := %s.", coqString(compositeField(hw, "AdvertisementKey", "Sequence")))
	g.line("Definition gen_withdraw_check_and_mark_in_one_lock_region : bool := %s.", coqBool(floodSeenOneLockRegion(hw)))
	wAppend := hasNode(hw, func(n ast.Node) bool { return isStmtText(n, "newSeenBy := append(seenBy, f.localID)") })
	wargs := callArgs(hw, "f.floodWithdrawal")
	wFlood := len(wargs) == 5 && wargs[0] == "fromPeer" && wargs[1] == "originAgent" && wargs[2] == "sequence" && wargs[3] == "routes" && wargs[4] == "newSeenBy"
	fw := findFunc(f, "Flooder", "floodWithdrawal")
	fwArgs := callArgs(fw, "f.floodFrame")
	wFrame := len(fwArgs) >= 2 && fwArgs[0] == "fromPeer" && fwArgs[1] == "seenBy" &&
		compositeField(fw, "&protocol.RouteWithdraw", "OriginAgent") == "originAgent" && compositeField(fw, "&protocol.RouteWithdraw", "Sequence") == "sequence" &&
		compositeField(fw, "&protocol.RouteWithdraw", "SeenBy") == "seenBy"
	pWMark := posOf(hw, func(n ast.Node) bool {
		a, ok := n.(*ast.AssignStmt)
		return ok && len(a.Lhs) == 1 && norm(src(a.Lhs[0])) == "f.seenCache[key]"
	})
	pWLoop := posOf(hw, func(n ast.Node) bool { return isExprText(n, "containsAgent(seenBy, f.localID)") })
	pWProc := posOf(hw, func(n ast.Node) bool {
		c, ok := n.(*ast.CallExpr)
		return ok && norm(src(c.Fun)) == "f.routeMgr.ProcessRouteWithdraw"
	})
	pWFlood := posOf(hw, func(n ast.Node) bool {
		c, ok := n.(*ast.CallExpr)
		return ok && norm(src(c.Fun)) == "f.floodWithdrawal"
	})
	g.line("Definition gen_withdraw_mark_loopcheck_process_flood_with_self_appended : bool := %s.",
		coqBool(wAppend && wFlood && wFrame && pWMark > 0 && pWMark < pWLoop && pWLoop < pWProc && pWProc < pWFlood))
	delOK := true
	for _, d := range f.Decls {
		fd, ok := d.(*ast.FuncDecl)
		if !ok || fd.Body == nil {
			continue
		}
		dels := hasNode(fd, func(n ast.Node) bool {
			c, ok := n.(*ast.CallExpr)
			return ok && norm(src(c.Fun)) == "delete" && len(c.Args) == 2 && norm(src(c.Args[0])) == "f.seenCache"
		})
		reassign := hasNode(fd, func(n ast.Node) bool {
			a, ok := n.(*ast.AssignStmt)
			return ok && len(a.Lhs) == 1 && norm(src(a.Lhs[0])) == "f.seenCache"
		})
		if (dels || reassign) && fd.Name.Name != "cleanupSeenCache" && fd.Name.Name != "ClearSeenCache" && fd.Name.Name != "NewFlooder" {
			delOK = false
			g.note("function %s removes entries from the route seen cache", fd.Name.Name)
		}
	}
	g.line("Definition gen_only_cleanup_removes_seen_entries : bool := %s.", coqBool(delOK))
	// the origin side of a withdrawal: fresh sequence of its own, own id as origin, seen-by = [self]
	wl := findFunc(f, "Flooder", "WithdrawLocalRoutes")
	wlOK := hasNode(wl, func(n ast.Node) bool { return isStmtText(n, "seq := f.routeMgr.IncrementSequence()") }) &&
		compositeField(wl, "&protocol.RouteWithdraw", "OriginAgent") == "f.localID" && compositeField(wl, "&protocol.RouteWithdraw", "Sequence") == "seq" &&
		compositeField(wl, "&protocol.RouteWithdraw", "SeenBy") == "[]identity.AgentID{f.localID}"
	g.line("Definition gen_withdraw_origin_fresh_sequence_own_id : bool := %s.", coqBool(wlOK))
	// the sequence counter: incremented and read back inside one lock region (two concurrent callers never get one number)
	inc := findFuncInDir("internal/routing", "Manager", "IncrementSequence")
	incOK := false
	if inc != nil && inc.Body != nil && len(inc.Body.List) == 4 {
		incOK = isStmtText(inc.Body.List[0], "m.mu.Lock()") && isStmtText(inc.Body.List[1], "defer m.mu.Unlock()") &&
			isStmtText(inc.Body.List[2], "m.sequence++") && isStmtText(inc.Body.List[3], "return m.sequence")
	}
	g.line("Definition gen_increment_sequence_reads_back_under_the_lock : bool := %s.", coqBool(incOK))
	// the agent hands a ROUTE_WITHDRAW to the flooder as (receiving peer, origin, sequence, routes, seen-by)
	fa11 := parseFile(agentGo)
	g.line("Definition gen_handle_route_withdraw_args : list string := %s.", coqStrListFlood(callArgs(findFunc(fa11, "Agent", "handleRouteWithdraw"), "a.flooder.HandleRouteWithdraw")))
	// the seen-by list handed to the flood is the received one plus the local id
	appendSelf := hasNode(h, func(n ast.Node) bool { return isStmtText(n, "newSeenBy := append(seenBy, f.localID)") })
	fargs := callArgs(h, "f.floodAdvertisementEncrypted")
	usesNew := len(fargs) == 7 && fargs[6] == "newSeenBy" && fargs[0] == "fromPeer"
	g.line("Definition gen_forward_appends_self_to_seenby : bool := %s.", coqBool(appendSelf && usesNew))
	// floodFrame: skip the sender and every peer in seen-by
	ff := findFunc(f, "Flooder", "floodFrame")
	skip := hasNode(ff, func(n ast.Node) bool {
		is, ok := n.(*ast.IfStmt)
		if !ok || norm(src(is.Cond)) != "peerID == fromPeer || containsAgent(seenBy, peerID)" || len(is.Body.List) != 1 {
			return false
		}
		b, ok := is.Body.List[0].(*ast.BranchStmt)
		return ok && b.Tok == token.CONTINUE
	})
	g.line("Definition gen_floodframe_skips_sender_and_seenby : bool := %s.", coqBool(skip))
	fe := findFunc(f, "Flooder", "floodAdvertisementEncrypted")
	ffArgs := callArgs(fe, "f.floodFrame")
	g.line("Definition gen_flood_passes_sender_and_seenby : bool := %s.", coqBool(len(ffArgs) >= 2 && ffArgs[0] == "fromPeer" && ffArgs[1] == "seenBy"))
	// seen-cache TTL and cleanup period
	ttl := int64(-1)
	if d := findFunc(f, "", "DefaultFloodConfig"); d != nil {
		ast.Inspect(d.Body, func(n ast.Node) bool {
			if kv, ok := n.(*ast.KeyValueExpr); ok && norm(src(kv.Key)) == "SeenCacheTTL" {
				ttl = durationSeconds(kv.Value)
			}
			return true
		})
	}
	g.line("Local Open Scope N_scope.")
	g.line("Definition gen_seen_ttl_seconds : N := %d.", nz(ttl))
	div := int64(-1)
	if cl := findFunc(f, "Flooder", "cleanupLoop"); cl != nil {
		ast.Inspect(cl.Body, func(n ast.Node) bool {
			if c, ok := n.(*ast.CallExpr); ok && norm(src(c.Fun)) == "time.NewTicker" && len(c.Args) == 1 {
				if be, ok := c.Args[0].(*ast.BinaryExpr); ok && be.Op == token.QUO && norm(src(be.X)) == "f.cfg.SeenCacheTTL" {
					if v, ok := intLit(be.Y, nil); ok {
						div = v
					}
				}
			}
			return true
		})
	}
	g.line("Definition gen_cleanup_ticks_per_ttl : N := %d.", nz(div))
	// expiry test: now.Sub(entry.SeenAt) > expiry (strict)
	cs := findFunc(f, "Flooder", "cleanupSeenCache")
	strict := hasNode(cs, func(n ast.Node) bool { return isExprText(n, "now.Sub(entry.SeenAt) > expiry") })
	g.line("Definition gen_expiry_is_strictly_older_than_ttl : bool := %s.", coqBool(strict))
	if ttl < 0 || div < 0 {
		g.note("SeenCacheTTL / cleanup ticker pattern not recognised")
	}
}

func genC12(g *gen) {
	fa := parseFile(agentGo)
	ff := parseFile(floodGo)
	g.line("Local Open Scope string_scope.")
	// agent.handleRouteAdvertise hands the decoded fields to the flooder in this order
	hr := findFunc(fa, "Agent", "handleRouteAdvertise")
	g.line("Definition gen_handle_route_advertise_args : list string := %s.", coqStrListFlood(callArgs(hr, "a.flooder.HandleRouteAdvertise")))
	dec := hasNode(hr, func(n ast.Node) bool { return isStmtText(n, "adv, err := protocol.DecodeRouteAdvertise(frame.Payload)") })
	g.line("Definition gen_handle_route_advertise_decodes_payload : bool := %s.", coqBool(dec))
	// handleStreamOpen: exit test, next hop, remaining path
	so := findFunc(fa, "Agent", "handleStreamOpen")
	exit := hasNode(so, func(n ast.Node) bool {
		is, ok := n.(*ast.IfStmt)
		return ok && norm(src(is.Cond)) == "len(open.RemainingPath) == 0 || (len(open.RemainingPath) == 1 && open.RemainingPath[0] == a.id)"
	})
	g.line("Definition gen_open_exit_when_empty_or_self : bool := %s.", coqBool(exit))
	nextIdx, drop := int64(-1), int64(-1)
	if so != nil {
		ast.Inspect(so.Body, func(n ast.Node) bool {
			as, ok := n.(*ast.AssignStmt)
			if !ok || len(as.Lhs) != 1 || len(as.Rhs) != 1 {
				return true
			}
			switch norm(src(as.Lhs[0])) {
			case "nextHop":
				if ix, ok := as.Rhs[0].(*ast.IndexExpr); ok && norm(src(ix.X)) == "open.RemainingPath" {
					if v, ok := intLit(ix.Index, nil); ok {
						nextIdx = v
					}
				}
			case "newPath":
				if sl, ok := as.Rhs[0].(*ast.SliceExpr); ok && norm(src(sl.X)) == "open.RemainingPath" && sl.High == nil && sl.Low != nil {
					if v, ok := intLit(sl.Low, nil); ok {
						drop = v
					}
				}
			}
			return true
		})
	}
	fwdUsesNew := compositeField(so, "&protocol.StreamOpen", "RemainingPath") == "newPath"
	toNext := hasNode(so, func(n ast.Node) bool {
		c, ok := n.(*ast.CallExpr)
		return ok && norm(src(c.Fun)) == "a.peerMgr.SendToPeer" && len(c.Args) == 2 && norm(src(c.Args[0])) == "nextHop" && norm(src(c.Args[1])) == "fwdFrame"
	})
	needPeer := hasNode(so, func(n ast.Node) bool { return isStmtText(n, "conn := a.peerMgr.GetPeer(nextHop)") })
	g.line("Definition gen_open_forwards_new_path_to_next_hop : bool := %s.", coqBool(fwdUsesNew && toNext && needPeer))
	// DialContext: STREAM_OPEN goes to route.NextHop with route.Path[1:]
	dc := findFunc(fa, "Agent", "DialContext")
	dialDrop := int64(-1)
	if dc != nil {
		ast.Inspect(dc.Body, func(n ast.Node) bool {
			if c, ok := n.(*ast.CallExpr); ok && norm(src(c.Fun)) == "copy" && len(c.Args) == 2 && norm(src(c.Args[0])) == "remainingPath" {
				if sl, ok := c.Args[1].(*ast.SliceExpr); ok && norm(src(sl.X)) == "route.Path" && sl.High == nil && sl.Low != nil {
					if v, ok := intLit(sl.Low, nil); ok {
						dialDrop = v
					}
				}
			}
			return true
		})
	}
	dialPeer := hasNode(dc, func(n ast.Node) bool { return isStmtText(n, "conn := a.peerMgr.GetPeer(route.NextHop)") })
	g.line("Definition gen_dial_uses_next_hop_connection : bool := %s.", coqBool(dialPeer))
	// forwarding prepends the local id to the path
	fe := findFunc(ff, "Flooder", "floodAdvertisementEncrypted")
	prep := hasNode(fe, func(n ast.Node) bool { return isStmtText(n, "newPath[0] = f.localID") }) &&
		hasNode(fe, func(n ast.Node) bool { return isStmtText(n, "copy(newPath[1:], existingPath)") }) &&
		hasNode(fe, func(n ast.Node) bool { return isStmtText(n, "newPath := make([]identity.AgentID, len(existingPath)+1)") })
	g.line("Definition gen_forward_prepends_self_to_path : bool := %s.", coqBool(prep))
	// the receiver records the sender as next hop and the decoded path as is
	pm := findFuncInDir("internal/routing", "Manager", "ProcessRouteAdvertise")
	nh := compositeField(pm, "&Route", "NextHop") == "fromPeer" && compositeField(pm, "&Route", "Path") == "path" && compositeField(pm, "&Route", "OriginAgent") == "originAgent"
	g.line("Definition gen_store_next_hop_is_sender_path_as_received : bool := %s.", coqBool(nh))
	g.line("Definition gen_forward_path_extension_unconditional : bool := %s.", coqBool(floodPathExtensionUnconditional(ff)))
	g.line("Definition gen_display_name_cut_to_255_bytes : bool := %s.", coqBool(floodDisplayNameCutInBytes(ff)))
	// ipNetToProtocolRoute: family and prefix length both come from the mask (bits == 128 -> IPv6), the prefix is network.IP as held
	ip := findFunc(ff, "", "ipNetToProtocolRoute")
	ipOK := hasNode(ip, func(n ast.Node) bool { return isStmtText(n, "ones, bits := network.Mask.Size()") }) &&
		hasNode(ip, func(n ast.Node) bool {
			is, ok := n.(*ast.IfStmt)
			return ok && norm(src(is.Cond)) == "bits == 128" && len(is.Body.List) == 1 && isStmtText(is.Body.List[0], "family = protocol.AddrFamilyIPv6")
		}) && compositeField(ip, "protocol.Route", "PrefixLength") == "uint8(ones)" && compositeField(ip, "protocol.Route", "Prefix") == "[]byte(network.IP)" &&
		compositeField(ip, "protocol.Route", "AddressFamily") == "family"
	g.line("Definition gen_ipnet_family_and_length_from_mask : bool := %s.", coqBool(ipOK))
	// routeAdvertiseLoop: period from routing.advertise_interval (default 2 min), stale-route TTL from routing.route_ttl
	// (default 5 periods), cleanup of all four tables then AnnounceLocalRoutes on every tick
	ral := findFunc(fa, "Agent", "routeAdvertiseLoop")
	ralOK := hasNode(ral, func(n ast.Node) bool { return isStmtText(n, "interval := a.cfg.Routing.AdvertiseInterval") }) &&
		hasNode(ral, func(n ast.Node) bool { return isStmtText(n, "ticker := time.NewTicker(interval)") }) &&
		hasNode(ral, func(n ast.Node) bool { return isStmtText(n, "routeTTL := a.cfg.Routing.RouteTTL") }) &&
		hasNode(ral, func(n ast.Node) bool { return isStmtText(n, "routeTTL = interval * 5") })
	reassigned := 0
	if ral != nil {
		ast.Inspect(ral.Body, func(n ast.Node) bool {
			if a, ok := n.(*ast.AssignStmt); ok && len(a.Lhs) == 1 && norm(src(a.Lhs[0])) == "interval" {
				reassigned++
			}
			return true
		})
	}
	g.line("Definition gen_route_advertise_loop_period_is_advertise_interval : bool := %s.", coqBool(ralOK && reassigned == 2))
	// connect / disconnect wiring
	pc := findFunc(fa, "Agent", "handlePeerConnected")
	sft := callArgs(pc, "a.flooder.SendFullTable")
	g.line("Definition gen_peer_connected_sends_full_table : bool := %s.", coqBool(len(sft) == 1 && sft[0] == "peerID"))
	pd := findFunc(fa, "Agent", "handlePeerDisconnect")
	all4 := true
	for _, fn := range []string{"HandlePeerDisconnect", "HandlePeerDisconnectDomain", "HandlePeerDisconnectForward", "HandlePeerDisconnectAgent"} {
		a := callArgs(pd, "a.routeMgr."+fn)
		if len(a) != 1 || a[0] != "peerID" {
			all4 = false
		}
	}
	g.line("Definition gen_peer_disconnect_drops_routes_of_all_tables : bool := %s.", coqBool(all4))
	g.line("Local Open Scope N_scope.")
	g.line("Definition gen_open_next_hop_index : N := %d.", nz(nextIdx))
	g.line("Definition gen_open_drops : N := %d.", nz(drop))
	g.line("Definition gen_dial_drops : N := %d.", nz(dialDrop))
	if nextIdx < 0 || drop < 0 || dialDrop < 0 {
		g.note("handleStreamOpen / DialContext path handling pattern not recognised")
	}
}

// metricIncrement finds `Metric: entry.Metric + k` in the composite literal of typ in fd.
func metricIncrement(fd *ast.FuncDecl, typ, base string) int64 {
	res := int64(-1)
	if fd == nil || fd.Body == nil {
		return res
	}
	ast.Inspect(fd.Body, func(n ast.Node) bool {
		if cl, ok := n.(*ast.CompositeLit); ok && norm(src(cl.Type)) == strings.TrimPrefix(typ, "&") {
			for _, el := range cl.Elts {
				if kv, ok := el.(*ast.KeyValueExpr); ok && norm(src(kv.Key)) == "Metric" {
					if be, ok := kv.Value.(*ast.BinaryExpr); ok && be.Op == token.ADD && norm(src(be.X)) == base {
						if v, ok := intLit(be.Y, nil); ok {
							res = v
						}
					}
				}
			}
		}
		return true
	})
	return res
}

func genC13(g *gen) {
	ff := parseFile(floodGo)
	fa := parseFile(agentGo)
	h := findFunc(ff, "Flooder", "HandleRouteAdvertise")
	// forwarded routes: a copy of the received routes with Metric++ on every element, and that copy is what is flooded
	incr := int64(-1)
	if h != nil {
		ast.Inspect(h.Body, func(n ast.Node) bool {
			rs, ok := n.(*ast.RangeStmt)
			if !ok || norm(src(rs.X)) != "fwdRoutes" || len(rs.Body.List) != 1 {
				return true
			}
			if id, ok := rs.Body.List[0].(*ast.IncDecStmt); ok && id.Tok == token.INC && norm(src(id.X)) == "fwdRoutes[i].Metric" {
				incr = 1
			}
			if as, ok := rs.Body.List[0].(*ast.AssignStmt); ok && as.Tok == token.ADD_ASSIGN && norm(src(as.Lhs[0])) == "fwdRoutes[i].Metric" {
				if v, ok := intLit(as.Rhs[0], nil); ok {
					incr = v
				}
			}
			return true
		})
	}
	cp := hasNode(h, func(n ast.Node) bool { return isStmtText(n, "copy(fwdRoutes, routes)") })
	fargs := callArgs(h, "f.floodAdvertisementEncrypted")
	floodsCopy := len(fargs) == 7 && fargs[4] == "fwdRoutes"
	if !cp || !floodsCopy {
		incr = -1
	}
	fe := findFunc(ff, "Flooder", "floodAdvertisementEncrypted")
	passes := compositeField(fe, "&protocol.RouteAdvertise", "Routes") == "routes"
	g.line("Definition gen_forward_metric_increment : N := %d.", nz(incr))
	g.line("Definition gen_flood_sends_given_routes : bool := %s.", coqBool(passes))
	// receipt
	g.line("Definition gen_store_increment_cidr : N := %d.", nz(metricIncrement(findFuncInDir("internal/routing", "Manager", "ProcessRouteAdvertise"), "&Route", "entry.Metric")))
	g.line("Definition gen_store_increment_domain : N := %d.", nz(metricIncrement(findFuncInDir("internal/routing", "Manager", "ProcessDomainRouteAdvertise"), "&DomainRoute", "entry.Metric")))
	g.line("Definition gen_store_increment_forward : N := %d.", nz(metricIncrement(findFuncInDir("internal/routing", "Manager", "ProcessForwardRouteAdvertise"), "&ForwardRoute", "entry.Metric")))
	agentInc := int64(-1)
	aargs := callArgs(h, "f.routeMgr.ProcessAgentRouteAdvertise")
	if len(aargs) == 7 {
		switch aargs[6] {
		case "r.Metric+1", "r.Metric + 1":
			agentInc = 1
		}
	}
	pa := findFuncInDir("internal/routing", "Manager", "ProcessAgentRouteAdvertise")
	if compositeField(pa, "&AgentRoute", "Metric") != "metric" {
		agentInc = -1
	}
	g.line("Definition gen_store_increment_agent : N := %d.", nz(agentInc))
	// entries of the conversions keep the received metric (the +1 happens once, in the manager)
	keep := true
	for _, typ := range []string{"routing.RouteEntry", "routing.DomainRouteEntry", "routing.ForwardRouteEntry"} {
		if compositeField(h, typ, "Metric") != "r.Metric" {
			keep = false
		}
	}
	g.line("Definition gen_conversion_keeps_metric : bool := %s.", coqBool(keep))
	// origin: presence announced with metric 0, local routes with their configured metric
	an := findFunc(ff, "Flooder", "AnnounceLocalRoutes")
	pres := int64(-1)
	if an != nil {
		ast.Inspect(an.Body, func(n ast.Node) bool {
			if cl, ok := n.(*ast.CompositeLit); ok && norm(src(cl.Type)) == "protocol.Route" {
				isAgent := false
				var m int64 = -1
				for _, el := range cl.Elts {
					if kv, ok := el.(*ast.KeyValueExpr); ok {
						if norm(src(kv.Key)) == "AddressFamily" && norm(src(kv.Value)) == "protocol.AddrFamilyAgent" {
							isAgent = true
						}
						if norm(src(kv.Key)) == "Metric" {
							if v, ok := intLit(kv.Value, nil); ok {
								m = v
							}
						}
					}
				}
				if isAgent {
					pres = m
				}
			}
			return true
		})
	}
	g.line("Definition gen_presence_metric : N := %d.", nz(pres))
	// metrics agent.go configures for exit / domain / forward routes
	var cfgMetrics []string
	ic := findFunc(fa, "Agent", "initComponents")
	for _, fn := range []string{"a.routeMgr.AddLocalRoute", "a.routeMgr.AddLocalDomainRoute", "a.routeMgr.AddLocalForwardRoute"} {
		a := callArgs(ic, fn)
		if len(a) == 0 {
			cfgMetrics = append(cfgMetrics, "999999")
		} else {
			cfgMetrics = append(cfgMetrics, a[len(a)-1])
		}
	}
	g.line("Definition gen_config_route_metrics : list N := [%s].", strings.Join(cfgMetrics, "; "))
	// replays send the stored metric
	sft := findFunc(ff, "Flooder", "SendFullTable")
	stored := 0
	if sft != nil {
		ast.Inspect(sft.Body, func(n ast.Node) bool {
			if cl, ok := n.(*ast.CompositeLit); ok && norm(src(cl.Type)) == "protocol.Route" {
				for _, el := range cl.Elts {
					if kv, ok := el.(*ast.KeyValueExpr); ok && norm(src(kv.Key)) == "Metric" && norm(src(kv.Value)) == "r.Metric" {
						stored++
					}
				}
			}
			return true
		})
	}
	rtp := findFunc(ff, "", "routeToProtocol")
	rtpOK := hasNode(rtp, func(n ast.Node) bool { return isExprText(n, "ipNetToProtocolRoute(route.Network, route.Metric)") })
	g.line("Definition gen_replay_sends_stored_metric : bool := %s.", coqBool(stored == 3 && rtpOK))
	g.line("Definition gen_forward_path_extension_unconditional_c13 : bool := %s.", coqBool(floodPathExtensionUnconditional(ff)))
	// Table.RemoveRoute keeps the remaining entries of a prefix in their (metric) order
	rr := findFuncInDir("internal/routing", "Table", "RemoveRoute")
	rrOK := hasNode(rr, func(n ast.Node) bool { return isStmtText(n, "t.routes[key] = append(routes[:i], routes[i+1:]...)") })
	ar := findFuncInDir("internal/routing", "Table", "AddRoute")
	sorts := 0
	if ar != nil {
		ast.Inspect(ar.Body, func(n ast.Node) bool {
			if c, ok := n.(*ast.CallExpr); ok && norm(src(c.Fun)) == "t.sortRoutes" {
				sorts++
			}
			return true
		})
	}
	g.line("Definition gen_table_keeps_entries_sorted_by_metric : bool := %s.", coqBool(rrOK && sorts == 2))
	if incr < 0 {
		g.note("re-flood metric increment pattern not recognised")
	}
}

func genC14(g *gen) {
	ff := parseFile(floodGo)
	g.line("Local Open Scope string_scope.")
	g.line("Definition gen_replay_key_fields : list string := %s.", coqStrListFlood(structFields(ff, "replayKey")))
	rk := findFunc(ff, "Flooder", "replayKeyFor")
	own := hasNode(rk, func(n ast.Node) bool {
		is, ok := n.(*ast.IfStmt)
		if !ok || norm(src(is.Cond)) != "origin == f.localID" || len(is.Body.List) != 1 {
			return false
		}
		r, ok := is.Body.List[0].(*ast.ReturnStmt)
		return ok && len(r.Results) == 1 && norm(src(r.Results[0])) == "replayKey{origin: origin}"
	})
	foreign := hasNode(rk, func(n ast.Node) bool {
		r, ok := n.(*ast.ReturnStmt)
		return ok && len(r.Results) == 1 && norm(src(r.Results[0])) == "replayKey{origin: origin, seq: seq, path: string(protocol.EncodePath(path))}"
	})
	g.line("Definition gen_replay_key_own_group_else_origin_seq_path : bool := %s.", coqBool(own && foreign))
	sft := findFunc(ff, "Flooder", "SendFullTable")
	// every table is grouped with replayKeyFor(route.OriginAgent, route.Sequence, route.Path)
	groupCalls := 0
	if sft != nil {
		ast.Inspect(sft.Body, func(n ast.Node) bool {
			if c, ok := n.(*ast.CallExpr); ok && norm(src(c.Fun)) == "f.replayKeyFor" && len(c.Args) == 3 &&
				norm(src(c.Args[0])) == "route.OriginAgent" && norm(src(c.Args[1])) == "route.Sequence" && norm(src(c.Args[2])) == "route.Path" {
				groupCalls++
			}
			return true
		})
	}
	g.line("Definition gen_replay_tables_grouped_by_key : nat := %d.", groupCalls)
	seqFromKey := hasNode(sft, func(n ast.Node) bool { return isStmtText(n, "seq := key.seq") })
	freshOwn := hasNode(sft, func(n ast.Node) bool {
		is, ok := n.(*ast.IfStmt)
		if !ok || norm(src(is.Cond)) != "originAgent == f.localID" || len(is.Body.List) != 1 || is.Else != nil {
			return false
		}
		return isStmtText(is.Body.List[0], "seq = f.routeMgr.IncrementSequence()")
	})
	// IncrementSequence is called nowhere else in SendFullTable
	incCalls := 0
	if sft != nil {
		ast.Inspect(sft.Body, func(n ast.Node) bool {
			if c, ok := n.(*ast.CallExpr); ok && norm(src(c.Fun)) == "f.routeMgr.IncrementSequence" {
				incCalls++
			}
			return true
		})
	}
	g.line("Definition gen_replay_sequence_is_stored_one_fresh_only_for_own : bool := %s.", coqBool(seqFromKey && freshOwn && incCalls == 1))
	// the sequence is chosen inside the loop over splitRoutes(routes): one advertisement (and, for own routes, one
	// fresh sequence number) per group that fits a frame; the advertisement carries that group
	inSplit := floodInRangeOver(sft, "splitRoutes(routes)", func(n ast.Node) bool { return isStmtText(n, "seq := key.seq") }) &&
		floodInRangeOver(sft, "splitRoutes(routes)", func(n ast.Node) bool { return isStmtText(n, "seq = f.routeMgr.IncrementSequence()") })
	g.line("Definition gen_replay_sequence_chosen_per_split_group : bool := %s.", coqBool(inSplit && compositeField(sft, "&protocol.RouteAdvertise", "Routes") == "group"))
	// bestGroup: of the foreign groups with one (origin, sequence) only the preferred one is replayed
	sizeOK := hasNode(sft, func(n ast.Node) bool {
		return isStmtText(n, "return len(byOrigin[k]) + len(agentByOrigin[k]) + len(forwardByOrigin[k]) + len(domainByOrigin[k])")
	})
	skipOwn := floodInRangeOver(sft, "allOrigins", func(n ast.Node) bool {
		is, ok := n.(*ast.IfStmt)
		if !ok || norm(src(is.Cond)) != "key.origin == f.localID" || len(is.Body.List) != 1 {
			return false
		}
		b, ok := is.Body.List[0].(*ast.BranchStmt)
		return ok && b.Tok == token.CONTINUE
	})
	prefer := hasNode(sft, func(n ast.Node) bool {
		is, ok := n.(*ast.IfStmt)
		return ok && norm(src(is.Cond)) == "!ok || groupSize(key) > groupSize(cur) || (groupSize(key) == groupSize(cur) && (len(key.path) < len(cur.path) || (len(key.path) == len(cur.path) && key.path < cur.path)))" &&
			len(is.Body.List) == 1 && isStmtText(is.Body.List[0], "bestGroup[ak] = key")
	})
	akOK := hasNode(sft, func(n ast.Node) bool {
		return isStmtText(n, "ak := AdvertisementKey{OriginAgent: key.origin, Sequence: key.seq}")
	})
	drop := hasNode(sft, func(n ast.Node) bool {
		is, ok := n.(*ast.IfStmt)
		return ok && norm(src(is.Cond)) == "key.origin != f.localID && bestGroup[AdvertisementKey{OriginAgent: key.origin, Sequence: key.seq}] != key" &&
			len(is.Body.List) == 1 && isStmtText(is.Body.List[0], "delete(allOrigins, key)")
	})
	pDrop := posOf(sft, func(n ast.Node) bool { return isStmtText(n, "delete(allOrigins, key)") })
	pOnPath := posOf(sft, func(n ast.Node) bool { return isExprText(n, "containsAgent(path, peerID)") })
	g.line("Definition gen_replay_keeps_best_group_per_origin_sequence : bool := %s.", coqBool(sizeOK && skipOwn && prefer && akOK && drop && pDrop > 0 && pDrop < pOnPath))
	g.line("Definition gen_replay_adv_sequence : string := %s.", coqString(compositeField(sft, "&protocol.RouteAdvertise", "Sequence")))
	g.line("Definition gen_replay_adv_origin : string := %s.", coqString(compositeField(sft, "&protocol.RouteAdvertise", "OriginAgent")))
	g.line("Definition gen_replay_adv_seenby : string := %s.", coqString(compositeField(sft, "&protocol.RouteAdvertise", "SeenBy")))
	g.line("Definition gen_replay_adv_path : string := %s.", coqString(compositeField(sft, "&protocol.RouteAdvertise", "Path")))
	skipOnPath := hasNode(sft, func(n ast.Node) bool {
		is, ok := n.(*ast.IfStmt)
		if !ok || norm(src(is.Cond)) != "containsAgent(path, peerID)" || len(is.Body.List) != 1 {
			return false
		}
		b, ok := is.Body.List[0].(*ast.BranchStmt)
		return ok && b.Tok == token.CONTINUE
	})
	g.line("Definition gen_replay_skips_peer_on_path : bool := %s.", coqBool(skipOnPath))
	// AddRoute of the four tables: "newer sequence, or same sequence and better metric"
	n := 0
	for _, t := range []string{"Table", "DomainTable", "ForwardTable", "AgentTable"} {
		ar := findFuncInDir("internal/routing", t, "AddRoute")
		if hasNode(ar, func(x ast.Node) bool {
			is, ok := x.(*ast.IfStmt)
			return ok && norm(src(is.Cond)) == "route.Sequence > r.Sequence || (route.Sequence == r.Sequence && route.Metric < r.Metric)"
		}) {
			n++
		}
	}
	g.line("Definition gen_addroute_newer_or_better_tables : nat := %d.", n)
	// the announcing side: fresh sequence per announcement, seen-by and path start at the origin
	an := findFunc(ff, "Flooder", "AnnounceLocalRoutes")
	fresh := hasNode(an, func(x ast.Node) bool { return isStmtText(x, "seq := f.routeMgr.IncrementSequence()") }) &&
		compositeField(an, "&protocol.RouteAdvertise", "Sequence") == "seq" &&
		compositeField(an, "&protocol.RouteAdvertise", "OriginAgent") == "f.localID" &&
		compositeField(an, "&protocol.RouteAdvertise", "SeenBy") == "[]identity.AgentID{f.localID}"
	perGroup := floodInRangeOver(an, "splitRoutes(routes)", func(x ast.Node) bool { return isStmtText(x, "seq := f.routeMgr.IncrementSequence()") }) &&
		compositeField(an, "&protocol.RouteAdvertise", "Routes") == "group"
	g.line("Definition gen_announce_fresh_sequence_own_origin : bool := %s.", coqBool(fresh && perGroup))
	// splitRoutes: at most this many routes per advertisement (the model assumes route sets that fit one)
	maxRoutes := int64(-1)
	if e := constExpr(ff, "maxRoutesPerAdvertise"); e != nil {
		if v, ok := intLit(e, nil); ok {
			maxRoutes = v
		}
	}
	g.line("Definition gen_max_routes_per_advertisement : N := %d%%N.", nz(maxRoutes))
	g.line("Definition gen_display_name_cut_to_255_bytes_c14 : bool := %s.", coqBool(floodDisplayNameCutInBytes(ff)))
	inc := findFuncInDir("internal/routing", "Manager", "IncrementSequence")
	incOK := hasNode(inc, func(x ast.Node) bool { return isStmtText(x, "m.sequence++") }) &&
		hasNode(inc, func(x ast.Node) bool { return isStmtText(x, "return m.sequence") })
	g.line("Definition gen_increment_sequence_is_plus_one : bool := %s.", coqBool(incOK))
}

func cmpOf(fd *ast.FuncDecl, lhs, rhs string) string {
	res := "none"
	if fd == nil || fd.Body == nil {
		return res
	}
	ast.Inspect(fd.Body, func(n ast.Node) bool {
		is, ok := n.(*ast.IfStmt)
		if !ok {
			return true
		}
		be, ok := is.Cond.(*ast.BinaryExpr)
		if !ok || be.Op != token.LAND || norm(src(be.X)) != "f.cfg.MaxHops > 0" {
			return true
		}
		c, ok := be.Y.(*ast.BinaryExpr)
		if !ok || norm(src(c.X)) != lhs || norm(src(c.Y)) != rhs {
			return true
		}
		tag := ""
		switch c.Op {
		case token.GTR:
			tag = "gt"
		case token.GEQ:
			tag = "ge"
		default:
			tag = "other"
		}
		// what the branch does
		act := "other"
		if len(is.Body.List) == 1 {
			switch b := is.Body.List[0].(type) {
			case *ast.ReturnStmt:
				if len(b.Results) == 1 {
					act = "return-" + norm(src(b.Results[0]))
				}
			case *ast.BranchStmt:
				if b.Tok == token.CONTINUE {
					act = "continue"
				}
			}
		}
		if res == "none" {
			res = tag + ":" + act
		} else {
			res = res + "," + tag + ":" + act
		}
		return true
	})
	return res
}

func genC15(g *gen) {
	ff := parseFile(floodGo)
	fa := parseFile(agentGo)
	fc := parseFile("internal/config/config.go")
	g.line("Local Open Scope string_scope.")
	h := findFunc(ff, "Flooder", "HandleRouteAdvertise")
	g.line("Definition gen_handle_hop_checks : string := %s.", coqString(cmpOf(h, "len(path)", "f.cfg.MaxHops")))
	sft := findFunc(ff, "Flooder", "SendFullTable")
	g.line("Definition gen_replay_hop_checks : string := %s.", coqString(cmpOf(sft, "len(path)", "f.cfg.MaxHops")))
	// order: the store check precedes every Process*RouteAdvertise call, the forward check lies between the last of them and the flood
	pStoreChk := posOf(h, func(n ast.Node) bool { return isExprText(n, "len(path) > f.cfg.MaxHops") })
	pFwdChk := posOf(h, func(n ast.Node) bool { return isExprText(n, "len(path) >= f.cfg.MaxHops") })
	pDecode := posOf(h, func(n ast.Node) bool { return isExprText(n, "protocol.DecodePath(encPath.Data)") })
	first, last := -1, -1
	for _, fn := range []string{"f.routeMgr.ProcessAgentRouteAdvertise", "f.routeMgr.ProcessRouteAdvertise", "f.routeMgr.ProcessDomainRouteAdvertise", "f.routeMgr.ProcessForwardRouteAdvertise"} {
		p := posOf(h, func(n ast.Node) bool {
			c, ok := n.(*ast.CallExpr)
			return ok && norm(src(c.Fun)) == fn
		})
		if p < 0 {
			first, last = -1, -1
			break
		}
		if first < 0 || p < first {
			first = p
		}
		if p > last {
			last = p
		}
	}
	pFlood := posOf(h, func(n ast.Node) bool {
		c, ok := n.(*ast.CallExpr)
		return ok && norm(src(c.Fun)) == "f.floodAdvertisementEncrypted"
	})
	ordered := pDecode >= 0 && pDecode < pStoreChk && pStoreChk < first && last < pFwdChk && pFwdChk < pFlood
	g.line("Definition gen_hop_checks_placed_before_store_and_before_flood : bool := %s.", coqBool(ordered))
	// the replay check looks at the path that is sent (local id prepended)
	pathWithSelf := hasNode(sft, func(n ast.Node) bool {
		return isStmtText(n, "path = append([]identity.AgentID{f.localID}, cidrRoutes[0].Path...)")
	}) && hasNode(sft, func(n ast.Node) bool { return isStmtText(n, "path = []identity.AgentID{f.localID}") })
	g.line("Definition gen_replay_path_has_self_prepended : bool := %s.", coqBool(pathWithSelf))
	// plumbing: agent -> FloodConfig
	ic := findFunc(fa, "Agent", "initComponents")
	// the assignment must be an unconditional (top-level) statement of initComponents
	plumbed := false
	if ic != nil && ic.Body != nil {
		for _, st := range ic.Body.List {
			if isStmtText(st, "floodCfg.MaxHops = a.cfg.Routing.MaxHops") {
				plumbed = true
			}
		}
	}
	// NewFlooder takes the configured value as it is (no rewriting of cfg.MaxHops)
	nfl := findFunc(ff, "", "NewFlooder")
	if hasNode(nfl, func(n ast.Node) bool {
		a, ok := n.(*ast.AssignStmt)
		return ok && len(a.Lhs) == 1 && norm(src(a.Lhs[0])) == "cfg.MaxHops"
	}) {
		plumbed = false
	}
	pAssign := posOf(ic, func(n ast.Node) bool { return isStmtText(n, "floodCfg.MaxHops = a.cfg.Routing.MaxHops") })
	pNew := posOf(ic, func(n ast.Node) bool {
		c, ok := n.(*ast.CallExpr)
		return ok && norm(src(c.Fun)) == "flood.NewFlooder" && len(c.Args) >= 1 && norm(src(c.Args[0])) == "floodCfg"
	})
	g.line("Definition gen_max_hops_plumbed_into_flood_config : bool := %s.", coqBool(plumbed && pAssign < pNew && pNew > 0))
	nf := findFunc(ff, "", "NewFlooder")
	keepCfg := compositeField(nf, "&Flooder", "cfg") == "cfg"
	g.line("Definition gen_flooder_keeps_config : bool := %s.", coqBool(keepCfg))
	hasField := false
	for _, n := range structFields(ff, "FloodConfig") {
		if n == "MaxHops" {
			hasField = true
		}
	}
	g.line("Definition gen_flood_config_has_max_hops : bool := %s.", coqBool(hasField))
	// config validation range and default
	v := findFunc(fc, "Config", "Validate")
	rng := hasNode(v, func(n ast.Node) bool {
		is, ok := n.(*ast.IfStmt)
		return ok && norm(src(is.Cond)) == "c.Routing.MaxHops < 1 || c.Routing.MaxHops > 255"
	})
	g.line("Definition gen_config_validates_1_to_255 : bool := %s.", coqBool(rng))
	def := int64(-1)
	if d := findFunc(fc, "", "Default"); d != nil {
		ast.Inspect(d.Body, func(n ast.Node) bool {
			if kv, ok := n.(*ast.KeyValueExpr); ok && norm(src(kv.Key)) == "MaxHops" {
				if x, ok := intLit(kv.Value, nil); ok {
					def = x
				}
			}
			return true
		})
	}
	g.line("Local Open Scope N_scope.")
	g.line("Definition gen_config_default_max_hops : N := %d.", nz(def))
}

// floodInRangeOver reports whether fd contains a `for ... := range <over>`
// statement whose body contains a node satisfying pred.
func floodInRangeOver(fd *ast.FuncDecl, over string, pred func(ast.Node) bool) bool {
	if fd == nil || fd.Body == nil {
		return false
	}
	found := false
	ast.Inspect(fd.Body, func(n ast.Node) bool {
		rs, ok := n.(*ast.RangeStmt)
		if !ok || norm(src(rs.X)) != over {
			return true
		}
		ast.Inspect(rs.Body, func(m ast.Node) bool {
			if m != nil && !found && pred(m) {
				found = true
			}
			return !found
		})
		return true
	})
	return found
}

// floodSeenOneLockRegion: among the top-level statements of HandleRouteAdvertise there is
//   f.mu.Lock()
//   if <lookup of f.seenCache[key]> { ... f.mu.Unlock() ... return false }   (the already-seen branch)
//   f.seenCache[key] = ...                                                    (the mark)
//   ... f.mu.Unlock()
// with no top-level f.mu.Unlock()/RUnlock() between the Lock and the mark, the lookup nowhere
// outside that region, and no read lock of f.mu anywhere in the function.
func floodSeenOneLockRegion(h *ast.FuncDecl) bool {
	if h == nil || h.Body == nil {
		return false
	}
	if hasNode(h, func(n ast.Node) bool { return isExprText(n, "f.mu.RLock()") || isExprText(n, "f.mu.RUnlock()") }) {
		return false
	}
	isCall := func(st ast.Stmt, text string) bool {
		es, ok := st.(*ast.ExprStmt)
		return ok && norm(src(es.X)) == text
	}
	mentionsLookup := func(n ast.Node) bool {
		found := false
		ast.Inspect(n, func(x ast.Node) bool {
			if x != nil && isExprText(x, "f.seenCache[key]") {
				found = true
			}
			return !found
		})
		return found
	}
	state := 0 // 0: before Lock, 1: locked, 2: lookup seen, 3: marked, 4: unlocked after mark
	for _, st := range h.Body.List {
		switch state {
		case 0:
			if isCall(st, "f.mu.Lock()") {
				state = 1
			} else if mentionsLookup(st) {
				return false
			}
		case 1, 2:
			if isCall(st, "f.mu.Unlock()") {
				return false // region ends before the mark
			}
			if is, ok := st.(*ast.IfStmt); ok && state == 1 && is.Init != nil && mentionsLookup(is.Init) {
				// the seen branch must release the lock and return
				rel := false
				ret := false
				for _, b := range is.Body.List {
					if isCall(b, "f.mu.Unlock()") {
						rel = true
					}
					if _, ok := b.(*ast.ReturnStmt); ok {
						ret = true
					}
				}
				if !rel || !ret {
					return false
				}
				state = 2
				continue
			}
			if as, ok := st.(*ast.AssignStmt); ok && len(as.Lhs) == 1 && norm(src(as.Lhs[0])) == "f.seenCache[key]" {
				if state != 2 {
					return false
				}
				state = 3
			}
		case 3:
			if isCall(st, "f.mu.Unlock()") {
				state = 4
			} else if isCall(st, "f.mu.Lock()") {
				return false
			}
		case 4:
			if mentionsLookup(st) {
				return false
			}
		}
	}
	return state == 4
}

// floodDisplayNameCutInBytes: getLocalDisplayName cuts the name to maxDisplayNameLen (= 255) BYTES.
func floodDisplayNameCutInBytes(f *ast.File) bool {
	gd := findFunc(f, "Flooder", "getLocalDisplayName")
	cut := hasNode(gd, func(n ast.Node) bool {
		is, ok := n.(*ast.IfStmt)
		return ok && norm(src(is.Cond)) == "len(name) > maxDisplayNameLen" && len(is.Body.List) == 1 &&
			isStmtText(is.Body.List[0], "name = name[:maxDisplayNameLen]")
	})
	v := int64(-1)
	if e := constExpr(f, "maxDisplayNameLen"); e != nil {
		if x, ok := intLit(e, nil); ok {
			v = x
		}
	}
	return cut && v == 255
}

// floodPathExtensionUnconditional: floodAdvertisementEncrypted extends a plaintext path in a top-level
// `if encPath != nil && !encPath.Encrypted { ... newPath[0] = f.localID ... }` (no other condition, e.g. on the
// sealed box, in front of it).
func floodPathExtensionUnconditional(f *ast.File) bool {
	fe := findFunc(f, "Flooder", "floodAdvertisementEncrypted")
	if fe == nil || fe.Body == nil {
		return false
	}
	for _, st := range fe.Body.List {
		is, ok := st.(*ast.IfStmt)
		if !ok || norm(src(is.Cond)) != "encPath != nil && !encPath.Encrypted" {
			continue
		}
		pre, cp := false, false
		for _, b := range is.Body.List {
			if isStmtText(b, "newPath[0] = f.localID") {
				pre = true
			}
			if isStmtText(b, "copy(newPath[1:], existingPath)") {
				cp = true
			}
		}
		return pre && cp
	}
	return false
}
