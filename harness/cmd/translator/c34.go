package main

import (
	"go/ast"
	"go/token"
	"strconv"
	"strings"
)

func init() { generators["C34"] = genC34 }

func stringConstFs(f *ast.File, name string) string {
	if e := constExpr(f, name); e != nil {
		if bl, ok := e.(*ast.BasicLit); ok && bl.Kind == token.STRING {
			if s, err := strconv.Unquote(bl.Value); err == nil {
				return s
			}
		}
	}
	return ""
}

// errorTexts returns, in source order, the message literals of the
// fmt.Errorf / errors.New calls inside fd.
func errorTexts(fd *ast.FuncDecl) []string {
	var out []string
	if fd == nil || fd.Body == nil {
		return out
	}
	ast.Inspect(fd.Body, func(n ast.Node) bool {
		call, ok := n.(*ast.CallExpr)
		if !ok || len(call.Args) == 0 {
			return true
		}
		fn := src(call.Fun)
		if fn != "fmt.Errorf" && fn != "errors.New" {
			return true
		}
		if bl, ok := call.Args[0].(*ast.BasicLit); ok && bl.Kind == token.STRING {
			if s, err := strconv.Unquote(bl.Value); err == nil {
				out = append(out, s)
			}
		}
		return true
	})
	return out
}

// fileCalls lists, in source order, the os.WriteFile / os.Rename /
// os.MkdirAll / os.Remove calls of fd as "write(a)", "rename(a,b)", ...
func fileCalls(fd *ast.FuncDecl) []string {
	var out []string
	if fd == nil || fd.Body == nil {
		return out
	}
	ast.Inspect(fd.Body, func(n ast.Node) bool {
		call, ok := n.(*ast.CallExpr)
		if !ok {
			return true
		}
		arg := func(i int) string {
			if i < len(call.Args) {
				return strings.ReplaceAll(src(call.Args[i]), " ", "")
			}
			return "?"
		}
		switch src(call.Fun) {
		case "os.WriteFile":
			out = append(out, "write("+arg(0)+")")
		case "os.Rename":
			out = append(out, "rename("+arg(0)+","+arg(1)+")")
		case "os.MkdirAll":
			out = append(out, "mkdirall("+arg(0)+")")
		}
		return true
	})
	return out
}

// anonymise renames the distinct arguments of the calls a0, a1, ... in order
// of first appearance, so that the fact does not depend on variable names.
func anonymise(calls []string) []string {
	names := map[string]string{}
	out := make([]string, len(calls))
	for i, c := range calls {
		open := strings.Index(c, "(")
		args := strings.Split(c[open+1:len(c)-1], ",")
		for j, a := range args {
			if _, ok := names[a]; !ok {
				names[a] = "a" + strconv.Itoa(len(names))
			}
			args[j] = names[a]
		}
		out[i] = c[:open] + "(" + strings.Join(args, ",") + ")"
	}
	return out
}

// definedWith reports whether the variable named in the k-th argument of the
// n-th call of kind `kind` is assigned from an expression mentioning `needle`.
func renameDstDefinedWith(fd *ast.FuncDecl, n int, needle string) bool {
	if fd == nil || fd.Body == nil {
		return false
	}
	dst := ""
	seen := 0
	ast.Inspect(fd.Body, func(nd ast.Node) bool {
		if call, ok := nd.(*ast.CallExpr); ok && src(call.Fun) == "os.Rename" && len(call.Args) == 2 {
			if seen == n {
				dst = src(call.Args[1])
			}
			seen++
		}
		return true
	})
	found := false
	ast.Inspect(fd.Body, func(nd ast.Node) bool {
		if as, ok := nd.(*ast.AssignStmt); ok && len(as.Lhs) == 1 && len(as.Rhs) == 1 && src(as.Lhs[0]) == dst {
			if strings.Contains(src(as.Rhs[0]), needle) {
				found = true
			}
		}
		return true
	})
	return found
}

func coqStringList(xs []string) string {
	if len(xs) == 0 {
		return "[]"
	}
	q := make([]string, len(xs))
	for i, x := range xs {
		q[i] = coqString(x)
	}
	return "[" + strings.Join(q, "; ") + "]"
}

func coqBoolList(xs []bool) string {
	if len(xs) == 0 {
		return "[]"
	}
	q := make([]string, len(xs))
	for i, x := range xs {
		q[i] = coqBool(x)
	}
	return "[" + strings.Join(q, "; ") + "]"
}

// C34: file names, which load errors say "not found", the order of the
// file operations of the three store routines, and the position of the
// public-key restoration in LoadOrCreateKeypair.
func genC34(g *gen) {
	idf := parseFile("internal/identity/identity.go")
	kpf := parseFile("internal/identity/keypair.go")
	slf := parseFile("internal/sleep/sleep.go")
	g.line("Local Open Scope string_scope.")
	g.line("Definition gen_id_file : string := %s.", coqString(stringConstFs(idf, "idFileName")))
	g.line("Definition gen_key_file : string := %s.", coqString(stringConstFs(kpf, "keyFileName")))
	g.line("Definition gen_pub_file : string := %s.", coqString(stringConstFs(kpf, "pubKeyFileName")))
	// sleep state file name: the literal joined with dataDir in NewManager
	sleepName := ""
	if fd := findFunc(slf, "", "NewManager"); fd != nil {
		ast.Inspect(fd.Body, func(n ast.Node) bool {
			if kv, ok := n.(*ast.KeyValueExpr); ok && src(kv.Key) == "stateFile" {
				if call, ok := kv.Value.(*ast.CallExpr); ok && src(call.Fun) == "filepath.Join" && len(call.Args) == 2 {
					if bl, ok := call.Args[1].(*ast.BasicLit); ok {
						sleepName, _ = strconv.Unquote(bl.Value)
					}
				}
			}
			return true
		})
	}
	g.line("Definition gen_sleep_file : string := %s.", coqString(sleepName))

	flags := func(texts []string) []bool {
		out := make([]bool, len(texts))
		for i, t := range texts {
			out[i] = strings.Contains(t, "not found")
		}
		return out
	}
	loadID := errorTexts(findFunc(idf, "", "Load"))
	loadKP := errorTexts(findFunc(kpf, "", "LoadKeypair"))
	g.line("(* error texts of identity.Load / LoadKeypair in source order, and whether each contains \"not found\" *)")
	g.line("Definition gen_load_id_errors : list string := %s.", coqStringList(loadID))
	g.line("Definition gen_load_id_not_found : list bool := %s.", coqBoolList(flags(loadID)))
	g.line("Definition gen_load_kp_errors : list string := %s.", coqStringList(loadKP))
	g.line("Definition gen_load_kp_not_found : list bool := %s.", coqBoolList(flags(loadKP)))
	// the regeneration test is the substring test on "not found"
	substr := func(fd *ast.FuncDecl) bool {
		return fd != nil && strings.Contains(strings.ReplaceAll(src(fd.Body), " ", ""), `strings.Contains(err.Error(),"notfound")`)
	}
	g.line("Definition gen_id_regenerates_on_not_found_text : bool := %s.", coqBool(substr(findFunc(idf, "", "LoadOrCreate"))))
	g.line("Definition gen_kp_regenerates_on_not_found_text : bool := %s.", coqBool(substr(findFunc(kpf, "", "LoadOrCreateKeypair"))))

	g.line("(* file operations in source order; arguments renamed a0, a1, ... by first appearance *)")
	g.line("Definition gen_id_store_calls : list string := %s.", coqStringList(anonymise(fileCalls(findFunc(idf, "AgentID", "Store")))))
	g.line("Definition gen_kp_store_calls : list string := %s.", coqStringList(anonymise(fileCalls(findFunc(kpf, "Keypair", "Store")))))
	g.line("Definition gen_kp_restore_calls : list string := %s.", coqStringList(anonymise(fileCalls(findFunc(kpf, "", "restorePublicKey")))))
	g.line("Definition gen_sleep_persist_calls : list string := %s.", coqStringList(anonymise(fileCalls(findFunc(slf, "Manager", "persistState")))))

	g.line("Definition gen_kp_store_private_first : bool := %s.", coqBool(renameDstDefinedWith(findFunc(kpf, "Keypair", "Store"), 0, "keyFileName") && renameDstDefinedWith(findFunc(kpf, "Keypair", "Store"), 1, "pubKeyFileName")))
	// LoadOrCreateKeypair: restorePublicKey is called, guarded by os.Stat of the private key file, before NewKeypair
	restoreBeforeNew := false
	if fd := findFunc(kpf, "", "LoadOrCreateKeypair"); fd != nil && fd.Body != nil {
		s := strings.ReplaceAll(src(fd.Body), " ", "")
		i := strings.Index(s, "restorePublicKey(dataDir)")
		j := strings.Index(s, "NewKeypair()")
		k := strings.Index(s, "os.Stat(filepath.Join(dataDir,keyFileName))")
		restoreBeforeNew = k >= 0 && i > k && j > i
	}
	g.line("Definition gen_kp_restore_guarded_before_generate : bool := %s.", coqBool(restoreBeforeNew))
}
