package main

// Shared by the C01/C02/C03 generators: facts about internal/crypto/crypto.go
// and about every call site of crypto.DeriveSessionKey.

import (
	"fmt"
	"go/ast"
	"go/token"
	"os"
	"path/filepath"
	"sort"
	"strings"
)

// argument classes (numbers are what Generated/*.v contains)
const (
	clsUnknown   = 0
	clsOwnPriv   = 1
	clsOwnPub    = 2
	clsRemotePub = 3
	clsReqID     = 4
	clsSecret    = 5
)

type keySite struct {
	file, fn, kind     string
	flag               int // 1 = true, 0 = false, 2 = not a literal
	id, a, b           int
	ss                 int // class of the first argument (clsSecret when it is the result of ComputeECDH in the same function)
	ecdhPriv, ecdhPub  int
	line               int
}

type helperCall struct {
	file, fn, helper string
	args             []int
}

// kindOf maps (package dir, function) of a derivation site to the tunnel kind
// and role it implements. Unknown functions get kind "other".
func kindOf(dir, fn string) string {
	switch dir + ":" + fn {
	case "internal/agent:DialContext", "internal/agent:dialViaDomainRouteWithContext", "internal/exit:handleStreamOpenAsync":
		return "tcp"
	case "internal/agent:DialForward", "internal/forward:handleStreamOpenAsync":
		return "forward"
	case "internal/agent:handleUDPOpenAck", "internal/udp:performKeyExchange":
		return "udp"
	case "internal/agent:deriveICMPSessionKey", "internal/icmp:performKeyExchange":
		return "icmp"
	case "internal/agent:OpenShellStream", "internal/shell:HandleStreamOpen":
		return "shell"
	case "internal/agent:UploadFile", "internal/agent:DownloadFile", "internal/agent:DownloadFileStream", "internal/agent:deriveResponderSessionKey":
		return "file"
	}
	return "other"
}

func isCryptoCall(e ast.Expr, name string, samePkg bool) (*ast.CallExpr, bool) {
	call, ok := e.(*ast.CallExpr)
	if !ok {
		return nil, false
	}
	switch f := call.Fun.(type) {
	case *ast.SelectorExpr:
		if x, ok := f.X.(*ast.Ident); ok && x.Name == "crypto" && f.Sel.Name == name {
			return call, true
		}
	case *ast.Ident:
		if samePkg && f.Name == name {
			return call, true
		}
	}
	return nil, false
}

type defInfo struct {
	origin string // "keypair0", "keypair1", "ecdh", "decoded"
	call   *ast.CallExpr
}

// defsIn collects, for one function, identifiers defined from the calls that
// matter for classification.
func defsIn(fd *ast.FuncDecl) map[string]defInfo {
	defs := map[string]defInfo{}
	ast.Inspect(fd.Body, func(n ast.Node) bool {
		as, ok := n.(*ast.AssignStmt)
		if !ok || len(as.Rhs) != 1 {
			return true
		}
		if call, ok := isCryptoCall(as.Rhs[0], "GenerateEphemeralKeypair", false); ok {
			for i, l := range as.Lhs {
				if id, ok := l.(*ast.Ident); ok && i < 2 {
					defs[id.Name] = defInfo{origin: []string{"keypair0", "keypair1"}[i], call: call}
				}
			}
			return true
		}
		if call, ok := isCryptoCall(as.Rhs[0], "ComputeECDH", false); ok {
			if id, ok := as.Lhs[0].(*ast.Ident); ok {
				defs[id.Name] = defInfo{origin: "ecdh", call: call}
			}
			return true
		}
		if call, ok := as.Rhs[0].(*ast.CallExpr); ok {
			if sel, ok := call.Fun.(*ast.SelectorExpr); ok {
				if x, ok := sel.X.(*ast.Ident); ok && x.Name == "protocol" && strings.HasPrefix(sel.Sel.Name, "Decode") {
					if id, ok := as.Lhs[0].(*ast.Ident); ok {
						defs[id.Name] = defInfo{origin: "decoded", call: call}
					}
				}
			}
		}
		return true
	})
	return defs
}

func classify(e ast.Expr, defs map[string]defInfo) int {
	for {
		switch x := e.(type) {
		case *ast.ParenExpr:
			e = x.X
			continue
		case *ast.StarExpr:
			e = x.X
			continue
		case *ast.UnaryExpr:
			if x.Op == token.AND {
				e = x.X
				continue
			}
		}
		break
	}
	switch x := e.(type) {
	case *ast.Ident:
		if d, ok := defs[x.Name]; ok {
			switch d.origin {
			case "keypair0":
				return clsOwnPriv
			case "keypair1":
				return clsOwnPub
			case "ecdh":
				return clsSecret
			}
		}
		l := strings.ToLower(x.Name)
		switch {
		case strings.Contains(l, "remote"):
			return clsRemotePub
		case l == "requestid" || l == "reqid":
			return clsReqID
		case strings.Contains(l, "priv"):
			return clsOwnPriv
		case strings.Contains(l, "pub"):
			return clsOwnPub
		}
	case *ast.SelectorExpr:
		sel := x.Sel.Name
		switch {
		case sel == "RequestID":
			return clsReqID
		case strings.Contains(sel, "Remote"):
			return clsRemotePub
		case sel == "EphemeralPubKey":
			if b, ok := x.X.(*ast.Ident); ok {
				if d, ok := defs[b.Name]; ok && d.origin == "decoded" {
					return clsRemotePub
				}
				if b.Name == "ack" || b.Name == "open" {
					return clsRemotePub
				}
			}
			return clsOwnPub
		case sel == "EphemeralPrivKey":
			return clsOwnPriv
		}
	}
	return clsUnknown
}

var keySitesCache []keySite
var helperCallsCache []helperCall
var keySitesDone bool

// scanKeySites walks every non-test package under internal/ (except
// internal/crypto itself) for DeriveSessionKey call sites and for calls of the
// helper functions that contain such sites with parameter arguments.
func scanKeySites() ([]keySite, []helperCall) {
	if keySitesDone {
		return keySitesCache, helperCallsCache
	}
	keySitesDone = true
	var dirs []string
	filepath.Walk(filepath.Join(repo, "internal"), func(p string, info os.FileInfo, err error) error {
		if err == nil && info.IsDir() {
			rel, _ := filepath.Rel(repo, p)
			dirs = append(dirs, rel)
		}
		return nil
	})
	sort.Strings(dirs)
	helpers := map[string]bool{}
	type fnRef struct {
		dir  string
		file *ast.File
		fd   *ast.FuncDecl
	}
	var fns []fnRef
	for _, dir := range dirs {
		if dir == "internal/crypto" {
			continue
		}
		for _, f := range parseDir(dir) {
			for _, d := range f.Decls {
				if fd, ok := d.(*ast.FuncDecl); ok && fd.Body != nil {
					fns = append(fns, fnRef{dir, f, fd})
				}
			}
		}
	}
	for _, fr := range fns {
		defs := defsIn(fr.fd)
		ast.Inspect(fr.fd.Body, func(n ast.Node) bool {
			call, ok := isCryptoCall2(n)
			if !ok || len(call.Args) != 5 {
				return true
			}
			s := keySite{file: relFile(fr.file), fn: fr.fd.Name.Name, kind: kindOf(fr.dir, fr.fd.Name.Name), flag: 2,
				line: fset.Position(call.Pos()).Line}
			if id, ok := call.Args[4].(*ast.Ident); ok {
				if id.Name == "true" {
					s.flag = 1
				} else if id.Name == "false" {
					s.flag = 0
				}
			}
			s.ss = classify(call.Args[0], defs)
			s.id = classify(call.Args[1], defs)
			s.a = classify(call.Args[2], defs)
			s.b = classify(call.Args[3], defs)
			if id, ok := call.Args[0].(*ast.Ident); ok {
				if d, ok := defs[id.Name]; ok && d.origin == "ecdh" && len(d.call.Args) == 2 {
					s.ecdhPriv = classify(d.call.Args[0], defs)
					s.ecdhPub = classify(d.call.Args[1], defs)
				}
			}
			keySitesCache = append(keySitesCache, s)
			// a site whose key arguments are parameters of the enclosing function is a helper
			params := map[string]bool{}
			for _, fl := range fr.fd.Type.Params.List {
				for _, nm := range fl.Names {
					params[nm.Name] = true
				}
			}
			usesParam := false
			for _, a := range call.Args[1:4] {
				if id, ok := a.(*ast.Ident); ok && params[id.Name] {
					usesParam = true
				}
			}
			if usesParam && fr.fd.Recv == nil {
				helpers[fr.dir+":"+fr.fd.Name.Name] = true
			}
			return true
		})
	}
	// calls of helper functions (same package, unqualified)
	for _, fr := range fns {
		defs := defsIn(fr.fd)
		ast.Inspect(fr.fd.Body, func(n ast.Node) bool {
			call, ok := n.(*ast.CallExpr)
			if !ok {
				return true
			}
			id, ok := call.Fun.(*ast.Ident)
			if !ok || !helpers[fr.dir+":"+id.Name] {
				return true
			}
			hc := helperCall{file: relFile(fr.file), fn: fr.fd.Name.Name, helper: id.Name}
			for _, a := range call.Args {
				hc.args = append(hc.args, classify(a, defs))
			}
			helperCallsCache = append(helperCallsCache, hc)
			return true
		})
	}
	sort.Slice(keySitesCache, func(i, j int) bool {
		a, b := keySitesCache[i], keySitesCache[j]
		if a.file != b.file {
			return a.file < b.file
		}
		return a.line < b.line
	})
	return keySitesCache, helperCallsCache
}

func isCryptoCall2(n ast.Node) (*ast.CallExpr, bool) {
	e, ok := n.(ast.Expr)
	if !ok {
		return nil, false
	}
	return isCryptoCall(e, "DeriveSessionKey", false)
}

func relFile(f *ast.File) string {
	p := fset.Position(f.Pos()).Filename
	rel, err := filepath.Rel(repo, p)
	if err != nil {
		return p
	}
	return rel
}

// paramClasses gives the classes of a helper's parameters, by name.
func helperParamClasses(dir, name string) []int {
	fd := findFuncInDir(dir, "", name)
	if fd == nil {
		return nil
	}
	var out []int
	for _, fl := range fd.Type.Params.List {
		for _, nm := range fl.Names {
			out = append(out, classify(nm, map[string]defInfo{}))
		}
	}
	return out
}

// ---------------------------------------------------------------------------
// crypto.go facts

type noncePrefixFacts struct {
	initiator, responder [4]int64
	counterOffset        int64
	counterField         string
	bigEndian            bool
	returnsArray         bool
	ok                   bool
}

// noncePrefix analyses buildSendNonce / buildRecvNonce: a zero array, an
// optional `if [!]s.isInitiator { nonce[i] = lit }`, and
// binary.BigEndian.PutUint64(nonce[off:], s.<field>).
func noncePrefix(fn string) noncePrefixFacts {
	var r noncePrefixFacts
	f := parseFile("internal/crypto/crypto.go")
	fd := findFunc(f, "SessionKey", fn)
	if fd == nil || fd.Body == nil {
		return r
	}
	if fd.Type.Results != nil && len(fd.Type.Results.List) == 1 {
		_, r.returnsArray = fd.Type.Results.List[0].Type.(*ast.ArrayType)
		if at, ok := fd.Type.Results.List[0].Type.(*ast.ArrayType); ok && at.Len == nil {
			r.returnsArray = false // slice
		}
	}
	r.ok = true
	r.counterOffset = -1
	for _, st := range fd.Body.List {
		switch s := st.(type) {
		case *ast.IfStmt:
			neg := false
			cond := s.Cond
			if u, ok := cond.(*ast.UnaryExpr); ok && u.Op == token.NOT {
				neg = true
				cond = u.X
			}
			sel, ok := cond.(*ast.SelectorExpr)
			if !ok || sel.Sel.Name != "isInitiator" || s.Else != nil {
				r.ok = false
				continue
			}
			for _, b := range s.Body.List {
				as, ok := b.(*ast.AssignStmt)
				if !ok || len(as.Lhs) != 1 || len(as.Rhs) != 1 {
					r.ok = false
					continue
				}
				ix, ok := as.Lhs[0].(*ast.IndexExpr)
				if !ok {
					r.ok = false
					continue
				}
				i, ok1 := intLit(ix.Index, nil)
				v, ok2 := intLit(as.Rhs[0], nil)
				if !ok1 || !ok2 || i < 0 || i > 3 {
					r.ok = false
					continue
				}
				if neg {
					r.responder[i] = v
				} else {
					r.initiator[i] = v
				}
			}
		case *ast.ExprStmt:
			call, ok := s.X.(*ast.CallExpr)
			if !ok {
				continue
			}
			if src(call.Fun) == "binary.BigEndian.PutUint64" && len(call.Args) == 2 {
				r.bigEndian = true
				if sl, ok := call.Args[0].(*ast.SliceExpr); ok && sl.High == nil {
					if v, ok := intLit(sl.Low, nil); ok {
						r.counterOffset = v
					}
				}
				if sel, ok := call.Args[1].(*ast.SelectorExpr); ok {
					r.counterField = sel.Sel.Name
				}
			}
		case *ast.AssignStmt:
			// any other write into nonce[...] is not understood
			for _, l := range s.Lhs {
				if _, ok := l.(*ast.IndexExpr); ok {
					r.ok = false
				}
			}
		}
	}
	return r
}

func isMuCall(st ast.Stmt, method string) bool {
	es, ok := st.(*ast.ExprStmt)
	if !ok {
		return false
	}
	call, ok := es.X.(*ast.CallExpr)
	if !ok {
		return false
	}
	sel, ok := call.Fun.(*ast.SelectorExpr)
	if !ok || sel.Sel.Name != method {
		return false
	}
	inner, ok := sel.X.(*ast.SelectorExpr)
	return ok && inner.Sel.Name == "mu"
}

// lockedAt reports whether position p in fd lies after a top-level
// s.mu.Lock() and before the next top-level s.mu.Unlock().
func lockedAt(fd *ast.FuncDecl, p token.Pos) bool {
	locked := false
	for _, st := range fd.Body.List {
		if st.Pos() > p {
			break
		}
		if isMuCall(st, "Lock") {
			locked = true
		} else if isMuCall(st, "Unlock") {
			locked = false
		}
	}
	return locked
}

// fieldWrites returns the positions of writes (assignment, ++, --) to
// <recv>.<field> inside fd.
func fieldWrites(fd *ast.FuncDecl, field string) []token.Pos {
	var out []token.Pos
	isField := func(e ast.Expr) bool {
		sel, ok := e.(*ast.SelectorExpr)
		return ok && sel.Sel.Name == field
	}
	ast.Inspect(fd.Body, func(n ast.Node) bool {
		switch s := n.(type) {
		case *ast.AssignStmt:
			for _, l := range s.Lhs {
				if isField(l) {
					out = append(out, s.Pos())
				}
			}
		case *ast.IncDecStmt:
			if isField(s.X) {
				out = append(out, s.Pos())
			}
		}
		return true
	})
	return out
}

func fieldRefs(fd *ast.FuncDecl, field string) []token.Pos {
	var out []token.Pos
	ast.Inspect(fd.Body, func(n ast.Node) bool {
		if sel, ok := n.(*ast.SelectorExpr); ok && sel.Sel.Name == field {
			out = append(out, sel.Pos())
		}
		return true
	})
	return out
}

func callPositions(fd *ast.FuncDecl, match func(*ast.CallExpr) bool) []token.Pos {
	var out []token.Pos
	ast.Inspect(fd.Body, func(n ast.Node) bool {
		if c, ok := n.(*ast.CallExpr); ok && match(c) {
			out = append(out, c.Pos())
		}
		return true
	})
	return out
}

// writersOf lists the functions of internal/crypto (non-test, non-verif) that write the field.
func writersOf(field string) []string {
	var out []string
	for _, f := range parseDir("internal/crypto") {
		for _, d := range f.Decls {
			fd, ok := d.(*ast.FuncDecl)
			if !ok || fd.Body == nil {
				continue
			}
			if len(fieldWrites(fd, field)) > 0 {
				out = append(out, fd.Name.Name)
			}
		}
	}
	sort.Strings(out)
	return out
}

func coqNList(xs []int64) string {
	s := make([]string, len(xs))
	for i, x := range xs {
		s[i] = itoa(x)
	}
	return "[" + strings.Join(s, "; ") + "]"
}

func itoa(x int64) string {
	if x < 0 {
		return "999999"
	}
	return fmt.Sprintf("%d", x)
}

func coqStrList(xs []string) string {
	s := make([]string, len(xs))
	for i, x := range xs {
		s[i] = coqString(x)
	}
	return "[" + strings.Join(s, "; ") + "]"
}
