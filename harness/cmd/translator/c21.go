package main

import (
	"go/ast"
	"go/token"
	"strings"
)

func init() { generators["C21"] = genC21 }

// C21: how the list of SOCKS5 authenticators comes about and where the
// WebSocket listener checks HTTP Basic credentials.
func genC21(g *gen) {
	auth := parseFile("internal/socks5/auth.go")
	for _, c := range [][2]string{{"gen_method_noauth", "AuthMethodNoAuth"}, {"gen_method_userpass", "AuthMethodUserPass"}, {"gen_method_no_acceptable", "AuthMethodNoAcceptable"}} {
		if v, ok := intConst(auth, c[1]); ok {
			g.line("Definition %s : N := %d.", c[0], v)
		} else {
			g.note("constant %s not found", c[1])
			g.line("Definition %s : N := 999.", c[0])
		}
	}

	// CreateAuthenticators:
	//   if cfg.Enabled { if len(HashedUsers) > 0 {..UserPass(hashed)} else if len(Users) > 0 {..UserPass(static)} else {..UserPass(empty)} }
	//   if !cfg.Required { append NoAuth }
	enabledAlwaysUserPass, hashedFirst, noAuthOnlyIfNotRequired := false, false, false
	if fd := findFunc(auth, "", "CreateAuthenticators"); fd != nil && fd.Body != nil {
		cfgName := ""
		if ps := paramNames(fd); len(ps) == 1 {
			cfgName = ps[0]
		}
		appendsUserPass := func(b *ast.BlockStmt) bool {
			found := false
			calls(b, func(c *ast.CallExpr) {
				if calleeName(c) == "NewUserPassAuthenticator" {
					found = true
				}
			})
			return found
		}
		noAuthAppends := 0
		noAuthGuarded := 0
		for _, st := range fd.Body.List {
			is, ok := st.(*ast.IfStmt)
			if !ok {
				continue
			}
			switch src(is.Cond) {
			case cfgName + ".Enabled":
				// the statement list of the body must be one if / else-if / else chain whose every arm adds a user/pass authenticator
				if len(is.Body.List) == 1 {
					if chain, ok := is.Body.List[0].(*ast.IfStmt); ok {
						all := true
						first := true
						var cur ast.Stmt = chain
						closed := false
						for cur != nil {
							switch n := cur.(type) {
							case *ast.IfStmt:
								if !appendsUserPass(n.Body) {
									all = false
								}
								if first {
									hashedFirst = strings.Contains(src(n.Cond), "HashedUsers") && strings.Contains(src(n.Body), "HashedCredentials")
									first = false
								}
								cur = n.Else
							case *ast.BlockStmt:
								if !appendsUserPass(n) {
									all = false
								}
								closed = true
								cur = nil
							default:
								all = false
								cur = nil
							}
						}
						enabledAlwaysUserPass = all && closed
					}
				}
			case "!" + cfgName + ".Required":
				if strings.Contains(src(is.Body), "NoAuthAuthenticator") {
					noAuthGuarded++
				}
			}
		}
		ast.Inspect(fd.Body, func(n ast.Node) bool {
			if cl, ok := n.(*ast.CompositeLit); ok && strings.HasSuffix(src(cl.Type), "NoAuthAuthenticator") {
				noAuthAppends++
			}
			return true
		})
		noAuthOnlyIfNotRequired = noAuthAppends == 1 && noAuthGuarded == 1
	}
	g.line("Definition gen_enabled_always_adds_userpass : bool := %s.", coqBool(enabledAlwaysUserPass))
	g.line("Definition gen_hashed_store_has_precedence : bool := %s.", coqBool(hashedFirst))
	g.line("Definition gen_noauth_only_if_not_required : bool := %s.", coqBool(noAuthOnlyIfNotRequired))

	// NewHandler / NewServer: an empty list is replaced by [NoAuth] (the model's handler_auths)
	emptyDefault := func(file, fn, what string) bool {
		f := parseFile(file)
		fd := findFunc(f, "", fn)
		if fd == nil || fd.Body == nil {
			return false
		}
		ok := false
		for _, st := range fd.Body.List {
			if is, isIf := st.(*ast.IfStmt); isIf && strings.HasPrefix(src(is.Cond), "len(") && strings.HasSuffix(src(is.Cond), "== 0") &&
				strings.Contains(src(is.Cond), what) && strings.Contains(src(is.Body), "NoAuthAuthenticator") {
				ok = true
			}
		}
		return ok
	}
	g.line("Definition gen_new_handler_defaults_empty_to_noauth : bool := %s.", coqBool(emptyDefault("internal/socks5/handler.go", "NewHandler", "auths")))
	g.line("Definition gen_new_server_defaults_empty_to_noauth : bool := %s.", coqBool(emptyDefault("internal/socks5/server.go", "NewServer", "Authenticators")))

	// agent.buildSOCKS5Auth
	af := parseFile("internal/agent/agent.go")
	disabledNoAuth, reqTrue, enTrue, precedence := false, false, false, false
	if fd := findFunc(af, "Agent", "buildSOCKS5Auth"); fd != nil && fd.Body != nil {
		for _, st := range fd.Body.List {
			switch s := st.(type) {
			case *ast.IfStmt:
				if strings.HasSuffix(src(s.Cond), "Auth.Enabled") && strings.HasPrefix(src(s.Cond), "!") && strings.Contains(src(s.Body), "NoAuthAuthenticator") {
					disabledNoAuth = true
				}
			case *ast.RangeStmt:
				// if u.PasswordHash != "" { hashed[..] = .. } else if u.Password != "" { users[..] = .. }
				if len(s.Body.List) == 1 {
					if is, ok := s.Body.List[0].(*ast.IfStmt); ok && strings.HasSuffix(src(is.Cond), `.PasswordHash != ""`) {
						if e2, ok := is.Else.(*ast.IfStmt); ok && strings.HasSuffix(src(e2.Cond), `.Password != ""`) && e2.Else == nil {
							precedence = true
						}
					}
				}
			case *ast.ReturnStmt:
				if len(s.Results) == 1 {
					if c, ok := s.Results[0].(*ast.CallExpr); ok && strings.HasSuffix(calleeName(c), "CreateAuthenticators") && len(c.Args) == 1 {
						if cl, ok := c.Args[0].(*ast.CompositeLit); ok {
							for _, el := range cl.Elts {
								if kv, ok := el.(*ast.KeyValueExpr); ok {
									if src(kv.Key) == "Required" && src(kv.Value) == "true" {
										reqTrue = true
									}
									if src(kv.Key) == "Enabled" && src(kv.Value) == "true" {
										enTrue = true
									}
								}
							}
						}
					}
				}
			}
		}
	}
	g.line("Definition gen_auth_disabled_is_noauth : bool := %s.", coqBool(disabledNoAuth))
	g.line("Definition gen_build_auth_required : bool := %s.", coqBool(reqTrue))
	g.line("Definition gen_build_auth_enabled : bool := %s.", coqBool(enTrue))
	g.line("Definition gen_unusable_users_dropped_hash_first : bool := %s.", coqBool(precedence))

	// initComponents: auths := a.buildSOCKS5Auth(); ServerConfig{Authenticators: auths}
	wired := false
	if fd := findFunc(af, "Agent", "initComponents"); fd != nil && fd.Body != nil {
		authVar := ""
		ast.Inspect(fd.Body, func(n ast.Node) bool {
			switch x := n.(type) {
			case *ast.AssignStmt:
				if len(x.Lhs) == 1 && len(x.Rhs) == 1 {
					if c, ok := x.Rhs[0].(*ast.CallExpr); ok && strings.HasSuffix(calleeName(c), ".buildSOCKS5Auth") {
						authVar = src(x.Lhs[0])
					}
				}
			case *ast.KeyValueExpr:
				if src(x.Key) == "Authenticators" && authVar != "" && src(x.Value) == authVar {
					wired = true
				}
			}
			return true
		})
	}
	g.line("Definition gen_server_uses_build_auth : bool := %s.", coqBool(wired))

	// Start: if a.cfg.SOCKS5.Auth.Enabled { wsCfg.Credentials = a.buildSOCKS5CredentialStore() }
	wsCreds := false
	if fd := findFunc(af, "Agent", "Start"); fd != nil && fd.Body != nil {
		ast.Inspect(fd.Body, func(n ast.Node) bool {
			if is, ok := n.(*ast.IfStmt); ok && strings.HasSuffix(src(is.Cond), "SOCKS5.Auth.Enabled") && !strings.HasPrefix(src(is.Cond), "!") {
				for _, st := range is.Body.List {
					if as, ok := st.(*ast.AssignStmt); ok && as.Tok == token.ASSIGN && len(as.Lhs) == 1 && len(as.Rhs) == 1 &&
						strings.HasSuffix(src(as.Lhs[0]), ".Credentials") && strings.Contains(src(as.Rhs[0]), "buildSOCKS5CredentialStore()") {
						wsCreds = true
					}
				}
			}
			return true
		})
	}
	g.line("Definition gen_ws_credentials_set_when_auth_enabled : bool := %s.", coqBool(wsCreds))

	// buildSOCKS5CredentialStore: hashed if any, else static (never nil)
	storeShape := false
	if fd := findFunc(af, "Agent", "buildSOCKS5CredentialStore"); fd != nil && fd.Body != nil {
		n := len(fd.Body.List)
		if n >= 2 {
			if is, ok := fd.Body.List[n-2].(*ast.IfStmt); ok && strings.Contains(src(is.Cond), "len(hashedUsers) > 0") && strings.Contains(src(is.Body), "HashedCredentials(") {
				if rs, ok := fd.Body.List[n-1].(*ast.ReturnStmt); ok && len(rs.Results) == 1 && strings.Contains(src(rs.Results[0]), "StaticCredentials(") {
					storeShape = true
				}
			}
		}
	}
	g.line("Definition gen_ws_store_hashed_else_static : bool := %s.", coqBool(storeShape))

	// handleWebSocket: credential gate (401 + return) precedes websocket.Accept
	gate := false
	wf := parseFile("internal/socks5/ws_listener.go")
	if fd := findFunc(wf, "WebSocketListener", "handleWebSocket"); fd != nil && fd.Body != nil {
		gateIdx, acceptIdx := -1, -1
		for i, st := range fd.Body.List {
			if is, ok := st.(*ast.IfStmt); ok && strings.HasSuffix(src(is.Cond), "Credentials != nil") {
				// inner: if !ok || !....Valid(username, password) { ...; return }
				for _, in := range is.Body.List {
					if iis, ok := in.(*ast.IfStmt); ok && strings.Contains(src(iis.Cond), "!ok") && strings.Contains(src(iis.Cond), ".Valid(") && strings.Contains(src(iis.Cond), "||") {
						ret := false
						for _, b := range iis.Body.List {
							if _, ok := b.(*ast.ReturnStmt); ok {
								ret = true
							}
						}
						if ret && strings.Contains(src(is.Body), "BasicAuth()") {
							gateIdx = i
						}
					}
				}
			}
			if acceptIdx < 0 && strings.Contains(src(st), "websocket.Accept(") {
				acceptIdx = i
			}
		}
		gate = gateIdx >= 0 && acceptIdx > gateIdx
	}
	g.line("Definition gen_ws_gate_before_accept : bool := %s.", coqBool(gate))

	// --- the credential check itself -------------------------------------------------
	// package-level variables of package socks5 (any file): the Valid methods and
	// Authenticate may read none of them except dummyHash (no remembered logins, no switches)
	pkgVars := map[string]bool{}
	for _, f := range parseDir("internal/socks5") {
		for _, d := range f.Decls {
			if gd, ok := d.(*ast.GenDecl); ok && gd.Tok == token.VAR {
				for _, sp := range gd.Specs {
					if vs, ok := sp.(*ast.ValueSpec); ok {
						for _, n := range vs.Names {
							pkgVars[n.Name] = true
						}
					}
				}
			}
		}
	}
	usesOnlyDummy := func(fd *ast.FuncDecl) bool {
		ok := true
		ast.Inspect(fd.Body, func(n ast.Node) bool {
			switch x := n.(type) {
			case *ast.SelectorExpr:
				ast.Inspect(x.X, func(m ast.Node) bool {
					if id, isId := m.(*ast.Ident); isId && pkgVars[id.Name] && id.Name != "dummyHash" {
						ok = false
					}
					return true
				})
				return false // do not look at field / method names
			case *ast.Ident:
				if pkgVars[x.Name] && x.Name != "dummyHash" {
					ok = false
				}
			}
			return true
		})
		return ok
	}
	// every return of a Valid method is `false` or the one accepting comparison
	storedVar := func(recv string) string {
		// first statement: <stored>, ok := <receiver>[<first parameter>]
		fd := findFunc(auth, recv, "Valid")
		if fd == nil || fd.Body == nil || len(fd.Body.List) == 0 {
			return ""
		}
		ps := paramNames(fd)
		as, ok := fd.Body.List[0].(*ast.AssignStmt)
		if !ok || len(ps) != 2 || len(as.Lhs) != 2 || len(as.Rhs) != 1 {
			return ""
		}
		ix, ok := as.Rhs[0].(*ast.IndexExpr)
		rn := ""
		if fd.Recv != nil && len(fd.Recv.List) == 1 && len(fd.Recv.List[0].Names) == 1 {
			rn = fd.Recv.List[0].Names[0].Name
		}
		if ok && src(ix.X) == rn && isIdent(ix.Index, ps[0]) {
			return src(as.Lhs[0]) + "|" + ps[1]
		}
		return ""
	}
	validShape := func(recv string, accept func(string) bool) (bool, bool) {
		fd := findFunc(auth, recv, "Valid")
		if fd == nil || fd.Body == nil {
			return false, false
		}
		accepting, other := 0, 0
		ast.Inspect(fd.Body, func(n ast.Node) bool {
			if r, isRet := n.(*ast.ReturnStmt); isRet && len(r.Results) == 1 {
				e := strings.ReplaceAll(src(r.Results[0]), " ", "")
				switch {
				case e == "false":
				case accept(e):
					accepting++
				default:
					other++
				}
			}
			return true
		})
		return accepting == 1 && other == 0, usesOnlyDummy(fd)
	}
	hv, sv := strings.Split(storedVar("HashedCredentials")+"|", "|"), strings.Split(storedVar("StaticCredentials")+"|", "|")
	hashedOK, hashedPure := validShape("HashedCredentials", func(e string) bool {
		return hv[0] != "" && e == "bcrypt.CompareHashAndPassword([]byte("+hv[0]+"),[]byte("+hv[1]+"))==nil"
	})
	staticOK, staticPure := validShape("StaticCredentials", func(e string) bool {
		return sv[0] != "" && e == "subtle.ConstantTimeCompare([]byte("+sv[0]+"),[]byte("+sv[1]+"))==1"
	})
	g.line("Definition gen_hashed_valid_true_only_when_bcrypt_compare_is_nil : bool := %s.", coqBool(hashedOK))
	g.line("Definition gen_static_valid_true_only_when_passwords_compare_equal : bool := %s.", coqBool(staticOK))
	g.line("Definition gen_valid_reads_no_package_state : bool := %s.", coqBool(hashedPure && staticPure))
	g.line("Definition gen_valid_looks_up_exactly_the_presented_user : bool := %s.", coqBool(hv[0] != "" && sv[0] != ""))
	// Authenticate: one call of Credentials.Valid on exactly the bytes read, a failing check returns an
	// error, and the only error-free return comes after it
	authOK := false
	if fd := findFunc(auth, "UserPassAuthenticator", "Authenticate"); fd != nil && fd.Body != nil {
		validCalls := 0
		checkPos := token.NoPos
		ast.Inspect(fd.Body, func(n ast.Node) bool {
			switch x := n.(type) {
			case *ast.CallExpr:
				if strings.HasSuffix(calleeName(x), ".Credentials.Valid") {
					validCalls++
				}
			case *ast.IfStmt:
				if strings.ReplaceAll(src(x.Cond), " ", "") == "!a.Credentials.Valid(string(username),string(password))" {
					for _, b := range x.Body.List {
						if r, ok := b.(*ast.ReturnStmt); ok && len(r.Results) == 2 && src(r.Results[1]) != "nil" {
							checkPos = x.Pos()
						}
					}
				}
			}
			return true
		})
		okReturns, okAfter := 0, 0
		ast.Inspect(fd.Body, func(n ast.Node) bool {
			if r, ok := n.(*ast.ReturnStmt); ok && len(r.Results) == 2 && src(r.Results[1]) == "nil" {
				okReturns++
				if checkPos != token.NoPos && r.Pos() > checkPos {
					okAfter++
				}
			}
			return true
		})
		authOK = validCalls == 1 && checkPos != token.NoPos && okReturns == 1 && okAfter == 1 && usesOnlyDummy(fd)
	}
	g.line("Definition gen_authenticate_succeeds_only_after_valid : bool := %s.", coqBool(authOK))

	// Authenticate reads user name and password into buffers it allocates with the length it just read
	// (no fixed-size scratch buffer), and neither Handle nor authenticate turns a panic into a normal return
	g.line("Definition gen_authenticate_buffers_are_fresh : bool := %s.", coqBool(freshBuffers(findFunc(auth, "UserPassAuthenticator", "Authenticate"), false)))
	hfile := parseFile("internal/socks5/handler.go")
	noRecover := true
	for _, fn := range []string{"Handle", "authenticate"} {
		if fd := findFunc(hfile, "Handler", fn); fd != nil && fd.Body != nil {
			calls(fd.Body, func(c *ast.CallExpr) {
				if calleeName(c) == "recover" {
					noRecover = false
				}
			})
		} else {
			noRecover = false
		}
	}
	g.line("Definition gen_handshake_does_not_swallow_panics : bool := %s.", coqBool(noRecover))
}
