package main

import (
	"go/ast"
	"go/token"
	"strings"
)

func init() { generators["C18"] = genC18 }

// C18 source facts (internal/stream/manager.go, internal/agent/agent.go):
//   - in Manager.HandleStreamData, is the block that pushes the frame's data
//     placed before the block that handles the FIN_WRITE flag?
//   - the capacity of Stream.readBuffer
//   - the numeric values of the stream states and the state sets of CanWrite / CanRead
//   - meshConn.Write starts by refusing when !stream.CanWrite()
func genC18(g *gen) {
	f := parseFile("internal/stream/manager.go")
	pushIdx, finIdx := -1, -1
	finUnconditionalOnPushError := true
	if fd := findFunc(f, "Manager", "HandleStreamData"); fd != nil && fd.Body != nil {
		for i, st := range fd.Body.List {
			ifs, ok := st.(*ast.IfStmt)
			if !ok {
				continue
			}
			cond := src(ifs.Cond)
			body := src(ifs.Body)
			if strings.Contains(cond, "FlagFinWrite") && strings.Contains(body, "HandleRemoteFinWrite") && finIdx < 0 {
				finIdx = i
			}
			if strings.Contains(body, "PushData") && pushIdx < 0 {
				pushIdx = i
				_ = finUnconditionalOnPushError
			}
		}
	}
	if pushIdx < 0 || finIdx < 0 {
		g.note("HandleStreamData: data block or FIN block not recognised; order fact set to false")
	}
	g.line("Definition gen_push_before_fin : bool := %s.", coqBool(pushIdx >= 0 && finIdx >= 0 && pushIdx < finIdx))

	// readBuffer capacity in NewStream
	capv := int64(0)
	if fd := findFunc(f, "", "NewStream"); fd != nil {
		ast.Inspect(fd, func(n ast.Node) bool {
			kv, ok := n.(*ast.KeyValueExpr)
			if !ok {
				return true
			}
			if id, ok := kv.Key.(*ast.Ident); ok && id.Name == "readBuffer" {
				if call, ok := kv.Value.(*ast.CallExpr); ok && len(call.Args) == 2 {
					if v, ok := intLit(call.Args[1], nil); ok {
						capv = v
					}
				}
			}
			return true
		})
	}
	if capv == 0 {
		g.note("NewStream: readBuffer capacity not recognised")
	}
	g.line("Definition gen_read_buffer_cap : N := %d.", capv)

	// state constants (iota block of StreamState)
	states := map[string]int64{}
	if f != nil {
		for _, d := range f.Decls {
			gd, ok := d.(*ast.GenDecl)
			if !ok || gd.Tok != token.CONST {
				continue
			}
			isBlock := false
			for i, s := range gd.Specs {
				vs := s.(*ast.ValueSpec)
				if i == 0 && vs.Type != nil && src(vs.Type) == "StreamState" && len(vs.Values) == 1 && src(vs.Values[0]) == "iota" {
					isBlock = true
				}
				if isBlock {
					for _, n := range vs.Names {
						states[n.Name] = int64(i)
					}
				}
			}
		}
	}
	code := func(name string) int64 {
		if v, ok := states[name]; ok {
			return v
		}
		g.note("state constant %s not found", name)
		return 99
	}
	g.line("Definition gen_state_codes : list N := [%d; %d; %d; %d; %d].",
		code("StateOpening"), code("StateOpen"), code("StateHalfClosedLocal"), code("StateHalfClosedRemote"), code("StateClosed"))

	// state sets of CanWrite / CanRead: the identifiers compared with `state ==`
	set := func(method string) string {
		var out []string
		if fd := findFunc(f, "Stream", method); fd != nil {
			ast.Inspect(fd, func(n ast.Node) bool {
				be, ok := n.(*ast.BinaryExpr)
				if ok && be.Op == token.EQL {
					if id, ok := be.Y.(*ast.Ident); ok {
						if v, ok := states[id.Name]; ok {
							out = append(out, itoaC18(v))
						}
					}
				}
				return true
			})
		}
		if len(out) == 0 {
			g.note("%s: no state comparisons recognised", method)
		}
		return "[" + strings.Join(out, "; ") + "]"
	}
	g.line("Definition gen_can_write_states : list N := %s.", set("CanWrite"))
	g.line("Definition gen_can_read_states : list N := %s.", set("CanRead"))

	// Stream.Read: the first select takes buffered data without blocking; the
	// closed arm and the remoteFin arm of the second select drain the buffer
	// (inner select with a readBuffer case) before returning io.EOF; the
	// second select also has a readBuffer arm
	firstTakes, closedDrains, finDrains, dataArm := false, false, false, false
	if fd := findFunc(f, "Stream", "Read"); fd != nil && fd.Body != nil {
		nsel := 0
		for _, st := range fd.Body.List {
			sel, ok := st.(*ast.SelectStmt)
			if !ok {
				continue
			}
			nsel++
			for _, cl := range sel.Body.List {
				cc := cl.(*ast.CommClause)
				comm := src(cc.Comm)
				hasInnerDrain := false
				for _, b := range cc.Body {
					if inner, ok := b.(*ast.SelectStmt); ok {
						takes, def := false, false
						for _, icl := range inner.Body.List {
							icc := icl.(*ast.CommClause)
							if icc.Comm == nil {
								def = strings.Contains(src(icc), "io.EOF")
							} else if strings.Contains(src(icc.Comm), "<-s.readBuffer") {
								takes = true
							}
						}
						hasInnerDrain = takes && def
					}
				}
				switch {
				case nsel == 1 && strings.Contains(comm, "<-s.readBuffer"):
					// must be a non-blocking select: there is a default clause
					for _, c2 := range sel.Body.List {
						if c2.(*ast.CommClause).Comm == nil {
							firstTakes = true
						}
					}
				case nsel == 2 && strings.Contains(comm, "<-s.closed"):
					closedDrains = hasInnerDrain
				case nsel == 2 && strings.Contains(comm, "<-s.remoteFinCh"):
					finDrains = hasInnerDrain
				case nsel == 2 && strings.Contains(comm, "<-s.readBuffer"):
					dataArm = true
				}
			}
		}
	}
	if !(firstTakes && closedDrains && finDrains && dataArm) {
		g.note("Stream.Read select structure not recognised")
	}
	g.line("Definition gen_read_first_select_takes_buffered : bool := %s.", coqBool(firstTakes))
	g.line("Definition gen_read_closed_arm_drains : bool := %s.", coqBool(closedDrains))
	g.line("Definition gen_read_fin_arm_drains : bool := %s.", coqBool(finDrains))
	g.line("Definition gen_read_has_data_arm : bool := %s.", coqBool(dataArm))

	// PushData refuses with io.EOF once the stream is closed (first select)
	pushRefuses := false
	if fd := findFunc(f, "Stream", "PushData"); fd != nil && fd.Body != nil && len(fd.Body.List) > 0 {
		if sel, ok := fd.Body.List[0].(*ast.SelectStmt); ok {
			for _, cl := range sel.Body.List {
				cc := cl.(*ast.CommClause)
				if cc.Comm != nil && strings.Contains(src(cc.Comm), "<-s.closed") && strings.Contains(src(cc), "io.EOF") {
					pushRefuses = true
				}
			}
		}
	}
	g.line("Definition gen_push_refused_when_closed : bool := %s.", coqBool(pushRefuses))
	// PushData waits for room without a timeout or drop branch: its blocking select
	// has exactly the send arm and the closed arm, and the function uses no timer
	pushBlocks := false
	if fd := findFunc(f, "Stream", "PushData"); fd != nil && fd.Body != nil {
		body := src(fd.Body)
		var sels []*ast.SelectStmt
		for _, st := range fd.Body.List {
			if sel, ok := st.(*ast.SelectStmt); ok {
				sels = append(sels, sel)
			}
		}
		if len(sels) == 2 && len(sels[1].Body.List) == 2 && !strings.Contains(body, "time.") && !strings.Contains(body, "default:\n\t\treturn") {
			send, closed := false, false
			for _, cl := range sels[1].Body.List {
				cc := cl.(*ast.CommClause)
				if cc.Comm == nil {
					continue
				}
				c := src(cc.Comm)
				if strings.Contains(c, "s.readBuffer <-") {
					send = true
				}
				if strings.Contains(c, "<-s.closed") {
					closed = true
				}
			}
			pushBlocks = send && closed
		}
	}
	if !pushBlocks {
		g.note("PushData: the blocking select is not {send, closed} or the function uses a timer")
	}
	g.line("Definition gen_push_waits_without_timeout : bool := %s.", coqBool(pushBlocks))

	// ---- receivers of STREAM_DATA other than stream.Manager: the payload is
	// delivered whatever the flags say, and before the FIN_WRITE handling
	type recv struct{ name, file, recvT, fn, deliver string }
	for _, r := range []recv{
		{"exit", "internal/exit/handler.go", "Handler", "HandleStreamData", "ac.Conn.Write("},
		{"forward", "internal/forward/handler.go", "Handler", "HandleStreamData", "ac.Conn.Write("},
		{"file_upload", "internal/agent/agent.go", "Agent", "handleFileTransferStreamData", "fts.TempFile.Write("},
		{"shell_client", "internal/agent/agent.go", "Agent", "handleShellClientData", "adapter.PushReceive("},
		{"shell_server", "internal/shell/handler.go", "Handler", "HandleStreamData", "h.handleMessage("},
	} {
		fd := findFunc(parseFile(r.file), r.recvT, r.fn)
		deliverPos, finPos := token.NoPos, token.NoPos
		guardedByFlags := false
		if fd != nil && fd.Body != nil {
			var stack []ast.Node
			ast.Inspect(fd.Body, func(n ast.Node) bool {
				if n == nil {
					stack = stack[:len(stack)-1]
					return true
				}
				stack = append(stack, n)
				switch x := n.(type) {
				case *ast.CallExpr:
					if strings.HasPrefix(src(x), r.deliver) && deliverPos == token.NoPos {
						deliverPos = x.Pos()
						// is the delivery nested in a conditional that looks at the flags?
						for _, anc := range stack {
							if ifs, ok := anc.(*ast.IfStmt); ok {
								c := src(ifs.Cond)
								if strings.Contains(c, "flags") || strings.Contains(c, "FlagFinWrite") {
									guardedByFlags = true
								}
							}
						}
					}
				case *ast.IfStmt:
					if strings.Contains(src(x.Cond), "FlagFinWrite") && finPos == token.NoPos {
						finPos = x.Pos()
					}
				}
				return true
			})
		}
		ok := deliverPos != token.NoPos && !guardedByFlags && (finPos == token.NoPos || deliverPos < finPos)
		if r.name == "shell_server" {
			ok = deliverPos != token.NoPos && !guardedByFlags // the flags travel into handleMessage with the data
		}
		if !ok {
			g.note("%s.%s: delivery %q found=%v guarded by flags=%v before FIN handling=%v", r.recvT, r.fn, r.deliver, deliverPos != token.NoPos, guardedByFlags, finPos == token.NoPos || deliverPos < finPos)
		}
		g.line("Definition gen_%s_delivers_payload_before_fin : bool := %s.", r.name, coqBool(ok))
	}
	// exit / forward: the data block is entered exactly when the payload is non-empty
	for _, r := range []struct{ name, file string }{{"exit", "internal/exit/handler.go"}, {"forward", "internal/forward/handler.go"}} {
		cond := ""
		if fd := findFunc(parseFile(r.file), "Handler", "HandleStreamData"); fd != nil && fd.Body != nil {
			for _, st := range fd.Body.List {
				if ifs, ok := st.(*ast.IfStmt); ok && strings.Contains(src(ifs.Body), "ac.Conn.Write(") {
					cond = strings.ReplaceAll(src(ifs.Cond), " ", "")
				}
			}
		}
		g.line("Definition gen_%s_data_block_condition_is_nonempty_payload : bool := %s.", r.name, coqBool(cond == "len(data)>0"))
	}

	// ---- Stream state transitions: within each transition function every
	// SetState happens while s.mu is held, in the same lock region as the State()
	// read it is computed from (branches that end in return are separate paths)
	sf := parseFile("internal/stream/manager.go")
	atomicFn := func(name string) bool {
		fd := findFunc(sf, "Stream", name)
		if fd == nil || fd.Body == nil {
			return false
		}
		locked, epoch, readEpoch, sawSet, ok := false, 0, -1, false, true
		var walk func(n ast.Node)
		walk = func(n ast.Node) {
			ast.Inspect(n, func(m ast.Node) bool {
				switch x := m.(type) {
				case *ast.IfStmt:
					// a branch that ends in return is its own path: its unlocks do not
					// affect the code after the if
					if len(x.Body.List) > 0 {
						if _, isRet := x.Body.List[len(x.Body.List)-1].(*ast.ReturnStmt); isRet && x.Else == nil {
							return false
						}
					}
				case *ast.DeferStmt:
					return false // a deferred unlock releases at function exit
				case *ast.CallExpr:
					switch src(x) {
					case "s.mu.Lock()":
						locked = true
						epoch++
					case "s.mu.Unlock()":
						locked = false
					case "s.State()":
						if locked {
							readEpoch = epoch
						} else {
							readEpoch = -2 // read without the lock
						}
					}
					if strings.HasPrefix(src(x), "s.SetState(") {
						sawSet = true
						if !locked || (readEpoch != -1 && readEpoch != epoch) {
							ok = false
						}
					}
				}
				return true
			})
		}
		walk(fd.Body)
		return sawSet && ok
	}
	for _, fn := range []string{"HandleRemoteFinWrite", "CloseWrite", "Close"} {
		a := atomicFn(fn)
		if !a {
			g.note("Stream.%s: a SetState is outside the lock region of the state it was computed from", fn)
		}
		g.line("Definition gen_%s_transition_atomic : bool := %s.", fn, coqBool(a))
	}
	// who writes the state at all
	var setters []string
	if sf != nil {
		for _, d := range sf.Decls {
			fd, ok := d.(*ast.FuncDecl)
			if !ok || fd.Body == nil {
				continue
			}
			has := false
			ast.Inspect(fd.Body, func(m ast.Node) bool {
				if c, ok := m.(*ast.CallExpr); ok && (strings.HasSuffix(strings.Split(src(c), "(")[0], ".SetState") || strings.HasSuffix(strings.Split(src(c), "(")[0], ".state.Store")) {
					has = true
				}
				return true
			})
			if has {
				setters = append(setters, coqString(recvName(fd)+"."+fd.Name.Name))
			}
		}
	}
	// the only writers: the constructor, SetState itself, Open (before the stream is
	// handed out) and the three transition functions checked above
	wantSetters := `".NewStream"; "Stream.SetState"; "Stream.Open"; "Stream.CloseWrite"; "Stream.HandleRemoteFinWrite"; "Stream.Close"`
	if strings.Join(setters, "; ") != wantSetters {
		g.note("state writers: %s", strings.Join(setters, "; "))
	}
	g.line("Definition gen_state_writers_are_the_transition_functions : bool := %s.", coqBool(strings.Join(setters, "; ") == wantSetters))

	// ---- peer.Manager.readLoop: the lane a frame goes to depends only on its TYPE
	// (UDP_DATAGRAM / ICMP_ECHO -> fast lane, everything else -> ordered lane), and the
	// hand-over blocks when that lane is full (no fallback to the other lane)
	laneOK := false
	if fd := findFunc(parseFile("internal/peer/manager.go"), "Manager", "readLoop"); fd != nil {
		var assigns []string
		var sendSel *ast.SelectStmt
		ast.Inspect(fd, func(n ast.Node) bool {
			switch x := n.(type) {
			case *ast.AssignStmt:
				if len(x.Lhs) == 1 && src(x.Lhs[0]) == "ch" && len(x.Rhs) == 1 {
					assigns = append(assigns, src(x.Rhs[0]))
				}
			case *ast.SelectStmt:
				for _, cl := range x.Body.List {
					cc := cl.(*ast.CommClause)
					if cc.Comm != nil && strings.Contains(src(cc.Comm), "ch <- frame") {
						sendSel = x
					}
				}
			}
			return true
		})
		flat := strings.NewReplacer(" ", "", "\t", "", "\n", "").Replace(src(fd.Body))
		typeSwitch := strings.Contains(flat, "switchframe.Type{caseprotocol.FrameUDPDatagram,protocol.FrameICMPEcho:ch=conn.fastLaneCh}")
		twoArms := false
		if sendSel != nil && len(sendSel.Body.List) == 2 {
			hasDone, hasDefault := false, false
			for _, cl := range sendSel.Body.List {
				cc := cl.(*ast.CommClause)
				if cc.Comm == nil {
					hasDefault = true
				} else if strings.Contains(src(cc.Comm), "conn.Done()") {
					hasDone = true
				}
			}
			twoArms = hasDone && !hasDefault
		}
		sends := strings.Count(flat, "<-frame")
		laneOK = len(assigns) == 2 && assigns[0] == "conn.frameCh" && assigns[1] == "conn.fastLaneCh" && typeSwitch && twoArms && sends == 1
	}
	if !laneOK {
		g.note("peer.Manager.readLoop: lane selection / blocking hand-over not recognised")
	}
	g.line("Definition gen_readloop_lane_by_type_and_blocking : bool := %s.", coqBool(laneOK))
	// the ordered lane is drained by exactly one goroutine per connection
	oneDrain := false
	if fd := findFunc(parseFile("internal/peer/connection.go"), "", "NewConnection"); fd != nil {
		flat := strings.NewReplacer(" ", "", "\t", "", "\n", "").Replace(src(fd.Body))
		oneDrain = strings.Count(flat, "goc.drainFrames(c.frameCh)") == 1 && !strings.Contains(flat, "{goc.drainFrames(c.frameCh)}")
	}
	g.line("Definition gen_ordered_lane_has_one_drainer : bool := %s.", coqBool(oneDrain))

	// meshConn.Write: first statement is `if !c.stream.CanWrite() { return 0, ... }`
	af := parseFile("internal/agent/agent.go")
	guard := false
	if fd := findFunc(af, "meshConn", "Write"); fd != nil && fd.Body != nil && len(fd.Body.List) > 0 {
		if ifs, ok := fd.Body.List[0].(*ast.IfStmt); ok {
			c := strings.ReplaceAll(src(ifs.Cond), " ", "")
			if strings.HasPrefix(c, "!") && strings.HasSuffix(c, ".CanWrite()") && len(ifs.Body.List) == 1 {
				if r, ok := ifs.Body.List[0].(*ast.ReturnStmt); ok && len(r.Results) == 2 && src(r.Results[0]) == "0" && src(r.Results[1]) != "nil" {
					guard = true
				}
			}
		}
	}
	if !guard {
		g.note("meshConn.Write does not start with the CanWrite guard")
	}
	g.line("Definition gen_meshconn_write_guarded : bool := %s.", coqBool(guard))
}

func itoaC18(v int64) string {
	if v == 0 {
		return "0"
	}
	neg := v < 0
	if neg {
		v = -v
	}
	var b []byte
	for v > 0 {
		b = append([]byte{byte('0' + v%10)}, b...)
		v /= 10
	}
	if neg {
		return "-" + string(b)
	}
	return string(b)
}
