package main

import (
	"go/ast"
	"go/token"
	"sort"
	"strconv"
	"strings"
)

func nospaceC37(s string) string { return strings.Join(strings.Fields(s), "") }

func init() { generators["C37"] = genC37 }

// strLit returns the value of a string literal expression (also the
// concatenation of literals with +).
func strLit(e ast.Expr) (string, bool) {
	switch x := e.(type) {
	case *ast.BasicLit:
		if x.Kind == token.STRING {
			s, err := strconv.Unquote(x.Value)
			return s, err == nil
		}
	case *ast.ParenExpr:
		return strLit(x.X)
	case *ast.BinaryExpr:
		if x.Op == token.ADD {
			a, ok1 := strLit(x.X)
			b, ok2 := strLit(x.Y)
			return a + b, ok1 && ok2
		}
	}
	return "", false
}

// regexpVarSource finds `var <name> = regexp.MustCompile(<string literal>)`.
func regexpVarSource(f *ast.File, name string) (string, bool) {
	e := constExpr(f, name)
	call, ok := e.(*ast.CallExpr)
	if !ok || len(call.Args) != 1 {
		return "", false
	}
	if s := src(call.Fun); s != "regexp.MustCompile" && s != "regexp.MustCompilePOSIX" {
		return "", false
	}
	if src(call.Fun) != "regexp.MustCompile" {
		return "", false
	}
	return strLit(call.Args[0])
}

// C37: the regex source text; the shape of expandEnvVars (one
// ReplaceAllStringFunc over the input, closure never re-enters expansion);
// the default separator and the offsets used to cut the match.
func genC37(g *gen) {
	f := parseFile("internal/config/config.go")
	re, okRe := regexpVarSource(f, "envVarRegex")
	single := false        // body is `return envVarRegex.ReplaceAllStringFunc(s, func...)`
	reenters := true       // closure calls expandEnvVars / os.ExpandEnv / os.Expand / ReplaceAll*
	sep, sepOK := "", false
	sepSkip := int64(-1)
	lookups, getenvs := 0, 0
	bracePrefix := ""
	if fd := findFunc(f, "", "expandEnvVars"); fd != nil && fd.Body != nil && len(fd.Body.List) == 1 {
		if r, ok := fd.Body.List[0].(*ast.ReturnStmt); ok && len(r.Results) == 1 {
			if call, ok := r.Results[0].(*ast.CallExpr); ok && len(call.Args) == 2 &&
				src(call.Fun) == "envVarRegex.ReplaceAllStringFunc" && len(fd.Type.Params.List) == 1 &&
				len(fd.Type.Params.List[0].Names) == 1 && src(call.Args[0]) == fd.Type.Params.List[0].Names[0].Name {
				if fl, ok := call.Args[1].(*ast.FuncLit); ok {
					single = true
					reenters = false
					ast.Inspect(fl.Body, func(n ast.Node) bool {
						c, ok := n.(*ast.CallExpr)
						if !ok {
							return true
						}
						switch fn := src(c.Fun); fn {
						case "expandEnvVars", "os.ExpandEnv", "os.Expand":
							reenters = true
						case "os.LookupEnv":
							lookups++
						case "os.Getenv":
							getenvs++
						case "strings.Index":
							if len(c.Args) == 2 {
								if s, ok := strLit(c.Args[1]); ok {
									sep, sepOK = s, true
								}
							}
						case "strings.HasPrefix":
							if len(c.Args) == 2 {
								if s, ok := strLit(c.Args[1]); ok {
									bracePrefix = s
								}
							}
						default:
							if sel, ok := c.Fun.(*ast.SelectorExpr); ok {
								switch sel.Sel.Name {
								case "ReplaceAllStringFunc", "ReplaceAllString", "ReplaceAll", "ReplaceAllFunc", "ReplaceAllLiteralString":
									reenters = true
								}
							}
						}
						return true
					})
					// defaultVal := name[idx+K:]
					ast.Inspect(fl.Body, func(n ast.Node) bool {
						se, ok := n.(*ast.SliceExpr)
						if !ok || se.Low == nil || se.High != nil {
							return true
						}
						if be, ok := se.Low.(*ast.BinaryExpr); ok && be.Op == token.ADD {
							if v, ok := intLit(be.Y, nil); ok {
								sepSkip = v
							}
						}
						return true
					})
				}
			}
		}
	}
	// who calls expandEnvVars, and what Load hands to Parse
	callers := []string{}
	loadDirect := false
	for _, file := range parseDir("internal/config") {
		for _, d := range file.Decls {
			fd, ok := d.(*ast.FuncDecl)
			if !ok || fd.Body == nil {
				continue
			}
			ast.Inspect(fd.Body, func(n ast.Node) bool {
				if c, ok := n.(*ast.CallExpr); ok {
					switch src(c.Fun) {
					case "expandEnvVars", "os.ExpandEnv", "os.Expand":
						callers = append(callers, fd.Name.Name+":"+src(c.Fun))
					}
				}
				return true
			})
			if fd.Name.Name == "Load" && fd.Recv == nil {
				// data, err := os.ReadFile(path) ... return Parse(data)
				readVar := ""
				for _, st := range fd.Body.List {
					switch x := st.(type) {
					case *ast.AssignStmt:
						if len(x.Rhs) == 1 && strings.HasPrefix(nospaceC37(src(x.Rhs[0])), "os.ReadFile(") && len(x.Lhs) >= 1 {
							readVar = src(x.Lhs[0])
						}
					case *ast.ReturnStmt:
						if len(x.Results) == 1 && readVar != "" && nospaceC37(src(x.Results[0])) == "Parse("+readVar+")" {
							loadDirect = true
						}
					}
				}
			}
		}
	}
	sort.Strings(callers)
	if !okRe || !single || !sepOK {
		g.note("pattern not recognised in envVarRegex/expandEnvVars; facts set to empty/false")
	}
	g.line("Local Open Scope string_scope.")
	g.line("Definition gen_regex_source : string := %s.", coqString(re))
	g.line("Definition gen_single_replace_pass : bool := %s.", coqBool(single))
	g.line("Definition gen_closure_reenters_expansion : bool := %s.", coqBool(reenters))
	g.line("Definition gen_default_separator : string := %s.", coqString(sep))
	g.line("Definition gen_default_skip : N := %d.", func() int64 {
		if sepSkip < 0 {
			return 0
		}
		return sepSkip
	}())
	g.line("Definition gen_brace_prefix : string := %s.", coqString(bracePrefix))
	g.line("Definition gen_lookupenv_calls : N := %d.", lookups)
	g.line("Definition gen_getenv_calls : N := %d.", getenvs)
	cq := make([]string, len(callers))
	for i, x := range callers {
		cq[i] = coqString(x)
	}
	g.line("Definition gen_expansion_call_sites : list string := [%s].", strings.Join(cq, "; "))
	g.line("Definition gen_load_hands_file_bytes_to_parse : bool := %s.", coqBool(loadDirect))
}
