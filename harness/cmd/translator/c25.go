package main

import (
	"fmt"
	"go/ast"
	"go/token"
	"sort"
	"strings"
)

func init() { generators["C25"] = genC25 }

// classChars parses a regular expression that consists of exactly one
// bracket class of literal (possibly backslash-escaped) characters.
func classChars(re string) ([]int, bool) {
	if len(re) < 2 || re[0] != '[' || re[len(re)-1] != ']' {
		return nil, false
	}
	body := re[1 : len(re)-1]
	if strings.HasPrefix(body, "^") {
		return nil, false
	}
	seen := map[int]bool{}
	for i := 0; i < len(body); i++ {
		ch := body[i]
		if ch == '\\' {
			if i+1 >= len(body) {
				return nil, false
			}
			i++
			ch = body[i]
			if (ch >= 'a' && ch <= 'z') || (ch >= 'A' && ch <= 'Z') || (ch >= '0' && ch <= '9') {
				return nil, false // a class escape such as \s or \d: not a literal
			}
		} else if ch == '-' && i > 0 && i+1 < len(body) {
			return nil, false // a range
		} else if ch == '[' && i+1 < len(body) && body[i+1] == ':' {
			return nil, false
		}
		if ch >= 0x80 {
			return nil, false
		}
		seen[int(ch)] = true
	}
	var out []int
	for k := range seen {
		out = append(out, k)
	}
	sort.Ints(out)
	return out, true
}

func coqNListHttpcfg(xs []int) string {
	q := make([]string, len(xs))
	for i, x := range xs {
		q[i] = fmt.Sprint(x)
	}
	return "[" + strings.Join(q, "; ") + "]"
}

// lockedBody reports whether a method body starts with `<recv>.mu.Lock()`
// followed by `defer <recv>.mu.Unlock()`, and returns the remaining statements.
func lockedBody(fd *ast.FuncDecl) ([]ast.Stmt, bool) {
	if fd == nil || fd.Body == nil || len(fd.Body.List) < 2 {
		return nil, false
	}
	recv := ""
	if fd.Recv != nil && len(fd.Recv.List) == 1 && len(fd.Recv.List[0].Names) == 1 {
		recv = fd.Recv.List[0].Names[0].Name
	}
	l, ok1 := fd.Body.List[0].(*ast.ExprStmt)
	d, ok2 := fd.Body.List[1].(*ast.DeferStmt)
	if !ok1 || !ok2 || nospace(src(l.X)) != recv+".mu.Lock()" || nospace(src(d.Call)) != recv+".mu.Unlock()" {
		return nil, false
	}
	return fd.Body.List[2:], true
}

// C25: the argument filter's character class, the command separators, the
// order of checks in validateAndAcquire, the critical sections of the session
// counter, which functions write the counter, and which functions create
// processes (each must start with validateAndAcquire).
func genC25(g *gen) {
	f := parseFile("internal/shell/executor.go")
	re, okRe := regexpVarSource(f, "dangerousArgPattern")
	chars, okClass := classChars(re)
	if !okRe || !okClass {
		g.note("dangerousArgPattern is not a single class of literal characters: %q", re)
		chars = nil
	}
	// IsCommandAllowed: ContainsAny(command, <lit>) and the wildcard literal
	seps, wildcard := "", ""
	cmdExact := false
	if fd := findFunc(f, "Executor", "IsCommandAllowed"); fd != nil {
		ast.Inspect(fd.Body, func(n ast.Node) bool {
			switch x := n.(type) {
			case *ast.CallExpr:
				if src(x.Fun) == "strings.ContainsAny" && len(x.Args) == 2 {
					seps, _ = strLit(x.Args[1])
				}
			case *ast.BinaryExpr:
				if x.Op == token.EQL && nospace(src(x)) == "allowed==command" {
					cmdExact = true
				}
			}
			return true
		})
	}
	if fd := findFunc(f, "Executor", "hasWildcard"); fd != nil {
		ast.Inspect(fd.Body, func(n ast.Node) bool {
			if x, ok := n.(*ast.BinaryExpr); ok && x.Op == token.EQL {
				if s, ok := strLit(x.Y); ok {
					wildcard = s
				}
			}
			return true
		})
	}
	// ValidateArgs: per argument, regex first, IsAbs second
	argOrder := []string{}
	if fd := findFunc(f, "Executor", "ValidateArgs"); fd != nil {
		ast.Inspect(fd.Body, func(n ast.Node) bool {
			if x, ok := n.(*ast.CallExpr); ok {
				switch src(x.Fun) {
				case "dangerousArgPattern.MatchString":
					argOrder = append(argOrder, "dangerous")
				case "filepath.IsAbs":
					argOrder = append(argOrder, "absolute")
				case "e.hasWildcard":
					argOrder = append(argOrder, "wildcard-skip")
				}
			}
			return true
		})
	}
	// validateAndAcquire: order of checks
	order := []string{}
	if fd := findFunc(f, "Executor", "validateAndAcquire"); fd != nil {
		ast.Inspect(fd.Body, func(n ast.Node) bool {
			switch x := n.(type) {
			case *ast.CallExpr:
				if sel, ok := x.Fun.(*ast.SelectorExpr); ok && src(sel.X) == "e" {
					order = append(order, sel.Sel.Name)
				}
			case *ast.SelectorExpr:
				if nospace(src(x)) == "e.config.Enabled" {
					order = append(order, "Enabled")
				}
			}
			return true
		})
	}
	// critical sections
	acqLocked, relLocked := false, false
	acqCond, relCond := "", ""
	acqInc, relDec := false, false
	if rest, ok := lockedBody(findFunc(f, "Executor", "AcquireSession")); ok {
		acqLocked = true
		for _, st := range rest {
			switch s := st.(type) {
			case *ast.IfStmt:
				acqCond = nospace(src(s.Cond))
			case *ast.IncDecStmt:
				if nospace(src(s.X)) == "e.sessions" && s.Tok == token.INC {
					acqInc = true
				}
			}
		}
	}
	if rest, ok := lockedBody(findFunc(f, "Executor", "ReleaseSession")); ok {
		relLocked = true
		for _, st := range rest {
			if s, ok := st.(*ast.IfStmt); ok {
				relCond = nospace(src(s.Cond))
				if len(s.Body.List) == 1 {
					if d, ok := s.Body.List[0].(*ast.IncDecStmt); ok && nospace(src(d.X)) == "e.sessions" && d.Tok == token.DEC {
						relDec = true
					}
				}
			}
		}
	}
	// who writes the counter, who creates processes
	writers := map[string]bool{}
	type site struct {
		fn      string
		guarded bool
	}
	var sites []site
	for _, file := range parseDir("internal/shell") {
		if strings.HasSuffix(fset.Position(file.Pos()).Filename, "_windows.go") {
			continue
		}
		for _, d := range file.Decls {
			fd, ok := d.(*ast.FuncDecl)
			if !ok || fd.Body == nil {
				continue
			}
			name := fd.Name.Name
			if r := recvName(fd); r != "" {
				name = r + "." + name
			}
			creates := false
			ast.Inspect(fd.Body, func(n ast.Node) bool {
				switch x := n.(type) {
				case *ast.IncDecStmt:
					if strings.HasSuffix(nospace(src(x.X)), ".sessions") {
						writers[name] = true
					}
				case *ast.AssignStmt:
					for _, l := range x.Lhs {
						if strings.HasSuffix(nospace(src(l)), ".sessions") {
							writers[name] = true
						}
					}
				case *ast.CallExpr:
					fn := src(x.Fun)
					if strings.HasPrefix(fn, "exec.Command") || strings.HasPrefix(fn, "pty.Start") || fn == "os.StartProcess" || fn == "syscall.ForkExec" {
						creates = true
					}
				}
				return true
			})
			if creates {
				guarded := false
				if len(fd.Body.List) > 0 {
					if is, ok := fd.Body.List[0].(*ast.IfStmt); ok && is.Init != nil {
						init := nospace(src(is.Init))
						body := nospace(src(is.Body))
						guarded = strings.Contains(init, ".validateAndAcquire(meta)") && nospace(src(is.Cond)) == "err!=nil" && strings.HasPrefix(body, "{returnnil,err")
					}
				}
				sites = append(sites, site{name, guarded})
			}
		}
	}
	// handler.go: where sessions are released, and the Released guard
	hf := parseFile("internal/shell/handler.go")
	relSites := map[string]int{}
	guardOK := false
	startFailBeforeRecord := false
	if hf != nil {
		for _, d := range hf.Decls {
			fd, ok := d.(*ast.FuncDecl)
			if !ok || fd.Body == nil {
				continue
			}
			name := fd.Name.Name
			if r := recvName(fd); r != "" {
				name = r + "." + name
			}
			ast.Inspect(fd.Body, func(n ast.Node) bool {
				if c, ok := n.(*ast.CallExpr); ok && strings.HasSuffix(nospace(src(c.Fun)), ".executor.ReleaseSession") {
					relSites[name]++
				}
				return true
			})
			if name == "Handler.releaseSession" {
				// ss.mu.Lock(); if !ss.Released { ss.Released = true; ... }; ss.mu.Unlock()
				for _, st := range fd.Body.List {
					is, ok := st.(*ast.IfStmt)
					if !ok || nospace(src(is.Cond)) != "!ss.Released" || len(is.Body.List) == 0 {
						continue
					}
					first := nospace(src(is.Body.List[0]))
					inner := 0
					ast.Inspect(is.Body, func(n ast.Node) bool {
						if c, ok := n.(*ast.CallExpr); ok && strings.HasSuffix(nospace(src(c.Fun)), ".executor.ReleaseSession") {
							inner++
						}
						return true
					})
					guardOK = first == "ss.Released=true" && inner == relSites[name]
				}
			}
			if name == "Handler.handleMetadata" {
				// the only direct release is in the branch where session.Start() failed, before ss.Session is recorded
				relPos, recPos := token.NoPos, token.NoPos
				ast.Inspect(fd.Body, func(n ast.Node) bool {
					switch x := n.(type) {
					case *ast.CallExpr:
						if strings.HasSuffix(nospace(src(x.Fun)), ".executor.ReleaseSession") {
							relPos = x.Pos()
						}
					case *ast.AssignStmt:
						if len(x.Lhs) == 1 && nospace(src(x.Lhs[0])) == "ss.Session" {
							recPos = x.Pos()
						}
					}
					return true
				})
				startFailBeforeRecord = relPos != token.NoPos && recPos != token.NoPos && relPos < recPos
			}
		}
	}
	var relNames []string
	for k := range relSites {
		relNames = append(relNames, k)
	}
	sort.Strings(relNames)
	relItems := make([]string, len(relNames))
	for i, k := range relNames {
		relItems[i] = fmt.Sprintf("(%s, %d)", coqString(k), relSites[k])
	}
	// agent.go: the shell.Config literal that initComponents hands to shell.NewExecutor
	af := parseFile("internal/agent/agent.go")
	var shellWiring []string
	shellLiterals := 0
	if af != nil {
		ast.Inspect(af, func(n ast.Node) bool {
			cl, ok := n.(*ast.CompositeLit)
			if !ok || src(cl.Type) != "shell.Config" {
				return true
			}
			shellLiterals++
			for _, el := range cl.Elts {
				if kv, ok := el.(*ast.KeyValueExpr); ok {
					shellWiring = append(shellWiring, fmt.Sprintf("(%s, %s)", coqString(src(kv.Key)), coqString(nospace(src(kv.Value)))))
				}
			}
			return true
		})
	}
	// error paths after a successful acquire in the functions that create processes:
	// every `return nil, <error>` after the guard must directly follow exactly one
	// ReleaseSession call in its block, and no deferred release may exist beside them
	type errPaths struct {
		fn                          string
		returns, withOneRelease     int
		deferredRelease             int
	}
	var eps []errPaths
	for _, file := range parseDir("internal/shell") {
		if strings.HasSuffix(fset.Position(file.Pos()).Filename, "_windows.go") {
			continue
		}
		for _, d := range file.Decls {
			fd, ok := d.(*ast.FuncDecl)
			if !ok || fd.Body == nil || len(fd.Body.List) == 0 {
				continue
			}
			is, ok := fd.Body.List[0].(*ast.IfStmt)
			if !ok || is.Init == nil || !strings.Contains(nospace(src(is.Init)), ".validateAndAcquire(") {
				continue
			}
			ep := errPaths{fn: recvName(fd) + "." + fd.Name.Name}
			var walk func(stmts []ast.Stmt)
			walk = func(stmts []ast.Stmt) {
				for i, st := range stmts {
					switch x := st.(type) {
					case *ast.ReturnStmt:
						if len(x.Results) == 2 && src(x.Results[0]) == "nil" {
							ep.returns++
							rel := 0
							for _, prev := range stmts[:i] {
								if es, ok := prev.(*ast.ExprStmt); ok && strings.HasSuffix(nospace(src(es.X)), ".ReleaseSession()") {
									rel++
								}
							}
							if rel == 1 {
								ep.withOneRelease++
							}
						}
					case *ast.IfStmt:
						walk(x.Body.List)
						if b, ok := x.Else.(*ast.BlockStmt); ok {
							walk(b.List)
						}
					case *ast.BlockStmt:
						walk(x.List)
					case *ast.DeferStmt:
						if strings.Contains(nospace(src(x)), "ReleaseSession") {
							ep.deferredRelease++
						}
					}
				}
			}
			walk(fd.Body.List[1:])
			eps = append(eps, ep)
		}
	}
	sort.Slice(eps, func(i, j int) bool { return eps[i].fn < eps[j].fn })
	epItems := make([]string, len(eps))
	for i, e := range eps {
		epItems[i] = fmt.Sprintf("(%s, %d, %d, %d)", coqString(e.fn), e.returns, e.withOneRelease, e.deferredRelease)
	}
	var ws []string
	for k := range writers {
		ws = append(ws, k)
	}
	sort.Strings(ws)
	sort.Slice(sites, func(i, j int) bool { return sites[i].fn < sites[j].fn })
	siteItems := make([]string, len(sites))
	for i, s := range sites {
		siteItems[i] = fmt.Sprintf("(%s, %s)", coqString(s.fn), coqBool(s.guarded))
	}
	sepCodes := []int{}
	for i := 0; i < len(seps); i++ {
		sepCodes = append(sepCodes, int(seps[i]))
	}
	g.line("Open Scope string_scope.")
	g.line("Definition gen_dangerous_chars : list N := %s.", coqNListHttpcfg(chars))
	g.line("Definition gen_dangerous_is_literal_class : bool := %s.", coqBool(okRe && okClass))
	g.line("Definition gen_command_separators : list N := %s.", coqNListHttpcfg(sepCodes))
	g.line("Definition gen_command_match_is_exact : bool := %s.", coqBool(cmdExact))
	g.line("Definition gen_wildcard : string := %s.", coqString(wildcard))
	g.line("Definition gen_arg_checks : list string := %s.", coqStrListHttpcfg(argOrder))
	g.line("Definition gen_check_order : list string := %s.", coqStrListHttpcfg(order))
	g.line("Definition gen_acquire_one_critical_section : bool := %s.", coqBool(acqLocked && acqInc))
	g.line("Definition gen_acquire_condition : string := %s.", coqString(acqCond))
	g.line("Definition gen_release_one_critical_section : bool := %s.", coqBool(relLocked && relDec))
	g.line("Definition gen_release_condition : string := %s.", coqString(relCond))
	g.line("Definition gen_session_counter_writers : list string := %s.", coqStrListHttpcfg(ws))
	g.line("Definition gen_handler_release_sites : list (string * N) := [%s].", strings.Join(relItems, "; "))
	g.line("Definition gen_release_guarded_by_released_flag : bool := %s.", coqBool(guardOK))
	g.line("Definition gen_start_failure_releases_before_session_recorded : bool := %s.", coqBool(startFailBeforeRecord))
	// ValidateAuth: every bcrypt error rejects
	authRejectAny := false
	if fd := findFunc(f, "Executor", "ValidateAuth"); fd != nil && fd.Body != nil {
		errVar := ""
		for _, st := range fd.Body.List {
			switch x := st.(type) {
			case *ast.AssignStmt:
				if len(x.Rhs) == 1 && strings.HasPrefix(nospace(src(x.Rhs[0])), "bcrypt.CompareHashAndPassword(") && len(x.Lhs) == 1 {
					errVar = src(x.Lhs[0])
				}
			case *ast.IfStmt:
				if errVar != "" && x.Init == nil && nospace(src(x.Cond)) == errVar+"!=nil" && len(x.Body.List) == 1 {
					if r, ok := x.Body.List[0].(*ast.ReturnStmt); ok && len(r.Results) == 1 && src(r.Results[0]) != "nil" {
						authRejectAny = true
					}
				}
			}
		}
	}
	g.line("Definition gen_password_rejected_on_any_bcrypt_error : bool := %s.", coqBool(authRejectAny))
	g.line("Definition gen_shell_config_literals : N := %d.", shellLiterals)
	g.line("Definition gen_shell_config_wiring : list (string * string) := [%s].", strings.Join(shellWiring, "; "))
	g.line("Definition gen_error_paths_after_acquire : list (string * N * N * N) := [%s].", strings.Join(epItems, "; "))
	g.line("Definition gen_process_creation_sites : list (string * bool) := [%s].", strings.Join(siteItems, "; "))
}
