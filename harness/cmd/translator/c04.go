package main

import (
	"fmt"
	"go/ast"
	"go/token"
	"sort"
	"strings"
)

func init() { generators["C04"] = genC04 }

// C04 facts:
//   - gen_relay_verbatim: for each transit handler, every frame it builds for
//     the next hop carries "frame.Payload" unchanged (and it builds at least
//     two, one per direction);
//   - gen_exit_checks_closed: Encrypt / Decrypt of the exit-side UDP
//     association and ICMP session return an error when the object is closed,
//     before the "no session key -> pass through" branch;
//   - gen_ingress_seals_with_key: the datagram ingress functions seal with
//     the session key whenever they hold one (and pass through otherwise);
//   - gen_stream_senders_need_key: the stream senders stop when they hold no
//     session key instead of sending.

// c04FrameLits collects the Payload expressions of all protocol.Frame
// composite literals in a function.
func c04FrameLits(fd *ast.FuncDecl) []string {
	var out []string
	if fd == nil || fd.Body == nil {
		return nil
	}
	ast.Inspect(fd.Body, func(n ast.Node) bool {
		cl, ok := n.(*ast.CompositeLit)
		if !ok || src(cl.Type) != "protocol.Frame" {
			return true
		}
		p := "<missing>"
		for _, el := range cl.Elts {
			if kv, ok := el.(*ast.KeyValueExpr); ok && src(kv.Key) == "Payload" {
				p = src(kv.Value)
			}
		}
		out = append(out, p)
		return true
	})
	return out
}

// c04ClosedBeforePassthrough: the function body has, before any statement
// that mentions "SessionKey == nil", an if on "<recv>.closed" whose body
// returns a non-nil error.
func c04ClosedBeforePassthrough(fd *ast.FuncDecl) bool {
	if fd == nil || fd.Body == nil {
		return false
	}
	for _, st := range fd.Body.List {
		if is, ok := st.(*ast.IfStmt); ok {
			cond := src(is.Cond)
			if strings.HasSuffix(cond, ".closed") && len(is.Body.List) == 1 {
				if rs, ok := is.Body.List[0].(*ast.ReturnStmt); ok && len(rs.Results) == 2 && src(rs.Results[0]) == "nil" && src(rs.Results[1]) != "nil" {
					return true
				}
			}
			if strings.Contains(cond, "SessionKey == nil") {
				return false
			}
		}
	}
	return false
}

// c04SealsWithKey: "if sessionKey != nil { X, err = sessionKey.Encrypt(data) } else { X = data }"
func c04SealsWithKey(fd *ast.FuncDecl) bool {
	found := false
	if fd == nil || fd.Body == nil {
		return false
	}
	ast.Inspect(fd.Body, func(n ast.Node) bool {
		is, ok := n.(*ast.IfStmt)
		if !ok {
			return true
		}
		be, ok := is.Cond.(*ast.BinaryExpr)
		if !ok || be.Op != token.NEQ || src(be.Y) != "nil" || !strings.Contains(strings.ToLower(src(be.X)), "sessionkey") {
			return true
		}
		if strings.Contains(src(is.Body), src(be.X)+".Encrypt(") {
			found = true
		}
		return true
	})
	return found
}

// c04StopsWithoutKey: an "if <...sessionKey> == nil { ... return ... }" exists
// (the sender gives up instead of sending).
func c04StopsWithoutKey(fd *ast.FuncDecl) bool {
	found := false
	if fd == nil || fd.Body == nil {
		return false
	}
	ast.Inspect(fd.Body, func(n ast.Node) bool {
		is, ok := n.(*ast.IfStmt)
		if !ok {
			return true
		}
		be, ok := is.Cond.(*ast.BinaryExpr)
		if !ok || be.Op != token.EQL || src(be.Y) != "nil" || !strings.Contains(strings.ToLower(src(be.X)), "sessionkey") {
			return true
		}
		for _, st := range is.Body.List {
			if _, ok := st.(*ast.ReturnStmt); ok {
				found = true
			}
		}
		return true
	})
	return found
}

// c04KeyMutators scans the packages that hold end-to-end session keys for
// (a) calls of Zero() on a session key and (b) assignments to a
// sessionKey / SessionKey field (composite literals that set the key when the
// holder is created are not assignments). Returned as "pkg.Recv.Func" names.
func c04KeyMutators() (zeroers, writers []string) {
	seenZ, seenW := map[string]bool{}, map[string]bool{}
	for _, pkg := range []string{"agent", "exit", "forward", "shell", "stream", "udp", "icmp", "health", "filetransfer", "socks5"} {
		for _, f := range parseDir("internal/" + pkg) {
			for _, d := range f.Decls {
				fd, ok := d.(*ast.FuncDecl)
				if !ok || fd.Body == nil {
					continue
				}
				name := pkg + "." + fd.Name.Name
				if r := recvName(fd); r != "" {
					name = pkg + "." + r + "." + fd.Name.Name
				}
				ast.Inspect(fd.Body, func(n ast.Node) bool {
					switch x := n.(type) {
					case *ast.CallExpr:
						if sel, ok := x.Fun.(*ast.SelectorExpr); ok && sel.Sel.Name == "Zero" && strings.Contains(strings.ToLower(src(sel.X)), "sessionkey") {
							if !seenZ[name] {
								seenZ[name] = true
								zeroers = append(zeroers, name)
							}
						}
					case *ast.AssignStmt:
						for _, l := range x.Lhs {
							if sel, ok := l.(*ast.SelectorExpr); ok && (sel.Sel.Name == "sessionKey" || sel.Sel.Name == "SessionKey") {
								if !seenW[name] {
									seenW[name] = true
									writers = append(writers, name)
								}
							}
						}
					}
					return true
				})
			}
		}
	}
	sort.Strings(zeroers)
	sort.Strings(writers)
	return
}

// c04ZeroKeyTest: the function decides "no ephemeral key offered" by comparing
// the whole key array with a zero-valued local array ("var zeroKey [N]byte";
// x == zeroKey / x != zeroKey) and through nothing else: no helper whose name
// mentions "zero" is consulted (crypto.ZeroKey / .Zero(), which wipe, are not
// tests).
func c04ZeroKeyTest(fd *ast.FuncDecl) bool {
	if fd == nil || fd.Body == nil {
		return false
	}
	zeroVars := map[string]bool{}
	compares, helper := 0, false
	ast.Inspect(fd.Body, func(n ast.Node) bool {
		switch x := n.(type) {
		case *ast.ValueSpec:
			if at, ok := x.Type.(*ast.ArrayType); ok && len(x.Values) == 0 && src(at.Elt) == "byte" && at.Len != nil {
				for _, nm := range x.Names {
					zeroVars[nm.Name] = true
				}
			}
		case *ast.BinaryExpr:
			if x.Op == token.EQL || x.Op == token.NEQ {
				for _, side := range []ast.Expr{x.X, x.Y} {
					if id, ok := side.(*ast.Ident); ok && zeroVars[id.Name] {
						compares++
					}
				}
			}
		case *ast.CallExpr:
			fn := src(x.Fun)
			low := strings.ToLower(fn)
			if strings.Contains(low, "zero") && fn != "crypto.ZeroKey" && fn != "ZeroKey" && !strings.HasSuffix(fn, ".Zero") && fn != "crypto.ZeroBytes" {
				helper = true
			}
		}
		return true
	})
	return compares >= 1 && !helper
}

// c04WithParents walks a function body keeping the stack of enclosing nodes.
func c04WithParents(fd *ast.FuncDecl, visit func(n ast.Node, parents []ast.Node)) {
	if fd == nil || fd.Body == nil {
		return
	}
	var stack []ast.Node
	ast.Inspect(fd.Body, func(n ast.Node) bool {
		if n == nil {
			stack = stack[:len(stack)-1]
			return true
		}
		visit(n, stack)
		stack = append(stack, n)
		return true
	})
}

// c04PendingCloses: every closePendingOpen / closePendingOpenWS call in the
// file, as ("func: arg", ok). ok = the argument is an error for sure
// (ctx.Err(), fmt.Errorf, or err inside "if err != nil"), or it is nil inside
// one of the *OpenAck handlers (the only place where an open succeeds).
func c04PendingCloses(f *ast.File) (rows [][2]string) {
	if f == nil {
		return
	}
	for _, d := range f.Decls {
		fd, ok := d.(*ast.FuncDecl)
		if !ok {
			continue
		}
		c04WithParents(fd, func(n ast.Node, parents []ast.Node) {
			call, ok := n.(*ast.CallExpr)
			if !ok || len(call.Args) != 1 {
				return
			}
			sel, ok := call.Fun.(*ast.SelectorExpr)
			if !ok || !strings.HasPrefix(sel.Sel.Name, "closePendingOpen") {
				return
			}
			arg := src(call.Args[0])
			good := false
			switch {
			case arg == "nil":
				good = strings.HasSuffix(fd.Name.Name, "OpenAck")
			case arg == "ctx.Err()" || strings.HasPrefix(arg, "fmt.Errorf(") || strings.HasPrefix(arg, "errors.New("):
				good = true
			case arg == "err":
				for _, p := range parents {
					if is, ok := p.(*ast.IfStmt); ok && strings.Contains(src(is.Cond), "err != nil") {
						good = true
					}
				}
			}
			rows = append(rows, [2]string{fd.Name.Name + ": " + arg, coqBool(good)})
		})
	}
	return
}

// c04ReturnsAfterPending: in getOrCreateDestAssociation a cached association is
// returned only from inside a "case <-x.PendingOpen:" clause.
func c04ReturnsAfterPending(fd *ast.FuncDecl) bool {
	if fd == nil || fd.Body == nil {
		return false
	}
	ok, seen := true, 0
	c04WithParents(fd, func(n ast.Node, parents []ast.Node) {
		rs, isRet := n.(*ast.ReturnStmt)
		if !isRet || len(rs.Results) != 2 {
			return
		}
		if _, isIdent := rs.Results[0].(*ast.Ident); !isIdent || src(rs.Results[0]) == "nil" {
			return
		}
		seen++
		inside := false
		for _, p := range parents {
			if cc, isCC := p.(*ast.CommClause); isCC && cc.Comm != nil && strings.Contains(src(cc.Comm), ".PendingOpen") {
				inside = true
			}
		}
		if !inside {
			ok = false
		}
	})
	return ok && seen >= 1
}

// c04RelayKeepsKey: the OPEN a transit forwards carries the received
// ephemeral key ("EphemeralPubKey: open.EphemeralPubKey" in every
// protocol.<kind> literal of the handler).
func c04RelayKeepsKey(fd *ast.FuncDecl, typ string) bool {
	if fd == nil || fd.Body == nil {
		return false
	}
	lits, good := 0, 0
	ast.Inspect(fd.Body, func(n ast.Node) bool {
		cl, ok := n.(*ast.CompositeLit)
		if !ok || src(cl.Type) != typ {
			return true
		}
		lits++
		for _, el := range cl.Elts {
			if kv, ok := el.(*ast.KeyValueExpr); ok && src(kv.Key) == "EphemeralPubKey" && src(kv.Value) == "open.EphemeralPubKey" {
				good++
			}
		}
		return true
	})
	return lits >= 1 && lits == good
}

func genC04(g *gen) {
	type row struct {
		name string
		ok   bool
	}
	emit := func(name string, rows []row) {
		var items []string
		for _, r := range rows {
			items = append(items, fmt.Sprintf("(%s, %s)", coqString(r.name), coqBool(r.ok)))
		}
		g.line("Definition %s : list (string * bool) :=\n  [%s].", name, strings.Join(items, "; "))
	}
	g.line("Open Scope string_scope.")

	agentFile := parseFile("internal/agent/agent.go")
	udpFile := parseFile("internal/agent/udp.go")
	icmpFile := parseFile("internal/agent/icmp.go")

	var relay []row
	for _, h := range []struct {
		name string
		fd   *ast.FuncDecl
	}{
		{"handleStreamData", findFunc(agentFile, "Agent", "handleStreamData")},
		{"handleUDPDatagram", findFunc(udpFile, "Agent", "handleUDPDatagram")},
		{"handleICMPEcho", findFunc(icmpFile, "Agent", "handleICMPEcho")},
	} {
		lits := c04FrameLits(h.fd)
		ok := len(lits) >= 2
		for _, p := range lits {
			if p != "frame.Payload" {
				ok = false
				g.note("%s builds a frame with Payload: %s", h.name, p)
			}
		}
		if len(lits) < 2 {
			g.note("%s: %d relay frames found", h.name, len(lits))
		}
		relay = append(relay, row{h.name, ok})
	}
	emit("gen_relay_verbatim", relay)

	var closed []row
	closed = append(closed,
		row{"udp.Association.Encrypt", c04ClosedBeforePassthrough(findFuncInDir("internal/udp", "Association", "Encrypt"))},
		row{"udp.Association.Decrypt", c04ClosedBeforePassthrough(findFuncInDir("internal/udp", "Association", "Decrypt"))},
		row{"icmp.Session.Encrypt", c04ClosedBeforePassthrough(findFuncInDir("internal/icmp", "Session", "Encrypt"))},
		row{"icmp.Session.Decrypt", c04ClosedBeforePassthrough(findFuncInDir("internal/icmp", "Session", "Decrypt"))})
	emit("gen_exit_checks_closed", closed)

	emit("gen_ingress_seals_with_key", []row{
		{"RelayUDPDatagram", c04SealsWithKey(findFunc(udpFile, "Agent", "RelayUDPDatagram"))},
		{"RelayICMPEcho", c04SealsWithKey(findFunc(icmpFile, "Agent", "RelayICMPEcho"))},
		{"runWSICMPSender", c04SealsWithKey(findFunc(icmpFile, "Agent", "runWSICMPSender"))},
	})

	emit("gen_zero_key_tests", []row{
		{"udp.Handler.HandleUDPOpen", c04ZeroKeyTest(findFuncInDir("internal/udp", "Handler", "HandleUDPOpen"))},
		{"icmp.Handler.HandleICMPOpen", c04ZeroKeyTest(findFuncInDir("internal/icmp", "Handler", "HandleICMPOpen"))},
		{"agent.handleUDPOpenAck", c04ZeroKeyTest(findFunc(udpFile, "Agent", "handleUDPOpenAck"))},
		{"agent.deriveICMPSessionKey", c04ZeroKeyTest(findFunc(icmpFile, "", "deriveICMPSessionKey"))},
		{"agent.deriveResponderSessionKey", c04ZeroKeyTest(findFunc(agentFile, "", "deriveResponderSessionKey"))},
		{"shell.Handler.HandleStreamOpen", c04ZeroKeyTest(findFuncInDir("internal/shell", "Handler", "HandleStreamOpen"))},
	})

	var pend []row
	for _, pr := range append(c04PendingCloses(udpFile), c04PendingCloses(icmpFile)...) {
		pend = append(pend, row{pr[0], pr[1] == "true"})
	}
	emit("gen_pending_open_closes", pend)
	g.line("Definition gen_cached_assoc_only_after_pending_open : bool := %s.", coqBool(c04ReturnsAfterPending(findFunc(udpFile, "Agent", "getOrCreateDestAssociation"))))
	emit("gen_relay_keeps_ephemeral_key", []row{
		{"handleStreamOpen", c04RelayKeepsKey(findFunc(agentFile, "Agent", "handleStreamOpen"), "protocol.StreamOpen")},
		{"handleUDPOpen", c04RelayKeepsKey(findFunc(udpFile, "Agent", "handleUDPOpen"), "protocol.UDPOpen")},
		{"handleICMPOpen", c04RelayKeepsKey(findFunc(icmpFile, "Agent", "handleICMPOpen"), "protocol.ICMPOpen")},
	})

	zeroers, writers := c04KeyMutators()
	strList := func(xs []string) string {
		var it []string
		for _, x := range xs {
			it = append(it, coqString(x))
		}
		return "[" + strings.Join(it, "; ") + "]"
	}
	g.line("Definition gen_session_key_zeroers : list string :=\n  %s.", strList(zeroers))
	g.line("Definition gen_session_key_writers : list string :=\n  %s.", strList(writers))

	emit("gen_stream_senders_need_key", []row{
		{"meshConn.Write", c04StopsWithoutKey(findFunc(agentFile, "meshConn", "Write"))},
		{"exit.readLoop", c04StopsWithoutKey(findFuncInDir("internal/exit", "Handler", "readLoop"))},
		{"forward.readLoop", c04StopsWithoutKey(findFuncInDir("internal/forward", "Handler", "readLoop"))},
		{"shell.writeEncrypted", c04StopsWithoutKey(findFuncInDir("internal/shell", "Handler", "writeEncrypted"))},
		{"forwardShellClientData", c04StopsWithoutKey(findFunc(agentFile, "Agent", "forwardShellClientData"))},
		{"sendFileDownload", c04StopsWithoutKey(findFunc(agentFile, "Agent", "sendFileDownload"))},
	})
}
