package main

import (
	"fmt"
	"go/ast"
	"go/token"
	"strconv"
	"strings"
)

// helpers shared by the policy family generators (C19-C23)

// stringConst returns the value of a top-level string constant.
func stringConst(f *ast.File, name string) (string, bool) {
	e := constExpr(f, name)
	if bl, ok := e.(*ast.BasicLit); ok && bl.Kind == token.STRING {
		if s, err := strconv.Unquote(bl.Value); err == nil {
			return s, true
		}
	}
	return "", false
}

// intConst returns the value of a top-level integer constant (also typed:
// `Name uint16 = 40`, hex literals).
func intConst(f *ast.File, name string) (int64, bool) {
	e := constExpr(f, name)
	if e == nil {
		return 0, false
	}
	if bl, ok := e.(*ast.BasicLit); ok && bl.Kind == token.INT {
		v, err := strconv.ParseInt(bl.Value, 0, 64)
		return v, err == nil
	}
	return intLit(e, nil)
}

func coqBytesN(s string) string {
	if s == "" {
		return "[]"
	}
	parts := make([]string, len(s))
	for i := 0; i < len(s); i++ {
		parts[i] = fmt.Sprint(s[i])
	}
	return "[" + strings.Join(parts, "; ") + "]"
}

// paramNames lists the parameter names of a function in order.
func paramNames(fd *ast.FuncDecl) []string {
	var out []string
	if fd == nil || fd.Type.Params == nil {
		return out
	}
	for _, fl := range fd.Type.Params.List {
		for _, n := range fl.Names {
			out = append(out, n.Name)
		}
	}
	return out
}

// calls visits every call expression below n.
func calls(n ast.Node, visit func(*ast.CallExpr)) {
	if n == nil {
		return
	}
	ast.Inspect(n, func(x ast.Node) bool {
		if c, ok := x.(*ast.CallExpr); ok {
			visit(c)
		}
		return true
	})
}

// calleeName returns "recv.Sel" or "Ident" of a call.
func calleeName(c *ast.CallExpr) string {
	switch f := c.Fun.(type) {
	case *ast.Ident:
		return f.Name
	case *ast.SelectorExpr:
		return src(f.X) + "." + f.Sel.Name
	}
	return ""
}

func isIdent(e ast.Expr, name string) bool {
	id, ok := e.(*ast.Ident)
	return ok && id.Name == name
}

// freshBuffers reports whether every buffer the function fills (second
// argument of io.ReadFull) or sends (argument of <x>.Write when checkWrite)
// is an identifier that the same function defines with `:= make([]byte, ...)`
// - not a slice of a pooled, shared or fixed-size buffer - and the function
// uses no sync.Pool.
func freshBuffers(fd *ast.FuncDecl, checkWrite bool) bool {
	if fd == nil || fd.Body == nil {
		return false
	}
	made := map[string]bool{}
	ast.Inspect(fd.Body, func(n ast.Node) bool {
		if as, ok := n.(*ast.AssignStmt); ok && as.Tok == token.DEFINE && len(as.Lhs) == 1 && len(as.Rhs) == 1 {
			if c, ok := as.Rhs[0].(*ast.CallExpr); ok && calleeName(c) == "make" && len(c.Args) >= 2 && src(c.Args[0]) == "[]byte" {
				made[src(as.Lhs[0])] = true
			}
		}
		return true
	})
	ok := true
	seen := 0
	calls(fd.Body, func(c *ast.CallExpr) {
		name := calleeName(c)
		switch {
		case name == "io.ReadFull" && len(c.Args) == 2:
			seen++
			if !made[src(c.Args[1])] {
				ok = false
			}
		case checkWrite && strings.HasSuffix(name, ".Write") && len(c.Args) == 1:
			seen++
			if _, lit := c.Args[0].(*ast.CompositeLit); !lit && !made[src(c.Args[0])] {
				ok = false
			}
		case strings.Contains(name, "Pool") || name == "recover":
			ok = false
		}
	})
	return ok && seen > 0
}

// structHasBufferField reports whether the named struct has a field of an
// array or []byte type (scratch space shared by everything using the struct).
func structHasBufferField(f *ast.File, name string) bool {
	found := false
	if f == nil {
		return true
	}
	for _, d := range f.Decls {
		gd, ok := d.(*ast.GenDecl)
		if !ok {
			continue
		}
		for _, sp := range gd.Specs {
			ts, ok := sp.(*ast.TypeSpec)
			if !ok || ts.Name.Name != name {
				continue
			}
			if st, ok := ts.Type.(*ast.StructType); ok {
				for _, fl := range st.Fields.List {
					t := src(fl.Type)
					if _, isArr := fl.Type.(*ast.ArrayType); isArr && (t == "[]byte" || !strings.HasPrefix(t, "[]")) {
						found = true
					}
				}
			}
		}
	}
	return found
}
