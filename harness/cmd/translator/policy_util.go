package main

import (
	"fmt"
	"go/ast"
	"go/token"
	"strconv"
	"strings"
)

// helpers shared by the policy family generators (C19-C23)

// stringConst returns the value of a top-level string constant.
func stringConst(f *ast.File, name string) (string, bool) {
	e := constExpr(f, name)
	if bl, ok := e.(*ast.BasicLit); ok && bl.Kind == token.STRING {
		if s, err := strconv.Unquote(bl.Value); err == nil {
			return s, true
		}
	}
	return "", false
}

// intConst returns the value of a top-level integer constant (also typed:
// `Name uint16 = 40`, hex literals).
func intConst(f *ast.File, name string) (int64, bool) {
	e := constExpr(f, name)
	if e == nil {
		return 0, false
	}
	if bl, ok := e.(*ast.BasicLit); ok && bl.Kind == token.INT {
		v, err := strconv.ParseInt(bl.Value, 0, 64)
		return v, err == nil
	}
	return intLit(e, nil)
}

func coqBytesN(s string) string {
	if s == "" {
		return "[]"
	}
	parts := make([]string, len(s))
	for i := 0; i < len(s); i++ {
		parts[i] = fmt.Sprint(s[i])
	}
	return "[" + strings.Join(parts, "; ") + "]"
}

// paramNames lists the parameter names of a function in order.
func paramNames(fd *ast.FuncDecl) []string {
	var out []string
	if fd == nil || fd.Type.Params == nil {
		return out
	}
	for _, fl := range fd.Type.Params.List {
		for _, n := range fl.Names {
			out = append(out, n.Name)
		}
	}
	return out
}

// calls visits every call expression below n.
func calls(n ast.Node, visit func(*ast.CallExpr)) {
	if n == nil {
		return
	}
	ast.Inspect(n, func(x ast.Node) bool {
		if c, ok := x.(*ast.CallExpr); ok {
			visit(c)
		}
		return true
	})
}

// calleeName returns "recv.Sel" or "Ident" of a call.
func calleeName(c *ast.CallExpr) string {
	switch f := c.Fun.(type) {
	case *ast.Ident:
		return f.Name
	case *ast.SelectorExpr:
		return src(f.X) + "." + f.Sel.Name
	}
	return ""
}

func isIdent(e ast.Expr, name string) bool {
	id, ok := e.(*ast.Ident)
	return ok && id.Name == name
}
