package main

import (
	"go/ast"
	"go/token"
	"strings"
)

func init() { generators["C19"] = genC19 }

// posOfCall returns the position of the first call whose callee name ends in suffix (NoPos if none).
func posOfCall(n ast.Node, suffix string) token.Pos {
	p := token.NoPos
	calls(n, func(c *ast.CallExpr) {
		if p == token.NoPos && strings.HasSuffix(calleeName(c), suffix) {
			p = c.Pos()
		}
	})
	return p
}

// C19: the wiring between route management and the exit handler's allow
// list, the shape of the allow-list operations and the position of the
// permission check relative to the dial.
func genC19(g *gen) {
	af := parseFile("internal/agent/agent.go")
	hf := parseFile("internal/exit/handler.go")
	types := parseFile("internal/protocol/types.go")

	if v, ok := intConst(types, "ErrNotAllowed"); ok {
		g.line("Definition gen_err_not_allowed : N := %d.", v)
	} else {
		g.note("constant ErrNotAllowed not found")
		g.line("Definition gen_err_not_allowed : N := 0.")
	}

	// ManageRoute: case "add": AddDynamicRoute (error -> return) then AddAllowedRoute;
	//              case "remove": RemoveDynamicRoute (error -> return) then RemoveAllowedRoute
	addOK, removeOK := false, false
	if fd := findFunc(af, "Agent", "ManageRoute"); fd != nil && fd.Body != nil {
		ast.Inspect(fd.Body, func(n ast.Node) bool {
			cc, ok := n.(*ast.CaseClause)
			if !ok || len(cc.List) != 1 {
				return true
			}
			body := &ast.BlockStmt{List: cc.Body}
			guarded := func(call string) token.Pos {
				// if err := a.routeMgr.<call>(...); err != nil { return nil, err }
				for _, st := range cc.Body {
					if is, ok := st.(*ast.IfStmt); ok && is.Init != nil && strings.Contains(src(is.Init), call+"(") && strings.Contains(src(is.Cond), "err != nil") {
						for _, b := range is.Body.List {
							if _, ok := b.(*ast.ReturnStmt); ok {
								return is.Pos()
							}
						}
					}
				}
				return token.NoPos
			}
			switch src(cc.List[0]) {
			case `"add"`:
				p1, p2 := guarded("AddDynamicRoute"), posOfCall(body, ".AddAllowedRoute")
				addOK = p1 != token.NoPos && p2 != token.NoPos && p1 < p2 && strings.Contains(src(body), "ensureExitHandler().AddAllowedRoute(")
			case `"remove"`:
				p1, p2 := guarded("RemoveDynamicRoute"), posOfCall(body, ".RemoveAllowedRoute")
				removeOK = p1 != token.NoPos && p2 != token.NoPos && p1 < p2
			}
			return true
		})
	}
	g.line("Definition gen_add_updates_routes_then_allow_list : bool := %s.", coqBool(addOK))
	g.line("Definition gen_remove_updates_routes_then_allow_list : bool := %s.", coqBool(removeOK))

	// AddAllowedRoute: an entry with an equal String() returns before the append
	dedupe := false
	if fd := findFunc(hf, "Handler", "AddAllowedRoute"); fd != nil && fd.Body != nil {
		appendPos := token.NoPos
		retPos := token.NoPos
		ast.Inspect(fd.Body, func(n ast.Node) bool {
			switch x := n.(type) {
			case *ast.CallExpr:
				if calleeName(x) == "append" && appendPos == token.NoPos {
					appendPos = x.Pos()
				}
			case *ast.RangeStmt:
				if strings.HasSuffix(src(x.X), ".AllowedRoutes") {
					ast.Inspect(x.Body, func(m ast.Node) bool {
						if is, ok := m.(*ast.IfStmt); ok && strings.Contains(src(is.Cond), ".String() ==") {
							for _, b := range is.Body.List {
								if r, ok := b.(*ast.ReturnStmt); ok {
									retPos = r.Pos()
								}
							}
						}
						return true
					})
				}
			}
			return true
		})
		dedupe = retPos != token.NoPos && appendPos != token.NoPos && retPos < appendPos
	}
	g.line("Definition gen_add_allowed_route_skips_present_network : bool := %s.", coqBool(dedupe))

	// AddAllowedRoute / RemoveAllowedRoute: the scan and the update happen in ONE write-lock region:
	// the function starts with routesMu.Lock(); defer routesMu.Unlock() and touches the mutex nowhere else
	oneRegion := func(name string) bool {
		fd := findFunc(hf, "Handler", name)
		if fd == nil || fd.Body == nil || len(fd.Body.List) < 2 {
			return false
		}
		es, ok1 := fd.Body.List[0].(*ast.ExprStmt)
		ds, ok2 := fd.Body.List[1].(*ast.DeferStmt)
		if !ok1 || !ok2 {
			return false
		}
		c0, ok := es.X.(*ast.CallExpr)
		if !ok || !strings.HasSuffix(calleeName(c0), ".routesMu.Lock") || !strings.HasSuffix(calleeName(ds.Call), ".routesMu.Unlock") {
			return false
		}
		n := 0
		calls(fd.Body, func(c *ast.CallExpr) {
			if strings.Contains(calleeName(c), ".routesMu.") {
				n++
			}
		})
		return n == 2
	}
	g.line("Definition gen_allow_list_updates_are_one_write_lock_region : bool := %s.", coqBool(oneRegion("AddAllowedRoute") && oneRegion("RemoveAllowedRoute")))

	// RemoveAllowedRoute: removes one entry (returns inside the loop at the first String() match)
	removeFirst := false
	if fd := findFunc(hf, "Handler", "RemoveAllowedRoute"); fd != nil && fd.Body != nil {
		ast.Inspect(fd.Body, func(n ast.Node) bool {
			if rs, ok := n.(*ast.RangeStmt); ok && strings.HasSuffix(src(rs.X), ".AllowedRoutes") {
				ast.Inspect(rs.Body, func(m ast.Node) bool {
					if is, ok := m.(*ast.IfStmt); ok && strings.Contains(src(is.Cond), ".String() ==") {
						hasRet := false
						for _, b := range is.Body.List {
							if _, ok := b.(*ast.ReturnStmt); ok {
								hasRet = true
							}
						}
						if hasRet && strings.Contains(src(is.Body), "append(") {
							removeFirst = true
						}
					}
					return true
				})
			}
			return true
		})
	}
	g.line("Definition gen_remove_allowed_route_removes_first_match : bool := %s.", coqBool(removeFirst))

	// isAllowed: true only from inside the loop over AllowedRoutes on route.Contains(ip); every other return is false
	allowedShape := false
	if fd := findFunc(hf, "Handler", "isAllowed"); fd != nil && fd.Body != nil {
		trues, truesInLoop, others := 0, 0, 0
		ast.Inspect(fd.Body, func(n ast.Node) bool {
			if r, ok := n.(*ast.ReturnStmt); ok && len(r.Results) == 1 {
				switch src(r.Results[0]) {
				case "true":
					trues++
				case "false":
				default:
					others++
				}
			}
			if rs, ok := n.(*ast.RangeStmt); ok && strings.HasSuffix(src(rs.X), ".AllowedRoutes") {
				ast.Inspect(rs.Body, func(m ast.Node) bool {
					if is, ok := m.(*ast.IfStmt); ok && strings.HasSuffix(src(is.Cond), ".Contains(ip)") && strings.Contains(src(is.Body), "return true") {
						truesInLoop++
					}
					return true
				})
			}
			return true
		})
		allowedShape = trues == 1 && truesInLoop == 1 && others == 0
	}
	g.line("Definition gen_is_allowed_iff_some_route_contains : bool := %s.", coqBool(allowedShape))

	// handleStreamOpenAsync: `if !domainAllowed && !h.isAllowed(ip) { sendOpenErr(ErrNotAllowed); return }` precedes the only dial; the dial address is built from ip and destPort
	checkBeforeDial := false
	if fd := findFunc(hf, "Handler", "handleStreamOpenAsync"); fd != nil && fd.Body != nil {
		checkPos := token.NoPos
		for _, st := range fd.Body.List {
			if is, ok := st.(*ast.IfStmt); ok {
				cond := strings.ReplaceAll(src(is.Cond), " ", "")
				if cond == "!domainAllowed&&!h.isAllowed(ip)" {
					ret, code := false, false
					for _, b := range is.Body.List {
						if _, ok := b.(*ast.ReturnStmt); ok {
							ret = true
						}
						if strings.Contains(src(b), "ErrNotAllowed") {
							code = true
						}
					}
					if ret && code {
						checkPos = is.Pos()
					}
				}
			}
		}
		dials := 0
		dialPos := token.NoPos
		calls(fd.Body, func(c *ast.CallExpr) {
			n := calleeName(c)
			if strings.HasSuffix(n, ".DialContext") || strings.HasSuffix(n, ".Dial") || n == "net.Dial" || n == "net.DialTimeout" {
				dials++
				dialPos = c.Pos()
			}
		})
		addrFromIP := strings.Contains(src(fd.Body), `fmt.Sprintf("%s:%d", ip.String(), destPort)`) || strings.Contains(src(fd.Body), "net.JoinHostPort(ip.String()")
		checkBeforeDial = checkPos != token.NoPos && dials == 1 && checkPos < dialPos && addrFromIP
	}
	g.line("Definition gen_permission_check_precedes_the_only_dial : bool := %s.", coqBool(checkBeforeDial))

	// HandleStreamOpen: the name check is made only for non-literals and with isDomainAllowed
	nameCheck := false
	if fd := findFunc(hf, "Handler", "HandleStreamOpen"); fd != nil && fd.Body != nil {
		ast.Inspect(fd.Body, func(n ast.Node) bool {
			if is, ok := n.(*ast.IfStmt); ok && strings.ReplaceAll(src(is.Cond), " ", "") == "net.ParseIP(destAddr)==nil" {
				if strings.Contains(src(is.Body), "domainAllowed = h.isDomainAllowed(destAddr)") {
					nameCheck = true
				}
			}
			return true
		})
		// no other assignment makes domainAllowed true
		assigns := 0
		ast.Inspect(fd.Body, func(n ast.Node) bool {
			if as, ok := n.(*ast.AssignStmt); ok {
				for _, l := range as.Lhs {
					if isIdent(l, "domainAllowed") {
						assigns++
					}
				}
			}
			return true
		})
		nameCheck = nameCheck && assigns == 2 // the := false and the one above
	}
	g.line("Definition gen_name_check_only_for_non_literals : bool := %s.", coqBool(nameCheck))

	// ensureExitHandler: the on-demand handler starts with no routes and no domain patterns
	onDemandEmpty := false
	if fd := findFunc(af, "Agent", "ensureExitHandler"); fd != nil && fd.Body != nil {
		ast.Inspect(fd.Body, func(n ast.Node) bool {
			if cl, ok := n.(*ast.CompositeLit); ok && strings.HasSuffix(src(cl.Type), "exit.HandlerConfig") {
				routesNil, domains := false, false
				for _, el := range cl.Elts {
					if kv, ok := el.(*ast.KeyValueExpr); ok {
						if src(kv.Key) == "AllowedRoutes" && src(kv.Value) == "nil" {
							routesNil = true
						}
						if src(kv.Key) == "AllowedDomains" {
							domains = true
						}
					}
				}
				onDemandEmpty = routesNil && !domains
			}
			return true
		})
	}
	g.line("Definition gen_on_demand_handler_starts_empty : bool := %s.", coqBool(onDemandEmpty))

	// initComponents: the configured handler exists only if exit.enabled, with routes / patterns from the configuration
	cfgHandler := false
	if fd := findFunc(af, "Agent", "initComponents"); fd != nil && fd.Body != nil {
		for _, st := range fd.Body.List {
			if is, ok := st.(*ast.IfStmt); ok && strings.HasSuffix(src(is.Cond), "cfg.Exit.Enabled") {
				b := src(is.Body)
				if strings.Contains(b, "exit.ParseAllowedRoutes(a.cfg.Exit.Routes)") && strings.Contains(b, "range a.cfg.Exit.DomainRoutes") &&
					strings.Contains(b, "AllowedRoutes:") && strings.Contains(b, "AllowedDomains:") && strings.Contains(b, "a.exitHandler = exit.NewHandler(") {
					cfgHandler = true
				}
			}
		}
	}
	g.line("Definition gen_configured_handler_only_if_exit_enabled : bool := %s.", coqBool(cfgHandler))

	// routing manager: dynamic routes keyed by network.String(); add refuses config-only keys
	mf := parseFile("internal/routing/manager.go")
	keyed := false
	keyVarOf := func(fd *ast.FuncDecl) string {
		name := ""
		ast.Inspect(fd.Body, func(n ast.Node) bool {
			if as, ok := n.(*ast.AssignStmt); ok && len(as.Lhs) == 1 && len(as.Rhs) == 1 && src(as.Rhs[0]) == "network.String()" {
				name = src(as.Lhs[0])
			}
			return true
		})
		return name
	}
	if fd := findFunc(mf, "Manager", "AddDynamicRoute"); fd != nil && fd.Body != nil {
		if k := keyVarOf(fd); k != "" {
			b := src(fd.Body)
			keyed = strings.Contains(b, "m.dynamicRoutes["+k+"] =") && strings.Contains(b, "m.localRoutes["+k+"]")
		}
	}
	if fd := findFunc(mf, "Manager", "RemoveDynamicRoute"); fd != nil && fd.Body != nil {
		k := keyVarOf(fd)
		keyed = keyed && k != "" && strings.Contains(src(fd.Body), "delete(m.dynamicRoutes, "+k+")")
	} else {
		keyed = false
	}
	g.line("Definition gen_dynamic_routes_keyed_by_network_string : bool := %s.", coqBool(keyed))
}
