package main

import (
	"fmt"
	"go/ast"
	"go/token"
	"sort"
	"strings"
)

func init() { generators["C24"] = genC24 }

type c24reg struct {
	group    string // "always" or the ServerConfig flag name
	when     bool
	pattern  string
	handler  string
	disabled bool
}

// muxRegistrations collects mux.HandleFunc / mux.Handle calls of a statement
// list; if statements on cfg.<Flag> recurse with the flag as group.
func muxRegistrations(stmts []ast.Stmt, muxVar, cfgVar, group string, when bool, out *[]c24reg, notes *[]string) {
	for _, st := range stmts {
		switch s := st.(type) {
		case *ast.ExprStmt:
			call, ok := s.X.(*ast.CallExpr)
			if !ok {
				continue
			}
			sel, ok := call.Fun.(*ast.SelectorExpr)
			if !ok || src(sel.X) != muxVar || (sel.Sel.Name != "HandleFunc" && sel.Sel.Name != "Handle") || len(call.Args) != 2 {
				continue
			}
			pat, ok := strLit(call.Args[0])
			if !ok {
				*notes = append(*notes, "mux registration with a non-literal pattern: "+src(call.Args[0]))
				pat = "?" + src(call.Args[0])
			}
			h := call.Args[1]
			disabled := false
			name := src(h)
			if c, ok := h.(*ast.CallExpr); ok {
				name = src(c.Fun)
				disabled = name == "disabledHandler"
			}
			*out = append(*out, c24reg{group, when, pat, name, disabled})
		case *ast.IfStmt:
			if s.Init != nil {
				*notes = append(*notes, "if statement with init in NewServer")
				continue
			}
			flag, neg := "", false
			cond := s.Cond
			if u, ok := cond.(*ast.UnaryExpr); ok && u.Op == token.NOT {
				cond, neg = u.X, true
			}
			if sel, ok := cond.(*ast.SelectorExpr); ok && src(sel.X) == cfgVar {
				flag = sel.Sel.Name
			}
			hasReg := false
			ast.Inspect(s, func(n ast.Node) bool {
				if c, ok := n.(*ast.CallExpr); ok {
					if sl, ok := c.Fun.(*ast.SelectorExpr); ok && src(sl.X) == muxVar {
						hasReg = true
					}
				}
				return true
			})
			if !hasReg {
				continue
			}
			if flag == "" || group != "always" {
				*notes = append(*notes, "mux registration under an unrecognised condition: "+src(s.Cond))
				flag = "?" + src(s.Cond)
			}
			muxRegistrations(s.Body.List, muxVar, cfgVar, flag, !neg, out, notes)
			switch e := s.Else.(type) {
			case *ast.BlockStmt:
				muxRegistrations(e.List, muxVar, cfgVar, flag, neg, out, notes)
			case nil:
			default:
				*notes = append(*notes, "else-if chain around mux registrations")
			}
		case *ast.ForStmt, *ast.RangeStmt, *ast.SwitchStmt:
			hasReg := false
			ast.Inspect(s, func(n ast.Node) bool {
				if c, ok := n.(*ast.CallExpr); ok {
					if sl, ok := c.Fun.(*ast.SelectorExpr); ok && src(sl.X) == muxVar {
						hasReg = true
					}
				}
				return true
			})
			if hasReg {
				*notes = append(*notes, "mux registration inside a loop or switch")
				*out = append(*out, c24reg{"?loop", true, "?", "?", false})
			}
		}
	}
}

func nospace(s string) string { return strings.Join(strings.Fields(s), "") }

// C24: the exempt path set, the mux registrations of NewServer per flag
// branch, the condition under which the auth middleware is installed, and
// the shape of requireAuth / extractBearerToken.
func genC24(g *gen) {
	f := parseFile("internal/health/server.go")
	// exempt set
	var exempt []string
	exemptOK := false
	if cl, ok := constExpr(f, "authExemptPaths").(*ast.CompositeLit); ok {
		exemptOK = true
		for _, el := range cl.Elts {
			kv, ok := el.(*ast.KeyValueExpr)
			if !ok {
				exemptOK = false
				continue
			}
			k, ok1 := strLit(kv.Key)
			if !ok1 {
				exemptOK = false
				continue
			}
			if src(kv.Value) == "true" {
				exempt = append(exempt, k)
			}
		}
	}
	sort.Strings(exempt)
	// NewServer
	var regs []c24reg
	var notes []string
	wrapCond, wrapOK := "", false
	muxOther := 0 // uses of the mux other than registration and the final handler wiring
	if fd := findFunc(f, "", "NewServer"); fd != nil && fd.Body != nil {
		muxVar, cfgVar := "", ""
		if len(fd.Type.Params.List) > 0 && len(fd.Type.Params.List[0].Names) == 1 {
			cfgVar = fd.Type.Params.List[0].Names[0].Name
		}
		for _, st := range fd.Body.List {
			if as, ok := st.(*ast.AssignStmt); ok && len(as.Lhs) == 1 && len(as.Rhs) == 1 && src(as.Rhs[0]) == "http.NewServeMux()" {
				muxVar = src(as.Lhs[0])
			}
		}
		if muxVar != "" {
			muxRegistrations(fd.Body.List, muxVar, cfgVar, "always", true, &regs, &notes)
			// var handler http.Handler = mux; if cfg.TokenHash != "" { handler = s.requireAuth(mux) }
			handlerVar := ""
			for _, st := range fd.Body.List {
				switch s := st.(type) {
				case *ast.DeclStmt:
					if gd, ok := s.Decl.(*ast.GenDecl); ok {
						for _, sp := range gd.Specs {
							if vs, ok := sp.(*ast.ValueSpec); ok && len(vs.Names) == 1 && len(vs.Values) == 1 && src(vs.Values[0]) == muxVar {
								handlerVar = vs.Names[0].Name
							}
						}
					}
				case *ast.AssignStmt:
					if len(s.Lhs) == 1 && len(s.Rhs) == 1 && src(s.Rhs[0]) == muxVar && s.Tok == token.DEFINE {
						handlerVar = src(s.Lhs[0])
					}
				case *ast.IfStmt:
					if handlerVar != "" && s.Else == nil && len(s.Body.List) == 1 {
						if as, ok := s.Body.List[0].(*ast.AssignStmt); ok && len(as.Lhs) == 1 && src(as.Lhs[0]) == handlerVar &&
							nospace(src(as.Rhs[0])) == "s.requireAuth("+muxVar+")" {
							wrapCond = nospace(src(s.Cond))
							wrapOK = true
						}
					}
				}
			}
			// the server must serve handlerVar
			served := false
			ast.Inspect(fd.Body, func(n ast.Node) bool {
				if kv, ok := n.(*ast.KeyValueExpr); ok && src(kv.Key) == "Handler" {
					served = src(kv.Value) == handlerVar && handlerVar != ""
				}
				return true
			})
			if !served {
				wrapOK = false
				notes = append(notes, "http.Server.Handler is not the (possibly wrapped) handler variable")
			}
		} else {
			notes = append(notes, "http.NewServeMux() assignment not found in NewServer")
		}
	} else {
		notes = append(notes, "NewServer not found")
	}
	_ = muxOther
	// requireAuth
	exemptLookup, rejectCond := "", ""
	rejectStops, rejectStatus := false, ""
	if fd := findFunc(f, "Server", "requireAuth"); fd != nil && fd.Body != nil {
		ast.Inspect(fd.Body, func(n ast.Node) bool {
			is, ok := n.(*ast.IfStmt)
			if !ok {
				return true
			}
			body := nospace(src(is.Body))
			cond := nospace(src(is.Cond))
			switch {
			case strings.Contains(cond, "authExemptPaths"):
				exemptLookup = cond
			case strings.Contains(body, "StatusUnauthorized"):
				rejectCond = cond
				rejectStops = !strings.Contains(body, "ServeHTTP") && strings.HasSuffix(body, "return}")
				if strings.Contains(body, "http.StatusUnauthorized") {
					rejectStatus = "http.StatusUnauthorized"
				}
			}
			return true
		})
	}
	// extractBearerToken
	prefix, header, queryKey := "", "", ""
	offset := int64(-1)
	if fd := findFunc(f, "", "extractBearerToken"); fd != nil && fd.Body != nil {
		ast.Inspect(fd.Body, func(n ast.Node) bool {
			switch x := n.(type) {
			case *ast.CallExpr:
				switch fn := src(x.Fun); {
				case fn == "strings.HasPrefix" && len(x.Args) == 2:
					prefix, _ = strLit(x.Args[1])
				case strings.HasSuffix(fn, "Header.Get") && len(x.Args) == 1:
					header, _ = strLit(x.Args[0])
				case strings.HasSuffix(fn, "Query().Get") && len(x.Args) == 1:
					queryKey, _ = strLit(x.Args[0])
				}
			case *ast.SliceExpr:
				if x.High == nil && x.Low != nil {
					if v, ok := intLit(x.Low, nil); ok {
						offset = v
					}
				}
			}
			return true
		})
	}
	if !exemptOK || len(regs) == 0 || !wrapOK {
		notes = append(notes, "pattern not recognised (exempt set / registrations / auth wrapper); facts degraded")
	}
	for _, n := range notes {
		g.note("%s", n)
	}
	g.line("Open Scope string_scope.")
	g.line("Definition gen_exempt_paths : list string := %s.", coqStrListHttpcfg(exempt))
	g.line("Definition gen_exempt_recognised : bool := %s.", coqBool(exemptOK))
	items := make([]string, len(regs))
	for i, r := range regs {
		items[i] = fmt.Sprintf("(%s, %s, %s, %s, %s)", coqString(r.group), coqBool(r.when), coqString(r.pattern), coqString(r.handler), coqBool(r.disabled))
	}
	g.line("Definition gen_registrations : list (string * bool * string * string * bool) := [\n    %s ].", strings.Join(items, ";\n    "))
	g.line("Definition gen_registration_notes : N := %d.", len(notes))
	g.line("Definition gen_auth_wrapper_condition : string := %s.", coqString(wrapCond))
	g.line("Definition gen_auth_wrapper_recognised : bool := %s.", coqBool(wrapOK))
	g.line("Definition gen_exempt_lookup : string := %s.", coqString(exemptLookup))
	g.line("Definition gen_reject_condition : string := %s.", coqString(rejectCond))
	g.line("Definition gen_reject_returns_without_next : bool := %s.", coqBool(rejectStops))
	g.line("Definition gen_reject_status : string := %s.", coqString(rejectStatus))
	g.line("Definition gen_bearer_prefix : string := %s.", coqString(prefix))
	g.line("Definition gen_bearer_offset : N := %d.", func() int64 {
		if offset < 0 {
			return 0
		}
		return offset
	}())
	g.line("Definition gen_auth_header : string := %s.", coqString(header))
	g.line("Definition gen_query_key : string := %s.", coqString(queryKey))

	// --- from the configuration file to health.ServerConfig -----------------
	// agent.go: the health.ServerConfig literal of initComponents
	af := parseFile("internal/agent/agent.go")
	var wiring []string
	wiringSites := 0
	if af != nil {
		ast.Inspect(af, func(n ast.Node) bool {
			cl, ok := n.(*ast.CompositeLit)
			if !ok || src(cl.Type) != "health.ServerConfig" {
				return true
			}
			wiringSites++
			for _, el := range cl.Elts {
				kv, ok := el.(*ast.KeyValueExpr)
				if !ok {
					continue
				}
				switch k := src(kv.Key); k {
				case "TokenHash", "EnablePprof", "EnableDashboard", "EnableRemoteAPI":
					wiring = append(wiring, fmt.Sprintf("(%s, %s)", coqString(k), coqString(nospace(src(kv.Value)))))
				}
			}
			return true
		})
	}
	// config.go: the three group methods of HTTPConfig
	cf := parseFile("internal/config/config.go")
	var methods []string
	for _, m := range []string{"PprofEnabled", "DashboardEnabled", "RemoteAPIEnabled"} {
		shape := "?"
		if fd := findFunc(cf, "HTTPConfig", m); fd != nil && fd.Body != nil {
			parts := make([]string, len(fd.Body.List))
			for i, st := range fd.Body.List {
				parts[i] = nospace(src(st))
			}
			shape = strings.Join(parts, ";")
		}
		methods = append(methods, fmt.Sprintf("(%s, %s)", coqString(m), coqString(shape)))
	}
	// other writers of the endpoint toggles in package config (e.g. a normalisation pass)
	toggleWriters := []string{}
	for _, file := range parseDir("internal/config") {
		for _, d := range file.Decls {
			fd, ok := d.(*ast.FuncDecl)
			if !ok || fd.Body == nil {
				continue
			}
			ast.Inspect(fd.Body, func(n ast.Node) bool {
				as, ok := n.(*ast.AssignStmt)
				if !ok {
					return true
				}
				for _, l := range as.Lhs {
					t := nospace(src(l))
					for _, f := range []string{".HTTP.Minimal", ".HTTP.Pprof", ".HTTP.Dashboard", ".HTTP.RemoteAPI", ".HTTP.TokenHash"} {
						if strings.HasSuffix(t, f) {
							toggleWriters = append(toggleWriters, fd.Name.Name+":"+t)
						}
					}
				}
				return true
			})
		}
	}
	sort.Strings(toggleWriters)
	// validateToken: every bcrypt error rejects (`CompareHashAndPassword(...) != nil` guards `return false`)
	rejectAny := false
	if fd := findFunc(f, "Server", "validateToken"); fd != nil && fd.Body != nil {
		ast.Inspect(fd.Body, func(n ast.Node) bool {
			is, ok := n.(*ast.IfStmt)
			if !ok {
				return true
			}
			cond := nospace(src(is.Cond))
			if is.Init == nil && strings.HasPrefix(cond, "bcrypt.CompareHashAndPassword(") && strings.HasSuffix(cond, ")!=nil") &&
				nospace(src(is.Body)) == "{returnfalse}" {
				rejectAny = true
			}
			return true
		})
	}
	g.line("Definition gen_token_rejected_on_any_bcrypt_error : bool := %s.", coqBool(rejectAny))
	g.line("Definition gen_server_config_literals : N := %d.", wiringSites)
	g.line("Definition gen_server_config_wiring : list (string * string) := [%s].", strings.Join(wiring, "; "))
	g.line("Definition gen_group_methods : list (string * string) := [%s].", strings.Join(methods, "; "))
	g.line("Definition gen_http_toggle_writers : list string := %s.", coqStrListHttpcfg(toggleWriters))
}
