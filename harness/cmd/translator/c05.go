package main

import (
	"fmt"
	"go/ast"
	"go/token"
	"sort"
	"strings"
)

func init() { generators["C05"] = genC05 }

// C05 source facts from internal/protocol/{types.go,frame.go}:
//   - protocol constants (header size, payload limit, key/signature sizes,
//     NodeInfo caps, address types and families)
//   - the `len(buf) < K` guard at the top of every Decode function
//   - prefixLength / addressLength tables
//   - DecodeQueuedState: the number of bytes skipped after a decoded sleep
//     command (constant part and per-SeenBy part) and the minimum entry sizes
//     passed to capFor, plus capFor's divisor
//   - truncation limits of the cutting encoders
//   - for every Encode / Decode function the sequence of bufferWriter /
//     bufferReader primitives in source order, each with the field it
//     transfers ("u16 Version", "str DisplayName", ...)
func genC05(g *gen) {
	types := parseFile("internal/protocol/types.go")
	frame := parseFile("internal/protocol/frame.go")
	env := map[string]int64{}
	for _, f := range []*ast.File{types, frame} {
		collectConsts(f, env)
	}
	c := func(name string) int64 {
		if v, ok := env[name]; ok {
			return v
		}
		g.note("constant %s not found", name)
		return 0
	}
	g.line("Open Scope string_scope.")
	for _, kv := range [][2]string{
		{"gen_header_size", "HeaderSize"}, {"gen_max_payload", "MaxPayloadSize"},
		{"gen_key_size", "EphemeralKeySize"}, {"gen_signature_size", "SignatureSize"},
		{"gen_max_peers", "MaxPeersInNodeInfo"}, {"gen_max_fwd_listeners", "MaxForwardListenersInNodeInfo"},
		{"gen_max_shells", "MaxShellsInNodeInfo"},
		{"gen_addr_ipv4", "AddrTypeIPv4"}, {"gen_addr_ipv6", "AddrTypeIPv6"}, {"gen_addr_domain", "AddrTypeDomain"},
		{"gen_fam_ipv4", "AddrFamilyIPv4"}, {"gen_fam_ipv6", "AddrFamilyIPv6"}, {"gen_fam_domain", "AddrFamilyDomain"},
		{"gen_fam_forward", "AddrFamilyForward"}, {"gen_fam_agent", "AddrFamilyAgent"},
	} {
		g.line("Definition %s : N := %d.", kv[0], c(kv[1]))
	}

	// guards
	var guards []string
	if frame != nil {
		for _, d := range frame.Decls {
			fd, ok := d.(*ast.FuncDecl)
			if !ok || fd.Recv != nil || fd.Body == nil || !strings.HasPrefix(fd.Name.Name, "Decode") || len(fd.Body.List) == 0 {
				continue
			}
			if is, ok := fd.Body.List[0].(*ast.IfStmt); ok {
				if be, ok := is.Cond.(*ast.BinaryExpr); ok && be.Op == token.LSS && strings.HasPrefix(src(be.X), "len(") {
					if v, ok := intLit(be.Y, env); ok {
						guards = append(guards, fmt.Sprintf("(%s, %d)", coqString(fd.Name.Name), v))
						continue
					}
				}
			}
			if fd.Name.Name != "Decode" && fd.Name.Name != "DecodeDomainPrefix" && fd.Name.Name != "DecodeForwardKey" &&
				fd.Name.Name != "DecodeForwardKeyAndTarget" && fd.Name.Name != "DecodeAgentPrefix" {
				g.note("no length guard recognised at the top of %s", fd.Name.Name)
				guards = append(guards, fmt.Sprintf("(%s, 0)", coqString(fd.Name.Name)))
			}
		}
	}
	sort.Strings(guards)
	g.line("Definition gen_guards : list (string * N) := [%s].", strings.Join(guards, "; "))

	// prefixLength / addressLength tables: (case constant value, returned length); default last with key 256
	g.line("Definition gen_prefix_length : list (N * N) := [%s].", strings.Join(switchTable(g, frame, "prefixLength", env), "; "))
	g.line("Definition gen_address_length : list (N * N) := [%s].", strings.Join(switchTable(g, frame, "addressLength", env), "; "))

	// DecodeQueuedState
	skipConst, skipPer := int64(0), int64(0)
	var capArgs []string
	if fd := findFunc(frame, "", "DecodeQueuedState"); fd != nil {
		ast.Inspect(fd.Body, func(n ast.Node) bool {
			switch x := n.(type) {
			case *ast.AssignStmt:
				if x.Tok == token.ADD_ASSIGN && len(x.Lhs) == 1 && src(x.Lhs[0]) == "r.offset" {
					skipConst, skipPer = linear(x.Rhs[0], env)
				}
			case *ast.CallExpr:
				if sel, ok := x.Fun.(*ast.SelectorExpr); ok && sel.Sel.Name == "capFor" && len(x.Args) == 2 {
					if v, ok := intLit(x.Args[1], env); ok {
						capArgs = append(capArgs, fmt.Sprint(v))
					}
				}
			}
			return true
		})
	} else {
		g.note("DecodeQueuedState not found")
	}
	g.line("Definition gen_sleep_skip_const : N := %d.", skipConst)
	g.line("Definition gen_sleep_skip_per_seenby : N := %d.", skipPer)
	g.line("Definition gen_capfor_min_sizes : list N := [%s].", strings.Join(capArgs, "; "))
	// capFor divisor: r.remaining() / (K + minSize)
	div := int64(0)
	if fd := findFunc(frame, "bufferReader", "capFor"); fd != nil {
		ast.Inspect(fd.Body, func(n ast.Node) bool {
			if be, ok := n.(*ast.BinaryExpr); ok && be.Op == token.QUO && src(be.X) == "r.remaining()" {
				if p, ok := be.Y.(*ast.ParenExpr); ok {
					if s, ok := p.X.(*ast.BinaryExpr); ok && s.Op == token.ADD {
						if v, ok := intLit(s.X, env); ok {
							div = v
						}
					}
				}
			}
			return true
		})
	}
	g.line("Definition gen_capfor_overhead : N := %d.", div)

	// truncation limits: `if len(x) > K { x = x[:K] }` inside Encode methods
	var cuts []string
	if frame != nil {
		for _, d := range frame.Decls {
			fd, ok := d.(*ast.FuncDecl)
			if !ok || fd.Body == nil || !(fd.Name.Name == "Encode" || fd.Name.Name == "EncodeNodeInfo") {
				continue
			}
			name := recvName(fd) + "." + fd.Name.Name
			for _, st := range fd.Body.List {
				is, ok := st.(*ast.IfStmt)
				if !ok {
					continue
				}
				be, ok := is.Cond.(*ast.BinaryExpr)
				if !ok || be.Op != token.GTR || !strings.HasPrefix(src(be.X), "len(") {
					continue
				}
				if v, ok := intLit(be.Y, env); ok && len(is.Body.List) == 1 {
					if as, ok := is.Body.List[0].(*ast.AssignStmt); ok && strings.Contains(src(as.Rhs[0]), "[:") {
						cuts = append(cuts, fmt.Sprintf("(%s, %d)", coqString(name+" "+src(as.Lhs[0])), v))
					}
				}
			}
		}
	}
	sort.Strings(cuts)
	g.line("Definition gen_cuts : list (string * N) := [%s].", strings.Join(cuts, "; "))

	// shapes
	var shapes []string
	if frame != nil {
		for _, d := range frame.Decls {
			fd, ok := d.(*ast.FuncDecl)
			if !ok || fd.Body == nil {
				continue
			}
			name := fd.Name.Name
			if r := recvName(fd); r != "" {
				if r == "bufferWriter" || r == "bufferReader" || r == "FrameReader" || r == "FrameWriter" {
					continue
				}
				name = r + "." + name
			}
			if !(strings.Contains(name, "Encode") || strings.HasPrefix(name, "Decode") || strings.HasSuffix(name, "SignableBytes")) {
				continue
			}
			toks := shapeOf(fd)
			if len(toks) == 0 {
				continue
			}
			items := make([]string, len(toks))
			for i, t := range toks {
				items[i] = coqString(t)
			}
			shapes = append(shapes, fmt.Sprintf("(%s, [%s])", coqString(name), strings.Join(items, "; ")))
		}
	}
	sort.Strings(shapes)
	g.line("Definition gen_shapes : list (string * list string) := [\n  %s].", strings.Join(shapes, ";\n  "))

	// bounds: for every decoder, reader primitive and prefix helper, in source
	// order, each condition that speaks about buffer lengths / offsets, each
	// index or slice expression into a buffer, and each offset computation.
	// An edit of an inner bounds check (which the primitive sequence does not
	// show) changes this table.
	var bounds []string
	if frame != nil {
		for _, d := range frame.Decls {
			fd, ok := d.(*ast.FuncDecl)
			if !ok || fd.Body == nil {
				continue
			}
			name := fd.Name.Name
			r := recvName(fd)
			switch {
			case r == "bufferReader":
				name = "bufferReader." + name
			case r == "FrameReader" && name == "Read":
				name = "FrameReader.Read"
			case r == "" && (strings.HasPrefix(name, "Decode") || name == "addressLength" || name == "prefixLength"):
			default:
				continue
			}
			toks := boundsOf(fd)
			if len(toks) == 0 {
				continue
			}
			items := make([]string, len(toks))
			for i, t := range toks {
				items[i] = coqString(t)
			}
			bounds = append(bounds, fmt.Sprintf("(%s, [%s])", coqString(name), strings.Join(items, "; ")))
		}
	}
	sort.Strings(bounds)
	g.line("Definition gen_bounds : list (string * list string) := [\n  %s].", strings.Join(bounds, ";\n  "))
}

func oneLine(n ast.Node) string { return strings.Join(strings.Fields(src(n)), " ") }

func mentionsBounds(t string) bool {
	return strings.Contains(t, "len(") || strings.Contains(t, ".offset") || strings.Contains(t, "remaining()") || strings.Contains(t, "Offset") ||
		strings.Contains(t, "MaxPayloadSize")
}

// boundsOf lists, in source order, the bounds-relevant expressions of a function.
func boundsOf(fd *ast.FuncDecl) []string {
	var toks []string
	isBuf := func(e ast.Expr) bool {
		t := src(e)
		return t == "buf" || t == "r.buf" || t == "prefix" || t == "fr.header" || strings.HasSuffix(t, ".buf")
	}
	ast.Inspect(fd.Body, func(n ast.Node) bool {
		switch x := n.(type) {
		case *ast.FuncLit:
			return false
		case *ast.IfStmt:
			if t := oneLine(x.Cond); mentionsBounds(t) {
				toks = append(toks, "if "+t)
			}
		case *ast.ForStmt:
			if x.Cond != nil {
				if t := oneLine(x.Cond); mentionsBounds(t) {
					toks = append(toks, "for "+t)
				}
			}
		case *ast.CallExpr:
			// allocations and the calls that validate a length before them
			if id, ok := x.Fun.(*ast.Ident); ok && (id.Name == "make" || id.Name == "DecodeHeader") {
				toks = append(toks, "call "+oneLine(x))
			}
		case *ast.IndexExpr:
			if isBuf(x.X) {
				toks = append(toks, "idx "+oneLine(x))
			}
		case *ast.SliceExpr:
			if isBuf(x.X) {
				toks = append(toks, "slice "+oneLine(x))
			}
		case *ast.AssignStmt:
			if len(x.Lhs) == 1 && len(x.Rhs) == 1 {
				l, r := oneLine(x.Lhs[0]), oneLine(x.Rhs[0])
				if strings.HasSuffix(l, ".offset") || (strings.Contains(r, ".offset") && !strings.Contains(r, "(")) || strings.HasSuffix(l, "Offset") {
					toks = append(toks, "set "+l+" "+x.Tok.String()+" "+r)
				}
			}
		case *ast.IncDecStmt:
			if strings.HasSuffix(oneLine(x.X), ".offset") {
				toks = append(toks, "set "+oneLine(x.X)+x.Tok.String())
			}
		}
		return true
	})
	return toks
}

func collectConsts(f *ast.File, env map[string]int64) {
	if f == nil {
		return
	}
	// two passes so that constants defined from other constants resolve
	for pass := 0; pass < 3; pass++ {
		for _, d := range f.Decls {
			gd, ok := d.(*ast.GenDecl)
			if !ok || gd.Tok != token.CONST {
				continue
			}
			for _, s := range gd.Specs {
				vs, ok := s.(*ast.ValueSpec)
				if !ok {
					continue
				}
				for i, n := range vs.Names {
					if i < len(vs.Values) {
						if v, ok := intLit(vs.Values[i], env); ok {
							env[n.Name] = v
						}
					}
				}
			}
		}
	}
}

// switchTable extracts `case C: return K` pairs of a function whose body is a
// single switch over its first parameter. `1 + int(x)` yields 1 (the variable
// part is the length byte). The default branch is listed with key 256.
func switchTable(g *gen, f *ast.File, name string, env map[string]int64) []string {
	fd := findFunc(f, "", name)
	if fd == nil || fd.Body == nil {
		g.note("%s not found", name)
		return nil
	}
	var out []string
	for _, st := range fd.Body.List {
		sw, ok := st.(*ast.SwitchStmt)
		if !ok {
			continue
		}
		for _, cc := range sw.Body.List {
			cl := cc.(*ast.CaseClause)
			val := int64(-1)
			for _, s := range cl.Body {
				if r, ok := s.(*ast.ReturnStmt); ok && len(r.Results) >= 1 {
					k, _ := linear(r.Results[0], env)
					val = k
				}
			}
			if val < 0 {
				continue
			}
			if cl.List == nil {
				out = append(out, fmt.Sprintf("(256, %d)", val))
			}
			for _, e := range cl.List {
				if v, ok := intLit(e, env); ok {
					out = append(out, fmt.Sprintf("(%d, %d)", v, val))
				}
			}
		}
	}
	return out
}

// linear evaluates an expression of the form const + const*len(...) + ...:
// returns the constant part and the sum of coefficients of non-constant terms.
func linear(e ast.Expr, env map[string]int64) (int64, int64) {
	if v, ok := intLit(e, env); ok {
		return v, 0
	}
	switch x := e.(type) {
	case *ast.ParenExpr:
		return linear(x.X, env)
	case *ast.BinaryExpr:
		switch x.Op {
		case token.ADD:
			a, b := linear(x.X, env)
			c, d := linear(x.Y, env)
			return a + c, b + d
		case token.MUL:
			if v, ok := intLit(x.Y, env); ok {
				a, b := linear(x.X, env)
				return a * v, b * v
			}
			if v, ok := intLit(x.X, env); ok {
				a, b := linear(x.Y, env)
				return a * v, b * v
			}
		}
	case *ast.CallExpr:
		if id, ok := x.Fun.(*ast.Ident); ok && (id.Name == "int" || id.Name == "len") {
			if id.Name == "int" && len(x.Args) == 1 {
				return linear(x.Args[0], env)
			}
			return 0, 1
		}
	}
	if _, ok := e.(*ast.Ident); ok {
		return 0, 1
	}
	if _, ok := e.(*ast.SelectorExpr); ok {
		return 0, 1
	}
	return 0, 1
}

var primTok = map[string]string{
	"writeUint8": "u8", "writeUint16": "u16", "writeUint32": "u32", "writeUint64": "u64", "writeBytes": "bytes",
	"writeBool": "bool", "writeString": "str", "writeAgentIDs": "ids",
	"readUint8": "u8", "readUint16": "u16", "readUint32": "u32", "readUint64": "u64", "readBytes": "bytes",
	"readBool": "bool", "readString": "str", "readAgentID": "id", "readAgentIDs": "ids", "readEphemeralKey": "key",
}

// lastName reduces an expression to the struct field it names:
// p.AgentID[:] -> AgentID, uint8(len(p.Capabilities)) -> len Capabilities.
// Local variables give "" (renaming a local must not change the fact).
func lastName(e ast.Expr) string {
	switch x := e.(type) {
	case *ast.Ident:
		return ""
	case *ast.SelectorExpr:
		return x.Sel.Name
	case *ast.SliceExpr:
		return lastName(x.X)
	case *ast.IndexExpr:
		return lastName(x.X)
	case *ast.ParenExpr:
		return lastName(x.X)
	case *ast.StarExpr:
		return lastName(x.X)
	case *ast.UnaryExpr:
		return lastName(x.X)
	case *ast.CallExpr:
		if id, ok := x.Fun.(*ast.Ident); ok && len(x.Args) == 1 {
			if id.Name == "len" {
				return strings.TrimSpace("len " + lastName(x.Args[0]))
			}
			return lastName(x.Args[0])
		}
		if len(x.Args) >= 1 {
			return lastName(x.Args[0])
		}
	case *ast.KeyValueExpr:
		if id, ok := x.Key.(*ast.Ident); ok {
			return id.Name
		}
	}
	return ""
}

// shapeOf lists the reader/writer primitive calls of a function in source
// order. Loop bodies are bracketed with "for[" / "]"; if-bodies with "if[" / "]".
func shapeOf(fd *ast.FuncDecl) []string {
	var toks []string
	var walkStmt func(s ast.Stmt)
	var walkExpr func(e ast.Expr, target string)
	walkExpr = func(e ast.Expr, target string) {
		ast.Inspect(e, func(n ast.Node) bool {
			switch x := n.(type) {
			case *ast.FuncLit:
				return false
			case *ast.KeyValueExpr:
				walkExpr(x.Value, lastName(x))
				return false
			case *ast.CallExpr:
				if sel, ok := x.Fun.(*ast.SelectorExpr); ok {
					if t, ok := primTok[sel.Sel.Name]; ok {
						name := target
						if strings.HasPrefix(sel.Sel.Name, "write") && len(x.Args) == 1 {
							name = lastName(x.Args[0])
						}
						if strings.HasPrefix(sel.Sel.Name, "readBytes") && len(x.Args) == 1 && target == "" {
							name = lastName(x.Args[0])
						}
						toks = append(toks, strings.TrimSpace(t+" "+name))
						return false
					}
				}
				// nested codec calls are part of the shape too
				if id, ok := x.Fun.(*ast.Ident); ok && (strings.HasPrefix(id.Name, "Decode") || strings.HasPrefix(id.Name, "Encode")) {
					toks = append(toks, "call "+id.Name)
				}
				if sel, ok := x.Fun.(*ast.SelectorExpr); ok && sel.Sel.Name == "Encode" {
					toks = append(toks, strings.TrimSpace("call "+lastName(sel.X)+".Encode"))
				}
			}
			return true
		})
	}
	walkBlock := func(b *ast.BlockStmt) {
		if b == nil {
			return
		}
		for _, s := range b.List {
			walkStmt(s)
		}
	}
	walkStmt = func(s ast.Stmt) {
		switch x := s.(type) {
		case *ast.AssignStmt:
			tgt := ""
			if len(x.Lhs) >= 1 {
				tgt = lastName(x.Lhs[0])
			}
			for _, r := range x.Rhs {
				walkExpr(r, tgt)
			}
		case *ast.ExprStmt:
			walkExpr(x.X, "")
		case *ast.DeclStmt:
			if gd, ok := x.Decl.(*ast.GenDecl); ok {
				for _, sp := range gd.Specs {
					if vs, ok := sp.(*ast.ValueSpec); ok {
						for i, v := range vs.Values {
							n := ""
							if i < len(vs.Names) {
								n = vs.Names[i].Name
							}
							walkExpr(v, n)
						}
					}
				}
			}
		case *ast.ReturnStmt:
			for _, r := range x.Results {
				walkExpr(r, "")
			}
		case *ast.ForStmt:
			n := len(toks)
			toks = append(toks, "for[")
			walkBlock(x.Body)
			if len(toks) == n+1 {
				toks = toks[:n]
			} else {
				toks = append(toks, "]")
			}
		case *ast.RangeStmt:
			n := len(toks)
			toks = append(toks, "for[")
			walkBlock(x.Body)
			if len(toks) == n+1 {
				toks = toks[:n]
			} else {
				toks = append(toks, "]")
			}
		case *ast.IfStmt:
			if x.Init != nil {
				walkStmt(x.Init)
			}
			walkExpr(x.Cond, "")
			n := len(toks)
			toks = append(toks, "if[")
			walkBlock(x.Body)
			if x.Else != nil {
				toks = append(toks, "else")
				walkStmt(x.Else)
			}
			if len(toks) == n+1 {
				toks = toks[:n]
			} else {
				toks = append(toks, "]")
			}
		case *ast.BlockStmt:
			walkBlock(x)
		case *ast.SwitchStmt:
			for _, cc := range x.Body.List {
				for _, s2 := range cc.(*ast.CaseClause).Body {
					walkStmt(s2)
				}
			}
		}
	}
	walkBlock(fd.Body)
	return toks
}
