package main

// Translator generators of the sleep/wake family: C28, C29, C30, C33.
// They extract wiring facts (which calls are guarded by which, in which
// order checks happen, which statements sit inside which lock region) and
// constants; the Coq side states what the model assumes about each.

import (
	"go/ast"
	"go/token"
	"sort"
	"strings"
)

func init() {
	generators["C28"] = genC28
	generators["C29"] = genC29
	generators["C30"] = genC30
	generators["C33"] = genC33
}

// ---------------------------------------------------------------------------
// helpers

// callsIn returns every call expression in n in source order.
func callsIn(n ast.Node) []*ast.CallExpr {
	var out []*ast.CallExpr
	if n == nil {
		return nil
	}
	ast.Inspect(n, func(x ast.Node) bool {
		if c, ok := x.(*ast.CallExpr); ok {
			out = append(out, c)
		}
		return true
	})
	sort.SliceStable(out, func(i, j int) bool { return out[i].Pos() < out[j].Pos() })
	return out
}

// selName returns "a.b.c" for selector chains of identifiers, "" otherwise.
func selName(e ast.Expr) string {
	switch x := e.(type) {
	case *ast.Ident:
		return x.Name
	case *ast.SelectorExpr:
		p := selName(x.X)
		if p == "" {
			return ""
		}
		return p + "." + x.Sel.Name
	case *ast.ParenExpr:
		return selName(x.X)
	case *ast.StarExpr:
		return selName(x.X)
	}
	return ""
}

func callName(c *ast.CallExpr) string { return selName(c.Fun) }

// firstCallPos returns the position of the first call whose name has the suffix.
func firstCallPos(n ast.Node, suffix string) token.Pos {
	for _, c := range callsIn(n) {
		if strings.HasSuffix(callName(c), suffix) {
			return c.Pos()
		}
	}
	return token.NoPos
}

func normSleepcmd(s string) string { return strings.Join(strings.Fields(s), " ") }

// returnsFalseOnly reports whether the block ends in "return false" (possibly after logging).
func endsInReturn(b *ast.BlockStmt, want string) bool {
	if b == nil || len(b.List) == 0 {
		return false
	}
	r, ok := b.List[len(b.List)-1].(*ast.ReturnStmt)
	if !ok {
		return false
	}
	parts := make([]string, len(r.Results))
	for i, e := range r.Results {
		parts[i] = normSleepcmd(src(e))
	}
	return strings.Join(parts, ",") == want
}

// ---------------------------------------------------------------------------
// C28: which sleepMgr.Sleep / Wake call sites reachable from processFrame are
// guarded by the flooder's handler, the structure of the verify functions, the
// order verify -> forward in the flooder's handlers, the signed fields.

type sleepSite struct {
	fn      string
	kind    string // Sleep | Wake
	guarded bool
}

// guardedBy reports whether call (inside fd) is dominated by an accepting
// call of a.flooder.<handler>: either an earlier top-level statement
// "if !a.flooder.H(...) { return }" or an enclosing "if a.flooder.H(...) {".
func guardedBy(fd *ast.FuncDecl, call *ast.CallExpr, handler string) bool {
	// earlier top-level guard
	for _, st := range fd.Body.List {
		if st.Pos() > call.Pos() {
			break
		}
		is, ok := st.(*ast.IfStmt)
		if !ok || is.Init != nil {
			continue
		}
		if u, ok := is.Cond.(*ast.UnaryExpr); ok && u.Op == token.NOT {
			if c, ok := u.X.(*ast.CallExpr); ok && callName(c) == "a.flooder."+handler && endsInReturn(is.Body, "") && is.End() < call.Pos() {
				return true
			}
		}
	}
	// enclosing positive guard
	found := false
	ast.Inspect(fd.Body, func(x ast.Node) bool {
		is, ok := x.(*ast.IfStmt)
		if !ok {
			return true
		}
		if c, ok := is.Cond.(*ast.CallExpr); ok && callName(c) == "a.flooder."+handler {
			if is.Body.Pos() <= call.Pos() && call.End() <= is.Body.End() {
				found = true
			}
		}
		return true
	})
	return found
}

func genC28(g *gen) {
	files := parseDir("internal/agent")
	methods := map[string]*ast.FuncDecl{}
	for _, f := range files {
		for _, d := range f.Decls {
			if fd, ok := d.(*ast.FuncDecl); ok && recvName(fd) == "Agent" && fd.Body != nil {
				methods[fd.Name.Name] = fd
			}
		}
	}
	// methods reachable from processFrame through direct a.<method>(...) calls
	reach := map[string]bool{}
	var visit func(string)
	visit = func(n string) {
		if reach[n] {
			return
		}
		fd, ok := methods[n]
		if !ok {
			return
		}
		reach[n] = true
		for _, c := range callsIn(fd.Body) {
			name := callName(c)
			if strings.HasPrefix(name, "a.") && strings.Count(name, ".") == 1 {
				visit(strings.TrimPrefix(name, "a."))
			}
		}
	}
	visit("processFrame")
	if !reach["processFrame"] {
		g.note("Agent.processFrame not found")
	}
	var sites []sleepSite
	var local []string
	names := make([]string, 0, len(methods))
	for n := range methods {
		names = append(names, n)
	}
	sort.Strings(names)
	for _, n := range names {
		fd := methods[n]
		for _, c := range callsIn(fd.Body) {
			name := callName(c)
			if name != "a.sleepMgr.Sleep" && name != "a.sleepMgr.Wake" {
				continue
			}
			kind := strings.TrimPrefix(name, "a.sleepMgr.")
			if !reach[n] {
				local = append(local, n+":"+kind)
				continue
			}
			sites = append(sites, sleepSite{fn: n, kind: kind, guarded: guardedBy(fd, c, "Handle"+kind+"Command")})
		}
	}
	g.line("(* sleepMgr.Sleep / Wake call sites in methods reachable from Agent.processFrame: (function, kind, guarded by the flooder's Handle<kind>Command verdict) *)")
	g.line("Definition gen_c28_frame_path_sites : list (string * string * bool) := [")
	for i, s := range sites {
		sep := ";"
		if i == len(sites)-1 {
			sep = ""
		}
		g.line("  (%s, %s, %s)%s", coqString(s.fn), coqString(s.kind), coqBool(s.guarded), sep)
	}
	g.line("]%%string.")
	g.line("(* call sites outside the frame path (local operator API, start-up, poll callback): %s *)", strings.Join(local, " "))
	// handleQueuedState: commands are handed to the flooded-path handlers
	var qd []string
	if fd := methods["handleQueuedState"]; fd != nil {
		for _, c := range callsIn(fd.Body) {
			if n := callName(c); n == "a.handleSleepCommand" || n == "a.handleWakeCommand" {
				qd = append(qd, strings.TrimPrefix(n, "a."))
			}
		}
	}
	items := make([]string, len(qd))
	for i, s := range qd {
		items[i] = coqString(s)
	}
	g.line("Definition gen_c28_queued_dispatch : list string := [%s]%%string.", strings.Join(items, "; "))
	// processFrame dispatches the three frame types to their handlers
	disp := map[string]string{}
	if fd := methods["processFrame"]; fd != nil {
		ast.Inspect(fd.Body, func(x ast.Node) bool {
			cc, ok := x.(*ast.CaseClause)
			if !ok || len(cc.List) != 1 || len(cc.Body) != 1 {
				return true
			}
			if es, ok := cc.Body[0].(*ast.ExprStmt); ok {
				if c, ok := es.X.(*ast.CallExpr); ok {
					disp[selName(cc.List[0])] = strings.TrimPrefix(callName(c), "a.")
				}
			}
			return true
		})
	}
	// initComponents hands the signing public key to the flooder whenever one is configured
	// (and on no other condition, e.g. not only when sleep mode is enabled)
	keyAlways := false
	if fd := methods["initComponents"]; fd != nil {
		ast.Inspect(fd.Body, func(x ast.Node) bool {
			is, ok := x.(*ast.IfStmt)
			if !ok || is.Init != nil {
				return true
			}
			if strings.Contains(normSleepcmd(src(is.Body)), "floodCfg.SigningPublicKey = &signingPubKey") {
				keyAlways = normSleepcmd(src(is.Cond)) == "a.cfg.HasSigningKey()"
			}
			return true
		})
	}
	g.line("Definition gen_c28_flooder_gets_signing_key_whenever_configured : bool := %s.", coqBool(keyAlways))
	g.line("Definition gen_c28_dispatch_ok : bool := %s.", coqBool(disp["protocol.FrameSleepCommand"] == "handleSleepCommand" &&
		disp["protocol.FrameWakeCommand"] == "handleWakeCommand" && disp["protocol.FrameQueuedState"] == "handleQueuedState"))

	// flooder: order of checks in Handle{Sleep,Wake}Command and the verify functions
	ff := parseFile("internal/flood/flood.go")
	for _, k := range []string{"Sleep", "Wake"} {
		lk := strings.ToLower(k)
		fd := findFunc(ff, "Flooder", "Handle"+k+"Command")
		verifyFirst, rejectReturnsFalse := false, false
		if fd != nil && fd.Body != nil {
			pv := firstCallPos(fd.Body, "f.verify"+k+"Command")
			pm := firstCallPos(fd.Body, "f.markSleepCmdSeen")
			pf := firstCallPos(fd.Body, "f.flood"+k+"Command")
			verifyFirst = pv != token.NoPos && pm != token.NoPos && pf != token.NoPos && pv < pm && pm < pf
			for _, st := range fd.Body.List {
				if is, ok := st.(*ast.IfStmt); ok && is.Init != nil && strings.Contains(src(is.Init), "f.verify"+k+"Command(cmd)") &&
					normSleepcmd(src(is.Cond)) == "err != nil" && endsInReturn(is.Body, "false") {
					rejectReturnsFalse = true
				}
			}
		} else {
			g.note("Flooder.Handle%sCommand not found", k)
		}
		g.line("Definition gen_c28_%s_verify_then_mark_then_forward : bool := %s.", lk, coqBool(verifyFirst))
		g.line("Definition gen_c28_%s_reject_returns_false : bool := %s.", lk, coqBool(rejectReturnsFalse))
		// verify function: sequence of rejecting checks
		vd := findFunc(ff, "Flooder", "verify"+k+"Command")
		var checks []string
		tsCond := ""
		verifyArgs := ""
		if vd != nil && vd.Body != nil {
			for _, st := range vd.Body.List {
				is, ok := st.(*ast.IfStmt)
				if !ok {
					continue
				}
				cond := normSleepcmd(src(is.Cond))
				switch {
				case cond == "f.signingPubKey == nil" && endsInReturn(is.Body, "nil"):
					checks = append(checks, "no-key-accept")
				case cond == "cmd.IsZeroSignature()" && !endsInReturn(is.Body, "nil"):
					checks = append(checks, "zero-signature-reject")
				case strings.Contains(cond, "f.timestampWindow") && !endsInReturn(is.Body, "nil"):
					checks = append(checks, "timestamp-reject")
					tsCond = cond
				case strings.HasPrefix(cond, "!crypto.Verify(") && !endsInReturn(is.Body, "nil"):
					checks = append(checks, "signature-reject")
					if u, ok := is.Cond.(*ast.UnaryExpr); ok {
						if c, ok := u.X.(*ast.CallExpr); ok {
							parts := make([]string, len(c.Args))
							for i, a := range c.Args {
								parts[i] = normSleepcmd(src(a))
							}
							verifyArgs = strings.Join(parts, ", ")
						}
					}
				case cond == "timeDiff < 0":
					// the absolute value
				default:
					checks = append(checks, "other:"+cond)
				}
			}
			if len(vd.Body.List) == 0 || !endsInReturn(vd.Body, "nil") {
				checks = append(checks, "no-final-accept")
			}
		} else {
			g.note("Flooder.verify%sCommand not found", k)
		}
		ci := make([]string, len(checks))
		for i, s := range checks {
			ci[i] = coqString(s)
		}
		g.line("Definition gen_c28_%s_verify_checks : list string := [%s]%%string.", lk, strings.Join(ci, "; "))
		g.line("Definition gen_c28_%s_ts_overflow_guard : bool := %s.", lk, coqBool(tsCond == "timeDiff < 0 || timeDiff > f.timestampWindow"))
		g.line("Definition gen_c28_%s_verify_args_ok : bool := %s.", lk, coqBool(verifyArgs == "*f.signingPubKey, cmd.SignableBytes(), cmd.Signature"))
		// the age is computed from the unsigned seconds through int64
		ageOK := false
		if vd != nil {
			s := normSleepcmd(src(vd.Body))
			ageOK = strings.Contains(s, "cmdTime := time.Unix(int64(cmd.Timestamp), 0)") && strings.Contains(s, "timeDiff := time.Since(cmdTime)") &&
				strings.Contains(s, "if timeDiff < 0 { timeDiff = -timeDiff }")
		}
		g.line("Definition gen_c28_%s_age_computation_ok : bool := %s.", lk, coqBool(ageOK))
	}
	// signed fields of both commands
	pf := parseFile("internal/protocol/frame.go")
	for _, k := range []string{"Sleep", "Wake"} {
		fd := findFunc(pf, k+"Command", "SignableBytes")
		var fields []string
		if fd != nil && fd.Body != nil {
			recv := ""
			if len(fd.Recv.List[0].Names) == 1 {
				recv = fd.Recv.List[0].Names[0].Name
			}
			for _, c := range callsIn(fd.Body) {
				n := callName(c)
				if (strings.HasSuffix(n, ".writeBytes") || strings.HasSuffix(n, ".writeUint64")) && len(c.Args) == 1 {
					a := normSleepcmd(src(c.Args[0]))
					a = strings.TrimSuffix(strings.TrimPrefix(a, recv+"."), "[:]")
					fields = append(fields, a+":"+n[strings.LastIndex(n, ".")+1:])
				}
			}
		}
		fi := make([]string, len(fields))
		for i, s := range fields {
			fi[i] = coqString(s)
		}
		g.line("Definition gen_c28_%s_signed_fields : list string := [%s]%%string.", strings.ToLower(k), strings.Join(fi, "; "))
	}
	genFloodConsts(g, "c28")
}

// constants of DefaultFloodConfig / NewFlooder in nanoseconds
func genFloodConsts(g *gen, pfx string) {
	ff := parseFile("internal/flood/flood.go")
	env := map[string]int64{"time.Minute": 60e9, "time.Second": 1e9, "time.Hour": 3600e9, "time.Millisecond": 1e6}
	vals := map[string]int64{"SeenCacheTTL": -1, "MaxSeenCacheSize": -1, "TimestampWindow": -1}
	if fd := findFunc(ff, "", "DefaultFloodConfig"); fd != nil {
		ast.Inspect(fd.Body, func(x ast.Node) bool {
			kv, ok := x.(*ast.KeyValueExpr)
			if !ok {
				return true
			}
			if id, ok := kv.Key.(*ast.Ident); ok {
				if _, want := vals[id.Name]; want {
					if v, ok := durLit(kv.Value, env); ok {
						vals[id.Name] = v
					}
				}
			}
			return true
		})
	}
	for _, k := range []string{"SeenCacheTTL", "MaxSeenCacheSize", "TimestampWindow"} {
		if vals[k] < 0 {
			g.note("DefaultFloodConfig.%s not recognised", k)
			vals[k] = 0
		}
	}
	g.line("Definition gen_%s_default_ttl_ns : Z := %d%%Z.", pfx, vals["SeenCacheTTL"])
	g.line("Definition gen_%s_default_max_cache : Z := %d%%Z.", pfx, vals["MaxSeenCacheSize"])
	g.line("Definition gen_%s_default_window_ns : Z := %d%%Z.", pfx, vals["TimestampWindow"])
	// NewFlooder's fallback when TimestampWindow is zero
	fallback := int64(0)
	if fd := findFunc(ff, "", "NewFlooder"); fd != nil {
		ast.Inspect(fd.Body, func(x ast.Node) bool {
			is, ok := x.(*ast.IfStmt)
			if ok && normSleepcmd(src(is.Cond)) == "timestampWindow == 0" && len(is.Body.List) == 1 {
				if as, ok := is.Body.List[0].(*ast.AssignStmt); ok && len(as.Rhs) == 1 {
					if v, ok := durLit(as.Rhs[0], env); ok {
						fallback = v
					}
				}
			}
			return true
		})
	}
	g.line("Definition gen_%s_zero_window_fallback_ns : Z := %d%%Z.", pfx, fallback)
}

// durLit evaluates constant expressions over ints and time.* units.
func durLit(e ast.Expr, env map[string]int64) (int64, bool) {
	switch x := e.(type) {
	case *ast.SelectorExpr:
		if v, ok := env[selName(x)]; ok {
			return v, true
		}
	case *ast.BinaryExpr:
		a, ok1 := durLit(x.X, env)
		b, ok2 := durLit(x.Y, env)
		if ok1 && ok2 {
			switch x.Op {
			case token.MUL:
				return a * b, true
			case token.ADD:
				return a + b, true
			case token.QUO:
				if b != 0 {
					return a / b, true
				}
			}
		}
	case *ast.ParenExpr:
		return durLit(x.X, env)
	}
	return intLit(e, nil)
}

// ---------------------------------------------------------------------------
// C29: atomicity of markSleepCmdSeen, the expiry handed to the sleep command
// cache cleanup, the strictness of the expiry test, the cleanup interval.

func genC29(g *gen) {
	ff := parseFile("internal/flood/flood.go")
	// markSleepCmdSeen: Lock, deferred Unlock, lookup and insert inside
	atomic := false
	refreshOtherPeer := false
	if fd := findFunc(ff, "Flooder", "markSleepCmdSeen"); fd != nil && fd.Body != nil {
		lock, unlock := token.NoPos, false
		var firstMapUse token.Pos
		for _, st := range fd.Body.List {
			switch s := st.(type) {
			case *ast.ExprStmt:
				if c, ok := s.X.(*ast.CallExpr); ok && callName(c) == "f.sleepCmdMu.Lock" {
					lock = c.Pos()
				}
			case *ast.DeferStmt:
				if callName(s.Call) == "f.sleepCmdMu.Unlock" {
					unlock = true
				}
			}
		}
		ast.Inspect(fd.Body, func(x ast.Node) bool {
			if ix, ok := x.(*ast.IndexExpr); ok && selName(ix.X) == "f.sleepCmdSeenCache" && firstMapUse == token.NoPos {
				firstMapUse = ix.Pos()
			}
			if is, ok := x.(*ast.IfStmt); ok && normSleepcmd(src(is.Cond)) == "existing.SeenFrom != fromPeer" && strings.Contains(normSleepcmd(src(is.Body)), "existing.SeenAt = time.Now()") {
				refreshOtherPeer = true
			}
			return true
		})
		atomic = lock != token.NoPos && unlock && firstMapUse != token.NoPos && lock < firstMapUse
	} else {
		g.note("Flooder.markSleepCmdSeen not found")
	}
	g.line("Definition gen_c29_mark_is_one_critical_section : bool := %s.", coqBool(atomic))
	g.line("Definition gen_c29_mark_refreshes_seen_at_for_other_peer : bool := %s.", coqBool(refreshOtherPeer))
	// cleanup(): what is passed to cleanupSleepCmdCache: a variable that starts
	// as expiry and is raised to 2*f.timestampWindow + <slack> when below it
	floor2w := false
	slack := int64(-1)
	if fd := findFunc(ff, "Flooder", "cleanup"); fd != nil && fd.Body != nil {
		arg := ""
		for _, c := range callsIn(fd.Body) {
			if callName(c) == "f.cleanupSleepCmdCache" && len(c.Args) == 2 {
				arg = normSleepcmd(src(c.Args[1]))
			}
		}
		body := normSleepcmd(src(fd.Body))
		env := map[string]int64{"time.Minute": 60e9, "time.Second": 1e9, "time.Hour": 3600e9, "time.Millisecond": 1e6}
		ast.Inspect(fd.Body, func(x ast.Node) bool {
			is, ok := x.(*ast.IfStmt)
			if !ok || is.Init == nil {
				return true
			}
			as, ok := is.Init.(*ast.AssignStmt)
			if !ok || len(as.Lhs) != 1 || len(as.Rhs) != 1 || normSleepcmd(src(as.Lhs[0])) != "minExpiry" {
				return true
			}
			if normSleepcmd(src(is.Cond)) != arg+" < minExpiry" || normSleepcmd(src(is.Body)) != "{ "+arg+" = minExpiry }" {
				return true
			}
			switch rhs := as.Rhs[0].(type) {
			case *ast.BinaryExpr:
				if rhs.Op == token.ADD && strings.ReplaceAll(src(rhs.X), " ", "") == "2*f.timestampWindow" {
					if v, ok := durLit(rhs.Y, env); ok {
						slack = v
					}
				} else if strings.ReplaceAll(src(rhs), " ", "") == "2*f.timestampWindow" {
					slack = 0
				}
			}
			return true
		})
		floor2w = arg != "" && arg != "expiry" && strings.Contains(body, arg+" := expiry") && slack >= 0
	}
	if slack < 0 {
		slack = 0
	}
	g.line("Definition gen_c29_sleep_cache_expiry_is_max_ttl_two_windows_plus_slack : bool := %s.", coqBool(floor2w))
	g.line("Definition gen_c29_expiry_slack_ns : Z := %d%%Z.", slack)
	// cleanupSleepCmdCache: strict test, size-based part
	strict, sizePart := false, false
	if fd := findFunc(ff, "Flooder", "cleanupSleepCmdCache"); fd != nil && fd.Body != nil {
		body := normSleepcmd(src(fd.Body))
		strict = strings.Contains(body, "if now.Sub(entry.SeenAt) > expiry { delete(f.sleepCmdSeenCache, key) }")
		sizePart = strings.Contains(body, "excess := len(f.sleepCmdSeenCache) - f.cfg.MaxSeenCacheSize") && strings.Contains(body, "if excess <= 0 { return }")
	}
	g.line("Definition gen_c29_expiry_test_strict : bool := %s.", coqBool(strict))
	g.line("Definition gen_c29_size_eviction_when_over_max : bool := %s.", coqBool(sizePart))
	// cleanup loop interval
	half := false
	if fd := findFunc(ff, "Flooder", "cleanupLoop"); fd != nil && fd.Body != nil {
		half = strings.Contains(normSleepcmd(src(fd.Body)), "time.NewTicker(f.cfg.SeenCacheTTL / 2)")
	}
	g.line("Definition gen_c29_cleanup_every_half_ttl : bool := %s.", coqBool(half))
	// which functions of the package write to the sleep command seen cache (insert, delete, replace)
	var writers []string
	for _, file := range parseDir("internal/flood") {
		for _, d := range file.Decls {
			fd, ok := d.(*ast.FuncDecl)
			if !ok || fd.Body == nil {
				continue
			}
			writes := false
			ast.Inspect(fd.Body, func(x ast.Node) bool {
				switch n := x.(type) {
				case *ast.CallExpr:
					if id, ok := n.Fun.(*ast.Ident); ok && (id.Name == "delete" || id.Name == "clear") && len(n.Args) >= 1 && strings.HasSuffix(selName(n.Args[0]), ".sleepCmdSeenCache") {
						writes = true
					}
				case *ast.AssignStmt:
					for _, l := range n.Lhs {
						if ix, ok := l.(*ast.IndexExpr); ok && strings.HasSuffix(selName(ix.X), ".sleepCmdSeenCache") {
							writes = true
						}
						if strings.HasSuffix(selName(l), ".sleepCmdSeenCache") {
							writes = true
						}
					}
				case *ast.KeyValueExpr:
					if id, ok := n.Key.(*ast.Ident); ok && id.Name == "sleepCmdSeenCache" {
						writes = true
					}
				}
				return true
			})
			if writes {
				writers = append(writers, fd.Name.Name)
			}
		}
	}
	sort.Strings(writers)
	wi := make([]string, len(writers))
	for i, w := range writers {
		wi[i] = coqString(w)
	}
	g.line("Definition gen_c29_sleep_cache_writers : list string := [%s]%%string.", strings.Join(wi, "; "))
	// the issuing paths record the issuer's own command before anything is sent
	for _, k := range []string{"Sleep", "Wake"} {
		ok := false
		if fd := findFunc(ff, "Flooder", "Flood"+k+"Command"); fd != nil && fd.Body != nil {
			pm := token.NoPos
			for _, c := range callsIn(fd.Body) {
				if callName(c) == "f.markSleepCmdSeen" && len(c.Args) == 3 &&
					normSleepcmd(src(c.Args[0])) == "cmd.OriginAgent" && normSleepcmd(src(c.Args[1])) == "cmd.CommandID" && normSleepcmd(src(c.Args[2])) == "f.localID" {
					pm = c.Pos()
					break
				}
			}
			firstSend := token.NoPos
			for _, c := range callsIn(fd.Body) {
				n := callName(c)
				if n == "f.broadcastFrame" || n == "f.floodFrame" || n == "f.sender.SendToPeer" || n == "f.flood"+k+"Command" {
					firstSend = c.Pos()
					break
				}
			}
			ok = pm != token.NoPos && firstSend != token.NoPos && pm < firstSend
		}
		g.line("Definition gen_c29_flood_%s_marks_own_command_before_sending : bool := %s.", strings.ToLower(k), coqBool(ok))
	}
	// order in the handlers (shared with C28)
	for _, k := range []string{"Sleep", "Wake"} {
		fd := findFunc(ff, "Flooder", "Handle"+k+"Command")
		ok := false
		if fd != nil && fd.Body != nil {
			pl := firstCallPos(fd.Body, "containsAgent")
			pv := firstCallPos(fd.Body, "f.verify"+k+"Command")
			pm := firstCallPos(fd.Body, "f.markSleepCmdSeen")
			ok = pl != token.NoPos && pv != token.NoPos && pm != token.NoPos && pl < pv && pv < pm
		}
		g.line("Definition gen_c29_%s_loopcheck_verify_mark_order : bool := %s.", strings.ToLower(k), coqBool(ok))
	}
	genFloodConsts(g, "c29")
}

// ---------------------------------------------------------------------------
// C30: lock regions of sleep.Manager.Sleep / Wake / Poll.

// region describes what happens between a Lock and the matching Unlock of stateMu.
type region struct {
	calls []string // call names and "store:<State>" markers in order
}

func regionMarkers(stmts []ast.Stmt) []string {
	var out []string
	for _, st := range stmts {
		for _, c := range callsIn(st) {
			n := callName(c)
			switch {
			case n == "m.state.Store" && len(c.Args) == 1:
				out = append(out, "store:"+normSleepcmd(src(c.Args[0])))
			case strings.HasPrefix(n, "m.callbacks."):
				out = append(out, "callback:"+strings.TrimPrefix(n, "m.callbacks."))
			case n == "m.persistState", n == "m.schedulePollLocked", n == "m.pollTimer.Stop", n == "m.stateMu.Lock", n == "m.stateMu.Unlock", n == "time.After":
				out = append(out, n)
			}
		}
		ast.Inspect(st, func(x ast.Node) bool {
			if inc, ok := x.(*ast.IncDecStmt); ok && selName(inc.X) == "m.wakeGen" && inc.Tok == token.INC {
				out = append(out, "wakeGen++")
			}
			if as, ok := x.(*ast.AssignStmt); ok && len(as.Rhs) == 1 && selName(as.Rhs[0]) == "m.wakeGen" {
				out = append(out, "read-wakeGen")
			}
			if is, ok := x.(*ast.IfStmt); ok {
				c := normSleepcmd(src(is.Cond))
				if strings.Contains(c, "m.wakeGen != gen") && strings.Contains(c, "StateAwake") && endsInReturn(is.Body, "nil") {
					out = append(out, "recheck:awake-or-generation")
				} else if strings.Contains(c, "== StateAwake") && endsInReturn(is.Body, "nil") {
					out = append(out, "recheck:awake-only")
				}
			}
			return true
		})
	}
	return out
}

func hasDeferUnlock(fd *ast.FuncDecl) bool {
	for _, st := range fd.Body.List {
		if d, ok := st.(*ast.DeferStmt); ok && callName(d.Call) == "m.stateMu.Unlock" {
			return true
		}
	}
	return false
}

func idx(xs []string, s string) int {
	for i, x := range xs {
		if x == s {
			return i
		}
	}
	return -1
}

func genC30(g *gen) {
	sf := parseFile("internal/sleep/sleep.go")
	lst := func(name string, xs []string) {
		it := make([]string, len(xs))
		for i, s := range xs {
			it[i] = coqString(s)
		}
		g.line("Definition %s : list string := [%s]%%string.", name, strings.Join(it, "; "))
	}
	for _, k := range []string{"Sleep", "Wake"} {
		fd := findFunc(sf, "Manager", k)
		var m []string
		whole := false
		if fd != nil && fd.Body != nil {
			m = regionMarkers(fd.Body.List)
			whole = hasDeferUnlock(fd) && idx(m, "m.stateMu.Lock") == 0
		} else {
			g.note("Manager.%s not found", k)
		}
		lst("gen_c30_"+strings.ToLower(k)+"_markers", m)
		g.line("Definition gen_c30_%s_one_region_until_return : bool := %s.", strings.ToLower(k), coqBool(whole))
	}
	fd := findFunc(sf, "Manager", "Poll")
	var m []string
	deferUnlockSecond := false
	if fd != nil && fd.Body != nil {
		m = regionMarkers(fd.Body.List)
		deferUnlockSecond = hasDeferUnlock(fd)
	} else {
		g.note("Manager.Poll not found")
	}
	lst("gen_c30_poll_markers", m)
	g.line("Definition gen_c30_poll_second_region_until_return : bool := %s.", coqBool(deferUnlockSecond))
	// schedulePollLocked stops the previous timer before arming a new one
	stopThenArm := false
	if fd := findFunc(sf, "Manager", "schedulePollLocked"); fd != nil && fd.Body != nil {
		ps := firstCallPos(fd.Body, "m.pollTimer.Stop")
		pa := firstCallPos(fd.Body, "time.AfterFunc")
		stopThenArm = ps != token.NoPos && pa != token.NoPos && ps < pa
	}
	g.line("Definition gen_c30_schedule_stops_old_timer_first : bool := %s.", coqBool(stopThenArm))
}

// ---------------------------------------------------------------------------
// C33: the expressions of window.go the model follows.

func genC33(g *gen) {
	wf := parseFile("internal/sleep/window.go")
	body := func(recv, name string) string {
		if fd := findFunc(wf, recv, name); fd != nil && fd.Body != nil {
			return normSleepcmd(src(fd.Body))
		}
		g.note("%s.%s not found", recv, name)
		return ""
	}
	nb := body("", "NewWindowCalculator")
	div := int64(0)
	if fd := findFunc(wf, "", "NewWindowCalculator"); fd != nil {
		ast.Inspect(fd.Body, func(x ast.Node) bool {
			is, ok := x.(*ast.IfStmt)
			if ok && normSleepcmd(src(is.Cond)) == "cfg.WindowLength >= cfg.CycleLength" && len(is.Body.List) == 1 {
				if as, ok := is.Body.List[0].(*ast.AssignStmt); ok && len(as.Rhs) == 1 && normSleepcmd(src(as.Lhs[0])) == "cfg.WindowLength" {
					if be, ok := as.Rhs[0].(*ast.BinaryExpr); ok && be.Op == token.QUO && normSleepcmd(src(be.X)) == "cfg.CycleLength" {
						if v, ok := intLit(be.Y, nil); ok {
							div = v
						}
					}
				}
			}
			return true
		})
	}
	_ = nb
	g.line("Definition gen_c33_normalise_divisor : Z := %d%%Z.", div)
	g.line("Definition gen_c33_seed_is_xor_of_halves : bool := %s.", coqBool(strings.Contains(body("", "seedFromAgentID"),
		"hi := binary.BigEndian.Uint64(agentID[:8]) lo := binary.BigEndian.Uint64(agentID[8:]) return hi ^ lo")))
	ob := body("WindowCalculator", "windowOffset")
	g.line("Definition gen_c33_offset_is_seed_mod_cycle_minus_window : bool := %s.", coqBool(
		strings.Contains(ob, "maxOffset := w.cfg.CycleLength - w.cfg.WindowLength") && strings.Contains(ob, "if maxOffset <= 0 { return 0 }") &&
			strings.Contains(ob, "offsetNs := int64(seed % uint64(maxOffset.Nanoseconds()))")))
	cb := body("WindowCalculator", "cycleStart")
	g.line("Definition gen_c33_cycle_start_floor_division : bool := %s.", coqBool(
		strings.Contains(cb, "elapsed := t.Sub(w.cfg.Epoch)") && strings.Contains(cb, "cycleNum := elapsed / w.cfg.CycleLength") &&
			strings.Contains(cb, "if elapsed%w.cfg.CycleLength < 0 { cycleNum-- }") && strings.Contains(cb, "return w.cfg.Epoch.Add(cycleNum * w.cfg.CycleLength)")))
	nx := body("WindowCalculator", "NextWindow")
	g.line("Definition gen_c33_next_switches_strictly_after_end : bool := %s.", coqBool(
		strings.Contains(nx, "windowStart := cycleStart.Add(offset)") && strings.Contains(nx, "windowEnd := windowStart.Add(w.cfg.WindowLength)") &&
			strings.Contains(nx, "if now.After(windowEnd) { cycleStart = cycleStart.Add(w.cfg.CycleLength)")))
	gi := body("WindowCalculator", "GetWindowInfo")
	g.line("Definition gen_c33_active_is_safe_start_le_now_lt_safe_end : bool := %s.", coqBool(
		strings.Contains(gi, "safeStart := start.Add(-w.cfg.ClockTolerance)") && strings.Contains(gi, "safeEnd := end.Add(w.cfg.ClockTolerance)") &&
			strings.Contains(gi, "currentlyActive := !now.Before(safeStart) && now.Before(safeEnd)")))
	iw := body("WindowCalculator", "IsInWindow")
	g.line("Definition gen_c33_in_window_is_active_flag_of_next_window : bool := %s.", coqBool(
		strings.Contains(iw, "info := w.GetWindowInfo(agentID, t) return info.CurrentlyActive")))
	pw := body("WindowCalculator", "PreviousWindow")
	g.line("Definition gen_c33_previous_switches_before_start : bool := %s.", coqBool(
		strings.Contains(pw, "if now.Before(windowStart) { cycleStart = cycleStart.Add(-w.cfg.CycleLength)")))
	// the configuration path: sleep.NewManager
	sf := parseFile("internal/sleep/sleep.go")
	epochParsed, cycleIsPoll, wlGuard, tolGuard := false, false, false, false
	if fd := findFunc(sf, "", "NewManager"); fd != nil && fd.Body != nil {
		ast.Inspect(fd.Body, func(x ast.Node) bool {
			switch n := x.(type) {
			case *ast.IfStmt:
				if n.Init != nil && normSleepcmd(src(n.Init)) == "epoch, err := time.Parse(time.RFC3339, cfg.DeterministicWindows.Epoch)" &&
					normSleepcmd(src(n.Cond)) == "err == nil" && len(n.Body.List) == 1 && normSleepcmd(src(n.Body.List[0])) == "windowCfg.Epoch = epoch" {
					epochParsed = true
				}
				if normSleepcmd(src(n.Cond)) == "cfg.DeterministicWindows.WindowLength > 0" && len(n.Body.List) == 1 &&
					normSleepcmd(src(n.Body.List[0])) == "windowCfg.WindowLength = cfg.DeterministicWindows.WindowLength" {
					wlGuard = true
				}
				if normSleepcmd(src(n.Cond)) == "cfg.DeterministicWindows.ClockTolerance > 0" && len(n.Body.List) == 1 &&
					normSleepcmd(src(n.Body.List[0])) == "windowCfg.ClockTolerance = cfg.DeterministicWindows.ClockTolerance" {
					tolGuard = true
				}
			case *ast.AssignStmt:
				if normSleepcmd(src(n)) == "windowCfg.CycleLength = cfg.PollInterval" {
					cycleIsPoll = true
				}
			}
			return true
		})
	} else {
		g.note("sleep.NewManager not found")
	}
	g.line("Definition gen_c33_manager_epoch_is_the_parsed_instant : bool := %s.", coqBool(epochParsed))
	g.line("Definition gen_c33_manager_cycle_is_poll_interval : bool := %s.", coqBool(cycleIsPoll))
	g.line("Definition gen_c33_manager_window_and_tolerance_when_positive : bool := %s.", coqBool(wlGuard && tolGuard))
	env := map[string]int64{"time.Minute": 60e9, "time.Second": 1e9, "time.Hour": 3600e9, "time.Millisecond": 1e6}
	defs := map[string]int64{"WindowLength": 0, "ClockTolerance": 0}
	if fd := findFunc(wf, "", "DefaultWindowConfig"); fd != nil && fd.Body != nil {
		ast.Inspect(fd.Body, func(x ast.Node) bool {
			if kv, ok := x.(*ast.KeyValueExpr); ok {
				if id, ok := kv.Key.(*ast.Ident); ok {
					if _, want := defs[id.Name]; want {
						if v, ok := durLit(kv.Value, env); ok {
							defs[id.Name] = v
						}
					}
				}
			}
			return true
		})
	}
	g.line("Definition gen_c33_default_window_ns : Z := %d%%Z.", defs["WindowLength"])
	g.line("Definition gen_c33_default_tolerance_ns : Z := %d%%Z.", defs["ClockTolerance"])
}
