package main

import (
	"go/ast"
	"go/token"
)

func init() { generators["C03"] = genC03 }

// zero-key guard classes
const (
	guardNone      = 0 // no explicit test: the zero key reaches ComputeECDH
	guardRefuse    = 1 // explicit test, returns an error
	guardPlaintext = 2 // explicit test, continues (or returns success) without a key
)

func isZeroKeyIdent(e ast.Expr) bool {
	id, ok := e.(*ast.Ident)
	return ok && id.Name == "zeroKey"
}

// zeroCmp reports whether e is `<x> op zeroKey` (either side).
func zeroCmp(e ast.Expr, op token.Token) bool {
	be, ok := e.(*ast.BinaryExpr)
	return ok && be.Op == op && (isZeroKeyIdent(be.X) || isZeroKeyIdent(be.Y))
}

// boolDefs: identifiers defined as `<x> != zeroKey` in the function.
func nonZeroFlags(fd *ast.FuncDecl) map[string]bool {
	out := map[string]bool{}
	ast.Inspect(fd.Body, func(n ast.Node) bool {
		if as, ok := n.(*ast.AssignStmt); ok && len(as.Lhs) == 1 && len(as.Rhs) == 1 {
			if id, ok := as.Lhs[0].(*ast.Ident); ok && zeroCmp(as.Rhs[0], token.NEQ) {
				out[id.Name] = true
			}
		}
		return true
	})
	return out
}

// enclosedByNonZeroIf: is pos inside the body of an if whose condition is a
// non-zero-key test?
func enclosedByNonZeroIf(fd *ast.FuncDecl, pos token.Pos) bool {
	flags := nonZeroFlags(fd)
	found := false
	ast.Inspect(fd.Body, func(n ast.Node) bool {
		is, ok := n.(*ast.IfStmt)
		if !ok {
			return true
		}
		if is.Body.Pos() <= pos && pos < is.Body.End() {
			if zeroCmp(is.Cond, token.NEQ) {
				found = true
			}
			if id, ok := is.Cond.(*ast.Ident); ok && flags[id.Name] {
				found = true
			}
		}
		return true
	})
	return found
}

// earlyZeroReturn looks for `if <x> == zeroKey { ... return ... }` at the top
// level of fd before pos.
func earlyZeroReturn(fd *ast.FuncDecl, pos token.Pos) int {
	for _, st := range fd.Body.List {
		if st.Pos() > pos {
			break
		}
		is, ok := st.(*ast.IfStmt)
		if !ok || !zeroCmp(is.Cond, token.EQL) || len(is.Body.List) == 0 {
			continue
		}
		ret, ok := is.Body.List[len(is.Body.List)-1].(*ast.ReturnStmt)
		if !ok {
			continue
		}
		allNil := len(ret.Results) > 0
		for _, r := range ret.Results {
			if id, ok := r.(*ast.Ident); !ok || id.Name != "nil" {
				allNil = false
			}
		}
		if allNil {
			return guardPlaintext
		}
		return guardRefuse
	}
	return -1
}

func zeroGuardOf(dir string, fd *ast.FuncDecl, pos token.Pos) int {
	if enclosedByNonZeroIf(fd, pos) {
		return guardPlaintext
	}
	if g := earlyZeroReturn(fd, pos); g >= 0 {
		return g
	}
	// callers in the same package
	name := fd.Name.Name
	result := guardNone
	for _, f := range parseDir(dir) {
		for _, d := range f.Decls {
			caller, ok := d.(*ast.FuncDecl)
			if !ok || caller.Body == nil || caller == fd {
				continue
			}
			ast.Inspect(caller.Body, func(n ast.Node) bool {
				call, ok := n.(*ast.CallExpr)
				if !ok {
					return true
				}
				match := false
				switch fn := call.Fun.(type) {
				case *ast.Ident:
					match = fn.Name == name && fd.Recv == nil
				case *ast.SelectorExpr:
					match = fn.Sel.Name == name && fd.Recv != nil
				}
				if match && enclosedByNonZeroIf(caller, call.Pos()) {
					result = guardPlaintext
				}
				return true
			})
		}
	}
	return result
}

// C03: every DeriveSessionKey call site with the classes of its arguments,
// the classes of the ComputeECDH arguments its secret comes from, its literal
// role flag, tunnel kind and zero-key guard; calls of key-derivation helpers;
// the salt layout and HKDF parameters of DeriveSessionKey; the two rejection
// tests of ComputeECDH.
func genC03(g *gen) {
	sites, helperCalls := scanKeySites()
	g.line("(* (kind, function, flag, id, initiatorPub, responderPub, secret, ecdh priv, ecdh pub, zero-key guard) *)")
	g.line("(* classes: 0 unknown, 1 own private, 2 own public, 3 remote public, 4 request id, 5 result of ComputeECDH;")
	g.line("   flag: 1 true, 0 false, 2 not a literal; guard: 0 none, 1 refuse, 2 continue without a key *)")
	g.line("Definition gen_c03_sites : list (string * string * N * N * N * N * N * N * N * N) := [")
	for i, s := range sites {
		dir := s.file[:len(s.file)-len("/"+baseName(s.file))]
		fd := findFuncAnyRecv(dir, s.fn)
		guard := guardNone
		if fd != nil {
			guard = zeroGuardOf(dir, fd, posOfLine(fd, s.line))
		}
		sep := ";"
		if i == len(sites)-1 {
			sep = ""
		}
		g.line("  (%s, %s, %d, %d, %d, %d, %d, %d, %d, %d)%s", coqString(s.kind), coqString(s.fn), s.flag, s.id, s.a, s.b, s.ss, s.ecdhPriv, s.ecdhPub, guard, sep)
	}
	g.line("]%%string.")
	g.line("(* calls of helper functions that contain a site whose arguments are parameters: (caller, helper, argument classes, parameter classes of the helper) *)")
	g.line("Definition gen_c03_helper_calls : list (string * string * list N * list N) := [")
	for i, hc := range helperCalls {
		dir := hc.file[:len(hc.file)-len("/"+baseName(hc.file))]
		pc := helperParamClasses(dir, hc.helper)
		sep := ";"
		if i == len(helperCalls)-1 {
			sep = ""
		}
		g.line("  (%s, %s, %s, %s)%s", coqString(hc.fn), coqString(hc.helper), coqIntList(hc.args), coqIntList(pc), sep)
	}
	g.line("]%%string.")

	// DeriveSessionKey: salt layout
	f := parseFile("internal/crypto/crypto.go")
	fd := findFunc(f, "", "DeriveSessionKey")
	saltLen, idOff, idLen := int64(-1), int64(-1), int64(-1)
	var copies [][3]string // (low, high, source param)
	hash, info, hkdfSecret, hkdfSalt := "", "", "", ""
	flagStored := false
	env := map[string]int64{}
	if v, ok := intLit(constExpr(f, "KeySize"), nil); ok {
		env["KeySize"] = v
	}
	var params []string
	if fd != nil && fd.Body != nil {
		for _, fl := range fd.Type.Params.List {
			for _, n := range fl.Names {
				params = append(params, n.Name)
			}
		}
		ast.Inspect(fd.Body, func(n ast.Node) bool {
			switch s := n.(type) {
			case *ast.AssignStmt:
				if len(s.Lhs) == 1 && len(s.Rhs) == 1 {
					if id, ok := s.Lhs[0].(*ast.Ident); ok && id.Name == "salt" {
						if call, ok := s.Rhs[0].(*ast.CallExpr); ok && src(call.Fun) == "make" && len(call.Args) == 2 {
							if v, ok := intLit(call.Args[1], env); ok {
								saltLen = v
							}
						}
					}
				}
			case *ast.CallExpr:
				switch src(s.Fun) {
				case "binary.BigEndian.PutUint64":
					if len(s.Args) == 2 {
						if sl, ok := s.Args[0].(*ast.SliceExpr); ok && src(sl.X) == "salt" {
							lo, ok1 := intLit(sl.Low, env)
							hi, ok2 := intLit(sl.High, env)
							if ok1 && ok2 {
								idOff, idLen = lo, hi-lo
							}
						}
					}
				case "copy":
					if len(s.Args) == 2 {
						if sl, ok := s.Args[0].(*ast.SliceExpr); ok && src(sl.X) == "salt" {
							lo, hi := "0", "end"
							if sl.Low != nil {
								if v, ok := intLit(sl.Low, env); ok {
									lo = itoa(v)
								}
							}
							if sl.High != nil {
								if v, ok := intLit(sl.High, env); ok {
									hi = itoa(v)
								}
							}
							srcName := ""
							if s2, ok := s.Args[1].(*ast.SliceExpr); ok {
								srcName = src(s2.X)
							}
							copies = append(copies, [3]string{lo, hi, srcName})
						}
					}
				case "hkdf.New":
					if len(s.Args) == 4 {
						hash = src(s.Args[0])
						hkdfSecret = src(s.Args[1])
						hkdfSalt = src(s.Args[2])
						if c, ok := s.Args[3].(*ast.CallExpr); ok && len(c.Args) == 1 {
							if id, ok := c.Args[0].(*ast.Ident); ok {
								if bl, ok := constExpr(f, id.Name).(*ast.BasicLit); ok {
									info = bl.Value
								}
							}
						}
					}
				}
			case *ast.KeyValueExpr:
				if k, ok := s.Key.(*ast.Ident); ok && k.Name == "isInitiator" {
					if v, ok := s.Value.(*ast.Ident); ok && len(params) == 5 && v.Name == params[4] {
						flagStored = true
					}
				}
			}
			return true
		})
	} else {
		g.note("DeriveSessionKey not found")
	}
	paramIdx := func(name string) int {
		for i, p := range params {
			if p == name {
				return i
			}
		}
		return -1
	}
	g.line("Definition gen_c03_key_size : N := %s.", itoa(env["KeySize"]))
	g.line("Definition gen_c03_salt_len : N := %s.", itoa(saltLen))
	g.line("Definition gen_c03_salt_id_offset : N := %s.", itoa(idOff))
	g.line("Definition gen_c03_salt_id_len : N := %s.", itoa(idLen))
	g.line("(* copy(salt[lo:hi], <param>): (lo, hi or 0 for end, index of the parameter of DeriveSessionKey) *)")
	g.line("Definition gen_c03_salt_copies : list (N * N * N) := [")
	for i, c := range copies {
		hi := c[1]
		if hi == "end" {
			hi = "0"
		}
		sep := ";"
		if i == len(copies)-1 {
			sep = ""
		}
		pi := paramIdx(c[2])
		if pi < 0 {
			pi = 99
		}
		g.line("  (%s, %s, %d)%s", c[0], hi, pi, sep)
	}
	g.line("].")
	g.line("Definition gen_c03_hkdf_hash : string := %s%%string.", coqString(hash))
	g.line("Definition gen_c03_hkdf_info : string := %s%%string.", coqString(trimQuotes(info)))
	g.line("Definition gen_c03_hkdf_secret_is_param0 : bool := %s.", coqBool(len(params) == 5 && hkdfSecret == params[0]+"[:]"))
	g.line("Definition gen_c03_hkdf_salt_is_salt : bool := %s.", coqBool(hkdfSalt == "salt"))
	g.line("Definition gen_c03_id_is_param1 : bool := %s.", coqBool(idParamIs(fd, params)))
	g.line("Definition gen_c03_flag_stored : bool := %s.", coqBool(flagStored))

	// ComputeECDH: the two rejection tests
	zeroRemote, zeroSecret := false, false
	scalarArgsOK := false
	if fd := findFunc(f, "", "ComputeECDH"); fd != nil && fd.Body != nil {
		var ps []string
		for _, fl := range fd.Type.Params.List {
			for _, n := range fl.Names {
				ps = append(ps, n.Name)
			}
		}
		seenMult := false
		for _, st := range fd.Body.List {
			switch s := st.(type) {
			case *ast.IfStmt:
				if be, ok := s.Cond.(*ast.BinaryExpr); ok && be.Op == token.EQL && isZeroKeyIdent(be.Y) && len(s.Body.List) > 0 {
					if _, ok := s.Body.List[len(s.Body.List)-1].(*ast.ReturnStmt); ok {
						x := src(be.X)
						if len(ps) == 2 && x == ps[1] && !seenMult {
							zeroRemote = true
						}
						if x == "sharedSecret" && seenMult {
							zeroSecret = true
						}
					}
				}
			case *ast.ExprStmt:
				if call, ok := s.X.(*ast.CallExpr); ok && src(call.Fun) == "curve25519.ScalarMult" && len(call.Args) == 3 && len(ps) == 2 {
					seenMult = true
					scalarArgsOK = src(call.Args[0]) == "&sharedSecret" && src(call.Args[1]) == "&"+ps[0] && src(call.Args[2]) == "&"+ps[1]
				}
			}
		}
	} else {
		g.note("ComputeECDH not found")
	}
	g.line("Definition gen_c03_ecdh_rejects_zero_remote_before_mult : bool := %s.", coqBool(zeroRemote))
	g.line("Definition gen_c03_ecdh_rejects_zero_secret_after_mult : bool := %s.", coqBool(zeroSecret))
	g.line("Definition gen_c03_ecdh_mult_args_priv_then_remote : bool := %s.", coqBool(scalarArgsOK))
	genC03IDs(g)
}

func idParamIs(fd *ast.FuncDecl, params []string) bool {
	if fd == nil || len(params) != 5 {
		return false
	}
	ok := false
	ast.Inspect(fd.Body, func(n ast.Node) bool {
		if c, isCall := n.(*ast.CallExpr); isCall && src(c.Fun) == "binary.BigEndian.PutUint64" && len(c.Args) == 2 {
			if id, isID := c.Args[1].(*ast.Ident); isID && id.Name == params[1] {
				ok = true
			}
		}
		return true
	})
	return ok
}

func trimQuotes(s string) string {
	if len(s) >= 2 && s[0] == '"' && s[len(s)-1] == '"' {
		return s[1 : len(s)-1]
	}
	return s
}

func baseName(p string) string {
	for i := len(p) - 1; i >= 0; i-- {
		if p[i] == '/' {
			return p[i+1:]
		}
	}
	return p
}

func coqIntList(xs []int) string {
	ys := make([]int64, len(xs))
	for i, x := range xs {
		ys[i] = int64(x)
	}
	return coqNList(ys)
}

// findFuncAnyRecv finds a function or method by name in a package dir.
func findFuncAnyRecv(dir, name string) *ast.FuncDecl {
	for _, f := range parseDir(dir) {
		for _, d := range f.Decls {
			if fd, ok := d.(*ast.FuncDecl); ok && fd.Name.Name == name && fd.Body != nil {
				return fd
			}
		}
	}
	return nil
}

// posOfLine returns a position inside fd on the given source line.
func posOfLine(fd *ast.FuncDecl, line int) token.Pos {
	var p token.Pos
	ast.Inspect(fd.Body, func(n ast.Node) bool {
		if n == nil || p != 0 {
			return false
		}
		if c, ok := n.(*ast.CallExpr); ok && fset.Position(c.Pos()).Line == line {
			if _, ok := isCryptoCall(c, "DeriveSessionKey", false); ok {
				p = c.Pos()
			}
		}
		return true
	})
	if p == 0 {
		return fd.Body.End()
	}
	return p
}
