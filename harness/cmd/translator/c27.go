package main

import (
	"go/ast"
	"sort"
	"strings"
)

func init() {
	generators["C27"] = genC27
	generators["C26"] = genC26
}

func nospaceFs(s string) string { return strings.Join(strings.Fields(s), "") }

// C27: where UntarDirectory applies its symbolic-link checks.
func genC27(g *gen) {
	f := parseFile("internal/filetransfer/tar.go")
	fd := findFunc(f, "", "UntarDirectory")
	g.line("Local Open Scope string_scope.")
	body := ""
	if fd != nil {
		body = nospaceFs(src(fd.Body))
	}
	iCheck := strings.Index(body, "ensureNoSymlinks(destDir,targetPath,")
	iSwitch := strings.Index(body, "switchheader.Typeflag{")
	iSan := strings.Index(body, "sanitizeTarPath(destDir,header.Name)")
	g.line("Definition gen_path_check_between_sanitize_and_switch : bool := %s.", coqBool(iSan >= 0 && iCheck > iSan && iSwitch > iCheck))
	// entry kinds whose last component is checked as well
	var kinds []string
	if fd != nil {
		ast.Inspect(fd.Body, func(n ast.Node) bool {
			as, ok := n.(*ast.AssignStmt)
			if !ok || len(as.Lhs) != 1 || src(as.Lhs[0]) != "checkLast" || len(as.Rhs) != 1 {
				return true
			}
			ast.Inspect(as.Rhs[0], func(m ast.Node) bool {
				if se, ok := m.(*ast.SelectorExpr); ok && src(se.X) == "tar" && strings.HasPrefix(se.Sel.Name, "Type") {
					kinds = append(kinds, se.Sel.Name)
				}
				return true
			})
			return false
		})
	}
	sort.Strings(kinds)
	g.line("Definition gen_check_last_kinds : list string := %s.", coqStringList(kinds))
	// the typeflags the switch handles, per case clause (anything that is extracted like a
	// directory or a regular file must be in the check-last list)
	var clauses []string
	if fd != nil {
		ast.Inspect(fd.Body, func(n ast.Node) bool {
			sw, ok := n.(*ast.SwitchStmt)
			if !ok || nospaceFs(src(sw.Tag)) != "header.Typeflag" {
				return true
			}
			for _, st := range sw.Body.List {
				cc, ok := st.(*ast.CaseClause)
				if !ok || cc.List == nil {
					continue
				}
				var fl []string
				for _, e := range cc.List {
					fl = append(fl, strings.TrimPrefix(nospaceFs(src(e)), "tar."))
				}
				sort.Strings(fl)
				clauses = append(clauses, strings.Join(fl, "+"))
			}
			return false
		})
	}
	g.line("Definition gen_switch_clauses : list string := %s.", coqStringList(clauses))
	// the directory branch of WriteUploadedFile does nothing to the tree besides UntarDirectory
	sf := parseFile("internal/filetransfer/stream.go")
	var dirCalls []string
	if wf := findFunc(sf, "StreamHandler", "WriteUploadedFile"); wf != nil && wf.Body != nil {
		for _, st := range wf.Body.List {
			if ifs, ok := st.(*ast.IfStmt); ok && nospaceFs(src(ifs.Cond)) == "isDirectory" {
				ast.Inspect(ifs.Body, func(n ast.Node) bool {
					if call, ok := n.(*ast.CallExpr); ok {
						dirCalls = append(dirCalls, nospaceFs(src(call.Fun)))
					}
					return true
				})
			}
		}
	}
	g.line("Definition gen_upload_dir_branch_calls : list string := %s.", coqStringList(dirCalls))
	// hard links: the link target is checked including its last component, inside the TypeLink case
	iLink := strings.Index(body, "casetar.TypeLink:")
	iLT := strings.Index(body, "ensureNoSymlinks(destDir,linkTarget,true)")
	g.line("Definition gen_hardlink_target_checked : bool := %s.", coqBool(iLink >= 0 && iLT > iLink))
	// only a directory entry may name the destination itself
	iGuard := strings.Index(body, "targetPath==destDir&&header.Typeflag!=tar.TypeDir")
	g.line("Definition gen_destination_itself_guard : bool := %s.", coqBool(iGuard > iSan && iGuard >= 0 && iGuard < iSwitch))
	// ensureNoSymlinks inspects with Lstat (not Stat), component by component from destDir, and stops at the first missing one
	ens := findFunc(f, "", "ensureNoSymlinks")
	eb := ""
	if ens != nil {
		eb = nospaceFs(src(ens.Body))
	}
	g.line("Definition gen_ensure_uses_lstat : bool := %s.", coqBool(strings.Contains(eb, "os.Lstat(") && !strings.Contains(eb, "os.Stat(")))
	g.line("Definition gen_ensure_rejects_symlink : bool := %s.", coqBool(strings.Contains(eb, "os.ModeSymlink!=0{return")))
	g.line("Definition gen_ensure_stops_at_missing : bool := %s.", coqBool(strings.Contains(eb, "os.IsNotExist(err){returnnil")))
}

// callersOf lists the functions of a package directory that call name.
func callersOf(rel, name string) []string {
	var out []string
	for _, f := range parseDir(rel) {
		for _, d := range f.Decls {
			fd, ok := d.(*ast.FuncDecl)
			if !ok || fd.Body == nil {
				continue
			}
			found := false
			ast.Inspect(fd.Body, func(n ast.Node) bool {
				if call, ok := n.(*ast.CallExpr); ok {
					if se, ok := call.Fun.(*ast.SelectorExpr); ok && se.Sel.Name == name {
						found = true
					}
					if id, ok := call.Fun.(*ast.Ident); ok && id.Name == name {
						found = true
					}
				}
				return true
			})
			if found {
				out = append(out, fd.Name.Name)
			}
		}
	}
	sort.Strings(out)
	return out
}

// C26: which entry points apply which path checks.
func genC26(g *gen) {
	g.line("Local Open Scope string_scope.")
	g.line("(* functions that call validatePath / validateSymlinkTarget *)")
	g.line("Definition gen_validate_path_callers : list string := %s.", coqStringList(callersOf("internal/filetransfer", "validatePath")))
	g.line("Definition gen_symlink_target_callers : list string := %s.", coqStringList(callersOf("internal/filetransfer", "validateSymlinkTarget")))
	g.line("Definition gen_require_path_callers : list string := %s.", coqStringList(callersOf("internal/filetransfer", "requirePath")))
	f := parseFile("internal/filetransfer/stream.go")
	vp := findFunc(f, "StreamHandler", "validatePath")
	b := ""
	if vp != nil {
		b = nospaceFs(src(vp.Body))
	}
	// order of the lexical checks
	idx := []int{strings.Index(b, "containsDangerousChars(path)"), strings.Index(b, "normalizePath(path)"), strings.Index(b, "filepath.IsAbs(normalizedPath)"),
		strings.Index(b, `strings.Contains(normalizedPath,"..")`), strings.Index(b, "len(h.cfg.AllowedPaths)==0"), strings.Index(b, `pattern=="*"`), strings.Index(b, "isPathAllowed(normalizedPath,pattern)")}
	ordered := true
	for i := range idx {
		if idx[i] < 0 || (i > 0 && idx[i] < idx[i-1]) {
			ordered = false
		}
	}
	g.line("Definition gen_validate_path_check_order : bool := %s.", coqBool(ordered))
	// the resolved-path check is the lexical rule applied to filepath.EvalSymlinks(path), only when Lstat says the path itself is a link
	st := findFunc(f, "StreamHandler", "validateSymlinkTarget")
	sb := ""
	if st != nil {
		sb = nospaceFs(src(st.Body))
	}
	g.line("Definition gen_symlink_check_only_final_component : bool := %s.",
		coqBool(strings.Contains(sb, "os.Lstat(path)") && strings.Contains(sb, "info.Mode()&os.ModeSymlink==0{returnnil}") && strings.Contains(sb, "filepath.EvalSymlinks(path)") && strings.Contains(sb, "h.validatePath(target)")))

	// ---- the allow-list decision is made on exactly the path the operation uses
	// normalizePath: the calls it applies to the path, in order
	np := findFunc(f, "", "normalizePath")
	g.line("(* calls normalizePath applies to the path, in order: anything besides NFC and Clean makes the checked path differ from the used one *)")
	g.line("Definition gen_normalize_calls : list string := %s.", coqStringList(callNames(np)))
	// the path the operations use: the first thing each entry point does with its path argument
	bf := parseFile("internal/filetransfer/browse.go")
	usedBy := func(fd *ast.FuncDecl) string {
		if fd == nil || fd.Body == nil {
			return "?"
		}
		out := "?"
		ast.Inspect(fd.Body, func(n ast.Node) bool {
			if out != "?" {
				return false
			}
			switch x := n.(type) {
			case *ast.AssignStmt:
				if len(x.Lhs) == 1 && len(x.Rhs) == 1 && src(x.Lhs[0]) == "path" {
					out = nospaceFs(src(x.Rhs[0]))
				}
			case *ast.ReturnStmt:
				if len(x.Results) == 2 && nospaceFs(src(x.Results[1])) == "nil" {
					out = nospaceFs(src(x.Results[0]))
				}
			}
			return true
		})
		return out
	}
	g.line("Definition gen_used_path_require : string := %s.", coqString(usedBy(findFunc(bf, "StreamHandler", "requirePath"))))
	g.line("Definition gen_used_path_upload : string := %s.", coqString(usedBy(findFunc(f, "StreamHandler", "WriteUploadedFile"))))
	g.line("Definition gen_used_path_download : string := %s.", coqString(usedBy(findFunc(f, "StreamHandler", "ReadFileForDownload"))))
	g.line("Definition gen_used_path_download_at_offset : string := %s.", coqString(usedBy(findFunc(f, "StreamHandler", "ReadFileForDownloadAtOffset"))))
	// which fields of the request metadata the validations read (is_directory, compress, offset must not influence the download check)
	metaFields := func(fd *ast.FuncDecl) []string {
		set := map[string]bool{}
		if fd != nil && fd.Body != nil {
			ast.Inspect(fd.Body, func(n ast.Node) bool {
				if se, ok := n.(*ast.SelectorExpr); ok && src(se.X) == "meta" {
					set[se.Sel.Name] = true
				}
				return true
			})
		}
		var out []string
		for k := range set {
			out = append(out, k)
		}
		sort.Strings(out)
		return out
	}
	g.line("Definition gen_download_validation_meta_fields : list string := %s.", coqStringList(metaFields(findFunc(f, "StreamHandler", "ValidateDownloadMetadata"))))
	g.line("Definition gen_upload_validation_meta_fields : list string := %s.", coqStringList(metaFields(findFunc(f, "StreamHandler", "ValidateUploadMetadata"))))
	// no request changes the policy: outside NewStreamHandler nothing assigns to h.cfg and nothing re-slices the allow list
	cfgWrites, cfgSlices := 0, 0
	for _, pf := range parseDir("internal/filetransfer") {
		ast.Inspect(pf, func(n ast.Node) bool {
			switch x := n.(type) {
			case *ast.AssignStmt:
				for _, l := range x.Lhs {
					if strings.HasPrefix(nospaceFs(src(l)), "h.cfg") {
						cfgWrites++
					}
				}
			case *ast.SliceExpr:
				if strings.Contains(nospaceFs(src(x.X)), ".cfg.AllowedPaths") {
					cfgSlices++
				}
			case *ast.CallExpr:
				if fn := nospaceFs(src(x.Fun)); (fn == "sort.Strings" || fn == "append" || fn == "sort.Slice") && len(x.Args) > 0 && strings.Contains(nospaceFs(src(x.Args[0])), ".cfg.AllowedPaths") {
					cfgSlices++
				}
			}
			return true
		})
	}
	g.line("Definition gen_policy_writes : N := %d.", cfgWrites)
	g.line("Definition gen_policy_reslices : N := %d.", cfgSlices)
	// ---- matching respects component boundaries
	ipa := findFunc(f, "", "isPathAllowed")
	calls := callNames(ipa)
	count := func(name string) int {
		n := 0
		for _, c := range calls {
			if c == name {
				n++
			}
		}
		return n
	}
	g.line("(* isPathAllowed: the recursive-glob branch and the no-glob branch both go through isPathUnderPrefix; no raw string prefix test *)")
	g.line("Definition gen_allowed_under_prefix_calls : N := %d.", count("isPathUnderPrefix"))
	g.line("Definition gen_allowed_raw_prefix_calls : N := %d.", count("strings.HasPrefix"))
	g.line("Definition gen_allowed_match_calls : N := %d.", count("filepath.Match"))
	recursiveBranchOK := false
	if ipa != nil && ipa.Body != nil {
		for _, st := range ipa.Body.List {
			ifs, ok := st.(*ast.IfStmt)
			if !ok || !strings.Contains(nospaceFs(src(ifs.Cond)), `"/**"`) {
				continue
			}
			for _, b := range ifs.Body.List {
				if r, ok := b.(*ast.ReturnStmt); ok && len(r.Results) == 1 {
					if call, ok := r.Results[0].(*ast.CallExpr); ok && src(call.Fun) == "isPathUnderPrefix" {
						recursiveBranchOK = true
					}
				}
			}
		}
	}
	g.line("Definition gen_recursive_glob_uses_under_prefix : bool := %s.", coqBool(recursiveBranchOK))
	// isPathUnderPrefix: exact match, or prefix with a separator appended
	up := findFunc(f, "", "isPathUnderPrefix")
	ub := ""
	if up != nil {
		ub = nospaceFs(src(up.Body))
	}
	g.line("Definition gen_under_prefix_appends_separator : bool := %s.",
		coqBool(strings.Contains(ub, "cleanPrefix+=string(filepath.Separator)") && strings.Contains(ub, "strings.HasPrefix(cleanPath,cleanPrefix)") && strings.Contains(ub, "cleanPath==cleanPrefix")))
}

// callNames lists the callee expressions of the calls inside fd, in source order.
func callNames(fd *ast.FuncDecl) []string {
	var out []string
	if fd == nil || fd.Body == nil {
		return out
	}
	ast.Inspect(fd.Body, func(n ast.Node) bool {
		if call, ok := n.(*ast.CallExpr); ok {
			out = append(out, nospaceFs(src(call.Fun)))
		}
		return true
	})
	return out
}
