package main

import (
	"fmt"
	"go/ast"
	"go/token"
	"strings"
)

func init() { generators["C07"] = genC07 }

// C07: per data path the plaintext buffer / chunk size, the framing bytes put
// in front of the data before encryption, and which sender the path uses
// (Agent.WriteStreamData = splitting, SendToPeer = one frame per message);
// the AEAD overhead constants; the bound enforced by Frame.Encode; the chunk
// step of Agent.WriteStreamData.

const c07Bad = 999999 // emitted when a pattern is not recognised: makes the fact theorems fail

// c07Eval evaluates constant integer expressions, including package-qualified
// constants (protocol.MaxPayloadSize) and len(x) (taken as 0, i.e. the
// constant part of a size expression).
func c07Eval(e ast.Expr, env map[string]int64) (int64, bool) {
	switch x := e.(type) {
	case *ast.BasicLit:
		return intLit(x, nil)
	case *ast.ParenExpr:
		return c07Eval(x.X, env)
	case *ast.Ident:
		v, ok := env[x.Name]
		return v, ok
	case *ast.SelectorExpr:
		if id, ok := x.X.(*ast.Ident); ok {
			v, ok := env[id.Name+"."+x.Sel.Name]
			return v, ok
		}
	case *ast.CallExpr:
		if id, ok := x.Fun.(*ast.Ident); ok && len(x.Args) == 1 {
			switch id.Name {
			case "len":
				return 0, true
			case "int", "int64", "uint32", "uint64", "uint16", "uint8":
				return c07Eval(x.Args[0], env)
			}
		}
	case *ast.BinaryExpr:
		a, ok1 := c07Eval(x.X, env)
		b, ok2 := c07Eval(x.Y, env)
		if ok1 && ok2 {
			switch x.Op {
			case token.ADD:
				return a + b, true
			case token.SUB:
				return a - b, true
			case token.MUL:
				return a * b, true
			case token.SHL:
				return a << uint(b), true
			}
		}
	}
	return 0, false
}

// c07Consts evaluates the integer constants of one file into env under
// "<pkg>.<Name>" and (for the file's own package) also "<Name>".
func c07Consts(f *ast.File, pkg string, env map[string]int64) {
	if f == nil {
		return
	}
	local := map[string]int64{}
	for k, v := range env {
		local[k] = v
		if strings.HasPrefix(k, pkg+".") {
			local[strings.TrimPrefix(k, pkg+".")] = v
		}
	}
	for pass := 0; pass < 3; pass++ {
		for _, d := range f.Decls {
			gd, ok := d.(*ast.GenDecl)
			if !ok || gd.Tok != token.CONST {
				continue
			}
			for _, s := range gd.Specs {
				vs := s.(*ast.ValueSpec)
				for i, n := range vs.Names {
					if i < len(vs.Values) {
						if v, ok := c07Eval(vs.Values[i], local); ok {
							local[n.Name] = v
							env[pkg+"."+n.Name] = v
						}
					}
				}
			}
		}
	}
}

// c07Path analyses one sender function.
//
//	bufVar: the variable whose make([]byte, N) gives the read buffer, or ""
//	        when the function chunks a caller-supplied slice by a step variable
//	        (meshConn.Write: "end := offset + <step>")
func c07Path(g *gen, name string, fd *ast.FuncDecl, env map[string]int64, prefixOf func(call *ast.CallExpr) (int64, bool)) (buf, pre int64, split bool) {
	buf, pre = c07Bad, c07Bad
	if fd == nil || fd.Body == nil {
		g.note("%s: function not found", name)
		return
	}
	local := map[string]int64{}
	for k, v := range env {
		local[k] = v
	}
	sawSplit, sawDirect := false, false
	var encArg ast.Expr
	var encArgs []ast.Expr
	bufName, stepName := "", ""
	ast.Inspect(fd.Body, func(n ast.Node) bool {
		switch x := n.(type) {
		case *ast.AssignStmt:
			if len(x.Lhs) == 1 && len(x.Rhs) == 1 {
				id, ok := x.Lhs[0].(*ast.Ident)
				if !ok {
					return true
				}
				// buf := make([]byte, N)
				if call, ok := x.Rhs[0].(*ast.CallExpr); ok {
					if f, ok := call.Fun.(*ast.Ident); ok && f.Name == "make" && len(call.Args) >= 2 && src(call.Args[0]) == "[]byte" {
						if v, ok := c07Eval(call.Args[1], local); ok && bufName == "" {
							bufName = id.Name
							buf = v
						}
						return true
					}
				}
				// end := offset + step
				if be, ok := x.Rhs[0].(*ast.BinaryExpr); ok && be.Op == token.ADD && id.Name == "end" && x.Tok == token.DEFINE {
					if v, ok := c07Eval(be.Y, local); ok {
						stepName = src(be.Y)
						if bufName == "" {
							buf = v
						}
					}
					return true
				}
				if v, ok := c07Eval(x.Rhs[0], local); ok && x.Tok == token.DEFINE {
					local[id.Name] = v
				}
			}
		case *ast.CallExpr:
			if sel, ok := x.Fun.(*ast.SelectorExpr); ok {
				switch sel.Sel.Name {
				case "WriteStreamData", "writeEncrypted":
					sawSplit = true
				case "SendToPeer":
					sawDirect = true
				case "Encrypt":
					if len(x.Args) == 1 {
						encArgs = append(encArgs, x.Args[0])
					}
				}
				if sel.Sel.Name == "writeEncrypted" && len(x.Args) >= 2 {
					encArgs = append(encArgs, x.Args[1])
				}
			}
		}
		return true
	})
	_ = stepName
	// the encryption of the data read into the buffer: prefer the call whose
	// argument mentions the buffer variable (other Encrypt calls in the same
	// function seal metadata or the empty FIN message)
	for _, a := range encArgs {
		if bufName != "" && strings.Contains(src(a), bufName+"[") {
			encArg = a
			break
		}
	}
	if encArg == nil {
		for _, a := range encArgs {
			if id, ok := a.(*ast.Ident); ok && bufName != "" {
				// a local assigned from an expression over the buffer ("msg := EncodeStdout(buf[:n])")
				uses := false
				ast.Inspect(fd.Body, func(n ast.Node) bool {
					if as, ok := n.(*ast.AssignStmt); ok && len(as.Lhs) == 1 && len(as.Rhs) == 1 && src(as.Lhs[0]) == id.Name && strings.Contains(src(as.Rhs[0]), bufName+"[") {
						uses = true
					}
					return true
				})
				if uses {
					encArg = a
					break
				}
			}
		}
	}
	if encArg == nil && len(encArgs) > 0 && bufName == "" {
		encArg = encArgs[0]
	}
	split = sawSplit && !sawDirect
	if sawSplit == sawDirect {
		g.note("%s: sender not recognised (WriteStreamData=%v SendToPeer=%v)", name, sawSplit, sawDirect)
		buf = c07Bad
	}
	// what is encrypted: a slice of the buffer / of the input (pre = 0), or
	// a framing call around it (pre from prefixOf)
	switch a := encArg.(type) {
	case *ast.SliceExpr:
		pre = 0
	case *ast.Ident:
		// a local holding either a slice of the input ("chunk") or the framed message ("msg")
		pre = c07Bad
		ast.Inspect(fd.Body, func(n ast.Node) bool {
			as, ok := n.(*ast.AssignStmt)
			if !ok || len(as.Lhs) != 1 || len(as.Rhs) != 1 {
				return true
			}
			if id, ok := as.Lhs[0].(*ast.Ident); !ok || id.Name != a.Name {
				return true
			}
			switch r := as.Rhs[0].(type) {
			case *ast.SliceExpr:
				pre = 0
			case *ast.CallExpr:
				if v, ok := prefixOf(r); ok {
					pre = v
				}
			}
			return true
		})
	case *ast.CallExpr:
		if v, ok := prefixOf(a); ok {
			pre = v
		}
	default:
		g.note("%s: encrypted argument not recognised (%s)", name, src(encArg))
	}
	return
}

// c07ShellIn: forwardShellClientData ranges over splitShellClientMessage(data)
// and sends each message with SendToPeer; splitShellClientMessage caps the
// STDIN payload of each message at "if n > CAP { n = CAP }" and re-frames it
// with shell.EncodeStdin.
type c07Row struct {
	name     string
	buf, pre int64
	split    bool
}

func c07ShellIn(g *gen, agentFile *ast.File, env map[string]int64, msgPre int64, stdinViaMessage bool) (r c07Row) {
	r.name, r.buf, r.pre, r.split = "shellin", c07Bad, c07Bad, false
	fwd := findFunc(agentFile, "Agent", "forwardShellClientData")
	sp := findFunc(agentFile, "", "splitShellClientMessage")
	if fwd == nil || sp == nil || fwd.Body == nil || sp.Body == nil {
		g.note("shellin: forwardShellClientData / splitShellClientMessage not found")
		return
	}
	body := src(fwd.Body)
	if !strings.Contains(body, "range splitShellClientMessage(") || !strings.Contains(body, ".SendToPeer(") || strings.Contains(body, ".WriteStreamData(") {
		g.note("shellin: forwardShellClientData does not send the split messages with SendToPeer")
		return
	}
	local := map[string]int64{}
	for k, v := range env {
		local[k] = v
	}
	ast.Inspect(sp.Body, func(n ast.Node) bool {
		switch x := n.(type) {
		case *ast.GenDecl:
			for _, s := range x.Specs {
				if vs, ok := s.(*ast.ValueSpec); ok {
					for i, nm := range vs.Names {
						if i < len(vs.Values) {
							if v, ok := c07Eval(vs.Values[i], local); ok {
								local[nm.Name] = v
							}
						}
					}
				}
			}
		case *ast.IfStmt:
			if be, ok := x.Cond.(*ast.BinaryExpr); ok && be.Op == token.GTR && src(be.X) == "n" {
				if v, ok := c07Eval(be.Y, local); ok && len(x.Body.List) == 1 && src(x.Body.List[0]) == "n = "+src(be.Y) {
					r.buf = v
				}
			}
		}
		return true
	})
	if strings.Contains(src(sp.Body), "shell.EncodeStdin(payload[:n])") && stdinViaMessage {
		r.pre = msgPre
	}
	// messages that are passed through unchanged must fit as well
	if v, ok := local["maxMessage"]; !ok || v != r.buf+r.pre {
		g.note("shellin: pass-through bound %d is not cap + framing", v)
		r.buf = c07Bad
	}
	return
}

func genC07(g *gen) {
	env := map[string]int64{}
	c07Consts(parseFile("internal/protocol/types.go"), "protocol", env)
	c07Consts(parseFile("internal/crypto/crypto.go"), "crypto", env)
	get := func(k string) int64 {
		if v, ok := env[k]; ok {
			return v
		}
		g.note("constant %s not found", k)
		return c07Bad
	}
	g.line("Definition gen_max_payload : N := %d.", get("protocol.MaxPayloadSize"))
	g.line("Definition gen_header_size : N := %d.", get("protocol.HeaderSize"))
	g.line("Definition gen_nonce_size : N := %d.", get("crypto.NonceSize"))
	g.line("Definition gen_tag_size : N := %d.", get("crypto.TagSize"))
	g.line("Definition gen_overhead : N := %d.", get("crypto.EncryptionOverhead"))

	// Frame.Encode: first statement is "if len(f.Payload) > BOUND { return nil, err }"
	frameFile := parseFile("internal/protocol/frame.go")
	penv := map[string]int64{}
	for k, v := range env {
		penv[k] = v
		if strings.HasPrefix(k, "protocol.") {
			penv[strings.TrimPrefix(k, "protocol.")] = v
		}
	}
	encBound := int64(0)
	if fd := findFunc(frameFile, "Frame", "Encode"); fd != nil && fd.Body != nil && len(fd.Body.List) > 0 {
		if is, ok := fd.Body.List[0].(*ast.IfStmt); ok {
			if be, ok := is.Cond.(*ast.BinaryExpr); ok && be.Op == token.GTR && strings.HasPrefix(src(be.X), "len(") && strings.HasSuffix(src(be.X), ".Payload)") {
				if len(is.Body.List) == 1 {
					if rs, ok := is.Body.List[0].(*ast.ReturnStmt); ok && len(rs.Results) == 2 && src(rs.Results[0]) == "nil" && src(rs.Results[1]) != "nil" {
						if v, ok := c07Eval(be.Y, penv); ok {
							encBound = v
						}
					}
				}
			}
		}
	}
	if encBound == 0 {
		g.note("Frame.Encode: size guard not recognised as the first statement")
	}
	g.line("Definition gen_encode_rejects_above : N := %d.", encBound)
	// FrameWriter.Write: Encode's error is returned before anything is written
	fwOK := false
	if fd := findFunc(frameFile, "FrameWriter", "Write"); fd != nil && fd.Body != nil && len(fd.Body.List) >= 3 {
		a, ok1 := fd.Body.List[0].(*ast.AssignStmt)
		i, ok2 := fd.Body.List[1].(*ast.IfStmt)
		if ok1 && ok2 && strings.HasSuffix(src(a.Rhs[0]), ".Encode()") && src(i.Cond) == "err != nil" {
			if rs, ok := i.Body.List[0].(*ast.ReturnStmt); ok && len(rs.Results) == 1 && src(rs.Results[0]) == "err" {
				fwOK = true
			}
		}
	}
	g.line("Definition gen_writer_encodes_first : bool := %s.", coqBool(fwOK))

	// every frame goes through one FrameWriter per connection: count the
	// NewFrameWriter calls outside package protocol and direct Write calls on
	// the control stream inside package peer
	writers, raw := 0, 0
	for _, dir := range []string{"internal/peer", "internal/agent", "internal/transport", "internal/flood", "internal/stream", "internal/exit", "internal/forward", "internal/shell", "internal/udp", "internal/icmp", "internal/health", "internal/socks5", "internal/sleep"} {
		for _, f := range parseDir(dir) {
			ast.Inspect(f, func(n ast.Node) bool {
				call, ok := n.(*ast.CallExpr)
				if !ok {
					return true
				}
				fn := src(call.Fun)
				if fn == "protocol.NewFrameWriter" {
					writers++
				}
				if dir == "internal/peer" && (strings.HasSuffix(fn, "controlStream.Write") || fn == "stream.Write") {
					raw++
				}
				return true
			})
		}
	}
	g.line("Definition gen_frame_writers_outside_protocol : N := %d.", writers)
	g.line("Definition gen_raw_stream_writes_in_peer : N := %d.", raw)

	// shell message framing: EncodeMessage allocates 1+len(payload)
	shellEnv := map[string]int64{}
	for k, v := range env {
		shellEnv[k] = v
	}
	for _, f := range parseDir("internal/shell") {
		c07Consts(f, "shell", shellEnv)
	}
	for k, v := range shellEnv {
		if strings.HasPrefix(k, "shell.") {
			shellEnv[strings.TrimPrefix(k, "shell.")] = v
		}
	}
	msgPre := int64(c07Bad)
	if fd := findFuncInDir("internal/shell", "", "EncodeMessage"); fd != nil && fd.Body != nil {
		ast.Inspect(fd.Body, func(n ast.Node) bool {
			if call, ok := n.(*ast.CallExpr); ok {
				if f, ok := call.Fun.(*ast.Ident); ok && f.Name == "make" && len(call.Args) == 2 {
					if v, ok := c07Eval(call.Args[1], shellEnv); ok {
						msgPre = v
					}
				}
			}
			return true
		})
	}
	encodeViaMessage := func(fn string) bool {
		fd := findFuncInDir("internal/shell", "", fn)
		if fd == nil || fd.Body == nil || len(fd.Body.List) != 1 {
			return false
		}
		rs, ok := fd.Body.List[0].(*ast.ReturnStmt)
		return ok && len(rs.Results) == 1 && strings.HasPrefix(src(rs.Results[0]), "EncodeMessage(")
	}
	shellPrefix := func(call *ast.CallExpr) (int64, bool) {
		switch src(call.Fun) {
		case "EncodeStdout", "EncodeStderr":
			if encodeViaMessage(src(call.Fun)) {
				return msgPre, true
			}
		case "encode":
			// pumpOutput's encoder parameter: every caller passes EncodeStdout / EncodeStderr
			if encodeViaMessage("EncodeStdout") && encodeViaMessage("EncodeStderr") {
				okCallers := true
				for _, fn := range []string{"pumpStdout", "pumpStderr"} {
					fd := findFuncInDir("internal/shell", "Handler", fn)
					if fd == nil || !(strings.Contains(src(fd.Body), "EncodeStdout)") || strings.Contains(src(fd.Body), "EncodeStderr)")) {
						okCallers = false
					}
				}
				if okCallers {
					return msgPre, true
				}
			}
		}
		return 0, false
	}
	noPrefix := func(call *ast.CallExpr) (int64, bool) { return 0, false }

	agentFile := parseFile("internal/agent/agent.go")
	type row = c07Row
	var rows []row
	add := func(name string, fd *ast.FuncDecl, e map[string]int64, pf func(*ast.CallExpr) (int64, bool)) {
		b, p, s := c07Path(g, name, fd, e, pf)
		rows = append(rows, row{name, b, p, s})
	}
	add("meshconn", findFunc(agentFile, "meshConn", "Write"), env, noPrefix)
	add("exit", findFuncInDir("internal/exit", "Handler", "readLoop"), env, noPrefix)
	add("forward", findFuncInDir("internal/forward", "Handler", "readLoop"), env, noPrefix)
	add("shellout", findFuncInDir("internal/shell", "Handler", "pumpOutput"), shellEnv, shellPrefix)
	add("shellpty", findFuncInDir("internal/shell", "Handler", "pumpPTYOutput"), shellEnv, shellPrefix)
	rows = append(rows, c07ShellIn(g, agentFile, env, msgPre, encodeViaMessage("EncodeStdin")))
	add("file-upload", findFunc(agentFile, "Agent", "streamFileContent"), env, noPrefix)
	add("file-download", findFunc(agentFile, "Agent", "sendFileDownload"), env, noPrefix)

	// Agent.WriteStreamData: "end := offset + STEP"
	wsdStep := int64(0)
	if fd := findFunc(agentFile, "Agent", "WriteStreamData"); fd != nil && fd.Body != nil {
		ast.Inspect(fd.Body, func(n ast.Node) bool {
			if as, ok := n.(*ast.AssignStmt); ok && len(as.Lhs) == 1 && len(as.Rhs) == 1 && src(as.Lhs[0]) == "end" && as.Tok == token.DEFINE {
				if be, ok := as.Rhs[0].(*ast.BinaryExpr); ok && be.Op == token.ADD {
					if v, ok := c07Eval(be.Y, env); ok {
						wsdStep = v
					}
				}
			}
			return true
		})
	}
	if wsdStep == 0 {
		g.note("Agent.WriteStreamData: chunk step not recognised")
	}
	g.line("Definition gen_wsd_step : N := %d.", wsdStep)

	// health.ShellStreamAdapter: capacity of the receive channel and the
	// drop-after-timeout branch of PushReceive
	adapterCap, adapterDrops := int64(0), false
	if fd := findFuncInDir("internal/health", "", "NewShellStreamAdapter"); fd != nil && fd.Body != nil {
		ast.Inspect(fd.Body, func(n ast.Node) bool {
			if kv, ok := n.(*ast.KeyValueExpr); ok && src(kv.Key) == "receive" {
				if call, ok := kv.Value.(*ast.CallExpr); ok && src(call.Fun) == "make" && len(call.Args) == 2 {
					if v, ok := c07Eval(call.Args[1], env); ok {
						adapterCap = v
					}
				}
			}
			return true
		})
	}
	if fd := findFuncInDir("internal/health", "ShellStreamAdapter", "PushReceive"); fd != nil && fd.Body != nil {
		ast.Inspect(fd.Body, func(n ast.Node) bool {
			if cc, ok := n.(*ast.CommClause); ok && cc.Comm != nil && strings.Contains(src(cc.Comm), "time.After(") && len(cc.Body) == 0 {
				adapterDrops = true
			}
			return true
		})
	}
	g.line("Definition gen_adapter_capacity : N := %d.", adapterCap)
	g.line("Definition gen_adapter_drops_when_full : bool := %s.", coqBool(adapterDrops))

	// stream.Stream.PushData blocks until there is room or the stream is closed:
	// its selects have no clause other than the buffer send, <-s.closed and the
	// default of the initial closed check (no timer, no context, no drop)
	pushBlocking := false
	if fd := findFuncInDir("internal/stream", "Stream", "PushData"); fd != nil && fd.Body != nil {
		pushBlocking = true
		sends := 0
		ast.Inspect(fd.Body, func(n ast.Node) bool {
			sel, ok := n.(*ast.SelectStmt)
			if !ok {
				return true
			}
			hasSend, hasDefault := false, false
			for _, c := range sel.Body.List {
				cc := c.(*ast.CommClause)
				switch {
				case cc.Comm == nil:
					hasDefault = true
				case strings.HasSuffix(strings.TrimSpace(src(cc.Comm)), "<-s.closed"):
				case strings.HasPrefix(src(cc.Comm), "s.readBuffer <-"):
					hasSend = true
					sends++
				default:
					pushBlocking = false
					g.note("PushData: select clause %q", src(cc.Comm))
				}
			}
			if hasSend && hasDefault {
				pushBlocking = false
			}
			return true
		})
		if sends != 1 {
			pushBlocking = false
		}
		if strings.Contains(src(fd.Body), "time.") {
			pushBlocking = false
		}
	}
	g.line("Definition gen_pushdata_blocks_until_room : bool := %s.", coqBool(pushBlocking))

	// shell.Handler.writeEncrypted: Encrypt and WriteStreamData happen inside one
	// writeMu critical section (Lock before both; Unlock deferred or after both)
	shellAtomic := false
	if fd := findFuncInDir("internal/shell", "Handler", "writeEncrypted"); fd != nil && fd.Body != nil {
		lock, enc, wsd, unlock, deferred := -1, -1, -1, -1, false
		for i, st := range fd.Body.List {
			t := src(st)
			switch {
			case strings.HasSuffix(strings.TrimSpace(t), "writeMu.Lock()") && lock < 0:
				lock = i
			case strings.HasPrefix(t, "defer ") && strings.Contains(t, "writeMu.Unlock()"):
				deferred = lock >= 0
			case strings.HasSuffix(strings.TrimSpace(t), "writeMu.Unlock()"):
				unlock = i
			}
			if strings.Contains(t, ".Encrypt(") && enc < 0 {
				enc = i
			}
			if strings.Contains(t, ".WriteStreamData(") && wsd < 0 {
				wsd = i
			}
		}
		shellAtomic = lock >= 0 && enc > lock && wsd > lock && (deferred && unlock < 0 || !deferred && unlock > wsd)
	}
	g.line("Definition gen_shell_seal_and_write_one_section : bool := %s.", coqBool(shellAtomic))

	// a stream is registered with its handler before its STREAM_OPEN_ACK is
	// written (first occurrence of the registration precedes the first ACK call)
	before := func(fd *ast.FuncDecl, first, then string) bool {
		if fd == nil || fd.Body == nil {
			return false
		}
		p1, p2 := token.NoPos, token.NoPos
		ast.Inspect(fd.Body, func(n ast.Node) bool {
			switch x := n.(type) {
			case *ast.AssignStmt:
				if p1 == token.NoPos && len(x.Lhs) == 1 && strings.Contains(src(x.Lhs[0]), first) {
					p1 = x.Pos()
				}
			case *ast.CallExpr:
				f := src(x.Fun)
				if p1 == token.NoPos && strings.HasSuffix(f, first) {
					p1 = x.Pos()
				}
				if p2 == token.NoPos && strings.HasSuffix(f, then) {
					p2 = x.Pos()
				}
			}
			return true
		})
		return p1 != token.NoPos && p2 != token.NoPos && p1 < p2
	}
	regRows := []struct {
		name string
		ok   bool
	}{
		{"exit.handleStreamOpenAsync", before(findFuncInDir("internal/exit", "Handler", "handleStreamOpenAsync"), "h.connections[streamID]", "WriteStreamOpenAck")},
		{"forward.handleStreamOpenAsync", before(findFuncInDir("internal/forward", "Handler", "handleStreamOpenAsync"), "h.connections[streamID]", "WriteStreamOpenAck")},
		{"agent.handleFileTransferStreamOpen", before(findFunc(agentFile, "Agent", "handleFileTransferStreamOpen"), "a.fileStreams[streamID]", "WriteStreamOpenAck")},
		{"agent.handleShellStreamOpen", before(findFunc(agentFile, "Agent", "handleShellStreamOpen"), "shellHandler.HandleStreamOpen", "WriteStreamOpenAck")},
	}
	var regItems []string
	for _, r := range regRows {
		regItems = append(regItems, fmt.Sprintf("(%s, %s)", coqString(r.name), coqBool(r.ok)))
	}

	// socks5 handleConnect clears BOTH deadlines of both connections before the relay
	socksClears := false
	if fd := findFuncInDir("internal/socks5", "Handler", "handleConnect"); fd != nil && fd.Body != nil {
		var cpos, tpos, rpos token.Pos
		ast.Inspect(fd.Body, func(n ast.Node) bool {
			if call, ok := n.(*ast.CallExpr); ok {
				t := src(call)
				switch {
				case t == "conn.SetDeadline(time.Time{})":
					cpos = call.Pos()
				case t == "target.SetDeadline(time.Time{})":
					tpos = call.Pos()
				case strings.HasPrefix(t, "relay("):
					rpos = call.Pos()
				}
			}
			return true
		})
		socksClears = cpos != token.NoPos && tpos != token.NoPos && rpos != token.NoPos && cpos < rpos && tpos < rpos
	}
	g.line("Definition gen_socks_connect_clears_both_deadlines : bool := %s.", coqBool(socksClears))

	var items []string
	for _, r := range rows {
		items = append(items, fmt.Sprintf("(%s, (%d, %d, %s))", coqString(r.name), r.buf, r.pre, coqBool(r.split)))
	}
	g.line("Open Scope string_scope.")
	g.line("Definition gen_registered_before_ack : list (string * bool) :=\n  [%s].", strings.Join(regItems, "; "))
	g.line("Definition gen_paths : list (string * (N * N * bool)) :=\n  [%s].", strings.Join(items, ";\n   "))
}
