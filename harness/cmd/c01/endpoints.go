package main

// Class "closed or keyless endpoints never hand back unauthenticated bytes
// as accepted": the per-tunnel wrappers around SessionKey (udp.Association and
// icmp.Session, the objects the exit-side handlers call Encrypt/Decrypt on)
// are given a real session key, exercised, closed, and exercised again. After
// Close every Decrypt and Encrypt must fail: Close drops the key, and a
// wrapper that then falls into its "no key -> pass through" branch would
// accept injected bytes and replays as plaintext.

import (
	"bytes"
	"fmt"
	"net"

	"github.com/postalsys/muti-metroo/internal/crypto"
	"github.com/postalsys/muti-metroo/internal/icmp"
	"github.com/postalsys/muti-metroo/internal/identity"
	"github.com/postalsys/muti-metroo/internal/udp"
	"github.com/postalsys/muti-metroo/verifharness/vh"
)

type cryptoEndpoint interface {
	Encrypt([]byte) ([]byte, error)
	Decrypt([]byte) ([]byte, error)
	SetSessionKey(*crypto.SessionKey)
	SetOpen()
	Close() error
}

func closedEndpoints(c *vh.Ctx) {
	peer, _ := identity.NewAgentID()
	mk := map[string]func() cryptoEndpoint{
		"udp.Association": func() cryptoEndpoint { return udp.NewAssociation(11, 22, peer) },
		"icmp.Session":    func() cryptoEndpoint { return icmp.NewSession(11, 22, peer, net.IPv4(127, 0, 0, 1)) },
	}
	for _, name := range []string{"udp.Association", "icmp.Session"} {
		for _, openFirst := range []bool{true, false} {
			rp := map[string]any{"kind": "closed-endpoint", "endpoint": name, "set_open": openFirst}
			ski, skr, err := newPair()
			if err != nil {
				return
			}
			ep := mk[name]()
			ep.SetSessionKey(skr)
			if openFirst {
				ep.SetOpen()
			}
			f0, _ := ski.Encrypt([]byte("first"))
			f1, _ := ski.Encrypt([]byte("second"))
			f2, _ := ski.Encrypt([]byte("third"))
			garbage := bytes.Repeat([]byte{0x5a}, 40)
			fail := func(sig, detail string) { c.Fail(sig, name+": "+detail, rp) }
			if p := vh.Recover(func() {
				// while open: authentic frames only
				if pt, err := ep.Decrypt(f0); err != nil || string(pt) != "first" {
					fail("open-endpoint-rejected-genuine", fmt.Sprintf("genuine frame not accepted while open: %v", err))
				}
				if pt, err := ep.Decrypt(garbage); err == nil {
					fail("open-endpoint-accepted-garbage", fmt.Sprintf("forged bytes accepted while open (%d bytes returned)", len(pt)))
				}
				if pt, err := ep.Decrypt(f0); err == nil {
					fail("open-endpoint-accepted-replay", fmt.Sprintf("replayed frame accepted while open (%q)", pt))
				}
				ep.Close()
				for what, in := range map[string][]byte{"forged bytes": garbage, "a replayed frame": f0, "the next genuine frame": f1, "a later genuine frame": f2, "an empty input": {}} {
					if pt, err := ep.Decrypt(in); err == nil {
						fail("closed-endpoint-accepted-input", fmt.Sprintf("after Close, Decrypt returned %d bytes and no error for %s (the closed endpoint passes unauthenticated input through as plaintext)", len(pt), what))
					}
				}
				if ct, err := ep.Encrypt([]byte("late")); err == nil {
					fail("closed-endpoint-sent-plaintext", fmt.Sprintf("after Close, Encrypt returned %d bytes and no error (payload would leave unencrypted)", len(ct)))
				}
			}); p != "" {
				fail("panic", p)
			}
			c.Case(fmt.Sprintf("closed-endpoint/%s/%v", name, openFirst), true, rp)
			c.Count("closed-endpoint:" + name)
		}
	}
}
