// c01: correspondence and monitor harness for C01 (end-to-end sessions accept
// only fresh, authentic messages from the other end).
//
// Implementation under test: crypto.SessionKey.Encrypt / Decrypt on a real
// pair of session keys derived through GenerateEphemeralKeypair / ComputeECDH /
// DeriveSessionKey. A case is an adversarial schedule: encrypt calls on both
// ends interleaved with deliveries of genuine, reordered, duplicated,
// reflected, bit-flipped, re-numbered, truncated and forged frames, with
// counters started anywhere in [0, 2^64) through the verif-only accessor.
package main

import (
	"bytes"
	"encoding/binary"
	"encoding/hex"
	"fmt"
	"strings"
	"sync"

	"github.com/postalsys/muti-metroo/internal/crypto"
	"github.com/postalsys/muti-metroo/verifharness/cryptomesh"
	"github.com/postalsys/muti-metroo/verifharness/vh"
)

const (
	maxU64 = ^uint64(0)
)

// ---------------------------------------------------------------------------
// symbolic schedules (this is also the replay format)

type FrameSpec struct {
	Base       int    `json:"base"`                  // index of an emitted frame, -1 = forged from nothing
	SetPrefix  string `json:"set_prefix,omitempty"`  // 8 hex digits: overwrite nonce bytes 0..3
	SetCounter *U64   `json:"set_counter,omitempty"` // overwrite nonce bytes 4..11
	FlipOff    int    `json:"flip_off"`              // byte offset to flip a bit at; -1 none; counted from the end if <= -2 (-2 = last byte)
	FlipBit    int    `json:"flip_bit"`
	Trunc      int    `json:"trunc"`                // keep only this many bytes; -1 = all
	ForgeBody  string `json:"forge_body,omitempty"` // hex body for forged frames (after the 12 nonce bytes)
	ForgeShort int    `json:"forge_short"`          // if >0: forged frame is only this many bytes long in total (<12 allowed)
}

// U64 is marshalled as a decimal string (JSON numbers lose precision in some tools).
type U64 uint64

func (u U64) MarshalJSON() ([]byte, error) { return []byte(fmt.Sprintf("\"%d\"", uint64(u))), nil }
func (u *U64) UnmarshalJSON(b []byte) error {
	s := strings.Trim(string(b), "\"")
	var v uint64
	if _, err := fmt.Sscan(s, &v); err != nil {
		return err
	}
	*u = U64(v)
	return nil
}

type Event struct {
	Kind   string     `json:"kind"` // "enc" | "deliver" | "skip" (sender's counter moves forward to SkipTo: frames lost in between)
	SkipTo *U64       `json:"skip_to,omitempty"`
	Side   string     `json:"side"` // acting endpoint: sender for enc, receiver for deliver ("I" | "R")
	PLen   int        `json:"plen,omitempty"`
	Frame  *FrameSpec `json:"frame,omitempty"`
}

type Schedule struct {
	Name   string  `json:"name"`
	ISend  U64     `json:"i_send"`
	IRecv  U64     `json:"i_recv"`
	RSend  U64     `json:"r_send"`
	RRecv  U64     `json:"r_recv"`
	Events []Event `json:"events"`
}

// ---------------------------------------------------------------------------
// running a schedule on the real code

type emitted struct {
	side  string
	frame []byte
	pid   int
	plain []byte
}

type obs struct {
	// enc: nonce; deliver: header, body class, length
	isEnc    bool
	isSkip   bool
	side     string
	nonceHex string // enc
	pid      int
	hdrHex   string // deliver: first min(12,len) bytes
	sealedN  string // deliver: "" = garbage, else nonce hex of the genuine frame whose body this is
	sealedP  int
	sealedL  int
	flen     int
	outcome  string // "enc" | "accept" | "short" | "old" | "dir" | "exhausted" | "auth" | "other:<msg>"
	accPid   int
	send     uint64
	recv     uint64
}

func plaintextFor(pid, plen int) []byte {
	b := make([]byte, plen)
	for i := range b {
		b[i] = byte(pid*31 + i*7 + 1)
	}
	return b
}

func newPair() (*crypto.SessionKey, *crypto.SessionKey, error) {
	privA, pubA, err := crypto.GenerateEphemeralKeypair()
	if err != nil {
		return nil, nil, err
	}
	privB, pubB, err := crypto.GenerateEphemeralKeypair()
	if err != nil {
		return nil, nil, err
	}
	sa, err := crypto.ComputeECDH(privA, pubB)
	if err != nil {
		return nil, nil, err
	}
	sb, err := crypto.ComputeECDH(privB, pubA)
	if err != nil {
		return nil, nil, err
	}
	return crypto.DeriveSessionKey(sa, 7, pubA, pubB, true), crypto.DeriveSessionKey(sb, 7, pubA, pubB, false), nil
}

func classify(err error) string {
	if err == nil {
		return "accept"
	}
	m := err.Error()
	switch {
	case strings.HasPrefix(m, "ciphertext too short"):
		return "short"
	case strings.HasPrefix(m, "nonce too old"):
		return "old"
	case strings.HasPrefix(m, "nonce direction mismatch"):
		return "dir"
	case strings.HasPrefix(m, "nonce counter exhausted"):
		return "exhausted"
	case strings.HasPrefix(m, "decrypt:"):
		return "auth"
	}
	return "reject:" + m
}

func buildFrame(fs *FrameSpec, em []emitted) []byte {
	var f []byte
	if fs.Base >= 0 && fs.Base < len(em) {
		f = append([]byte(nil), em[fs.Base].frame...)
	} else {
		body, _ := hex.DecodeString(fs.ForgeBody)
		f = make([]byte, 12, 12+len(body))
		f = append(f, body...)
	}
	if fs.SetPrefix != "" && len(f) >= 4 {
		p, _ := hex.DecodeString(fs.SetPrefix)
		copy(f[0:4], p)
	}
	if fs.SetCounter != nil && len(f) >= 12 {
		binary.BigEndian.PutUint64(f[4:12], uint64(*fs.SetCounter))
	}
	if fs.FlipOff != -1 && len(f) > 0 {
		off := fs.FlipOff
		if off <= -2 {
			off = len(f) + off + 1
		}
		if off >= 0 && off < len(f) {
			f[off] ^= 1 << uint(fs.FlipBit&7)
		}
	}
	if fs.Trunc >= 0 && fs.Trunc < len(f) {
		f = f[:fs.Trunc]
	}
	if fs.ForgeShort > 0 && fs.ForgeShort < len(f) {
		f = f[:fs.ForgeShort]
	}
	return f
}

type runResult struct {
	obs      []obs
	accepts  int
	rejects  int
	panicked string
}

// run executes the schedule and evaluates the property's own text on what the
// implementation did (no model involved).
func run(c *vh.Ctx, s *Schedule, monitor bool) runResult {
	var rr runResult
	ski, skr, err := newPair()
	if err != nil {
		rr.panicked = "key setup: " + err.Error()
		return rr
	}
	ski.VerifSetCounters(uint64(s.ISend), uint64(s.IRecv))
	skr.VerifSetCounters(uint64(s.RSend), uint64(s.RRecv))
	key := map[string]*crypto.SessionKey{"I": ski, "R": skr}
	other := map[string]string{"I": "R", "R": "I"}
	var em []emitted
	bodyOf := map[string]int{} // body bytes -> emitted index (genuine AEAD outputs)
	lastAccepted := map[string]int{"I": -1, "R": -1}
	acceptedSet := map[string]map[int]bool{"I": {}, "R": {}}
	fail := func(sig, detail string) {
		if monitor {
			c.Fail(sig, detail, s)
		}
	}
	for ei, ev := range s.Events {
		sk := key[ev.Side]
		switch ev.Kind {
		case "skip":
			sn, rn := sk.VerifCounters()
			to := sn
			if ev.SkipTo != nil && uint64(*ev.SkipTo) > sn {
				to = uint64(*ev.SkipTo)
			}
			sk.VerifSetCounters(to, rn)
			rr.obs = append(rr.obs, obs{isSkip: true, side: ev.Side, outcome: "skip", send: to, recv: rn})
		case "enc":
			pid := len(em)
			pt := plaintextFor(pid, ev.PLen)
			var ct []byte
			var eerr error
			if p := vh.Recover(func() { ct, eerr = sk.Encrypt(pt) }); p != "" {
				rr.panicked = "Encrypt panicked: " + p
				fail("panic", rr.panicked)
				return rr
			}
			if eerr != nil || len(ct) < 28 {
				rr.panicked = fmt.Sprintf("Encrypt failed: %v", eerr)
				fail("encrypt-error", rr.panicked)
				return rr
			}
			em = append(em, emitted{side: ev.Side, frame: ct, pid: pid, plain: pt})
			bodyOf[string(ct[12:])] = pid
			sn, rn := sk.VerifCounters()
			rr.obs = append(rr.obs, obs{isEnc: true, side: ev.Side, nonceHex: hex.EncodeToString(ct[:12]), pid: pid, flen: len(ct), outcome: "enc", send: sn, recv: rn})
		case "deliver":
			f := buildFrame(ev.Frame, em)
			s0, r0 := sk.VerifCounters()
			var pt []byte
			var derr error
			in := append([]byte(nil), f...)
			if p := vh.Recover(func() { pt, derr = sk.Decrypt(in) }); p != "" {
				rr.panicked = "Decrypt panicked: " + p
				fail("panic", fmt.Sprintf("event %d: %s", ei, rr.panicked))
				return rr
			}
			s1, r1 := sk.VerifCounters()
			o := obs{side: ev.Side, flen: len(f), outcome: classify(derr), send: s1, recv: r1, accPid: -1}
			if len(f) >= 12 {
				o.hdrHex = hex.EncodeToString(f[:12])
				if idx, ok := bodyOf[string(f[12:])]; ok {
					o.sealedN = hex.EncodeToString(em[idx].frame[:12])
					o.sealedP = idx
					o.sealedL = len(em[idx].plain)
				}
			} else {
				o.hdrHex = hex.EncodeToString(f)
			}
			// ---- monitor: the property's own text --------------------------------
			if derr == nil {
				rr.accepts++
				src := -1
				for i := range em {
					if bytes.Equal(em[i].frame, f) {
						src = i
						break
					}
				}
				switch {
				case src < 0:
					fail("accepted-frame-nobody-produced", fmt.Sprintf("event %d: endpoint %s accepted a frame that neither endpoint emitted (%s)", ei, ev.Side, o.hdrHex))
				case em[src].side == ev.Side:
					fail("accepted-own-frame-reflected", fmt.Sprintf("event %d: endpoint %s accepted its own ciphertext (frame %d, nonce %s) reflected back to it", ei, ev.Side, src, o.hdrHex))
				case !bytes.Equal(pt, em[src].plain):
					fail("accepted-wrong-plaintext", fmt.Sprintf("event %d: plaintext differs from what the other end sealed in frame %d", ei, src))
				default:
					if acceptedSet[ev.Side][src] {
						fail("accepted-replay", fmt.Sprintf("event %d: endpoint %s accepted frame %d (nonce %s) a second time", ei, ev.Side, src, o.hdrHex))
					} else if src < lastAccepted[ev.Side] {
						fail("accepted-out-of-send-order", fmt.Sprintf("event %d: endpoint %s accepted frame %d after frame %d", ei, ev.Side, src, lastAccepted[ev.Side]))
					}
				}
				if src >= 0 {
					o.accPid = src
					if em[src].side == other[ev.Side] {
						acceptedSet[ev.Side][src] = true
						if src > lastAccepted[ev.Side] {
							lastAccepted[ev.Side] = src
						}
					}
				}
			} else {
				rr.rejects++
				if s1 != s0 || r1 != r0 {
					fail("rejected-input-changed-window", fmt.Sprintf("event %d: endpoint %s rejected the frame (%v) but its receive counter moved %d -> %d (nonce %s)", ei, ev.Side, derr, r0, r1, o.hdrHex))
				}
			}
			if !bytes.Equal(in, f) {
				fail("decrypt-modified-input", fmt.Sprintf("event %d: Decrypt wrote into its input", ei))
			}
			rr.obs = append(rr.obs, o)
		}
	}
	return rr
}

// ---------------------------------------------------------------------------
// Gallina rendering

func coqSide(s string) string {
	if s == "I" {
		return "Ini"
	}
	return "Res"
}

// preCtr renders a 12-byte nonce (hex) as "<prefix> <counter>".
func preCtr(nonceHex string) string {
	b, _ := hex.DecodeString(nonceHex)
	if len(b) < 12 {
		return "0 0"
	}
	return fmt.Sprintf("%d %d", binary.BigEndian.Uint32(b[:4]), binary.BigEndian.Uint64(b[4:12]))
}

func coqOutcome(o obs) string {
	switch o.outcome {
	case "skip":
		return "OSkip"
	case "enc":
		return "(OEnc " + preCtr(o.nonceHex) + ")"
	case "accept":
		return fmt.Sprintf("(OAccept %d)", o.accPid)
	case "short":
		return "OShort"
	case "old":
		return "OOld"
	case "dir":
		return "ODir"
	case "exhausted":
		return "OExhausted"
	case "auth":
		return "OAuth"
	}
	if strings.HasPrefix(o.outcome, "reject:") {
		return "OReject"
	}
	return "OOther"
}

func coqCase(s *Schedule, rr runResult) string {
	var evs, outs []string
	for _, o := range rr.obs {
		if o.isSkip {
			evs = append(evs, fmt.Sprintf("XSkip %s %d", coqSide(o.side), o.send))
		} else if o.isEnc {
			evs = append(evs, fmt.Sprintf("XEnc %s %d %d", coqSide(o.side), o.pid, o.flen-28))
		} else {
			body := "XGarbage"
			if o.sealedN != "" {
				body = fmt.Sprintf("(XSealed %s %d %d)", preCtr(o.sealedN), o.sealedP, o.sealedL)
			}
			evs = append(evs, fmt.Sprintf("XDeliver %s %d %s %s %d", coqSide(o.side), len(o.hdrHex)/2, preCtr(o.hdrHex), body, o.flen))
		}
		outs = append(outs, fmt.Sprintf("(%s, %d, %d)", coqOutcome(o), o.send, o.recv))
	}
	return fmt.Sprintf("mkxcase %d %d %d %d\n  %s\n  %s", uint64(s.ISend), uint64(s.IRecv), uint64(s.RSend), uint64(s.RRecv),
		vh.CoqList(evs), vh.CoqList(outs))
}

// ---------------------------------------------------------------------------
// generators

var boundary = []uint64{0, 1, 2, 1<<32 - 1, 1 << 32, 1<<63 - 1, 1 << 63, 1<<63 + 1, maxU64 - 2, maxU64 - 1, maxU64}

func u64p(v uint64) *U64 { u := U64(v); return &u }

func fixedWitnesses() []*Schedule {
	enc := func(side string, plen int) Event { return Event{Kind: "enc", Side: side, PLen: plen} }
	gen := func(to string, base int) Event {
		return Event{Kind: "deliver", Side: to, Frame: &FrameSpec{Base: base, FlipOff: -1, Trunc: -1}}
	}
	forge := func(to, prefix string, ctr uint64, body string) Event {
		return Event{Kind: "deliver", Side: to, Frame: &FrameSpec{Base: -1, SetPrefix: prefix, SetCounter: u64p(ctr), FlipOff: -1, Trunc: -1, ForgeBody: body}}
	}
	garbage := strings.Repeat("5a", 24)
	return []*Schedule{
		{Name: "honest-both-directions", Events: []Event{enc("I", 5), enc("R", 0), enc("I", 64), gen("R", 0), gen("I", 1), gen("R", 2)}},
		{Name: "witness-reflect-initiator", Events: []Event{enc("I", 9), gen("I", 0)}},
		{Name: "witness-reflect-responder", Events: []Event{enc("R", 9), gen("R", 0)}},
		{Name: "witness-poison-wrap-then-replay", Events: []Event{enc("I", 4), enc("I", 4), gen("R", 0), gen("R", 1),
			forge("R", "00000000", maxU64, garbage), gen("R", 0), gen("R", 1)}},
		{Name: "witness-poison-2^63-blocks-genuine", Events: []Event{enc("I", 4), forge("R", "00000000", 1<<63, garbage), gen("R", 0)}},
		{Name: "witness-tampered-future-frame-kills-genuine", Events: []Event{enc("I", 4), enc("I", 4),
			{Kind: "deliver", Side: "R", Frame: &FrameSpec{Base: 1, FlipOff: 14, FlipBit: 0, Trunc: -1}}, gen("R", 0), gen("R", 1)}},
		{Name: "replay-and-reorder", Events: []Event{enc("I", 3), enc("I", 3), enc("I", 3), gen("R", 1), gen("R", 0), gen("R", 1), gen("R", 2), gen("R", 2)}},
		{Name: "genuine-last-counter", ISend: U64(maxU64 - 1), RRecv: U64(maxU64 - 1), Events: []Event{enc("I", 1), enc("I", 1), gen("R", 0), gen("R", 1), gen("R", 0), gen("R", 1)}},
		{Name: "witness-old-frame-after-2^63-gap", Events: []Event{enc("I", 2), gen("R", 0),
			{Kind: "skip", Side: "I", SkipTo: u64p(1 << 62)}, enc("I", 2), gen("R", 1),
			{Kind: "skip", Side: "I", SkipTo: u64p(1<<63 + 10)}, enc("I", 2), gen("R", 2), gen("R", 0), gen("R", 1),
			{Kind: "skip", Side: "I", SkipTo: u64p(maxU64 - 1)}, enc("I", 2), gen("R", 3), gen("R", 0), gen("R", 1), gen("R", 2)}},
		{Name: "short-frames", Events: []Event{enc("I", 0), {Kind: "deliver", Side: "R", Frame: &FrameSpec{Base: 0, FlipOff: -1, Trunc: 27}},
			{Kind: "deliver", Side: "R", Frame: &FrameSpec{Base: 0, FlipOff: -1, Trunc: 11}},
			{Kind: "deliver", Side: "R", Frame: &FrameSpec{Base: 0, FlipOff: -1, Trunc: 0}}, gen("R", 0)}},
	}
}

func genSchedule(r *vh.Rand, n int) *Schedule {
	s := &Schedule{Name: "random"}
	// start counters
	switch r.Intn(10) {
	case 0, 1, 2, 3, 4, 5:
	case 6, 7:
		// consistent session that has already run for a while
		a := r.PickU64(boundary...)
		b := r.PickU64(boundary...)
		s.ISend, s.RRecv = U64(a), U64(a)
		s.RSend, s.IRecv = U64(b), U64(b)
	default:
		s.ISend, s.IRecv, s.RSend, s.RRecv = U64(r.PickU64(boundary...)), U64(r.PickU64(boundary...)), U64(r.PickU64(boundary...)), U64(r.PickU64(boundary...))
	}
	// how many more frames each side may seal before its counter would wrap
	// (the property's "fewer than 2^64 sends per side")
	room := map[string]uint64{"I": maxU64 - uint64(s.ISend), "R": maxU64 - uint64(s.RSend)}
	used := map[string]uint64{"I": 0, "R": 0}
	skipped := map[string]uint64{"I": 0, "R": 0}
	var emSide []string
	next := map[string]int{"I": 0, "R": 0} // next emitted index not yet delivered in order, per receiver
	sides := []string{"I", "R"}
	other := map[string]string{"I": "R", "R": "I"}
	for len(s.Events) < n {
		k := r.Intn(100)
		side := sides[r.Intn(2)]
		if len(emSide) == 0 && k >= 25 && k < 85 {
			k = 0
		}
		if k < 25 && r.Chance(1, 12) && used[side] <= room[side] {
			// the sender jumps ahead (frames sent and lost): gaps of 2^63 and more
			cur := uint64(0)
			if side == "I" {
				cur = uint64(s.ISend)
			} else {
				cur = uint64(s.RSend)
			}
			cur += used[side] + skipped[side]
			jump := r.PickU64(1, 1<<32, 1<<62, 1<<62+1, 1<<63-1, 1<<63, 1<<63+1)
			if cur+jump > cur && cur+jump < maxU64-64 {
				skipped[side] += jump
				room[side] -= jump
				s.Events = append(s.Events, Event{Kind: "skip", Side: side, SkipTo: u64p(cur + jump)})
			}
			continue
		}
		switch {
		case k < 25: // encrypt
			if used[side] > room[side] {
				continue
			}
			used[side]++
			s.Events = append(s.Events, Event{Kind: "enc", Side: side, PLen: r.Pick(0, 1, 5, 16, 64, 300)})
			emSide = append(emSide, side)
		case k < 50: // genuine, in order, to the right receiver
			idx := -1
			for i := next[side]; i < len(emSide); i++ {
				if emSide[i] == other[side] {
					idx = i
					break
				}
			}
			if idx < 0 {
				continue
			}
			if r.Chance(1, 6) { // skip one (drop)
				next[side] = idx + 1
				continue
			}
			next[side] = idx + 1
			s.Events = append(s.Events, Event{Kind: "deliver", Side: side, Frame: &FrameSpec{Base: idx, FlipOff: -1, Trunc: -1}})
		case k < 62: // any emitted frame to any endpoint: duplicate, reorder, reflect
			idx := r.Intn(len(emSide))
			s.Events = append(s.Events, Event{Kind: "deliver", Side: side, Frame: &FrameSpec{Base: idx, FlipOff: -1, Trunc: -1}})
		case k < 78: // mutate a genuine frame
			idx := r.Intn(len(emSide))
			fs := &FrameSpec{Base: idx, FlipOff: -1, Trunc: -1}
			switch r.Intn(7) {
			case 0:
				fs.FlipOff, fs.FlipBit = 0, 7 // the direction bit itself
			case 1:
				fs.FlipOff, fs.FlipBit = r.Intn(4), r.Intn(8)
			case 2:
				fs.FlipOff, fs.FlipBit = 4+r.Intn(8), r.Intn(8)
			case 3:
				fs.FlipOff, fs.FlipBit = 12+r.Intn(4), r.Intn(8)
			case 4:
				fs.FlipOff, fs.FlipBit = -2-r.Intn(16), r.Intn(8) // tag
			case 5:
				fs.SetCounter = u64p(r.PickU64(boundary...))
			case 6:
				fs.SetPrefix = []string{"00000000", "80000000", "00000001", "80000001", "ffffffff"}[r.Intn(5)]
			}
			s.Events = append(s.Events, Event{Kind: "deliver", Side: side, Frame: fs})
		case k < 85: // truncate
			idx := r.Intn(len(emSide))
			s.Events = append(s.Events, Event{Kind: "deliver", Side: side, Frame: &FrameSpec{Base: idx, FlipOff: -1, Trunc: r.Pick(0, 1, 11, 12, 27, 28, 29)}})
		default: // forge
			fs := &FrameSpec{Base: -1, FlipOff: -1, Trunc: -1}
			fs.SetPrefix = []string{"00000000", "80000000", "80000000", "00000000", "7f000000"}[r.Intn(5)]
			fs.SetCounter = u64p(r.PickU64(boundary...))
			fs.ForgeBody = hex.EncodeToString(r.Bytes(r.Pick(0, 15, 16, 17, 40)))
			if r.Chance(1, 8) {
				fs.ForgeShort = r.Pick(1, 4, 11, 12, 27)
			}
			s.Events = append(s.Events, Event{Kind: "deliver", Side: side, Frame: fs})
		}
	}
	return s
}

// concurrentDeliveries: the same genuine frames are handed to one endpoint by
// several goroutines at once (a relay duplicating traffic over parallel
// paths); each frame may be accepted at most once, and accepted counters must
// respect the window. Monitor only (the schedule is not deterministic).
func concurrentDeliveries(c *vh.Ctx) {
	rounds := c.N(80, 3000)
	for round := 0; round < rounds; round++ {
		ski, skr, err := newPair()
		if err != nil {
			return
		}
		const frames = 3
		var fs [][]byte
		big := make([]byte, 48*1024) // a long AEAD open widens the gap between the window check and its update
		for i := 0; i < frames; i++ {
			big[0] = byte(i)
			ct, _ := ski.Encrypt(big)
			fs = append(fs, ct)
		}
		const g = 8
		accepted := make([][]int, g)
		var wg sync.WaitGroup
		start := make(chan struct{})
		for w := 0; w < g; w++ {
			wg.Add(1)
			go func(w int) {
				defer wg.Done()
				<-start
				for i := 0; i < frames; i++ {
					if _, err := skr.Decrypt(fs[i]); err == nil {
						accepted[w] = append(accepted[w], i)
					}
				}
			}(w)
		}
		close(start)
		wg.Wait()
		count := map[int]int{}
		for _, a := range accepted {
			for _, i := range a {
				count[i]++
			}
		}
		rp := map[string]any{"kind": "concurrent-duplicate-delivery", "frames": frames, "goroutines": g, "round": round}
		for i, n := range count {
			if n > 1 {
				c.Fail("accepted-replay-concurrent", fmt.Sprintf("frame %d was accepted %d times when delivered by %d goroutines at once", i, n, g), rp)
			}
		}
		_, rn := skr.VerifCounters()
		if rn > frames {
			c.Fail("window-beyond-sent", fmt.Sprintf("receive counter %d after only %d frames were sent", rn, frames), rp)
		}
		c.Case(fmt.Sprintf("concurrent/%d", round), len(count) > 0, rp)
		c.Count("concurrent-duplicate-delivery")
	}
}

func main() {
	c := vh.Start("C01")
	defer c.Finish()
	if cryptomesh.IsChild() {
		icmpAckReplay(c)
		return
	}
	c.Res.Rule = "case = one adversarial schedule (encrypts on both ends + deliveries of genuine/reordered/duplicated/reflected/bit-flipped/re-numbered/truncated/forged frames, start counters anywhere) run on a real crypto.SessionKey pair; " +
		"per event the outcome class, accepted frame and (send,recv) counters are compared with the model; non-trivial = at least one accept and one reject; distinct = distinct symbolic schedules"

	var coq []string
	do := func(s *Schedule) {
		rr := run(c, s, true)
		key := fmt.Sprintf("%v", *s)
		b := new(strings.Builder)
		fmt.Fprintf(b, "%d/%d/%d/%d", s.ISend, s.IRecv, s.RSend, s.RRecv)
		for _, e := range s.Events {
			fmt.Fprintf(b, "|%s%s%d", e.Kind, e.Side, e.PLen)
			if e.Frame != nil {
				fmt.Fprintf(b, "%+v", *e.Frame)
				if e.Frame.SetCounter != nil {
					fmt.Fprintf(b, "c%d", *e.Frame.SetCounter)
				}
			}
		}
		key = b.String()
		c.Case(key, rr.accepts > 0 && rr.rejects > 0, s)
		if rr.panicked != "" {
			c.Count("aborted")
		}
		for _, o := range rr.obs {
			c.Count("outcome:" + strings.SplitN(o.outcome, ":", 2)[0])
		}
		c.Count(fmt.Sprintf("events:%d", (len(s.Events)+9)/10*10))
		coq = append(coq, coqCase(s, rr))
	}

	if c.Replay != "" {
		var probe struct {
			Kind string `json:"kind"`
		}
		c.ReadReplay(&probe)
		switch probe.Kind {
		case "closed-endpoint":
			closedEndpoints(c)
		case "replayed-open", "udp-open-race":
			replayedOpens(c, vh.NewRand(int64(c.Seed)+5))
		case "icmp-ack-replay":
			icmpAckReplay(c)
		case "concurrent-duplicate-delivery":
			concurrentDeliveries(c)
		default:
			var s Schedule
			if err := c.ReadReplay(&s); err != nil {
				panic(err)
			}
			do(&s)
		}
	} else {
		for _, s := range fixedWitnesses() {
			do(s)
			c.Count("fixed-witness")
		}
		// vh.NewRand gives overlapping streams for neighbouring seeds; re-key
		root := vh.NewRand(int64(uint64(c.Seed)*0xD1342543DE82EF95 + 0x632BE59BD9B4E019))
		n := c.N(240, 5000)
		for i := 0; i < n; i++ {
			r := root.Fork()
			do(genSchedule(r, r.Pick(4, 8, 16, 30, 45)))
		}
	}

	if c.Replay == "" {
		concurrentDeliveries(c)
		closedEndpoints(c)
		cryptomesh.Run(c, func() { icmpAckReplay(c) })
		replayedOpens(c, vh.NewRand(int64(uint64(c.Seed)*0x9E3779B97F4A7C15+77)))
	}

	var sb strings.Builder
	sb.WriteString("From Coq Require Import List NArith String.\nFrom MM Require Import Lib.Bytes Model.Session.\nImport ListNotations.\nLocal Open Scope N_scope.\nLocal Open Scope string_scope.\n")
	sb.WriteString("Definition cases : list xcase := \n" + vh.CoqList(coq) + ".\n")
	sb.WriteString("Definition M := Eval vm_compute in mismatches cases.\nPrint M.\n")
	c.WriteCasesV("cases.v", sb.String())
}
