package main

// Two classes at the responder (exit) side of every tunnel kind:
//
//  1. a replayed open: a relay records one session (STREAM_OPEN with its
//     request id and initiator ephemeral key, then the data frames) and plays
//     it again as a second open. Nothing from the recording may be accepted by
//     the second session — the responder must use a FRESH ephemeral keypair
//     per open, so the second session has another key.
//
//  2. an endpoint never accepts unauthenticated input on a session that
//     negotiates a key: a plaintext UDP_DATAGRAM dispatched concurrently with
//     its own UDP_OPEN (non-zero ephemeral key) must be refused at every
//     moment of the open.

import (
	"context"
	"fmt"
	"net"
	"sync"
	"sync/atomic"

	"github.com/postalsys/muti-metroo/internal/crypto"
	"github.com/postalsys/muti-metroo/internal/protocol"
	"github.com/postalsys/muti-metroo/verifharness/cryptoresp"
	"github.com/postalsys/muti-metroo/verifharness/vh"
)

func replayedOpens(c *vh.Ctx, root *vh.Rand) {
	r, err := cryptoresp.New()
	if err != nil {
		c.Note("responder scenarios skipped (environment): %v", err)
		return
	}
	defer r.Close()
	for _, e := range cryptoresp.Entries() {
		for round := 0; round < c.N(2, 25); round++ {
			rp := map[string]any{"kind": "replayed-open", "tunnel": e.Kind, "fn": e.Fn}
			priv, pub, _ := crypto.GenerateEphemeralKeypair()
			id := root.U64()
			var res1, res2 cryptoresp.Result
			if p := vh.Recover(func() { res1 = e.Open(r, id, pub) }); p != "" {
				c.Fail("panic", e.Kind+" open panicked: "+p, rp)
				continue
			}
			if res1.Outcome != cryptoresp.OutKeyed {
				c.Note("replayed-open %s: first open not keyed (%s)", e.Kind, res1.Detail)
				continue
			}
			ss, err := crypto.ComputeECDH(priv, res1.Pub)
			if err != nil {
				continue
			}
			ik := crypto.DeriveSessionKey(ss, id, pub, res1.Pub, true)
			var frames [][]byte
			for i := 0; i < 3; i++ {
				ct, _ := ik.Encrypt([]byte(fmt.Sprintf("recorded-command-%d", i)))
				frames = append(frames, ct)
			}
			// the first session runs: its first two frames are delivered
			for i := 0; i < 2; i++ {
				if _, err := res1.Key.Decrypt(frames[i]); err != nil {
					c.Fail("responder-rejected-genuine-frame", fmt.Sprintf("%s.%s: the session's own frame %d is not accepted: %v", e.Kind, e.Fn, i, err), rp)
				}
			}
			// the relay replays the open ...
			if p := vh.Recover(func() { res2 = e.Open(r, id, pub) }); p != "" {
				c.Fail("panic", e.Kind+" replayed open panicked: "+p, rp)
				continue
			}
			accepted := 0
			if res2.Outcome == cryptoresp.OutKeyed {
				// ... and then the recorded data frames
				for _, f := range frames {
					if _, err := res2.Key.Decrypt(f); err == nil {
						accepted++
					}
				}
			}
			if accepted > 0 || (res2.Outcome == cryptoresp.OutKeyed && res2.Pub == res1.Pub) {
				c.Fail("replayed-open-accepts-recorded-frames", fmt.Sprintf("%s responder (%s): a replayed open (same request id %d and initiator ephemeral key) gets a session under which %d of the 3 recorded data frames of the first session are accepted again (responder ephemeral key reused: %v)", e.Kind, e.Fn, id, accepted, res2.Pub == res1.Pub), rp)
			}
			c.Case(fmt.Sprintf("replayed-open/%s/%d", e.Kind, round), true, rp)
			c.Count("replayed-open:" + e.Kind)
		}
	}

	// ---- plaintext datagram racing its own UDP_OPEN ----
	h, peer := r.UDP()
	sink, err := net.ListenUDP("udp", &net.UDPAddr{IP: net.IPv4(127, 0, 0, 1)})
	if err != nil {
		return
	}
	defer sink.Close()
	var reached atomic.Int64
	go func() {
		buf := make([]byte, 256)
		for {
			n, _, err := sink.ReadFromUDP(buf)
			if err != nil {
				return
			}
			if string(buf[:n]) == "plaintext-injected-during-open" {
				reached.Add(1)
			}
		}
	}()
	port := uint16(sink.LocalAddr().(*net.UDPAddr).Port)
	rounds := c.N(150, 2000)
	acceptedTotal := 0
	for round := 0; round < rounds; round++ {
		sid := r.NextStreamID()
		_, pub, _ := crypto.GenerateEphemeralKeypair()
		dg := &protocol.UDPDatagram{AddressType: protocol.AddrTypeIPv4, Address: []byte{127, 0, 0, 1}, Port: port, Data: []byte("plaintext-injected-during-open")}
		var done atomic.Bool
		var wg sync.WaitGroup
		accepted := 0
		start := make(chan struct{})
		wg.Add(2)
		go func() {
			defer wg.Done()
			<-start
			vh.Recover(func() {
				h.HandleUDPOpen(context.Background(), peer, sid, &protocol.UDPOpen{RequestID: uint64(round) + 77000, AddressType: protocol.AddrTypeIPv4, Address: []byte{0, 0, 0, 0}, TTL: 4}, pub)
			})
			done.Store(true)
		}()
		go func() {
			defer wg.Done()
			<-start
			for !done.Load() {
				vh.Recover(func() {
					if err := h.HandleUDPDatagram(peer, sid, dg); err == nil {
						accepted++
					}
				})
			}
		}()
		close(start)
		wg.Wait()
		// once the open has completed with a key, plaintext must be refused too
		if err := h.HandleUDPDatagram(peer, sid, dg); err == nil {
			accepted++
		}
		h.HandleUDPClose(peer, sid)
		acceptedTotal += accepted
		if accepted > 0 {
			c.Fail("plaintext-accepted-while-key-exchange-pending", fmt.Sprintf("udp exit: %d plaintext UDP_DATAGRAM(s) for stream %d were accepted and forwarded while the UDP_OPEN of the same stream (non-zero ephemeral key, i.e. an encrypted session) was being processed (%d reached the destination socket so far)", accepted, sid, reached.Load()), map[string]any{"kind": "udp-open-race"})
		}
	}
	c.Case("udp-open-race", true, map[string]any{"kind": "udp-open-race"})
	c.Count("udp-open-race-rounds")
	if acceptedTotal == 0 && reached.Load() > 0 {
		c.Fail("plaintext-reached-destination", "a plaintext datagram reached the destination although every HandleUDPDatagram call returned an error", map[string]any{"kind": "udp-open-race"})
	}
}
