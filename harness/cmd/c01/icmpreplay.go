package main

// ICMP_OPEN_ACK replay on both ingress paths (SOCKS5 association and the
// WebSocket / CLI ping session) of a live agent, with the harness playing the
// exit. After the replay the ingress must still accept only what the exit
// seals: a reply sealed under the key computable from the clear-text ACK and
// an all-zero private key must not be delivered, genuine replies must be.

import (
	"fmt"

	"github.com/postalsys/muti-metroo/verifharness/cryptomesh"
	"github.com/postalsys/muti-metroo/verifharness/vh"
)

func sameKeys(a, b [][32]byte) bool {
	if len(a) != len(b) {
		return false
	}
	cnt := map[[32]byte]int{}
	for _, k := range a {
		cnt[k]++
	}
	for _, k := range b {
		cnt[k]--
	}
	for _, n := range cnt {
		if n != 0 {
			return false
		}
	}
	return true
}

func icmpAckReplay(c *vh.Ctx) {
	m, err := cryptomesh.Start()
	if err != nil {
		c.Note("ICMP ack-replay scenario skipped (environment): %v", err)
		c.Res.Extra["icmp_ack_replay"] = false
		return
	}
	defer m.Close()
	c.Res.Extra["icmp_ack_replay"] = true
	for _, path := range []string{"ws", "socks5"} {
		var o cryptomesh.ICMPObs
		rp := map[string]any{"kind": "icmp-ack-replay", "path": path}
		if p := vh.Recover(func() { o = m.ReplayICMP(path) }); p != "" {
			c.Fail("panic", "ICMP ack-replay scenario panicked: "+p, rp)
			continue
		}
		if o.OpenErr != "" {
			c.Note("ICMP ack-replay %s: session did not open (%s); not evaluated", path, o.OpenErr)
			continue
		}
		if !o.KeysAgree {
			c.Note("ICMP ack-replay %s: the exit could not open the ingress's echo request (%s)", path, o.Detail)
		}
		if o.ForgedAccepted {
			c.Fail("forged-payload-accepted-after-ack-replay", fmt.Sprintf("ICMP %s path: after a replayed ICMP_OPEN_ACK the ingress delivered an echo reply sealed under the key anybody can compute from the clear-text ACK and an all-zero private key (%s)", path, o.Detail), rp)
		}
		if !sameKeys(o.KeysA1, o.KeysA2) || o.DerivedByReplay > 0 {
			c.Fail("session-key-replaced-by-replayed-ack", fmt.Sprintf("ICMP %s path: a replayed ICMP_OPEN_ACK made the ingress derive %d more key(s); session keys changed: %v (%s)", path, o.DerivedByReplay, !sameKeys(o.KeysA1, o.KeysA2), o.Detail), rp)
		}
		if path == "ws" && o.GenuineBefore && !o.GenuineAfter {
			c.Fail("genuine-peer-rejected-after-ack-replay", fmt.Sprintf("ICMP %s path: the exit's genuine echo reply is no longer accepted after a replayed ICMP_OPEN_ACK (%s)", path, o.Detail), rp)
		}
		c.Case("icmp-ack-replay/"+path, true, rp)
		c.Count("icmp-ack-replay:" + path)
		if path == "ws" && o.GenuineBefore {
			c.Count("icmp-ack-replay:ws-genuine-reply-delivered")
		}
	}
}
