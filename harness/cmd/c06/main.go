// c06: correspondence and monitor harness for C06 (route announcements arrive
// intact for any local route set). Implementation under test:
// flood.Flooder.AnnounceLocalRoutes / SendFullTable / HandleRouteAdvertise with
// real routing.Manager instances on both ends; the harness stands in for the
// peer connection (Frame.Encode on the sending side, protocol.Decode +
// DecodeRouteAdvertise + HandleRouteAdvertise on the receiving side, exactly
// what peer.Connection and agent.handleRouteAdvertise do).
//
// Monitor (no model): after one AnnounceLocalRoutes the neighbour's tables hold,
// for the announcing origin, exactly the configured CIDR, domain and forward
// routes (metric + 1) and the agent presence route; after one SendFullTable the
// new peer holds exactly what the sender's tables contain, origin by origin.
//
// Correspondence: the payloads sent are compared byte for byte with
// Model/Announce.v's announcement builder applied to the same route list (in
// the order the implementation emitted it, which depends on Go map order).
package main

import (
	"encoding/hex"
	"fmt"
	"net"
	"sort"
	"strings"
	"sync"

	"github.com/postalsys/muti-metroo/internal/flood"
	"github.com/postalsys/muti-metroo/internal/identity"
	"github.com/postalsys/muti-metroo/internal/protocol"
	"github.com/postalsys/muti-metroo/internal/routing"
	"github.com/postalsys/muti-metroo/verifharness/cq"
	"github.com/postalsys/muti-metroo/verifharness/vh"
)

// ---------------------------------------------------------------------------

type wireMsg struct {
	to   identity.AgentID
	data []byte
}

// sender is the harness's stand-in for peer.Manager: it encodes the frame the
// way a connection's writer does and keeps the bytes.
type sender struct {
	mu       sync.Mutex
	peers    []identity.AgentID
	wire     []wireMsg
	sendErrs []string
}

func (s *sender) SendToPeer(peerID identity.AgentID, frame *protocol.Frame) error {
	b, err := frame.Encode()
	s.mu.Lock()
	defer s.mu.Unlock()
	if err != nil {
		s.sendErrs = append(s.sendErrs, fmt.Sprintf("type=0x%02x payload=%d: %v", frame.Type, len(frame.Payload), err))
		return err
	}
	s.wire = append(s.wire, wireMsg{peerID, b})
	return nil
}
func (s *sender) GetPeerIDs() []identity.AgentID { return s.peers }

type localNet struct {
	net    *net.IPNet
	metric uint16
}

type node struct {
	id   identity.AgentID
	mgr  *routing.Manager
	fl   *flood.Flooder
	snd  *sender
	nets []localNet // CIDR routes as configured (the spelling handed to AddLocalRoute)
}

func newNode(id identity.AgentID, name string, peers ...identity.AgentID) *node {
	return newNodeHops(id, name, 0, peers...)
}

// newNodeHops: an agent whose routing.max_hops is maxHops (0 = no limit).
func newNodeHops(id identity.AgentID, name string, maxHops int, peers ...identity.AgentID) *node {
	n := &node{id: id, mgr: routing.NewManager(id), snd: &sender{peers: peers}}
	cfg := flood.DefaultFloodConfig()
	cfg.LocalDisplayName = name
	cfg.MaxHops = maxHops
	n.fl = flood.NewFlooder(cfg, id, n.mgr, n.snd)
	return n
}

// addNet configures one CIDR route from its textual spelling, exactly as the
// config loader and the dynamic-route API do (net.ParseCIDR).
func (n *node) addNet(spelling string, metric uint16) {
	_, ipn, err := net.ParseCIDR(spelling)
	if err != nil {
		panic("harness: bad CIDR " + spelling)
	}
	n.nets = append(n.nets, localNet{ipn, metric})
	n.mgr.AddLocalRoute(ipn, metric)
}

// deliver hands one wire message to a node as coming from peer `from`.
// Returns an error string if the frame or payload does not decode.
func (n *node) deliver(from identity.AgentID, data []byte) string {
	fr, err := protocol.Decode(data)
	if err != nil {
		return "frame: " + err.Error()
	}
	if fr.Type != protocol.FrameRouteAdvertise {
		return ""
	}
	adv, err := protocol.DecodeRouteAdvertise(fr.Payload)
	if err != nil {
		return "payload: " + err.Error()
	}
	n.fl.HandleRouteAdvertise(from, adv.OriginAgent, adv.OriginDisplayName, adv.Sequence, adv.Routes, adv.EncPath, adv.SeenBy)
	return ""
}

// tableOf lists everything a node's tables hold, keyed by origin, as strings.
// addMetric is added to the metric (the receiving side stores metric+1).
func tableOf(n *node, exclNextHop *identity.AgentID, addMetric int) map[string][]string {
	out := map[string][]string{}
	add := func(origin identity.AgentID, s string) { k := origin.String(); out[k] = append(out[k], s) }
	for _, r := range n.mgr.Table().GetAllRoutes() {
		if exclNextHop != nil && r.NextHop == *exclNextHop {
			continue
		}
		add(r.OriginAgent, fmt.Sprintf("c|%s|%d", r.Network.String(), int(r.Metric)+addMetric))
	}
	for _, r := range n.mgr.DomainTable().GetAllRoutes() {
		if exclNextHop != nil && r.NextHop == *exclNextHop {
			continue
		}
		add(r.OriginAgent, fmt.Sprintf("d|%s|%d", r.Pattern, int(r.Metric)+addMetric))
	}
	for _, r := range n.mgr.ForwardTable().GetAllRoutes() {
		if exclNextHop != nil && r.NextHop == *exclNextHop {
			continue
		}
		add(r.OriginAgent, fmt.Sprintf("f|%s|%s|%d", r.Key, r.Target, int(r.Metric)+addMetric))
	}
	for _, r := range n.mgr.AgentTable().GetAllRoutes() {
		if exclNextHop != nil && r.NextHop == *exclNextHop {
			continue
		}
		add(r.OriginAgent, fmt.Sprintf("a|%s|%d", r.AgentID.String(), int(r.Metric)+addMetric))
	}
	for k := range out {
		sort.Strings(out[k])
	}
	return out
}

func diff(want, got []string) string {
	w := map[string]int{}
	for _, s := range want {
		w[s]++
	}
	g := map[string]int{}
	for _, s := range got {
		g[s]++
	}
	var miss, extra []string
	for s, c := range w {
		if g[s] < c {
			miss = append(miss, s)
		}
	}
	for s, c := range g {
		if w[s] < c {
			extra = append(extra, s)
		}
	}
	sort.Strings(miss)
	sort.Strings(extra)
	if len(miss) == 0 && len(extra) == 0 {
		return ""
	}
	cut := func(x []string) []string {
		if len(x) > 4 {
			return append(x[:4:4], fmt.Sprintf("... (%d)", len(x)))
		}
		return x
	}
	return fmt.Sprintf("missing=%v unexpected=%v", cut(miss), cut(extra))
}

// ---------------------------------------------------------------------------
// scenarios

type scenario struct {
	Kind     string `json:"kind"` // "announce" | "full-table" | "forward"
	CaseSeed int64  `json:"case_seed"`
	NCIDR    int    `json:"n_cidr"`
	NDomain  int    `json:"n_domain"`
	NForward int    `json:"n_forward"`
	LongDom  int    `json:"domain_len"`  // length of generated domain labels (total pattern length approx.)
	LongFwd  int    `json:"forward_len"` // length of forward keys/targets
	NameLen  int    `json:"name_len"`
	RuneLen  int    `json:"rune_len,omitempty"` // display name: a rune of this many bytes (2..4) ...
	RuneAt   int    `json:"rune_at,omitempty"`  // ... of which this many bytes lie before byte 255
	Rounds   int    `json:"rounds,omitempty"`
	Special  bool   `json:"special_nets,omitempty"` // also configure the short-mask / IPv4-mapped / default-route spellings
	HopsO    int    `json:"max_hops_origin,omitempty"`
	HopsT    int    `json:"max_hops_transit,omitempty"`
	Chain    int    `json:"chain,omitempty"`
	Origins  int    `json:"origins,omitempty"` // full-table: number of remote origins
	Name     string `json:"name,omitempty"`
}

func mkID(r *vh.Rand, tag byte) identity.AgentID {
	var id identity.AgentID
	copy(id[:], r.Bytes(16))
	id[0] = tag
	return id
}

// label is n copies of one random letter (runs print compactly, see cq.B).
func label(r *vh.Rand, n int) string {
	b := make([]byte, n)
	ch := byte('a' + r.Intn(26))
	for i := range b {
		b[i] = ch
	}
	return string(b)
}

// displayName is the configured display name of the announcing agent: ASCII of
// NameLen bytes, or (RuneLen > 0) 255-RuneAt ASCII bytes, one rune of RuneLen
// bytes and an ASCII tail, so that the rune sits at a chosen offset relative
// to the 255-byte limit of the wire format.
func displayName(r *vh.Rand, sc scenario) string {
	if sc.RuneLen == 0 {
		return label(r, sc.NameLen)
	}
	runes := map[int]string{2: "\u00e9", 3: "\u20ac", 4: "\U0001F600"}
	return label(r, 255-sc.RuneAt) + runes[sc.RuneLen] + "tail-" + label(r, 6)
}

// checkName evaluates the contract of the name cut on the implementation (what
// the flooder puts on the wire is a prefix of the configured name and fits the
// one-byte length) and records the correspondence case.
func (rn *runner) checkName(sc scenario, n *node, cfg string) {
	out := n.fl.VerifLocalDisplayName()
	if len(out) > 255 {
		rn.c.Fail("display-name-too-long", fmt.Sprintf("configured display name of %d bytes is put on the wire with %d bytes (one-byte length)", len(cfg), len(out)), sc)
	}
	if !strings.HasPrefix(cfg, out) {
		rn.c.Fail("display-name-not-prefix", fmt.Sprintf("wire display name %q is not a prefix of the configured one", out), sc)
	}
	if len(rn.coq) < rn.maxRec {
		rn.c.Case(fmt.Sprintf("name/%d/%d/%d", len(cfg), sc.RuneLen, sc.RuneAt), len(cfg) > 255, sc)
		rn.coq = append(rn.coq, fmt.Sprintf("CName %s %s", cB([]byte(cfg)), cB([]byte(out))))
	}
}

// recordNets adds a CNets case: the configured CIDR networks (in the spelling
// handed to the routing manager: address bytes, mask ones, mask bits, metric)
// and the CIDR routes the implementation put on the wire for them.
func (rn *runner) recordNets(sc scenario, n *node, advs []*protocol.RouteAdvertise) {
	if len(n.nets) == 0 || len(rn.coq) >= rn.maxRec {
		return
	}
	// harness sanity: the spellings are pairwise distinct networks
	cnt := 0
	for _, e := range tableOf(n, nil, 0)[n.id.String()] {
		if strings.HasPrefix(e, "c|") {
			cnt++
		}
	}
	if cnt != len(n.nets) {
		rn.c.Fail("harness-cidr-collision", fmt.Sprintf("%d CIDR spellings configured, %d distinct networks in the table", len(n.nets), cnt), sc)
	}
	nets := make([]string, len(n.nets))
	for i, ln := range n.nets {
		ones, bits := ln.net.Mask.Size()
		nets[i] = fmt.Sprintf("(%s, (%d, (%d, %d)))", cB([]byte(ln.net.IP)), ones, bits, ln.metric)
	}
	var emitted []string
	for _, a := range advs {
		if a == nil {
			continue
		}
		for _, rt := range a.Routes {
			if rt.AddressFamily == protocol.AddrFamilyIPv4 || rt.AddressFamily == protocol.AddrFamilyIPv6 {
				emitted = append(emitted, cRoute(rt))
			}
		}
	}
	rn.c.Case(fmt.Sprintf("nets/%d", len(nets)), true, sc)
	rn.coq = append(rn.coq, fmt.Sprintf("CNets %s %s", vh.CoqList(nets), vh.CoqList(emitted)))
}

// domainPattern builds a distinct valid pattern of roughly total length n (>= 8).
func domainPattern(r *vh.Rand, i, n int) string {
	base := fmt.Sprintf("d%d.ex", i)
	rest := n - len(base) - 1
	var parts []string
	for rest > 0 {
		l := rest
		if l > 40 {
			l = 40
		}
		parts = append(parts, label(r, l))
		rest -= l + 1
	}
	p := strings.Join(append(parts, base), ".")
	if r.Chance(1, 4) {
		p = "*." + p
	}
	return p
}

// cidrSpelling is the i-th configured CIDR route as text. Distinct i give
// distinct canonical networks. The spellings cover IPv4 and IPv6 host routes
// and prefixes, and IPv4 networks written in IPv4-mapped IPv6 notation
// (::ffff:a.b.c.d/96+n), which routing.Table canonicalises to a.b.c.d/n.
func cidrSpelling(i int) string {
	a, b, c := byte(i>>16), byte(i>>8), byte(i)
	switch i % 10 {
	case 4:
		return fmt.Sprintf("2001:db8::%x:%x/128", int(a)<<8|int(b), c)
	case 9:
		return fmt.Sprintf("2001:db8:%x:%x::/64", int(a)<<8|int(b), c)
	case 3:
		return fmt.Sprintf("::ffff:10.%d.%d.%d/128", a, b, c) // mapped host route = 10.a.b.c/32
	case 7:
		return fmt.Sprintf("::ffff:11.%d.%d.0/120", b, c) // mapped = 11.b.c.0/24
	case 6:
		return fmt.Sprintf("12.%d.%d.0/24", b, c)
	default:
		return fmt.Sprintf("10.%d.%d.%d/32", a, b, c)
	}
}

// specialNets: one of each remaining shape (short masks cannot be made distinct per index)
var specialNets = []string{"::ffff:172.16.0.0/108", "::ffff:192.168.0.0/112", "::ffff:0:0/96", "::/0", "::ffff:0:0/90", "100.64.0.0/10", "fc00::/7", "::ffff:198.51.100.7/128"}

// populate configures local routes on a node according to the scenario.
func populate(r *vh.Rand, n *node, sc scenario, salt int) {
	for i := 0; i < sc.NCIDR; i++ {
		n.addNet(cidrSpelling(salt*100000+i), uint16(r.Pick(0, 0, 1, 5, 1000)))
	}
	if sc.Special {
		for _, sp := range specialNets {
			n.addNet(sp, uint16(r.Pick(0, 1, 9)))
		}
	}
	for i := 0; i < sc.NDomain; i++ {
		// a pattern the wire format cannot carry (> 255 bytes) must be refused here;
		// whatever is accepted must arrive (the expected set is read back from the tables)
		n.mgr.AddLocalDomainRoute(domainPattern(r, salt*100000+i, sc.LongDom), uint16(r.Pick(0, 0, 1, 7)))
	}
	for i := 0; i < sc.NForward; i++ {
		key := fmt.Sprintf("k%d-%s", salt*100000+i, label(r, max(0, sc.LongFwd-8)))
		n.mgr.AddLocalForwardRoute(key, label(r, max(1, sc.LongFwd))+":80", uint16(r.Pick(0, 0, 2)))
	}
}

type runner struct {
	c      *vh.Ctx
	coq    []string
	maxRec int // at most this many correspondence cases (the monitors run on every scenario)
}

// payloadsOf extracts the RouteAdvertise payloads from wire messages and, by
// decoding them with the implementation, the route list in emission order.
func payloadsOf(wire []wireMsg) (payloads [][]byte, advs []*protocol.RouteAdvertise, bad int) {
	for _, w := range wire {
		fr, err := protocol.Decode(w.data)
		if err != nil || fr.Type != protocol.FrameRouteAdvertise {
			bad++
			continue
		}
		payloads = append(payloads, fr.Payload)
		adv, err := protocol.DecodeRouteAdvertise(fr.Payload)
		if err != nil {
			bad++
			advs = append(advs, nil)
			continue
		}
		advs = append(advs, adv)
	}
	return
}

func cB(b []byte) string { return cq.B(b) }
func cRoute(rt protocol.Route) string {
	if rt.AddressFamily == protocol.AddrFamilyIPv4 && len(rt.Prefix) == 4 { // compact form, see the r4 helper in the cases.v prelude
		return fmt.Sprintf("(r4 \"%x\" %d %d)", rt.Prefix, rt.PrefixLength, rt.Metric)
	}
	return fmt.Sprintf("(%d, (%d, (%s, %d)))", rt.AddressFamily, rt.PrefixLength, cB(rt.Prefix), rt.Metric)
}
func cIDs(ids []identity.AgentID) string {
	raw := make([][]byte, len(ids))
	for i := range ids {
		raw[i] = ids[i][:]
	}
	return cq.IDs(raw)
}

// record adds one correspondence case: an announcement group (one origin) as
// emitted: the concatenated route list in emission order and the payloads.
func (rn *runner) record(sc scenario, origin identity.AgentID, payloads [][]byte, advs []*protocol.RouteAdvertise) {
	if len(rn.coq) >= rn.maxRec {
		rn.c.Count("monitor-only")
		return
	}
	var routes []string
	var name string
	var seq1 uint64
	var path, seenBy []identity.AgentID
	okAll := true
	for i, a := range advs {
		if a == nil {
			okAll = false
			continue
		}
		if i == 0 {
			name, seq1, path, seenBy = a.OriginDisplayName, a.Sequence, a.Path, a.SeenBy
		}
		for _, rt := range a.Routes {
			routes = append(routes, cRoute(rt))
		}
	}
	pl := make([]string, len(payloads))
	for i, p := range payloads {
		pl[i] = cB(p)
	}
	rn.c.Case(fmt.Sprintf("%s/%d/%d/%d/%d/%d", sc.Kind, sc.NCIDR, sc.NDomain, sc.NForward, sc.LongDom, sc.LongFwd), okAll && len(routes) > 1, sc)
	rn.coq = append(rn.coq, fmt.Sprintf("CAnn %s %s %d %s %s %s %s", cB(origin[:]), cB([]byte(name)), seq1,
		vh.CoqList(routes), cIDs(path), cIDs(seenBy), vh.CoqList(pl)))
}

func (rn *runner) runAnnounce(sc scenario) {
	c := rn.c
	r := vh.NewRand(sc.CaseSeed)
	oID, nID := mkID(r, 0xA0), mkID(r, 0xB0)
	cfgName := displayName(r, sc)
	o := newNode(oID, cfgName, nID)
	nb := newNode(nID, "nb")
	defer o.fl.Stop()
	defer nb.fl.Stop()
	populate(r, o, sc, 1)
	rn.checkName(sc, o, cfgName)
	if p := vh.Recover(func() { o.fl.AnnounceLocalRoutes() }); p != "" {
		c.Fail("announce-panic", "AnnounceLocalRoutes panicked: "+p, sc)
		return
	}
	var derr []string
	for _, w := range o.snd.wire {
		if e := nb.deliver(oID, w.data); e != "" {
			derr = append(derr, e)
		}
	}
	want := tableOf(o, nil, 1)[oID.String()]
	want = append(want, fmt.Sprintf("a|%s|1", oID.String()))
	sort.Strings(want)
	got := tableOf(nb, nil, 0)[oID.String()]
	total := sc.NCIDR + sc.NDomain + sc.NForward + 1
	c.Count(fmt.Sprintf("announce:frames=%d", len(o.snd.wire)))
	if d := diff(want, got); d != "" || len(derr) > 0 || len(o.snd.sendErrs) > 0 {
		sig := "announce-mismatch"
		switch {
		case len(o.snd.sendErrs) > 0:
			sig = "announce-frame-too-large"
		case total > 255:
			sig = "announce-count-wrap"
		}
		c.Fail(sig, fmt.Sprintf("announced %d routes (%d CIDR, %d domain, %d forward, 1 presence) in %d frame(s); neighbour learned %d; %s; send errors %v; decode errors %v",
			total, sc.NCIDR, sc.NDomain, sc.NForward, len(o.snd.wire), len(got), d, o.snd.sendErrs, derr), sc)
	}
	payloads, advs, _ := payloadsOf(o.snd.wire)
	rn.record(sc, oID, payloads, advs)
	if sc.Special || sc.NCIDR <= 40 {
		rn.recordNets(sc, o, advs)
	}
}

// bestAgents keeps, of the agent presence entries ("a|<agent>|<metric>"), the
// lowest metric per agent: a table holds one presence route per (agent,
// origin, next hop), and everything a peer replays has that peer as next hop.
func bestAgents(l []string) []string {
	best := map[string]int{}
	var out []string
	for _, e := range l {
		if !strings.HasPrefix(e, "a|") {
			out = append(out, e)
			continue
		}
		parts := strings.Split(e, "|")
		var m int
		fmt.Sscan(parts[2], &m)
		if old, ok := best[parts[1]]; !ok || m < old {
			best[parts[1]] = m
		}
	}
	for a, m := range best {
		out = append(out, fmt.Sprintf("a|%s|%d", a, m))
	}
	sort.Strings(out)
	return out
}

type advKey struct {
	origin identity.AgentID
	seq    uint64
}

// replayAndCheck lets M replay its table to the new peer N and evaluates the
// monitors: N's tables equal M's (metric + 1), no two replayed advertisements
// share (origin, sequence) - the receiver's seen cache would drop the second -
// and a replayed foreign group carries a sequence number its origin issued.
func (rn *runner) replayAndCheck(sc scenario, m, nb *node, issued map[advKey]bool) {
	c := rn.c
	if p := vh.Recover(func() { m.fl.SendFullTable(nb.id) }); p != "" {
		c.Fail("full-table-panic", "SendFullTable panicked: "+p, sc)
		return
	}
	var derr []string
	for _, w := range m.snd.wire {
		if e := nb.deliver(m.id, w.data); e != "" {
			derr = append(derr, e)
		}
	}
	want := tableOf(m, &nb.id, 1)
	got := tableOf(nb, nil, 0)
	c.Count(fmt.Sprintf("full-table:frames=%d", len(m.snd.wire)))
	var problems []string
	big := false
	for k, w := range want {
		if len(w) > 255 {
			big = true
		}
		if d := diff(bestAgents(w), bestAgents(got[k])); d != "" {
			problems = append(problems, fmt.Sprintf("origin %s (%d routes): %s", k[:8], len(w), d))
		}
	}
	for k, g := range got {
		if _, known := want[k]; !known {
			problems = append(problems, fmt.Sprintf("origin %s: %d unexpected routes", k[:8], len(g)))
		}
	}
	payloads, advs, _ := payloadsOf(m.snd.wire)
	seenKeys := map[advKey]int{}
	for _, a := range advs {
		if a == nil {
			continue
		}
		k := advKey{a.OriginAgent, a.Sequence}
		seenKeys[k]++
		if a.OriginAgent != m.id && issued != nil && !issued[k] {
			c.Fail("replay-foreign-sequence", fmt.Sprintf("replayed advertisement of origin %s carries sequence %d, which that origin never issued", a.OriginAgent.ShortString(), a.Sequence), sc)
		}
	}
	for k, n := range seenKeys {
		if n > 1 {
			c.Fail("replay-duplicate-key", fmt.Sprintf("%d replayed advertisements share origin %s sequence %d: the receiver's seen cache keeps only the first", n, k.origin.ShortString(), k.seq), sc)
		}
	}
	if len(problems) > 0 || len(derr) > 0 || len(m.snd.sendErrs) > 0 {
		sig := "full-table-mismatch"
		switch {
		case len(m.snd.sendErrs) > 0:
			sig = "full-table-frame-too-large"
		case big:
			sig = "full-table-count-wrap"
		}
		sort.Strings(problems)
		if len(problems) > 3 {
			problems = problems[:3]
		}
		c.Fail(sig, fmt.Sprintf("replayed table in %d frame(s): %v; send errors %v; decode errors %v", len(m.snd.wire), problems, m.snd.sendErrs, derr), sc)
	}
	// correspondence: the replaying agent's own routes form one announcement with
	// fresh consecutive sequence numbers (CAnn); every foreign (origin, sequence,
	// path) group is replayed under its origin's sequence number (CRep)
	type gk struct {
		origin identity.AgentID
		seq    uint64
		path   string
	}
	groups := map[gk][]int{}
	var order []gk
	for i, a := range advs {
		if a == nil {
			continue
		}
		k := gk{origin: a.OriginAgent}
		if a.OriginAgent != m.id {
			k = gk{a.OriginAgent, a.Sequence, string(protocol.EncodePath(a.Path))}
		}
		if _, seen := groups[k]; !seen {
			order = append(order, k)
		}
		groups[k] = append(groups[k], i)
	}
	for _, k := range order {
		var ps [][]byte
		var as []*protocol.RouteAdvertise
		for _, i := range groups[k] {
			ps = append(ps, payloads[i])
			as = append(as, advs[i])
		}
		if k.origin == m.id {
			rn.record(sc, k.origin, ps, as)
		} else {
			rn.recordReplay(sc, ps, as)
		}
	}
}

// recordReplay adds a CRep case: one foreign group as replayed.
func (rn *runner) recordReplay(sc scenario, payloads [][]byte, advs []*protocol.RouteAdvertise) {
	if len(rn.coq) >= rn.maxRec {
		rn.c.Count("monitor-only")
		return
	}
	var routes []string
	for _, a := range advs {
		for _, rt := range a.Routes {
			routes = append(routes, cRoute(rt))
		}
	}
	pl := make([]string, len(payloads))
	for i, p := range payloads {
		pl[i] = cB(p)
	}
	a := advs[0]
	rn.c.Case(fmt.Sprintf("replay/%d/%d", len(routes), len(a.Path)), len(routes) > 0, sc)
	rn.coq = append(rn.coq, fmt.Sprintf("CRep %s %s %d %s %s %s", cB(a.OriginAgent[:]), cB([]byte(a.OriginDisplayName)), a.Sequence,
		vh.CoqList(routes), cIDs(a.Path), vh.CoqList(pl)))
}

// runFullTable: node M is a direct peer of several origins, receives their
// (possibly split) announcements with their consecutive sequence numbers, has
// local routes of its own, and replays its table to a new peer N.
func (rn *runner) runFullTable(sc scenario) {
	r := vh.NewRand(sc.CaseSeed)
	mID, nID := mkID(r, 0xC0), mkID(r, 0xE0)
	m := newNode(mID, displayName(r, sc)) // no peers while learning: nothing is re-flooded
	nb := newNode(nID, "nb")
	defer m.fl.Stop()
	defer nb.fl.Stop()
	populate(r, m, scenario{NCIDR: sc.NCIDR / 3, NDomain: sc.NDomain / 3, NForward: sc.NForward / 3, LongDom: sc.LongDom, LongFwd: sc.LongFwd}, 9)
	issued := map[advKey]bool{}
	for oi := 0; oi < sc.Origins; oi++ {
		oID := mkID(r, byte(0x10+oi))
		o := newNode(oID, label(r, 5), mID)
		populate(r, o, sc, 10+oi)
		for round := 0; round < 1+oi%2; round++ { // some origins have announced twice (periodic re-announcement)
			o.snd.wire = nil
			o.fl.AnnounceLocalRoutes()
			_, advs, _ := payloadsOf(o.snd.wire)
			for _, a := range advs {
				if a != nil {
					issued[advKey{a.OriginAgent, a.Sequence}] = true
				}
			}
			for _, w := range o.snd.wire {
				m.deliver(oID, w.data)
			}
		}
		o.fl.Stop()
	}
	rn.replayAndCheck(sc, m, nb, issued)
}

// runTwoPaths: M receives the same advertisement of origin O twice, from two
// different peers over two different paths, the second time after its seen
// cache entry has expired (the routes are still in its tables). The agent
// table then holds O's presence route once per next hop, i.e. with two
// paths. M replays its table to N: N must still learn all of O's routes.
func (rn *runner) runTwoPaths(sc scenario) {
	r := vh.NewRand(sc.CaseSeed)
	oID, mID, p1, p2, xID, nID := mkID(r, 0xA2), mkID(r, 0xC2), mkID(r, 0xD2), mkID(r, 0xD3), mkID(r, 0xD4), mkID(r, 0xE2)
	o := newNode(oID, label(r, sc.NameLen), p1)
	m := newNode(mID, "m")
	nb := newNode(nID, "nb")
	defer o.fl.Stop()
	defer m.fl.Stop()
	defer nb.fl.Stop()
	populate(r, o, sc, 1)
	o.fl.AnnounceLocalRoutes()
	_, advs, _ := payloadsOf(o.snd.wire)
	issued := map[advKey]bool{}
	bump := func(rs []protocol.Route, by uint16) []protocol.Route {
		out := append([]protocol.Route{}, rs...)
		for i := range out {
			out[i].Metric += by
		}
		return out
	}
	for pass := 0; pass < 2; pass++ {
		for _, a := range advs {
			if a == nil {
				continue
			}
			issued[advKey{a.OriginAgent, a.Sequence}] = true
			if pass == 0 { // as re-flooded by P1, a direct peer of O
				path := append([]identity.AgentID{p1}, a.Path...)
				m.fl.HandleRouteAdvertise(p1, a.OriginAgent, a.OriginDisplayName, a.Sequence, bump(a.Routes, 1),
					&protocol.EncryptedData{Data: protocol.EncodePath(path)}, append(append([]identity.AgentID{}, a.SeenBy...), p1))
			} else { // as re-flooded by P2, which got it from X, a direct peer of O
				path := append([]identity.AgentID{p2, xID}, a.Path...)
				m.fl.HandleRouteAdvertise(p2, a.OriginAgent, a.OriginDisplayName, a.Sequence, bump(a.Routes, uint16(sc.Origins)),
					&protocol.EncryptedData{Data: protocol.EncodePath(path)}, append(append([]identity.AgentID{}, a.SeenBy...), xID, p2))
			}
		}
		// stands for the seen-cache TTL (5 minutes by default) elapsing while the routes stay in the tables
		m.fl.ClearSeenCache()
	}
	rn.replayAndCheck(sc, m, nb, issued)
}

// runForward: an origin's announcement reaches agent M after many hops (path and
// seen-by list of 254 agents each); M learns the routes and re-floods the
// advertisement, with itself added to both lists, to its peer N. N must learn
// the origin's set: every group the origin formed must still fit a frame.
func (rn *runner) runForward(sc scenario) {
	c := rn.c
	r := vh.NewRand(sc.CaseSeed)
	oID, mID, pID, nID := mkID(r, 0xA1), mkID(r, 0xC1), mkID(r, 0xD1), mkID(r, 0xE1)
	o := newNode(oID, label(r, sc.NameLen), mID)
	m := newNode(mID, "m", pID, nID)
	nb := newNode(nID, "nb")
	defer o.fl.Stop()
	defer m.fl.Stop()
	defer nb.fl.Stop()
	populate(r, o, sc, 1)
	o.fl.AnnounceLocalRoutes()
	hops := make([]identity.AgentID, 252)
	for i := range hops { // blocks of constant identifiers (cheap to print)
		for j := range hops[i] {
			hops[i][j] = byte(0x50 + i/90)
		}
	}
	var received []*protocol.RouteAdvertise
	for _, w := range o.snd.wire {
		fr, err := protocol.Decode(w.data)
		if err != nil {
			continue
		}
		adv, err := protocol.DecodeRouteAdvertise(fr.Payload)
		if err != nil {
			continue
		}
		// what the 253 agents in between (252 + P) turn the advertisement into: the last of them is P
		path := append(append([]identity.AgentID{pID}, hops...), adv.Path...)
		seen := append(append([]identity.AgentID{}, adv.SeenBy...), append(hops, pID)...)
		fwd := &protocol.RouteAdvertise{OriginAgent: adv.OriginAgent, OriginDisplayName: adv.OriginDisplayName, Sequence: adv.Sequence,
			Routes: adv.Routes, Path: path, SeenBy: seen}
		received = append(received, fwd)
		m.fl.HandleRouteAdvertise(pID, fwd.OriginAgent, fwd.OriginDisplayName, fwd.Sequence, fwd.Routes,
			&protocol.EncryptedData{Encrypted: false, Data: protocol.EncodePath(path)}, append([]identity.AgentID{}, fwd.SeenBy...))
	}
	var derr []string
	var toN []wireMsg
	for _, w := range m.snd.wire {
		if w.to != nID {
			continue
		}
		toN = append(toN, w)
		if e := nb.deliver(mID, w.data); e != "" {
			derr = append(derr, e)
		}
	}
	// M re-floods every metric one higher than it received it (= the metric it stored),
	// and N stores what it receives plus one
	want := tableOf(m, nil, 1)[oID.String()]
	got := tableOf(nb, nil, 0)[oID.String()]
	announced := len(tableOf(o, nil, 0)[oID.String()]) + 1 // the origin's own routes and its presence route
	c.Count(fmt.Sprintf("forward:frames=%d", len(toN)))
	if d := diff(want, got); d != "" || len(derr) > 0 || len(m.snd.sendErrs) > 0 || len(want) != announced {
		sig := "forward-mismatch"
		if len(m.snd.sendErrs) > 0 {
			sig = "forward-frame-too-large"
		}
		c.Fail(sig, fmt.Sprintf("re-flooded %d advertisement(s) at hop 255; the forwarder stored %d of %d routes, downstream learned %d; %s; send errors %v; decode errors %v",
			len(toN), len(want), announced, len(got), d, m.snd.sendErrs, derr), sc)
	}
	// correspondence: each received advertisement and what M made of it
	payloads, _, _ := payloadsOf(toN)
	for i, in := range received {
		if i >= len(payloads) || len(rn.coq) >= rn.maxRec {
			break
		}
		routes := make([]string, len(in.Routes))
		for j, rt := range in.Routes {
			routes[j] = cRoute(rt)
		}
		c.Case(fmt.Sprintf("reflood/%d/%d", len(routes), len(in.Path)), true, sc)
		rn.coq = append(rn.coq, fmt.Sprintf("CFwd %s %s %s %d %s %s %s %s", cB(mID[:]), cB(in.OriginAgent[:]), cB([]byte(in.OriginDisplayName)),
			in.Sequence, vh.CoqList(routes), cIDs(in.Path), cIDs(in.SeenBy), cB(payloads[i])))
	}
}

// runConcurrent: the periodic AnnounceLocalRoutes and a peer-connect
// SendFullTable run at the same time on real goroutines, Rounds times, for an
// agent with more than 255 local routes. Every advertisement handed to the
// connection must carry a sequence number of its own, and the neighbour, fed
// everything in emission order, must learn exactly the agent's routes.
func (rn *runner) runConcurrent(sc scenario) {
	c := rn.c
	r := vh.NewRand(sc.CaseSeed)
	oID, nID := mkID(r, 0xA3), mkID(r, 0xB3)
	o := newNode(oID, label(r, sc.NameLen), nID)
	nb := newNode(nID, "nb")
	defer o.fl.Stop()
	defer nb.fl.Stop()
	populate(r, o, sc, 1)
	for i := 0; i < sc.Rounds; i++ {
		var wg sync.WaitGroup
		start := make(chan struct{})
		wg.Add(2)
		go func() { defer wg.Done(); <-start; o.fl.AnnounceLocalRoutes() }()
		go func() { defer wg.Done(); <-start; o.fl.SendFullTable(nID) }()
		close(start)
		wg.Wait()
	}
	_, advs, bad := payloadsOf(o.snd.wire)
	seqs := map[uint64]int{}
	for _, a := range advs {
		if a != nil {
			seqs[a.Sequence]++
		}
	}
	for s, n := range seqs {
		if n > 1 {
			c.Fail("concurrent-sequence-duplicate", fmt.Sprintf("%d advertisements of one origin carry sequence number %d (announce and full-table replay running concurrently)", n, s), sc)
			break
		}
	}
	var derr []string
	for _, w := range o.snd.wire {
		if e := nb.deliver(oID, w.data); e != "" {
			derr = append(derr, e)
		}
	}
	want := tableOf(o, nil, 1)[oID.String()]
	want = append(want, fmt.Sprintf("a|%s|1", oID.String()))
	sort.Strings(want)
	got := tableOf(nb, nil, 0)[oID.String()]
	c.Count(fmt.Sprintf("concurrent:frames=%d", len(o.snd.wire)))
	if d := diff(want, got); d != "" || len(derr) > 0 || bad > 0 || len(o.snd.sendErrs) > 0 {
		c.Fail("concurrent-mismatch", fmt.Sprintf("concurrent announce and replay, %d frames: neighbour learned %d of %d; %s; decode errors %v", len(o.snd.wire), len(got), len(want), d, derr), sc)
	}
}

// sequenceStorm: many goroutines draw sequence numbers from one routing
// manager at once (as the periodic announcer, peer-connect replays and route
// management do); every number handed out must be distinct.
func (rn *runner) sequenceStorm(goroutines, each int) {
	c := rn.c
	var id identity.AgentID
	id[0] = 0x5e
	mgr := routing.NewManager(id)
	out := make([][]uint64, goroutines)
	var wg sync.WaitGroup
	start := make(chan struct{})
	for g := 0; g < goroutines; g++ {
		wg.Add(1)
		go func(g int) {
			defer wg.Done()
			v := make([]uint64, 0, each)
			<-start
			for i := 0; i < each; i++ {
				v = append(v, mgr.IncrementSequence())
			}
			out[g] = v
		}(g)
	}
	close(start)
	wg.Wait()
	seen := make(map[uint64]struct{}, goroutines*each)
	dups := 0
	var first uint64
	for _, v := range out {
		for _, s := range v {
			if _, dup := seen[s]; dup {
				if dups == 0 {
					first = s
				}
				dups++
			}
			seen[s] = struct{}{}
		}
	}
	c.Count("sequence-storm")
	sc := scenario{Kind: "sequence-storm", Rounds: each, Origins: goroutines}
	if dups > 0 || mgr.GetCurrentSequence() != uint64(goroutines*each) {
		c.Fail("sequence-duplicate", fmt.Sprintf("%d goroutines x %d IncrementSequence calls: %d numbers were handed out more than once (first: %d), counter ended at %d instead of %d",
			goroutines, each, dups, first, mgr.GetCurrentSequence(), goroutines*each), sc)
	}
}

// runMixedHops: agents with different routing.max_hops. The origin (HopsO)
// announces route sets that fill an advertisement's byte budget; a transit M
// with another limit (HopsT) learns them directly and replays them to a new
// peer N1; and the announcement travels down a chain of Chain transits. The
// new peer and the last agent of the chain must learn exactly the origin's
// routes: a group must neither be split again under its sequence number nor
// outgrow the frame payload on the way.
func (rn *runner) runMixedHops(sc scenario) {
	c := rn.c
	r := vh.NewRand(sc.CaseSeed)
	oID, mID, n1ID := mkID(r, 0xA4), mkID(r, 0xC4), mkID(r, 0xE4)
	o := newNodeHops(oID, label(r, sc.NameLen), sc.HopsO, mID)
	m := newNodeHops(mID, "m", sc.HopsT)
	n1 := newNodeHops(n1ID, "n1", sc.HopsT)
	defer o.fl.Stop()
	defer m.fl.Stop()
	defer n1.fl.Stop()
	populate(r, o, sc, 1)
	o.fl.AnnounceLocalRoutes()
	issued := map[advKey]bool{}
	_, advs, _ := payloadsOf(o.snd.wire)
	for _, a := range advs {
		if a != nil {
			issued[advKey{a.OriginAgent, a.Sequence}] = true
		}
	}
	for _, w := range o.snd.wire {
		m.deliver(oID, w.data)
	}
	rn.replayAndCheck(sc, m, n1, issued)

	// the chain: O -> T1 -> T2 -> ... -> Tk, every transit a real flooder with its successor as peer
	ids := make([]identity.AgentID, sc.Chain+1)
	for i := range ids {
		ids[i] = mkID(r, byte(0x70+i))
	}
	nodes := make([]*node, sc.Chain)
	for i := range nodes {
		nodes[i] = newNodeHops(ids[i], fmt.Sprint("t", i), sc.HopsT, ids[i+1])
		defer nodes[i].fl.Stop()
	}
	last := newNodeHops(ids[sc.Chain], "last", sc.HopsT)
	defer last.fl.Stop()
	wire, from := o.snd.wire, oID
	var problems []string
	for i := 0; i <= sc.Chain; i++ {
		cur := last
		if i < sc.Chain {
			cur = nodes[i]
		}
		for _, w := range wire {
			if e := cur.deliver(from, w.data); e != "" {
				problems = append(problems, fmt.Sprintf("hop %d: %s", i+1, e))
			}
		}
		if len(cur.snd.sendErrs) > 0 {
			problems = append(problems, fmt.Sprintf("hop %d cannot forward: %v", i+1, cur.snd.sendErrs[0]))
		}
		wire, from = cur.snd.wire, cur.id
	}
	want := tableOf(o, nil, sc.Chain+1)[oID.String()]
	want = append(want, fmt.Sprintf("a|%s|%d", oID.String(), sc.Chain+1))
	sort.Strings(want)
	got := tableOf(last, nil, 0)[oID.String()]
	c.Count("mixed-hops:chain")
	if d := diff(want, got); d != "" || len(problems) > 0 {
		if len(problems) > 3 {
			problems = problems[:3]
		}
		c.Fail("chain-mismatch", fmt.Sprintf("origin max_hops=%d, transits max_hops=%d: after %d hops the last agent learned %d of %d routes; %s; %v",
			sc.HopsO, sc.HopsT, sc.Chain+1, len(got), len(want), d, problems), sc)
	}
}

func (rn *runner) run(sc scenario) {
	switch sc.Kind {
	case "full-table":
		rn.runFullTable(sc)
	case "forward":
		rn.runForward(sc)
	case "two-paths":
		rn.runTwoPaths(sc)
	case "concurrent":
		rn.runConcurrent(sc)
	case "mixed-hops":
		rn.runMixedHops(sc)
	case "sequence-storm":
		rn.sequenceStorm(sc.Origins, sc.Rounds)
	default:
		rn.runAnnounce(sc)
	}
}

func main() {
	c := vh.Start("C06")
	defer c.Finish()
	c.Res.Rule = "case = one announcement group (all frames one AnnounceLocalRoutes / one origin group of SendFullTable emitted): " +
		"payload bytes compared with Model/Announce.v's builder on the emitted route list; non-trivial = at least 2 routes and all " +
		"frames decodable; distinct = distinct (kind, route counts, field lengths). The monitor compares the receiving routing tables with the sender's."
	rn := &runner{c: c, maxRec: c.N(1000, 100)}

	if c.Replay != "" {
		var sc scenario
		if err := c.ReadReplay(&sc); err != nil {
			panic(err)
		}
		rn.run(sc)
		rn.writeCases()
		return
	}

	// fixed witnesses first
	fixed := []scenario{
		{Kind: "announce", Name: "255-cidr-plus-presence", NCIDR: 255, NameLen: 4},
		{Kind: "announce", Name: "254-cidr-plus-presence", NCIDR: 254, NameLen: 4},
		{Kind: "announce", Name: "256-cidr", NCIDR: 256, NameLen: 4},
		{Kind: "announce", Name: "300-mixed", NCIDR: 100, NDomain: 100, NForward: 100, LongDom: 12, LongFwd: 6, NameLen: 4},
		{Kind: "announce", Name: "70-long-domains", NDomain: 70, LongDom: 250, NameLen: 4},
		{Kind: "announce", Name: "40-long-forwards", NForward: 40, LongFwd: 240, NameLen: 255},
		{Kind: "announce", Name: "display-name-300-bytes", NCIDR: 3, NDomain: 2, LongDom: 12, NameLen: 300},
		{Kind: "announce", Name: "cidr-spellings", NCIDR: 20, Special: true, NameLen: 4},
		{Kind: "full-table", Name: "cidr-spellings-replayed", NCIDR: 20, Special: true, Origins: 1, NameLen: 4},
		{Kind: "forward", Name: "cidr-spellings-reflooded", NCIDR: 20, Special: true, NameLen: 4},
		{Kind: "mixed-hops", Name: "budget-filling-domains-origin-4-transits-unlimited", NDomain: 70, LongDom: 250, HopsO: 4, HopsT: 0, Chain: 2, NameLen: 255},
		{Kind: "mixed-hops", Name: "budget-filling-domains-origin-4-transits-32", NDomain: 70, LongDom: 250, NCIDR: 5, HopsO: 4, HopsT: 32, Chain: 14, NameLen: 255},
		{Kind: "mixed-hops", Name: "budget-filling-forwards-origin-2-transits-64", NForward: 40, LongFwd: 240, HopsO: 2, HopsT: 64, Chain: 14, NameLen: 4},
		{Kind: "announce", Name: "display-name-2-byte-rune-0-before-255", NCIDR: 2, RuneLen: 2, RuneAt: 0},
		{Kind: "announce", Name: "display-name-2-byte-rune-1-before-255", NCIDR: 2, RuneLen: 2, RuneAt: 1},
		{Kind: "announce", Name: "display-name-3-byte-rune-0-before-255", NCIDR: 2, RuneLen: 3, RuneAt: 0},
		{Kind: "announce", Name: "display-name-3-byte-rune-1-before-255", NCIDR: 2, RuneLen: 3, RuneAt: 1},
		{Kind: "announce", Name: "display-name-3-byte-rune-2-before-255", NCIDR: 2, RuneLen: 3, RuneAt: 2},
		{Kind: "announce", Name: "display-name-4-byte-rune-0-before-255", NCIDR: 2, RuneLen: 4, RuneAt: 0},
		{Kind: "announce", Name: "display-name-4-byte-rune-1-before-255", NCIDR: 2, RuneLen: 4, RuneAt: 1},
		{Kind: "announce", Name: "display-name-4-byte-rune-2-before-255", NCIDR: 2, RuneLen: 4, RuneAt: 2},
		{Kind: "announce", Name: "display-name-4-byte-rune-3-before-255", NCIDR: 2, RuneLen: 4, RuneAt: 3},
		{Kind: "full-table", Name: "replay-own-routes-rune-name", NCIDR: 6, RuneLen: 4, RuneAt: 2, Origins: 0},
		{Kind: "concurrent", Name: "announce-and-replay-300-routes", NCIDR: 300, NameLen: 4, Rounds: 40},
		{Kind: "announce", Name: "domain-patterns-300-bytes", NCIDR: 2, NDomain: 3, LongDom: 300, NameLen: 4},
		{Kind: "announce", Name: "forward-keys-300-bytes", NCIDR: 2, NForward: 3, LongFwd: 300, NameLen: 4},
		{Kind: "forward", Name: "long-domains-after-255-hops", NDomain: 70, LongDom: 250, NameLen: 255},
		{Kind: "forward", Name: "mixed-after-255-hops", NCIDR: 120, NDomain: 20, NForward: 20, LongDom: 200, LongFwd: 240, NameLen: 8},
		{Kind: "two-paths", Name: "same-advertisement-via-two-peers-second-worse", NCIDR: 3, NDomain: 1, LongDom: 12, Origins: 2, NameLen: 4},
		{Kind: "two-paths", Name: "same-advertisement-via-two-peers-equal-metric", NCIDR: 3, NDomain: 1, LongDom: 12, Origins: 1, NameLen: 4},
		{Kind: "two-paths", Name: "presence-only-via-two-peers", Origins: 2, NameLen: 4},
		{Kind: "two-paths", Name: "260-routes-via-two-peers", NCIDR: 260, Origins: 2, NameLen: 4},
		{Kind: "full-table", Name: "two-origins-257-each", NCIDR: 257, NDomain: 3, NForward: 3, LongDom: 12, LongFwd: 6, Origins: 2, NameLen: 4},
		{Kind: "full-table", Name: "long-domains", NDomain: 80, LongDom: 250, LongFwd: 6, Origins: 1, NameLen: 4},
	}
	for i := range fixed {
		fixed[i].CaseSeed = int64(1000 + i)
		rn.run(fixed[i])
	}
	rn.sequenceStorm(16, c.N(20000, 200000))

	sizes := []int{0, 0, 1, 2, 3, 50, 127, 128, 253, 254, 255, 256, 257, 300}
	if c.Thorough() {
		sizes = append(sizes, 509, 510, 511, 512, 600, 1000)
	}
	small := []int{0, 0, 1, 2, 3, 10, 40}
	n := c.N(16, 600)
	for i := 0; i < n; i++ {
		sc := scenario{Kind: "announce", CaseSeed: int64(c.Rand.U64() >> 1), NameLen: c.Rand.Pick(0, 1, 8, 254, 255, 256, 300), RuneLen: c.Rand.Pick(0, 0, 0, 2, 3, 4), RuneAt: c.Rand.Intn(4), Special: c.Rand.Chance(1, 3),
			LongDom: c.Rand.Pick(8, 12, 30, 100, 200, 250, 253, 255, 256, 300), LongFwd: c.Rand.Pick(1, 6, 30, 120, 240, 249, 250, 251, 300)}
		switch c.Rand.Intn(5) {
		case 0:
			sc.NCIDR = sizes[c.Rand.Intn(len(sizes))]
		case 1:
			sc.NDomain = sizes[c.Rand.Intn(len(sizes))]
		case 2:
			sc.NForward = sizes[c.Rand.Intn(len(sizes))]
		default:
			sc.NCIDR, sc.NDomain, sc.NForward = sizes[c.Rand.Intn(len(sizes))], small[c.Rand.Intn(len(small))], small[c.Rand.Intn(len(small))]
			if c.Rand.Chance(1, 2) { // land exactly on a boundary in total
				tgt := c.Rand.Pick(253, 254, 255, 256)
				if rest := tgt - sc.NDomain - sc.NForward; rest >= 0 {
					sc.NCIDR = rest
				}
			}
		}
		if c.Rand.Chance(1, 8) {
			sc.Kind = "forward"
			if sc.NCIDR > 300 {
				sc.NCIDR = 300
			}
		} else if c.Rand.Chance(1, 4) {
			sc.Kind, sc.Origins = "full-table", c.Rand.Pick(1, 2, 3)
			if sc.NCIDR > 260 {
				sc.NCIDR = 260
			}
		}
		rn.run(sc)
	}
	rn.writeCases()
}

func (rn *runner) writeCases() {
	var sb strings.Builder
	sb.WriteString("From Coq Require Import List NArith String.\nFrom MM Require Import Lib.Bytes Model.Frames Model.Announce.\nImport ListNotations.\n")
	sb.WriteString("Local Open Scope N_scope.\nLocal Open Scope string_scope.\n" + cq.Prelude +
		"Definition r4 (s : string) (pl m : N) : Route := (1, (pl, (bytes_of_hex s, m))).\n")
	const chunk = 10
	var names []string
	for i := 0; i < len(rn.coq); i += chunk {
		j := min(i+chunk, len(rn.coq))
		name := fmt.Sprintf("cs%d", i/chunk)
		names = append(names, name)
		sb.WriteString("Definition " + name + " : list acase := [\n  " + strings.Join(rn.coq[i:j], ";\n  ") + "\n].\n")
	}
	sb.WriteString("Definition cases : list acase := List.concat [" + strings.Join(names, "; ") + "].\n")
	sb.WriteString("Definition M := Eval vm_compute in amismatches cases.\nPrint M.\n")
	rn.c.WriteCasesV("cases.v", sb.String())
}

var _ = hex.EncodeToString
