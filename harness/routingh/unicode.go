package routingh

import (
	"fmt"
	"strings"

	"github.com/postalsys/muti-metroo/internal/routing"
)

// UnicodeCasePhase is a monitor-only witness outside the (ASCII) model: the
// property says domain lookups are case-insensitive. Patterns with non-ASCII
// upper-case letters are stored through advertisements; every spelling of a
// name that strings.ToLower maps to the same string must give the same
// result, and a stored exact pattern must be found (not the wildcard above
// it, not nothing) under its own, its lower-cased and its upper-cased
// spelling.
func UnicodeCasePhase() []Failure {
	var fails []Failure
	m := routing.NewManager(AgentID(0))
	adv := func(peer, origin int, seq uint64, pat string, metric uint16) {
		m.ProcessDomainRouteAdvertise(AgentID(peer), AgentID(origin), seq, []routing.DomainRouteEntry{{Pattern: pat, Metric: metric}}, pathIDs([]int{peer}), nil)
	}
	exact := []string{"M\u00dcNCHEN.example", "caf\u00c9.Example", "\u0394elta.example", "plain.example"}
	for i, p := range exact {
		adv(1, 1, uint64(i+1), p, 5)
	}
	adv(2, 2, 1, "*.example", 0)           // the wildcard one label above all of them, better metric
	adv(2, 2, 2, "*.\u00dcber.example", 3) // non-ASCII wildcard base
	show := func(r *routing.DomainRoute) string {
		if r == nil {
			return "nothing"
		}
		return fmt.Sprintf("%q (metric %d)", r.Pattern, r.Metric)
	}
	for _, p := range exact {
		for _, sp := range []string{p, strings.ToLower(p), strings.ToUpper(p)} {
			r := m.LookupDomain(sp)
			if r == nil || r.IsWildcard || strings.ToLower(r.Pattern) != strings.ToLower(p) {
				fails = append(fails, Failure{"domain-case-fold-misses-exact", fmt.Sprintf("exact pattern %q is stored, lookup %q returned %s", p, sp, show(r))})
			}
		}
	}
	groups := [][]string{
		{"x.\u00dcBER.example", "x.\u00fcber.example", "X.\u00dcber.Example"},
		{"www.example", "WWW.EXAMPLE", "Www.Example"},
		{"m\u00fcnchen.example", "M\u00dcNCHEN.EXAMPLE", "M\u00fcnchen.Example"},
	}
	for _, g := range groups {
		first := show(m.LookupDomain(g[0]))
		for _, sp := range g[1:] {
			if got := show(m.LookupDomain(sp)); got != first {
				fails = append(fails, Failure{"domain-case-fold-inconsistent", fmt.Sprintf("lookups %q and %q differ only in letter case but return %s and %s", g[0], sp, first, got)})
			}
		}
	}
	if r := m.LookupDomain("x.\u00dcBER.example"); r == nil || !r.IsWildcard || strings.ToLower(r.BaseDomain) != "\u00fcber.example" {
		fails = append(fails, Failure{"domain-case-fold-misses-wildcard", fmt.Sprintf("wildcard *.\u00dcber.example is stored, lookup x.\u00dcBER.example returned %s", show(r))})
	}
	return fails
}
