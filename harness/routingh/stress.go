package routingh

import (
	"fmt"
	"sync"
	"time"

	"github.com/postalsys/muti-metroo/internal/routing"
	"github.com/postalsys/muti-metroo/verifharness/vh"
)

// Stress runs the table operations of all four tables concurrently on one
// real routing.Manager (outside any synctest bubble; real time plays no role
// because no cleanup is issued with a finite age). The models treat every
// operation as atomic because each runs under its table's mutex; this phase
// lets the race detector (thorough tier builds with -race) and the final
// structural check object if that stops being true. It returns failures.
func Stress(r *vh.Rand, workers, opsPer int) []Failure {
	m := routing.NewManager(AgentID(0))
	sm := NewStrMaterial(r.Fork())
	var wg sync.WaitGroup
	for w := 0; w < workers; w++ {
		g := NewGen(r.Fork(), "all", sm)
		wg.Add(1)
		go func() {
			defer wg.Done()
			run := &Runner{M: m, Start: time.Now()}
			empty := &Dump{Buckets: map[string][][]Entry{}}
			for i := 0; i < opsPer; i++ {
				op := g.Next(empty, 0)
				switch op.Code {
				case OpTick:
					continue
				case OpClean, OpDClean, OpFClean, OpAClean:
					op.Ms = 3600_000 // nothing is that old: cleanup runs but removes nothing time-dependent
				}
				run.Apply(op)
				for _, l := range g.Lookups(2) {
					for _, x := range g.Pools.Expand(l) {
						run.Apply(x)
					}
				}
			}
		}()
	}
	wg.Wait()
	// structural check of the final state: buckets sorted, one entry per slot, no self path
	var fails []Failure
	d := (&Runner{M: m, Start: time.Now()}).Dump()
	for _, t := range TableNames {
		for _, b := range d.Buckets[t] {
			seen := map[string]bool{}
			for i, e := range b {
				if i > 0 && b[i-1].Metric > e.Metric {
					fails = append(fails, Failure{"stress-bucket-unsorted", fmt.Sprintf("%s %s not metric-sorted after concurrent operations", t, e.Key)})
				}
				id := ident(e)
				if seen[id] {
					fails = append(fails, Failure{"stress-duplicate-slot", fmt.Sprintf("%s twice after concurrent operations", id)})
				}
				seen[id] = true
				for _, p := range e.Path {
					if p == 0 {
						fails = append(fails, Failure{"self-path-stored", fmt.Sprintf("%s has the local agent in its path", id)})
					}
				}
			}
		}
	}
	return fails
}
