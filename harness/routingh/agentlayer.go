package routingh

import (
	"fmt"
	"io"
	"net"
	"os"
	"path/filepath"

	"github.com/postalsys/muti-metroo/internal/agent"
	"github.com/postalsys/muti-metroo/internal/config"
	"github.com/postalsys/muti-metroo/internal/identity"
	"github.com/postalsys/muti-metroo/internal/peer"
	"github.com/postalsys/muti-metroo/internal/protocol"
	"github.com/postalsys/muti-metroo/verifharness/vh"
)

// Agent-level layer: "a peer disconnect AT THE AGENT removes exactly the
// routes learned through that peer from all four tables, whatever the agent's
// own role and configuration". A real agent (agent.New from a config: transit
// only / exit / forward endpoints / forward listeners) learns routes from
// ROUTE_ADVERTISE frames that harness peers feed through its frame
// dispatcher, with and without an agent-presence entry, in different family
// mixes; then the peers disconnect through the agent's real disconnect path
// (peer manager unregisters the connection, agent.handlePeerDisconnect runs).
// The agent's route manager is dumped before and after and judged against the
// harness's own record of which peer delivered each route; afterwards every
// learned key is looked up.

// AgentScenario is the replay description of one agent-level case.
type AgentScenario struct {
	Config string     `json:"config"` // transit | exit | forward-endpoint | forward-listener
	Mix    [][]string `json:"mix"`    // per peer (1..3): families it advertises: cidr, domain, forward, presence
	Order  []int      `json:"order"`  // order in which the peers disconnect
}

var agentScratch string

// AgentCleanup removes the data directories of the agents built by the phase.
func AgentCleanup() {
	if agentScratch != "" {
		os.RemoveAll(agentScratch)
		agentScratch = ""
	}
}

func agentConfigFor(kind string, n int) *config.Config {
	cfg := config.Default()
	cfg.Agent.ID = AgentID(0).String()
	if agentScratch == "" {
		d, err := os.MkdirTemp("", "routingh-agent")
		if err != nil {
			panic(err)
		}
		agentScratch = d
	}
	cfg.Agent.DataDir = filepath.Join(agentScratch, fmt.Sprintf("a%d", n))
	_ = os.MkdirAll(cfg.Agent.DataDir, 0o700)
	cfg.Agent.LogLevel = "error"
	cfg.SOCKS5.Enabled = false
	cfg.Exit.Enabled = false
	cfg.Forward.Endpoints = nil
	cfg.Forward.Listeners = nil
	switch kind {
	case "exit":
		cfg.Exit.Enabled = true
		cfg.Exit.Routes = []string{"10.50.0.0/16"}
		cfg.Exit.DomainRoutes = []string{"*.exit.example.com"}
	case "forward-endpoint":
		cfg.Forward.Endpoints = []config.ForwardEndpoint{{Key: "local-ep", Target: "127.0.0.1:9"}}
	case "forward-listener":
		cfg.Forward.Listeners = []config.ForwardListener{{Key: "web", Address: "127.0.0.1:0"}}
	}
	return cfg
}

var agentSeq uint64

func advFrame(origin identity.AgentID, path []identity.AgentID, routes []protocol.Route) *protocol.Frame {
	agentSeq++
	adv := &protocol.RouteAdvertise{OriginAgent: origin, Sequence: agentSeq, Routes: routes, Path: path}
	return &protocol.Frame{Type: protocol.FrameRouteAdvertise, Payload: adv.Encode()}
}

func has(xs []string, x string) bool {
	for _, y := range xs {
		if x == y {
			return true
		}
	}
	return false
}

// RunAgentScenario runs one scenario on a fresh real agent.
func RunAgentScenario(sc AgentScenario, n int) (fails []Failure) {
	defer func() {
		if r := recover(); r != nil {
			fails = append(fails, Failure{"agent-layer-panic", fmt.Sprint(r)})
		}
	}()
	fail := func(sig, format string, a ...any) {
		fails = append(fails, Failure{sig, fmt.Sprintf("[config %s] ", sc.Config) + fmt.Sprintf(format, a...)})
	}
	a, err := agent.New(agentConfigFor(sc.Config, n))
	if err != nil {
		return []Failure{{"agent-layer-setup", fmt.Sprintf("agent.New(%s): %v", sc.Config, err)}}
	}
	defer a.VerifFlooder().Stop()
	pm := a.VerifPeerManager()
	r := &Runner{M: a.VerifRouteManager()}
	for p := 1; p <= 3; p++ {
		pm.VerifRegister(peer.VerifNewConnection(AgentID(0), AgentID(p), p%2 == 0, io.Discard))
	}
	prov := map[string]int{}
	prev := r.Dump()
	for _, t := range TableNames { // whatever the agent registered from its own configuration is local
		for _, e := range prev.All(t) {
			prov[ident(e)] = 0
		}
	}
	type learned struct {
		table, key string
		look       func() *Entry
	}
	var keys []learned
	feed := func(p int, origin int, routes []protocol.Route) {
		path := []identity.AgentID{AgentID(p)}
		if origin != p {
			path = append(path, AgentID(origin))
		}
		a.VerifProcessFrame(AgentID(p), advFrame(AgentID(origin), path, routes))
		after := r.Dump()
		op := Op{Code: OpAdv, Peer: p}
		bi, ai := index(prev), index(after)
		for id, as := range ai {
			if bs, had := bi[id]; had && content(bs[0]) == content(as[0]) {
				continue
			}
			if as[0].NextHop != uint64(p) {
				fail("learned-route-wrong-nexthop", "%s was delivered by peer %d but is stored with next hop %d", id, p, as[0].NextHop)
			}
		}
		UpdateProvenance(prov, prev, after, op)
		prev = after
	}
	for pi, fams := range sc.Mix {
		p := pi + 1
		origin := p
		if pi == 1 {
			origin = 4 + pi // an agent behind the peer
		}
		var routes []protocol.Route
		if has(fams, "presence") {
			routes = append(routes, protocol.Route{AddressFamily: protocol.AddrFamilyAgent, Prefix: protocol.EncodeAgentPrefix(AgentID(origin)), Metric: 0})
		}
		if has(fams, "cidr") {
			ip := net.IPv4(172, byte(16+p), 0, 0).To4()
			routes = append(routes, protocol.Route{AddressFamily: protocol.AddrFamilyIPv4, PrefixLength: 16, Prefix: ip, Metric: uint16(p)})
			ipc := ip
			keys = append(keys, learned{"cidr", ip.String(), func() *Entry {
				if x := r.M.Lookup(net.IPv4(ipc[0], ipc[1], 3, 4)); x != nil {
					e := r.cidrEntry(x)
					return &e
				}
				return nil
			}})
		}
		if has(fams, "domain") {
			pat := fmt.Sprintf("*.p%d.example.com", p)
			name := fmt.Sprintf("www.p%d.example.com", p)
			routes = append(routes, protocol.Route{AddressFamily: protocol.AddrFamilyDomain, PrefixLength: 1, Prefix: protocol.EncodeDomainPrefix(pat), Metric: uint16(p)})
			keys = append(keys, learned{"domain", name, func() *Entry {
				if x := r.M.LookupDomain(name); x != nil {
					e := r.domainEntry(x)
					return &e
				}
				return nil
			}})
		}
		if has(fams, "forward") {
			// every peer offers the shared key "web" and one of its own
			for _, k := range []string{"web", fmt.Sprintf("svc-p%d", p)} {
				k := k
				routes = append(routes, protocol.Route{AddressFamily: protocol.AddrFamilyForward, Prefix: protocol.EncodeForwardKeyWithTarget(k, "h:1"), Metric: uint16(p)})
				keys = append(keys, learned{"forward", k, func() *Entry {
					if x := r.M.LookupForward(k); x != nil {
						e := r.forwardEntry(x)
						return &e
					}
					return nil
				}})
			}
		}
		if len(routes) > 0 {
			feed(p, origin, routes)
		}
		if has(fams, "presence") {
			o := origin
			keys = append(keys, learned{"agent", fmt.Sprint(o), func() *Entry {
				if x := r.M.LookupAgent(AgentID(o)); x != nil {
					e := r.agentEntry(x)
					return &e
				}
				return nil
			}})
		}
	}
	learnedCount := 0
	for _, from := range prov {
		if from != 0 {
			learnedCount++
		}
	}
	if learnedCount == 0 {
		fail("agent-layer-setup", "no route was learned from the advertisement frames")
	}
	for _, p := range sc.Order {
		before := prev
		a.VerifPeerDisconnect(AgentID(p))
		after := r.Dump()
		ai := index(after)
		for _, t := range TableNames {
			for _, e := range before.All(t) {
				from, known := prov[ident(e)]
				if !known {
					continue
				}
				as, still := ai[ident(e)]
				switch {
				case from == p && still:
					fail("agent-disconnect-left-route", "after the disconnect of peer %d the %s table still holds %s, which was learned through that peer", p, t, ident(e))
				case from != p && !still:
					fail("agent-disconnect-removed-foreign-route", "the disconnect of peer %d removed %s, which was learned through peer %d", p, ident(e), from)
				case from != p && content(as[0]) != content(e):
					fail("agent-disconnect-changed-route", "the disconnect of peer %d changed %s", p, ident(e))
				}
			}
		}
		// lookups must not return a route of the peer that is gone
		for _, k := range keys {
			if e := k.look(); e != nil {
				if from, known := prov[ident(*e)]; known && from == p {
					fail("lookup-returns-disconnected-peers-route", "after the disconnect of peer %d the %s lookup of %q still returns %s learned through it", p, k.table, k.key, ident(*e))
				}
			}
		}
		UpdateProvenance(prov, before, after, Op{Code: OpDisc, Peer: p})
		prev = after
	}
	return fails
}

// AgentScenarios enumerates the configurations x advertisement mixes x
// disconnect orders (systematic; the rng only picks which orders go with
// which mix).
func AgentScenarios(r *vh.Rand, thorough bool) []AgentScenario {
	configs := []string{"transit", "exit", "forward-endpoint", "forward-listener"}
	mixes := [][][]string{
		{{"presence", "cidr", "domain", "forward"}, {"cidr", "domain", "forward"}, {"presence"}},
		{{"forward"}, {"presence", "cidr", "domain", "forward"}, {"domain"}},
		{{"cidr", "domain", "forward"}, {"presence", "forward"}, {"cidr"}},
		{{"presence", "forward"}, {"presence", "cidr"}, {"presence", "domain"}},
	}
	orders := [][]int{{2, 1, 3}, {1, 2, 3}, {3, 2, 1}, {2, 3, 1}, {1, 3, 2}, {3, 1, 2}}
	var out []AgentScenario
	for _, c := range configs {
		for mi, m := range mixes {
			if thorough {
				for _, o := range orders {
					out = append(out, AgentScenario{Config: c, Mix: m, Order: o})
				}
			} else {
				out = append(out, AgentScenario{Config: c, Mix: m, Order: orders[(mi+r.Intn(len(orders)))%len(orders)]})
			}
		}
	}
	return out
}

// AgentPhase runs all scenarios and reports failures through c.
func AgentPhase(c *vh.Ctx) {
	defer AgentCleanup()
	for i, sc := range AgentScenarios(c.Rand.Fork(), c.Thorough()) {
		fails := RunAgentScenario(sc, i)
		c.Count("agent-scenario:" + sc.Config)
		for _, f := range fails {
			c.Fail(f.Sig, f.Detail, sc)
		}
	}
}

// ReplayOther handles replay files that are not operation histories: an
// agent-level scenario is re-run as recorded; anything else re-runs the
// concurrent same-slot phase. It reports whether it handled the replay.
func ReplayOther(c *vh.Ctx) bool {
	var h History
	if err := c.ReadReplay(&h); err == nil && len(h.Ops) > 0 {
		return false
	}
	var sc AgentScenario
	if err := c.ReadReplay(&sc); err == nil && sc.Config != "" {
		defer AgentCleanup()
		for _, f := range RunAgentScenario(sc, 0) {
			c.Fail(f.Sig, f.Detail, sc)
			fmt.Printf("replay: %s: %s\n", f.Sig, f.Detail)
		}
	} else {
		for _, f := range append(UnicodeCasePhase(), ConcurrentSameSlot(60, 50000)...) {
			c.Fail(f.Sig, f.Detail, "non-history phase (non-ASCII case / concurrent same-slot)")
			fmt.Printf("replay: %s: %s\n", f.Sig, f.Detail)
		}
	}
	WriteCases(c, nil)
	return true
}
