package routingh

import (
	"fmt"
	"strings"
	"testing"
	"testing/synctest"

	"github.com/postalsys/muti-metroo/verifharness/vh"
)

// History is one recorded case: the operations and what the implementation
// was observed to do (used as the replay description).
type History struct {
	Name    string   `json:"name"`
	Profile string   `json:"profile"`
	Pools   Pools    `json:"pools"`
	Ops     []Op     `json:"ops"`
	Obs     []uint64 `json:"obs,omitempty"`  // one 32-bit observation per non-lookup op, plus a final one
	Rets    []uint64 `json:"rets,omitempty"` // result of every non-lookup op
	Final   []string `json:"final_dump,omitempty"`
}

// Outcome of running a history on the real code.
type Outcome struct {
	H       History
	Fails   []Failure
	Panic   string
	Mutated int // operations that changed the digest
	Hits    int // lookups that returned a route
	Misses  int // lookups that returned nothing
}

// monitorsFor says which property's monitors are evaluated.
type Monitors struct{ C08, C09, C10 bool }

func MonitorsFor(prop string) Monitors {
	return Monitors{C08: prop == "C08", C09: prop == "C09", C10: prop == "C10"}
}

type runState struct {
	r      *Runner
	p      *Pools
	mon    Monitors
	out    *Outcome
	prev   *Dump
	ld     uint64          // digest of the lookups since the previous observation
	rep    int             // issue every lookup this many times (monitors see all of them)
	prov   map[string]int  // which peer delivered each stored route (harness's own record)
	locals map[string]bool // local domain patterns / forward keys added and not yet removed (harness's own record)
}

func (s *runState) lookup(l Op) {
	r, d := s.r, s.prev
	n := s.rep
	if n < 1 {
		n = 1
	}
	var first uint64
	for k := 0; k < n; k++ {
		ret := r.Apply(l)
		if k == 0 {
			first = ret
			s.ld = mix(s.ld, ret)
			if ret == 0 {
				s.out.Misses++
			} else {
				s.out.Hits++
			}
		} else if ret != first {
			s.out.Fails = append(s.out.Fails, Failure{"lookup-unstable", fmt.Sprintf("the same lookup %+v on an unchanged table returned different routes", l)})
		}
		switch l.Code {
		case OpLookup:
			if s.mon.C08 {
				s.out.Fails = append(s.out.Fails, CheckCIDRLookup(d, LookupIP(l), r.Last)...)
			}
		case OpDLookup:
			if s.mon.C09 {
				s.out.Fails = append(s.out.Fails, CheckDomainLookup(d, l.Name, r.Last)...)
			}
		case OpFLookup:
			if s.mon.C09 {
				s.out.Fails = append(s.out.Fails, CheckKeyedLookup(d, "fwd", l.Name, r.Last)...)
			}
		case OpALookup:
			if s.mon.C09 {
				s.out.Fails = append(s.out.Fails, CheckKeyedLookup(d, "agent", fmt.Sprint(l.Agent), r.Last)...)
			}
		}
	}
}

// do applies one op with the monitors and appends the observation.
func (s *runState) do(op Op) {
	s.out.H.Ops = append(s.out.H.Ops, op)
	if IsLookup(op.Code) {
		for _, l := range s.p.Expand(op) {
			s.lookup(l)
		}
		return
	}
	r := s.r
	now := r.NowMs()
	ret := r.Apply(op)
	after := r.Dump()
	sh := after.Hash()
	if sh != s.prev.Hash() {
		s.out.Mutated++
	}
	s.out.H.Obs = append(s.out.H.Obs, ObsOf(s.ld, ret, sh))
	s.out.H.Rets = append(s.out.H.Rets, ret)
	s.ld = 0
	if s.prov == nil {
		s.prov = map[string]int{}
	}
	if s.locals == nil {
		s.locals = map[string]bool{}
	}
	s.out.Fails = append(s.out.Fails, checkLocalRemoval(s.locals, s.prev, after, op, ret)...)
	// the maintenance rules are evaluated in all three harnesses: every
	// lookup property rests on the buckets being maintained correctly
	s.out.Fails = append(s.out.Fails, CheckMaintenance(s.prev, after, op, ret, now, s.prov)...)
	UpdateProvenance(s.prov, s.prev, after, op)
	s.prev = after
}

func (s *runState) finish() {
	s.out.H.Obs = append(s.out.H.Obs, ObsOf(s.ld, 0, s.prev.Hash()))
	s.out.H.Final = s.prev.Flat()
}

// RunGenerated generates and runs one history online inside a fresh bubble.
func RunGenerated(t *testing.T, name string, g *Gen, mon Monitors, nMut, lookupsPer int) *Outcome {
	out := &Outcome{H: History{Name: name, Profile: g.Profile}}
	synctest.Test(t, func(t *testing.T) {
		out.Panic = vh.Recover(func() {
			s := &runState{r: NewRunner(), p: &g.Pools, mon: mon, out: out}
			s.prev = s.r.Dump()
			for i := 0; i < nMut; i++ {
				op := g.Next(s.prev, s.r.NowMs())
				s.do(op)
				for _, l := range g.Lookups(lookupsPer) {
					s.do(l)
				}
				if i%8 == 7 || Removes(op.Code) {
					for _, l := range g.AllLookups() {
						s.do(l)
					}
				}
			}
			for _, l := range g.AllLookups() {
				s.do(l)
			}
			s.finish()
		})
	})
	out.H.Pools = g.Pools
	return out
}

// Removes says whether the operation can delete routes (everything is looked
// up right after such an operation: the survivors must still be found in
// lowest-metric order).
func Removes(code int) bool {
	switch code {
	case OpWd, OpDisc, OpClean, OpRmLocal, OpRmDyn, OpTRm, OpDDisc, OpDClean, OpDRmLocal, OpDTRm,
		OpFDisc, OpFClean, OpFRmLocal, OpFTRm, OpADisc, OpAClean, OpATRm:
		return true
	}
	return false
}

// RunFixed runs a given list of operations (witnesses, replays). repeatLookups
// > 1 re-issues every lookup that many times (Go map iteration order is
// randomised per iteration, so an order-dependent result shows up quickly).
func RunFixed(t *testing.T, name, profile string, pools Pools, ops []Op, mon Monitors, repeatLookups int) *Outcome {
	out := &Outcome{H: History{Name: name, Profile: profile}}
	for _, op := range ops { // complete the pools before anything refers to them
		pools.Encode(op)
	}
	synctest.Test(t, func(t *testing.T) {
		out.Panic = vh.Recover(func() {
			s := &runState{r: NewRunner(), p: &pools, mon: mon, out: out, rep: repeatLookups}
			s.prev = s.r.Dump()
			for _, op := range ops {
				s.do(op)
			}
			s.finish()
		})
	})
	out.H.Pools = pools
	return out
}

func strsV(strs []string) string {
	var out []string
	for _, s := range strs {
		var b []string
		for i := 0; i < len(s); i++ {
			b = append(b, fmt.Sprint(s[i]))
		}
		out = append(out, "["+strings.Join(b, ";")+"]")
	}
	return "[" + strings.Join(out, ";") + "]"
}

// CaseV renders one history as a Gallina term of type RouteTable.case; strs
// is the name of (or the term for) its string pool.
func CaseV(h History, strs string) string {
	p := h.Pools
	var ops []string
	for _, op := range h.Ops {
		ops = append(ops, "["+strings.Join(p.Encode(op), ";")+"]")
	}
	var nets, obs []string
	for _, n := range p.Nets {
		nets = append(nets, fmt.Sprintf("%d;%s;%d", n.Fam, n.IP, n.Ones))
	}
	for _, o := range h.Obs {
		obs = append(obs, fmt.Sprint(o))
	}
	return "([" + strings.Join(nets, ";") + "]," + strs + ",[" + strings.Join(p.Nums, ";") + "],[" +
		strings.Join(ops, ";") + "],[" + strings.Join(obs, ";") + "])"
}

// CasesFile renders the complete cases.v. String pools that several
// histories share are stated once.
func CasesFile(hs []History) string {
	var sb strings.Builder
	sb.WriteString("From Coq Require Import List NArith.\nFrom MM Require Import Model.RouteTable.\nImport ListNotations.\nLocal Open Scope N_scope.\n")
	var names []string
	pools := map[string]string{}
	for i, h := range hs {
		for _, op := range h.Ops { // completes the pools
			h.Pools.Encode(op)
		}
		hs[i].Pools = h.Pools
		sv := strsV(h.Pools.Strs)
		name, ok := pools[sv]
		if !ok {
			name = fmt.Sprintf("s%d", len(pools))
			pools[sv] = name
			fmt.Fprintf(&sb, "Definition %s : list str := %s.\n", name, sv)
		}
		fmt.Fprintf(&sb, "Definition c%d : case := %s.\n", i, CaseV(hs[i], name))
		names = append(names, fmt.Sprintf("c%d", i))
	}
	sb.WriteString("Definition cases : list case := [" + strings.Join(names, ";") + "].\n")
	sb.WriteString("Definition M := Eval vm_compute in mismatches cases.\nPrint M.\n")
	return sb.String()
}

// WriteCases writes the histories as cases.v files of at most 40 histories
// each (coqc parses very large terms slowly).
func WriteCases(c *vh.Ctx, hs []History) {
	const chunk = 40
	for i, n := 0, 0; i < len(hs); i, n = i+chunk, n+1 {
		end := i + chunk
		if end > len(hs) {
			end = len(hs)
		}
		name := "cases.v"
		if n > 0 {
			name = fmt.Sprintf("cases%d.v", n)
		}
		c.WriteCasesV(name, CasesFile(hs[i:end]))
	}
}

// Report files the outcome of one history with the vh context: the case
// record, histogram counts, and monitor failures.
func Report(c *vh.Ctx, out *Outcome) {
	h := out.H
	nontrivial := out.Mutated >= 2
	c.Case(fmt.Sprintf("%s/%d/%x", h.Name, len(h.Ops), digestOps(h)), nontrivial, h)
	for _, op := range h.Ops {
		c.Count(fmt.Sprintf("op:%02d", op.Code))
	}
	c.Count(fmt.Sprintf("history-len:%d+", len(h.Ops)/100*100))
	c.Res.Histogram["ops-changing-state"] += out.Mutated
	if out.Panic != "" {
		c.Fail("panic", "implementation panicked: "+out.Panic, h)
	}
	for _, f := range out.Fails {
		c.Fail(f.Sig, f.Detail, History{Name: h.Name, Profile: h.Profile, Pools: h.Pools, Ops: h.Ops})
	}
}

func digestOps(h History) uint64 {
	var x uint64 = 1469598103934665603
	for _, o := range h.Obs {
		x = (x ^ o) * 1099511628211
	}
	return x
}

// CountLookups adds result statistics to the histogram.
func CountLookups(c *vh.Ctx, o *Outcome) {
	c.Res.Histogram["lookup:route"] += o.Hits
	c.Res.Histogram["lookup:none"] += o.Misses
	j := 0
	for _, op := range o.H.Ops {
		if IsLookup(op.Code) {
			continue
		}
		if op.Code != OpTick && j < len(o.H.Rets) {
			c.Count(fmt.Sprintf("ret:%02d:%d", op.Code, min(o.H.Rets[j], 3)))
		}
		j++
	}
}

// localBucket returns the table and bucket key a local domain pattern or
// forward key is filed under.
func localBucket(op Op) (table, key string) {
	switch op.Code {
	case OpDAddLocal, OpDRmLocal:
		b := asciiTrim(op.Name)
		if strings.HasPrefix(b, "*.") {
			return "dwild", asciiLower(b[2:])
		}
		return "dexact", asciiLower(op.Name)
	}
	return "fwd", op.Name
}

// checkLocalRemoval: a locally announced domain pattern or forward key that
// was added (and reported added) and has not been removed since can be
// removed with the same spelling, and its locally originated route is gone
// afterwards. locals is the harness's own record of what was added.
func checkLocalRemoval(locals map[string]bool, before, after *Dump, op Op, ret uint64) []Failure {
	id := fmt.Sprintf("%d|%s", op.Code/10, op.Name)
	switch op.Code {
	case OpDAddLocal, OpFAddLocal:
		if ret == 1 {
			locals[id] = true
		}
	case OpDRmLocal, OpFRmLocal:
		if !locals[id] {
			return nil
		}
		delete(locals, id)
		table, key := localBucket(op)
		had := false
		for _, e := range before.All(table) {
			if e.Key == key && e.Origin == 0 {
				had = true
			}
		}
		if !had {
			return nil // the route itself was already taken out by a table-level removal or a disconnect of the local id
		}
		still := false
		for _, e := range after.All(table) {
			if e.Key == key && e.Origin == 0 {
				still = true
			}
		}
		if ret != 1 || still {
			return []Failure{{"local-route-not-removable", fmt.Sprintf("local %q was added and not removed since, but removing it with the same spelling returned %d and its locally originated route is still stored=%v (it keeps winning lookups with its metric)", op.Name, ret, still)}}
		}
	}
	return nil
}
