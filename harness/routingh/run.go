package routingh

import (
	"fmt"
	"strings"
	"testing"
	"testing/synctest"

	"github.com/postalsys/muti-metroo/verifharness/vh"
)

// History is one recorded case: the operations and what the implementation
// was observed to do (used as the replay description).
type History struct {
	Name    string   `json:"name"`
	Profile string   `json:"profile"`
	Ops     []Op     `json:"ops"`
	Obs     []uint64 `json:"obs,omitempty"`
	Final   []string `json:"final_dump,omitempty"`
}

// Outcome of running a history on the real code.
type Outcome struct {
	H       History
	Fails   []Failure
	Panic   string
	Mutated int // operations that changed the digest
}

// monitorsFor says which property's monitors are evaluated.
type Monitors struct{ C08, C09, C10 bool }

func MonitorsFor(prop string) Monitors {
	return Monitors{C08: prop == "C08", C09: prop == "C09", C10: prop == "C10"}
}

// step applies one op with the monitors and appends the observation.
func step(r *Runner, op Op, mon Monitors, out *Outcome, prev **Dump) {
	now := r.NowMs()
	ret := r.Apply(op)
	out.H.Ops = append(out.H.Ops, op)
	out.H.Obs = append(out.H.Obs, ret)
	if IsLookup(op.Code) {
		d := *prev
		switch op.Code {
		case OpLookup:
			if mon.C08 {
				out.Fails = append(out.Fails, CheckCIDRLookup(d, LookupIP(op), r.Last)...)
			}
		case OpDLookup:
			if mon.C09 {
				out.Fails = append(out.Fails, CheckDomainLookup(d, op.Name, r.Last)...)
			}
		case OpFLookup:
			if mon.C09 {
				out.Fails = append(out.Fails, CheckKeyedLookup(d, "fwd", op.Name, r.Last)...)
			}
		case OpALookup:
			if mon.C09 {
				out.Fails = append(out.Fails, CheckKeyedLookup(d, "agent", fmt.Sprint(op.Agent), r.Last)...)
			}
		}
		return
	}
	after := r.Dump()
	h := after.Hash()
	if h != (*prev).Hash() {
		out.Mutated++
	}
	out.H.Obs = append(out.H.Obs, h)
	if mon.C10 {
		out.Fails = append(out.Fails, CheckMaintenance(*prev, after, op, ret, now)...)
	}
	*prev = after
}

// RunGenerated generates and runs one history online inside a fresh bubble.
func RunGenerated(t *testing.T, name string, g *Gen, mon Monitors, nMut, lookupsPer int) *Outcome {
	out := &Outcome{H: History{Name: name, Profile: g.Profile}}
	synctest.Test(t, func(t *testing.T) {
		out.Panic = vh.Recover(func() {
			r := NewRunner()
			prev := r.Dump()
			for i := 0; i < nMut; i++ {
				step(r, g.Next(prev, r.NowMs()), mon, out, &prev)
				for _, l := range g.Lookups(lookupsPer) {
					step(r, l, mon, out, &prev)
				}
			}
			for _, l := range g.AllLookups() {
				step(r, l, mon, out, &prev)
			}
			out.H.Final = prev.Flat()
		})
	})
	return out
}

// RunFixed runs a given list of operations (witnesses, replays). repeatLookups
// > 1 re-issues every lookup that many times (Go map iteration order is
// randomised per iteration, so an order-dependent result shows up quickly).
func RunFixed(t *testing.T, name, profile string, ops []Op, mon Monitors, repeatLookups int) *Outcome {
	out := &Outcome{H: History{Name: name, Profile: profile}}
	synctest.Test(t, func(t *testing.T) {
		out.Panic = vh.Recover(func() {
			r := NewRunner()
			prev := r.Dump()
			for _, op := range ops {
				n := 1
				if IsLookup(op.Code) && repeatLookups > 1 {
					n = repeatLookups
				}
				for k := 0; k < n; k++ {
					step(r, op, mon, out, &prev)
				}
			}
			out.H.Final = prev.Flat()
		})
	})
	return out
}

// CaseV renders one history as a Gallina term of type RouteTable.case.
func CaseV(h History) string {
	var sb strings.Builder
	sb.WriteString("([")
	for i, op := range h.Ops {
		if i > 0 {
			sb.WriteString(";")
		}
		sb.WriteString("[" + strings.Join(Encode(op), ";") + "]")
	}
	sb.WriteString("],[")
	for i, o := range h.Obs {
		if i > 0 {
			sb.WriteString(";")
		}
		fmt.Fprintf(&sb, "%d", o)
	}
	sb.WriteString("])")
	return sb.String()
}

// CasesFile renders the complete cases.v.
func CasesFile(hs []History) string {
	var sb strings.Builder
	sb.WriteString("From Coq Require Import List NArith.\nFrom MM Require Import Model.RouteTable.\nImport ListNotations.\nLocal Open Scope N_scope.\n")
	sb.WriteString("Definition cases : list case := [\n")
	for i, h := range hs {
		if i > 0 {
			sb.WriteString(";\n")
		}
		sb.WriteString(CaseV(h))
	}
	sb.WriteString("].\nDefinition M := Eval vm_compute in mismatches cases.\nPrint M.\n")
	return sb.String()
}

// Report files the outcome of one history with the vh context: the case
// record, histogram counts, and monitor failures.
func Report(c *vh.Ctx, out *Outcome) {
	h := out.H
	nontrivial := out.Mutated >= 2
	c.Case(fmt.Sprintf("%s/%d/%x", h.Name, len(h.Ops), digestOps(h)), nontrivial, h)
	for _, op := range h.Ops {
		c.Count(fmt.Sprintf("op:%02d", op.Code))
	}
	c.Count(fmt.Sprintf("history-len:%d+", len(h.Ops)/100*100))
	c.Res.Histogram["ops-changing-state"] += out.Mutated
	for i := 0; i+1 < len(h.Obs) && i < len(h.Ops); i++ {
	}
	if out.Panic != "" {
		c.Fail("panic", "implementation panicked: "+out.Panic, h)
	}
	for _, f := range out.Fails {
		c.Fail(f.Sig, f.Detail, History{Name: h.Name, Profile: h.Profile, Ops: h.Ops})
	}
}

func digestOps(h History) uint64 {
	var x uint64 = 1469598103934665603
	for _, o := range h.Obs {
		x = (x ^ o) * 1099511628211
	}
	return x
}

// CountLookups adds hit/miss statistics of lookups to the histogram.
func CountLookups(c *vh.Ctx, h History) {
	j := 0
	for _, op := range h.Ops {
		if IsLookup(op.Code) {
			if h.Obs[j] == 0 {
				c.Count(fmt.Sprintf("lookup:%d:none", op.Code))
			} else {
				c.Count(fmt.Sprintf("lookup:%d:route", op.Code))
			}
			j++
		} else {
			if op.Code != OpTick {
				c.Count(fmt.Sprintf("ret:%02d:%d", op.Code, min(h.Obs[j], 3)))
			}
			j += 2
		}
	}
}
