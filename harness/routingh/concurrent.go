package routingh

import (
	"fmt"
	"net"
	"sync"

	"github.com/postalsys/muti-metroo/internal/identity"
	"github.com/postalsys/muti-metroo/internal/routing"
)

// ConcurrentSameSlot is the concurrent phase of the quick tier. The models
// (and the theorems) treat every table operation as one atomic step because
// the code runs it under the table's write lock. Here several goroutines add
// routes for the SAME key and origin (successive sequence numbers arriving
// through different peers) at the same moment, released on a barrier while
// another writer holds the table's write lock for a long scan
// (RemoveRoutesFromPeer over a large table). Whatever order the table
// serialises them in, a newer sequence replaces the origin's older entry, so
// afterwards exactly one route of that origin is stored for the key, it is the
// newest one, the lookup returns it, and after the origin's withdrawal the
// lookup returns nothing. Evaluated on the dump of all four tables.
func ConcurrentSameSlot(rounds, filler int) []Failure {
	const nAdders = 4
	local, origin, fillPeer, fillOrigin, gone := AgentID(0), AgentID(1), AgentID(5), AgentID(6), AgentID(7)
	peers := []identity.AgentID{AgentID(2), AgentID(3), AgentID(4), AgentID(5)}
	m := routing.NewManager(local)
	cidr := func(i int) *net.IPNet {
		return &net.IPNet{IP: net.IPv4(11, byte(i>>16), byte(i>>8), byte(i)).To4(), Mask: net.CIDRMask(32, 32)}
	}
	for i := 0; i < filler; i++ {
		p := []identity.AgentID{fillPeer, fillOrigin}
		m.ProcessRouteAdvertise(fillPeer, fillOrigin, 1, []routing.RouteEntry{{Network: cidr(i), Metric: 1}}, p, nil)
		m.ProcessDomainRouteAdvertise(fillPeer, fillOrigin, 1, []routing.DomainRouteEntry{{Pattern: fmt.Sprintf("host%d.fill.example.net", i), Metric: 1}}, p, nil)
		m.ProcessForwardRouteAdvertise(fillPeer, fillOrigin, 1, []routing.ForwardRouteEntry{{Key: fmt.Sprintf("fill%d", i), Target: "h:1", Metric: 1}}, p, nil)
		var a identity.AgentID
		a[0], a[1], a[2], a[3] = 0xEE, byte(i>>16), byte(i>>8), byte(i)
		m.ProcessAgentRouteAdvertise(fillPeer, a, 1, a, p, nil, 1)
	}
	var fails []Failure
	fail := func(sig, format string, a ...any) {
		if len(fails) < 40 {
			fails = append(fails, Failure{sig, fmt.Sprintf(format, a...)})
		}
	}
	type tableCase struct {
		name       string
		disconnect func()
		add        func(round, i int)
		// stored returns (sequence, metric) of every stored route of the origin for the round's key
		stored   func(round int) [][2]uint64
		lookup   func(round int) (found bool, seq, metric uint64)
		withdraw func(round int)
	}
	net24 := func(round int) *net.IPNet {
		return &net.IPNet{IP: net.IPv4(12, byte(round>>8), byte(round), 0).To4(), Mask: net.CIDRMask(24, 32)}
	}
	path := func(i int) []identity.AgentID { return []identity.AgentID{peers[i], origin} }
	cases := []tableCase{
		{
			name:       "cidr",
			disconnect: func() { m.HandlePeerDisconnect(gone) },
			add: func(round, i int) {
				m.ProcessRouteAdvertise(peers[i], origin, uint64(i+1), []routing.RouteEntry{{Network: net24(round), Metric: uint16(10 * (i + 1))}}, path(i), nil)
			},
			stored: func(round int) (out [][2]uint64) {
				for _, r := range m.Table().GetAllRoutesForNetwork(net24(round)) {
					if r.OriginAgent == origin {
						out = append(out, [2]uint64{r.Sequence, uint64(r.Metric)})
					}
				}
				return
			},
			lookup: func(round int) (bool, uint64, uint64) {
				r := m.Lookup(net.IPv4(12, byte(round>>8), byte(round), 7))
				if r == nil {
					return false, 0, 0
				}
				return true, r.Sequence, uint64(r.Metric)
			},
			withdraw: func(round int) { m.ProcessRouteWithdraw(origin, []routing.RouteEntry{{Network: net24(round)}}) },
		},
		{
			name:       "domain",
			disconnect: func() { m.HandlePeerDisconnectDomain(gone) },
			add: func(round, i int) {
				m.ProcessDomainRouteAdvertise(peers[i], origin, uint64(i+1), []routing.DomainRouteEntry{{Pattern: fmt.Sprintf("*.Svc%d.Example.com", round), Metric: uint16(10 * (i + 1))}}, path(i), nil)
			},
			stored: func(round int) (out [][2]uint64) {
				for _, r := range m.DomainTable().GetRoutesFromAgent(origin) {
					if asciiLower(r.Pattern) == fmt.Sprintf("*.svc%d.example.com", round) {
						out = append(out, [2]uint64{r.Sequence, uint64(r.Metric)})
					}
				}
				return
			},
			lookup: func(round int) (bool, uint64, uint64) {
				r := m.LookupDomain(fmt.Sprintf("api.svc%d.example.COM", round))
				if r == nil {
					return false, 0, 0
				}
				return true, r.Sequence, uint64(r.Metric)
			},
			withdraw: func(round int) { m.DomainTable().RemoveRoute(fmt.Sprintf("*.Svc%d.Example.com", round), origin) },
		},
		{
			name:       "forward",
			disconnect: func() { m.HandlePeerDisconnectForward(gone) },
			add: func(round, i int) {
				m.ProcessForwardRouteAdvertise(peers[i], origin, uint64(i+1), []routing.ForwardRouteEntry{{Key: fmt.Sprintf("svc%d", round), Target: "h:1", Metric: uint16(10 * (i + 1))}}, path(i), nil)
			},
			stored: func(round int) (out [][2]uint64) {
				for _, r := range m.ForwardTable().GetRoutesFromAgent(origin) {
					if r.Key == fmt.Sprintf("svc%d", round) {
						out = append(out, [2]uint64{r.Sequence, uint64(r.Metric)})
					}
				}
				return
			},
			lookup: func(round int) (bool, uint64, uint64) {
				r := m.LookupForward(fmt.Sprintf("svc%d", round))
				if r == nil {
					return false, 0, 0
				}
				return true, r.Sequence, uint64(r.Metric)
			},
			withdraw: func(round int) { m.ForwardTable().RemoveRoute(fmt.Sprintf("svc%d", round), origin) },
		},
		{
			// the agent table's slot is (origin, next hop): all adders deliver through the same peer
			name:       "agent",
			disconnect: func() { m.HandlePeerDisconnectAgent(gone) },
			add: func(round, i int) {
				m.ProcessAgentRouteAdvertise(peers[0], origin, uint64(i+1), agentOfRound(round), path(0), nil, uint16(10*(i+1)+1))
			},
			stored: func(round int) (out [][2]uint64) {
				for _, r := range m.AgentTable().GetRoutesForAgent(agentOfRound(round)) {
					if r.OriginAgent == origin {
						out = append(out, [2]uint64{r.Sequence, uint64(r.Metric)})
					}
				}
				return
			},
			lookup: func(round int) (bool, uint64, uint64) {
				r := m.LookupAgent(agentOfRound(round))
				if r == nil {
					return false, 0, 0
				}
				return true, r.Sequence, uint64(r.Metric)
			},
			withdraw: func(round int) { m.AgentTable().RemoveRoute(agentOfRound(round), origin) },
		},
	}
	for _, tc := range cases {
		for round := 0; round < rounds; round++ {
			start := make(chan struct{})
			var wg sync.WaitGroup
			wg.Add(1)
			go func() {
				defer wg.Done()
				close(start)
				tc.disconnect() // long scan under the write lock; removes nothing
			}()
			for i := 0; i < nAdders; i++ {
				wg.Add(1)
				go func(i int) {
					defer wg.Done()
					<-start
					tc.add(round, i)
				}(i)
			}
			wg.Wait()
			wantSeq, wantMetric := uint64(nAdders), uint64(10*nAdders+1)
			st := tc.stored(round)
			if len(st) != 1 {
				fail("concurrent-add-duplicate-slot", "%s table, round %d: %d routes of one origin stored for one key after concurrent advertisements (sequence, metric): %v", tc.name, round, len(st), st)
			} else if st[0] != [2]uint64{wantSeq, wantMetric} {
				fail("concurrent-add-stale-route", "%s table, round %d: stored (sequence, metric) %v, want the newest (%d, %d)", tc.name, round, st[0], wantSeq, wantMetric)
			}
			if ok, seq, metric := tc.lookup(round); !ok || seq != wantSeq || metric != wantMetric {
				fail("concurrent-add-lookup-stale", "%s table, round %d: lookup returned found=%v sequence %d metric %d, want the origin's only route: sequence %d metric %d", tc.name, round, ok, seq, metric, wantSeq, wantMetric)
			}
			tc.withdraw(round)
			if ok, seq, _ := tc.lookup(round); ok {
				fail("concurrent-withdraw-left-route", "%s table, round %d: lookup still returns a route (sequence %d) after the origin's withdrawal", tc.name, round, seq)
			}
		}
	}
	return fails
}

func agentOfRound(round int) identity.AgentID {
	var a identity.AgentID
	a[0], a[1], a[2] = 0xDD, byte(round>>8), byte(round)
	return a
}
